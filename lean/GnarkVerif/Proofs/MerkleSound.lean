import GnarkVerif.Proofs.MerkleVerify
/-
Helper lemmas for C16, part A.3: completeness and soundness of the structured verifier (`c12`/`vs`)
against `mth`/`mpath`.  Soundness uses: `hn` injective, ranges of `hl` and `hn` disjoint.
-/
namespace GV.Merkle
set_option linter.unusedSectionVars false

section Sound
variable {A D : Type} [Inhabited D] (hl : A → D) (hn : D → D → D)

theorem wrapL_append (c : D) (R E : List D) : wrapL hn c (R ++ E) = wrapL hn (wrapL hn c R) E := by
  simp [wrapL, List.foldl_append]

theorem wrapL_snoc (c : D) (R : List D) (a : D) : wrapL hn c (R ++ [a]) = hn a (wrapL hn c R) := by
  simp [wrapL, List.foldl_append]

theorem wrapL_cons (c p : D) (R : List D) : wrapL hn c (p :: R) = wrapL hn (hn p c) R := rfl

theorem wrapL_nil (c : D) : wrapL hn c [] = c := rfl

theorem list_snoc_cases {α : Type} (l : List α) : l = [] ∨ ∃ L b, l = L ++ [b] := by
  induction l with
  | nil => left; rfl
  | cons a t ih =>
    right
    rcases ih with rfl | ⟨L, b, rfl⟩
    · exact ⟨[], a, rfl⟩
    · exact ⟨a :: L, b, rfl⟩

/-! ### completeness -/

theorem climb_complete : ∀ (h : Nat) (X : List A) (q : Nat) (x : A) (R : List D), X.length = 2^h → X[q]? = some x →
    climb hn h q (hl x) (mpath hl hn h X q ++ R) = some (mth hl hn h X, R)
  | 0, X, q, x, R, hX, hx => by
    match X, hX with
    | [y], _ =>
      cases q with
      | zero => simp at hx; subst hx; simp [climb, mpath, mth]
      | succ q => simp at hx
  | h+1, X, q, x, R, hX, hx => by
    have hp := two_pow_pos h
    have hq : q < X.length := by
      by_contra hc
      rw [List.getElem?_eq_none (by omega)] at hx
      cases hx
    have hgt : 2^h < X.length := by rw [hX, pow_succ]; omega
    have l1 : (X.take (2^h)).length = 2^h := by rw [List.length_take]; omega
    have l2 : (X.drop (2^h)).length = 2^h := by rw [List.length_drop, hX, pow_succ]; omega
    have hmod : q % 2^(h+1) = q := Nat.mod_eq_of_lt (by rw [← hX]; exact hq)
    simp only [climb, hmod]
    by_cases hlt : q < 2^h
    · rw [mpath_succ_left hl hn h X q hgt hlt, List.append_assoc,
        climb_complete h (X.take (2^h)) q x _ l1 (by rw [List.getElem?_take_of_lt hlt]; exact hx)]
      simp only [List.singleton_append, hlt, if_true]
      rw [mth_succ_of_gt hl hn h X hgt]
    · rw [mpath_succ_right hl hn h X q hgt hlt, List.append_assoc, climb_sub hn h q _ _ (by omega),
        climb_complete h (X.drop (2^h)) (q - 2^h) x _ l2
          (by rw [List.getElem?_drop, show 2^h + (q - 2^h) = q by omega]; exact hx)]
      simp only [List.singleton_append, hlt, if_false]
      rw [mth_succ_of_gt hl hn h X hgt]

theorem vs_complete : ∀ (h : Nat) (X : List A) (i : Nat) (x : A) (E : List D), 0 < X.length → X.length ≤ 2^h →
    X[i]? = some x →
    vs hn h X.length i (hl x) (mpath hl hn h X i ++ E) = some (wrapL hn (mth hl hn h X) E)
  | 0, X, i, x, E, h0, h1, hx => by
    match X, h0, h1 with
    | [y], _, _ =>
      cases i with
      | zero => simp at hx; subst hx; simp [vs, c12, mpath, mth]
      | succ i => simp at hx
    | _ :: _ :: _, _, h1 => simp at h1
  | h+1, X, i, x, E, h0, h1, hx => by
    have hp := two_pow_pos h
    have hi : i < X.length := by
      by_contra hc
      rw [List.getElem?_eq_none (by omega)] at hx
      cases hx
    by_cases hle : X.length ≤ 2^h
    · have := vs_complete h X i x E h0 hle hx
      rw [mpath_succ_of_le hl hn h X i hle, mth_succ_of_le hl hn h X hle]
      simpa [vs, c12, hle] using this
    · have hgt : 2^h < X.length := by omega
      have l1 : (X.take (2^h)).length = 2^h := by rw [List.length_take]; omega
      have l2 : (X.drop (2^h)).length = X.length - 2^h := by rw [List.length_drop]
      rw [pow_succ] at h1
      by_cases hlt : i < 2^h
      · simp only [vs, c12, hle, hlt, if_false, if_true]
        rw [mpath_succ_left hl hn h X i hgt hlt, List.append_assoc,
          climb_complete hl hn h (X.take (2^h)) i x _ l1 (by rw [List.getElem?_take_of_lt hlt]; exact hx)]
        simp only [List.singleton_append, Option.map_some]
        rw [mth_succ_of_gt hl hn h X hgt]
      · have hx2 : (X.drop (2^h))[i - 2^h]? = some x := by
          rw [List.getElem?_drop, show 2^h + (i - 2^h) = i by omega]; exact hx
        by_cases hfull : X.length = 2^(h+1)
        · have l2' : (X.drop (2^h)).length = 2^h := by rw [l2, hfull, pow_succ]; omega
          simp only [vs, c12, hle, hlt, if_false]
          rw [if_pos hfull, c12_full hn h (i - 2^h) _ _ (by rw [hfull, pow_succ] at hi; omega),
            mpath_succ_right hl hn h X i hgt hlt, List.append_assoc,
            climb_complete hl hn h (X.drop (2^h)) (i - 2^h) x _ l2' hx2]
          simp only [List.singleton_append, Option.map_some]
          rw [mth_succ_of_gt hl hn h X hgt]
        · have := vs_complete h (X.drop (2^h)) (i - 2^h) x (mth hl hn h (X.take (2^h)) :: E)
            (by rw [l2]; omega) (by rw [l2]; omega) hx2
          rw [l2] at this
          simp only [vs, c12, hle, hlt, if_false]
          rw [if_neg hfull, mpath_succ_right hl hn h X i hgt hlt, List.append_assoc, List.singleton_append]
          unfold vs at this
          rw [this, mth_succ_of_gt hl hn h X hgt]
          rfl

/-! ### soundness -/

/-- `t` is obtained from `a` by `m` applications of `fun t => hn t p` / `fun t => hn p t` -/
inductive Wrap (hn : D → D → D) : Nat → D → D → Prop
  | base (a : D) : Wrap hn 0 a a
  | left {m : Nat} {a t : D} (p : D) : Wrap hn m a t → Wrap hn (m+1) a (hn t p)
  | right {m : Nat} {a t : D} (p : D) : Wrap hn m a t → Wrap hn (m+1) a (hn p t)

theorem wrap_wrapL (a : D) : ∀ (R : List D) (m : Nat) (c : D), Wrap hn m a c → Wrap hn (m + R.length) a (wrapL hn c R)
  | [], m, c, hw => by simpa [wrapL] using hw
  | p :: R, m, c, hw => by
    have := wrap_wrapL a R (m+1) (hn p c) (Wrap.right p hw)
    rw [wrapL_cons]
    have e : m + (p :: R).length = m + 1 + R.length := by simp; omega
    rw [e]; exact this

theorem climb_wrap : ∀ (h i : Nat) (s : D) (sibs : List D) (s' : D) (rem : List D),
    climb hn h i s sibs = some (s', rem) → Wrap hn h s s'
  | 0, i, s, sibs, s', rem, hc => by
    simp only [climb, Option.some.injEq, Prod.mk.injEq] at hc
    rw [← hc.1]; exact Wrap.base s
  | h+1, i, s, sibs, s', rem, hc => by
    simp only [climb] at hc
    cases hcl : climb hn h i s sibs with
    | none => rw [hcl] at hc; cases hc
    | some r =>
      obtain ⟨s0, rem0⟩ := r
      rw [hcl] at hc
      cases rem0 with
      | nil => cases hc
      | cons p rem1 =>
        simp only [Option.some.injEq, Prod.mk.injEq] at hc
        have hw := climb_wrap h i s sibs s0 _ hcl
        rw [← hc.1]
        split
        · exact Wrap.left p hw
        · exact Wrap.right p hw

variable (hinj : ∀ a b c e, hn a b = hn c e → a = c ∧ b = e) (hdisj : ∀ x a b, hl x ≠ hn a b)
include hinj hdisj

/-- a sub-tree hash of at most `2^h` leaves is not reached by more than `h` wrapping steps from a leaf hash -/
theorem no_wrap : ∀ (h : Nat) (X : List A) (m : Nat) (y : A) (t : D), 0 < X.length → X.length ≤ 2^h → h < m →
    Wrap hn m (hl y) t → t ≠ mth hl hn h X
  | 0, X, m, y, t, h0, h1, hm, hw => by
    match X, h0, h1 with
    | [x], _, _ =>
      obtain ⟨m', rfl⟩ : ∃ m', m = m' + 1 := ⟨m - 1, by omega⟩
      intro ht
      simp only [mth] at ht
      cases hw with
      | left p hw' => exact hdisj x _ _ ht.symm
      | right p hw' => exact hdisj x _ _ ht.symm
    | _ :: _ :: _, _, h1 => simp at h1
  | h+1, X, m, y, t, h0, h1, hm, hw => by
    have hp := two_pow_pos h
    by_cases hle : X.length ≤ 2^h
    · rw [mth_succ_of_le hl hn h X hle]
      exact no_wrap h X m y t h0 hle (by omega) hw
    · have hgt : 2^h < X.length := by omega
      have l1 : (X.take (2^h)).length = 2^h := by rw [List.length_take]; omega
      have l2 : (X.drop (2^h)).length = X.length - 2^h := by rw [List.length_drop]
      rw [pow_succ] at h1
      rw [mth_succ_of_gt hl hn h X hgt]
      obtain ⟨m', rfl⟩ : ∃ m', m = m' + 1 := ⟨m - 1, by omega⟩
      intro ht
      cases hw with
      | left p hw' =>
        have := (hinj _ _ _ _ ht).1
        exact no_wrap h (X.take (2^h)) m' y _ (by omega) (by omega) (by omega) hw' this
      | right p hw' =>
        have := (hinj _ _ _ _ ht).2
        exact no_wrap h (X.drop (2^h)) m' y _ (by rw [l2]; omega) (by rw [l2]; omega) (by omega) hw' this

/-- in a complete sub-tree of height `g` every leaf hash sits at depth exactly `g` -/
theorem full_depth : ∀ (g : Nat) (Y : List A) (m : Nat) (y : A) (t : D), Y.length = 2^g →
    Wrap hn m (hl y) t → t = mth hl hn g Y → m = g
  | 0, Y, m, y, t, hY, hw, ht => by
    match Y, hY with
    | [x], _ =>
      simp only [mth] at ht
      cases hw with
      | base => rfl
      | left p hw' => exact absurd ht.symm (hdisj x _ _)
      | right p hw' => exact absurd ht.symm (hdisj x _ _)
  | g+1, Y, m, y, t, hY, hw, ht => by
    have hp := two_pow_pos g
    have hgt : 2^g < Y.length := by rw [hY, pow_succ]; omega
    have l1 : (Y.take (2^g)).length = 2^g := by rw [List.length_take]; omega
    have l2 : (Y.drop (2^g)).length = 2^g := by rw [List.length_drop, hY, pow_succ]; omega
    rw [mth_succ_of_gt hl hn g Y hgt] at ht
    cases hw with
    | base => exact absurd ht (hdisj y _ _)
    | left p hw' =>
      have := full_depth g (Y.take (2^g)) _ y _ l1 hw' (hinj _ _ _ _ ht).1
      omega
    | right p hw' =>
      have := full_depth g (Y.drop (2^g)) _ y _ l2 hw' (hinj _ _ _ _ ht).2
      omega

omit hdisj in
theorem peel : ∀ (R E : List D) (c1 c2 : D), wrapL hn c1 R = wrapL hn c2 E →
    (∃ R', R = R' ++ E ∧ wrapL hn c1 R' = c2) ∨ (∃ E', E = E' ++ R ∧ c1 = wrapL hn c2 E') := by
  intro R
  generalize hlen : R.length = n
  induction n generalizing R with
  | zero =>
    intro E c1 c2 h
    have : R = [] := List.length_eq_zero_iff.mp hlen
    subst this
    right; exact ⟨E, by simp, by simpa [wrapL] using h⟩
  | succ n ih =>
    intro E c1 c2 h
    rcases list_snoc_cases R with rfl | ⟨R0, a, rfl⟩
    · simp at hlen
    · have hlen0 : R0.length = n := by simpa using hlen
      rcases list_snoc_cases E with rfl | ⟨E0, b, rfl⟩
      · left; exact ⟨R0 ++ [a], by simp, by simpa [wrapL] using h⟩
      · rw [wrapL_snoc, wrapL_snoc] at h
        obtain ⟨hab, h'⟩ := hinj _ _ _ _ h
        subst hab
        rcases ih R0 hlen0 E0 c1 c2 h' with ⟨R', hR, hw⟩ | ⟨E', hE, hw⟩
        · left; exact ⟨R', by rw [hR, List.append_assoc], hw⟩
        · right; exact ⟨E', by rw [hE, List.append_assoc], hw⟩

omit hdisj in
theorem climb_sound : ∀ (h : Nat) (X : List A) (q : Nat) (s : D) (sibs rem : List D), X.length = 2^h → q < 2^h →
    climb hn h q s sibs = some (mth hl hn h X, rem) →
    (∃ x, X[q]? = some x ∧ s = hl x) ∧ sibs = mpath hl hn h X q ++ rem
  | 0, X, q, s, sibs, rem, hX, hq, hc => by
    match X, hX with
    | [x], _ =>
      have : q = 0 := by simpa using hq
      subst this
      simp only [climb, mth, Option.some.injEq, Prod.mk.injEq] at hc
      exact ⟨⟨x, by simp, hc.1⟩, by simp [mpath, hc.2]⟩
  | h+1, X, q, s, sibs, rem, hX, hq, hc => by
    have hp := two_pow_pos h
    have hgt : 2^h < X.length := by rw [hX, pow_succ]; omega
    have l1 : (X.take (2^h)).length = 2^h := by rw [List.length_take]; omega
    have l2 : (X.drop (2^h)).length = 2^h := by rw [List.length_drop, hX, pow_succ]; omega
    have hmod : q % 2^(h+1) = q := Nat.mod_eq_of_lt hq
    simp only [climb, hmod] at hc
    rw [mth_succ_of_gt hl hn h X hgt] at hc
    cases hcl : climb hn h q s sibs with
    | none => rw [hcl] at hc; cases hc
    | some r =>
      obtain ⟨s0, rem0⟩ := r
      rw [hcl] at hc
      cases rem0 with
      | nil => cases hc
      | cons p rem1 =>
        simp only [Option.some.injEq, Prod.mk.injEq] at hc
        obtain ⟨hc1, hc2⟩ := hc
        subst hc2
        by_cases hlt : q < 2^h
        · rw [if_pos hlt] at hc1
          obtain ⟨e1, e2⟩ := hinj _ _ _ _ hc1
          subst e1; subst e2
          obtain ⟨⟨x, hx, hs⟩, hsib⟩ := climb_sound h (X.take (2^h)) q s sibs _ l1 hlt hcl
          rw [List.getElem?_take_of_lt hlt] at hx
          refine ⟨⟨x, hx, hs⟩, ?_⟩
          rw [mpath_succ_left hl hn h X q hgt hlt, hsib]; simp
        · rw [if_neg hlt] at hc1
          obtain ⟨e1, e2⟩ := hinj _ _ _ _ hc1
          subst e1; subst e2
          rw [climb_sub hn h q s sibs (by omega)] at hcl
          obtain ⟨⟨x, hx, hs⟩, hsib⟩ := climb_sound h (X.drop (2^h)) (q - 2^h) s sibs _ l2
            (by rw [pow_succ] at hq; omega) hcl
          rw [List.getElem?_drop, show 2^h + (q - 2^h) = q by omega] at hx
          refine ⟨⟨x, hx, hs⟩, ?_⟩
          rw [mpath_succ_right hl hn h X q hgt hlt, hsib]; simp

/-- the outer elements of a proof are hashes of complete sub-trees of height ≥ `g0` -/
def FullBlocks (g0 : Nat) (E : List D) : Prop :=
  ∀ e ∈ E, ∃ (g : Nat) (Y : List A), g0 ≤ g ∧ Y.length = 2^g ∧ e = mth hl hn g Y

theorem c12_sound : ∀ (h : Nat) (X : List A) (i : Nat) (E : List D) (y : A) (sibs : List D) (c : D) (rem : List D),
    0 < X.length → X.length ≤ 2^h → i < X.length → FullBlocks hl hn h E →
    c12 hn h X.length i (hl y) sibs = some (c, rem) → wrapL hn c rem = wrapL hn (mth hl hn h X) E →
    (∃ x, X[i]? = some x ∧ hl y = hl x) ∧ sibs = mpath hl hn h X i ++ E
  | 0, X, i, E, y, sibs, c, rem, h0, h1, hi, hE, hc, hw => by
    match X, h0, h1 with
    | [x], _, _ =>
      have : i = 0 := by simpa using hi
      subst this
      simp only [c12, Option.some.injEq, Prod.mk.injEq] at hc
      obtain ⟨rfl, rfl⟩ := hc
      simp only [mth] at hw
      simp only [mpath, List.nil_append]
      rcases peel hn hinj sibs E _ _ hw with ⟨R', hR, hw'⟩ | ⟨E', hE', hw'⟩
      · rcases list_snoc_cases R' with rfl | ⟨R0, a, rfl⟩
        · exact ⟨⟨x, by simp, by simpa [wrapL] using hw'⟩, by simpa using hR⟩
        · rw [wrapL_snoc] at hw'; exact absurd hw'.symm (hdisj x _ _)
      · rcases list_snoc_cases E' with rfl | ⟨E0, a, rfl⟩
        · exact ⟨⟨x, by simp, by simpa [wrapL] using hw'⟩, by simpa using hE'.symm⟩
        · rw [wrapL_snoc] at hw'; exact absurd hw' (hdisj y _ _)
    | _ :: _ :: _, _, h1 => simp at h1
  | h+1, X, i, E, y, sibs, c, rem, h0, h1, hi, hE, hc, hw => by
    have hp := two_pow_pos h
    have hE' : FullBlocks hl hn h E := by
      intro e he
      obtain ⟨g, Y, hg, hY, he'⟩ := hE e he
      exact ⟨g, Y, by omega, hY, he'⟩
    by_cases hle : X.length ≤ 2^h
    · rw [mth_succ_of_le hl hn h X hle] at hw
      rw [mpath_succ_of_le hl hn h X i hle]
      simp only [c12, hle, if_true] at hc
      exact c12_sound h X i E y sibs c rem h0 hle hi hE' hc hw
    · have hgt : 2^h < X.length := by omega
      have l1 : (X.take (2^h)).length = 2^h := by rw [List.length_take]; omega
      have l2 : (X.drop (2^h)).length = X.length - 2^h := by rw [List.length_drop]
      rw [pow_succ] at h1
      rw [mth_succ_of_gt hl hn h X hgt] at hw
      have hE2 : FullBlocks hl hn h (mth hl hn h (X.take (2^h)) :: E) := by
        intro e he
        rcases List.mem_cons.mp he with rfl | he
        · exact ⟨h, X.take (2^h), le_refl h, l1, rfl⟩
        · exact hE' e he
      by_cases hlt : i < 2^h
      · simp only [c12, hle, hlt, if_false, if_true] at hc
        cases hcl : climb hn h i (hl y) sibs with
        | none => rw [hcl] at hc; cases hc
        | some r =>
          obtain ⟨s0, rem0⟩ := r
          rw [hcl] at hc
          cases rem0 with
          | nil => cases hc
          | cons p rem1 =>
            simp only [Option.some.injEq, Prod.mk.injEq] at hc
            obtain ⟨rfl, rfl⟩ := hc
            have hws := climb_wrap hn h i (hl y) sibs s0 _ hcl
            -- the good case: s0 = hash of the left half, p = hash of the right half, rem1 = E
            have good : s0 = mth hl hn h (X.take (2^h)) → p = mth hl hn h (X.drop (2^h)) → rem1 = E →
                (∃ x, X[i]? = some x ∧ hl y = hl x) ∧ sibs = mpath hl hn (h+1) X i ++ E := by
              intro e1 e2 e3
              subst e1; subst e2; subst e3
              obtain ⟨⟨x, hx, hs⟩, hsib⟩ := climb_sound hl hn hinj h (X.take (2^h)) i (hl y) sibs _ l1 hlt hcl
              rw [List.getElem?_take_of_lt hlt] at hx
              refine ⟨⟨x, hx, hs⟩, ?_⟩
              rw [mpath_succ_left hl hn h X i hgt hlt, hsib]; simp
            rcases peel hn hinj rem1 E _ _ hw with ⟨R', hR, hw'⟩ | ⟨E', hEE, hw'⟩
            · rcases list_snoc_cases R' with rfl | ⟨R0, a, rfl⟩
              · obtain ⟨e1, e2⟩ := hinj _ _ _ _ (by simpa [wrapL] using hw')
                exact good e1 e2 (by simpa using hR)
              · rw [wrapL_snoc] at hw'
                have h2 := (hinj _ _ _ _ hw').2
                have hwr := wrap_wrapL hn (hl y) R0 (h+1) _ (Wrap.left p hws)
                exact absurd h2 (no_wrap hl hn hinj hdisj h (X.drop (2^h)) _ y _ (by rw [l2]; omega) (by rw [l2]; omega)
                  (by omega) hwr)
            · rcases list_snoc_cases E' with rfl | ⟨E0, a, rfl⟩
              · obtain ⟨e1, e2⟩ := hinj _ _ _ _ (by simpa [wrapL] using hw')
                exact good e1 e2 (by simpa using hEE.symm)
              · rw [wrapL_snoc] at hw'
                have h1' := (hinj _ _ _ _ hw').1
                obtain ⟨g, Y, hg, hY, ha⟩ := hE a (by rw [hEE]; simp)
                have := full_depth hl hn hinj hdisj g Y h y s0 hY hws (by rw [h1', ha])
                omega
      · have hx2 : ∀ x, (X.drop (2^h))[i - 2^h]? = some x → X[i]? = some x := by
          intro x hx
          rw [List.getElem?_drop, show 2^h + (i - 2^h) = i by omega] at hx; exact hx
        by_cases hfull : X.length = 2^(h+1)
        · have l2' : (X.drop (2^h)).length = 2^h := by rw [l2, hfull, pow_succ]; omega
          simp only [c12, hle, hlt, if_false] at hc
          rw [if_pos hfull] at hc
          cases hcl : c12 hn h (2^h) (i - 2^h) (hl y) sibs with
          | none => rw [hcl] at hc; cases hc
          | some r =>
            obtain ⟨c0, rem0⟩ := r
            rw [hcl] at hc
            cases rem0 with
            | nil => cases hc
            | cons p rem1 =>
              simp only [Option.some.injEq, Prod.mk.injEq] at hc
              obtain ⟨rfl, rfl⟩ := hc
              have hcl' : c12 hn h (X.drop (2^h)).length (i - 2^h) (hl y) sibs = some (c0, p :: rem1) := by
                rw [l2']; exact hcl
              obtain ⟨⟨x, hx, hs⟩, hsib⟩ := c12_sound h (X.drop (2^h)) (i - 2^h) _ y sibs c0 (p :: rem1)
                (by omega) (by omega) (by omega) hE2 hcl' (by rw [wrapL_cons, hw]; rfl)
              refine ⟨⟨x, hx2 x hx, hs⟩, ?_⟩
              rw [mpath_succ_right hl hn h X i hgt hlt, hsib]; simp
        · simp only [c12, hle, hlt, if_false] at hc
          rw [if_neg hfull, ← l2] at hc
          obtain ⟨⟨x, hx, hs⟩, hsib⟩ := c12_sound h (X.drop (2^h)) (i - 2^h) _ y sibs c rem
            (by rw [l2]; omega) (by rw [l2]; omega) (by rw [l2]; omega) hE2 hc (by rw [hw]; rfl)
          refine ⟨⟨x, hx2 x hx, hs⟩, ?_⟩
          rw [mpath_succ_right hl hn h X i hgt hlt, hsib]; simp

end Sound
end GV.Merkle
