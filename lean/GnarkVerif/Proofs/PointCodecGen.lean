import GnarkVerif.Gen.PointCodec.bn254
import GnarkVerif.Gen.PointCodec.grumpkin
import GnarkVerif.Gen.PointCodec.stark_curve
import GnarkVerif.Gen.PointCodec.bls12_377
import GnarkVerif.Gen.PointCodec.bls12_381
import GnarkVerif.Gen.PointCodec.bls24_315
import GnarkVerif.Gen.PointCodec.bls24_317
import GnarkVerif.Gen.PointCodec.bw6_633
import GnarkVerif.Gen.PointCodec.bw6_761
import GnarkVerif.Gen.PointCodec.secp256k1
import GnarkVerif.Proofs.PointCodec
/-
C07 — tie T for the flag dispatch of `ecc/<curve>/marshal.go` (G1): the GENERIC Go text of the two families (2 flag bits: bn254, grumpkin,
stark-curve; 3 flag bits: the BLS12 / BLS24 / BW6 curves) with the element size `fb` and the right-hand side `g` of the curve equation as
parameters, the lemmas `rfl` that every package's translation (Gen/PointCodec/<curve>.lean) IS the generic text at its own constants, the
Go-exact variant `goDecode` of the model decoder, and the refinement proofs.
-/
namespace GV.PointCodec
open GV GV.Alg GV.PointCodecGo
set_option linter.unusedVariables false
set_option linter.unusedSectionVars false
set_option linter.unusedSimpArgs false

/-! ## the generic Go text -/

def goIsZeroed (firstByte : UInt8) (buf : List UInt8) : Bool :=
(if (firstByte != (0 : UInt8)) then
false
else
(if buf.any (fun b => (b != (0 : UInt8))) then false else
true))

def goIsMaskInvalid (msb : UInt8) : Bool :=
(let mData : UInt8 := (msb &&& (224 : UInt8));
(((mData == (224 : UInt8)) || (mData == (96 : UInt8))) || (mData == (32 : UInt8))))

def goSetBytes2 {F : Type} (fb : Nat) (g : F → F) (P : Prims F) (pX pY : F) (buf : List UInt8) (subGroupCheck : Bool) : Except GoErr (F × F × Nat) :=
(if (decide (buf.length < fb)) then
(.error .ErrShortBuffer)
else
(if ¬(0 < buf.length) then .error .outOfRange else
(let mData : UInt8 := ((buf.getD 0 0) &&& (192 : UInt8));
(let k_1 := fun (_ : Unit) => ((if (mData == (64 : UInt8)) then
(if ¬(fb ≤ buf.length ∧ 0 < buf.length) then .error .outOfRange else
(if (!(goIsZeroed ((buf.getD 0 0) &&& (~~~(192 : UInt8))) (goSlice buf 1 fb))) then
(.error .ErrInvalidInfinityEncoding)
else
(let pX := P.zero;
(let pY := P.zero;
(.ok (pX, pY, fb))))))
else
(if (mData == (0 : UInt8)) then
(if ¬(fb ≤ buf.length) then .error .outOfRange else
(match P.setBytesCanonical (goSlice buf 0 fb) with
| none => (.error .setBytesCanonical)
| some v_ => let pX := v_;
(if ¬((fb * 2) ≤ buf.length) then .error .outOfRange else
(match P.setBytesCanonical (goSlice buf fb (fb * 2)) with
| none => (.error .setBytesCanonical)
| some v_ => let pY := v_;
(if (subGroupCheck && (!(P.isInSubGroup pX pY))) then
(.error (.new "invalid point: subgroup check failed"))
else
(.ok (pX, pY, (2 * fb))))))))
else
(let bufX : List UInt8 := List.replicate fb 0;
(if ¬(fb ≤ buf.length) then .error .outOfRange else
(let bufX := goCopy (goSlice bufX 0 fb) (goSlice buf 0 fb) ++ bufX.drop fb;
(let bufX := bufX.set 0 ((bufX.getD 0 0) &&& (~~~(192 : UInt8)));
(match P.setBytesCanonical (goSlice bufX 0 fb) with
| none => (.error .setBytesCanonical)
| some v_ => let pX := v_;
(let YSquared : F := P.zero;
let Y : F := P.zero;
(let YSquared := g pX;
((match P.sqrt YSquared with
| none => (.error (.new "invalid compressed coordinate: square root doesn't exist"))
| some v_ => let Y := v_;
(let Y := (if (P.lex Y) then
(let Y := (if (mData == (128 : UInt8)) then
(let Y := P.neg Y;
Y)
else
Y);
Y)
else
(let Y := (if (mData == (192 : UInt8)) then
(let Y := P.neg Y;
Y)
else
Y);
Y));
(let pY := Y;
(if (subGroupCheck && (!(P.isInSubGroup pX pY))) then
(.error (.new "invalid point: subgroup check failed"))
else
(.ok (pX, pY, fb)))))))))))))))) : Except GoErr (F × F × Nat));
if (mData == (0 : UInt8)) then
(if (decide (buf.length < (2 * fb))) then
(.error .ErrShortBuffer)
else
k_1 ())
else
k_1 ()))))

def goSetBytes3 {F : Type} (fb : Nat) (g : F → F) (P : Prims F) (pX pY : F) (buf : List UInt8) (subGroupCheck : Bool) : Except GoErr (F × F × Nat) :=
(if (decide (buf.length < fb)) then
(.error .ErrShortBuffer)
else
(if ¬(0 < buf.length) then .error .outOfRange else
(let mData : UInt8 := ((buf.getD 0 0) &&& (224 : UInt8));
(if (goIsMaskInvalid mData) then
(.error .ErrInvalidEncoding)
else
(let k_1 := fun (_ : Unit) => ((if (mData == (192 : UInt8)) then
(if ¬(fb ≤ buf.length ∧ 0 < buf.length) then .error .outOfRange else
(if (!(goIsZeroed ((buf.getD 0 0) &&& (~~~(224 : UInt8))) (goSlice buf 1 fb))) then
(.error .ErrInvalidInfinityEncoding)
else
(let pX := P.zero;
(let pY := P.zero;
(.ok (pX, pY, fb))))))
else
(if (mData == (64 : UInt8)) then
(if ¬((2 * fb) ≤ buf.length ∧ 0 < buf.length) then .error .outOfRange else
(if (!(goIsZeroed ((buf.getD 0 0) &&& (~~~(224 : UInt8))) (goSlice buf 1 (2 * fb)))) then
(.error .ErrInvalidInfinityEncoding)
else
(let pX := P.zero;
(let pY := P.zero;
(.ok (pX, pY, (2 * fb)))))))
else
(if (mData == (0 : UInt8)) then
(if ¬(fb ≤ buf.length) then .error .outOfRange else
(match P.setBytesCanonical (goSlice buf 0 fb) with
| none => (.error .setBytesCanonical)
| some v_ => let pX := v_;
(if ¬((fb * 2) ≤ buf.length) then .error .outOfRange else
(match P.setBytesCanonical (goSlice buf fb (fb * 2)) with
| none => (.error .setBytesCanonical)
| some v_ => let pY := v_;
(if (subGroupCheck && (!(P.isInSubGroup pX pY))) then
(.error (.new "invalid point: subgroup check failed"))
else
(.ok (pX, pY, (2 * fb))))))))
else
(let bufX : List UInt8 := List.replicate fb 0;
(if ¬(fb ≤ buf.length) then .error .outOfRange else
(let bufX := goCopy (goSlice bufX 0 fb) (goSlice buf 0 fb) ++ bufX.drop fb;
(let bufX := bufX.set 0 ((bufX.getD 0 0) &&& (~~~(224 : UInt8)));
(match P.setBytesCanonical (goSlice bufX 0 fb) with
| none => (.error .setBytesCanonical)
| some v_ => let pX := v_;
(let YSquared : F := P.zero;
let Y : F := P.zero;
(let YSquared := g pX;
((match P.sqrt YSquared with
| none => (.error (.new "invalid compressed coordinate: square root doesn't exist"))
| some v_ => let Y := v_;
(let Y := (if (P.lex Y) then
(let Y := (if (mData == (128 : UInt8)) then
(let Y := P.neg Y;
Y)
else
Y);
Y)
else
(let Y := (if (mData == (160 : UInt8)) then
(let Y := P.neg Y;
Y)
else
Y);
Y));
(let pY := Y;
(if (subGroupCheck && (!(P.isInSubGroup pX pY))) then
(.error (.new "invalid point: subgroup check failed"))
else
(.ok (pX, pY, fb))))))))))))))))) : Except GoErr (F × F × Nat));
if ((mData == (0 : UInt8)) || (mData == (64 : UInt8))) then
(if (decide (buf.length < (2 * fb))) then
(.error .ErrShortBuffer)
else
k_1 ())
else
k_1 ())))))

def goBytes2 {F : Type} (fb : Nat) (P : Prims F) (pX pY : F) : List UInt8 :=
let res : List UInt8 := List.replicate fb 0;
(if ((P.isZero pX) && (P.isZero pY)) then
(let res := res.set 0 (64 : UInt8);
res)
else
(let msbMask : UInt8 := (128 : UInt8);
(let msbMask := (if (P.lex pY) then
(let msbMask : UInt8 := (192 : UInt8);
msbMask)
else
msbMask);
(let res := goPutAt res 0 (P.putElement pX);
(let res := res.set 0 ((res.getD 0 0) ||| msbMask);
res)))))

def goRawBytes2 {F : Type} (fb : Nat) (P : Prims F) (pX pY : F) : List UInt8 :=
let res : List UInt8 := List.replicate (2 * fb) 0;
(if ((P.isZero pX) && (P.isZero pY)) then
(let res := res.set 0 (0 : UInt8);
res)
else
(let res := goPutAt res fb (P.putElement pY);
(let res := goPutAt res 0 (P.putElement pX);
(let res := res.set 0 ((res.getD 0 0) ||| (0 : UInt8));
res))))

def goBytes3 {F : Type} (fb : Nat) (P : Prims F) (pX pY : F) : List UInt8 :=
let res : List UInt8 := List.replicate fb 0;
(if ((P.isZero pX) && (P.isZero pY)) then
(let res := res.set 0 (192 : UInt8);
res)
else
(let msbMask : UInt8 := (128 : UInt8);
(let msbMask := (if (P.lex pY) then
(let msbMask : UInt8 := (160 : UInt8);
msbMask)
else
msbMask);
(let res := goPutAt res 0 (P.putElement pX);
(let res := res.set 0 ((res.getD 0 0) ||| msbMask);
res)))))

def goRawBytes3 {F : Type} (fb : Nat) (P : Prims F) (pX pY : F) : List UInt8 :=
let res : List UInt8 := List.replicate (2 * fb) 0;
(if ((P.isZero pX) && (P.isZero pY)) then
(let res := res.set 0 (64 : UInt8);
res)
else
(let res := goPutAt res fb (P.putElement pY);
(let res := goPutAt res 0 (P.putElement pX);
(let res := res.set 0 ((res.getD 0 0) ||| (0 : UInt8));
res))))

/-- secp256k1: raw encoding only, no flag -/
def goSetBytesRaw {F : Type} (fb : Nat) (P : Prims F) (pX pY : F) (buf : List UInt8) (subGroupCheck : Bool) : Except GoErr (F × F × Nat) :=
(if (decide (buf.length < (2 * fb))) then
(.error .ErrShortBuffer)
else
(if ¬(fb ≤ buf.length) then .error .outOfRange else
(match P.setBytesCanonical (goSlice buf 0 fb) with
| none => (.error .setBytesCanonical)
| some v_ => let pX := v_;
(if ¬((fb * 2) ≤ buf.length) then .error .outOfRange else
(match P.setBytesCanonical (goSlice buf fb (fb * 2)) with
| none => (.error .setBytesCanonical)
| some v_ => let pY := v_;
(if (subGroupCheck && (!(P.isInSubGroup pX pY))) then
(.error (.new "invalid point: subgroup check failed"))
else
(.ok (pX, pY, (2 * fb)))))))))

def goRawBytesRaw {F : Type} (fb : Nat) (P : Prims F) (pX pY : F) : List UInt8 :=
let res : List UInt8 := List.replicate (2 * fb) 0;
(let res := goPutAt res fb (P.putElement pY);
(let res := goPutAt res 0 (P.putElement pX);
res))

/-! ### G2 over a tower: component-wise element codecs -/

def goSetBytes2E2 {F B : Type} (fb : Nat) (g : F → F) (P : Prims F) (Q : Comps F B) (pX pY : F) (buf : List UInt8) (subGroupCheck : Bool) : Except GoErr (F × F × Nat) :=
(if (decide (buf.length < (2 * fb))) then
(.error .ErrShortBuffer)
else
(if ¬(0 < buf.length) then .error .outOfRange else
(let mData : UInt8 := ((buf.getD 0 0) &&& (192 : UInt8));
(let k_2 := fun (_ : Unit) => ((if (mData == (64 : UInt8)) then
(if ¬((2 * fb) ≤ buf.length ∧ 0 < buf.length) then .error .outOfRange else
(if (!(goIsZeroed ((buf.getD 0 0) &&& (~~~(192 : UInt8))) (goSlice buf 1 (2 * fb)))) then
(.error .ErrInvalidInfinityEncoding)
else
(let pX := P.zero;
(let pY := P.zero;
(.ok (pX, pY, (2 * fb)))))))
else
(if (mData == (0 : UInt8)) then
(if ¬(fb ≤ buf.length) then .error .outOfRange else
(match Q.sbc (goSlice buf 0 fb) with
| none => (.error .setBytesCanonical)
| some v_ => let pX := Q.setComp "A1" pX v_;
(if ¬((fb * 2) ≤ buf.length) then .error .outOfRange else
(match Q.sbc (goSlice buf fb (fb * 2)) with
| none => (.error .setBytesCanonical)
| some v_ => let pX := Q.setComp "A0" pX v_;
(if ¬((fb * 3) ≤ buf.length) then .error .outOfRange else
(match Q.sbc (goSlice buf (fb * 2) (fb * 3)) with
| none => (.error .setBytesCanonical)
| some v_ => let pY := Q.setComp "A1" pY v_;
(if ¬((fb * 4) ≤ buf.length) then .error .outOfRange else
(match Q.sbc (goSlice buf (fb * 3) (fb * 4)) with
| none => (.error .setBytesCanonical)
| some v_ => let pY := Q.setComp "A0" pY v_;
(if (subGroupCheck && (!(P.isInSubGroup pX pY))) then
(.error (.new "invalid point: subgroup check failed"))
else
(.ok (pX, pY, (4 * fb))))))))))))
else
(let bufX : List UInt8 := List.replicate fb 0;
(if ¬(fb ≤ buf.length) then .error .outOfRange else
(let bufX := goCopy (goSlice bufX 0 fb) (goSlice buf 0 fb) ++ bufX.drop fb;
(let bufX := bufX.set 0 ((bufX.getD 0 0) &&& (~~~(192 : UInt8)));
(match Q.sbc (goSlice bufX 0 fb) with
| none => (.error .setBytesCanonical)
| some v_ => let pX := Q.setComp "A1" pX v_;
(if ¬((fb * 2) ≤ buf.length) then .error .outOfRange else
(match Q.sbc (goSlice buf fb (fb * 2)) with
| none => (.error .setBytesCanonical)
| some v_ => let pX := Q.setComp "A0" pX v_;
(let YSquared : F := P.zero;
let Y : F := P.zero;
(let YSquared := g pX;
((if (Q.legendre YSquared == (-1 : Int)) then
(.error (.new "invalid compressed coordinate: square root doesn't exist"))
else
(let Y := Q.sqrtU YSquared;
(let Y := (if (P.lex Y) then
(let Y := (if (mData == (128 : UInt8)) then
(let Y := P.neg Y;
Y)
else
Y);
Y)
else
(let Y := (if (mData == (192 : UInt8)) then
(let Y := P.neg Y;
Y)
else
Y);
Y));
(let pY := Y;
(if (subGroupCheck && (!(P.isInSubGroup pX pY))) then
(.error (.new "invalid point: subgroup check failed"))
else
(.ok (pX, pY, (2 * fb)))))))))))))))))))) : Except GoErr (F × F × Nat));
if (mData == (0 : UInt8)) then
(if (decide (buf.length < (4 * fb))) then
(.error .ErrShortBuffer)
else
k_2 ())
else
k_2 ()))))

def goSetBytes3E2 {F B : Type} (fb : Nat) (g : F → F) (P : Prims F) (Q : Comps F B) (pX pY : F) (buf : List UInt8) (subGroupCheck : Bool) : Except GoErr (F × F × Nat) :=
(if (decide (buf.length < (2 * fb))) then
(.error .ErrShortBuffer)
else
(if ¬(0 < buf.length) then .error .outOfRange else
(let mData : UInt8 := ((buf.getD 0 0) &&& (224 : UInt8));
(if (goIsMaskInvalid mData) then
(.error .ErrInvalidEncoding)
else
(let k_2 := fun (_ : Unit) => ((if (mData == (192 : UInt8)) then
(if ¬((2 * fb) ≤ buf.length ∧ 0 < buf.length) then .error .outOfRange else
(if (!(goIsZeroed ((buf.getD 0 0) &&& (~~~(224 : UInt8))) (goSlice buf 1 (2 * fb)))) then
(.error .ErrInvalidInfinityEncoding)
else
(let pX := P.zero;
(let pY := P.zero;
(.ok (pX, pY, (2 * fb)))))))
else
(if (mData == (64 : UInt8)) then
(if ¬((4 * fb) ≤ buf.length ∧ 0 < buf.length) then .error .outOfRange else
(if (!(goIsZeroed ((buf.getD 0 0) &&& (~~~(224 : UInt8))) (goSlice buf 1 (4 * fb)))) then
(.error .ErrInvalidInfinityEncoding)
else
(let pX := P.zero;
(let pY := P.zero;
(.ok (pX, pY, (4 * fb)))))))
else
(if (mData == (0 : UInt8)) then
(if ¬(fb ≤ buf.length) then .error .outOfRange else
(match Q.sbc (goSlice buf 0 fb) with
| none => (.error .setBytesCanonical)
| some v_ => let pX := Q.setComp "A1" pX v_;
(if ¬((fb * 2) ≤ buf.length) then .error .outOfRange else
(match Q.sbc (goSlice buf fb (fb * 2)) with
| none => (.error .setBytesCanonical)
| some v_ => let pX := Q.setComp "A0" pX v_;
(if ¬((fb * 3) ≤ buf.length) then .error .outOfRange else
(match Q.sbc (goSlice buf (fb * 2) (fb * 3)) with
| none => (.error .setBytesCanonical)
| some v_ => let pY := Q.setComp "A1" pY v_;
(if ¬((fb * 4) ≤ buf.length) then .error .outOfRange else
(match Q.sbc (goSlice buf (fb * 3) (fb * 4)) with
| none => (.error .setBytesCanonical)
| some v_ => let pY := Q.setComp "A0" pY v_;
(if (subGroupCheck && (!(P.isInSubGroup pX pY))) then
(.error (.new "invalid point: subgroup check failed"))
else
(.ok (pX, pY, (4 * fb))))))))))))
else
(let bufX : List UInt8 := List.replicate fb 0;
(if ¬(fb ≤ buf.length) then .error .outOfRange else
(let bufX := goCopy (goSlice bufX 0 fb) (goSlice buf 0 fb) ++ bufX.drop fb;
(let bufX := bufX.set 0 ((bufX.getD 0 0) &&& (~~~(224 : UInt8)));
(match Q.sbc (goSlice bufX 0 fb) with
| none => (.error .setBytesCanonical)
| some v_ => let pX := Q.setComp "A1" pX v_;
(if ¬((fb * 2) ≤ buf.length) then .error .outOfRange else
(match Q.sbc (goSlice buf fb (fb * 2)) with
| none => (.error .setBytesCanonical)
| some v_ => let pX := Q.setComp "A0" pX v_;
(let YSquared : F := P.zero;
let Y : F := P.zero;
(let YSquared := g pX;
((if (Q.legendre YSquared == (-1 : Int)) then
(.error (.new "invalid compressed coordinate: square root doesn't exist"))
else
(let Y := Q.sqrtU YSquared;
(let Y := (if (P.lex Y) then
(let Y := (if (mData == (128 : UInt8)) then
(let Y := P.neg Y;
Y)
else
Y);
Y)
else
(let Y := (if (mData == (160 : UInt8)) then
(let Y := P.neg Y;
Y)
else
Y);
Y));
(let pY := Y;
(if (subGroupCheck && (!(P.isInSubGroup pX pY))) then
(.error (.new "invalid point: subgroup check failed"))
else
(.ok (pX, pY, (2 * fb))))))))))))))))))))) : Except GoErr (F × F × Nat));
if ((mData == (0 : UInt8)) || (mData == (64 : UInt8))) then
(if (decide (buf.length < (4 * fb))) then
(.error .ErrShortBuffer)
else
k_2 ())
else
k_2 ())))))

def goSetBytes3E4 {F B : Type} (fb : Nat) (g : F → F) (P : Prims F) (Q : Comps F B) (pX pY : F) (buf : List UInt8) (subGroupCheck : Bool) : Except GoErr (F × F × Nat) :=
(if (decide (buf.length < (4 * fb))) then
(.error .ErrShortBuffer)
else
(if ¬(0 < buf.length) then .error .outOfRange else
(let mData : UInt8 := ((buf.getD 0 0) &&& (224 : UInt8));
(if (goIsMaskInvalid mData) then
(.error .ErrInvalidEncoding)
else
(let k_2 := fun (_ : Unit) => ((if (mData == (192 : UInt8)) then
(if ¬((4 * fb) ≤ buf.length ∧ 0 < buf.length) then .error .outOfRange else
(if (!(goIsZeroed ((buf.getD 0 0) &&& (~~~(224 : UInt8))) (goSlice buf 1 (4 * fb)))) then
(.error .ErrInvalidInfinityEncoding)
else
(let pX := P.zero;
(let pY := P.zero;
(.ok (pX, pY, (4 * fb)))))))
else
(if (mData == (64 : UInt8)) then
(if ¬((8 * fb) ≤ buf.length ∧ 0 < buf.length) then .error .outOfRange else
(if (!(goIsZeroed ((buf.getD 0 0) &&& (~~~(224 : UInt8))) (goSlice buf 1 (8 * fb)))) then
(.error .ErrInvalidInfinityEncoding)
else
(let pX := P.zero;
(let pY := P.zero;
(.ok (pX, pY, (8 * fb)))))))
else
(if (mData == (0 : UInt8)) then
(if ¬((fb * 1) ≤ buf.length) then .error .outOfRange else
(match Q.sbc (goSlice buf (fb * 0) (fb * 1)) with
| none => (.error .setBytesCanonical)
| some v_ => let pX := Q.setComp "B1.A1" pX v_;
(if ¬((fb * 2) ≤ buf.length) then .error .outOfRange else
(match Q.sbc (goSlice buf (fb * 1) (fb * 2)) with
| none => (.error .setBytesCanonical)
| some v_ => let pX := Q.setComp "B1.A0" pX v_;
(if ¬((fb * 3) ≤ buf.length) then .error .outOfRange else
(match Q.sbc (goSlice buf (fb * 2) (fb * 3)) with
| none => (.error .setBytesCanonical)
| some v_ => let pX := Q.setComp "B0.A1" pX v_;
(if ¬((fb * 4) ≤ buf.length) then .error .outOfRange else
(match Q.sbc (goSlice buf (fb * 3) (fb * 4)) with
| none => (.error .setBytesCanonical)
| some v_ => let pX := Q.setComp "B0.A0" pX v_;
(if ¬((fb * 5) ≤ buf.length) then .error .outOfRange else
(match Q.sbc (goSlice buf (fb * 4) (fb * 5)) with
| none => (.error .setBytesCanonical)
| some v_ => let pY := Q.setComp "B1.A1" pY v_;
(if ¬((fb * 6) ≤ buf.length) then .error .outOfRange else
(match Q.sbc (goSlice buf (fb * 5) (fb * 6)) with
| none => (.error .setBytesCanonical)
| some v_ => let pY := Q.setComp "B1.A0" pY v_;
(if ¬((fb * 7) ≤ buf.length) then .error .outOfRange else
(match Q.sbc (goSlice buf (fb * 6) (fb * 7)) with
| none => (.error .setBytesCanonical)
| some v_ => let pY := Q.setComp "B0.A1" pY v_;
(if ¬((fb * 8) ≤ buf.length) then .error .outOfRange else
(match Q.sbc (goSlice buf (fb * 7) (fb * 8)) with
| none => (.error .setBytesCanonical)
| some v_ => let pY := Q.setComp "B0.A0" pY v_;
(if (subGroupCheck && (!(P.isInSubGroup pX pY))) then
(.error (.new "invalid point: subgroup check failed"))
else
(.ok (pX, pY, (8 * fb))))))))))))))))))))
else
(let bufX : List UInt8 := List.replicate fb 0;
(if ¬(fb ≤ buf.length) then .error .outOfRange else
(let bufX := goCopy (goSlice bufX 0 fb) (goSlice buf 0 fb) ++ bufX.drop fb;
(let bufX := bufX.set 0 ((bufX.getD 0 0) &&& (~~~(224 : UInt8)));
(match Q.sbc (goSlice bufX (fb * 0) (fb * 1)) with
| none => (.error .setBytesCanonical)
| some v_ => let pX := Q.setComp "B1.A1" pX v_;
(if ¬((fb * 2) ≤ buf.length) then .error .outOfRange else
(match Q.sbc (goSlice buf (fb * 1) (fb * 2)) with
| none => (.error .setBytesCanonical)
| some v_ => let pX := Q.setComp "B1.A0" pX v_;
(if ¬((fb * 3) ≤ buf.length) then .error .outOfRange else
(match Q.sbc (goSlice buf (fb * 2) (fb * 3)) with
| none => (.error .setBytesCanonical)
| some v_ => let pX := Q.setComp "B0.A1" pX v_;
(if ¬((fb * 4) ≤ buf.length) then .error .outOfRange else
(match Q.sbc (goSlice buf (fb * 3) (fb * 4)) with
| none => (.error .setBytesCanonical)
| some v_ => let pX := Q.setComp "B0.A0" pX v_;
(let YSquared : F := P.zero;
let Y : F := P.zero;
(let YSquared := g pX;
((if (Q.legendre YSquared == (-1 : Int)) then
(.error (.new "invalid compressed coordinate: square root doesn't exist"))
else
(let Y := Q.sqrtU YSquared;
(let Y := (if (P.lex Y) then
(let Y := (if (mData == (128 : UInt8)) then
(let Y := P.neg Y;
Y)
else
Y);
Y)
else
(let Y := (if (mData == (160 : UInt8)) then
(let Y := P.neg Y;
Y)
else
Y);
Y));
(let pY := Y;
(if (subGroupCheck && (!(P.isInSubGroup pX pY))) then
(.error (.new "invalid point: subgroup check failed"))
else
(.ok (pX, pY, (4 * fb))))))))))))))))))))))))) : Except GoErr (F × F × Nat));
if ((mData == (0 : UInt8)) || (mData == (64 : UInt8))) then
(if (decide (buf.length < (8 * fb))) then
(.error .ErrShortBuffer)
else
k_2 ())
else
k_2 ())))))

/-- `x³ + b` as the Go text computes it (`Square`, `Mul`, `Add` of `bCurveCoeff`) -/
def goRhs {F : Type} (P : Prims F) (x : F) : F := P.add (P.mul (P.square x) x) P.bCurveCoeff
/-- G2 of bw6-633 / bw6-761: `x³ + b'` with the twist coefficient -/
def goRhsTwist {F : Type} (P : Prims F) (x : F) : F := P.add (P.mul (P.square x) x) P.bTwistCurveCoeff
/-- stark-curve: `x³ + x + b` -/
def goRhsA1 {F : Type} (P : Prims F) (x : F) : F := P.add (P.add (P.mul (P.square x) x) x) P.bCurveCoeff

/-! ## every package's translation is the generic text -/
section inst
variable {F : Type} (P : Prims F) (pX pY : F) (buf : List UInt8) (sub : Bool)

theorem bn254_isZeroed (b : UInt8) (l : List UInt8) : GV.Gen.PointCodec.bn254.isZeroed b l = goIsZeroed b l := rfl
theorem bn254_setBytes : GV.Gen.PointCodec.bn254.G1_setBytes P pX pY buf sub = goSetBytes2 32 (goRhs P) P pX pY buf sub := rfl
theorem bn254_SetBytes : GV.Gen.PointCodec.bn254.G1_SetBytes P pX pY buf = goSetBytes2 32 (goRhs P) P pX pY buf true := rfl
theorem bn254_Bytes : GV.Gen.PointCodec.bn254.G1_Bytes P pX pY = goBytes2 32 P pX pY := rfl
theorem bn254_RawBytes : GV.Gen.PointCodec.bn254.G1_RawBytes P pX pY = goRawBytes2 32 P pX pY := rfl

theorem grumpkin_isZeroed (b : UInt8) (l : List UInt8) : GV.Gen.PointCodec.grumpkin.isZeroed b l = goIsZeroed b l := rfl
theorem grumpkin_setBytes : GV.Gen.PointCodec.grumpkin.G1_setBytes P pX pY buf sub = goSetBytes2 32 (goRhs P) P pX pY buf sub := rfl
theorem grumpkin_SetBytes : GV.Gen.PointCodec.grumpkin.G1_SetBytes P pX pY buf = goSetBytes2 32 (goRhs P) P pX pY buf true := rfl
theorem grumpkin_Bytes : GV.Gen.PointCodec.grumpkin.G1_Bytes P pX pY = goBytes2 32 P pX pY := rfl
theorem grumpkin_RawBytes : GV.Gen.PointCodec.grumpkin.G1_RawBytes P pX pY = goRawBytes2 32 P pX pY := rfl

theorem stark_curve_isZeroed (b : UInt8) (l : List UInt8) : GV.Gen.PointCodec.stark_curve.isZeroed b l = goIsZeroed b l := rfl
theorem stark_curve_setBytes : GV.Gen.PointCodec.stark_curve.G1_setBytes P pX pY buf sub = goSetBytes2 32 (goRhsA1 P) P pX pY buf sub := rfl
theorem stark_curve_SetBytes : GV.Gen.PointCodec.stark_curve.G1_SetBytes P pX pY buf = goSetBytes2 32 (goRhsA1 P) P pX pY buf true := rfl
theorem stark_curve_Bytes : GV.Gen.PointCodec.stark_curve.G1_Bytes P pX pY = goBytes2 32 P pX pY := rfl
theorem stark_curve_RawBytes : GV.Gen.PointCodec.stark_curve.G1_RawBytes P pX pY = goRawBytes2 32 P pX pY := rfl

theorem bls12_377_isZeroed (b : UInt8) (l : List UInt8) : GV.Gen.PointCodec.bls12_377.isZeroed b l = goIsZeroed b l := rfl
theorem bls12_377_setBytes : GV.Gen.PointCodec.bls12_377.G1_setBytes P pX pY buf sub = goSetBytes3 48 (goRhs P) P pX pY buf sub := rfl
theorem bls12_377_SetBytes : GV.Gen.PointCodec.bls12_377.G1_SetBytes P pX pY buf = goSetBytes3 48 (goRhs P) P pX pY buf true := rfl
theorem bls12_377_Bytes : GV.Gen.PointCodec.bls12_377.G1_Bytes P pX pY = goBytes3 48 P pX pY := rfl
theorem bls12_377_RawBytes : GV.Gen.PointCodec.bls12_377.G1_RawBytes P pX pY = goRawBytes3 48 P pX pY := rfl

theorem bls12_381_isZeroed (b : UInt8) (l : List UInt8) : GV.Gen.PointCodec.bls12_381.isZeroed b l = goIsZeroed b l := rfl
theorem bls12_381_setBytes : GV.Gen.PointCodec.bls12_381.G1_setBytes P pX pY buf sub = goSetBytes3 48 (goRhs P) P pX pY buf sub := rfl
theorem bls12_381_SetBytes : GV.Gen.PointCodec.bls12_381.G1_SetBytes P pX pY buf = goSetBytes3 48 (goRhs P) P pX pY buf true := rfl
theorem bls12_381_Bytes : GV.Gen.PointCodec.bls12_381.G1_Bytes P pX pY = goBytes3 48 P pX pY := rfl
theorem bls12_381_RawBytes : GV.Gen.PointCodec.bls12_381.G1_RawBytes P pX pY = goRawBytes3 48 P pX pY := rfl

theorem bls24_315_isZeroed (b : UInt8) (l : List UInt8) : GV.Gen.PointCodec.bls24_315.isZeroed b l = goIsZeroed b l := rfl
theorem bls24_315_setBytes : GV.Gen.PointCodec.bls24_315.G1_setBytes P pX pY buf sub = goSetBytes3 40 (goRhs P) P pX pY buf sub := rfl
theorem bls24_315_SetBytes : GV.Gen.PointCodec.bls24_315.G1_SetBytes P pX pY buf = goSetBytes3 40 (goRhs P) P pX pY buf true := rfl
theorem bls24_315_Bytes : GV.Gen.PointCodec.bls24_315.G1_Bytes P pX pY = goBytes3 40 P pX pY := rfl
theorem bls24_315_RawBytes : GV.Gen.PointCodec.bls24_315.G1_RawBytes P pX pY = goRawBytes3 40 P pX pY := rfl

theorem bls24_317_isZeroed (b : UInt8) (l : List UInt8) : GV.Gen.PointCodec.bls24_317.isZeroed b l = goIsZeroed b l := rfl
theorem bls24_317_setBytes : GV.Gen.PointCodec.bls24_317.G1_setBytes P pX pY buf sub = goSetBytes3 40 (goRhs P) P pX pY buf sub := rfl
theorem bls24_317_SetBytes : GV.Gen.PointCodec.bls24_317.G1_SetBytes P pX pY buf = goSetBytes3 40 (goRhs P) P pX pY buf true := rfl
theorem bls24_317_Bytes : GV.Gen.PointCodec.bls24_317.G1_Bytes P pX pY = goBytes3 40 P pX pY := rfl
theorem bls24_317_RawBytes : GV.Gen.PointCodec.bls24_317.G1_RawBytes P pX pY = goRawBytes3 40 P pX pY := rfl

theorem bw6_633_isZeroed (b : UInt8) (l : List UInt8) : GV.Gen.PointCodec.bw6_633.isZeroed b l = goIsZeroed b l := rfl
theorem bw6_633_setBytes : GV.Gen.PointCodec.bw6_633.G1_setBytes P pX pY buf sub = goSetBytes3 80 (goRhs P) P pX pY buf sub := rfl
theorem bw6_633_SetBytes : GV.Gen.PointCodec.bw6_633.G1_SetBytes P pX pY buf = goSetBytes3 80 (goRhs P) P pX pY buf true := rfl
theorem bw6_633_Bytes : GV.Gen.PointCodec.bw6_633.G1_Bytes P pX pY = goBytes3 80 P pX pY := rfl
theorem bw6_633_RawBytes : GV.Gen.PointCodec.bw6_633.G1_RawBytes P pX pY = goRawBytes3 80 P pX pY := rfl

theorem bw6_761_isZeroed (b : UInt8) (l : List UInt8) : GV.Gen.PointCodec.bw6_761.isZeroed b l = goIsZeroed b l := rfl
theorem bw6_761_setBytes : GV.Gen.PointCodec.bw6_761.G1_setBytes P pX pY buf sub = goSetBytes3 96 (goRhs P) P pX pY buf sub := rfl
theorem bw6_761_SetBytes : GV.Gen.PointCodec.bw6_761.G1_SetBytes P pX pY buf = goSetBytes3 96 (goRhs P) P pX pY buf true := rfl
theorem bw6_761_Bytes : GV.Gen.PointCodec.bw6_761.G1_Bytes P pX pY = goBytes3 96 P pX pY := rfl
theorem bw6_761_RawBytes : GV.Gen.PointCodec.bw6_761.G1_RawBytes P pX pY = goRawBytes3 96 P pX pY := rfl

theorem secp256k1_setBytes : GV.Gen.PointCodec.secp256k1.G1_setBytes P pX pY buf sub = goSetBytesRaw 32 P pX pY buf sub := rfl
theorem secp256k1_SetBytes : GV.Gen.PointCodec.secp256k1.G1_SetBytes P pX pY buf = goSetBytesRaw 32 P pX pY buf true := rfl
theorem secp256k1_RawBytes : GV.Gen.PointCodec.secp256k1.G1_RawBytes P pX pY = goRawBytesRaw 32 P pX pY := rfl

theorem bw6_633_G2_setBytes : GV.Gen.PointCodec.bw6_633.G2_setBytes P pX pY buf sub = goSetBytes3 80 (goRhsTwist P) P pX pY buf sub := rfl
theorem bw6_633_G2_SetBytes : GV.Gen.PointCodec.bw6_633.G2_SetBytes P pX pY buf = goSetBytes3 80 (goRhsTwist P) P pX pY buf true := rfl
theorem bw6_633_G2_Bytes : GV.Gen.PointCodec.bw6_633.G2_Bytes P pX pY = goBytes3 80 P pX pY := rfl
theorem bw6_633_G2_RawBytes : GV.Gen.PointCodec.bw6_633.G2_RawBytes P pX pY = goRawBytes3 80 P pX pY := rfl

theorem bw6_761_G2_setBytes : GV.Gen.PointCodec.bw6_761.G2_setBytes P pX pY buf sub = goSetBytes3 96 (goRhsTwist P) P pX pY buf sub := rfl
theorem bw6_761_G2_SetBytes : GV.Gen.PointCodec.bw6_761.G2_SetBytes P pX pY buf = goSetBytes3 96 (goRhsTwist P) P pX pY buf true := rfl
theorem bw6_761_G2_Bytes : GV.Gen.PointCodec.bw6_761.G2_Bytes P pX pY = goBytes3 96 P pX pY := rfl
theorem bw6_761_G2_RawBytes : GV.Gen.PointCodec.bw6_761.G2_RawBytes P pX pY = goRawBytes3 96 P pX pY := rfl

end inst

section instTower
variable {F B : Type} (P : Prims F) (Q : Comps F B) (pX pY : F) (buf : List UInt8) (sub : Bool)
theorem bn254_G2_setBytes : GV.Gen.PointCodec.bn254.G2_setBytes P Q pX pY buf sub = goSetBytes2E2 32 (goRhsTwist P) P Q pX pY buf sub := rfl
theorem bls12_377_G2_setBytes : GV.Gen.PointCodec.bls12_377.G2_setBytes P Q pX pY buf sub = goSetBytes3E2 48 (goRhsTwist P) P Q pX pY buf sub := rfl
theorem bls12_381_G2_setBytes : GV.Gen.PointCodec.bls12_381.G2_setBytes P Q pX pY buf sub = goSetBytes3E2 48 (goRhsTwist P) P Q pX pY buf sub := rfl
theorem bls24_315_G2_setBytes : GV.Gen.PointCodec.bls24_315.G2_setBytes P Q pX pY buf sub = goSetBytes3E4 40 (goRhsTwist P) P Q pX pY buf sub := rfl
theorem bls24_317_G2_setBytes : GV.Gen.PointCodec.bls24_317.G2_setBytes P Q pX pY buf sub = goSetBytes3E4 40 (goRhsTwist P) P Q pX pY buf sub := rfl
end instTower

/-! ## the Go-exact decoder at the level of the model -/

variable {α : Type} [DecidableEq α]

namespace Codec
variable (C : Codec α)

/-- what `IsInSubGroup` answers on an arbitrary affine pair: the point at infinity (0,0), or on the curve and in the subgroup -/
def goInSub (x y : α) : Bool :=
  decide (x = C.zero ∧ y = C.zero) || (decide (C.sq y = C.rhs x) && C.inSub (x, y))

/-- the expensive checks AS THE GO TEXT MAKES THEM: the uncompressed branch only calls `IsInSubGroup` (nothing when the subgroup check is
off), the compressed branch never compares the flag with the sign of the root it ends up with -/
def phase2Go (sub : Bool) : Pending α → Except Err (Pt α)
  | .done P => .ok P
  | .unc x y => if sub && !C.goInSub x y then .error .subgroup else .ok (C.mkPt x y)
  | .comp x large =>
    match C.sqrt (C.rhs x) with
    | none => .error .nosqrt
    | some y0 =>
      let y := if C.lex y0 = large then y0 else C.neg y0
      if sub && !C.goInSub x y then .error .subgroup else .ok (C.mkPt x y)

/-- `setBytes` as the Go text computes it, on the frame / phase-1 functions of the model -/
def goDecode (sub : Bool) (buf : List UInt8) : Except Err (Pt α × Nat) :=
  match C.parseFrame buf with
  | .error e => .error e
  | .ok (fl, xs, ys, n) =>
    match C.phase1 fl xs ys with
    | .error e => .error e
    | .ok pd =>
      match C.phase2Go sub pd with
      | .error e => .error e
      | .ok P => .ok (P, n)

/-- Go error value → error class of the model (`none`: no class, in particular the bound guard `outOfRange`) -/
def errClass : GoErr → Option Err
  | .ErrShortBuffer => some .short
  | .ErrInvalidInfinityEncoding => some .inf
  | .ErrInvalidEncoding => some .flag
  | .setBytesCanonical => some .noncanon
  | .new "invalid compressed coordinate: square root doesn't exist" => some .nosqrt
  | .new "invalid point: subgroup check failed" => some .subgroup
  | _ => none

/-- abstraction of a result of the generated `setBytes`: the receiver pair (X, Y) read as a point (`(0,0)` = infinity) -/
def absR : Except GoErr (α × α × Nat) → Option (Except Err (Pt α × Nat))
  | .ok (x, y, n) => some (.ok (C.mkPt x y, n))
  | .error e => (errClass e).map .error

end Codec

/-- the assumed behaviour of the parameters of the generated definitions, relative to a codec of the model with ONE base-field component -/
structure Rel (P : Prims α) (C : Codec α) (g : α → α) : Prop where
  c1 : C.c = 1
  fb_pos : 1 ≤ C.fb
  zero : P.zero = C.zero
  isZero : ∀ x, P.isZero x = decide (x = C.zero)
  sbc : ∀ bs : List UInt8, bs.length = C.fb →
    P.setBytesCanonical bs = if beToNat bs < C.p then some (C.ofComps [beToNat bs]) else none
  put : ∀ x, C.Valid x → ∃ v, C.toComps x = [v] ∧ P.putElement x = putBE C.fb v
  rhs : ∀ x, g x = C.rhs x
  sqrt : ∀ x, P.sqrt x = C.sqrt x
  lex : ∀ x, P.lex x = C.lex x
  neg : ∀ x, P.neg x = C.neg x
  sub : ∀ x y, P.isInSubGroup x y = C.goInSub x y

/-! ## bytes -/

theorem byte_ofNat (b : UInt8) : UInt8.ofNat b.toNat = b := by simp

theorem byte_forall {p : UInt8 → Prop} (h : ∀ n, n < 256 → p (UInt8.ofNat n)) (b : UInt8) : p b := by
  have := h b.toNat b.toNat_lt
  rwa [byte_ofNat] at this

theorem byte2_cases (b : UInt8) :
    (b &&& 192 = 0 ∧ b.toNat / 64 = 0) ∨ (b &&& 192 = 64 ∧ b.toNat / 64 = 1) ∨
    (b &&& 192 = 128 ∧ b.toNat / 64 = 2) ∨ (b &&& 192 = 192 ∧ b.toNat / 64 = 3) := by
  revert b; apply byte_forall; decide +kernel

theorem byte2_low (b : UInt8) : (b &&& ~~~(192 : UInt8)).toNat = b.toNat % 64 := by
  revert b; apply byte_forall; decide +kernel

theorem byte2_unc (b : UInt8) : b &&& 192 = 0 → b &&& ~~~(192 : UInt8) = b := by
  revert b; apply byte_forall; decide +kernel

theorem byte3_unc (b : UInt8) : b &&& 224 = 0 → b &&& ~~~(224 : UInt8) = b := by
  revert b; apply byte_forall; decide +kernel

theorem byte3_cases (b : UInt8) :
    (b &&& 224 = 0 ∧ b.toNat / 32 = 0) ∨ (b &&& 224 = 32 ∧ b.toNat / 32 = 1) ∨
    (b &&& 224 = 64 ∧ b.toNat / 32 = 2) ∨ (b &&& 224 = 96 ∧ b.toNat / 32 = 3) ∨
    (b &&& 224 = 128 ∧ b.toNat / 32 = 4) ∨ (b &&& 224 = 160 ∧ b.toNat / 32 = 5) ∨
    (b &&& 224 = 192 ∧ b.toNat / 32 = 6) ∨ (b &&& 224 = 224 ∧ b.toNat / 32 = 7) := by
  revert b; apply byte_forall; decide +kernel

theorem goIsMaskInvalid_0 : goIsMaskInvalid 0 = false := by decide +kernel
theorem goIsMaskInvalid_32 : goIsMaskInvalid 32 = true := by decide +kernel
theorem goIsMaskInvalid_64 : goIsMaskInvalid 64 = false := by decide +kernel
theorem goIsMaskInvalid_96 : goIsMaskInvalid 96 = true := by decide +kernel
theorem goIsMaskInvalid_128 : goIsMaskInvalid 128 = false := by decide +kernel
theorem goIsMaskInvalid_160 : goIsMaskInvalid 160 = false := by decide +kernel
theorem goIsMaskInvalid_192 : goIsMaskInvalid 192 = false := by decide +kernel
theorem goIsMaskInvalid_224 : goIsMaskInvalid 224 = true := by decide +kernel

theorem byte3_low (b : UInt8) : (b &&& ~~~(224 : UInt8)).toNat = b.toNat % 32 := by
  revert b; apply byte_forall; decide +kernel

/-! ## big-endian frames with one component -/

theorem beToNat_cons (b : UInt8) (l : List UInt8) : beToNat (b :: l) = b.toNat * 256 ^ l.length + beToNat l := by
  refine snoc_induction (P := fun l => beToNat (b :: l) = b.toNat * 256 ^ l.length + beToNat l) ?_ ?_ l
  · simp [beToNat]
  · intro l c ih
    show beToNat (b :: (l ++ [c])) = _
    rw [← List.cons_append, beToNat_snoc, ih, beToNat_snoc, List.length_append, List.length_singleton, pow_succ]
    ring

theorem frame_div (b r m j : Nat) (hr : r < 256 ^ m) : (b * 256 ^ m + r) / (256 ^ m * 2 ^ j) = b / 2 ^ j := by
  have hM : 0 < 256 ^ m := by positivity
  rw [← Nat.div_div_eq_div_mul, Nat.mul_comm b, Nat.mul_add_div hM, Nat.div_eq_of_lt hr, Nat.add_zero]

theorem frame_mod (b r m j : Nat) (hr : r < 256 ^ m) :
    (b * 256 ^ m + r) % (256 ^ m * 2 ^ j) = (b % 2 ^ j) * 256 ^ m + r := by
  have hM : 0 < 256 ^ m := by positivity
  rw [Nat.mod_mul, Nat.mul_comm b, Nat.mul_add_mod, Nat.mod_eq_of_lt hr, Nat.mul_add_div hM, Nat.div_eq_of_lt hr, Nat.add_zero]
  ring

theorem shift_split (C : Codec α) (hfb : 1 ≤ C.fb) (hk : C.L.k ≤ 8) : C.shift = 256 ^ (C.fb - 1) * 2 ^ (8 - C.L.k) := by
  unfold Codec.shift
  rw [show (256 : Nat) = 2 ^ 8 by norm_num, ← pow_mul, ← pow_add]
  congr 1; omega

theorem frame1 (C : Codec α) (hc : C.c = 1) (hfb : 1 ≤ C.fb) (hk : C.L.k ≤ 8) (b0 : UInt8) (tl : List UInt8)
    (hl : C.fb ≤ (b0 :: tl).length) :
    readComps C.fb C.c (b0 :: tl) = [beToNat (b0 :: tl.take (C.fb - 1))] ∧
    beToNat (b0 :: tl.take (C.fb - 1)) / C.shift = b0.toNat / 2 ^ (8 - C.L.k) ∧
    beToNat (b0 :: tl.take (C.fb - 1)) % C.shift
      = (b0.toNat % 2 ^ (8 - C.L.k)) * 256 ^ (C.fb - 1) + beToNat (tl.take (C.fb - 1)) := by
  obtain ⟨m, hm⟩ : ∃ m, C.fb = m + 1 := ⟨C.fb - 1, by omega⟩
  have hlen : (tl.take m).length = m := by simp at hl ⊢; omega
  have hr : beToNat (tl.take m) < 256 ^ m := by have := beToNat_lt (tl.take m); rwa [hlen] at this
  rw [shift_split C hfb hk, hc, hm]
  simp only [Nat.add_sub_cancel]
  refine ⟨by simp [readComps], ?_, ?_⟩
  · rw [beToNat_cons, hlen, frame_div _ _ _ _ hr]
  · rw [beToNat_cons, hlen, frame_mod _ _ _ _ hr]

/-! ## Go byte-slice primitives on `b0 :: tl` -/

theorem goSlice_tail (b0 : UInt8) (tl : List UInt8) (fb : Nat) : goSlice (b0 :: tl) 1 fb = tl.take (fb - 1) := by
  simp [goSlice]

theorem goSlice_head (b0 : UInt8) (tl : List UInt8) (fb : Nat) (h1 : 1 ≤ fb) :
    goSlice (b0 :: tl) 0 fb = b0 :: tl.take (fb - 1) := by
  obtain ⟨m, rfl⟩ : ∃ m, fb = m + 1 := ⟨fb - 1, by omega⟩
  simp [goSlice]

theorem goSlice_second (buf : List UInt8) (fb : Nat) : goSlice buf fb (fb * 2) = (buf.drop fb).take fb := by
  simp [goSlice, Nat.mul_two]

theorem goSlice_whole (l : List UInt8) (fb : Nat) (h : l.length = fb) : goSlice l 0 fb = l := by
  simp [goSlice, ← h]

theorem bufX_copy (b0 : UInt8) (tl : List UInt8) (fb : Nat) (h1 : 1 ≤ fb) (hl : fb ≤ (b0 :: tl).length) :
    goCopy (goSlice (List.replicate fb 0) 0 fb) (goSlice (b0 :: tl) 0 fb) ++ (List.replicate fb (0 : UInt8)).drop fb
      = b0 :: tl.take (fb - 1) := by
  obtain ⟨m, rfl⟩ : ∃ m, fb = m + 1 := ⟨fb - 1, by omega⟩
  have hlen : (tl.take m).length = m := by simp at hl ⊢; omega
  have hmin : min m tl.length = m := by simp at hl; omega
  simp [goSlice, goCopy, hlen, List.take_take, hmin]

theorem beToNat_eq_zero (l : List UInt8) : beToNat l = 0 ↔ ∀ x ∈ l, x = 0 := by
  induction l with
  | nil => simp
  | cons b t ih =>
    rw [beToNat_cons]
    have hM : 0 < 256 ^ t.length := by positivity
    constructor
    · intro h
      have h1 : b.toNat * 256 ^ t.length = 0 := by omega
      have h2 : beToNat t = 0 := by omega
      have h3 : b.toNat = 0 := by
        rcases Nat.mul_eq_zero.mp h1 with h | h
        · exact h
        · omega
      intro x hx
      rcases List.mem_cons.mp hx with rfl | hx
      · exact UInt8.toNat_inj.mp (by simpa using h3)
      · exact ih.mp h2 x hx
    · intro h
      have h0 : b = 0 := h b (by simp)
      have h2 := ih.mpr (fun x hx => h x (by simp [hx]))
      simp [h0, h2]

theorem goIsZeroed_eq (b : UInt8) (l : List UInt8) : goIsZeroed b l = decide (beToNat (b :: l) = 0) := by
  rw [Bool.eq_iff_iff]
  simp only [decide_eq_true_eq, beToNat_eq_zero]
  unfold goIsZeroed
  by_cases hb : b = 0 <;> simp [hb]

/-- the frame of a one-component codec, by the first byte -/
theorem parseFrame1 (C : Codec α) (hc : C.c = 1) (hfb : 1 ≤ C.fb) (hk : C.L.k ≤ 8) (b0 : UInt8) (tl : List UInt8)
    (hl : ¬ (b0 :: tl).length < C.fb) :
    C.parseFrame (b0 :: tl) =
      (let xs := [(b0.toNat % 2 ^ (8 - C.L.k)) * 256 ^ (C.fb - 1) + beToNat (tl.take (C.fb - 1))]
       let ys := [beToNat (((b0 :: tl).drop C.fb).take C.fb)]
       match C.L.classify (b0.toNat / 2 ^ (8 - C.L.k)) with
       | .bad => .error .flag
       | .unc => if (b0 :: tl).length < 2 * C.fb then .error .short else .ok (.unc, xs, ys, 2 * C.fb)
       | .uncInf => if (b0 :: tl).length < 2 * C.fb then .error .short else .ok (.uncInf, xs, ys, 2 * C.fb)
       | fl => .ok (fl, xs, [], C.fb)) := by
  obtain ⟨hrc, hdiv, hmod⟩ := frame1 C hc hfb hk b0 tl (by omega)
  have hnb : C.nbC = C.fb := by simp [Codec.nbC, hc]
  have hys : readComps C.fb C.c (List.drop C.fb (b0 :: tl)) = [beToNat (((b0 :: tl).drop C.fb).take C.fb)] := by
    rw [hc]; rfl
  unfold Codec.parseFrame
  rw [hnb, if_neg hl, hrc]
  simp only [hdiv, hmod, hys]
  cases C.L.classify (b0.toNat / 2 ^ (8 - C.L.k)) <;> rfl

/-! ## the two-bit family -/

theorem goSetBytes2_refines (P : Prims α) (C : Codec α) (g : α → α) (R : Rel P C g) (hL : C.L = .two)
    (pX pY : α) (buf : List UInt8) (sub : Bool) :
    C.absR (goSetBytes2 C.fb g P pX pY buf sub) = some (C.goDecode sub buf) := by
  have hc := R.c1
  have hfb := R.fb_pos
  by_cases hlen : buf.length < C.fb
  · simp [goSetBytes2, Codec.goDecode, Codec.parseFrame, Codec.nbC, hc, hlen, Codec.absR, Codec.errClass]
  · obtain ⟨b0, tl, rfl⟩ : ∃ b0 tl, buf = b0 :: tl := by
      cases buf with
      | nil => simp at hlen; omega
      | cons b t => exact ⟨b, t, rfl⟩
    have hk : C.L.k ≤ 8 := by rw [hL]; decide
    have hk2 : 8 - C.L.k = 6 := by rw [hL]; rfl
    have hpf := parseFrame1 C hc hfb hk b0 tl hlen
    rw [hk2, show (2 : Nat) ^ 6 = 64 by norm_num] at hpf
    have hlt : (tl.take (C.fb - 1)).length = C.fb - 1 := by simp at hlen ⊢; omega
    have hx : b0.toNat % 64 * 256 ^ (C.fb - 1) + beToNat (tl.take (C.fb - 1))
        = beToNat ((b0 &&& ~~~(192 : UInt8)) :: tl.take (C.fb - 1)) := by
      rw [beToNat_cons, byte2_low, hlt]
    rw [hx] at hpf
    unfold Codec.goDecode
    rw [hpf]
    have h0 : 0 < tl.length + 1 := by omega
    have h1 : C.fb ≤ tl.length + 1 := by simpa using hlen
    have h2 : ¬ tl.length + 1 < C.fb := by omega
    have hX : ∀ x : UInt8, P.setBytesCanonical (x :: tl.take (C.fb - 1)) =
        if beToNat (x :: tl.take (C.fb - 1)) < C.p then some (C.ofComps [beToNat (x :: tl.take (C.fb - 1))]) else none :=
      fun x => R.sbc _ (by simp at hlen ⊢; omega)
    have hXs : ∀ x : UInt8, goSlice (x :: tl.take (C.fb - 1)) 0 C.fb = x :: tl.take (C.fb - 1) := by
      intro x; rw [goSlice_head _ _ _ hfb, List.take_take, Nat.min_self]
    rcases byte2_cases b0 with ⟨hm, hd⟩ | ⟨hm, hd⟩ | ⟨hm, hd⟩ | ⟨hm, hd⟩
    · -- uncompressed
      rw [byte2_unc b0 hm]
      by_cases hlen2 : tl.length + 1 < 2 * C.fb
      · simp [goSetBytes2, hL, hd, hm, Layout.classify, h0, h1, h2, hlen2, Codec.absR, Codec.errClass]
      · have h3 : C.fb * 2 ≤ tl.length + 1 := by omega
        have hY := R.sbc (((b0 :: tl).drop C.fb).take C.fb) (by simp; omega)
        simp only [goSetBytes2, List.getD_cons_zero, hm, goSlice_second, goSlice_head _ _ _ hfb, hX]
        generalize ((b0 :: tl).drop C.fb).take C.fb = Y at hY ⊢
        simp only [hY]
        simp [hL, hd, Layout.classify, h0, h1, h2, h3, hlen2, Codec.phase1, allLt]
        generalize beToNat (b0 :: List.take (C.fb - 1) tl) = vx
        generalize beToNat Y = vy
        by_cases hvx : vx < C.p <;> by_cases hvy : vy < C.p <;>
          simp [hvx, hvy, Codec.absR, Codec.errClass, Codec.phase2Go, R.sub]
        generalize C.ofComps [vx] = x
        generalize C.ofComps [vy] = y
        cases hs : C.goInSub x y <;> cases sub <;> simp [Codec.absR, Codec.errClass, hs]
    · simp [goSetBytes2, hL, hd, hm, Layout.classify, h0, h1, h2, Codec.phase1, allZero, goSlice_tail, goIsZeroed_eq]
      split <;> simp [Codec.absR, Codec.errClass, Codec.phase2Go, Codec.mkPt, R.zero]
    · simp only [goSetBytes2, hm, bufX_copy _ _ _ hfb h1, List.set_cons_zero, List.getD_cons_zero, hXs, hX]
      simp [hL, hd, Layout.classify, h0, h1, h2, Codec.phase1, allLt]
      generalize beToNat ((b0 &&& ~~~192) :: List.take (C.fb - 1) tl) = vx
      by_cases hvx : vx < C.p <;> simp [hvx, Codec.absR, Codec.errClass, Codec.phase2Go, R.sub, R.sqrt, R.rhs, R.lex, R.neg]
      generalize C.ofComps [vx] = x
      cases C.sqrt (C.rhs x) with
      | none => simp [Codec.absR, Codec.errClass]
      | some y0 =>
        cases hs1 : C.goInSub x y0 <;> cases hs2 : C.goInSub x (C.neg y0) <;> cases hl : C.lex y0 <;> cases sub <;>
          simp [Codec.absR, Codec.errClass, hs1, hs2, hl]
    · simp only [goSetBytes2, hm, bufX_copy _ _ _ hfb h1, List.set_cons_zero, List.getD_cons_zero, hXs, hX]
      simp [hL, hd, Layout.classify, h0, h1, h2, Codec.phase1, allLt]
      generalize beToNat ((b0 &&& ~~~192) :: List.take (C.fb - 1) tl) = vx
      by_cases hvx : vx < C.p <;> simp [hvx, Codec.absR, Codec.errClass, Codec.phase2Go, R.sub, R.sqrt, R.rhs, R.lex, R.neg]
      generalize C.ofComps [vx] = x
      cases C.sqrt (C.rhs x) with
      | none => simp [Codec.absR, Codec.errClass]
      | some y0 =>
        cases hs1 : C.goInSub x y0 <;> cases hs2 : C.goInSub x (C.neg y0) <;> cases hl : C.lex y0 <;> cases sub <;>
          simp [Codec.absR, Codec.errClass, hs1, hs2, hl]

/-! ## the three-bit family -/

theorem uncInf_zero (x b0 : UInt8) (tl : List UInt8) (fb : Nat) (hfb : 1 ≤ fb) :
    beToNat (x :: tl.take (2 * fb - 1)) = 0 ↔
      (beToNat (x :: tl.take (fb - 1)) = 0 ∧ beToNat (((b0 :: tl).drop fb).take fb) = 0) := by
  obtain ⟨m, rfl⟩ : ∃ m, fb = m + 1 := ⟨fb - 1, by omega⟩
  have h : 2 * (m + 1) - 1 = m + (m + 1) := by omega
  simp only [List.drop_succ_cons, h, List.take_add, Nat.add_sub_cancel, beToNat_eq_zero, List.mem_cons, List.mem_append]
  constructor
  · intro hh
    exact ⟨fun y hy => hh y (by rcases hy with hy | hy; exact Or.inl hy; exact Or.inr (Or.inl hy)),
      fun y hy => hh y (Or.inr (Or.inr hy))⟩
  · rintro ⟨h1, h2⟩ y (hy | hy | hy)
    · exact h1 y (Or.inl hy)
    · exact h1 y (Or.inr hy)
    · exact h2 y hy

theorem goSetBytes3_refines (P : Prims α) (C : Codec α) (g : α → α) (R : Rel P C g) (hL : C.L = .three)
    (pX pY : α) (buf : List UInt8) (sub : Bool) :
    C.absR (goSetBytes3 C.fb g P pX pY buf sub) = some (C.goDecode sub buf) := by
  have hc := R.c1
  have hfb := R.fb_pos
  by_cases hlen : buf.length < C.fb
  · simp [goSetBytes3, Codec.goDecode, Codec.parseFrame, Codec.nbC, hc, hlen, Codec.absR, Codec.errClass]
  · obtain ⟨b0, tl, rfl⟩ : ∃ b0 tl, buf = b0 :: tl := by
      cases buf with
      | nil => simp at hlen; omega
      | cons b t => exact ⟨b, t, rfl⟩
    have hk : C.L.k ≤ 8 := by rw [hL]; decide
    have hk2 : 8 - C.L.k = 5 := by rw [hL]; rfl
    have hpf := parseFrame1 C hc hfb hk b0 tl hlen
    rw [hk2, show (2 : Nat) ^ 5 = 32 by norm_num] at hpf
    have hlt : (tl.take (C.fb - 1)).length = C.fb - 1 := by simp at hlen ⊢; omega
    have hx : b0.toNat % 32 * 256 ^ (C.fb - 1) + beToNat (tl.take (C.fb - 1))
        = beToNat ((b0 &&& ~~~(224 : UInt8)) :: tl.take (C.fb - 1)) := by
      rw [beToNat_cons, byte3_low, hlt]
    rw [hx] at hpf
    unfold Codec.goDecode
    rw [hpf]
    have h0 : 0 < tl.length + 1 := by omega
    have h1 : C.fb ≤ tl.length + 1 := by simpa using hlen
    have h2 : ¬ tl.length + 1 < C.fb := by omega
    have hX : ∀ x : UInt8, P.setBytesCanonical (x :: tl.take (C.fb - 1)) =
        if beToNat (x :: tl.take (C.fb - 1)) < C.p then some (C.ofComps [beToNat (x :: tl.take (C.fb - 1))]) else none :=
      fun x => R.sbc _ (by simp at hlen ⊢; omega)
    have hXs : ∀ x : UInt8, goSlice (x :: tl.take (C.fb - 1)) 0 C.fb = x :: tl.take (C.fb - 1) := by
      intro x; rw [goSlice_head _ _ _ hfb, List.take_take, Nat.min_self]
    rcases byte3_cases b0 with ⟨hm, hd⟩ | ⟨hm, hd⟩ | ⟨hm, hd⟩ | ⟨hm, hd⟩ | ⟨hm, hd⟩ | ⟨hm, hd⟩ | ⟨hm, hd⟩ | ⟨hm, hd⟩
    · -- 000 uncompressed
      rw [byte3_unc b0 hm]
      by_cases hlen2 : tl.length + 1 < 2 * C.fb
      · simp [goSetBytes3, goIsMaskInvalid_0, goIsMaskInvalid_32, goIsMaskInvalid_64, goIsMaskInvalid_96, goIsMaskInvalid_128, goIsMaskInvalid_160, goIsMaskInvalid_192, goIsMaskInvalid_224, hL, hd, hm, Layout.classify, h0, h1, h2, hlen2, Codec.absR, Codec.errClass]
      · have h3 : C.fb * 2 ≤ tl.length + 1 := by omega
        have hY := R.sbc (((b0 :: tl).drop C.fb).take C.fb) (by simp; omega)
        simp only [goSetBytes3, goIsMaskInvalid_0, goIsMaskInvalid_32, goIsMaskInvalid_64, goIsMaskInvalid_96, goIsMaskInvalid_128, goIsMaskInvalid_160, goIsMaskInvalid_192, goIsMaskInvalid_224, List.getD_cons_zero, hm, goSlice_second, goSlice_head _ _ _ hfb, hX]
        generalize ((b0 :: tl).drop C.fb).take C.fb = Y at hY ⊢
        simp only [hY]
        simp [hL, hd, Layout.classify, h0, h1, h2, h3, hlen2, Codec.phase1, allLt]
        generalize beToNat (b0 :: List.take (C.fb - 1) tl) = vx
        generalize beToNat Y = vy
        by_cases hvx : vx < C.p <;> by_cases hvy : vy < C.p <;>
          simp [hvx, hvy, Codec.absR, Codec.errClass, Codec.phase2Go, R.sub]
        generalize C.ofComps [vx] = x
        generalize C.ofComps [vy] = y
        cases hs : C.goInSub x y <;> cases sub <;> simp [Codec.absR, Codec.errClass, hs]
    · -- 001 invalid
      simp [goSetBytes3, goIsMaskInvalid_0, goIsMaskInvalid_32, goIsMaskInvalid_64, goIsMaskInvalid_96, goIsMaskInvalid_128, goIsMaskInvalid_160, goIsMaskInvalid_192, goIsMaskInvalid_224, hL, hd, hm, Layout.classify, h0, h1, h2, Codec.absR, Codec.errClass]
    · -- 010 uncompressed infinity
      by_cases hlen2 : tl.length + 1 < 2 * C.fb
      · simp [goSetBytes3, goIsMaskInvalid_0, goIsMaskInvalid_32, goIsMaskInvalid_64, goIsMaskInvalid_96, goIsMaskInvalid_128, goIsMaskInvalid_160, goIsMaskInvalid_192, goIsMaskInvalid_224, hL, hd, hm, Layout.classify, h0, h1, h2, hlen2, Codec.absR, Codec.errClass]
      · have h3 : 2 * C.fb ≤ tl.length + 1 := by omega
        have hz := uncInf_zero (b0 &&& ~~~(224 : UInt8)) b0 tl C.fb hfb
        simp [goSetBytes3, goIsMaskInvalid_0, goIsMaskInvalid_32, goIsMaskInvalid_64, goIsMaskInvalid_96, goIsMaskInvalid_128, goIsMaskInvalid_160, goIsMaskInvalid_192, goIsMaskInvalid_224, hL, hd, hm, Layout.classify, h0, h1, h2, h3, hlen2, Codec.phase1, allZero,
          goSlice_tail, goIsZeroed_eq]
        rw [if_congr hz rfl rfl]
        split <;> simp [Codec.absR, Codec.errClass, Codec.phase2Go, Codec.mkPt, R.zero]
    · simp [goSetBytes3, goIsMaskInvalid_0, goIsMaskInvalid_32, goIsMaskInvalid_64, goIsMaskInvalid_96, goIsMaskInvalid_128, goIsMaskInvalid_160, goIsMaskInvalid_192, goIsMaskInvalid_224, hL, hd, hm, Layout.classify, h0, h1, h2, Codec.absR, Codec.errClass]
    · simp only [goSetBytes3, goIsMaskInvalid_128, goIsMaskInvalid_160, hm, bufX_copy _ _ _ hfb h1, List.set_cons_zero,
        List.getD_cons_zero, hXs, hX]
      simp [hL, hd, Layout.classify, h0, h1, h2, Codec.phase1, allLt]
      generalize beToNat ((b0 &&& ~~~224) :: List.take (C.fb - 1) tl) = vx
      by_cases hvx : vx < C.p <;> simp [hvx, Codec.absR, Codec.errClass, Codec.phase2Go, R.sub, R.sqrt, R.rhs, R.lex, R.neg]
      generalize C.ofComps [vx] = x
      cases C.sqrt (C.rhs x) with
      | none => simp [Codec.absR, Codec.errClass]
      | some y0 =>
        cases hs1 : C.goInSub x y0 <;> cases hs2 : C.goInSub x (C.neg y0) <;> cases hl : C.lex y0 <;> cases sub <;>
          simp [Codec.absR, Codec.errClass, hs1, hs2, hl]
    · simp only [goSetBytes3, goIsMaskInvalid_128, goIsMaskInvalid_160, hm, bufX_copy _ _ _ hfb h1, List.set_cons_zero,
        List.getD_cons_zero, hXs, hX]
      simp [hL, hd, Layout.classify, h0, h1, h2, Codec.phase1, allLt]
      generalize beToNat ((b0 &&& ~~~224) :: List.take (C.fb - 1) tl) = vx
      by_cases hvx : vx < C.p <;> simp [hvx, Codec.absR, Codec.errClass, Codec.phase2Go, R.sub, R.sqrt, R.rhs, R.lex, R.neg]
      generalize C.ofComps [vx] = x
      cases C.sqrt (C.rhs x) with
      | none => simp [Codec.absR, Codec.errClass]
      | some y0 =>
        cases hs1 : C.goInSub x y0 <;> cases hs2 : C.goInSub x (C.neg y0) <;> cases hl : C.lex y0 <;> cases sub <;>
          simp [Codec.absR, Codec.errClass, hs1, hs2, hl]
    · -- 110 compressed infinity
      simp [goSetBytes3, goIsMaskInvalid_0, goIsMaskInvalid_32, goIsMaskInvalid_64, goIsMaskInvalid_96, goIsMaskInvalid_128, goIsMaskInvalid_160, goIsMaskInvalid_192, goIsMaskInvalid_224, hL, hd, hm, Layout.classify, h0, h1, h2, Codec.phase1, allZero, goSlice_tail, goIsZeroed_eq]
      split <;> simp [Codec.absR, Codec.errClass, Codec.phase2Go, Codec.mkPt, R.zero]
    · simp [goSetBytes3, goIsMaskInvalid_0, goIsMaskInvalid_32, goIsMaskInvalid_64, goIsMaskInvalid_96, goIsMaskInvalid_128, goIsMaskInvalid_160, goIsMaskInvalid_192, goIsMaskInvalid_224, hL, hd, hm, Layout.classify, h0, h1, h2, Codec.absR, Codec.errClass]

/-! ## the Go-exact decoder against the decoder of the model -/

namespace Codec
variable {C : Codec α}

theorem phase2Go_unc (sub : Bool) (x y : α) (hoff : sub = false → C.phase2 sub (.unc x y) ≠ .error .offcurve) :
    C.phase2Go sub (.unc x y) = C.phase2 sub (.unc x y) := by
  simp only [Codec.phase2Go, Codec.phase2, Codec.goInSub, Codec.mkPt] at *
  by_cases h0 : x = C.zero ∧ y = C.zero
  · simp [h0]
  · by_cases hc : C.sq y = C.rhs x
    · simp [h0, hc]
    · cases sub
      · have := hoff rfl
        simp [h0, hc] at this
      · simp [h0, hc]

/-- without subgroup check the uncompressed branch checks NOTHING about the pair it read (finding F2 of Props/C07.lean) -/
theorem phase2Go_unc_nosub (x y : α) : C.phase2Go false (.unc x y) = .ok (C.mkPt x y) := by
  simp [Codec.phase2Go]

/-- a root `y = 0` (2-torsion) is returned for BOTH compressed flags (finding F3 of Props/C07.lean) -/
theorem phase2Go_comp_zero (h : C.OK) (sub : Bool) (x : α) (large : Bool) (hs : C.sqrt (C.rhs x) = some C.zero)
    (hsub : sub = true → C.goInSub x C.zero = true) :
    C.phase2Go sub (.comp x large) = .ok (C.mkPt x C.zero) := by
  have hy : (if C.lex C.zero = large then C.zero else C.neg C.zero) = C.zero := by split <;> simp [h.neg_zero]
  simp only [Codec.phase2Go, hs, hy]
  cases sub
  · simp
  · simp [hsub rfl]

theorem phase2Go_comp (h : C.OK) (sub : Bool) (x : α) (large : Bool) (hx : C.Valid x)
    (hlex : C.phase2 sub (.comp x large) ≠ .error .lex) :
    C.phase2Go sub (.comp x large) = C.phase2 sub (.comp x large) := by
  simp only [Codec.phase2Go, Codec.phase2] at *
  cases hs : C.sqrt (C.rhs x) with
  | none => simp
  | some y0 =>
    obtain ⟨hsq, hv⟩ := h.sqrt_sound x y0 hx hs
    simp only [hs] at hlex ⊢
    generalize hy : (if C.lex y0 = large then y0 else C.neg y0) = y at hlex ⊢
    have hcy : C.sq y = C.rhs x := by
      rw [← hy]; split
      · exact hsq
      · rw [h.sq_neg]; exact hsq
    have h0 := Codec.not_origin h hcy
    have hin : C.goInSub x y = C.inSub (x, y) := by simp [Codec.goInSub, h0, hcy]
    rw [hin]
    by_cases hsub : (sub && !C.inSub (x, y)) = true
    · simp [hsub]
    · by_cases hl : C.lex y = large
      · simp [hsub, hl]
      · simp [hsub, hl] at hlex

/-- the generated `setBytes` semantics IS the decoder of the model, except on the two findings: the model answers `lex` (a compressed
flag that disagrees with the sign of the root, only possible for y = 0) or `offcurve` (uncompressed, subgroup check off, not on the curve) -/
theorem goDecode_eq_setBytes (h : C.OK) (sub : Bool) (buf : List UInt8)
    (h1 : C.setBytes sub buf ≠ .error .lex) (h2 : sub = false → C.setBytes sub buf ≠ .error .offcurve) :
    C.goDecode sub buf = C.setBytes sub buf := by
  unfold Codec.goDecode Codec.setBytes at *
  cases hpf : C.parseFrame buf with
  | error e => simp
  | ok r =>
    obtain ⟨fl, xs, ys, n⟩ := r
    simp only [hpf] at h1 h2 ⊢
    cases hp1 : C.phase1 fl xs ys with
    | error e => simp
    | ok pd =>
      simp only [hp1] at h1 h2 ⊢
      have hf := Codec.parseFrame_ok h buf fl xs ys n hpf
      have key : C.phase2Go sub pd = C.phase2 sub pd := by
        rcases Codec.phase1_ok fl xs ys pd hp1 with ⟨_, _, rfl⟩ | ⟨_, _, _, rfl⟩ | ⟨_, _, _, rfl⟩ | ⟨_, hlt, rfl⟩ | ⟨_, hlt, rfl⟩
        · rfl
        · rfl
        · apply phase2Go_unc; intro hs hh; rw [hh] at h2; exact h2 hs rfl
        · apply phase2Go_comp h _ _ _ (valid_ofComps h xs hf.xlen ((allLt_iff _ _).mp hlt)).1
          intro hh; rw [hh] at h1; exact h1 rfl
        · apply phase2Go_comp h _ _ _ (valid_ofComps h xs hf.xlen ((allLt_iff _ _).mp hlt)).1
          intro hh; rw [hh] at h1; exact h1 rfl
      rw [key]
      rfl

end Codec

/-! ## the encoders -/

theorem eq_putBE_of_beToNat {l : List UInt8} {n fb : Nat} (hl : l.length = fb) (hb : beToNat l = n) : l = putBE fb n := by
  rw [← hb, ← hl, putBE_beToNat]

/-- OR-ing a flag into the first byte of the big-endian bytes of a value that leaves the flag bits free -/
theorem putBE_flag (fb v S maskNat : Nat) (mask : UInt8) (hfb : 1 ≤ fb) (hv : v < 256 ^ (fb - 1) * S) (hS : S ≤ 256)
    (hor : ∀ b : UInt8, b.toNat < S → (b ||| mask).toNat = b.toNat + maskNat) :
    (putBE fb v).set 0 ((putBE fb v).getD 0 0 ||| mask) = putBE fb (maskNat * 256 ^ (fb - 1) + v) := by
  have hv' : v < 256 ^ fb := by
    obtain ⟨m, rfl⟩ : ∃ m, fb = m + 1 := ⟨fb - 1, by omega⟩
    simp only [Nat.add_sub_cancel] at hv
    have hM : 0 < 256 ^ m := by positivity
    rw [pow_succ]; nlinarith
  have hlen : (putBE fb v).length = fb := putBE_length fb v
  have hval : beToNat (putBE fb v) = v := by rw [beToNat_putBE, Nat.mod_eq_of_lt hv']
  cases hp : putBE fb v with
  | nil => rw [hp] at hlen; simp at hlen; omega
  | cons b t =>
    rw [hp] at hlen hval
    have ht : t.length = fb - 1 := by simp at hlen; omega
    rw [beToNat_cons, ht] at hval
    have hb : b.toNat < S := by
      have : b.toNat * 256 ^ (fb - 1) < S * 256 ^ (fb - 1) := by rw [Nat.mul_comm S]; omega
      exact Nat.lt_of_mul_lt_mul_right this
    simp only [List.set_cons_zero, List.getD_cons_zero]
    apply eq_putBE_of_beToNat (by simp; omega)
    rw [beToNat_cons, ht, hor b hb, ← hval]
    ring

theorem goPutAt_zeros (fb : Nat) (pe : List UInt8) (h : pe.length = fb) : goPutAt (List.replicate fb 0) 0 pe = pe := by
  simp [goPutAt, h]

theorem buildFrame1 (C : Codec α) (fl : Flag) (v : Nat) (ys : List Nat) :
    C.buildFrame fl [v] ys = putBE C.fb (C.L.code fl * C.shift + v) ++ writeComps C.fb ys := by
  simp [Codec.buildFrame, writeComps]

theorem byte_or2 : ∀ b : UInt8, b.toNat < 64 →
    (b ||| 64).toNat = b.toNat + 64 ∧ (b ||| 128).toNat = b.toNat + 128 ∧ (b ||| 192).toNat = b.toNat + 192 := by
  apply byte_forall; decide +kernel

theorem byte_or3 : ∀ b : UInt8, b.toNat < 32 →
    (b ||| 64).toNat = b.toNat + 64 ∧ (b ||| 128).toNat = b.toNat + 128 ∧ (b ||| 160).toNat = b.toNat + 160 ∧
    (b ||| 192).toNat = b.toNat + 192 := by
  apply byte_forall; decide +kernel

/-- the first byte of an all-zero array set to a flag -/
theorem zeros_flag (fb S maskNat : Nat) (mask : UInt8) (hfb : 1 ≤ fb) (hS : 1 ≤ S) (hS' : S ≤ 256)
    (hor : ∀ b : UInt8, b.toNat < S → (b ||| mask).toNat = b.toNat + maskNat) :
    (List.replicate fb (0 : UInt8)).set 0 mask = putBE fb (maskNat * 256 ^ (fb - 1) + 0) := by
  have := putBE_flag fb 0 S maskNat mask hfb (by positivity) hS' hor
  rw [putBE_zero] at this
  rw [← this]
  obtain ⟨m, rfl⟩ : ∃ m, fb = m + 1 := ⟨fb - 1, by omega⟩
  simp [List.replicate_succ]

theorem goBytes2_eq (P : Prims α) (C : Codec α) (g : α → α) (R : Rel P C g) (h : C.OK) (hL : C.L = .two)
    (x y : α) (hx : C.Valid x) : goBytes2 C.fb P x y = C.encCompressed (C.mkPt x y) := by
  have hc := R.c1
  have hfb := R.fb_pos
  have hk : C.L.k ≤ 8 := by rw [hL]; decide
  have hsh := shift_split C hfb hk
  rw [hL, show 8 - Layout.two.k = 6 from rfl, show (2 : Nat) ^ 6 = 64 by norm_num] at hsh
  by_cases h0 : x = C.zero ∧ y = C.zero
  · have hz : C.zeros = [0] := by simp [Codec.zeros, hc]
    simp only [goBytes2, R.isZero, h0, Codec.mkPt, Codec.encCompressed, hz, buildFrame1, writeComps, List.append_nil,
      and_self, decide_true, Bool.and_self, if_true, hL, Layout.code]
    rw [hsh, zeros_flag C.fb 64 64 64 hfb (by norm_num) (by norm_num) (fun b hb => (byte_or2 b hb).1)]
    congr 1; ring
  · obtain ⟨v, hv, hput⟩ := R.put x hx
    have hvp : v < C.p := hx.lt v (by simp [hv])
    have hvs : v < 256 ^ (C.fb - 1) * 64 := by rw [← hsh]; exact lt_of_lt_of_le hvp h.p_le
    have hiz : (P.isZero x && P.isZero y) = false := by
      simp only [R.isZero]; by_contra hh; simp at hh; exact h0 hh
    have hpl : (putBE C.fb v).length = C.fb := putBE_length _ _
    cases hl : C.lex y
    · simp only [goBytes2, hiz, Codec.mkPt, h0, if_false, Codec.encCompressed, R.lex, hl, hv, hput, buildFrame1, writeComps,
        List.append_nil, goPutAt_zeros _ _ hpl, hL, Layout.code, Bool.false_eq_true]
      rw [hsh, putBE_flag C.fb v 64 128 128 hfb hvs (by norm_num) (fun b hb => (byte_or2 b hb).2.1)]
      congr 1; ring
    · simp only [goBytes2, hiz, Codec.mkPt, h0, if_false, Codec.encCompressed, R.lex, hl, hv, hput, buildFrame1, writeComps,
        List.append_nil, goPutAt_zeros _ _ hpl, hL, Layout.code, if_true, Bool.false_eq_true]
      rw [hsh, putBE_flag C.fb v 64 192 192 hfb hvs (by norm_num) (fun b hb => (byte_or2 b hb).2.2)]
      congr 1; ring

theorem goBytes3_eq (P : Prims α) (C : Codec α) (g : α → α) (R : Rel P C g) (h : C.OK) (hL : C.L = .three)
    (x y : α) (hx : C.Valid x) : goBytes3 C.fb P x y = C.encCompressed (C.mkPt x y) := by
  have hc := R.c1
  have hfb := R.fb_pos
  have hk : C.L.k ≤ 8 := by rw [hL]; decide
  have hsh := shift_split C hfb hk
  rw [hL, show 8 - Layout.three.k = 5 from rfl, show (2 : Nat) ^ 5 = 32 by norm_num] at hsh
  by_cases h0 : x = C.zero ∧ y = C.zero
  · have hz : C.zeros = [0] := by simp [Codec.zeros, hc]
    simp only [goBytes3, R.isZero, h0, Codec.mkPt, Codec.encCompressed, hz, buildFrame1, writeComps, List.append_nil,
      and_self, decide_true, Bool.and_self, if_true, hL, Layout.code]
    rw [hsh, zeros_flag C.fb 32 192 192 hfb (by norm_num) (by norm_num) (fun b hb => (byte_or3 b hb).2.2.2)]
    congr 1; ring
  · obtain ⟨v, hv, hput⟩ := R.put x hx
    have hvp : v < C.p := hx.lt v (by simp [hv])
    have hvs : v < 256 ^ (C.fb - 1) * 32 := by rw [← hsh]; exact lt_of_lt_of_le hvp h.p_le
    have hiz : (P.isZero x && P.isZero y) = false := by
      simp only [R.isZero]; by_contra hh; simp at hh; exact h0 hh
    have hpl : (putBE C.fb v).length = C.fb := putBE_length _ _
    cases hl : C.lex y
    · simp only [goBytes3, hiz, Codec.mkPt, h0, if_false, Codec.encCompressed, R.lex, hl, hv, hput, buildFrame1, writeComps,
        List.append_nil, goPutAt_zeros _ _ hpl, hL, Layout.code, Bool.false_eq_true]
      rw [hsh, putBE_flag C.fb v 32 128 128 hfb hvs (by norm_num) (fun b hb => (byte_or3 b hb).2.1)]
      congr 1; ring
    · simp only [goBytes3, hiz, Codec.mkPt, h0, if_false, Codec.encCompressed, R.lex, hl, hv, hput, buildFrame1, writeComps,
        List.append_nil, goPutAt_zeros _ _ hpl, hL, Layout.code, if_true, Bool.false_eq_true]
      rw [hsh, putBE_flag C.fb v 32 160 160 hfb hvs (by norm_num) (fun b hb => (byte_or3 b hb).2.2.1)]
      congr 1; ring

theorem raw_put (fb : Nat) (px py : List UInt8) (hx : px.length = fb) (hy : py.length = fb) :
    goPutAt (goPutAt (List.replicate (2 * fb) 0) fb py) 0 px = px ++ py := by
  simp [goPutAt, hx, hy, two_mul]

theorem set_or_zero (l : List UInt8) : l.set 0 (l.getD 0 0 ||| 0) = l := by
  cases l <;> simp

theorem replicate_two (fb : Nat) : List.replicate (2 * fb) (0 : UInt8) = List.replicate fb 0 ++ List.replicate fb 0 := by
  rw [two_mul, List.replicate_append_replicate]

theorem goRawBytes2_eq (P : Prims α) (C : Codec α) (g : α → α) (R : Rel P C g) (hL : C.L = .two)
    (x y : α) (hx : C.Valid x) (hy : C.Valid y) : goRawBytes2 C.fb P x y = C.encRaw (C.mkPt x y) := by
  have hc := R.c1
  by_cases h0 : x = C.zero ∧ y = C.zero
  · have hz : C.zeros = [0] := by simp [Codec.zeros, hc]
    simp only [goRawBytes2, R.isZero, h0, Codec.mkPt, Codec.encRaw, hz, buildFrame1, writeComps, List.append_nil,
      and_self, decide_true, Bool.and_self, if_true, hL, Layout.code, Layout.rawInf, Nat.zero_mul, Nat.add_zero, putBE_zero,
      replicate_two]
    have := set_or_zero (List.replicate C.fb 0 ++ List.replicate C.fb 0)
    cases hh : C.fb with
    | zero => simp
    | succ m => simp [List.replicate_succ]
  · obtain ⟨vx, hvx, hputx⟩ := R.put x hx
    obtain ⟨vy, hvy, hputy⟩ := R.put y hy
    have hiz : (P.isZero x && P.isZero y) = false := by
      simp only [R.isZero]; by_contra hh; simp at hh; exact h0 hh
    simp only [goRawBytes2, hiz, Codec.mkPt, h0, if_false, Codec.encRaw, hvx, hvy, hputx, hputy, buildFrame1, writeComps,
      List.append_nil, raw_put _ _ _ (putBE_length _ _) (putBE_length _ _), hL, Layout.code, Nat.zero_mul, Nat.zero_add,
      set_or_zero, Bool.false_eq_true]

theorem goRawBytes3_eq (P : Prims α) (C : Codec α) (g : α → α) (R : Rel P C g) (hL : C.L = .three)
    (x y : α) (hx : C.Valid x) (hy : C.Valid y) : goRawBytes3 C.fb P x y = C.encRaw (C.mkPt x y) := by
  have hc := R.c1
  have hfb := R.fb_pos
  have hk : C.L.k ≤ 8 := by rw [hL]; decide
  have hsh := shift_split C hfb hk
  rw [hL, show 8 - Layout.three.k = 5 from rfl, show (2 : Nat) ^ 5 = 32 by norm_num] at hsh
  by_cases h0 : x = C.zero ∧ y = C.zero
  · have hz : C.zeros = [0] := by simp [Codec.zeros, hc]
    have hset : (List.replicate C.fb (0 : UInt8) ++ List.replicate C.fb 0).set 0 64
        = (List.replicate C.fb (0 : UInt8)).set 0 64 ++ List.replicate C.fb 0 := by
      obtain ⟨m, hm⟩ : ∃ m, C.fb = m + 1 := ⟨C.fb - 1, by omega⟩
      rw [hm]; simp [List.replicate_succ]
    simp only [goRawBytes3, R.isZero, h0, Codec.mkPt, Codec.encRaw, hz, buildFrame1, writeComps, List.append_nil,
      and_self, decide_true, Bool.and_self, if_true, hL, Layout.code, Layout.rawInf, putBE_zero, replicate_two, hset]
    rw [hsh, zeros_flag C.fb 32 64 64 hfb (by norm_num) (by norm_num) (fun b hb => (byte_or3 b hb).1)]
    congr 2; ring
  · obtain ⟨vx, hvx, hputx⟩ := R.put x hx
    obtain ⟨vy, hvy, hputy⟩ := R.put y hy
    have hiz : (P.isZero x && P.isZero y) = false := by
      simp only [R.isZero]; by_contra hh; simp at hh; exact h0 hh
    simp only [goRawBytes3, hiz, Codec.mkPt, h0, if_false, Codec.encRaw, hvx, hvy, hputx, hputy, buildFrame1, writeComps,
      List.append_nil, raw_put _ _ _ (putBE_length _ _) (putBE_length _ _), hL, Layout.code, Nat.zero_mul, Nat.zero_add,
      set_or_zero, Bool.false_eq_true]

/-! ## the raw family (secp256k1) -/

theorem goSetBytesRaw_refines (P : Prims α) (C : Codec α) (g : α → α) (R : Rel P C g) (hL : C.L = .raw)
    (pX pY : α) (buf : List UInt8) (sub : Bool) :
    C.absR (goSetBytesRaw C.fb P pX pY buf sub) = some (C.goDecode sub buf) := by
  have hc := R.c1
  have hfb := R.fb_pos
  by_cases hlen : buf.length < C.fb
  · have : buf.length < 2 * C.fb := by omega
    simp [goSetBytesRaw, Codec.goDecode, Codec.parseFrame, Codec.nbC, hc, hlen, this, Codec.absR, Codec.errClass]
  · obtain ⟨b0, tl, rfl⟩ : ∃ b0 tl, buf = b0 :: tl := by
      cases buf with
      | nil => simp at hlen; omega
      | cons b t => exact ⟨b, t, rfl⟩
    have hk : C.L.k ≤ 8 := by rw [hL]; decide
    have hk2 : 8 - C.L.k = 8 := by rw [hL]; rfl
    have hpf := parseFrame1 C hc hfb hk b0 tl hlen
    rw [hk2, show (2 : Nat) ^ 8 = 256 by norm_num] at hpf
    have hlt : (tl.take (C.fb - 1)).length = C.fb - 1 := by simp at hlen ⊢; omega
    have hx : b0.toNat % 256 * 256 ^ (C.fb - 1) + beToNat (tl.take (C.fb - 1)) = beToNat (b0 :: tl.take (C.fb - 1)) := by
      rw [beToNat_cons, hlt, Nat.mod_eq_of_lt b0.toNat_lt]
    have hd : b0.toNat / 256 = 0 := Nat.div_eq_of_lt b0.toNat_lt
    rw [hx] at hpf
    unfold Codec.goDecode
    rw [hpf]
    have h1 : C.fb ≤ tl.length + 1 := by simpa using hlen
    have h2 : ¬ tl.length + 1 < C.fb := by omega
    have hX : ∀ x : UInt8, P.setBytesCanonical (x :: tl.take (C.fb - 1)) =
        if beToNat (x :: tl.take (C.fb - 1)) < C.p then some (C.ofComps [beToNat (x :: tl.take (C.fb - 1))]) else none :=
      fun x => R.sbc _ (by simp at hlen ⊢; omega)
    by_cases hlen2 : tl.length + 1 < 2 * C.fb
    · simp [goSetBytesRaw, hL, hd, Layout.classify, h1, h2, hlen2, Codec.absR, Codec.errClass]
    · have h3 : C.fb * 2 ≤ tl.length + 1 := by omega
      have hY := R.sbc (((b0 :: tl).drop C.fb).take C.fb) (by simp; omega)
      simp only [goSetBytesRaw, goSlice_second, goSlice_head _ _ _ hfb, hX]
      generalize ((b0 :: tl).drop C.fb).take C.fb = Y at hY ⊢
      simp only [hY]
      simp [hL, hd, Layout.classify, h1, h2, h3, hlen2, Codec.phase1, allLt]
      generalize beToNat (b0 :: List.take (C.fb - 1) tl) = vx
      generalize beToNat Y = vy
      by_cases hvx : vx < C.p <;> by_cases hvy : vy < C.p <;>
        simp [hvx, hvy, Codec.absR, Codec.errClass, Codec.phase2Go, R.sub]
      generalize C.ofComps [vx] = x
      generalize C.ofComps [vy] = y
      cases hs : C.goInSub x y <;> cases sub <;> simp [Codec.absR, Codec.errClass, hs]

theorem goRawBytesRaw_eq (P : Prims α) (C : Codec α) (g : α → α) (R : Rel P C g) (h : C.OK) (hL : C.L = .raw)
    (x y : α) (hx : C.Valid x) (hy : C.Valid y) : goRawBytesRaw C.fb P x y = C.encRaw (C.mkPt x y) := by
  have hc := R.c1
  obtain ⟨vx, hvx, hputx⟩ := R.put x hx
  obtain ⟨vy, hvy, hputy⟩ := R.put y hy
  have hz : C.zeros = [0] := by simp [Codec.zeros, hc]
  by_cases h0 : x = C.zero ∧ y = C.zero
  · have hzc : C.toComps C.zero = [0] := by rw [h.zero_comps, hc]; rfl
    have hvx0 : vx = 0 := by rw [h0.1, hzc] at hvx; simpa using hvx.symm
    have hvy0 : vy = 0 := by rw [h0.2, hzc] at hvy; simpa using hvy.symm
    simp only [goRawBytesRaw, hputx, hputy, raw_put _ _ _ (putBE_length _ _) (putBE_length _ _)]
    simp only [hvx0, hvy0, Codec.mkPt, h0, and_self, if_true, Codec.encRaw, hz, buildFrame1, writeComps,
      List.append_nil, hL, Layout.code, Layout.rawInf, Nat.zero_mul, Nat.zero_add]
  · simp only [goRawBytesRaw, Codec.mkPt, h0, if_false, Codec.encRaw, hvx, hvy, hputx, hputy, buildFrame1, writeComps,
      List.append_nil, raw_put _ _ _ (putBE_length _ _) (putBE_length _ _), hL, Layout.code, Nat.zero_mul, Nat.zero_add]

/-! ## G2 over Fp² (two components per coordinate) -/

/-- the frame of a codec with `c ≥ 1` components, by the first byte -/
theorem parseFrameC (C : Codec α) (hc : 1 ≤ C.c) (hfb : 1 ≤ C.fb) (hk : C.L.k ≤ 8) (b0 : UInt8) (tl : List UInt8)
    (hl : ¬ (b0 :: tl).length < C.nbC) :
    C.parseFrame (b0 :: tl) =
      (let xs := ((b0.toNat % 2 ^ (8 - C.L.k)) * 256 ^ (C.fb - 1) + beToNat (tl.take (C.fb - 1))) ::
          readComps C.fb (C.c - 1) ((b0 :: tl).drop C.fb)
       let ys := readComps C.fb C.c ((b0 :: tl).drop C.nbC)
       match C.L.classify (b0.toNat / 2 ^ (8 - C.L.k)) with
       | .bad => .error .flag
       | .unc => if (b0 :: tl).length < 2 * C.nbC then .error .short else .ok (.unc, xs, ys, 2 * C.nbC)
       | .uncInf => if (b0 :: tl).length < 2 * C.nbC then .error .short else .ok (.uncInf, xs, ys, 2 * C.nbC)
       | fl => .ok (fl, xs, [], C.nbC)) := by
  obtain ⟨m, hm⟩ : ∃ m, C.c = m + 1 := ⟨C.c - 1, by omega⟩
  have hlen : C.fb ≤ (b0 :: tl).length := by
    have : C.fb ≤ C.nbC := by unfold Codec.nbC; rw [hm]; nlinarith
    omega
  obtain ⟨k, hk'⟩ : ∃ k, C.fb = k + 1 := ⟨C.fb - 1, by omega⟩
  have hlt : (tl.take k).length = k := by simp at hlen ⊢; omega
  have hr : beToNat (tl.take k) < 256 ^ k := by have := beToNat_lt (tl.take k); rwa [hlt] at this
  have hrc : readComps C.fb C.c (b0 :: tl) = beToNat (b0 :: tl.take (C.fb - 1)) :: readComps C.fb (C.c - 1) ((b0 :: tl).drop C.fb) := by
    rw [hm, hk']; simp [readComps]
  have hsh := shift_split C hfb hk
  unfold Codec.parseFrame
  rw [if_neg hl, hrc]
  simp only
  rw [hsh, hk', Nat.add_sub_cancel, beToNat_cons, hlt, frame_div _ _ _ _ hr, frame_mod _ _ _ _ hr]
  cases C.L.classify (b0.toNat / 2 ^ (8 - C.L.k)) <;> rfl

/-- assumed behaviour of the primitives of a G2 text over Fp²: `emb` embeds a canonical base-field value, writing A1 then A0 yields the
coordinate with those components (marshal order A1 | A0), `Sqrt` is only called when `Legendre ≠ -1` -/
structure Rel2 {β : Type} (P : Prims α) (Q : Comps α β) (C : Codec α) (g : α → α) (emb : Nat → β) : Prop where
  c2 : C.c = 2
  fb_pos : 1 ≤ C.fb
  zero : P.zero = C.zero
  sbc : ∀ bs : List UInt8, bs.length = C.fb → Q.sbc bs = if beToNat bs < C.p then some (emb (beToNat bs)) else none
  set2 : ∀ z a1 a0, Q.setComp "A0" (Q.setComp "A1" z (emb a1)) (emb a0) = C.ofComps [a1, a0]
  rhs : ∀ x, g x = C.rhs x
  sqrt : ∀ v, C.sqrt v = if Q.legendre v = -1 then none else some (Q.sqrtU v)
  lex : ∀ x, P.lex x = C.lex x
  neg : ∀ x, P.neg x = C.neg x
  sub : ∀ x y, P.isInSubGroup x y = C.goInSub x y

theorem goSlice_23 (buf : List UInt8) (fb : Nat) : goSlice buf (fb * 2) (fb * 3) = (buf.drop (fb * 2)).take fb := by
  simp [goSlice]; omega
theorem goSlice_34 (buf : List UInt8) (fb : Nat) : goSlice buf (fb * 3) (fb * 4) = (buf.drop (fb * 3)).take fb := by
  simp [goSlice]; omega

theorem goSetBytes2E2_refines {β : Type} (P : Prims α) (Q : Comps α β) (C : Codec α) (g : α → α) (emb : Nat → β)
    (R : Rel2 P Q C g emb) (hL : C.L = .two) (pX pY : α) (buf : List UInt8) (sub : Bool) :
    C.absR (goSetBytes2E2 C.fb g P Q pX pY buf sub) = some (C.goDecode sub buf) := by
  have hc := R.c2
  have hfb := R.fb_pos
  have hnb : C.nbC = 2 * C.fb := by simp [Codec.nbC, hc]
  by_cases hlen : buf.length < 2 * C.fb
  · simp [goSetBytes2E2, Codec.goDecode, Codec.parseFrame, hnb, hlen, Codec.absR, Codec.errClass]
  · obtain ⟨b0, tl, rfl⟩ : ∃ b0 tl, buf = b0 :: tl := by
      cases buf with
      | nil => simp at hlen; omega
      | cons b t => exact ⟨b, t, rfl⟩
    have hk : C.L.k ≤ 8 := by rw [hL]; decide
    have hk2 : 8 - C.L.k = 6 := by rw [hL]; rfl
    have hpf := parseFrameC C (by omega) hfb hk b0 tl (by rw [hnb]; exact hlen)
    rw [hk2, show (2 : Nat) ^ 6 = 64 by norm_num, hnb, hc] at hpf
    have hlt : (tl.take (C.fb - 1)).length = C.fb - 1 := by simp at hlen ⊢; omega
    have hx : b0.toNat % 64 * 256 ^ (C.fb - 1) + beToNat (tl.take (C.fb - 1))
        = beToNat ((b0 &&& ~~~(192 : UInt8)) :: tl.take (C.fb - 1)) := by
      rw [beToNat_cons, byte2_low, hlt]
    rw [hx] at hpf
    simp only [readComps, Nat.add_one_sub_one] at hpf
    have e3 : List.drop C.fb (List.drop (2 * C.fb) (b0 :: tl)) = List.drop (C.fb * 3) (b0 :: tl) := by
      rw [List.drop_drop]; congr 1; omega
    rw [e3, show 2 * (2 * C.fb) = 4 * C.fb by omega, show 2 * C.fb = C.fb * 2 by omega] at hpf
    unfold Codec.goDecode
    rw [hpf]
    have h0 : 0 < tl.length + 1 := by omega
    have h1 : C.fb ≤ tl.length + 1 := by simp at hlen; omega
    have h1' : C.fb ≤ (b0 :: tl).length := by simpa using h1
    have h2 : C.fb * 2 ≤ tl.length + 1 := by simp at hlen; omega
    have h2' : 2 * C.fb ≤ tl.length + 1 := by omega
    have h2n : ¬ tl.length + 1 < 2 * C.fb := by omega
    have hS0 : ∀ x : UInt8, Q.sbc (x :: tl.take (C.fb - 1)) =
        if beToNat (x :: tl.take (C.fb - 1)) < C.p then some (emb (beToNat (x :: tl.take (C.fb - 1)))) else none :=
      fun x => R.sbc _ (by simp at hlen ⊢; omega)
    have hXs : ∀ x : UInt8, goSlice (x :: tl.take (C.fb - 1)) 0 C.fb = x :: tl.take (C.fb - 1) := by
      intro x; rw [goSlice_head _ _ _ hfb, List.take_take, Nat.min_self]
    have hS1 := R.sbc (((b0 :: tl).drop C.fb).take C.fb) (by simp; omega)
    rcases byte2_cases b0 with ⟨hm, hd⟩ | ⟨hm, hd⟩ | ⟨hm, hd⟩ | ⟨hm, hd⟩
    · -- uncompressed
      rw [byte2_unc b0 hm]
      by_cases hlen2 : tl.length + 1 < 4 * C.fb
      · simp [goSetBytes2E2, hL, hd, hm, Layout.classify, h0, h1, h2, h2', h2n, hlen2, Codec.absR, Codec.errClass]
      · have h3 : C.fb * 3 ≤ tl.length + 1 := by omega
        have h4 : C.fb * 4 ≤ tl.length + 1 := by omega
        have hS2 := R.sbc (((b0 :: tl).drop (C.fb * 2)).take C.fb) (by simp; omega)
        have hS3 := R.sbc (((b0 :: tl).drop (C.fb * 3)).take C.fb) (by simp; omega)
        simp only [goSetBytes2E2, List.getD_cons_zero, hm, goSlice_second, goSlice_23, goSlice_34, goSlice_head _ _ _ hfb, hS0]
        generalize ((b0 :: tl).drop C.fb).take C.fb = W1 at hS1 ⊢
        generalize ((b0 :: tl).drop (C.fb * 2)).take C.fb = W2 at hS2 ⊢
        generalize ((b0 :: tl).drop (C.fb * 3)).take C.fb = W3 at hS3 ⊢
        simp [hL, hd, Layout.classify, h0, h1, h2, h2', h2n, h3, h4, hlen2, Codec.phase1, allLt]
        generalize beToNat (b0 :: List.take (C.fb - 1) tl) = v0
        by_cases hv0 : v0 < C.p <;> simp [hv0, Codec.absR, Codec.errClass]
        rw [hS1]
        generalize beToNat W1 = v1
        by_cases hv1 : v1 < C.p <;> simp [hv1, Codec.absR, Codec.errClass]
        rw [hS2]
        generalize beToNat W2 = v2
        by_cases hv2 : v2 < C.p <;> simp [hv2, Codec.absR, Codec.errClass]
        rw [hS3]
        generalize beToNat W3 = v3
        by_cases hv3 : v3 < C.p <;> simp [hv3, Codec.absR, Codec.errClass, Codec.phase2Go, R.sub, R.set2]
        generalize C.ofComps [v0, v1] = x
        generalize C.ofComps [v2, v3] = y
        cases hs : C.goInSub x y <;> cases sub <;> simp [Codec.absR, Codec.errClass, hs]
    · -- compressed infinity
      have hz := uncInf_zero (b0 &&& ~~~(192 : UInt8)) b0 tl C.fb hfb
      simp [goSetBytes2E2, hL, hd, hm, Layout.classify, h0, h1, h2, h2', h2n, Codec.phase1, allZero, goSlice_tail, goIsZeroed_eq]
      rw [if_congr hz rfl rfl]
      split <;> simp [Codec.absR, Codec.errClass, Codec.phase2Go, Codec.mkPt, R.zero]
      omega
    · simp only [goSetBytes2E2, hm, bufX_copy _ _ _ hfb h1', List.set_cons_zero, List.getD_cons_zero, hXs, hS0, goSlice_second]
      generalize ((b0 :: tl).drop C.fb).take C.fb = W1 at hS1 ⊢
      simp [hL, hd, Layout.classify, h0, h1, h2, h2', h2n, Codec.phase1, allLt]
      generalize beToNat ((b0 &&& ~~~192) :: List.take (C.fb - 1) tl) = v0
      by_cases hv0 : v0 < C.p <;> simp [hv0, Codec.absR, Codec.errClass]
      rw [hS1]
      generalize beToNat W1 = v1
      by_cases hv1 : v1 < C.p <;> simp [hv1, Codec.absR, Codec.errClass, Codec.phase2Go, R.sub, R.set2, R.sqrt, R.rhs, R.lex, R.neg]
      generalize C.ofComps [v0, v1] = x
      by_cases hleg : Q.legendre (C.rhs x) = -1
      · simp [hleg, Codec.absR, Codec.errClass]
      · simp only [hleg, if_false]
        generalize Q.sqrtU (C.rhs x) = y0
        cases hs1 : C.goInSub x y0 <;> cases hs2 : C.goInSub x (C.neg y0) <;> cases hl : C.lex y0 <;> cases sub <;>
          simp [Codec.absR, Codec.errClass, hs1, hs2, hl]
        all_goals omega
    · simp only [goSetBytes2E2, hm, bufX_copy _ _ _ hfb h1', List.set_cons_zero, List.getD_cons_zero, hXs, hS0, goSlice_second]
      generalize ((b0 :: tl).drop C.fb).take C.fb = W1 at hS1 ⊢
      simp [hL, hd, Layout.classify, h0, h1, h2, h2', h2n, Codec.phase1, allLt]
      generalize beToNat ((b0 &&& ~~~192) :: List.take (C.fb - 1) tl) = v0
      by_cases hv0 : v0 < C.p <;> simp [hv0, Codec.absR, Codec.errClass]
      rw [hS1]
      generalize beToNat W1 = v1
      by_cases hv1 : v1 < C.p <;> simp [hv1, Codec.absR, Codec.errClass, Codec.phase2Go, R.sub, R.set2, R.sqrt, R.rhs, R.lex, R.neg]
      generalize C.ofComps [v0, v1] = x
      by_cases hleg : Q.legendre (C.rhs x) = -1
      · simp [hleg, Codec.absR, Codec.errClass]
      · simp only [hleg, if_false]
        generalize Q.sqrtU (C.rhs x) = y0
        cases hs1 : C.goInSub x y0 <;> cases hs2 : C.goInSub x (C.neg y0) <;> cases hl : C.lex y0 <;> cases sub <;>
          simp [Codec.absR, Codec.errClass, hs1, hs2, hl]
        all_goals omega

theorem beToNat_take_add_zero (l : List UInt8) (a b : Nat) :
    beToNat (l.take (a + b)) = 0 ↔ beToNat (l.take a) = 0 ∧ beToNat ((l.drop a).take b) = 0 := by
  simp only [List.take_add, beToNat_eq_zero, List.mem_append]
  constructor
  · intro h; exact ⟨fun y hy => h y (Or.inl hy), fun y hy => h y (Or.inr hy)⟩
  · rintro ⟨h1, h2⟩ y (hy | hy)
    · exact h1 y hy
    · exact h2 y hy

theorem drop_cons_pos (x b0 : UInt8) (tl : List UInt8) (k : Nat) (hk : 1 ≤ k) : (x :: tl).drop k = (b0 :: tl).drop k := by
  cases k with
  | zero => omega
  | succ n => simp

theorem zero4 (x b0 : UInt8) (tl : List UInt8) (fb : Nat) (hfb : 1 ≤ fb) :
    beToNat (x :: tl.take (4 * fb - 1)) = 0 ↔
      (beToNat (x :: tl.take (fb - 1)) = 0 ∧ beToNat (((b0 :: tl).drop fb).take fb) = 0) ∧
      (beToNat (((b0 :: tl).drop (fb * 2)).take fb) = 0 ∧ beToNat (((b0 :: tl).drop (fb * 3)).take fb) = 0) := by
  have e0 : x :: tl.take (4 * fb - 1) = (x :: tl).take (fb + fb + fb + fb) := by
    obtain ⟨m, rfl⟩ : ∃ m, fb = m + 1 := ⟨fb - 1, by omega⟩
    rw [show m + 1 + (m + 1) + (m + 1) + (m + 1) = (4 * (m + 1) - 1) + 1 by omega, List.take_succ_cons]
  have e1 : x :: tl.take (fb - 1) = (x :: tl).take fb := by
    obtain ⟨m, rfl⟩ : ∃ m, fb = m + 1 := ⟨fb - 1, by omega⟩
    simp
  rw [e0, e1, beToNat_take_add_zero, beToNat_take_add_zero, beToNat_take_add_zero,
    drop_cons_pos x b0 tl fb hfb, drop_cons_pos x b0 tl (fb + fb) (by omega), drop_cons_pos x b0 tl (fb + fb + fb) (by omega),
    show fb + fb = fb * 2 by omega, show fb * 2 + fb = fb * 3 by omega]
  tauto

theorem goSetBytes3E2_refines {β : Type} (P : Prims α) (Q : Comps α β) (C : Codec α) (g : α → α) (emb : Nat → β)
    (R : Rel2 P Q C g emb) (hL : C.L = .three) (pX pY : α) (buf : List UInt8) (sub : Bool) :
    C.absR (goSetBytes3E2 C.fb g P Q pX pY buf sub) = some (C.goDecode sub buf) := by
  have hc := R.c2
  have hfb := R.fb_pos
  have hnb : C.nbC = 2 * C.fb := by simp [Codec.nbC, hc]
  by_cases hlen : buf.length < 2 * C.fb
  · simp [goSetBytes3E2, Codec.goDecode, Codec.parseFrame, hnb, hlen, Codec.absR, Codec.errClass]
  · obtain ⟨b0, tl, rfl⟩ : ∃ b0 tl, buf = b0 :: tl := by
      cases buf with
      | nil => simp at hlen; omega
      | cons b t => exact ⟨b, t, rfl⟩
    have hk : C.L.k ≤ 8 := by rw [hL]; decide
    have hk2 : 8 - C.L.k = 5 := by rw [hL]; rfl
    have hpf := parseFrameC C (by omega) hfb hk b0 tl (by rw [hnb]; exact hlen)
    rw [hk2, show (2 : Nat) ^ 5 = 32 by norm_num, hnb, hc] at hpf
    have hlt : (tl.take (C.fb - 1)).length = C.fb - 1 := by simp at hlen ⊢; omega
    have hx : b0.toNat % 32 * 256 ^ (C.fb - 1) + beToNat (tl.take (C.fb - 1))
        = beToNat ((b0 &&& ~~~(224 : UInt8)) :: tl.take (C.fb - 1)) := by
      rw [beToNat_cons, byte3_low, hlt]
    rw [hx] at hpf
    simp only [readComps, Nat.add_one_sub_one] at hpf
    have e3 : List.drop C.fb (List.drop (2 * C.fb) (b0 :: tl)) = List.drop (C.fb * 3) (b0 :: tl) := by
      rw [List.drop_drop]; congr 1; omega
    rw [e3, show 2 * (2 * C.fb) = 4 * C.fb by omega, show 2 * C.fb = C.fb * 2 by omega] at hpf
    unfold Codec.goDecode
    rw [hpf]
    have h0 : 0 < tl.length + 1 := by omega
    have h1 : C.fb ≤ tl.length + 1 := by simp at hlen; omega
    have h1' : C.fb ≤ (b0 :: tl).length := by simpa using h1
    have h2 : C.fb * 2 ≤ tl.length + 1 := by simp at hlen; omega
    have h2' : 2 * C.fb ≤ tl.length + 1 := by omega
    have h2n : ¬ tl.length + 1 < 2 * C.fb := by omega
    have hS0 : ∀ x : UInt8, Q.sbc (x :: tl.take (C.fb - 1)) =
        if beToNat (x :: tl.take (C.fb - 1)) < C.p then some (emb (beToNat (x :: tl.take (C.fb - 1)))) else none :=
      fun x => R.sbc _ (by simp at hlen ⊢; omega)
    have hXs : ∀ x : UInt8, goSlice (x :: tl.take (C.fb - 1)) 0 C.fb = x :: tl.take (C.fb - 1) := by
      intro x; rw [goSlice_head _ _ _ hfb, List.take_take, Nat.min_self]
    have hS1 := R.sbc (((b0 :: tl).drop C.fb).take C.fb) (by simp; omega)
    rcases byte3_cases b0 with ⟨hm, hd⟩ | ⟨hm, hd⟩ | ⟨hm, hd⟩ | ⟨hm, hd⟩ | ⟨hm, hd⟩ | ⟨hm, hd⟩ | ⟨hm, hd⟩ | ⟨hm, hd⟩
    · -- uncompressed
      rw [byte3_unc b0 hm]
      by_cases hlen2 : tl.length + 1 < 4 * C.fb
      · simp [goSetBytes3E2, goIsMaskInvalid_0, goIsMaskInvalid_32, goIsMaskInvalid_64, goIsMaskInvalid_96, goIsMaskInvalid_128, goIsMaskInvalid_160, goIsMaskInvalid_192, goIsMaskInvalid_224, hL, hd, hm, Layout.classify, h0, h1, h2, h2', h2n, hlen2, Codec.absR, Codec.errClass]
      · have h3 : C.fb * 3 ≤ tl.length + 1 := by omega
        have h4 : C.fb * 4 ≤ tl.length + 1 := by omega
        have hS2 := R.sbc (((b0 :: tl).drop (C.fb * 2)).take C.fb) (by simp; omega)
        have hS3 := R.sbc (((b0 :: tl).drop (C.fb * 3)).take C.fb) (by simp; omega)
        simp only [goSetBytes3E2, goIsMaskInvalid_0, goIsMaskInvalid_32, goIsMaskInvalid_64, goIsMaskInvalid_96, goIsMaskInvalid_128, goIsMaskInvalid_160, goIsMaskInvalid_192, goIsMaskInvalid_224, List.getD_cons_zero, hm, goSlice_second, goSlice_23, goSlice_34, goSlice_head _ _ _ hfb, hS0]
        generalize ((b0 :: tl).drop C.fb).take C.fb = W1 at hS1 ⊢
        generalize ((b0 :: tl).drop (C.fb * 2)).take C.fb = W2 at hS2 ⊢
        generalize ((b0 :: tl).drop (C.fb * 3)).take C.fb = W3 at hS3 ⊢
        simp [hL, hd, Layout.classify, h0, h1, h2, h2', h2n, h3, h4, hlen2, Codec.phase1, allLt]
        generalize beToNat (b0 :: List.take (C.fb - 1) tl) = v0
        by_cases hv0 : v0 < C.p <;> simp [hv0, Codec.absR, Codec.errClass]
        rw [hS1]
        generalize beToNat W1 = v1
        by_cases hv1 : v1 < C.p <;> simp [hv1, Codec.absR, Codec.errClass]
        rw [hS2]
        generalize beToNat W2 = v2
        by_cases hv2 : v2 < C.p <;> simp [hv2, Codec.absR, Codec.errClass]
        rw [hS3]
        generalize beToNat W3 = v3
        by_cases hv3 : v3 < C.p <;> simp [hv3, Codec.absR, Codec.errClass, Codec.phase2Go, R.sub, R.set2]
        generalize C.ofComps [v0, v1] = x
        generalize C.ofComps [v2, v3] = y
        cases hs : C.goInSub x y <;> cases sub <;> simp [Codec.absR, Codec.errClass, hs]
    · simp [goSetBytes3E2, goIsMaskInvalid_0, goIsMaskInvalid_32, goIsMaskInvalid_64, goIsMaskInvalid_96, goIsMaskInvalid_128, goIsMaskInvalid_160, goIsMaskInvalid_192, goIsMaskInvalid_224, hL, hd, hm, Layout.classify, h0, h1, h2, h2', h2n, Codec.absR, Codec.errClass]
    · -- 010 uncompressed infinity
      by_cases hlen2 : tl.length + 1 < 4 * C.fb
      · simp [goSetBytes3E2, goIsMaskInvalid_0, goIsMaskInvalid_32, goIsMaskInvalid_64, goIsMaskInvalid_96, goIsMaskInvalid_128, goIsMaskInvalid_160, goIsMaskInvalid_192, goIsMaskInvalid_224, hL, hd, hm, Layout.classify, h0, h1, h2, h2', h2n, hlen2, Codec.absR, Codec.errClass]
      · have h4 : 4 * C.fb ≤ tl.length + 1 := by omega
        have hz := zero4 (b0 &&& ~~~(224 : UInt8)) b0 tl C.fb hfb
        simp [goSetBytes3E2, goIsMaskInvalid_0, goIsMaskInvalid_32, goIsMaskInvalid_64, goIsMaskInvalid_96, goIsMaskInvalid_128, goIsMaskInvalid_160, goIsMaskInvalid_192, goIsMaskInvalid_224, hL, hd, hm, Layout.classify, h0, h1, h2, h2', h2n, h4, hlen2, Codec.phase1, allZero,
          goSlice_tail, goIsZeroed_eq]
        rw [if_congr hz rfl rfl]
        split <;> simp [Codec.absR, Codec.errClass, Codec.phase2Go, Codec.mkPt, R.zero]
    · simp [goSetBytes3E2, goIsMaskInvalid_0, goIsMaskInvalid_32, goIsMaskInvalid_64, goIsMaskInvalid_96, goIsMaskInvalid_128, goIsMaskInvalid_160, goIsMaskInvalid_192, goIsMaskInvalid_224, hL, hd, hm, Layout.classify, h0, h1, h2, h2', h2n, Codec.absR, Codec.errClass]
    · simp only [goSetBytes3E2, goIsMaskInvalid_0, goIsMaskInvalid_32, goIsMaskInvalid_64, goIsMaskInvalid_96, goIsMaskInvalid_128, goIsMaskInvalid_160, goIsMaskInvalid_192, goIsMaskInvalid_224, hm, bufX_copy _ _ _ hfb h1', List.set_cons_zero, List.getD_cons_zero, hXs, hS0, goSlice_second]
      generalize ((b0 :: tl).drop C.fb).take C.fb = W1 at hS1 ⊢
      simp [hL, hd, Layout.classify, h0, h1, h2, h2', h2n, Codec.phase1, allLt]
      generalize beToNat ((b0 &&& ~~~224) :: List.take (C.fb - 1) tl) = v0
      by_cases hv0 : v0 < C.p <;> simp [hv0, Codec.absR, Codec.errClass]
      rw [hS1]
      generalize beToNat W1 = v1
      by_cases hv1 : v1 < C.p <;> simp [hv1, Codec.absR, Codec.errClass, Codec.phase2Go, R.sub, R.set2, R.sqrt, R.rhs, R.lex, R.neg]
      generalize C.ofComps [v0, v1] = x
      by_cases hleg : Q.legendre (C.rhs x) = -1
      · simp [hleg, Codec.absR, Codec.errClass]
      · simp only [hleg, if_false]
        generalize Q.sqrtU (C.rhs x) = y0
        cases hs1 : C.goInSub x y0 <;> cases hs2 : C.goInSub x (C.neg y0) <;> cases hl : C.lex y0 <;> cases sub <;>
          simp [Codec.absR, Codec.errClass, hs1, hs2, hl]
        all_goals omega
    · simp only [goSetBytes3E2, goIsMaskInvalid_0, goIsMaskInvalid_32, goIsMaskInvalid_64, goIsMaskInvalid_96, goIsMaskInvalid_128, goIsMaskInvalid_160, goIsMaskInvalid_192, goIsMaskInvalid_224, hm, bufX_copy _ _ _ hfb h1', List.set_cons_zero, List.getD_cons_zero, hXs, hS0, goSlice_second]
      generalize ((b0 :: tl).drop C.fb).take C.fb = W1 at hS1 ⊢
      simp [hL, hd, Layout.classify, h0, h1, h2, h2', h2n, Codec.phase1, allLt]
      generalize beToNat ((b0 &&& ~~~224) :: List.take (C.fb - 1) tl) = v0
      by_cases hv0 : v0 < C.p <;> simp [hv0, Codec.absR, Codec.errClass]
      rw [hS1]
      generalize beToNat W1 = v1
      by_cases hv1 : v1 < C.p <;> simp [hv1, Codec.absR, Codec.errClass, Codec.phase2Go, R.sub, R.set2, R.sqrt, R.rhs, R.lex, R.neg]
      generalize C.ofComps [v0, v1] = x
      by_cases hleg : Q.legendre (C.rhs x) = -1
      · simp [hleg, Codec.absR, Codec.errClass]
      · simp only [hleg, if_false]
        generalize Q.sqrtU (C.rhs x) = y0
        cases hs1 : C.goInSub x y0 <;> cases hs2 : C.goInSub x (C.neg y0) <;> cases hl : C.lex y0 <;> cases sub <;>
          simp [Codec.absR, Codec.errClass, hs1, hs2, hl]
        all_goals omega
    · -- compressed infinity
      have hz := uncInf_zero (b0 &&& ~~~(224 : UInt8)) b0 tl C.fb hfb
      simp [goSetBytes3E2, goIsMaskInvalid_0, goIsMaskInvalid_32, goIsMaskInvalid_64, goIsMaskInvalid_96, goIsMaskInvalid_128, goIsMaskInvalid_160, goIsMaskInvalid_192, goIsMaskInvalid_224, hL, hd, hm, Layout.classify, h0, h1, h2, h2', h2n, Codec.phase1, allZero, goSlice_tail, goIsZeroed_eq]
      rw [if_congr hz rfl rfl]
      split <;> simp [Codec.absR, Codec.errClass, Codec.phase2Go, Codec.mkPt, R.zero]
      omega
    · simp [goSetBytes3E2, goIsMaskInvalid_0, goIsMaskInvalid_32, goIsMaskInvalid_64, goIsMaskInvalid_96, goIsMaskInvalid_128, goIsMaskInvalid_160, goIsMaskInvalid_192, goIsMaskInvalid_224, hL, hd, hm, Layout.classify, h0, h1, h2, h2', h2n, Codec.absR, Codec.errClass]

end GV.PointCodec
