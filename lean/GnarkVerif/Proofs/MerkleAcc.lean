import GnarkVerif.Model.Merkle
import Mathlib.Tactic.Ring
import Mathlib.Tactic.Linarith
/-
Helper lemmas for C16, part A.1: the stack machine of accumulator/merkletree/tree.go against RFC 6962.
-/
namespace GV.Merkle
set_option linter.unusedSectionVars false

section Acc
variable {A D : Type} [Inhabited D] (hl : A → D) (hn : D → D → D)

/-! ### the specification with fuel -/

theorem mth_succ_of_le (h : Nat) (X : List A) (hX : X.length ≤ 2^h) : mth hl hn (h+1) X = mth hl hn h X := by
  simp [mth, hX]

theorem mth_succ_of_gt (h : Nat) (X : List A) (hX : 2^h < X.length) :
    mth hl hn (h+1) X = hn (mth hl hn h (X.take (2^h))) (mth hl hn h (X.drop (2^h))) := by
  simp [mth, Nat.not_le.mpr hX]

theorem mth_add (h d : Nat) (X : List A) (hX : X.length ≤ 2^h) : mth hl hn (h+d) X = mth hl hn h X := by
  induction d with
  | zero => rfl
  | succ d ih =>
    rw [← Nat.add_assoc, mth_succ_of_le, ih]
    calc X.length ≤ 2^h := hX
      _ ≤ 2^(h+d) := Nat.pow_le_pow_right (by norm_num) (by omega)

theorem mth_fuel (h h' : Nat) (X : List A) (hX : X.length ≤ 2^h) (hX' : X.length ≤ 2^h') :
    mth hl hn h X = mth hl hn h' X := by
  rcases Nat.le_total h h' with hle | hle
  · obtain ⟨d, rfl⟩ := Nat.exists_eq_add_of_le hle
    exact (mth_add hl hn h d X hX).symm
  · obtain ⟨d, rfl⟩ := Nat.exists_eq_add_of_le hle
    exact mth_add hl hn h' d X hX'

theorem mpath_succ_of_le (h : Nat) (X : List A) (i : Nat) (hX : X.length ≤ 2^h) :
    mpath hl hn (h+1) X i = mpath hl hn h X i := by
  simp [mpath, hX]

theorem mpath_add (h d : Nat) (X : List A) (i : Nat) (hX : X.length ≤ 2^h) : mpath hl hn (h+d) X i = mpath hl hn h X i := by
  induction d with
  | zero => rfl
  | succ d ih =>
    rw [← Nat.add_assoc, mpath_succ_of_le, ih]
    calc X.length ≤ 2^h := hX
      _ ≤ 2^(h+d) := Nat.pow_le_pow_right (by norm_num) (by omega)

theorem mpath_fuel (h h' : Nat) (X : List A) (i : Nat) (hX : X.length ≤ 2^h) (hX' : X.length ≤ 2^h') :
    mpath hl hn h X i = mpath hl hn h' X i := by
  rcases Nat.le_total h h' with hle | hle
  · obtain ⟨d, rfl⟩ := Nat.exists_eq_add_of_le hle
    exact (mpath_add hl hn h d X i hX).symm
  · obtain ⟨d, rfl⟩ := Nat.exists_eq_add_of_le hle
    exact mpath_add hl hn h' d X i hX'

/-- audit path inside a complete sub-tree of height `h` has `h` elements -/
theorem mpath_length_full : ∀ (h : Nat) (X : List A) (q : Nat), X.length = 2^h → (mpath hl hn h X q).length = h
  | 0, _, _, _ => by simp [mpath]
  | h+1, X, q, hX => by
    have hgt : ¬ X.length ≤ 2^h := by rw [hX, pow_succ]; have := Nat.two_pow_pos h; omega
    have h1 : (X.take (2^h)).length = 2^h := by rw [List.length_take, hX, pow_succ]; omega
    have h2 : (X.drop (2^h)).length = 2^h := by rw [List.length_drop, hX, pow_succ]; omega
    simp only [mpath, hgt, if_false]
    split
    · simp [mpath_length_full h _ q h1]
    · simp [mpath_length_full h _ _ h2]

/-! ### joinAllSubTrees -/

theorem joinAll_nojoin (p c : Nat) (b : Bool) (hd : Nat × D) (st : List (Nat × D)) (sibs : List D)
    (h : ∀ e ∈ st, hd.1 < e.1) : joinAll hn p c b hd st sibs = (hd :: st, sibs) := by
  cases st with
  | nil => simp [joinAll]
  | cons nx rest =>
    have := h nx (by simp)
    rw [joinAll, if_neg (by omega)]

theorem div_shift (c δ h H : Nat) (hd : 2^h ∣ c) (hδ : δ < 2^h) (hH : h ≤ H) : (c + δ) / 2^H = c / 2^H := by
  obtain ⟨q, rfl⟩ := hd
  obtain ⟨e, rfl⟩ := Nat.exists_eq_add_of_le hH
  have hp : 0 < 2^h := Nat.two_pow_pos h
  rw [pow_add, ← Nat.div_div_eq_div_mul, ← Nat.div_div_eq_div_mul, Nat.mul_add_div hp, Nat.mul_div_cancel_left _ hp,
    Nat.div_eq_of_lt hδ, Nat.add_zero]

theorem joinAll_cur (p c δ h : Nat) (b : Bool) (hdvd : 2^h ∣ c) (hδ : δ < 2^h) :
    ∀ (rest : List (Nat × D)) (hd : Nat × D) (sibs : List D), h ≤ hd.1 →
      joinAll hn p (c+δ) b hd rest sibs = joinAll hn p c b hd rest sibs := by
  intro rest
  induction rest with
  | nil => intro hd sibs _; simp [joinAll]
  | cons nx rest ih =>
    intro hd sibs hh
    rw [joinAll, joinAll]
    by_cases he : hd.1 = nx.1
    · rw [if_pos he, if_pos he, div_shift c δ h hd.1 hdvd hδ hh]
      exact ih _ _ (by simp; omega)
    · rw [if_neg he, if_neg he]

/-! ### pushing complete blocks -/

theorem pushAll_append (t : Tree A D) (X Y : List A) :
    pushAll hl hn t (X ++ Y) = pushAll hl hn (pushAll hl hn t X) Y := by
  simp [pushAll, List.foldl_append]

theorem two_pow_pos (h : Nat) : 0 < 2^h := Nat.two_pow_pos h

theorem stack_cons_ge (h : Nat) (x : D) (st : List (Nat × D)) (hst : ∀ e ∈ st, h + 1 ≤ e.1) :
    ∀ e ∈ (h, x) :: st, h ≤ e.1 := by
  intro e he
  rcases List.mem_cons.mp he with rfl | he
  · simp
  · have := hst e he; omega

/-- L1: pushing the `2^h` leaves of an aligned block that does not contain the proof index is `PushSubTree` of its root -/
theorem pushAll_full_out : ∀ (h : Nat) (X : List A) (st : List (Nat × D)) (c p : Nat) (lf : Option A) (sibs : List D) (pt : Bool),
    X.length = 2^h → (∀ e ∈ st, h ≤ e.1) → 2^h ∣ c → ¬ (c ≤ p ∧ p < c + 2^h) → (lf.isSome → h ≤ sibs.length) →
    pushAll hl hn ⟨st, c, p, lf, sibs, pt⟩ X = pushSubTreeRaw hn ⟨st, c, p, lf, sibs, pt⟩ h (mth hl hn h X) := by
  intro h
  induction h with
  | zero =>
    intro X st c p lf sibs pt hX hst hc hp hlf
    match X, hX with
    | [x], _ =>
      have hne : c ≠ p := by omega
      simp [pushAll, push, pushSubTreeRaw, mth, hne]
  | succ h ih =>
    intro X st c p lf sibs pt hX hst hc hp hlf
    have hpos := two_pow_pos h
    have hgt : 2^h < X.length := by rw [hX, pow_succ]; omega
    have h1 : (X.take (2^h)).length = 2^h := by rw [List.length_take, hX, pow_succ]; omega
    have h2 : (X.drop (2^h)).length = 2^h := by rw [List.length_drop, hX, pow_succ]; omega
    have hc' : 2^h ∣ c := Dvd.dvd.trans ⟨2, by rw [pow_succ]⟩ hc
    rw [pow_succ] at hp
    conv_lhs => rw [← List.take_append_drop (2^h) X]
    rw [pushAll_append, ih _ st c p lf sibs pt h1 (fun e he => by have := hst e he; omega) hc' (by omega)
      (fun hs => by have := hlf hs; omega)]
    unfold pushSubTreeRaw
    simp only
    rw [joinAll_nojoin hn p c _ _ st sibs (fun e he => by have := hst e he; simp; omega)]
    simp only
    rw [ih _ _ (c + 2^h) p lf sibs pt h2 (stack_cons_ge h _ st hst)
      (Nat.dvd_add hc' (Nat.dvd_refl _)) (by omega) (fun hs => by have := hlf hs; omega)]
    unfold pushSubTreeRaw
    simp only
    rw [joinAll, if_pos rfl]
    have hno : ¬ (lf.isSome = true ∧ h = sibs.length) := by
      rintro ⟨hs, he⟩; have := hlf hs; omega
    simp only [hno, if_false]
    rw [joinAll_cur hn p c (2^h) (h+1) _ hc (by rw [pow_succ]; omega) st _ sibs (by simp)]
    rw [mth_succ_of_gt hl hn h X hgt]
    simp [pow_succ]; omega

theorem joinAll_step_proof (p c' h : Nat) (c1 c2 : D) (st : List (Nat × D)) (sibs : List D) (hs : sibs.length = h) :
    joinAll hn p c' true (h, c2) ((h, c1) :: st) sibs =
      joinAll hn p c' true (h+1, hn c1 c2) st (sibs ++ [if p < (c' / 2^h) * 2^h then c2 else c1]) := by
  rw [joinAll, if_pos rfl]
  simp only [hs, and_self, if_true]
  split <;> rfl

theorem mpath_succ_left (h : Nat) (X : List A) (q : Nat) (hX : 2^h < X.length) (hq : q < 2^h) :
    mpath hl hn (h+1) X q = mpath hl hn h (X.take (2^h)) q ++ [mth hl hn h (X.drop (2^h))] := by
  simp [mpath, Nat.not_le.mpr hX, hq]

theorem mpath_succ_right (h : Nat) (X : List A) (q : Nat) (hX : 2^h < X.length) (hq : ¬ q < 2^h) :
    mpath hl hn (h+1) X q = mpath hl hn h (X.drop (2^h)) (q - 2^h) ++ [mth hl hn h (X.take (2^h))] := by
  simp [mpath, Nat.not_le.mpr hX, hq]

/-- L2: pushing the `2^h` leaves of an aligned block that contains the proof index -/
theorem pushAll_full_in : ∀ (h : Nat) (X : List A) (st : List (Nat × D)) (c p : Nat) (pt : Bool),
    X.length = 2^h → (∀ e ∈ st, h ≤ e.1) → 2^h ∣ c → c ≤ p → p < c + 2^h →
    pushAll hl hn ⟨st, c, p, none, [], pt⟩ X =
      ⟨(joinAll hn p c true (h, mth hl hn h X) st (mpath hl hn h X (p - c))).1, c + 2^h, p, X[p - c]?,
       (joinAll hn p c true (h, mth hl hn h X) st (mpath hl hn h X (p - c))).2, pt⟩ := by
  intro h
  induction h with
  | zero =>
    intro X st c p pt hX hst hc h1 h2
    match X, hX with
    | [x], _ =>
      have : c = p := by omega
      subst this
      simp [pushAll, push, mth, mpath]
  | succ h ih =>
    intro X st c p pt hX hst hc hcp hpc
    have hpos := two_pow_pos h
    have hgt : 2^h < X.length := by rw [hX, pow_succ]; omega
    have h1 : (X.take (2^h)).length = 2^h := by rw [List.length_take, hX, pow_succ]; omega
    have h2 : (X.drop (2^h)).length = 2^h := by rw [List.length_drop, hX, pow_succ]; omega
    have hc' : 2^h ∣ c := Dvd.dvd.trans ⟨2, by rw [pow_succ]⟩ hc
    have hst' : ∀ e ∈ st, h ≤ e.1 := fun e he => by have := hst e he; omega
    have hmid : (c + 2^h) / 2^h * 2^h = c + 2^h := Nat.div_mul_cancel (Nat.dvd_add hc' (Nat.dvd_refl _))
    rw [pow_succ] at hpc
    conv_lhs => rw [← List.take_append_drop (2^h) X]
    rw [pushAll_append]
    by_cases hq : p - c < 2^h
    · -- the proof index is in the left half
      rw [ih _ st c p pt h1 hst' hc' hcp (by omega)]
      rw [joinAll_nojoin hn p c _ _ st _ (fun e he => by have := hst e he; simp; omega)]
      simp only
      rw [pushAll_full_out hl hn h _ _ (c + 2^h) p _ _ pt h2 (stack_cons_ge h _ st hst)
        (Nat.dvd_add hc' (Nat.dvd_refl _)) (by omega)
        (fun _ => by rw [mpath_length_full hl hn h _ _ h1])]
      unfold pushSubTreeRaw
      have hsome : ((X.take (2^h))[p - c]?).isSome = true := by
        rw [List.getElem?_eq_getElem (by omega)]; rfl
      simp only [hsome]
      rw [joinAll_step_proof hn p (c + 2^h) h _ _ st _ (mpath_length_full hl hn h _ _ h1), hmid,
        if_pos (by omega)]
      rw [joinAll_cur hn p c (2^h) (h+1) _ hc (by rw [pow_succ]; omega) st _ _ (by simp)]
      rw [mth_succ_of_gt hl hn h X hgt, mpath_succ_left hl hn h X _ hgt hq, List.getElem?_take_of_lt hq]
      simp [pow_succ]; omega
    · -- the proof index is in the right half
      rw [pushAll_full_out hl hn h _ st c p none [] pt h1 hst' hc' (by omega) (by simp)]
      unfold pushSubTreeRaw
      simp only
      rw [joinAll_nojoin hn p c _ _ st _ (fun e he => by have := hst e he; simp; omega)]
      simp only
      rw [ih _ _ (c + 2^h) p pt h2 (stack_cons_ge h _ st hst) (Nat.dvd_add hc' (Nat.dvd_refl _)) (by omega) (by omega)]
      rw [joinAll_step_proof hn p (c + 2^h) h _ _ st _ (mpath_length_full hl hn h _ _ h2), hmid,
        if_neg (by omega)]
      rw [joinAll_cur hn p c (2^h) (h+1) _ hc (by rw [pow_succ]; omega) st _ _ (by simp)]
      rw [mth_succ_of_gt hl hn h X hgt, mpath_succ_right hl hn h X _ hgt hq, List.getElem?_drop]
      have e1 : p - (c + 2^h) = p - c - 2^h := by omega
      have e2 : 2^h + (p - c - 2^h) = p - c := by omega
      rw [e1, e2]
      simp [pow_succ]; omega

/-! ### pushing an arbitrary (shorter) run: the stack holds the binary decomposition -/

/-- the sub-trees pushed on the stack by `|X| < 2^h` leaves (smallest = most recent first) -/
def blocks : Nat → List A → List (Nat × D)
  | 0, _ => []
  | h+1, X =>
    if X.length < 2^h then blocks h X
    else if X.length = 2^h then [(h, mth hl hn h X)]
    else blocks h (X.drop (2^h)) ++ [(h, mth hl hn h (X.take (2^h)))]

/-- the part of the proof set (after the leaf) collected while pushing, before `Prove` completes it -/
def psibs : Nat → List A → Nat → List D
  | 0, _, _ => []
  | h+1, X, q =>
    if X.length < 2^h then psibs h X q
    else if X.length = 2^h then mpath hl hn h X q
    else if q < 2^h then mpath hl hn h (X.take (2^h)) q
    else psibs h (X.drop (2^h)) (q - 2^h)

/-- L3: a run that does not contain the proof index -/
theorem pushAll_part_out : ∀ (h : Nat) (X : List A) (st : List (Nat × D)) (c p : Nat) (lf : Option A) (sibs : List D) (pt : Bool),
    X.length < 2^h → (∀ e ∈ st, h ≤ e.1) → 2^h ∣ c → ¬ (c ≤ p ∧ p < c + X.length) → (lf.isSome → h ≤ sibs.length) →
    pushAll hl hn ⟨st, c, p, lf, sibs, pt⟩ X = ⟨blocks hl hn h X ++ st, c + X.length, p, lf, sibs, pt⟩ := by
  intro h
  induction h with
  | zero =>
    intro X st c p lf sibs pt hX
    have : X = [] := by cases X <;> simp_all
    subst this
    intros; simp [pushAll, blocks]
  | succ h ih =>
    intro X st c p lf sibs pt hX hst hc hp hlf
    have hpos := two_pow_pos h
    have hc' : 2^h ∣ c := Dvd.dvd.trans ⟨2, by rw [pow_succ]⟩ hc
    have hst' : ∀ e ∈ st, h ≤ e.1 := fun e he => by have := hst e he; omega
    have hlf' : lf.isSome → h ≤ sibs.length := fun hs => by have := hlf hs; omega
    rw [pow_succ] at hX
    by_cases h1 : X.length < 2^h
    · rw [ih X st c p lf sibs pt h1 hst' hc' hp hlf']
      simp [blocks, h1]
    · by_cases h2 : X.length = 2^h
      · rw [pushAll_full_out hl hn h X st c p lf sibs pt h2 hst' hc' (by omega) hlf']
        unfold pushSubTreeRaw
        simp only
        rw [joinAll_nojoin hn p c _ _ st _ (fun e he => by have := hst e he; simp; omega)]
        simp [blocks, h2]
      · have hgt : 2^h < X.length := by omega
        have l1 : (X.take (2^h)).length = 2^h := by rw [List.length_take]; omega
        have l2 : (X.drop (2^h)).length = X.length - 2^h := by rw [List.length_drop]
        conv_lhs => rw [← List.take_append_drop (2^h) X]
        rw [pushAll_append, pushAll_full_out hl hn h _ st c p lf sibs pt l1 hst' hc' (by omega) hlf']
        unfold pushSubTreeRaw
        simp only
        rw [joinAll_nojoin hn p c _ _ st _ (fun e he => by have := hst e he; simp; omega)]
        simp only
        rw [ih _ _ (c + 2^h) p lf sibs pt (by rw [l2]; omega) (stack_cons_ge h _ st hst) (Nat.dvd_add hc' (Nat.dvd_refl _))
          (by rw [l2]; omega) hlf']
        simp [blocks, h1, h2, l2]; omega

/-- L4: a run that contains the proof index -/
theorem pushAll_part_in : ∀ (h : Nat) (X : List A) (st : List (Nat × D)) (c p : Nat) (pt : Bool),
    X.length < 2^h → (∀ e ∈ st, h ≤ e.1) → 2^h ∣ c → c ≤ p → p < c + X.length →
    pushAll hl hn ⟨st, c, p, none, [], pt⟩ X =
      ⟨blocks hl hn h X ++ st, c + X.length, p, X[p - c]?, psibs hl hn h X (p - c), pt⟩ := by
  intro h
  induction h with
  | zero =>
    intro X st c p pt hX
    have : X = [] := by cases X <;> simp_all
    subst this
    intro _ _ _ hh; simp at hh; omega
  | succ h ih =>
    intro X st c p pt hX hst hc hcp hpc
    have hpos := two_pow_pos h
    have hc' : 2^h ∣ c := Dvd.dvd.trans ⟨2, by rw [pow_succ]⟩ hc
    have hst' : ∀ e ∈ st, h ≤ e.1 := fun e he => by have := hst e he; omega
    rw [pow_succ] at hX
    by_cases h1 : X.length < 2^h
    · rw [ih X st c p pt h1 hst' hc' hcp hpc]
      simp [blocks, psibs, h1]
    · by_cases h2 : X.length = 2^h
      · rw [pushAll_full_in hl hn h X st c p pt h2 hst' hc' hcp (by omega)]
        rw [joinAll_nojoin hn p c _ _ st _ (fun e he => by have := hst e he; simp; omega)]
        simp [blocks, psibs, h2]
      · have hgt : 2^h < X.length := by omega
        have l1 : (X.take (2^h)).length = 2^h := by rw [List.length_take]; omega
        have l2 : (X.drop (2^h)).length = X.length - 2^h := by rw [List.length_drop]
        conv_lhs => rw [← List.take_append_drop (2^h) X]
        rw [pushAll_append]
        by_cases hq : p - c < 2^h
        · rw [pushAll_full_in hl hn h _ st c p pt l1 hst' hc' hcp (by omega)]
          rw [joinAll_nojoin hn p c _ _ st _ (fun e he => by have := hst e he; simp; omega)]
          simp only
          rw [pushAll_part_out hl hn h _ _ (c + 2^h) p _ _ pt (by rw [l2]; omega) (stack_cons_ge h _ st hst)
            (Nat.dvd_add hc' (Nat.dvd_refl _)) (by rw [l2]; omega)
            (fun _ => by rw [mpath_length_full hl hn h _ _ l1])]
          rw [List.getElem?_take_of_lt hq]
          simp [blocks, psibs, h1, h2, hq, l2]; omega
        · rw [pushAll_full_out hl hn h _ st c p none [] pt l1 hst' hc' (by omega) (by simp)]
          unfold pushSubTreeRaw
          simp only
          rw [joinAll_nojoin hn p c _ _ st _ (fun e he => by have := hst e he; simp; omega)]
          simp only
          rw [ih _ _ (c + 2^h) p pt (by rw [l2]; omega) (stack_cons_ge h _ st hst) (Nat.dvd_add hc' (Nat.dvd_refl _))
            (by omega) (by rw [l2]; omega)]
          have e1 : p - (c + 2^h) = p - c - 2^h := by omega
          have e2 : 2^h + (p - c - 2^h) = p - c := by omega
          rw [List.getElem?_drop, e1, e2]
          simp [blocks, psibs, h1, h2, hq, l2]; omega

/-! ### `Root` and `Prove` on the binary decomposition -/

def rootOf : List (Nat × D) → Option D
  | [] => none
  | hd :: rest => some (rootFold hn hd.2 rest)

def finishL : List (Nat × D) → List D → List D
  | [], s => s
  | hd :: rest, s => finish hn hd rest s

theorem blocks_lt : ∀ (h : Nat) (X : List A), ∀ e ∈ blocks hl hn h X, e.1 < h
  | 0, _ => by simp [blocks]
  | h+1, X => by
    intro e he
    unfold blocks at he
    split at he
    · have := blocks_lt h X e he; omega
    · split at he
      · simp at he; rw [he]; simp
      · rcases List.mem_append.mp he with he | he
        · have := blocks_lt h _ e he; omega
        · simp at he; rw [he]; simp

theorem blocks_ne_nil : ∀ (h : Nat) (X : List A), 0 < X.length → X.length < 2^h → blocks hl hn h X ≠ []
  | 0, X, h0, h1 => by rw [pow_zero] at h1; omega
  | h+1, X, h0, h1 => by
    unfold blocks
    split
    · exact blocks_ne_nil h X h0 (by assumption)
    · split <;> simp

theorem rootFold_append (c : D) (a b : List (Nat × D)) :
    rootFold hn c (a ++ b) = rootFold hn (rootFold hn c a) b := by
  simp [rootFold, List.foldl_append]

/-- P1 -/
theorem rootOf_blocks : ∀ (h : Nat) (X : List A) (st : List (Nat × D)), 0 < X.length → X.length < 2^h →
    rootOf hn (blocks hl hn h X ++ st) = some (rootFold hn (mth hl hn h X) st)
  | 0, X, st, h0, h1 => by rw [pow_zero] at h1; omega
  | h+1, X, st, h0, h1 => by
    have hpos := two_pow_pos h
    rw [pow_succ] at h1
    unfold blocks
    split
    · rename_i hlt
      rw [rootOf_blocks h X st h0 hlt, mth_succ_of_le hl hn h X (by omega)]
    · split
      · rename_i heq
        rw [mth_succ_of_le hl hn h X (by omega)]
        simp [rootOf]
      · rename_i hnl hne
        have l2 : (X.drop (2^h)).length = X.length - 2^h := by rw [List.length_drop]
        rw [List.append_assoc, rootOf_blocks h _ _ (by rw [l2]; omega) (by rw [l2]; omega),
          mth_succ_of_gt hl hn h X (by omega)]
        simp [rootFold]

theorem proveMerge_lt (k : Nat) : ∀ (a : List (Nat × D)) (c : D) (b : List (Nat × D)),
    (∀ e ∈ a, e.1 < k) → (∀ e ∈ b.head?, k ≤ e.1) →
    proveMerge hn k c (a ++ b) = (rootFold hn c a, b)
  | [], c, b, _, hb => by
    cases b with
    | nil => simp [proveMerge, rootFold]
    | cons nx rest =>
      have := hb nx (by simp)
      simp [proveMerge, rootFold]; omega
  | x :: a, c, b, ha, hb => by
    have hx := ha x (by simp)
    rw [List.cons_append, proveMerge, if_pos hx, proveMerge_lt k a _ b (fun e he => ha e (by simp [he])) hb]
    simp [rootFold]

theorem psibs_length_lt : ∀ (h : Nat) (X : List A) (q : Nat), q < X.length → X.length < 2^h →
    (psibs hl hn h X q).length < h
  | 0, X, q, h0, h1 => by rw [pow_zero] at h1; omega
  | h+1, X, q, h0, h1 => by
    have hpos := two_pow_pos h
    rw [pow_succ] at h1
    unfold psibs
    split
    · have := psibs_length_lt h X q h0 (by assumption); omega
    · split
      · rw [mpath_length_full hl hn h X q (by assumption)]; omega
      · have l1 : (X.take (2^h)).length = 2^h := by rw [List.length_take]; omega
        have l2 : (X.drop (2^h)).length = X.length - 2^h := by rw [List.length_drop]
        split
        · rw [mpath_length_full hl hn h _ q l1]; omega
        · have := psibs_length_lt h (X.drop (2^h)) (q - 2^h) (by rw [l2]; omega) (by rw [l2]; omega); omega

/-- P2: `Prove` completes the collected siblings to the RFC 6962 audit path -/
theorem finishL_blocks : ∀ (h : Nat) (X : List A) (q : Nat) (st : List (Nat × D)), q < X.length → X.length < 2^h →
    (∀ e ∈ st, h ≤ e.1) →
    finishL hn (blocks hl hn h X ++ st) (psibs hl hn h X q) = mpath hl hn h X q ++ st.map (·.2)
  | 0, X, q, st, h0, h1, _ => by rw [pow_zero] at h1; omega
  | h+1, X, q, st, h0, h1, hst => by
    have hpos := two_pow_pos h
    have hst' : ∀ e ∈ st, h ≤ e.1 := fun e he => by have := hst e he; omega
    rw [pow_succ] at h1
    unfold blocks psibs
    split
    · rename_i hlt
      rw [finishL_blocks h X q st h0 hlt hst', mpath_succ_of_le hl hn h X q (by omega)]
    · split
      · rename_i heq
        rw [mpath_succ_of_le hl hn h X q (by omega)]
        have hk := mpath_length_full hl hn h X q heq
        simp only [List.singleton_append, finishL, finish, hk]
        have := proveMerge_lt hn h [] (mth hl hn h X) st (by simp)
          (by intro e he; cases st with
              | nil => simp at he
              | cons a t => simp at he; subst he; have := hst a (by simp); omega)
        rw [List.nil_append] at this
        rw [this]
        cases st with
        | nil => simp
        | cons a t =>
          have := hst a (by simp)
          simp only [rootFold, List.foldl_nil]
          rw [if_neg (by omega)]
      · rename_i hnl hne
        have hgt : 2^h < X.length := by omega
        have l1 : (X.take (2^h)).length = 2^h := by rw [List.length_take]; omega
        have l2 : (X.drop (2^h)).length = X.length - 2^h := by rw [List.length_drop]
        split
        · rename_i hq
          rw [mpath_succ_left hl hn h X q hgt hq]
          have hk := mpath_length_full hl hn h (X.take (2^h)) q l1
          have hne' := blocks_ne_nil hl hn h (X.drop (2^h)) (by rw [l2]; omega) (by rw [l2]; omega)
          have hroot := rootOf_blocks hl hn h (X.drop (2^h)) [] (by rw [l2]; omega) (by rw [l2]; omega)
          have hlt := blocks_lt hl hn h (X.drop (2^h))
          match hb : blocks hl hn h (X.drop (2^h)), hne' with
          | hd :: tl, _ =>
            rw [hb] at hroot hlt
            simp only [List.append_nil, rootOf, rootFold, List.foldl_nil, Option.some.injEq] at hroot
            simp only [List.cons_append, List.append_assoc, finishL, finish, hk, List.nil_append]
            have := proveMerge_lt hn h tl hd.2 ((h, mth hl hn h (X.take (2^h))) :: st)
              (fun e he => hlt e (by simp [he])) (by simp)
            rw [this]
            simp only [if_true]
            rw [show rootFold hn hd.2 tl = mth hl hn h (X.drop (2^h)) from hroot]
        · rename_i hq
          rw [mpath_succ_right hl hn h X q hgt hq, List.append_assoc, List.singleton_append,
            finishL_blocks h _ _ _ (by rw [l2]; omega) (by rw [l2]; omega) (stack_cons_ge h _ st hst)]
          simp

/-! ### a tree filled by `Push` only -/

theorem root_eq_rootOf (t : Tree A D) : root hn t = rootOf hn t.stack := by
  unfold root rootOf; cases t.stack <;> rfl

/-- state after `SetIndex(p)` (or no `SetIndex`: `p = 0`, `pt = false`) and pushing the leaves `L` -/
theorem pushAll_init (L : List A) (p : Nat) (pt : Bool) :
    pushAll hl hn ⟨[], 0, p, none, [], pt⟩ L =
      ⟨blocks hl hn L.length L, L.length, p, if p < L.length then L[p]? else none,
        if p < L.length then psibs hl hn L.length L p else [], pt⟩ := by
  have hlt : L.length < 2^L.length := Nat.lt_two_pow_self
  by_cases hp : p < L.length
  · rw [pushAll_part_in hl hn L.length L [] 0 p pt hlt (by simp) (Nat.dvd_zero _) (Nat.zero_le _) (by omega)]
    simp [hp]
  · rw [pushAll_part_out hl hn L.length L [] 0 p none [] pt hlt (by simp) (Nat.dvd_zero _) (by omega) (by simp)]
    simp [hp]

theorem root_pushAll_init (L : List A) (hL : L ≠ []) (p : Nat) (pt : Bool) :
    root hn (pushAll hl hn ⟨[], 0, p, none, [], pt⟩ L) = some (MTH hl hn L) := by
  have hlt : L.length < 2^L.length := Nat.lt_two_pow_self
  have h0 : 0 < L.length := List.length_pos_iff.mpr hL
  rw [pushAll_init, root_eq_rootOf]
  have := rootOf_blocks hl hn L.length L [] h0 hlt
  simpa [rootFold, MTH] using this

theorem prove_pushAll_init (L : List A) (p : Nat) (hp : p < L.length) (pt : Bool) :
    prove hn (pushAll hl hn ⟨[], 0, p, none, [], pt⟩ L) =
      (some (MTH hl hn L), some L[p], PATH hl hn L p, p, L.length) := by
  have hlt : L.length < 2^L.length := Nat.lt_two_pow_self
  have hL : L ≠ [] := by intro h; subst h; simp at hp
  have hr := root_pushAll_init hl hn L hL p pt
  rw [pushAll_init] at hr ⊢
  have hfin := finishL_blocks hl hn L.length L p [] hp hlt (by simp)
  have hne := blocks_ne_nil hl hn L.length L (by omega) hlt
  rw [List.append_nil] at hfin
  unfold prove
  simp only [hp, if_true] at hr ⊢
  match hb : blocks hl hn L.length L, hne with
  | hd :: tl, _ =>
    rw [hb] at hfin hr
    rw [List.getElem?_eq_getElem hp]
    simp only [finishL] at hfin
    simp only [root_eq_rootOf] at hr ⊢
    simp only [hr, hfin, List.map_nil, List.append_nil, PATH]

theorem prove_pushAll_init_unreached (L : List A) (hL : L ≠ []) (p : Nat) (hp : ¬ p < L.length) (pt : Bool) :
    prove hn (pushAll hl hn ⟨[], 0, p, none, [], pt⟩ L) = (some (MTH hl hn L), none, [], p, L.length) := by
  have hr := root_pushAll_init hl hn L hL p pt
  rw [pushAll_init] at hr ⊢
  unfold prove
  simp only [hp, if_false] at hr ⊢
  split <;> simp_all

end Acc
end GV.Merkle
