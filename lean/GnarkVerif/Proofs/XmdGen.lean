import GnarkVerif.Proofs.HashToField
import GnarkVerif.Gen.Imp.ExpandMsgXmd
/-
Helper lemmas for C13_xmd_gen: `ExpandMsgXmd` of Gen/Imp/ExpandMsgXmd.lean (REGENERATED from /repo/field/hash/hashutils.go by
tools/goslp mode "imp") equals `expandMsgXmd` of Model/HashToField.lean.
-/
namespace GV.XmdGen
open GV.GoImp GV.HashToField GV.Gen.Imp.HashUtils

abbrev B := List UInt8

/-- writing one more block into the zero-initialised result buffer -/
theorem copyAt_block (len b : Nat) (U bi : B) (a e : Int) (hU : U.length ≤ len) (hbi : bi.length = b)
    (ha : a = (U.length : Int)) (he : e = min' (a + b) (len : Int)) :
    copyAt ((U ++ List.replicate len (0 : UInt8)).take len) a e bi =
      ((U ++ bi) ++ List.replicate len (0 : UInt8)).take len := by
  subst ha
  have hR : (U ++ List.replicate len (0 : UInt8)).take len = U ++ List.replicate (len - U.length) 0 := by
    rw [List.take_append, List.take_of_length_le hU, List.take_replicate]
    congr 2; omega
  by_cases hc : U.length + b ≤ len
  · have hn : min (e - (U.length : Int)).toNat bi.length = b := by
      subst he; unfold min'
      by_cases h : ((U.length : Int) + b < len)
      · simp only [h, decide_true, if_true]; omega
      · simp only [h, decide_false, if_false, Bool.false_eq_true]; omega
    simp only [copyAt, hn, Int.toNat_natCast, hR]
    rw [List.take_append, List.take_append, List.drop_append]
    simp only [List.take_replicate, List.drop_replicate, List.length_append, List.length_replicate]
    have z1 : min (U.length - U.length) (len - U.length) = 0 := by omega
    have z2 : len - U.length - (U.length + b - U.length) = len - (U.length + b) := by omega
    have z3 : min (len - (U.length + bi.length)) len = len - (U.length + b) := by omega
    rw [List.drop_of_length_le (by omega : U.length ≤ U.length + b),
      List.take_of_length_le (by simp; omega : (U ++ bi).length ≤ len), z1, z2, z3]
    simp [hbi]
  · have hn : min (e - (U.length : Int)).toNat bi.length = len - U.length := by
      subst he; unfold min'
      by_cases h : ((U.length : Int) + b < len)
      · omega
      · simp only [h, decide_false, if_false, Bool.false_eq_true]; omega
    simp only [copyAt, hn, Int.toNat_natCast, hR]
    rw [List.take_append, List.take_append, List.drop_append]
    simp only [List.take_replicate, List.drop_replicate, List.length_append, List.length_replicate]
    have z1 : min (U.length - U.length) (len - U.length) = 0 := by omega
    have z2 : len - U.length - (U.length + (len - U.length) - U.length) = 0 := by omega
    have z3 : min (len - (U.length + bi.length)) len = 0 := by omega
    rw [List.drop_of_length_le (by omega : U.length ≤ U.length + (len - U.length)), z1, z2, z3,
      List.take_append, List.take_of_length_le hU]
    simp

theorem index_nat (l : B) (j : Nat) (hj : j < l.length) : index l (j : Int) = l[j] := by
  simp only [index, Int.toNat_natCast, List.getD_eq_getElem?_getD, List.getElem?_eq_getElem hj, Option.getD_some]

/-- the inner loop computes strxor(b0, b1) -/
theorem loop2_eq (b : Nat) (hh : Hash) (b0 b1 : B) (h0 : b0.length = b) (h1 : b1.length = b) :
    ∀ (f j : Nat) (st : B), st.length = b → f = b - j → j ≤ b →
      (ExpandMsgXmd.loop2 (b : Int) hh b0 b1 f st (j : Int)).1 = st.take j ++ strxor (b0.drop j) (b1.drop j) := by
  intro f
  induction f with
  | zero =>
    intro j st hst hf hj
    have : j = b := by omega
    subst this
    simp [ExpandMsgXmd.loop2, strxor, ← hst]
    omega
  | succ f ih =>
    intro j st hst hf hj
    have hjb : j < b := by omega
    have hc : ((j : Int) < (b : Int)) := by omega
    have e0 : b0.drop j = b0[j] :: b0.drop (j+1) := List.drop_eq_getElem_cons (by omega)
    have e1 : b1.drop j = b1[j] :: b1.drop (j+1) := List.drop_eq_getElem_cons (by omega)
    have ecast : (j : Int) + 1 = ((j + 1 : Nat) : Int) := by omega
    simp only [ExpandMsgXmd.loop2, hc, decide_true, if_true, index_nat b0 j (by omega), index_nat b1 j (by omega), setAt,
      Int.toNat_natCast, ecast]
    rw [ih (j+1) _ (by simp [hst]) (by omega) (by omega), e0, e1]
    simp only [strxor, List.zipWith_cons_cons]
    rw [List.take_succ]
    simp [List.take_set_of_le, hst, hjb]

theorem write_ok (W : B → Option B) (hW : ∀ p, W p = some p) (h : Hash) (p : B) :
    Hash.Write W h p = ({ written := h.written ++ [p] }, (len p, GoImp.Err.nil)) := by
  simp [Hash.Write, hW]

theorem byteOfInt_nat (n : Nat) (hn : n ≤ 255) : byteOfInt (n : Int) = UInt8.ofNat n := by
  unfold byteOfInt
  have : ((n : Int) % 256).toNat = n := by omega
  rw [this]

section
variable (W : B → Option B) (hW : ∀ p, W p = some p) (H : B → B) (b len : Nat) (hH : ∀ m, (H m).length = b)
  (dst : B) (ell : Nat) (sd : UInt8) (b0 : B) (hb0 : b0.length = b) (hell : ell ≤ 255) (hlen : (ell - 1) * b < len)
include hW hH hb0 hell hlen

/-- the main loop appends the blocks b_i of the model's `blockLoop` to the (zero-padded, truncated) result buffer -/
theorem loop1_eq : ∀ (f k : Nat) (hh : Hash) (prev U : B), prev.length = b → U.length = b * k → 1 ≤ k → f = ell - k →
    ∃ h' p' i', ExpandMsgXmd.loop1 W H (b : Int) dst (ell : Int) sd b0 f hh prev
        ((U ++ List.replicate len (0 : UInt8)).take len) ((k + 1 : Nat) : Int) =
      ((h', p', ((U ++ blockLoop H b0 (dst ++ [sd]) f (k + 1) prev) ++ List.replicate len (0 : UInt8)).take len, i'), none) := by
  intro f
  induction f with
  | zero => intro k hh prev U _ _ _ _; exact ⟨hh, prev, ((k + 1 : Nat) : Int), by simp [ExpandMsgXmd.loop1, blockLoop]⟩
  | succ f ih =>
    intro k hh prev U hprev hU hk hf
    have hc : (((k + 1 : Nat) : Int) ≤ (ell : Int)) := by omega
    have hx := loop2_eq b (Hash.Reset hh) b0 prev hb0 hprev b 0 (makeBytes (b : Int)) (by simp [makeBytes]) (by omega) (by omega)
    have hfuel : ((b : Int) - 0).toNat = b := by omega
    have hi : byteOfInt ((k + 1 : Nat) : Int) = UInt8.ofNat (k + 1) := byteOfInt_nat (k + 1) (by omega)
    simp only [List.take_zero, List.nil_append, List.drop_zero] at hx
    have hkU : U.length ≤ len := by
      rw [hU]
      have : b * k ≤ (ell - 1) * b := by rw [Nat.mul_comm]; exact Nat.mul_le_mul_right b (by omega)
      omega
    have hlenres : GoImp.len ((U ++ List.replicate len (0 : UInt8)).take len) = (len : Int) := by
      simp [GoImp.len]
    have ha : (b : Int) * (((k + 1 : Nat) : Int) - 1) = (U.length : Int) := by
      rw [hU]; push_cast; ring
    have he : min' ((b : Int) * ((k + 1 : Nat) : Int)) (len : Int) = min' ((b : Int) * (((k + 1 : Nat) : Int) - 1) + b) (len : Int) := by
      congr 1; push_cast; ring
    simp only [ExpandMsgXmd.loop1, hc, decide_true, if_true, write_ok W hW, bne_self_eq_false, Bool.false_eq_true, if_false,
      Hash.Reset, Hash.Sum, List.nil_append, hfuel]
    have hx' : (ExpandMsgXmd.loop2 (b : Int) { written := [] } b0 prev b (makeBytes (b : Int)) 0).1 = strxor b0 prev := hx
    rw [hx', hi, hlenres, he]
    rw [copyAt_block len b U _ _ _ hkU (hH _) ha rfl]
    have ecast : ((k + 1 : Nat) : Int) + 1 = ((k + 1 + 1 : Nat) : Int) := by omega
    rw [ecast]
    obtain ⟨h', p', i', e⟩ := ih (k + 1) _ (H _) (U ++ H _) (hH _) (by simp [hU, hH]; ring) (by omega) (by omega)
    refine ⟨h', p', i', ?_⟩
    rw [e]
    simp [blockLoop, nextBlock, List.append_assoc]
end

/-- how a Go result `(bytes, error)` of the translated function reads as the model's `Except` -/
def outOf : Except HashToField.Err B → B × GoImp.Err
  | .ok out => (out, GoImp.Err.nil)
  | .error .len => ([], GoImp.Err.sentinel "invalid lenInBytes")
  | .error .dst => ([], GoImp.Err.sentinel "invalid domain size (>255 bytes)")

theorem libStr_eq (n : Nat) : [byteOfInt (Int.shiftRight (n : Int) 8), byteOfInt (n : Int)] = natToBE 2 n := by
  have h1 : Int.shiftRight (n : Int) 8 = ((n / 256 : Nat) : Int) := by
    show Int.ofNat (n >>> 8) = _
    rw [Nat.shiftRight_eq_div_pow]; rfl
  have h2 : ∀ m : Nat, byteOfInt (m : Int) = UInt8.ofNat (m % 256) := by
    intro m; unfold byteOfInt
    have : ((m : Int) % 256).toNat = m % 256 := by omega
    rw [this]
  rw [h1, h2, h2]
  simp [natToBE, List.range_succ]

theorem xmd_eq (W : B → Option B) (hW : ∀ p, W p = some p) (H : B → B) (b s : Nat) (hb : 0 < b) (hH : ∀ m, (H m).length = b)
    (hb255 : 255 * b ≤ 65535) (msg dst : B) (len : Nat) :
    ExpandMsgXmd W H (b : Int) (s : Int) msg dst (len : Int) = outOf (expandMsgXmd H b s msg dst len) := by
  have hell : Int.tdiv ((len : Int) + (b : Int) - 1) (b : Int) = ((ellOf b len : Nat) : Int) := by
    have : (len : Int) + (b : Int) - 1 = ((len + b - 1 : Nat) : Int) := by omega
    rw [this]; exact (Int.ofNat_tdiv _ _).symm
  simp only [ExpandMsgXmd, expandMsgXmd, hell]
  by_cases h1 : ellOf b len > 255
  · have h1' : (((ellOf b len : Nat) : Int) > 255) := by omega
    simp [h1, h1', outOf]
  · have h1' : ¬ (((ellOf b len : Nat) : Int) > 255) := by omega
    have hlen65 : ¬ len > 65535 := by
      intro hc
      apply h1
      unfold ellOf
      have : 256 * b ≤ len + b - 1 := by omega
      have := Nat.div_le_div_right (c := b) this
      rw [Nat.mul_div_cancel _ hb] at this
      omega
    by_cases h2 : dst.length > 255
    · have h2' : (GoImp.len dst > 255) := by show ((dst.length : Nat) : Int) > 255; omega
      simp [h1, h1', hlen65, h2, h2', outOf]
    · have h2' : ¬ (GoImp.len dst > 255) := by show ¬ (((dst.length : Nat) : Int) > 255); omega
      have hsd : byteOfInt (GoImp.len dst) = UInt8.ofNat dst.length := byteOfInt_nat dst.length (by omega)
      have hmk : ∀ n : Nat, makeBytes (n : Int) = List.replicate n (0 : UInt8) := by intro n; simp [makeBytes]
      have hb0' : byteOfInt 0 = (0 : UInt8) := rfl
      have hb1' : byteOfInt 1 = (1 : UInt8) := rfl
      have hlib := libStr_eq len
      simp only [h1', h2', h1, hlen65, h2, decide_false, if_false, Bool.false_eq_true, or_self, write_ok W hW, bne_self_eq_false,
        Hash.Reset, Hash.Sum, List.nil_append, hsd, outOf, hmk, hb0', hb1', List.flatten_cons, List.flatten_nil, List.append_nil]
      have hB0 : ([List.replicate s (0 : UInt8)] ++ [msg] ++ [[byteOfInt ((len : Int).shiftRight 8), byteOfInt (len : Int), 0]] ++ [dst] ++
            [[UInt8.ofNat dst.length]]).flatten =
          List.replicate s 0 ++ msg ++ natToBE 2 len ++ [0] ++ (dst ++ [UInt8.ofNat dst.length]) := by
        rw [← hlib]; simp
      rw [hB0]
      have hb0 := hH (List.replicate s 0 ++ msg ++ natToBE 2 len ++ [0] ++ (dst ++ [UInt8.ofNat dst.length]))
      generalize H (List.replicate s 0 ++ msg ++ natToBE 2 len ++ [0] ++ (dst ++ [UInt8.ofNat dst.length])) = b0 at hb0 ⊢
      have hB1 : ([b0] ++ [[(1 : UInt8)]] ++ [dst] ++ [[UInt8.ofNat dst.length]]).flatten =
          b0 ++ [1] ++ (dst ++ [UInt8.ofNat dst.length]) := by simp
      rw [hB1]
      have hb1 := hH (b0 ++ [1] ++ (dst ++ [UInt8.ofNat dst.length]))
      generalize H (b0 ++ [1] ++ (dst ++ [UInt8.ofNat dst.length])) = b1 at hb1 ⊢
      have hlr : GoImp.len (List.replicate len (0 : UInt8)) = (len : Int) := by simp [GoImp.len]
      rw [hlr]
      have hres0 : copyAt (List.replicate len (0 : UInt8)) 0 (min' (b : Int) (len : Int)) b1 =
          (b1 ++ List.replicate len (0 : UInt8)).take len := by
        have := copyAt_block len b [] b1 0 (min' (b : Int) (len : Int)) (by simp) hb1 (by simp) (by simp)
        simpa using this
      rw [hres0]
      have hfu : (((ellOf b len : Nat) : Int) + 1 - 2).toNat = ellOf b len - 1 := by omega
      rw [hfu]
      have hdm := Nat.div_add_mod (len + b - 1) b
      have hml := Nat.mod_lt (len + b - 1) hb
      by_cases hl0 : len = 0
      · subst hl0
        have : ellOf b 0 = 0 := by unfold ellOf; exact Nat.div_eq_of_lt (by omega)
        simp [this, ExpandMsgXmd.loop1]
      · have hmul : b * ellOf b len = b * ((len + b - 1) / b) := rfl
        have hell1 : 1 ≤ ellOf b len := by
          unfold ellOf; exact Nat.div_pos (by omega) hb
        have hlt : (ellOf b len - 1) * b < len := by
          rw [Nat.sub_mul, Nat.one_mul, Nat.mul_comm]; omega
        obtain ⟨h', p', i', e⟩ := loop1_eq W hW H b len hH dst (ellOf b len) (UInt8.ofNat dst.length) b0 hb0 (by omega) hlt
          (ellOf b len - 1) 1 { written := [b0] ++ [[1]] ++ [dst] ++ [[UInt8.ofNat dst.length]] } b1 b1 hb1 (by simp [hb1]) (Nat.le_refl 1) rfl
        rw [show (2 : Int) = ((1 + 1 : Nat) : Int) from rfl, e]
        simp only
        congr 1
        rw [List.take_append_of_le_length]
        rw [List.length_append, blockLoop_length H b hH, hb1]
        have : b + (ellOf b len - 1) * b = b * ellOf b len := by
          rw [Nat.sub_mul, Nat.one_mul, Nat.mul_comm]
          have : b ≤ b * ellOf b len := Nat.le_mul_of_pos_right b hell1
          omega
        omega

end GV.XmdGen
