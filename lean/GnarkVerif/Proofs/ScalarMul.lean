import GnarkVerif.Model.ScalarMul
import Mathlib.Algebra.Group.Basic
import Mathlib.Algebra.Module.Basic
import Mathlib.Data.Int.ModEq
import Mathlib.Tactic.Abel
import Mathlib.Tactic.Ring
import Mathlib.Tactic.Linarith
import Mathlib.Tactic.LinearCombination
import Mathlib.Tactic.IntervalCases
import Mathlib.Tactic.NormNum
/-
Helper lemmas for C03: the window/limb/digit loops of `Model/ScalarMul.lean` evaluated in an `AddCommGroup`.
-/
namespace GV.ScalarMul

/-- the dictionary of a Mathlib additive commutative group -/
def GOps.ofGroup (G : Type) [AddCommGroup G] : GOps G := { add := (· + ·), neg := Neg.neg, zero := 0 }

variable {G : Type} [AddCommGroup G]

@[simp] theorem ofGroup_add (a b : G) : (GOps.ofGroup G).add a b = a + b := rfl
@[simp] theorem ofGroup_neg (a : G) : (GOps.ofGroup G).neg a = -a := rfl
@[simp] theorem ofGroup_zero : (GOps.ofGroup G).zero = 0 := rfl
@[simp] theorem ofGroup_dbl (a : G) : (GOps.ofGroup G).dbl a = a + a := rfl

/-! ### arithmetic of digits -/

theorem digit_step (B x m : ℕ) : x % B ^ (m + 1) = B * (x / B % B ^ m) + x % B := by
  rw [pow_succ', Nat.mod_mul]; omega

theorem lt_two_pow_bitLen (k : ℕ) : k < 2 ^ bitLen k := by
  unfold bitLen
  split
  · subst_vars; simp
  · exact Nat.lt_log2_self

theorem bitLen_le_hi_left (b1 b2 : ℕ) : b1 ≤ 64 * (hiWordIndex b1 b2 + 1) := by
  unfold hiWordIndex; dsimp only; split <;> omega

theorem bitLen_le_hi_right (b1 b2 : ℕ) : b2 ≤ 64 * (hiWordIndex b1 b2 + 1) := by
  unfold hiWordIndex; dsimp only; split <;> omega

/-- `(w & (3 << k)) >> k` is the base-4 digit at bit position `k` -/
theorem win_eq (w k : ℕ) : (w &&& (3 <<< k)) >>> k = (w / 2 ^ k) % 4 := by
  rw [Nat.shiftRight_and_distrib, Nat.shiftLeft_shiftRight, Nat.shiftRight_eq_div_pow]
  simpa using Nat.and_two_pow_sub_one_eq_mod (w / 2 ^ k) 2

theorem two_pow_two_mul (n : ℕ) : 2 ^ (2 * n) = 4 ^ n := by
  rw [pow_mul]; norm_num

/-! ### group-level facts -/

theorem natAbs_smul_signPt (s : ℤ) (q : G) : s.natAbs • signPt (GOps.ofGroup G) s q = s • q := by
  unfold signPt
  split
  · have h : s = -(s.natAbs : ℤ) := by omega
    conv_rhs => rw [h]
    rw [ofGroup_neg, smul_neg, neg_smul, natCast_zsmul]
  · have h : s = (s.natAbs : ℤ) := by omega
    conv_rhs => rw [h]
    rw [natCast_zsmul]

theorem nsmul_signPt_zero (r : ℕ) (s : ℤ) (q : G) (h : r • q = 0) : r • signPt (GOps.ofGroup G) s q = 0 := by
  unfold signPt
  split
  · simp [smul_neg, h]
  · exact h

theorem mod_nsmul (r k : ℕ) (X : G) (h : r • X = 0) : (k % r) • X = k • X := by
  conv_rhs => rw [← Nat.mod_add_div k r]
  rw [add_smul, mul_comm, mul_smul, h, smul_zero, add_zero]

theorem zsmul_congr_modEq (r : ℕ) (a b : ℤ) (q : G) (hr : r • q = 0) (hab : a ≡ b [ZMOD (r : ℤ)]) :
    a • q = b • q := by
  obtain ⟨c, hc⟩ := (Int.modEq_iff_dvd.1 hab)
  have hb : b = a + c * (r : ℤ) := by linarith
  rw [hb, add_smul, mul_smul, natCast_zsmul, hr, smul_zero, add_zero]

/-! ### the generic window loop: `nw` windows of base `B`, most significant first, two scalars -/

theorem window_loop (B nw w1 w2 : ℕ) (T0 T3 : G) (f : G → ℕ → G)
    (hf : ∀ j, j < nw → ∀ res, f res j =
      B • res + ((w1 / B ^ (nw - 1 - j)) % B) • T0 + ((w2 / B ^ (nw - 1 - j)) % B) • T3) :
    ∀ m, m ≤ nw → ∀ res, (List.range m).foldl f res =
      B ^ m • res + (w1 / B ^ (nw - m) % B ^ m) • T0 + (w2 / B ^ (nw - m) % B ^ m) • T3 := by
  intro m
  induction m with
  | zero => intro _ res; simp [Nat.mod_one]
  | succ m ih =>
    intro hm res
    rw [List.range_succ, List.foldl_append, List.foldl_cons, List.foldl_nil, ih (by omega), hf m (by omega)]
    have e1 : nw - (m + 1) = nw - 1 - m := by omega
    have e2 : B ^ (nw - m) = B ^ (nw - 1 - m) * B := by
      rw [← pow_succ]; congr 1; omega
    rw [e1, e2, ← Nat.div_div_eq_div_mul, ← Nat.div_div_eq_div_mul,
      digit_step B (w1 / B ^ (nw - 1 - m)) m, digit_step B (w2 / B ^ (nw - 1 - m)) m]
    simp only [smul_add, add_smul, mul_smul, pow_succ']
    abel

/-- limbs `n−1 … 0` of two scalars in base `W` -/
theorem limb_loop (W k1 k2 : ℕ) (T0 T3 : G) (g : G → ℕ → G)
    (hg : ∀ i res, g res i = W • res + (k1 / W ^ i % W) • T0 + (k2 / W ^ i % W) • T3) :
    ∀ n res, (List.range n).reverse.foldl g res =
      W ^ n • res + (k1 % W ^ n) • T0 + (k2 % W ^ n) • T3 := by
  intro n
  induction n with
  | zero => intro res; simp [Nat.mod_one]
  | succ n ih =>
    intro res
    rw [List.range_succ, List.reverse_append, List.reverse_singleton, List.singleton_append, List.foldl_cons,
      ih, hg]
    have e (k : ℕ) : k % W ^ (n + 1) = k % W ^ n + W ^ n * (k / W ^ n % W) := by
      rw [pow_succ, Nat.mod_mul]
    rw [e k1, e k2]
    simp only [smul_add, add_smul, mul_smul, pow_succ]
    abel

/-- a whole big-endian digit string, one scalar -/
theorem digits_loop (W : ℕ) (hW : 2 ≤ W) (T : G) (g : G → ℕ → G)
    (hg : ∀ w, w < W → ∀ res, g res w = W • res + w • T) :
    ∀ n, (digitsBE W n).foldl g 0 = n • T := by
  intro n
  induction n using Nat.strong_induction_on with
  | _ n ih =>
    rw [digitsBE]
    split
    · rename_i h
      have : n = 0 := by omega
      subst this; simp
    · rename_i h
      have hn : n ≠ 0 := fun e => h (Or.inl e)
      rw [List.foldl_append, List.foldl_cons, List.foldl_nil,
        ih (n / W) (Nat.div_lt_self (Nat.pos_of_ne_zero hn) hW), hg _ (Nat.mod_lt _ (by omega))]
      rw [← mul_smul, ← add_smul, Nat.div_add_mod]

/-! ### `mulWindowed` -/

theorem byte_mask (j : ℕ) (hj : j < 4) : 0xc0 >>> (2 * j) = 3 <<< (6 - 2 * j) := by
  interval_cases j <;> decide

theorem mulWindowedStep_eq (op0 : G) (w j : ℕ) (hj : j < 4) (res : G) :
    mulWindowedStep (GOps.ofGroup G) op0 ((GOps.ofGroup G).dbl op0)
      ((GOps.ofGroup G).add op0 ((GOps.ofGroup G).dbl op0)) w res j =
      4 • res + ((w / 4 ^ (4 - 1 - j)) % 4) • op0 + ((0 / 4 ^ (4 - 1 - j)) % 4) • (0 : G) := by
  unfold mulWindowedStep
  simp only [byte_mask j hj, win_eq]
  have e : 6 - 2 * j = 2 * (4 - 1 - j) := by omega
  rw [e, two_pow_two_mul]
  have hc : (w / 4 ^ (4 - 1 - j)) % 4 < 4 := Nat.mod_lt _ (by norm_num)
  generalize (w / 4 ^ (4 - 1 - j)) % 4 = c at hc
  interval_cases c <;> simp [sel3] <;> abel

theorem mulWindowedByte_eq (op0 : G) (w : ℕ) (hw : w < 256) (res : G) :
    mulWindowedByte (GOps.ofGroup G) op0 ((GOps.ofGroup G).dbl op0)
      ((GOps.ofGroup G).add op0 ((GOps.ofGroup G).dbl op0)) res w = 256 • res + w • op0 := by
  unfold mulWindowedByte
  rw [window_loop 4 4 w 0 op0 0 _ (fun j hj res => mulWindowedStep_eq op0 w j hj res) 4 le_rfl res]
  have h4 : w < 4 ^ 4 := by
    have : (4 : ℕ) ^ 4 = 256 := by norm_num
    omega
  rw [Nat.sub_self, pow_zero, Nat.div_one, Nat.mod_eq_of_lt h4]
  simp

/-! ### Straus–Shamir table and loops -/

theorem table15_get (t0 t3 : G) (b1 b2 : ℕ) (h1 : b1 < 4) (h2 : b2 < 4) (h : ¬ (b1 ||| b2 = 0)) :
    (table15 (GOps.ofGroup G) t0 t3).getD ((b2 <<< 2 ||| b1) - 1) (GOps.ofGroup G).zero = b1 • t0 + b2 • t3 := by
  interval_cases b1 <;> interval_cases b2 <;> first
    | (exfalso; exact h (by decide))
    | (simp [table15]; try abel)

theorem word_mask (j : ℕ) (hj : j < 32) : (3 <<< 62) >>> (2 * j) = 3 <<< (62 - 2 * j) := by
  interval_cases j <;> decide

theorem shamirStep_eq (t0 t3 : G) (w1 w2 j : ℕ) (hj : j < 32) (res : G) :
    shamirStep (GOps.ofGroup G) (table15 (GOps.ofGroup G) t0 t3) w1 w2 res j =
      4 • res + ((w1 / 4 ^ (32 - 1 - j)) % 4) • t0 + ((w2 / 4 ^ (32 - 1 - j)) % 4) • t3 := by
  unfold shamirStep
  simp only [word_mask j hj, win_eq]
  have e : 62 - 2 * j = 2 * (32 - 1 - j) := by omega
  rw [e, two_pow_two_mul]
  have h1 : (w1 / 4 ^ (32 - 1 - j)) % 4 < 4 := Nat.mod_lt _ (by norm_num)
  have h2 : (w2 / 4 ^ (32 - 1 - j)) % 4 < 4 := Nat.mod_lt _ (by norm_num)
  generalize (w1 / 4 ^ (32 - 1 - j)) % 4 = b1 at h1
  generalize (w2 / 4 ^ (32 - 1 - j)) % 4 = b2 at h2
  split
  · rename_i h0
    have hb : b1 = 0 ∧ b2 = 0 := by
      interval_cases b1 <;> interval_cases b2 <;> simp_all
    obtain ⟨rfl, rfl⟩ := hb
    simp; abel
  · rename_i h0
    rw [table15_get t0 t3 b1 b2 h1 h2 h0]
    simp; abel

theorem shamirWord_eq (t0 t3 : G) (w1 w2 : ℕ) (res : G) :
    shamirWord (GOps.ofGroup G) (table15 (GOps.ofGroup G) t0 t3) w1 w2 res =
      4 ^ 32 • res + (w1 % 4 ^ 32) • t0 + (w2 % 4 ^ 32) • t3 := by
  unfold shamirWord
  rw [window_loop 4 32 w1 w2 t0 t3 _ (fun j hj res => shamirStep_eq t0 t3 w1 w2 j hj res) 32 le_rfl res]
  simp

theorem shamirLimb_eq (t0 t3 : G) (k1 k2 i : ℕ) (res : G) :
    shamirLimb (GOps.ofGroup G) (table15 (GOps.ofGroup G) t0 t3) k1 k2 res i =
      2 ^ 64 • res + (k1 / (2 ^ 64) ^ i % 2 ^ 64) • t0 + (k2 / (2 ^ 64) ^ i % 2 ^ 64) • t3 := by
  unfold shamirLimb
  rw [shamirWord_eq]
  have e : (4 : ℕ) ^ 32 = 2 ^ 64 := by norm_num
  simp only [limb, e, Nat.mod_mod, pow_mul]

theorem shamirLoop_eq (t0 t3 : G) (k1 k2 hi : ℕ)
    (h1 : k1 < 2 ^ (64 * (hi + 1))) (h2 : k2 < 2 ^ (64 * (hi + 1))) :
    shamirLoop (GOps.ofGroup G) (table15 (GOps.ofGroup G) t0 t3) k1 k2 hi = k1 • t0 + k2 • t3 := by
  unfold shamirLoop
  rw [limb_loop (2 ^ 64) k1 k2 t0 t3 _ (fun i res => shamirLimb_eq t0 t3 k1 k2 i res)]
  rw [← pow_mul, Nat.mod_eq_of_lt h1, Nat.mod_eq_of_lt h2]
  simp

/-- loop bound: a scalar fits below the limb `hiWordIndex` computed from (at least) its own bit length -/
theorem lt_pow_of_bitLen_le (k b : ℕ) (h : bitLen k ≤ b) : k < 2 ^ b :=
  lt_of_lt_of_le (lt_two_pow_bitLen k) (Nat.pow_le_pow_right (by norm_num) h)

theorem two_pow_le_iff_bitLen (k n : ℕ) : 2 ^ n ≤ k ↔ n + 1 ≤ bitLen k := by
  constructor
  · intro h
    by_contra hc
    have h1 : bitLen k ≤ n := by omega
    have := lt_pow_of_bitLen_le k n h1
    omega
  · intro h
    unfold bitLen at h
    split at h
    · omega
    · rename_i hk
      calc 2 ^ n ≤ 2 ^ k.log2 := Nat.pow_le_pow_right (by norm_num) (by omega)
        _ ≤ k := Nat.log2_self_le hk

/-! ### twisted Edwards double-and-add -/

theorem teStep_eq (p : G) (w k : ℕ) (hk : k < 64) (res : G) :
    teStep (GOps.ofGroup G) p w res k =
      2 • res + ((w / 2 ^ (64 - 1 - k)) % 2) • p + ((0 / 2 ^ (64 - 1 - k)) % 2) • (0 : G) := by
  unfold teStep
  have e : 63 - k = 64 - 1 - k := by omega
  simp only [Nat.shiftRight_eq_div_pow, Nat.and_one_is_mod, e]
  have hc : (w / 2 ^ (64 - 1 - k)) % 2 < 2 := Nat.mod_lt _ (by norm_num)
  generalize (w / 2 ^ (64 - 1 - k)) % 2 = c at hc
  interval_cases c <;> simp <;> abel

theorem teWord_eq (p : G) (w : ℕ) (hw : w < 2 ^ 64) (res : G) :
    teWord (GOps.ofGroup G) p res w = 2 ^ 64 • res + w • p := by
  unfold teWord
  rw [window_loop 2 64 w 0 p 0 _ (fun k hk res => teStep_eq p w k hk res) 64 le_rfl res]
  rw [Nat.sub_self, pow_zero, Nat.div_one, Nat.mod_eq_of_lt hw]
  simp

/-! ### lattice -/

/-- row invariant of the extended Euclidean algorithm: `a = s·r + t·λ` -/
def RowInv (r lam : ℤ) (x : ℤ × ℤ × ℤ) : Prop := x.1 = x.2.1 * r + x.2.2 * lam

theorem euclidLoop_inv (r lam sq : ℤ) : ∀ (fuel : ℕ) (x y : ℤ × ℤ × ℤ), RowInv r lam x → RowInv r lam y →
    RowInv r lam (euclidLoop sq fuel x y).1 ∧ RowInv r lam (euclidLoop sq fuel x y).2 := by
  intro fuel
  induction fuel with
  | zero => intro x y hx hy; exact ⟨hx, hy⟩
  | succ f ih =>
    intro x y hx hy
    obtain ⟨a0, s0, t0⟩ := x
    obtain ⟨a1, s1, t1⟩ := y
    unfold euclidLoop
    split
    · apply ih _ _ hy
      simp only [RowInv] at hx hy ⊢
      rw [Int.emod_def]
      linear_combination hx - (a0 / a1) * hy
    · exact ⟨hx, hy⟩

theorem latticeOfRows_qualifies (r lam : ℤ) (x y : ℤ × ℤ × ℤ) (hx : RowInv r lam x) (hy : RowInv r lam y) :
    (latticeOfRows x y).v11 + lam * (latticeOfRows x y).v12 ≡ 0 [ZMOD r] ∧
    (latticeOfRows x y).v21 + lam * (latticeOfRows x y).v22 ≡ 0 [ZMOD r] := by
  obtain ⟨a0, s0, t0⟩ := x
  obtain ⟨a1, s1, t1⟩ := y
  simp only [RowInv] at hx hy
  dsimp only [latticeOfRows]
  constructor
  · rw [Int.modEq_zero_iff_dvd]
    exact ⟨s1, by linear_combination hy⟩
  · split_ifs
    · rw [Int.modEq_zero_iff_dvd]
      refine ⟨s0 - s1 * (a0 / a1), ?_⟩
      rw [Int.emod_def]
      linear_combination hx - (a0 / a1) * hy
    · rw [Int.modEq_zero_iff_dvd]
      exact ⟨s0, by linear_combination hx⟩

/-! ### signed-digit recoding -/

/-- value of a little-endian signed digit string in base `2^c`, first digit at position `j` -/
def evalDigits (c : ℕ) : ℕ → List ℤ → ℤ
  | _, [] => 0
  | j, d :: ds => d * 2 ^ (c * j) + evalDigits c (j + 1) ds

theorem evalDigits_replicate_zero (c n j : ℕ) : evalDigits c j (List.replicate n 0) = 0 := by
  induction n generalizing j with
  | zero => rfl
  | succ n ih => simp [List.replicate_succ, evalDigits, ih]

theorem recodeFrom_sum (c s N : ℕ) (sel : ℕ → ℕ) (hsel : ∀ j, j < N → sel j = (s / 2 ^ (c * j)) % 2 ^ c) :
    ∀ todo chunk carry, chunk + todo < N → evalDigits c chunk (recodeFrom c sel todo chunk carry) =
      ((carry : ℤ) + ((s / 2 ^ (c * chunk) % 2 ^ (c * (todo + 1)) : ℕ) : ℤ)) * 2 ^ (c * chunk) := by
  intro todo
  induction todo with
  | zero =>
    intro chunk carry hN
    simp only [recodeFrom, evalDigits, hsel chunk (by omega), Int.ofNat_eq_natCast]
    push_cast
    ring_nf
  | succ n ih =>
    intro chunk carry hN
    have key : s / 2 ^ (c * chunk) % 2 ^ (c * (n + 1 + 1)) =
        s / 2 ^ (c * chunk) % 2 ^ c + 2 ^ c * (s / 2 ^ (c * (chunk + 1)) % 2 ^ (c * (n + 1))) := by
      have e1 : 2 ^ (c * (n + 1 + 1)) = 2 ^ c * 2 ^ (c * (n + 1)) := by rw [← pow_add]; congr 1; ring
      have e2 : 2 ^ (c * (chunk + 1)) = 2 ^ (c * chunk) * 2 ^ c := by rw [← pow_add]; congr 1
      rw [e1, Nat.mod_mul, e2, Nat.div_div_eq_div_mul]
    unfold recodeFrom
    dsimp only
    split
    · simp only [evalDigits, ih (chunk + 1) 1 (by omega), hsel chunk (by omega), key, Int.ofNat_eq_natCast]
      push_cast
      ring
    · simp only [evalDigits, ih (chunk + 1) 0 (by omega), hsel chunk (by omega), key, Int.ofNat_eq_natCast]
      push_cast
      ring

/-- digit ranges: every digit but the last lies in `[−2^(c−1), 2^(c−1))`, the last one in `[0, 2^c]` -/
theorem recodeFrom_bounds (c : ℕ) (hc : 1 ≤ c) (N : ℕ) (sel : ℕ → ℕ) (hsel : ∀ j, j < N → sel j < 2 ^ c) :
    ∀ todo chunk carry, carry ≤ 1 → chunk + todo < N →
      (recodeFrom c sel todo chunk carry).length = todo + 1 ∧
      (∀ i, i < todo → -(2 ^ (c - 1) : ℤ) ≤ (recodeFrom c sel todo chunk carry).getD i 0 ∧
        (recodeFrom c sel todo chunk carry).getD i 0 < 2 ^ (c - 1)) ∧
      (0 ≤ (recodeFrom c sel todo chunk carry).getD todo 0 ∧
        (recodeFrom c sel todo chunk carry).getD todo 0 ≤ (sel (chunk + todo) : ℤ) + 1) := by
  intro todo
  induction todo with
  | zero =>
    intro chunk carry hcar hN
    have h := hsel chunk (by omega)
    refine ⟨by simp [recodeFrom], fun i hi => by omega, ?_⟩
    simp only [recodeFrom, List.getD_cons_zero, Int.ofNat_eq_natCast]
    constructor
    · positivity
    · push_cast
      have : (carry : ℤ) ≤ 1 := by exact_mod_cast hcar
      simp only [Nat.add_zero]
      linarith
  | succ n ih =>
    intro chunk carry hcar hN
    have h := hsel chunk (by omega)
    have h2 : (2 : ℕ) ^ c = 2 * 2 ^ (c - 1) := by
      rw [← pow_succ']; congr 1; omega
    have h2z : (2 : ℤ) ^ c = 2 * 2 ^ (c - 1) := by exact_mod_cast h2
    have hp : (0 : ℕ) < 2 ^ (c - 1) := by positivity
    unfold recodeFrom
    dsimp only
    split
    · rename_i hd
      obtain ⟨hl, hb, hlast⟩ := ih (chunk + 1) 1 (by omega) (by omega)
      have e : chunk + 1 + n = chunk + (n + 1) := by omega
      rw [e] at hlast
      refine ⟨by simp [hl], ?_, by simpa using hlast⟩
      intro i hi
      rcases i with _ | i
      · simp only [List.getD_cons_zero, Int.ofNat_eq_natCast]
        have hd' : ((2 ^ (c - 1) : ℕ) : ℤ) ≤ ((carry + sel chunk : ℕ) : ℤ) := by
          have : 2 ^ (c - 1) ≤ carry + sel chunk := by omega
          exact_mod_cast this
        have hu : ((carry + sel chunk : ℕ) : ℤ) ≤ ((2 * 2 ^ (c - 1) : ℕ) : ℤ) := by
          have : carry + sel chunk ≤ 2 * 2 ^ (c - 1) := by omega
          exact_mod_cast this
        push_cast at hd' hu
        have hp' : (0 : ℤ) < 2 ^ (c - 1) := by positivity
        push_cast
        rw [h2z]
        constructor <;> linarith
      · simpa using hb i (by omega)
    · rename_i hd
      obtain ⟨hl, hb, hlast⟩ := ih (chunk + 1) 0 (by omega) (by omega)
      have e : chunk + 1 + n = chunk + (n + 1) := by omega
      rw [e] at hlast
      refine ⟨by simp [hl], ?_, by simpa using hlast⟩
      intro i hi
      rcases i with _ | i
      · simp only [List.getD_cons_zero, Int.ofNat_eq_natCast]
        have hu : ((carry + sel chunk : ℕ) : ℤ) < ((2 ^ (c - 1) : ℕ) : ℤ) := by
          have : carry + sel chunk < 2 ^ (c - 1) := by omega
          exact_mod_cast this
        push_cast at hu
        constructor
        · have : (0 : ℤ) ≤ ((carry + sel chunk : ℕ) : ℤ) := by positivity
          have hp' : (0 : ℤ) < 2 ^ (c - 1) := by positivity
          push_cast at this
          linarith
        · push_cast; linarith
      · simpa using hb i (by omega)

/-! ### window extraction over one or two limbs (`selector` of `partitionScalars`) -/

theorem and_trunc_mask (L x : ℕ) (hL : L < 2 ^ 64) : L &&& (x % 2 ^ 64) = L &&& x := by
  have h1 : (L &&& x) % 2 ^ 64 = L % 2 ^ 64 &&& x % 2 ^ 64 := Nat.and_mod_two_pow
  rw [Nat.mod_eq_of_lt hL] at h1
  rw [← h1]
  exact Nat.mod_eq_of_lt (lt_of_le_of_lt Nat.and_le_left hL)

theorem select_lo (L c sh : ℕ) (hL : L < 2 ^ 64) :
    (L &&& (((1 <<< c) - 1) <<< sh) % 2 ^ 64) >>> sh = (L / 2 ^ sh) % 2 ^ c := by
  rw [and_trunc_mask L _ hL, Nat.shiftRight_and_distrib, Nat.shiftLeft_shiftRight, Nat.shiftRight_eq_div_pow,
    Nat.one_shiftLeft, Nat.and_two_pow_sub_one_eq_mod]

/-- the masked/shifted selection over limb `index` (and `index+1` when the window straddles two limbs) is the `c`-bit
window at bit `c·chunk` of the scalar -/
theorem selectDigit_eq (limbs c s chunk : ℕ) (hc1 : 1 ≤ c) (hc : c ≤ 64) (hs : s < 2 ^ (64 * limbs))
    (hidx : chunk * c / 64 < limbs) :
    selectDigit limbs c s chunk = (s / 2 ^ (c * chunk)) % 2 ^ c := by
  unfold selectDigit
  dsimp only
  have hsh : chunk * c - chunk * c / 64 * 64 = chunk * c % 64 := by omega
  rw [hsh]
  have hjc : c * chunk = 64 * (chunk * c / 64) + chunk * c % 64 := by rw [mul_comm c chunk]; omega
  have hsh64 : chunk * c % 64 < 64 := Nat.mod_lt _ (by norm_num)
  rw [hjc]
  generalize chunk * c / 64 = idx at *
  generalize hshdef : chunk * c % 64 = sh at *
  have hL : limb s idx < 2 ^ 64 := Nat.mod_lt _ (by positivity)
  rw [select_lo _ c sh hL]
  have hX : s / 2 ^ (64 * idx + sh) = s / 2 ^ (64 * idx) / 2 ^ sh := by
    rw [Nat.div_div_eq_div_mul, pow_add]
  have hX1 : s / 2 ^ (64 * (idx + 1)) = s / 2 ^ (64 * idx) / 2 ^ 64 := by
    rw [show 64 * (idx + 1) = 64 * idx + 64 by ring, pow_add, Nat.div_div_eq_div_mul]
  have hXlt : idx + 1 = limbs → s / 2 ^ (64 * idx) < 2 ^ 64 := by
    intro h
    apply Nat.div_lt_of_lt_mul
    rw [← pow_add]
    have : 64 * idx + 64 = 64 * limbs := by omega
    rw [this]; exact hs
  unfold limb
  rw [hX, hX1]
  generalize s / 2 ^ (64 * idx) = X at *
  have e64 : (2 : ℕ) ^ 64 = 2 ^ sh * 2 ^ (64 - sh) := by rw [← pow_add]; congr 1; omega
  split
  · rename_i hm
    simp only [Bool.and_eq_true, decide_eq_true_eq] at hm
    obtain ⟨⟨_, h2⟩, _⟩ := hm
    have ec : (2 : ℕ) ^ c = 2 ^ (64 - sh) * 2 ^ (sh - (64 - c)) := by rw [← pow_add]; congr 1; omega
    have esh : c - (sh - (64 - c)) = 64 - sh := by omega
    rw [Nat.one_shiftLeft, Nat.and_two_pow_sub_one_eq_mod, Nat.shiftLeft_eq, esh]
    have hA : X % 2 ^ 64 / 2 ^ sh = X / 2 ^ sh % 2 ^ (64 - sh) := by
      rw [e64, Nat.mod_mul_right_div_self]
    have hA2 : X / 2 ^ sh % 2 ^ (64 - sh) % 2 ^ c = X / 2 ^ sh % 2 ^ (64 - sh) :=
      Nat.mod_eq_of_lt (lt_of_lt_of_le (Nat.mod_lt _ (by positivity))
        (Nat.pow_le_pow_right (by norm_num) (by omega)))
    have hB : X / 2 ^ 64 % 2 ^ 64 % 2 ^ (sh - (64 - c)) = X / 2 ^ 64 % 2 ^ (sh - (64 - c)) :=
      Nat.mod_mod_of_dvd _ (pow_dvd_pow 2 (by omega))
    rw [hA, hA2, hB]
    conv_rhs => rw [ec, Nat.mod_mul, Nat.div_div_eq_div_mul, ← e64]
    rw [mul_comm]
  · rename_i hm
    simp only [Bool.and_eq_true, decide_eq_true_eq, not_and_or, not_lt, ne_eq, not_not] at hm
    by_cases hfit : sh + c ≤ 64
    · rw [e64, Nat.mod_mul_right_div_self]
      exact Nat.mod_mod_of_dvd _ (pow_dvd_pow 2 (by omega))
    · have htop : idx + 1 = limbs := by
        rcases hm with (h | h) | h
        · exfalso
          obtain ⟨k, hk⟩ := Nat.dvd_of_mod_eq_zero h
          have hk0 : 0 < k := by
            rcases Nat.eq_zero_or_pos k with h0 | h0
            · rw [h0] at hk; omega
            · exact h0
          have e : sh = c * (chunk % k) := by
            rw [← hshdef, mul_comm chunk c]
            conv_lhs => rw [hk]
            exact Nat.mul_mod_mul_left c chunk k
          have h1 : chunk % k + 1 ≤ k := Nat.mod_lt _ hk0
          have h3 := Nat.mul_le_mul_left c h1
          rw [mul_add, mul_one] at h3
          omega
        · omega
        · omega
      rw [Nat.mod_eq_of_lt (hXlt htop)]

theorem computeNbChunks_bounds (bits c : ℕ) (hc : 1 ≤ c) :
    bits ≤ c * computeNbChunks bits c ∧ (computeNbChunks bits c - 1) * c < bits + (if bits = 0 then 1 else 0) := by
  unfold computeNbChunks
  have h1 := Nat.div_add_mod (bits + c - 1) c
  have h2 := Nat.mod_lt (bits + c - 1) (show 0 < c by omega)
  have h3 : ((bits + c - 1) / c - 1) * c = c * ((bits + c - 1) / c) - c := by
    rw [Nat.sub_mul, one_mul, mul_comm]
  rw [h3]
  generalize c * ((bits + c - 1) / c) = m at *
  split <;> omega

theorem decode_encode (d : ℤ) (h1 : -32768 ≤ d) (h2 : d < 32768) : decodeDigit (encodeDigit d) = d := by
  unfold encodeDigit decodeDigit
  simp only [Nat.shiftLeft_eq, Nat.and_one_is_mod, Nat.shiftRight_eq_div_pow, Int.ofNat_eq_natCast, pow_one]
  split
  · subst_vars; simp
  · split
    · split <;> omega
    · split <;> omega

/-! ### `BatchScalarMultiplication` -/

theorem dblN_eq (n : ℕ) (p : G) : dblN (GOps.ofGroup G) n p = 2 ^ n • p := by
  induction n generalizing p with
  | zero => simp [dblN]
  | succ n ih => rw [dblN, ih, ofGroup_dbl, pow_succ, mul_smul, two_smul]

theorem baseTableAux_getD (base : G) : ∀ n cur i, i < n →
    (baseTableAux (GOps.ofGroup G) base n cur).getD i 0 = cur + i • base := by
  intro n
  induction n with
  | zero => intro cur i hi; omega
  | succ n ih =>
    intro cur i hi
    rcases i with _ | i
    · simp [baseTableAux]
    · rw [baseTableAux, List.getD_cons_succ, ih _ i (by omega), ofGroup_add, succ_nsmul]; abel

theorem baseTable_getD (base : G) (T i : ℕ) (hi : i < T) :
    (baseTable (GOps.ofGroup G) base T).getD i 0 = (i + 1) • base := by
  unfold baseTable
  rw [baseTableAux_getD base T base i hi, succ_nsmul]; abel

theorem encodeDigit_zero : encodeDigit 0 = 0 := by simp [encodeDigit]

theorem encodeDigit_pos (m : ℕ) (hm : 1 ≤ m) (h : m < 32768) : encodeDigit (m : ℤ) = 2 * m := by
  unfold encodeDigit
  have h0 : ¬ ((m : ℤ) = 0) := by omega
  have h1 : (m : ℤ) > 0 := by omega
  rw [if_neg h0, if_pos h1, Nat.shiftLeft_eq, Int.toNat_natCast, pow_one]; omega

theorem encodeDigit_neg (m : ℕ) (h : m < 32768) : encodeDigit (-((m : ℤ) + 1)) = 2 * m + 1 := by
  unfold encodeDigit
  have h0 : ¬ (-((m : ℤ) + 1) = 0) := by omega
  have h1 : ¬ (-((m : ℤ) + 1) > 0) := by omega
  have e : (-(-((m : ℤ) + 1)) - 1).toNat = m := by omega
  rw [if_neg h0, if_neg h1, e, Nat.shiftLeft_eq, pow_one]; omega

theorem addDigit_even (tbl : List G) (p : G) (m : ℕ) (hm : 1 ≤ m) :
    addDigit (GOps.ofGroup G) tbl p (2 * m) = p + tbl.getD (m - 1) 0 := by
  unfold addDigit
  have h0 : ¬ (2 * m = 0) := by omega
  have h1 : (2 * m) &&& 1 = 0 := by rw [Nat.and_one_is_mod]; omega
  have h2 : (2 * m) >>> 1 = m := by rw [Nat.shiftRight_eq_div_pow]; omega
  rw [if_neg h0, if_pos h1, h2]; rfl

theorem addDigit_odd (tbl : List G) (p : G) (m : ℕ) :
    addDigit (GOps.ofGroup G) tbl p (2 * m + 1) = p + -(tbl.getD m 0) := by
  unfold addDigit
  have h0 : ¬ (2 * m + 1 = 0) := by omega
  have h1 : ¬ ((2 * m + 1) &&& 1 = 0) := by rw [Nat.and_one_is_mod]; omega
  have h2 : (2 * m + 1) >>> 1 = m := by rw [Nat.shiftRight_eq_div_pow]; omega
  rw [if_neg h0, if_neg h1, h2]; rfl

theorem addDigit_encode (base : G) (T : ℕ) (p : G) (d : ℤ) (h1 : -(T : ℤ) ≤ d) (h2 : d ≤ T)
    (h3 : -32768 ≤ d) (h4 : d < 32768) :
    addDigit (GOps.ofGroup G) (baseTable (GOps.ofGroup G) base T) p (encodeDigit d) = p + d • base := by
  rcases lt_trichotomy d 0 with hd | hd | hd
  · obtain ⟨m, rfl⟩ : ∃ m : ℕ, d = -((m : ℤ) + 1) := ⟨(-d - 1).toNat, by omega⟩
    rw [encodeDigit_neg m (by omega), addDigit_odd, baseTable_getD base T m (by omega), neg_smul]
    congr 2
    exact_mod_cast (natCast_zsmul base (m + 1)).symm
  · subst hd
    rw [encodeDigit_zero]
    simp [addDigit]
  · obtain ⟨m, rfl⟩ : ∃ m : ℕ, d = (m : ℤ) := ⟨d.toNat, by omega⟩
    rw [encodeDigit_pos m (by omega) (by omega), addDigit_even _ _ m (by omega),
      baseTable_getD base T (m - 1) (by omega), natCast_zsmul]
    congr 2; omega

/-- Horner value of a little-endian digit string -/
def horner (W : ℕ) (F : ℤ → G) : List ℤ → G
  | [] => 0
  | d :: ds => F d + W • horner W F ds

/-- a top-down index loop (`for chunk := n−1; chunk >= 0; chunk--`) whose step is `res ↦ W·res + F(dₖ)`;
the top step is only required to behave so on the initial accumulator 0 -/
theorem rev_fold_horner (W : ℕ) (F : ℤ → G) : ∀ (ds : List ℤ) (g : G → ℕ → G),
    (∀ j, j < ds.length → ∀ res, (j + 1 = ds.length → res = 0) → g res j = W • res + F (ds.getD j 0)) →
    (List.range ds.length).reverse.foldl g 0 = horner W F ds := by
  intro ds
  induction ds with
  | nil => intro g _; simp [horner]
  | cons d ds ih =>
    intro g hg
    have e : (List.range (ds.length + 1)).reverse = ((List.range ds.length).reverse.map Nat.succ) ++ [0] := by
      rw [List.range_succ_eq_map, List.reverse_cons, List.map_reverse]
    have h1 := ih (fun res j => g res (Nat.succ j)) (by
      intro j hj res hres
      have := hg (j + 1) (by simp; omega) res (by intro h; apply hres; simpa using h)
      simpa using this)
    rw [List.length_cons, e, List.foldl_append, List.foldl_map, h1, List.foldl_cons, List.foldl_nil]
    rw [hg 0 (by simp) _ (by
      intro h
      have : ds = [] := List.eq_nil_of_length_eq_zero (by simpa using h)
      subst this; rfl)]
    simp [horner]; abel

theorem evalDigits_smul (c : ℕ) (base : G) : ∀ (ds : List ℤ) (j : ℕ),
    (evalDigits c j ds) • base = (2 ^ (c * j) : ℕ) • horner (2 ^ c) (fun d => d • base) ds := by
  intro ds
  induction ds with
  | nil => intro j; simp [evalDigits, horner]
  | cons d ds ih =>
    intro j
    have e : ((2 : ℤ) ^ (c * j)) = ((2 ^ (c * j) : ℕ) : ℤ) := by push_cast; rfl
    have e2 : (2 : ℕ) ^ (c * (j + 1)) = 2 ^ (c * j) * 2 ^ c := by rw [← pow_add]; congr 1
    rw [evalDigits, add_smul, ih (j + 1), horner, smul_add, mul_comm, mul_smul, e, natCast_zsmul, e2, mul_smul]

theorem batchOne_eq (c T : ℕ) (base : G) (ds : List ℤ)
    (hb : ∀ d ∈ ds, -(T : ℤ) ≤ d ∧ d ≤ T ∧ -32768 ≤ d ∧ d < 32768) :
    batchOne (GOps.ofGroup G) c (baseTable (GOps.ofGroup G) base T) (ds.map encodeDigit) =
      (evalDigits c 0 ds) • base := by
  unfold batchOne
  rw [List.length_map, ofGroup_zero, rev_fold_horner (2 ^ c) (fun d => d • base) ds]
  · rw [evalDigits_smul]; simp
  · intro j hj res hres
    unfold batchStep
    dsimp only
    have hd : ds.getD j 0 = ds[j] := by
      rw [List.getD_eq_getElem?_getD, List.getElem?_eq_getElem hj]; rfl
    have hget : (ds.map encodeDigit).getD j 0 = encodeDigit (ds.getD j 0) := by
      rw [hd, List.getD_eq_getElem?_getD, List.getElem?_eq_getElem (by simpa using hj), List.getElem_map]; rfl
    have hmem : ds.getD j 0 ∈ ds := by
      rw [hd]; exact List.getElem_mem hj
    obtain ⟨b1, b2, b3, b4⟩ := hb _ hmem
    rw [hget, List.length_map]
    have hp : (if j ≠ ds.length - 1 then dblN (GOps.ofGroup G) c res else res) = 2 ^ c • res := by
      split
      · exact dblN_eq c res
      · rename_i hne
        have : j + 1 = ds.length := by omega
        rw [hres this, smul_zero]
    rw [hp, addDigit_encode base T _ _ b1 b2 b3 b4]

end GV.ScalarMul
