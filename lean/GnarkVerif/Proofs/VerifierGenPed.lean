import GnarkVerif.Proofs.VerifierGen
import GnarkVerif.Model.ArgPairing
import GnarkVerif.Proofs.ArgPairing
/-
The exponent-model reading of the generated Pedersen verifier code (`Gen/Verifier/Pedersen_*.lean`) against
`Model/ArgPairing.lean` run with the driver's dictionary `fp q`: G1 elements and scalars are `Ex q` (Proofs/VerifierGen.lean;
`(fp q).add / mul / neg` are the same `% q` arithmetic), G2 elements are `Ex2 q` whose `==` is `(fp q).beq` (equality mod q),
`PairingCheck P Q` is `ArgPairing.pairingCheck (fp q)` = `Σ Pᵢ·Qᵢ ≡ 0`.
-/
namespace GV.VerifierGen
open GV GV.Alg GV.KZG GV.Gen.Verifier

/-- a G2 element in the exponent; `==` compares modulo `q` like `(fp q).beq` -/
structure Ex2 (q : ℕ) where
  v : ℕ

instance {q : ℕ} : BEq (Ex2 q) := ⟨fun a b => (fp q).beq a.v b.v⟩

/-- `PairingCheck P Q` in the exponent model of Model/ArgPairing.lean -/
def pcP (q : ℕ) (ps : List (Ex q)) (qs : List (Ex2 q)) : Bool :=
  ArgPairing.pairingCheck (fp q) (ps.map (·.v)) (qs.map (·.v))

/-- the Go result of a Pedersen model verdict -/
def resOfPed (b : Bool) : Res := if b then Res.ok else Res.err "proof rejected"

section
variable (q : ℕ) [NeZero q]

@[simp] theorem cast_fp_add (a b : ℕ) : (((fp q).add a b : ℕ) : ZMod q) = a + b := cast_addm q a b
@[simp] theorem cast_fp_mul (a b : ℕ) : (((fp q).mul a b : ℕ) : ZMod q) = a * b := cast_mulm q a b
@[simp] theorem cast_fp_neg (a : ℕ) : (((fp q).neg a : ℕ) : ZMod q) = -a := cast_negm q a
@[simp] theorem cast_fp_zero : (((fp q).zero : ℕ) : ZMod q) = 0 := by simp [fp]
@[simp] theorem cast_fp_one : (((fp q).one : ℕ) : ZMod q) = 1 := cast_one_mod q

theorem fp_beq_decide (a b : ℕ) : (fp q).beq a b = decide ((a : ZMod q) = b) := by
  show (a % q == b % q) = _
  rw [Bool.eq_iff_iff, beq_iff_eq, decide_eq_true_iff]
  exact (ZMod.natCast_eq_natCast_iff' a b q).symm

/-- a pairing-product check of the model depends on the dot product only through its class mod q -/
theorem fp_pairingCheck_congr {a b a' b' : List ℕ}
    (h : ((ArgPairing.dot (fp q) a b : ℕ) : ZMod q) = (ArgPairing.dot (fp q) a' b' : ℕ)) :
    ArgPairing.pairingCheck (fp q) a b = ArgPairing.pairingCheck (fp q) a' b' := by
  unfold ArgPairing.pairingCheck
  rw [fp_beq_decide, fp_beq_decide, h]

end

/-- `fr.Element.Inverse` in the exponent model: the inverse of the driver's dictionary (`0 ↦ 0`) -/
instance {q : ℕ} : Inv (Ex q) := ⟨fun a => ⟨(fp q).inv a.v⟩⟩
@[simp] theorem inv_v {q : ℕ} (a : Ex q) : (a⁻¹).v = (fp q).inv a.v := rfl

theorem cast_fp_inv (q : ℕ) [Fact q.Prime] (h2 : 2 < q) (a : ℕ) : (((fp q).inv a : ℕ) : ZMod q) = (a : ZMod q)⁻¹ :=
  (GV.ArgPairing.lawful_fp q h2).inv a

theorem cast_fp_sub (q : ℕ) [NeZero q] (a b : ℕ) : (((fp q).sub a b : ℕ) : ZMod q) = a - b := by
  show (((a + q - b % q) % q : ℕ) : ZMod q) = a - b
  have h : b % q ≤ a + q := by have := Nat.mod_lt b (Nat.pos_of_ne_zero (NeZero.ne q)); omega
  rw [ZMod.natCast_mod, Nat.cast_sub h]
  simp

/-- `KZG.pairingCheck` on two pairs = `ArgPairing.pairingCheck (fp q)` on the same operands -/
theorem pcFixed_eq_pc (q : ℕ) [NeZero q] (a b : Ex q) (l : ℕ × ℕ) :
    pcFixed q [a, b] l = ArgPairing.pairingCheck (fp q) [a.v, b.v] [l.1, l.2] := by
  unfold pcFixed ArgPairing.pairingCheck
  simp only [List.map, List.zip_cons_cons, List.zip_nil_right]
  rw [pairingCheck2, fp_beq_decide]
  simp [ArgPairing.dot]

theorem res_ok_iff_of_eq {a b : Bool} {e : String} (h : a = b) :
    (if (!a) = true then Res.err e else Res.ok) = Res.ok ↔ b = true := by
  subst h; cases a <;> simp

end GV.VerifierGen
