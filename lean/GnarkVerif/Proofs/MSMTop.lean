import GnarkVerif.Proofs.MSMBatch
import GnarkVerif.Proofs.MSMWindow
/-
C04 — assembly: digits of one scalar, `_innerMsm`, recursive halving, `MultiExp`, `Fold`.
-/
namespace GV.MSM

/-! ## the digits of one scalar -/

/-- largest possible value of the last digit (+1 for the carry) for scalars below `r` -/
def lastBound (bits r c : Nat) : Nat := (r - 1) / 2^(c * (computeNbChunks bits c - 1)) + 1

/-- decidable certificate that window size `c` is sound for a curve configuration and scalars `< r` -/
def goodC (cfg : Cfg) (r c : Nat) : Bool :=
  decide (1 ≤ c) && decide (c ≤ 16) && decide (1 ≤ computeNbChunks cfg.bits c) && decide (1 ≤ r) &&
  decide (r ≤ 2^(c * computeNbChunks cfg.bits c)) && decide (r ≤ 2^(64 * cfg.limbs)) &&
  decide ((computeNbChunks cfg.bits c - 1) * c < 64 * cfg.limbs) &&
  decide (lastBound cfg.bits r c < 32768) &&
  decide (2^(c-1) ≤ nbBucketsFor cfg c) &&
  decide (lastBound cfg.bits r c ≤ nbBucketsFor cfg (lastC cfg.bits c))

theorem recode_zero (c : Nat) (w : Nat → Nat) (hw : ∀ i, w i = 0) : ∀ k j,
    recode c w j k 0 = List.replicate (k+1) 0 := by
  intro k
  induction k with
  | zero => intro j; simp [recode, hw]
  | succ k ih =>
    intro j
    simp only [recode, hw, Nat.add_zero]
    rw [if_neg (by omega), ih (j+1)]
    simp [List.replicate_succ]

/-- bucket index of every stored digit, from the digit bounds -/
theorem encodeAll_bucket (c : Nat) (hc1 : 1 ≤ c) (hc : c ≤ 16) (B : Nat) (hB : B < 32768) : ∀ (ds : List Int),
    digitsOK c B ds → ∀ j, j < ds.length → (encodeAll ds).getD j 0 ≠ 0 →
      bucketOf ((encodeAll ds).getD j 0) < (if j = ds.length - 1 then B else 2^(c-1)) := by
  have hp : (2:ℕ)^(c-1) ≤ 32768 := by
    have : (2:ℕ)^(c-1) ≤ 2^15 := Nat.pow_le_pow_right (by decide) (by omega)
    simpa using this
  have hlink : (((2:ℕ)^(c-1) : ℕ) : ℤ) = (2:ℤ)^(c-1) := by push_cast; rfl
  intro ds
  induction ds with
  | nil => intro _ j hj; simp at hj
  | cons d ds ih =>
    intro hok j hj hne
    cases ds with
    | nil =>
      have hj0 : j = 0 := by simpa using hj
      subst hj0
      simp only [digitsOK] at hok
      simp only [encodeAll, List.getD_cons_zero, List.length_cons, List.length_nil] at hne ⊢
      simp only [Nat.zero_add, Nat.sub_self, if_true]
      exact bucketOf_encodeLast B hB d hok.1 hok.2 hne
    | cons d' ds =>
      simp only [digitsOK] at hok
      cases j with
      | zero =>
        simp only [encodeAll, List.getD_cons_zero] at hne ⊢
        have : ¬ (0 = (d :: d' :: ds).length - 1) := by simp
        rw [if_neg this]
        exact bucketOf_encodeDigit (2^(c-1)) hp d (by rw [hlink]; exact hok.1) (by rw [hlink]; exact hok.2.1) hne
      | succ j =>
        simp only [encodeAll, List.getD_cons_succ] at hne ⊢
        have := ih hok.2.2 j (by simpa using hj) hne
        have e : (j + 1 = (d :: d' :: ds).length - 1) ↔ (j = (d' :: ds).length - 1) := by
          simp only [List.length_cons]; omega
        by_cases hjl : j = (d' :: ds).length - 1
        · rw [if_pos (e.2 hjl)]; rw [if_pos hjl] at this; exact this
        · rw [if_neg (fun h => hjl (e.1 h))]; rw [if_neg hjl] at this; exact this

/-- everything the chunk processors and the Horner reduction need to know about the stored digits of one scalar -/
structure RowOK (cfg : Cfg) (c s : Nat) : Prop where
  len : (scalarDigits cfg.limbs cfg.bits c s).length = computeNbChunks cfg.bits c
  eval : evalDigits c ((scalarDigits cfg.limbs cfg.bits c s).map decodeDigit) = (s:ℤ)
  bucket : ∀ j, j < computeNbChunks cfg.bits c → (scalarDigits cfg.limbs cfg.bits c s).getD j 0 ≠ 0 →
    bucketOf ((scalarDigits cfg.limbs cfg.bits c s).getD j 0) <
      nbBucketsFor cfg (if j = computeNbChunks cfg.bits c - 1 then lastC cfg.bits c else c)

theorem signedDigits_spec (cfg : Cfg) (r c s : Nat) (hg : goodC cfg r c = true) (hs : s < r) :
    (signedDigits cfg.limbs cfg.bits c s).length = computeNbChunks cfg.bits c ∧
    evalDigits c (signedDigits cfg.limbs cfg.bits c s) = (s:ℤ) ∧
    digitsOK c (lastBound cfg.bits r c : ℕ) (signedDigits cfg.limbs cfg.bits c s) := by
  simp only [goodC, Bool.and_eq_true, decide_eq_true_eq] at hg
  obtain ⟨⟨⟨⟨⟨⟨⟨⟨⟨hc1, hc16⟩, hnb⟩, hr1⟩, hrle⟩, hrl⟩, hchunks⟩, hlast⟩, hbc⟩, hbl⟩ := hg
  generalize hnbdef : computeNbChunks cfg.bits c = nb at *
  have hs64 : s < 2^(64 * cfg.limbs) := Nat.lt_of_lt_of_le hs hrl
  -- the Go window selection is the arithmetic window
  have hwin : ∀ i, i ≤ nb - 1 → window cfg.limbs c s i = s / 2^(c*i) % 2^c := by
    intro i hi
    have : i * c < 64 * cfg.limbs := by
      have : i * c ≤ (nb - 1) * c := Nat.mul_le_mul_right c hi
      omega
    rw [window_eq cfg.limbs c s i hc1 (by omega) hs64 this, Nat.mul_comm]
  have hrec : signedDigits cfg.limbs cfg.bits c s = recode c (fun i => s / 2^(c*i) % 2^c) 0 (nb - 1) 0 := by
    unfold signedDigits
    rw [hnbdef]
    dsimp only
    split
    · rename_i h0
      subst h0
      rw [recode_zero c _ (by intro i; simp) (nb - 1) 0]
      congr 1
      omega
    · exact recode_congr c _ _ (nb - 1) 0 0 (fun i _ hi => hwin i (by omega))
  rw [hrec]
  refine ⟨by rw [recode_length]; omega, ?_, ?_⟩
  · rw [recode_eval, winSum_div]
    have e : c * (nb - 1 + 1) = c * nb := by congr 1; omega
    rw [e]
    have : s < 2^(c * nb) := Nat.lt_of_lt_of_le hs hrle
    simp [Nat.mod_eq_of_lt this]
  · apply recode_ok c hc1 _ (fun i => Nat.mod_lt _ (Nat.two_pow_pos c)) _ (nb - 1) 0 0 (by omega)
    unfold lastBound
    rw [hnbdef]
    simp only [Nat.zero_add]
    have h1 : s / 2^(c * (nb - 1)) % 2^c ≤ s / 2^(c * (nb - 1)) := Nat.mod_le _ _
    have h2 : s / 2^(c * (nb - 1)) ≤ (r - 1) / 2^(c * (nb - 1)) := Nat.div_le_div_right (by omega)
    have h3 : s / 2^(c * (nb - 1)) % 2^c + 1 ≤ (r - 1) / 2^(c * (nb - 1)) + 1 := by omega
    exact_mod_cast h3

theorem rowOK_of_good (cfg : Cfg) (r c s : Nat) (hg : goodC cfg r c = true) (hs : s < r) : RowOK cfg c s := by
  obtain ⟨hlen, heval, hok⟩ := signedDigits_spec cfg r c s hg hs
  simp only [goodC, Bool.and_eq_true, decide_eq_true_eq] at hg
  obtain ⟨⟨⟨⟨⟨⟨⟨⟨⟨hc1, hc16⟩, hnb⟩, hr1⟩, hrle⟩, hrl⟩, hchunks⟩, hlast⟩, hbc⟩, hbl⟩ := hg
  have hdec := decode_encodeAll c hc16 (lastBound cfg.bits r c : ℕ) (by exact_mod_cast hlast) _ hok
  refine ⟨?_, ?_, ?_⟩
  · unfold scalarDigits; rw [encodeAll_length, hlen]
  · unfold scalarDigits; rw [hdec, heval]
  · intro j hj hne
    unfold scalarDigits at hne ⊢
    have := encodeAll_bucket c hc1 hc16 (lastBound cfg.bits r c) hlast _ hok j (by rw [hlen]; exact hj) hne
    rw [hlen] at this
    by_cases hjl : j = computeNbChunks cfg.bits c - 1
    · rw [if_pos hjl] at this ⊢; exact Nat.lt_of_lt_of_le this hbl
    · rw [if_neg hjl] at this ⊢; exact Nat.lt_of_lt_of_le this hbc

/-! ## `_innerMsm` -/

section group
variable {G : Type} [AddCommGroup G]

theorem processChunk_eq (ops : GOps G) (h : LawfulBA ops) (proc : Proc) (nb : Nat) (Ps : List G) (us : List Nat)
    (hr : ∀ u ∈ us, u ≠ 0 → bucketOf u < nb) : processChunk ops proc nb Ps us = digitSum Ps us := by
  cases proc with
  | jacobian => exact processChunkJac_eq ops h.law nb Ps us hr
  | batchAffine bs => exact processChunkBatchAffine_eq ops h bs nb Ps us hr

/-- a chunk, whatever processor is chosen and whether or not it is split in two halves -/
theorem chunkTotal_eq (ops : GOps G) (h : LawfulBA ops) (ch : ChunkChoice) (nb : Nat) (Ps : List G) (us : List Nat)
    (hr : ∀ u ∈ us, u ≠ 0 → bucketOf u < nb) : chunkTotal ops ch nb Ps us = digitSum Ps us := by
  unfold chunkTotal
  split
  · exact processChunk_eq ops h _ nb Ps us hr
  · dsimp only
    rw [processChunk_eq ops h _ nb _ _ (fun u hu => hr u (List.mem_of_mem_take hu)),
      processChunk_eq ops h _ nb _ _ (fun u hu => hr u (List.mem_of_mem_drop hu)),
      digitSum_take_drop (Ps.length / 2) Ps us]
    split
    · rw [h.law.add]; exact add_comm _ _
    · rw [h.law.add]

/-- **inner MSM**: for every window size with a certificate, every choice of processors and splits -/
theorem innerMsm_eq (cfg : Cfg) (ops : GOps G) (h : LawfulBA ops) (c : Nat)
    (choose : Nat → List (List Nat) → ChunkChoice) (pts : List G) (scs : List Nat)
    (hlen : pts.length = scs.length) (hrows : ∀ s ∈ scs, RowOK cfg c s) :
    innerMsm cfg ops c choose pts scs = linComb scs pts := by
  unfold innerMsm
  dsimp only
  rw [reduceChunks_eq ops h.law]
  have key : ∀ j ∈ List.range (computeNbChunks cfg.bits c),
      chunkTotal ops (choose j ((List.range (computeNbChunks cfg.bits c)).map
          (colOf (scs.map (scalarDigits cfg.limbs cfg.bits c)))))
        (nbBucketsFor cfg (if j = computeNbChunks cfg.bits c - 1 then lastC cfg.bits c else c)) pts
        (colOf (scs.map (scalarDigits cfg.limbs cfg.bits c)) j) =
      digitSum pts (colOf (scs.map (scalarDigits cfg.limbs cfg.bits c)) j) := by
    intro j hj
    apply chunkTotal_eq ops h
    intro u hu hne
    unfold colOf at hu
    simp only [List.mem_map] at hu
    obtain ⟨row, ⟨s, hs, rfl⟩, rfl⟩ := hu
    exact (hrows s hs).bucket j (List.mem_range.1 hj) hne
  rw [List.map_congr_left key]
  have := chunkForm_eq c (computeNbChunks cfg.bits c) (scalarDigits cfg.limbs cfg.bits c) scs pts hlen
    (fun s hs => ⟨(hrows s hs).len, (hrows s hs).eval⟩)
  unfold chunkForm at this
  exact this

/-! ## cost model and the recursion -/

theorem costLoop_ge (cpus cpt : Nat) : ∀ f t tot, tot ≤ costLoop cpus cpt f t tot := by
  intro f
  induction f with
  | zero => intro t tot; simp only [costLoop]; split <;> omega
  | succ f ih =>
    intro t tot
    simp only [costLoop]
    split
    · exact Nat.le_trans (by omega) (ih _ _)
    · split <;> omega

/-- closed form of the loop of `costFunction` -/
theorem costLoop_eq (cpus cpt : Nat) (hc : 1 ≤ cpus) : ∀ f t tot, t ≤ f →
    costLoop cpus cpt f t tot = tot + (t / cpus) * cpt + (if t % cpus > 0 then cpt else 0) := by
  intro f
  induction f with
  | zero =>
    intro t tot ht
    have : t = 0 := by omega
    subst this
    simp [costLoop]
  | succ f ih =>
    intro t tot ht
    simp only [costLoop]
    split
    · rename_i hge
      rw [ih (t - cpus) (tot + cpt) (by omega)]
      have e1 : t / cpus = (t - cpus) / cpus + 1 := by
        have : t = (t - cpus) + cpus := by omega
        conv_lhs => rw [this]
        rw [Nat.add_div_right _ (by omega)]
      have e2 : t % cpus = (t - cpus) % cpus := by
        have : t = (t - cpus) + cpus := by omega
        conv_lhs => rw [this]
        rw [Nat.add_mod_right]
      rw [e1, e2, Nat.add_mul]
      omega
    · rename_i hlt
      have e1 : t / cpus = 0 := Nat.div_eq_of_lt (by omega)
      have e2 : t % cpus = t := Nat.mod_eq_of_lt (by omega)
      rw [e1, e2]
      by_cases hpos : 0 < t <;> simp [hpos]

theorem costFunction_eq (t cpus cpt : Nat) (hc : 1 ≤ cpus) :
    costFunction t cpus cpt = t + (t / cpus) * cpt + (if t % cpus > 0 then cpt else 0) :=
  costLoop_eq cpus cpt hc t t t (Nat.le_refl _)

/-- number of rounds `⌈t/cpus⌉` -/
def rounds (t cpus : Nat) : Nat := t / cpus + (if t % cpus > 0 then 1 else 0)

theorem costFunction_rounds (t cpus cpt : Nat) (hc : 1 ≤ cpus) :
    costFunction t cpus cpt = t + rounds t cpus * cpt := by
  rw [costFunction_eq t cpus cpt hc]
  unfold rounds
  split
  · rw [Nat.add_mul]; omega
  · simp

theorem rounds_mono (a b cpus : Nat) (hc : 1 ≤ cpus) (hab : a ≤ b) : rounds a cpus ≤ rounds b cpus := by
  have hd := Nat.div_le_div_right (c := cpus) hab
  have ha := Nat.div_add_mod a cpus
  have hb := Nat.div_add_mod b cpus
  have ha2 := Nat.mod_lt a (show cpus > 0 by omega)
  have hb2 := Nat.mod_lt b (show cpus > 0 by omega)
  unfold rounds
  by_cases heq : a / cpus = b / cpus
  · have hcong : cpus * (a / cpus) = cpus * (b / cpus) := by rw [heq]
    split <;> split <;> omega
  · split <;> split <;> omega

theorem rounds_le (t cpus : Nat) (hc : 1 ≤ cpus) : rounds t cpus ≤ t := by
  unfold rounds
  have h1 := Nat.div_add_mod t cpus
  have h2 : t / cpus ≤ cpus * (t / cpus) := Nat.le_mul_of_pos_left _ (by omega)
  split <;> omega

/-- `n = 0` is never split (for every configuration and every task count ≥ 1) -/
theorem splitDecision_zero (cfg : Cfg) (k : Nat) (hk : 1 ≤ k) : splitDecision cfg 0 k = false := by
  unfold splitDecision
  dsimp only
  rw [costFunction_rounds _ _ _ hk, costFunction_rounds _ _ _ hk]
  have hm := rounds_mono (computeNbChunks cfg.bits (bestC cfg 0)) (computeNbChunks cfg.bits (bestC cfg 0) * 2) k hk (by omega)
  have hmul := Nat.mul_le_mul_right (0 + 2 ^ bestC cfg 0) hm
  simp only [Nat.zero_div, decide_eq_false_iff_not, Nat.not_lt]
  omega

/-- `n = 1` is never split as soon as `bestC 1 = bestC 0` (true for the nine curves) -/
theorem splitDecision_one (cfg : Cfg) (k : Nat) (hk : 1 ≤ k) (hb : bestC cfg 1 = bestC cfg 0) :
    splitDecision cfg 1 k = false := by
  unfold splitDecision
  dsimp only
  rw [costFunction_rounds _ _ _ hk, costFunction_rounds _ _ _ hk]
  have e : 1 / 2 = 0 := by decide
  rw [e, hb]
  generalize computeNbChunks cfg.bits (bestC cfg 0) = nbc
  generalize 2 ^ bestC cfg 0 = p
  have hm := rounds_mono nbc (nbc * 2) k hk (by omega)
  have hle := rounds_le nbc k hk
  have h1 : rounds nbc k * (1 + p) = rounds nbc k + rounds nbc k * p := by ring
  have h2 : rounds nbc k * p ≤ rounds (nbc * 2) k * p := Nat.mul_le_mul_right p hm
  simp only [decide_eq_false_iff_not, Nat.not_lt, Nat.zero_add]
  omega

theorem bestC_mem (cfg : Cfg) (n : Nat) (hne : cfg.cs ≠ []) : bestC cfg n ∈ cfg.cs := by
  unfold bestC
  dsimp only
  -- invariant of the fold: the candidate is a member
  have key : ∀ (l : List Nat) (init : Option (Nat × Nat)),
      (∀ p, init = some p → p.1 ∈ cfg.cs) → (∀ c ∈ l, c ∈ cfg.cs) →
      ∀ p, l.foldl (fun (best : Option (Nat × Nat)) c =>
        match best with
        | none => some (c, (cfg.bits + 1) * (n + 2^c))
        | some (bc, bcost) => if (cfg.bits + 1) * (n + 2^c) * bc < bcost * c then some (c, (cfg.bits + 1) * (n + 2^c)) else best) init = some p →
      p.1 ∈ cfg.cs := by
    intro l
    induction l with
    | nil => intro init hi _ p hp; exact hi p hp
    | cons a l ih =>
      intro init hi hl p hp
      rw [List.foldl_cons] at hp
      refine ih _ ?_ (fun c hc => hl c (by simp [hc])) p hp
      intro q hq
      cases init with
      | none => simp only [Option.some.injEq] at hq; subst hq; exact hl a (by simp)
      | some b =>
        obtain ⟨bc, bcost⟩ := b
        simp only at hq
        split at hq
        · simp only [Option.some.injEq] at hq; subst hq; exact hl a (by simp)
        · exact hi q hq
  have hsome : ∀ (l : List Nat) (init : Option (Nat × Nat)), (l ≠ [] ∨ init ≠ none) →
      l.foldl (fun (best : Option (Nat × Nat)) c =>
        match best with
        | none => some (c, (cfg.bits + 1) * (n + 2^c))
        | some (bc, bcost) => if (cfg.bits + 1) * (n + 2^c) * bc < bcost * c then some (c, (cfg.bits + 1) * (n + 2^c)) else best) init ≠ none := by
    intro l
    induction l with
    | nil => intro init h; simpa using h
    | cons a l ih =>
      intro init _
      rw [List.foldl_cons]
      apply ih
      right
      cases init with
      | none => simp
      | some b =>
        obtain ⟨bc, bcost⟩ := b
        simp only
        split <;> simp
  have hs := hsome cfg.cs none (Or.inl hne)
  cases hf : cfg.cs.foldl (fun (best : Option (Nat × Nat)) c =>
        match best with
        | none => some (c, (cfg.bits + 1) * (n + 2^c))
        | some (bc, bcost) => if (cfg.bits + 1) * (n + 2^c) * bc < bcost * c then some (c, (cfg.bits + 1) * (n + 2^c)) else best) none with
  | none => exact absurd hf hs
  | some p =>
    simp only [Option.map_some, Option.getD_some]
    exact key cfg.cs none (by simp) (fun c hc => hc) p hf

/-- per-curve certificate: all implemented windows are sound, and tiny inputs use one window -/
structure GoodCfg (cfg : Cfg) (r : Nat) : Prop where
  cs_ne : cfg.cs ≠ []
  good : ∀ c ∈ cfg.cs, goodC cfg r c = true
  best01 : bestC cfg 1 = bestC cfg 0

/-- **recursive halving terminates and returns the linear combination** -/
theorem msmRec_eq (cfg : Cfg) (r : Nat) (hcfg : GoodCfg cfg r) (ops : GOps G) (h : LawfulBA ops)
    (choose : List Bool → Nat → Nat → List (List Nat) → ChunkChoice) :
    ∀ (fuel : Nat) (path : List Bool) (k : Nat) (pts : List G) (scs : List Nat),
      pts.length < fuel → 1 ≤ k → pts.length = scs.length → (∀ s ∈ scs, s < r) →
      msmRec cfg ops choose fuel path k pts scs = some (linComb scs pts) := by
  intro fuel
  induction fuel with
  | zero => intro path k pts scs hf; omega
  | succ fuel ih =>
    intro path k pts scs hf hk hlen hsc
    simp only [msmRec]
    split
    · rename_i hsplit
      -- a split needs at least two points
      have hn2 : 2 ≤ pts.length := by
        by_contra hlt
        have : pts.length = 0 ∨ pts.length = 1 := by omega
        rcases this with h0 | h1
        · rw [h0, splitDecision_zero cfg k hk] at hsplit; exact absurd hsplit (by decide)
        · rw [h1, splitDecision_one cfg k hk hcfg.best01] at hsplit; exact absurd hsplit (by decide)
      have hhalf : pts.length / 2 < pts.length := by omega
      have hhalf1 : 1 ≤ pts.length / 2 := by omega
      rw [ih (false :: path) ((k+1)/2) (pts.take (pts.length/2)) (scs.take (pts.length/2))
            (by rw [List.length_take]; omega) (by omega)
            (by rw [List.length_take, List.length_take, hlen])
            (fun s hs => hsc s (List.mem_of_mem_take hs)),
          ih (true :: path) ((k+1)/2) (pts.drop (pts.length/2)) (scs.drop (pts.length/2))
            (by rw [List.length_drop]; omega) (by omega)
            (by rw [List.length_drop, List.length_drop, hlen])
            (fun s hs => hsc s (List.mem_of_mem_drop hs))]
      simp only [h.law.add]
      rw [linComb_take_drop (pts.length/2) scs pts]
      exact congrArg some (add_comm _ _)
    · have hc := bestC_mem cfg pts.length hcfg.cs_ne
      rw [innerMsm_eq cfg ops h _ _ pts scs hlen
        (fun s hs => rowOK_of_good cfg r _ s (hcfg.good _ hc) (hsc s hs))]

end group

end GV.MSM
