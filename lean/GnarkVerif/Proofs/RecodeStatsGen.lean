import GnarkVerif.Gen.Imp.Recode
import GnarkVerif.Model.MSM
import Mathlib.Data.Finset.Card
import Mathlib.Data.Finset.Basic
import Mathlib.Data.List.Basic
import Mathlib.Tactic.Ring
/-
Helper lemmas for Props/C04_recode_gen: the translated body of the chunk-statistics loop of `partitionScalars`
(Gen/Imp/Recode.lean `statStep` / `statLoop`) against `bucketOf` / `chunkOps` of Model/MSM.lean.
-/
namespace GV.RecodeGen.Stats
open GV.MSM GV.Gen.Imp.Recode

theorem bucket_eq (d : ℕ) (h0 : d ≠ 0) (h : d < 65536) :
    (if decide ((d &&& 1) = 0) then ((d >>> 1) + 65536 - 1) % 65536 else d >>> 1) = bucketOf d := by
  unfold bucketOf
  rw [Nat.and_one_is_mod, Nat.shiftRight_eq_div_pow]
  by_cases he : d % 2 = 0
  · simp only [he, decide_true, if_true]
    omega
  · simp only [he, decide_false, if_false, Bool.false_eq_true]

theorem statStep_eq (b : ℕ → Bool) (t n : ℤ) (d : ℕ) (h : d < 65536) :
    statStep b t n d = if d = 0 then (b, t, n) else
      (if b (bucketOf d) then b else (fun k_ => if k_ = bucketOf d then true else b k_), t + 1, if b (bucketOf d) then n else n + 1) := by
  unfold statStep
  by_cases h0 : d = 0
  · simp [h0]
  · simp only [h0, decide_false, if_false, Bool.false_eq_true]
    rw [bucket_eq d h0 h]
    cases hb : b (bucketOf d) <;> simp

theorem statFold (col : List ℕ) (hcol : ∀ d ∈ col, d < 65536) :
    ∀ (S : Finset ℕ) (b : ℕ → Bool) (t : ℤ), (∀ x, b x = true ↔ x ∈ S) →
      let r := col.foldl (fun st d => statStep st.1 st.2.1 st.2.2 d) (b, t, (S.card : ℤ))
      (∀ x, r.1 x = true ↔ x ∈ S ∪ ((col.filter (· != 0)).map bucketOf).toFinset) ∧
      r.2.1 = t + chunkOps col ∧
      r.2.2 = ((S ∪ ((col.filter (· != 0)).map bucketOf).toFinset).card : ℤ) := by
  induction col with
  | nil => intro S b t hb; simp [chunkOps, hb]
  | cons d ds ih =>
    intro S b t hb
    have hd := hcol d (by simp)
    have ih' := ih (fun x hx => hcol x (by simp [hx]))
    simp only [List.foldl_cons]
    rw [statStep_eq b t _ d hd]
    by_cases h0 : d = 0
    · subst h0
      simpa [chunkOps] using ih' S b t hb
    · simp only [h0, if_false]
      have hne : (d != 0) = true := by simpa using h0
      by_cases hm : b (bucketOf d) = true
      · have hmem : bucketOf d ∈ S := (hb _).1 hm
        have := ih' S b (t + 1) hb
        simp only [hm, if_true]
        simp only [List.filter_cons, hne, if_true, List.map_cons, List.toFinset_cons, chunkOps, List.length_cons] at this ⊢
        rw [Finset.union_insert, Finset.insert_eq_of_mem (Finset.mem_union_left _ hmem)]
        refine ⟨this.1, ?_, this.2.2⟩
        rw [this.2.1]; push_cast; ring
      · have hmem : bucketOf d ∉ S := fun h => hm ((hb _).2 h)
        have hb' : ∀ x, (fun k_ => if k_ = bucketOf d then true else b k_) x = true ↔ x ∈ insert (bucketOf d) S := by
          intro x
          by_cases hx : x = bucketOf d
          · subst hx; simp
          · simp [Function.update_of_ne hx, hb, hx]
        have := ih' (insert (bucketOf d) S) ((fun k_ => if k_ = bucketOf d then true else b k_)) (t + 1) hb'
        simp only [hm, if_false, Bool.false_eq_true]
        rw [Finset.card_insert_of_notMem hmem] at this
        simp only [List.filter_cons, hne, if_true, List.map_cons, List.toFinset_cons, chunkOps, List.length_cons] at this ⊢
        rw [Finset.union_insert, ← Finset.insert_union]
        push_cast at this ⊢
        refine ⟨this.1, ?_, this.2.2⟩
        rw [this.2.1]; ring


/-- the translated statistics loop over one chunk's digits: totalOps = number of non-zero digits (`chunkOps`), nz = number of DISTINCT
buckets hit, and the bit set marks exactly those buckets -/
theorem statLoop_eq (col : List ℕ) (hcol : ∀ d ∈ col, d < 65536) :
    (∀ x, (statLoop col).1 x = true ↔ x ∈ ((col.filter (· != 0)).map bucketOf).toFinset) ∧
    (statLoop col).2.1 = (chunkOps col : ℤ) ∧
    (statLoop col).2.2 = ((((col.filter (· != 0)).map bucketOf).toFinset.card : ℕ) : ℤ) := by
  have h := statFold col hcol ∅ (fun _ => false) 0 (by simp)
  simp only [Finset.card_empty, Nat.cast_zero, Finset.empty_union, zero_add] at h
  exact h

end GV.RecodeGen.Stats
