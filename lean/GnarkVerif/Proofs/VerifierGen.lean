import GnarkVerif.Proofs.KZG
import GnarkVerif.Model.VerifierRes
/-
Instances with which the generated group-level verifier code (`Gen/Verifier/*.lean`) is read in the known-trapdoor
exponent model of `Model/KZG.lean`: a group element / scalar is a natural number (its discrete logarithm, resp. value),
the operations are the explicit `% r` arithmetic of the hand model, `s • a = s·a`, and a pairing-product check is
`Σ Pᵢ·Qᵢ ≡ 0 (mod r)` (bilinearity in the exponent; this is C05's abstract corollary).
-/
namespace GV.VerifierGen
open GV.KZG GV.Gen.Verifier

/-- an exponent: a natural number read modulo `r` (not necessarily reduced, exactly as in `Model/KZG.lean`) -/
@[ext] structure Ex (r : ℕ) where
  v : ℕ
  deriving DecidableEq

variable {r : ℕ}

instance : Add (Ex r) := ⟨fun a b => ⟨addm r a.v b.v⟩⟩
instance : Sub (Ex r) := ⟨fun a b => ⟨subm r a.v b.v⟩⟩
instance : Neg (Ex r) := ⟨fun a => ⟨negm r a.v⟩⟩
instance : Mul (Ex r) := ⟨fun a b => ⟨mulm r a.v b.v⟩⟩
instance : Zero (Ex r) := ⟨⟨0⟩⟩
instance : One (Ex r) := ⟨⟨1 % r⟩⟩
/-- `[s]P` in the exponent: `s·P` (the scalars that occur are `toInt` of an exponent, hence ≥ 0) -/
instance : SMul Int (Ex r) := ⟨fun s a => ⟨mulm r s.toNat a.v⟩⟩

/-- `fr.Element.BigInt` -/
def Ex.toInt (a : Ex r) : Int := (a.v : Int)

@[simp] theorem add_v (a b : Ex r) : (a + b).v = addm r a.v b.v := rfl
@[simp] theorem sub_v (a b : Ex r) : (a - b).v = subm r a.v b.v := rfl
@[simp] theorem neg_v (a : Ex r) : (-a).v = negm r a.v := rfl
@[simp] theorem mul_v (a b : Ex r) : (a * b).v = mulm r a.v b.v := rfl
@[simp] theorem zero_v : (0 : Ex r).v = 0 := rfl
@[simp] theorem one_v : (1 : Ex r).v = 1 % r := rfl
@[simp] theorem smul_v (a b : Ex r) : (a.toInt • b).v = mulm r a.v b.v := rfl

/-- `PairingCheckFixedQ P vk.Lines` with `vk.Lines` precomputed from `vk.G2 = (l.1, l.2)` -/
def pcFixed (r : ℕ) (ps : List (Ex r)) (l : ℕ × ℕ) : Bool :=
  pairingCheck r ((ps.map (·.v)).zip [l.1, l.2])

/-- `PairingCheck P Q` -/
def pc (r : ℕ) (ps : List (Ex r)) (qs : List (Ex r)) : Bool :=
  pairingCheck r ((ps.map (·.v)).zip (qs.map (·.v)))

/-- the Go verdict of a model verdict: `nil` / `ErrVerifyOpeningProof` -/
def resOfBool (b : Bool) : Res := if b then Res.ok else Res.errVerify

theorem resOfBool_ok (b : Bool) : resOfBool b = Res.ok ↔ b = true := by
  cases b <;> simp [resOfBool, Res.errVerify]

section cast
variable (r : ℕ) [NeZero r]

omit [NeZero r] in
/-- two reduced values are equal iff their classes are -/
theorem eq_of_cast {x y : ℕ} (hx : x < r) (hy : y < r) (h : (x : ZMod r) = y) : x = y := by
  have := congrArg ZMod.val h
  rwa [ZMod.val_natCast, ZMod.val_natCast, Nat.mod_eq_of_lt hx, Nat.mod_eq_of_lt hy] at this

theorem mulm_lt (a b : ℕ) : mulm r a b < r := Nat.mod_lt _ (rpos r)
theorem subm_lt (a b : ℕ) : subm r a b < r := Nat.mod_lt _ (rpos r)
theorem negm_lt (a : ℕ) : negm r a < r := Nat.mod_lt _ (rpos r)

/-- a two-term pairing-product check, read in `ZMod r` -/
theorem pairingCheck2 (a b c d : ℕ) :
    pairingCheck r [(a, b), (c, d)] = decide ((a : ZMod r) * b + (c : ZMod r) * d = 0) := by
  unfold pairingCheck
  simp only [List.foldl_cons, List.foldl_nil]
  rw [Bool.eq_iff_iff, beq_iff_eq, decide_eq_true_iff, ← cast_eq_zero_of_lt r (addm_lt r _ _)]
  simp only [cast_addm, cast_mulm, Nat.cast_zero, zero_add]

theorem pairingCheck3 (a b c d e f : ℕ) :
    pairingCheck r [(a, b), (c, d), (e, f)] = decide ((a : ZMod r) * b + (c : ZMod r) * d + (e : ZMod r) * f = 0) := by
  unfold pairingCheck
  simp only [List.foldl_cons, List.foldl_nil]
  rw [Bool.eq_iff_iff, beq_iff_eq, decide_eq_true_iff, ← cast_eq_zero_of_lt r (addm_lt r _ _)]
  simp only [cast_addm, cast_mulm, Nat.cast_zero, zero_add]

theorem pairingCheck4 (a b c d e f g h : ℕ) :
    pairingCheck r [(a, b), (c, d), (e, f), (g, h)] =
      decide ((a : ZMod r) * b + (c : ZMod r) * d + (e : ZMod r) * f + (g : ZMod r) * h = 0) := by
  unfold pairingCheck
  simp only [List.foldl_cons, List.foldl_nil]
  rw [Bool.eq_iff_iff, beq_iff_eq, decide_eq_true_iff, ← cast_eq_zero_of_lt r (addm_lt r _ _)]
  simp only [cast_addm, cast_mulm, Nat.cast_zero, zero_add]

/-- `Verify` of the hand model, read in `ZMod r` (any verifying key) -/
theorem verify_decide (vk : VK) (c H v z : ℕ) :
    verify r vk c H v z =
      decide ((((v : ZMod r) * vk.g1 + (-(z : ZMod r)) * H) - c) * vk.g2.1 + (H : ZMod r) * vk.g2.2 = 0) := by
  unfold verify
  simp only [pairingCheck2, cast_addm, cast_mulm, cast_subm, cast_negm]

end cast

end GV.VerifierGen

namespace GV.VerifierGen
open GV.KZG GV.Gen.Verifier

/-- the Go result of a model verdict: `nil` / `ErrVerifyOpeningProof` / the structural errors -/
def resOfVerdict : Except Err Bool → Res
  | .ok b => resOfBool b
  | .error .nbDigests => Res.err "ErrInvalidNbDigests"
  | .error .zeroDigests => Res.err "ErrZeroNbDigests"
  | .error .polySize => Res.err "ErrInvalidPolynomialSize"
  | .error .srsSize => Res.err "ErrMinSRSSize"
  | .error .panic => Res.err "panic"

section congr
variable (r : ℕ) [NeZero r]

/-- `verify` depends on its arguments only through their classes mod r -/
theorem verify_congr (vk : VK) {c H v z c' H' v' z' : ℕ} (hc : (c : ZMod r) = c') (hH : (H : ZMod r) = H')
    (hv : (v : ZMod r) = v') (hz : (z : ZMod r) = z') : verify r vk c H v z = verify r vk c' H' v' z' := by
  rw [verify_decide, verify_decide, hc, hH, hv, hz]

theorem pairingCheck2_congr {a b c d a' b' c' d' : ℕ} (ha : (a : ZMod r) = a') (hb : (b : ZMod r) = b')
    (hc : (c : ZMod r) = c') (hd : (d : ZMod r) = d') :
    pairingCheck r [(a, b), (c, d)] = pairingCheck r [(a', b'), (c', d')] := by
  rw [pairingCheck2, pairingCheck2, ha, hb, hc, hd]

end congr

theorem ite_verdict_congr {a b : Bool} {e : Res} (h : a = b) :
    (if a = false then e else Res.ok) = (if b = true then Res.ok else e) := by
  subst h; cases a <;> rfl

/-- closes `x = y` for reduced `x y : ℕ` built from the `% r` arithmetic, by a ring identity in `ZMod r` -/
macro "ex_nat_eq" r:term : tactic => `(tactic|
  (apply eq_of_cast $r
    (by first | exact addm_lt $r _ _ | exact mulm_lt $r _ _ | exact subm_lt $r _ _ | exact negm_lt $r _ | exact Nat.mod_lt _ (rpos $r))
    (by first | exact addm_lt $r _ _ | exact mulm_lt $r _ _ | exact subm_lt $r _ _ | exact negm_lt $r _ | exact Nat.mod_lt _ (rpos $r))
   simp only [cast_addm, cast_mulm, cast_subm, cast_negm, cast_one_mod, cast_mod, Nat.cast_zero, Nat.cast_one]
   ring))

/-- closes `(x : ZMod r) = y` by unfolding the casts of the `% r` arithmetic and `ring` -/
macro "ex_cast_eq" : tactic => `(tactic|
  (try simp only [cast_addm, cast_mulm, cast_subm, cast_negm, cast_one_mod, cast_mod, Nat.cast_zero, Nat.cast_one]
   try ring))

end GV.VerifierGen
