import GnarkVerif.Model.Poseidon2
import Mathlib.Tactic.Ring
import Mathlib.Algebra.BigOperators.Group.Finset.Basic
import Mathlib.Algebra.BigOperators.Ring.Finset
import Mathlib.Algebra.Group.Prod
import Mathlib.Data.ZMod.Basic
/-
Helper lemmas for the Poseidon2 part of C14: the layers over a commutative ring, homomorphism transfer.
-/
namespace GV.Poseidon2

open Finset

/-- the dictionary of a commutative ring -/
def ringOps (R : Type) [CommRing R] : ROps R := { zero := 0, add := (· + ·), mul := (· * ·) }

section ring
variable {R : Type} [CommRing R]

@[simp] theorem ringOps_zero : (ringOps R).zero = 0 := rfl
@[simp] theorem ringOps_add (a b : R) : (ringOps R).add a b = a + b := rfl
@[simp] theorem ringOps_mul (a b : R) : (ringOps R).mul a b = a * b := rfl
@[simp] theorem dbl_ring (a : R) : dbl (ringOps R) a = 2 * a := by simp [dbl]; ring

theorem foldl_add_eq (xs : List R) (a : R) : xs.foldl (ringOps R).add a = a + xs.sum := by
  induction xs generalizing a with
  | nil => simp
  | cons x xs ih => simp [List.foldl_cons, ih, add_assoc]

theorem sum1_ring (xs : List R) : sum1 (ringOps R) xs = xs.sum := by
  cases xs with
  | nil => rfl
  | cons x xs => simp [sum1, foldl_add_eq]

theorem sum_range_getD {M : Type} [AddCommMonoid M] (ys : List M) :
    ∑ j ∈ range ys.length, ys.getD j 0 = ys.sum := by
  induction ys with
  | nil => simp
  | cons y ys ih =>
    rw [List.length_cons, Finset.sum_range_succ']
    simp only [List.getD_cons_succ, List.getD_cons_zero, List.sum_cons]
    rw [ih, add_comm]

/-! ### external layer, width 4k -/

abbrev Chunk (R : Type) := R × R × R × R

def flat : List (Chunk R) → List R
  | [] => []
  | c :: cs => c.1 :: c.2.1 :: c.2.2.1 :: c.2.2.2 :: flat cs

/-- the 4×4 matrix M4 applied to one chunk:
plonky3 variant `[[2,3,1,1],[1,2,3,1],[1,1,2,3],[3,1,1,2]]`, paper variant `[[5,7,1,3],[4,6,1,1],[1,3,5,7],[1,1,4,6]]` -/
def M4mul (k : M4Kind) (c : Chunk R) : Chunk R :=
  match k, c with
  | .plonky, (a, b, c, d) => (2*a + 3*b + c + d, a + 2*b + 3*c + d, a + b + 2*c + 3*d, 3*a + b + c + 2*d)
  | .paper, (a, b, c, d) => (5*a + 7*b + c + 3*d, 4*a + 6*b + c + d, a + 3*b + 5*c + 7*d, a + b + 4*c + 6*d)

theorem m4_ring (k : M4Kind) (a b c d : R) : m4 (ringOps R) k a b c d = M4mul k (a, b, c, d) := by
  cases k <;> simp only [m4, M4mul, ringOps_add, dbl_ring] <;> refine Prod.ext ?_ (Prod.ext ?_ (Prod.ext ?_ ?_)) <;>
    simp only <;> ring

theorem m4All_flat (k : M4Kind) (cs : List (Chunk R)) :
    m4All (ringOps R) k (flat cs) = flat (cs.map (M4mul k)) := by
  induction cs with
  | nil => simp [flat, m4All]
  | cons c cs ih =>
    obtain ⟨a, b, c', d⟩ := c
    simp only [flat, m4All, List.map_cons, ih, m4_ring]

theorem colSums_flat (acc : Chunk R) (ys : List (Chunk R)) :
    colSums (ringOps R) acc (flat ys) = acc + ys.sum := by
  induction ys generalizing acc with
  | nil => simp [flat, colSums]
  | cons y ys ih =>
    obtain ⟨a, b, c, d⟩ := y
    obtain ⟨s0, s1, s2, s3⟩ := acc
    simp only [flat, colSums, ringOps_add, ih, List.sum_cons]
    show _ = ((s0, s1, s2, s3) : Chunk R) + (((a, b, c, d) : Chunk R) + ys.sum)
    rw [← add_assoc]; rfl

theorem addCols_flat (s : Chunk R) (ys : List (Chunk R)) :
    addCols (ringOps R) s (flat ys) = flat (ys.map (· + s)) := by
  induction ys with
  | nil => simp [flat, addCols]
  | cons y ys ih =>
    obtain ⟨a, b, c, d⟩ := y
    obtain ⟨s0, s1, s2, s3⟩ := s
    simp only [flat, addCols, ringOps_add, ih, List.map_cons, Prod.mk_add_mk]

/-- block-circulant matrix circ(2·M4, M4, …, M4) applied to a block vector: block row `i` is
`Σⱼ Eᵢⱼ · xⱼ` with `Eᵢⱼ = 2·M4` if `i = j` and `M4` otherwise -/
def extSpec (k : M4Kind) (cs : List (Chunk R)) : List (Chunk R) :=
  (List.range cs.length).map fun i =>
    ∑ j ∈ range cs.length, (if i = j then 2 else 1 : ℕ) • M4mul k (cs.getD j 0)

theorem circ_row {M : Type} [AddCommMonoid M] (ys : List M) (i : ℕ) (hi : i < ys.length) :
    ∑ j ∈ range ys.length, (if i = j then 2 else 1 : ℕ) • ys.getD j 0 = ys.getD i 0 + ys.sum := by
  have h : ∀ j, (if i = j then 2 else 1 : ℕ) • ys.getD j 0 = (if i = j then ys.getD j 0 else 0) + ys.getD j 0 := by
    intro j; split <;> simp [two_nsmul]
  simp only [h, Finset.sum_add_distrib, sum_range_getD]
  rw [Finset.sum_ite_eq (range ys.length) i (fun j => ys.getD j 0)]
  simp [hi]

theorem getD_map_zero {M N : Type} [Zero M] [Zero N] (f : M → N) (cs : List M) (j : ℕ) :
    (cs.map f).getD j 0 = if j < cs.length then f (cs.getD j 0) else 0 := by
  simp only [List.getD_eq_getElem?_getD, List.getElem?_map]
  by_cases hj : j < cs.length
  · simp [hj]
  · simp [hj]

theorem getD_of_lt {M : Type} [Zero M] (cs : List M) (j : ℕ) (hj : j < cs.length) : cs.getD j 0 = cs[j] := by
  simp [List.getD_eq_getElem?_getD, List.getElem?_eq_getElem hj]

theorem ext4_flat (k : M4Kind) (cs : List (Chunk R)) :
    ext4 (ringOps R) k (flat cs) = flat (extSpec k cs) := by
  have hz : (((0 : R), (0 : R), (0 : R), (0 : R)) : Chunk R) = 0 := rfl
  simp only [ext4, m4All_flat, colSums_flat, addCols_flat, ringOps_zero, hz, zero_add]
  congr 1
  unfold extSpec
  apply List.ext_getElem
  · simp
  · intro i h1 h2
    simp only [List.length_map] at h1
    simp only [List.getElem_map, List.getElem_range]
    have hlen : (cs.map (M4mul k)).length = cs.length := by simp
    have := circ_row (cs.map (M4mul k)) i (by simpa using h1)
    rw [hlen] at this
    have hsum : ∑ j ∈ range cs.length, (if i = j then 2 else 1 : ℕ) • M4mul k (cs.getD j 0) =
        ∑ j ∈ range cs.length, (if i = j then 2 else 1 : ℕ) • (cs.map (M4mul k)).getD j 0 := by
      apply Finset.sum_congr rfl
      intro j hj
      rw [getD_map_zero, if_pos (Finset.mem_range.mp hj)]
    rw [hsum, this, getD_map_zero, if_pos h1, getD_of_lt cs i h1]

/-! ### internal layer, general width: the matrix `J + diag(μ)` -/

theorem intDiag_matrix (μ xs : List R) (h : μ.length = xs.length) :
    intDiag (ringOps R) μ xs =
      (List.range xs.length).map fun i =>
        ∑ j ∈ range xs.length, (1 + if i = j then μ.getD i 0 else 0) * xs.getD j 0 := by
  unfold intDiag
  apply List.ext_getElem
  · simp [h]
  · intro i h1 h2
    have hi : i < xs.length := by simpa [h] using h1
    simp only [List.getElem_zipWith, List.getElem_map, List.getElem_range, ringOps_add, ringOps_mul, sum1_ring]
    have hrow : ∀ j, (1 + if i = j then μ.getD i 0 else 0) * xs.getD j 0 =
        xs.getD j 0 + (if i = j then μ.getD i 0 * xs.getD j 0 else 0) := by
      intro j; split <;> ring
    simp only [hrow, Finset.sum_add_distrib, sum_range_getD]
    rw [Finset.sum_ite_eq (range xs.length) i (fun j => μ.getD i 0 * xs.getD j 0)]
    rw [if_pos (Finset.mem_range.mpr hi), getD_of_lt xs i hi, getD_of_lt μ i (h ▸ hi)]

/-! ### S-box -/

theorem sbox_ring (k : SBox) (x : R) : sbox (ringOps R) k x = x ^ k.deg := by
  cases k <;> simp only [sbox, SBox.deg, ringOps_mul] <;> ring

end ring

end GV.Poseidon2

/-! ### Merkle–Damgård wrapper -/
namespace GV.Poseidon2

theorem chunks_nil (bs : Nat) : chunks bs [] = [] := by
  rw [chunks]; simp

theorem chunks_block (bs : Nat) (blk rest : Bytes) (hbs : 0 < bs) (hl : blk.length = bs) :
    chunks bs (blk ++ rest) = blk :: chunks bs rest := by
  rw [chunks]
  have hne : blk ++ rest ≠ [] := by
    intro h; have := congrArg List.length h; rw [List.length_append, List.length_nil] at this; omega
  have h0 : ¬ bs = 0 := by omega
  have hlt : ¬ (blk ++ rest).length < bs := by rw [List.length_append]; omega
  simp only [hne, h0, hlt, ↓reduceDIte, ↓reduceIte]
  rw [← hl, List.take_left', List.drop_left'] <;> rfl

theorem chunks_append (bs : Nat) (a b : Bytes) (hbs : 0 < bs) (ha : bs ∣ a.length) :
    chunks bs (a ++ b) = chunks bs a ++ chunks bs b := by
  induction hn : a.length using Nat.strong_induction_on generalizing a with
  | _ n ih =>
    by_cases hnil : a = []
    · subst hnil; simp [chunks_nil]
    · have hpos : 0 < a.length := List.length_pos_of_ne_nil hnil
      have hle : bs ≤ a.length := Nat.le_of_dvd hpos ha
      have hsplit : a = a.take bs ++ a.drop bs := (List.take_append_drop _ _).symm
      have hl : (a.take bs).length = bs := by simp [List.length_take]; omega
      have hd : bs ∣ (a.drop bs).length := by
        rw [List.length_drop]; obtain ⟨c, hc⟩ := ha; exact ⟨c - 1, by rw [hc, Nat.mul_sub_one]⟩
      have hlt : (a.drop bs).length < n := by rw [List.length_drop]; omega
      have ih' := ih _ hlt (a.drop bs) hd rfl
      conv_lhs => rw [hsplit, List.append_assoc, chunks_block bs _ _ hbs hl, ih']
      conv_rhs => rw [hsplit, chunks_block bs _ _ hbs hl]
      simp

theorem absorb_append (M : MD) (s : Bytes) (xs ys : List Bytes) :
    absorb M s (xs ++ ys) = (absorb M s xs).bind (fun s' => absorb M s' ys) := by
  induction xs generalizing s with
  | nil => simp [absorb]
  | cons x xs ih =>
    simp only [List.cons_append, absorb]
    cases M.f s x with
    | none => simp
    | some s' => simp [ih]

end GV.Poseidon2
