import GnarkVerif.Model.Merkle
import Mathlib.Tactic.Ring
import Mathlib.Tactic.Linarith
/-
Helper lemmas for C16, part B (Vortex tree).
-/
namespace GV.Merkle

section Vortex
variable {D : Type} (hn : D → D → D) (zero : D)

/-- root of the bottom-up level list -/
def rootUp (d : Nat) (P : List D) : D := ((levelsUp hn d P).getLast?.getD []).headD zero

theorem levelsUp_ne_nil (d : Nat) (P : List D) : levelsUp hn d P ≠ [] := by
  cases d <;> simp [levelsUp]

theorem levelsUp_cons (d : Nat) (P : List D) : ∃ tl, levelsUp hn d P = P :: tl := by
  cases d <;> simp [levelsUp]

theorem rootUp_zero (P : List D) : rootUp hn zero 0 P = P.headD zero := by
  simp [rootUp, levelsUp]

theorem rootUp_succ (d : Nat) (P : List D) : rootUp hn zero (d+1) P = rootUp hn zero d (parents hn P) := by
  unfold rootUp
  obtain ⟨tl, h⟩ := levelsUp_cons hn d (parents hn P)
  simp [levelsUp, h, List.getLast?_cons_cons]

theorem parents_length : ∀ (P : List D), (parents hn P).length = P.length / 2
  | [] => by simp [parents]
  | [_] => by simp [parents]
  | a :: b :: t => by
    simp only [parents, List.length_cons, parents_length t]
    omega

theorem parents_getD : ∀ (P : List D) (j : Nat), 2*j+1 < P.length →
    (parents hn P).getD j zero = hn (P.getD (2*j) zero) (P.getD (2*j+1) zero)
  | [], j, h => by simp at h
  | [_], j, h => by simp at h
  | a :: b :: t, 0, _ => by simp [parents]
  | a :: b :: t, j+1, h => by
    have h' : 2*j+1 < t.length := by simp at h; omega
    have := parents_getD t j h'
    simp only [parents, List.getD_cons_succ, this]
    have e1 : 2*(j+1) = (2*j+1)+1 := by ring
    have e2 : 2*(j+1)+1 = ((2*j+1)+1)+1 := by ring
    rw [e1]
    simp only [List.getD_cons_succ]

theorem openAux_succ (d : Nat) (P : List D) (i : Nat) :
    openAux zero (levelsUp hn (d+1) P) i = P.getD (nbr i) zero :: openAux zero (levelsUp hn d (parents hn P)) (i/2) := by
  obtain ⟨tl, h⟩ := levelsUp_cons hn d (parents hn P)
  simp [levelsUp, h, openAux]

theorem openAux_zero (P : List D) (i : Nat) : openAux zero (levelsUp hn 0 P) i = [] := by
  simp [levelsUp, openAux]

/-- the pair (leaf, sibling) at position `i` hashes to the parent at `i/2` -/
theorem step_eq_parent (P : List D) (i : Nat) (hi : i < P.length) (heven : P.length % 2 = 0) :
    (if i % 2 = 1 then hn (P.getD (nbr i) zero) (P.getD i zero) else hn (P.getD i zero) (P.getD (nbr i) zero))
      = (parents hn P).getD (i/2) zero := by
  have hj : 2*(i/2)+1 < P.length := by omega
  rw [parents_getD hn zero P (i/2) hj]
  by_cases h : i % 2 = 1
  · have e1 : nbr i = 2*(i/2) := by unfold nbr; rw [if_neg (by omega)]; omega
    have e2 : i = 2*(i/2)+1 := by omega
    rw [if_pos h, e1]; congr 2
  · have e1 : nbr i = 2*(i/2)+1 := by unfold nbr; rw [if_pos (by omega)]; omega
    have e2 : i = 2*(i/2) := by omega
    rw [if_neg h, e1]; congr 2

theorem vfold_open (d : Nat) : ∀ (P : List D) (i : Nat), P.length = 2^d → i < 2^d →
    vfold hn i (P.getD i zero) (openAux zero (levelsUp hn d P) i) = rootUp hn zero d P := by
  induction d with
  | zero =>
    intro P i hP hi
    have : i = 0 := by simpa using hi
    subst this
    rw [openAux_zero, rootUp_zero]
    cases P <;> simp [vfold]
  | succ d ih =>
    intro P i hP hi
    rw [openAux_succ, rootUp_succ]
    simp only [vfold]
    have hlen : (parents hn P).length = 2^d := by rw [parents_length, hP, pow_succ]; omega
    have heven : P.length % 2 = 0 := by rw [hP, pow_succ]; omega
    rw [step_eq_parent hn zero P i (by omega) heven]
    exact ih (parents hn P) (i/2) hlen (by rw [pow_succ] at hi; omega)

/-- soundness for a proof of exactly the right length, under injectivity of the compression function -/
theorem vfold_sound (hinj : ∀ a b c e, hn a b = hn c e → a = c ∧ b = e) (d : Nat) :
    ∀ (P : List D) (i : Nat) (leaf : D) (pf : List D), P.length = 2^d → i < 2^d → pf.length = d →
    vfold hn i leaf pf = rootUp hn zero d P →
    leaf = P.getD i zero ∧ pf = openAux zero (levelsUp hn d P) i := by
  induction d with
  | zero =>
    intro P i leaf pf hP hi hpf h
    have : i = 0 := by simpa using hi
    subst this
    have : pf = [] := List.length_eq_zero_iff.mp hpf
    subst this
    rw [openAux_zero, rootUp_zero] at *
    simp only [vfold] at h
    cases P <;> simp_all
  | succ d ih =>
    intro P i leaf pf hP hi hpf h
    match pf, hpf with
    | s :: pf', hpf =>
      rw [openAux_succ]
      rw [rootUp_succ] at h
      simp only [vfold] at h
      have hlen : (parents hn P).length = 2^d := by rw [parents_length, hP, pow_succ]; omega
      have heven : P.length % 2 = 0 := by rw [hP, pow_succ]; omega
      obtain ⟨h1, h2⟩ := ih (parents hn P) (i/2) _ pf' hlen (by rw [pow_succ] at hi; omega) (by simpa using hpf) h
      rw [← step_eq_parent hn zero P i (by omega) heven] at h1
      by_cases hb : i % 2 = 1
      · rw [if_pos hb, if_pos hb] at h1
        obtain ⟨e1, e2⟩ := hinj _ _ _ _ h1
        exact ⟨e2, by rw [e1, h2]⟩
      · rw [if_neg hb, if_neg hb] at h1
        obtain ⟨e1, e2⟩ := hinj _ _ _ _ h1
        exact ⟨e1, by rw [e2, h2]⟩

/-- the Go verifier only looks at the `|proof|` low bits of the index -/
theorem vfold_mod : ∀ (pf : List D) (i : Nat) (cur : D), vfold hn (i % 2^pf.length) cur pf = vfold hn i cur pf
  | [], i, cur => by simp [vfold]
  | s :: t, i, cur => by
    simp only [vfold, List.length_cons]
    have e1 : i % 2^(t.length+1) % 2 = i % 2 := by
      rw [pow_succ]; exact Nat.mod_mul_left_mod i (2^t.length) 2
    have e2 : i % 2^(t.length+1) / 2 = (i/2) % 2^t.length := by
      rw [pow_succ, Nat.mul_comm, Nat.mod_mul_right_div_self]
    simp only [e1, e2]
    exact vfold_mod t (i/2) _

theorem openAux_length : ∀ (d : Nat) (P : List D) (i : Nat), (openAux zero (levelsUp hn d P) i).length = d
  | 0, P, i => by rw [openAux_zero]; rfl
  | d+1, P, i => by rw [openAux_succ, List.length_cons, openAux_length d]

theorem vroot_eq (leaves : List D) :
    vroot hn zero leaves = rootUp hn zero (log2Ceil leaves.length) (padded zero leaves) := rfl

theorem log2Floor_spec : ∀ (f a : Nat), 0 < a → a ≤ f → 2^(log2Floor f a) ≤ a ∧ a < 2^(log2Floor f a + 1)
  | 0, a, h0, h => by omega
  | f+1, a, h0, h => by
    unfold log2Floor
    by_cases h1 : a > 1
    · rw [if_pos h1]
      have := log2Floor_spec f (a/2) (by omega) (by omega)
      rw [pow_succ, pow_succ] at *
      constructor <;> omega
    · rw [if_neg h1]
      have : a = 1 := by omega
      subst this; simp

theorem le_pow_log2Ceil (a : Nat) (h0 : 0 < a) : a ≤ 2^(log2Ceil a) := by
  unfold log2Ceil
  have := log2Floor_spec a a h0 (le_refl a)
  by_cases h : a ≠ 2^(log2Floor a a)
  · rw [if_pos h]; omega
  · rw [if_neg h]; omega

theorem padded_length (leaves : List D) (h0 : leaves ≠ []) : (padded zero leaves).length = 2^(log2Ceil leaves.length) := by
  have := le_pow_log2Ceil leaves.length (List.length_pos_iff.mpr h0)
  simp [padded]; omega

theorem padded_getD (leaves : List D) (i : Nat) (hi : i < leaves.length) :
    (padded zero leaves).getD i zero = leaves.getD i zero := by
  simp [padded, List.getD_eq_getElem?_getD, List.getElem?_append_left hi]

end Vortex
end GV.Merkle
