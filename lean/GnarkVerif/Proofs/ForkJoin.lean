import GnarkVerif.Model.ForkJoin
import Mathlib.Data.List.Nodup
import Mathlib.Data.List.Range
/-
Helper lemmas for C18 (property theorems are in Props/C18.lean).
-/
namespace GV.ForkJoin

/-! ### commutation of independent steps -/

/-- two atomic steps neither of which writes a cell the other reads or writes -/
def StepIndep (a b : Step) : Prop := a.write ≠ b.write ∧ a.write ∉ b.reads ∧ b.write ∉ a.reads

theorem map_run_of_not_mem (s : Step) (σ : State) (l : List Nat) (h : s.write ∉ l) :
    l.map (s.run σ) = l.map σ := by
  apply List.map_congr_left
  intro c hc
  have : c ≠ s.write := fun e => h (e ▸ hc)
  simp [Step.run, this]

theorem step_comm (a b : Step) (h : StepIndep a b) (σ : State) : b.run (a.run σ) = a.run (b.run σ) := by
  obtain ⟨hw, hab, hba⟩ := h
  funext c
  show (if c = b.write then b.f (b.reads.map (a.run σ)) else a.run σ c)
     = (if c = a.write then a.f (a.reads.map (b.run σ)) else b.run σ c)
  rw [map_run_of_not_mem a σ _ hab, map_run_of_not_mem b σ _ hba]
  by_cases h1 : c = b.write
  · have h2 : c ≠ a.write := fun e => hw (e.symm.trans h1)
    simp [h1, Step.run]
    intro e; exact absurd e.symm hw
  · by_cases h2 : c = a.write
    · simp [h2, Step.run, hw]
    · simp [h1, h2, Step.run]

theorem runSteps_append (l₁ l₂ : List Step) (σ : State) :
    runSteps (l₁ ++ l₂) σ = runSteps l₂ (runSteps l₁ σ) := by
  induction l₁ generalizing σ with
  | nil => rfl
  | cons s l ih => simp [runSteps, ih]

/-- a step commutes to the right of a block of steps all independent from it -/
theorem runSteps_comm (s : Step) (l : List Step) (h : ∀ b ∈ l, StepIndep s b) (σ : State) :
    runSteps l (s.run σ) = s.run (runSteps l σ) := by
  induction l generalizing σ with
  | nil => rfl
  | cons b l ih =>
    simp only [runSteps]
    rw [step_comm s b (h b (by simp)), ih (fun b' hb' => h b' (by simp [hb']))]

theorem TaskIndep.tail_left {s : Step} {t u : Task} (h : TaskIndep (s :: t) u) : TaskIndep t u := by
  obtain ⟨h1, h2⟩ := h
  refine ⟨fun c hc => h1 c (by simp [writes] at hc ⊢; exact Or.inr hc), fun c hc => ?_⟩
  have := h2 c hc
  simp [readsOf] at this ⊢
  exact this.2

theorem TaskIndep.tail_right {s : Step} {t u : Task} (h : TaskIndep u (s :: t)) : TaskIndep u t := by
  obtain ⟨h1, h2⟩ := h
  refine ⟨fun c hc => ?_, fun c hc => h2 c (by simp [writes] at hc ⊢; exact Or.inr hc)⟩
  have := h1 c hc
  simp [writes, readsOf] at this ⊢
  exact ⟨this.1.2, this.2.2⟩

theorem TaskIndep.stepIndep {s : Step} {t p : Task} (h : TaskIndep p (s :: t)) (b : Step) (hb : b ∈ p) :
    StepIndep s b := by
  obtain ⟨h1, h2⟩ := h
  have hbw : b.write ∈ writes p := by simp only [writes, List.mem_map]; exact ⟨b, hb, rfl⟩
  have k1 := h1 b.write hbw
  have k2 := h2 s.write (by simp [writes])
  simp only [writes, readsOf, List.map_cons, List.mem_cons, List.flatMap_cons, List.mem_append,
    not_or, List.mem_flatMap, not_exists, not_and] at k1 k2
  exact ⟨fun e => k1.1.1 e.symm, fun hm => k2 b hb hm, k1.2.1⟩

theorem Independent.drop_step {pre post : List Task} {s : Step} {t : Task}
    (h : Independent (pre ++ (s :: t) :: post)) : Independent (pre ++ t :: post) := by
  unfold Independent at *
  rw [List.pairwise_append, List.pairwise_cons] at *
  obtain ⟨hp, ⟨hst, hpost⟩, hx⟩ := h
  refine ⟨hp, ⟨fun u hu => (hst u hu).tail_left, hpost⟩, fun a ha b hb => ?_⟩
  rcases List.mem_cons.1 hb with rfl | hb
  · exact (hx a ha (s :: b) (List.mem_cons_self ..)).tail_right
  · exact hx a ha b (List.mem_cons_of_mem _ hb)

/-! ### the ranges of parallel.Execute -/

theorem rangeIdx_mk (a b : Nat) : rangeIdx (a, b) = List.range' a (b - a) := rfl

theorem executeLoop_flat (per : Nat) : ∀ k i extra off,
    (executeLoop per k i extra off).flatMap rangeIdx = List.range' (i * per + off) (k * per + min extra k) := by
  intro k
  induction k with
  | zero => intro i extra off; simp [executeLoop]
  | succ k ih =>
    intro i extra off
    unfold executeLoop
    by_cases he : extra > 0
    · simp only [he, if_true, List.flatMap_cons, rangeIdx_mk, ih]
      have e1 : i * per + off + per + 1 - (i * per + off) = per + 1 := by omega
      have e2 : (i + 1) * per + (off + 1) = i * per + off + (per + 1) := by rw [Nat.add_mul]; omega
      have e3 : (k + 1) * per + min extra (k + 1) = (per + 1) + (k * per + min (extra - 1) k) := by
        rw [Nat.add_mul]; omega
      rw [e1, e2, e3, List.range'_append_1]
    · simp only [he, if_false, List.flatMap_cons, rangeIdx_mk, ih]
      have e1 : i * per + off + per - (i * per + off) = per := by omega
      have e2 : (i + 1) * per + off = i * per + off + per := by rw [Nat.add_mul]; omega
      have e3 : (k + 1) * per + min extra (k + 1) = per + (k * per + min extra k) := by
        rw [Nat.add_mul]; omega
      rw [e1, e2, e3, List.range'_append_1]

/-- every range produced by the loop is non-degenerate-or-empty: start ≤ end, and consecutive -/
theorem executeLoop_sorted (per : Nat) : ∀ k i extra off,
    ∀ r ∈ executeLoop per k i extra off, r.1 ≤ r.2 := by
  intro k
  induction k with
  | zero => intro i extra off r hr; simp [executeLoop] at hr
  | succ k ih =>
    intro i extra off r hr
    unfold executeLoop at hr
    by_cases he : extra > 0
    · simp only [he, if_true, List.mem_cons] at hr
      rcases hr with rfl | hr
      · simp; omega
      · exact ih _ _ _ r hr
    · simp only [he, if_false, List.mem_cons] at hr
      rcases hr with rfl | hr
      · simp
      · exact ih _ _ _ r hr

theorem executeLoop_length (per : Nat) : ∀ k i extra off, (executeLoop per k i extra off).length = k := by
  intro k
  induction k with
  | zero => intros; rfl
  | succ k ih => intro i extra off; unfold executeLoop; split <;> simp [ih]

theorem executeRangesClamped_tiles (n nb : Nat) (hnb : 1 ≤ nb) : Tiles (executeRangesClamped n nb) n := by
  unfold Tiles executeRangesClamped
  by_cases h1 : nb = 1
  · simp [h1, rangeIdx_mk, List.range_eq_range']
  · simp only [h1, if_false]
    rw [executeLoop_flat, List.range_eq_range']
    by_cases hp : n / nb < 1
    · simp [hp]
    · simp only [hp, if_false]
      have hd := Nat.div_add_mod n nb
      have hm := Nat.mod_lt n (show nb > 0 by omega)
      have e : n - nb * (n / nb) = n % nb := by omega
      rw [e, Nat.min_eq_left (Nat.le_of_lt hm)]
      simp [hd]

theorem clampTasks_pos (nb : Nat) : 1 ≤ clampTasks nb ∧ clampTasks nb ≤ 512 := by
  unfold clampTasks; split <;> [skip; split] <;> omega

/-! ### consequences of a tiling -/

theorem Tiles.cover {ranges : List (Nat × Nat)} {n : Nat} (h : Tiles ranges n) (j : Nat) (hj : j < n) :
    ∃ r ∈ ranges, r.1 ≤ j ∧ j < r.2 := by
  have : j ∈ ranges.flatMap rangeIdx := by rw [h]; simpa using hj
  obtain ⟨r, hr, hjr⟩ := List.mem_flatMap.1 this
  refine ⟨r, hr, ?_⟩
  simp only [rangeIdx, List.mem_range'_1] at hjr
  omega

theorem Tiles.bound {ranges : List (Nat × Nat)} {n : Nat} (h : Tiles ranges n) (r : Nat × Nat) (hr : r ∈ ranges)
    (j : Nat) (hj : j ∈ rangeIdx r) : j < n := by
  have : j ∈ ranges.flatMap rangeIdx := List.mem_flatMap.2 ⟨r, hr, hj⟩
  rw [h] at this
  simpa using this

theorem Tiles.disjoint {ranges : List (Nat × Nat)} {n : Nat} (h : Tiles ranges n) :
    ranges.Pairwise (fun r r' => List.Disjoint (rangeIdx r) (rangeIdx r')) := by
  have : (ranges.flatMap rangeIdx).Nodup := by rw [h]; exact List.nodup_range
  exact (List.nodup_flatMap.1 this).2

theorem mem_rangeIdx {r : Nat × Nat} {j : Nat} : j ∈ rangeIdx r ↔ r.1 ≤ j ∧ j < r.2 := by
  simp only [rangeIdx, List.mem_range'_1]; omega

/-! ### data-parallel kernels -/

theorem Kernel.flatten_tasks (K : Kernel) (ranges : List (Nat × Nat)) :
    (ranges.map K.task).flatten = (ranges.flatMap rangeIdx).map K.step := by
  induction ranges with
  | nil => rfl
  | cons r l ih => simp [Kernel.task, ih]

theorem Kernel.writes_task (K : Kernel) (r : Nat × Nat) : writes (K.task r) = (rangeIdx r).map K.out := by
  simp [writes, Kernel.task, Kernel.step]

theorem Kernel.mem_readsOf_task (K : Kernel) (r : Nat × Nat) (c : Nat) :
    c ∈ readsOf (K.task r) ↔ ∃ j ∈ rangeIdx r, c ∈ K.ins j := by
  simp [readsOf, Kernel.task, Kernel.step, List.mem_flatMap]

/-- a cell that no listed iteration writes keeps its value -/
theorem Kernel.run_frame (K : Kernel) (L : List Nat) (σ : State) (c : Nat) (hc : c ∉ L.map K.out) :
    runSteps (L.map K.step) σ c = σ c := by
  induction L generalizing σ with
  | nil => rfl
  | cons i L ih =>
    simp only [List.map_cons, List.mem_cons, not_or] at hc
    simp only [List.map_cons, runSteps]
    rw [ih _ hc.2]
    simp [Step.run, Kernel.step, hc.1]

/-- the cell written by iteration `j` ends with `f j (inputs as they were before the whole loop)` -/
theorem Kernel.run_value (K : Kernel) (L : List Nat) (hnd : L.Nodup)
    (hinj : ∀ i ∈ L, ∀ j ∈ L, K.out i = K.out j → i = j)
    (hro : ∀ i ∈ L, ∀ j ∈ L, K.out i ∉ K.ins j) (σ : State) (j : Nat) (hj : j ∈ L) :
    runSteps (L.map K.step) σ (K.out j) = K.f j ((K.ins j).map σ) := by
  induction L generalizing σ with
  | nil => simp at hj
  | cons i L ih =>
    simp only [List.map_cons, runSteps]
    have hnd' := List.nodup_cons.1 hnd
    rcases List.mem_cons.1 hj with rfl | hjL
    · rw [Kernel.run_frame]
      · simp [Step.run, Kernel.step]
      · intro hm
        obtain ⟨i', hi', he⟩ := List.mem_map.1 hm
        have := hinj i' (by simp [hi']) j (by simp) he
        exact hnd'.1 (this ▸ hi')
    · rw [ih hnd'.2 (fun a ha b hb => hinj a (by simp [ha]) b (by simp [hb]))
        (fun a ha b hb => hro a (by simp [ha]) b (by simp [hb])) _ hjL]
      congr 1
      exact map_run_of_not_mem (K.step i) σ _ (hro i (by simp) j hj)

/-! ### sync.Once, small-step -/

/-- critical section of `doSlow` -/
def PC.inCS {α} : PC α → Bool
  | .locked | .running | .setDone | .unlock => true
  | _ => false

/-- invariant of the `sync.Once` machine -/
structure OnceInv {α} (init : Nat → α) (s : OnceSt α) : Prop where
  cs : ∀ t, (s.pc t).inCS = true → s.mutex = some t
  running : ∀ t, s.pc t = .running → s.done = false ∧ s.nwrites = 0 ∧ s.table = none
  setDone : ∀ t, s.pc t = .setDone → s.done = false ∧ s.nwrites = 1 ∧ s.table = some (init t)
  fresh : s.done = false → (∀ t, s.pc t ≠ .setDone) → s.nwrites = 0 ∧ s.table = none
  isDone : s.done = true → s.nwrites = 1 ∧ ∃ t₀, s.table = some (init t₀)
  unlockDone : ∀ t, s.pc t = .unlock → s.done = true
  ret : ∀ t, s.pc t = .ret → s.done = true
  fin : ∀ t v, s.pc t = .finished v → s.done = true ∧ v = s.table

theorem setPc_pc_self {α} (s : OnceSt α) (t : Nat) (p : PC α) : (s.setPc t p).pc t = p := by
  simp [OnceSt.setPc]

theorem setPc_pc_other {α} (s : OnceSt α) (t u : Nat) (p : PC α) (h : u ≠ t) : (s.setPc t p).pc u = s.pc u := by
  simp [OnceSt.setPc, h]

theorem onceInv_init {α} (init : Nat → α) : OnceInv init (onceInit α) := by
  constructor <;> simp [onceInit, PC.inCS]

/-- two threads inside the critical section are the same thread -/
theorem OnceInv.cs_unique {α} {init : Nat → α} {s : OnceSt α} (h : OnceInv init s) (t u : Nat)
    (ht : (s.pc t).inCS = true) (hu : (s.pc u).inCS = true) : u = t := by
  have a := h.cs t ht
  have b := h.cs u hu
  rw [a] at b
  exact (Option.some.inj b).symm

macro "once_split" u:ident t:ident : tactic =>
  `(tactic| (by_cases hut : $u = $t <;> [subst hut; skip]))

macro "once_facts" h:ident u:term : tactic =>
  `(tactic| (have := ($h).cs $u; have := ($h).running $u; have := ($h).setDone $u
             have := ($h).unlockDone $u; have := ($h).ret $u; have := ($h).fin $u))

/-- per-thread obligation: instantiate the invariant at the stepping thread and at the thread in question -/
macro "once_thread" h:ident u:ident t:ident : tactic =>
  `(tactic| (once_facts $h $u; once_facts $h $t; have := ($h).isDone
             once_split $u $t <;> simp_all [OnceSt.setPc, PC.inCS]))

/-- if no thread is at `setDone` after `t` moved (not from `setDone`), none was before -/
theorem no_setDone_before {α} (s s' : OnceSt α) (t : Nat) (p : PC α) (hs : s'.pc = (s.setPc t p).pc)
    (ht : s.pc t ≠ .setDone) (hall : ∀ u, s'.pc u ≠ .setDone) : ∀ u, s.pc u ≠ .setDone := by
  intro u
  by_cases hut : u = t
  · subst hut; exact ht
  · have := hall u; rw [hs, setPc_pc_other _ _ _ _ hut] at this; exact this

theorem OnceInv.others_outside {α} {init : Nat → α} {s : OnceSt α} (h : OnceInv init s) (t u : Nat)
    (ht : (s.pc t).inCS = true) (hut : u ≠ t) : (s.pc u).inCS = false := by
  by_contra hc
  exact hut (h.cs_unique t u ht (by simpa using hc))

section
variable {α : Type} (init : Nat → α) (s : OnceSt α) (t : Nat) (h : OnceInv init s)
include h

theorem onceInv_start_done (hpc : s.pc t = .start) (hd : s.done = true) : OnceInv init (s.setPc t .ret) := by
  constructor
  · intro u hu; once_thread h u t
  · intro u hu; once_thread h u t
  · intro u hu; once_thread h u t
  · intro hd'; simp_all [OnceSt.setPc]
  · intro _; exact h.isDone hd
  · intro u hu; exact hd
  · intro u hu; exact hd
  · intro u v hu; once_thread h u t

theorem onceInv_start_slow (hpc : s.pc t = .start) : OnceInv init (s.setPc t .wantLock) := by
  constructor
  · intro u hu; once_thread h u t
  · intro u hu; once_thread h u t
  · intro u hu; once_thread h u t
  · intro hd' hall
    exact h.fresh hd' (no_setDone_before s _ t _ rfl (by simp [hpc]) hall)
  · intro hd'; exact h.isDone hd'
  · intro u hu; once_thread h u t
  · intro u hu; once_thread h u t
  · intro u v hu; once_thread h u t

theorem onceInv_lock (hpc : s.pc t = .wantLock) (hm : s.mutex = none) :
    OnceInv init ({ s with mutex := some t }.setPc t .locked) := by
  constructor
  · intro u hu; once_thread h u t
  · intro u hu; once_thread h u t
  · intro u hu; once_thread h u t
  · intro hd' hall
    exact h.fresh hd' (no_setDone_before s _ t _ rfl (by simp [hpc]) hall)
  · intro hd'; exact h.isDone hd'
  · intro u hu; once_thread h u t
  · intro u hu; once_thread h u t
  · intro u v hu; once_thread h u t

theorem onceInv_locked_done (hpc : s.pc t = .locked) (hd : s.done = true) : OnceInv init (s.setPc t .unlock) := by
  constructor
  · intro u hu; once_thread h u t
  · intro u hu; once_thread h u t
  · intro u hu; once_thread h u t
  · intro hd'; simp_all [OnceSt.setPc]
  · intro _; exact h.isDone hd
  · intro u hu; exact hd
  · intro u hu; exact hd
  · intro u v hu; once_thread h u t

theorem onceInv_locked_run (hpc : s.pc t = .locked) (hd : s.done = false) : OnceInv init (s.setPc t .running) := by
  have hf : s.nwrites = 0 ∧ s.table = none := by
    apply h.fresh hd
    intro u hu
    have := h.cs_unique t u (by simp [hpc, PC.inCS]) (by simp [hu, PC.inCS])
    subst this; simp [hpc] at hu
  constructor
  · intro u hu
    by_cases hut : u = t
    · subst hut; exact h.cs u (by simp [hpc, PC.inCS])
    · rw [setPc_pc_other _ _ _ _ hut] at hu; exact h.cs u hu
  · intro u hu; once_thread h u t
  · intro u hu; once_thread h u t
  · intro _ _; exact hf
  · intro hd'; exact h.isDone hd'
  · intro u hu; once_thread h u t
  · intro u hu; once_thread h u t
  · intro u v hu
    by_cases hut : u = t
    · subst hut; rw [setPc_pc_self] at hu; cases hu
    · rw [setPc_pc_other _ _ _ _ hut] at hu; exact h.fin u v hu

theorem onceInv_run (hpc : s.pc t = .running) :
    OnceInv init ({ s with table := some (init t), nwrites := s.nwrites + 1 }.setPc t .setDone) := by
  have hr := h.running t hpc
  have hcs : (s.pc t).inCS = true := by simp [hpc, PC.inCS]
  constructor
  · intro u hu; once_thread h u t
  · intro u hu; have := h.others_outside t u hcs; once_thread h u t
  · intro u hu; have := h.others_outside t u hcs; once_thread h u t
  · intro hd' hall; have := hall t; simp [OnceSt.setPc] at this
  · intro hd'; simp_all [OnceSt.setPc]
  · intro u hu; once_thread h u t
  · intro u hu; once_thread h u t
  · intro u v hu
    by_cases hut : u = t
    · subst hut; rw [setPc_pc_self] at hu; cases hu
    · rw [setPc_pc_other _ _ _ _ hut] at hu
      have := (h.fin u v hu).1; rw [hr.1] at this; cases this

theorem onceInv_setDone (hpc : s.pc t = .setDone) : OnceInv init ({ s with done := true }.setPc t .unlock) := by
  have hr := h.setDone t hpc
  have hcs : (s.pc t).inCS = true := by simp [hpc, PC.inCS]
  constructor
  · intro u hu; once_thread h u t
  · intro u hu; have := h.others_outside t u hcs; once_thread h u t
  · intro u hu; have := h.others_outside t u hcs; once_thread h u t
  · intro hd'; simp [OnceSt.setPc] at hd'
  · intro _; exact ⟨hr.2.1, t, hr.2.2⟩
  · intro u hu; rfl
  · intro u hu; rfl
  · intro u v hu
    by_cases hut : u = t
    · subst hut; rw [setPc_pc_self] at hu; cases hu
    · rw [setPc_pc_other _ _ _ _ hut] at hu; exact ⟨rfl, (h.fin u v hu).2⟩

theorem onceInv_unlock (hpc : s.pc t = .unlock) : OnceInv init ({ s with mutex := none }.setPc t .ret) := by
  have hcs : (s.pc t).inCS = true := by simp [hpc, PC.inCS]
  constructor
  · intro u hu; have := h.others_outside t u hcs; once_thread h u t
  · intro u hu; once_thread h u t
  · intro u hu; once_thread h u t
  · intro hd' hall
    exact h.fresh hd' (no_setDone_before s _ t _ rfl (by simp [hpc]) hall)
  · intro hd'; exact h.isDone hd'
  · intro u hu; once_thread h u t
  · intro u hu; once_thread h u t
  · intro u v hu; once_thread h u t

theorem onceInv_ret (hpc : s.pc t = .ret) : OnceInv init (s.setPc t (.finished s.table)) := by
  constructor
  · intro u hu; once_thread h u t
  · intro u hu; once_thread h u t
  · intro u hu; once_thread h u t
  · intro hd' hall
    exact h.fresh hd' (no_setDone_before s _ t _ rfl (by simp [hpc]) hall)
  · intro hd'; exact h.isDone hd'
  · intro u hu; once_thread h u t
  · intro u hu; once_thread h u t
  · intro u v hu; once_thread h u t

theorem onceInv_step : OnceInv init (onceStep init s t) := by
  unfold onceStep
  split
  next hpc =>
    split
    next hd => exact onceInv_start_done init s t h hpc hd
    next hd => exact onceInv_start_slow init s t h hpc
  next hpc =>
    split
    next hm => exact onceInv_lock init s t h hpc hm
    next => exact h
  next hpc =>
    split
    next hd => exact onceInv_locked_done init s t h hpc hd
    next hd => exact onceInv_locked_run init s t h hpc (by simpa using hd)
  next hpc => exact onceInv_run init s t h hpc
  next hpc => exact onceInv_setDone init s t h hpc
  next hpc => exact onceInv_unlock init s t h hpc
  next hpc => exact onceInv_ret init s t h hpc
  next => exact h

end

theorem onceInv_sched {α} (init : Nat → α) (sched : List Nat) (s : OnceSt α) (h : OnceInv init s) :
    OnceInv init (onceSched init sched s) := by
  induction sched generalizing s with
  | nil => exact h
  | cons t l ih => exact ih _ (onceInv_step init s t h)

/-! ### sync.Pool -/

theorem initBeforeRead_agree (prog : List Step) : ∀ (D : List Nat) (σ σ' : State),
    initBeforeRead D prog = true → (∀ c ∈ D, σ c = σ' c) →
    ∀ c, (c ∈ D ∨ c ∈ writes prog) → runSteps prog σ c = runSteps prog σ' c := by
  induction prog with
  | nil =>
    intro D σ σ' _ hag c hc
    rcases hc with hc | hc
    · exact hag c hc
    · simp [writes] at hc
  | cons s l ih =>
    intro D σ σ' h hag c hc
    simp only [initBeforeRead, Bool.and_eq_true, List.all_eq_true, List.contains_iff_mem] at h
    have hreads : s.reads.map σ = s.reads.map σ' :=
      List.map_congr_left (fun c hc => hag c (h.1 c hc))
    have hag' : ∀ c ∈ s.write :: D, s.run σ c = s.run σ' c := by
      intro c hc
      by_cases e : c = s.write
      · simp [Step.run, e, hreads]
      · have : c ∈ D := by simpa [e] using hc
        simp [Step.run, e, hag c this]
    simp only [runSteps]
    apply ih (s.write :: D) _ _ h.2 hag'
    rcases hc with hc | hc
    · exact Or.inl (List.mem_cons_of_mem _ hc)
    · simp only [writes, List.map_cons, List.mem_cons] at hc
      rcases hc with rfl | hc
      · exact Or.inl (by simp)
      · exact Or.inr hc

/-! ### frame and agreement -/

theorem runSteps_frame (prog : List Step) (σ : State) (c : Nat) (hc : c ∉ writes prog) :
    runSteps prog σ c = σ c := by
  induction prog generalizing σ with
  | nil => rfl
  | cons s l ih =>
    simp only [writes, List.map_cons, List.mem_cons, not_or] at hc
    simp only [runSteps]
    rw [ih _ hc.2]
    simp [Step.run, hc.1]

/-- the cells written by a program depend only on the initial values of the cells it reads -/
theorem runSteps_agree (prog : List Step) (σ σ' : State) (h : ∀ c ∈ readsOf prog, σ c = σ' c) :
    ∀ c ∈ writes prog, runSteps prog σ c = runSteps prog σ' c := by
  induction prog generalizing σ σ' with
  | nil => intro c hc; simp [writes] at hc
  | cons s l ih =>
    intro c hc
    have hreads : s.reads.map σ = s.reads.map σ' :=
      List.map_congr_left (fun c hc => h c (by simp [readsOf, hc]))
    have h' : ∀ c ∈ readsOf l, s.run σ c = s.run σ' c := by
      intro c hc
      by_cases e : c = s.write
      · simp [Step.run, e, hreads]
      · simp only [Step.run, e, if_false]
        exact h c (by simp only [readsOf, List.flatMap_cons, List.mem_append] at hc ⊢; exact Or.inr hc)
    simp only [runSteps]
    by_cases hl : c ∈ writes l
    · exact ih _ _ h' c hl
    · rw [runSteps_frame l _ c hl, runSteps_frame l _ c hl]
      have e : c = s.write := by
        simp only [writes, List.map_cons, List.mem_cons] at hc hl
        rcases hc with hc | hc
        · exact hc
        · exact absurd hc hl
      simp [Step.run, e, hreads]

theorem mem_writes_flatten (L : List Task) (c : Nat) : c ∈ writes L.flatten ↔ ∃ p ∈ L, c ∈ writes p := by
  simp only [writes, List.mem_map, List.mem_flatten]
  constructor
  · rintro ⟨s, ⟨p, hp, hs⟩, rfl⟩; exact ⟨p, hp, s, hs, rfl⟩
  · rintro ⟨p, hp, s, hs, rfl⟩; exact ⟨s, ⟨p, hp, hs⟩, rfl⟩

end GV.ForkJoin
