import GnarkVerif.Model.GoInt
import GnarkVerif.Proofs.Svdw
import Mathlib.Algebra.Field.ZMod
import Mathlib.FieldTheory.Finite.Basic
/-
Helper lemmas for the theorems about the hash-to-curve defs that tools/goslp REGENERATES from the Go source
(Gen/H2C/*.lean, Props/C13_gen.lean): semantics of the run-time flags (Go `int` / `uint64`) and the specification of the
base-field primitives that the generated defs take as parameters.
-/
namespace GV.H2CGen
open GV

/-- `Legendre() >> 1` is the mask `0` (square or zero) / `-1` (non-residue) -/
theorem shr1_of_leg (l : Int) (h : l = -1 ∨ l = 0 ∨ l = 1) :
    (l >>> 1 = 0 ↔ l ≠ -1) ∧ (l >>> 1 = 0 ∨ l >>> 1 = -1) := by
  rcases h with rfl | rfl | rfl <;> decide

/-- the two `Select`s of steps 27–28 of the SvdW map with `e2 = gx2NotSquare | ^gx1NotSquare` -/
theorem svdw_select {α : Type} (n1 n2 : Int) (h1 : n1 = 0 ∨ n1 = -1) (h2 : n2 = 0 ∨ n2 = -1) (x1 x2 x3 : α)
    [d1 : Decidable (GV.GoInt.or n2 (~~~n1) = 0)] [d2 : Decidable (n1 = 0)] :
    (@ite _ (GV.GoInt.or n2 (~~~n1) = 0) d1 x2 (@ite _ (n1 = 0) d2 x1 x3)) =
      if n1 = 0 then x1 else if n2 = 0 then x2 else x3 := by
  have e1 : GV.GoInt.or 0 (~~~(0 : Int)) = -1 := by decide
  have e2 : GV.GoInt.or (-1) (~~~(0 : Int)) = -1 := by decide
  have e3 : GV.GoInt.or 0 (~~~(-1 : Int)) = 0 := by decide
  have e4 : GV.GoInt.or (-1) (~~~(-1 : Int)) = -1 := by decide
  rcases h1 with rfl | rfl <;> rcases h2 with rfl | rfl <;> simp [e1, e2, e3, e4]

/-- `Select(int(sgn0(u) ^ sgn0(y)), &y, &negY)` is the sign fix `if sgn0 u ≠ sgn0 y then -y else y` -/
theorem select_xor_parity {α : Type} (a b : Nat) (y z : α) [d : Decidable ((a % 2 ^^^ b % 2) = 0)] :
    (@ite _ ((a % 2 ^^^ b % 2) = 0) d y z) =
      if (decide (a % 2 = 1) != decide (b % 2 = 1)) = true then z else y := by
  rcases Nat.mod_two_eq_zero_or_one a with h | h <;> rcases Nat.mod_two_eq_zero_or_one b with h' | h' <;>
    simp [h, h']

theorem xor_parity_eq_zero (a b : Nat) : (a % 2 ^^^ b % 2 = 0) ↔ a % 2 = b % 2 := by
  rcases Nat.mod_two_eq_zero_or_one a with h | h <;> rcases Nat.mod_two_eq_zero_or_one b with h' | h' <;>
    simp [h, h']

/-- specification of the base-field primitives the SvdW defs are parameterised by (`Element.Legendre`, `Element.Sqrt`) -/
structure LegSqrtOK {F : Type} [Field F] (legendre : F → Int) (sqrt : F → Option F) : Prop where
  leg_range : ∀ a, legendre a = -1 ∨ legendre a = 0 ∨ legendre a = 1
  leg_nonres : ∀ a, legendre a = -1 ↔ ¬ IsSquare a
  sqrt_sound : ∀ a y, sqrt a = some y → y * y = a
  sqrt_complete : ∀ a, IsSquare a → ∃ y, sqrt a = some y

/-- the specification is satisfiable in every field (non-vacuity of `LegSqrtOK`) -/
theorem legSqrtOK_exists {F : Type} [Field F] : ∃ (l : F → Int) (s : F → Option F), LegSqrtOK l s := by
  classical
  refine ⟨fun a => if a = 0 then 0 else if IsSquare a then 1 else -1,
    fun a => if h : IsSquare a then some h.choose else none, ⟨?_, ?_, ?_, ?_⟩⟩
  · intro a; by_cases h0 : a = 0 <;> by_cases h : IsSquare a <;> simp [h0, h]
  · intro a
    by_cases h0 : a = 0
    · subst h0; simp
    · by_cases h : IsSquare a <;> simp [h0, h]
  · intro a y h
    by_cases hs : IsSquare a
    · simp only [hs, dif_pos] at h
      have := hs.choose_spec
      rw [Option.some.injEq] at h
      rw [← h]; exact this.symm
    · simp [hs] at h
  · intro a h; exact ⟨h.choose, by simp [h]⟩

section
variable {F : Type} [Field F]

theorem LegSqrtOK.isSq_iff {legendre : F → Int} {sqrt : F → Option F} (h : LegSqrtOK legendre sqrt) (a : F) :
    decide (legendre a >>> 1 = 0) = true ↔ IsSquare a := by
  rw [decide_eq_true_eq, (shr1_of_leg _ (h.leg_range a)).1, Ne, h.leg_nonres, not_not]

theorem LegSqrtOK.sqrt_getD {legendre : F → Int} {sqrt : F → Option F} (h : LegSqrtOK legendre sqrt) (a : F)
    (ha : IsSquare a) : (sqrt a).getD 0 * (sqrt a).getD 0 = a := by
  obtain ⟨y, hy⟩ := h.sqrt_complete a ha
  rw [hy, Option.getD_some]; exact h.sqrt_sound a y hy

/-- a field in which the odd number `2k+1` vanishes has `2 ≠ 0` -/
theorem two_ne_zero_of_odd_char (k : Nat) (h : ((2 * k + 1 : Nat) : F) = 0) : (2 : F) ≠ 0 := by
  intro h2
  push_cast at h
  rw [h2, zero_mul, zero_add] at h
  exact one_ne_zero h

/-- two naturals that differ by a multiple of `q` have the same image in a ring where `q = 0` (the equation between the
literals is checked by the kernel: `rfl`) -/
theorem natCast_eq_of_eq_add_mul (q L R k : Nat) (hq : ((q : Nat) : F) = 0) (e : L = R + k * q) :
    ((L : Nat) : F) = ((R : Nat) : F) := by
  rw [e, Nat.cast_add, Nat.cast_mul, hq, mul_zero, add_zero]

theorem ringChar_ne_two_of_two_ne_zero (h2 : (2 : F) ≠ 0) : ringChar F ≠ 2 := by
  intro h
  apply h2
  have := ringChar.Nat.cast_ringChar (R := F)
  rw [h] at this
  exact_mod_cast this

/-- the optimised `sqrt_ratio` for `q ≡ 3 (mod 4)` (RFC 9380 §F.2.1.2) as computed by `G1SqrtRatio` of bls12-381 /
bw6-761: `y1 = (u v³)^c1 · u v` with `c1 = (q-3)/4`; `tv3 = y1² v`; the result is `y1` when `tv3 = u` and `y1·c2`
(`c2² = -Z`) otherwise. Over a field with `q = 4 c1 + 3` elements: -/
theorem sqrtRatio_3mod4 [Fintype F] (c1 : ℕ) (c2 Z u v : F) (hcard : Fintype.card F = 4 * c1 + 3)
    (hc2 : c2 * c2 = -Z) (hv : v ≠ 0) :
    ((v * v * (u * v)) ^ c1 * (u * v) * ((v * v * (u * v)) ^ c1 * (u * v)) * v = u →
        ((v * v * (u * v)) ^ c1 * (u * v)) ^ 2 * v = u) ∧
    ((v * v * (u * v)) ^ c1 * (u * v) * ((v * v * (u * v)) ^ c1 * (u * v)) * v ≠ u →
        ((v * v * (u * v)) ^ c1 * (u * v) * c2) ^ 2 * v = Z * u ∧ ¬ IsSquare (u / v)) := by
  constructor
  · intro h; rw [sq]; exact h
  · intro hne
    have hq0 : ((4 * c1 + 3 : ℕ) : F) = 0 := by rw [← hcard]; exact FiniteField.cast_card_eq_zero F
    have h2 : (2 : F) ≠ 0 := two_ne_zero_of_odd_char (2 * c1 + 1) (by rw [← hq0]; congr 1; ring)
    have hF := ringChar_ne_two_of_two_ne_zero h2
    have hu : u ≠ 0 := by
      rintro rfl
      apply hne
      simp
    set w := v * v * (u * v) with hw
    have hw0 : w ≠ 0 := mul_ne_zero (mul_ne_zero hv hv) (mul_ne_zero hu hv)
    have hhalf : Fintype.card F / 2 = 2 * c1 + 1 := by rw [hcard]; omega
    have hy : w ^ c1 * (u * v) * (w ^ c1 * (u * v)) * v = w ^ (2 * c1 + 1) * u := by
      rw [pow_succ, pow_mul, hw]; ring
    rcases FiniteField.pow_dichotomy hF hw0 with h1 | h1
    · exfalso; apply hne; rw [hy, ← hhalf, h1, one_mul]
    · rw [hhalf] at h1
      refine ⟨?_, ?_⟩
      · have : (w ^ c1 * (u * v) * c2) ^ 2 * v = (w ^ c1 * (u * v) * (w ^ c1 * (u * v)) * v) * (c2 * c2) := by ring
        rw [this, hy, h1, hc2]; ring
      · intro hsq
        have hsw : IsSquare w := by
          obtain ⟨s, hs⟩ := hsq
          refine ⟨s * (v * v), ?_⟩
          have : u = s * s * v := by rw [← hs]; field_simp
          rw [hw, this]; ring
        have := (FiniteField.isSquare_iff hF hw0).mp hsw
        rw [hhalf, h1] at this
        have h11 : (2 : F) = 0 := by linear_combination -this
        exact h2 h11
end

end GV.H2CGen
