import GnarkVerif.Proofs.VerifierGenPed
import GnarkVerif.Model.VerifierInt
import Mathlib.Tactic.Ring
/-
Curve-independent part of C17 tie T for `permutation.Verify` (Gen/Verifier/Permutation_<curve>.lean, tools/goslp/slpgperm.go).

`permRef` is the REFERENCE PROGRAM: the text of the generated `Verify` with the two calls into kzg abstracted to functions of the
evaluation point (`batch η` = the result of `kzg.BatchVerifySinglePoint([t1,t2,z,q], batchedProof, η)`, `shift (η·g)` = the result of
`kzg.Verify(z, shiftedProof, η·g)`). Each package's generated def is proved EQUAL to `permRef` by `rfl` (Props/C17_gen_perm_<curve>.lean), so every
theorem here holds of the regenerated text of each of the 7 packages, and a semantic change of the Go text breaks that `rfl`.

ABSTRACTION: a G1 element / scalar of the Go code is an `Ex q` (its discrete logarithm / value, a natural number read mod q), `==` on
scalars is `(fp q).beq`, `Exp(x, k)` is `npow (fp q) x k` for `k ≥ 0`, `proof.size` is the Int `(n : Int)` of the model's `n : Nat`
(INVARIANT / hypothesis: `n < 2^63`, the non-negative values of a Go `int`), the challenges of the model are the values the transcript
derives: ε = frOfBytes (fsChallenge "epsilon" [t1, t2] []), ω = frOfBytes (fsChallenge "omega" [z] [ε-bytes]), η = frOfBytes (fsChallenge "eta" [q] [ε-bytes, ω-bytes]).
-/
set_option linter.unusedVariables false
set_option linter.unusedSectionVars false
namespace GV.VerifierGen
open GV GV.Alg GV.KZG GV.Gen.Verifier GV.ArgPairing

/-- the reference program of `permutation.Verify` -/
def permRef {G S : Type} [Add S] [Sub S] [Mul S] [One S] [Inv S] [BEq S]
    (rawBytesG : G → List UInt8) (fsC : String → List (List UInt8) → List (List UInt8) → List UInt8) (frB : List UInt8 → S)
    (expS : S → Int → S) (size : Int) (g : S) (t1 t2 z qd : G) (c0 c1 c2 c3 sv : S) (batch shift : S → Res) : Res :=
  let e := fsC "epsilon" [rawBytesG t1, rawBytesG t2] []
  let o := fsC "omega" [rawBytesG z] [e]
  let h := fsC "eta" [rawBytesG qd] [e, o]
  let ε := frB e
  let ω := frB o
  let η := frB h
  let rhs0 := expS η size - 1
  let l0 := rhs0 * (η - 1)⁻¹
  let lhs := (c2 - 1) * l0 * ω + ((ε - c1) * sv - (ε - c0) * c2)
  if (!(lhs == rhs0 * c3)) then Res.err "ErrPermutationProof" else
  if (batch η != Res.ok) then batch η else
  if (shift (η * g) != Res.ok) then shift (η * g) else
  if (i64and size (i64sub size (1 : Int)) != (0 : Int)) then Res.err "ErrSize" else
  if (expS g (i64quo size (2 : Int)) == 1) then Res.err "ErrGenerator" else
  if (!(expS g (i64quo size (2 : Int)) * expS g (i64quo size (2 : Int)) == 1)) then Res.err "ErrGenerator" else Res.ok

/-- the three challenges as the transcript derives them (bytes) -/
def permChallenges {G : Type} (rawBytesG : G → List UInt8) (fsC : String → List (List UInt8) → List (List UInt8) → List UInt8)
    (t1 t2 z qd : G) : List UInt8 × List UInt8 × List UInt8 :=
  let e := fsC "epsilon" [rawBytesG t1, rawBytesG t2] []
  let o := fsC "omega" [rawBytesG z] [e]
  (e, o, fsC "eta" [rawBytesG qd] [e, o])

section abstract
variable {G S : Type} [Add S] [Sub S] [Mul S] [One S] [Inv S] [BEq S]
  (rawG : G → List UInt8) (fsC fsC' : String → List (List UInt8) → List (List UInt8) → List UInt8) (frB : List UInt8 → S)
  (expS : S → Int → S) (size : Int) (g : S) (t1 t2 z qd : G) (c0 c1 c2 c3 sv : S) (batch shift : S → Res)

/-- ABSTRACT FORM over any types: nil iff the field identity holds at η, both KZG verifications return nil (at η resp. η·g),
`size & (size-1) = 0`, `g^(size/2) ≠ 1` and `(g^(size/2))² = 1` -/
theorem permRef_ok_iff :
    permRef rawG fsC frB expS size g t1 t2 z qd c0 c1 c2 c3 sv batch shift = Res.ok ↔
      (let ε := frB (permChallenges rawG fsC t1 t2 z qd).1
       let ω := frB (permChallenges rawG fsC t1 t2 z qd).2.1
       let η := frB (permChallenges rawG fsC t1 t2 z qd).2.2
       ((c2 - 1) * ((expS η size - 1) * (η - 1)⁻¹) * ω + ((ε - c1) * sv - (ε - c0) * c2) == (expS η size - 1) * c3) = true ∧
       batch η = Res.ok ∧ shift (η * g) = Res.ok ∧ i64and size (i64sub size 1) = 0 ∧
       (expS g (i64quo size 2) == 1) = false ∧ (expS g (i64quo size 2) * expS g (i64quo size 2) == 1) = true) := by
  simp only [permRef, permChallenges]
  split_ifs <;> simp_all

/-- BINDING: the def depends on the transcript only through the three calls
`fsChallenge "epsilon" [t1, t2] []`, `fsChallenge "omega" [z] [ε]`, `fsChallenge "eta" [q] [ε, ω]` — each challenge is derived from the
commitments sent before it (in order) and from all earlier challenges -/
theorem permRef_binding (h : permChallenges rawG fsC' t1 t2 z qd = permChallenges rawG fsC t1 t2 z qd) :
    permRef rawG fsC' frB expS size g t1 t2 z qd c0 c1 c2 c3 sv batch shift
      = permRef rawG fsC frB expS size g t1 t2 z qd c0 c1 c2 c3 sv batch shift := by
  simp only [permChallenges, Prod.mk.injEq] at h
  obtain ⟨h1, h2, h3⟩ := h
  simp only [permRef]
  rw [h1] at h2 h3 ⊢
  rw [h2] at h3 ⊢
  rw [h3]

/-- ORDER of the checks as the Go text has them: a failing batched opening is reported before the shifted opening, the size and
the generator are looked at only when both openings pass; ErrSize comes before ErrGenerator -/
theorem permRef_order (r : Res) (hr : permRef rawG fsC frB expS size g t1 t2 z qd c0 c1 c2 c3 sv batch shift = r) :
    let η := frB (permChallenges rawG fsC t1 t2 z qd).2.2
    (r = Res.err "ErrSize" → batch η = Res.ok ∨ batch η = Res.err "ErrSize") ∧
    (batch η = Res.ok → shift (η * g) = Res.ok → i64and size (i64sub size 1) ≠ 0 →
        r = Res.err "ErrSize" ∨ r = Res.err "ErrPermutationProof") ∧
    (batch η ≠ Res.ok → r = batch η ∨ r = Res.err "ErrPermutationProof") := by
  subst hr
  simp only [permRef, permChallenges]
  refine ⟨?_, ?_, ?_⟩
  · split_ifs <;> simp_all
  · intro hb hs hz; split_ifs <;> simp_all
  · intro hb; split_ifs <;> simp_all

end abstract

/-! ### exponent model -/

/-- `fr.Element.Equal` in the exponent model: equality mod q, the `beq` of the driver's dictionary -/
instance exBEq {q : ℕ} : BEq (Ex q) := ⟨fun a b => (fp q).beq a.v b.v⟩

/-- `fr.Element.Exp(x, k)` for `k ≥ 0` in the exponent model -/
def expEx (q : ℕ) (x : Ex q) (k : Int) : Ex q := ⟨npow (fp q) x.v k.toNat⟩

theorem i64_size_test (n : ℕ) (hn : n < 2 ^ 63) :
    (i64and (n : Int) (i64sub (n : Int) (1 : Int)) != (0 : Int)) = !sizeOk n := by
  rcases Nat.eq_zero_or_pos n with rfl | hp
  · decide
  · have e1 : i64sub (n : Int) 1 = ((n - 1 : ℕ) : Int) := by unfold i64sub wrap64; omega
    have b1 : bits64 (n : Int) = n := by unfold bits64; omega
    have b2 : bits64 ((n - 1 : ℕ) : Int) = n - 1 := by unfold bits64; omega
    have hle : n &&& (n - 1) ≤ n := Nat.and_le_left
    have e2 : wrap64 (Int.ofNat (n &&& (n - 1))) = ((n &&& (n - 1) : ℕ) : Int) := by
      unfold wrap64; simp only [Int.ofNat_eq_natCast]; omega
    unfold i64and sizeOk
    rw [e1, b1, b2, e2]
    generalize n &&& (n - 1) = m
    cases m with
    | zero => rfl
    | succ k => simp; omega

theorem i64_half (n : ℕ) (hn : n < 2 ^ 63) : i64quo (n : Int) (2 : Int) = ((n / 2 : ℕ) : Int) := by
  have : Int.tdiv (n : Int) 2 = ((n / 2 : ℕ) : Int) := by
    rw [Int.tdiv_eq_ediv_of_nonneg (by omega)]; rfl
  unfold i64quo wrap64
  rw [this]; omega

section ex
variable (q : ℕ) [Fact q.Prime] (h2 : 2 < q)
include h2

theorem cast_npow (x k : ℕ) : ((npow (fp q) x k : ℕ) : ZMod q) = (x : ZMod q) ^ k :=
  npow_map (lawful_fp q h2) x k

/-- the quotient identity of the Go text in the exponent model = `permIdentity` of the model -/
theorem perm_identity_ex (n : ℕ) (c0 c1 c2 c3 sv ε ω η : Ex q) :
    ((c2 - 1) * ((expEx q η (n : Int) - 1) * (η - 1)⁻¹) * ω + ((ε - c1) * sv - (ε - c0) * c2) == (expEx q η (n : Int) - 1) * c3)
      = permIdentity (fp q) n [c0.v, c1.v, c2.v, c3.v] sv.v ε.v ω.v η.v := by
  have hq : NeZero q := ⟨(Fact.out : q.Prime).ne_zero⟩
  show (fp q).beq _ _ = _
  unfold permIdentity
  rw [fp_beq_decide, fp_beq_decide]
  congr 1
  simp only [expEx, Int.toNat_natCast, add_v, sub_v, mul_v, inv_v, one_v, cast_addm, cast_subm, cast_mulm, cast_fp_add, cast_fp_mul,
    cast_fp_sub, cast_fp_inv q h2, cast_fp_one, cast_one_mod, cast_npow q h2, List.getD_cons_zero, List.getD_cons_succ]

/-- the generator check of the Go text in the exponent model = `genCheck` of the model -/
theorem perm_gen_ex (n : ℕ) (g : Ex q) :
    ((!(expEx q g ((n / 2 : ℕ) : Int) == 1)) && (expEx q g ((n / 2 : ℕ) : Int) * expEx q g ((n / 2 : ℕ) : Int) == 1))
      = genCheck (fp q) n g.v := by
  have hq : NeZero q := ⟨(Fact.out : q.Prime).ne_zero⟩
  show ((!(fp q).beq _ _) && (fp q).beq _ _) = _
  unfold genCheck
  simp only [fp_beq_decide]
  simp only [expEx, Int.toNat_natCast, mul_v, one_v, cast_mulm, cast_fp_mul, cast_fp_one, cast_one_mod]

/-- EXPONENT MODEL: the reference program accepts iff `Model.ArgPairing.permVerify` does, the two KZG flags being the verdicts of the two
kzg verifications and the challenges the ones the transcript derives from (t1, t2), z, q — every input with `0 ≤ size < 2^63` -/
theorem permRef_ex (rawG : Ex q → List UInt8) (fsC : String → List (List UInt8) → List (List UInt8) → List UInt8)
    (frB : List UInt8 → Ex q) (n : ℕ) (hn : n < 2 ^ 63) (g t1 t2 z qd c0 c1 c2 c3 sv : Ex q) (batch shift : Ex q → Res) :
    permRef rawG fsC frB (expEx q) (n : Int) g t1 t2 z qd c0 c1 c2 c3 sv batch shift = Res.ok ↔
      permVerify (fp q) n g.v [c0.v, c1.v, c2.v, c3.v] sv.v
        (frB (permChallenges rawG fsC t1 t2 z qd).1).v (frB (permChallenges rawG fsC t1 t2 z qd).2.1).v
        (frB (permChallenges rawG fsC t1 t2 z qd).2.2).v
        (decide (batch (frB (permChallenges rawG fsC t1 t2 z qd).2.2) = Res.ok))
        (decide (shift (frB (permChallenges rawG fsC t1 t2 z qd).2.2 * g) = Res.ok)) = true := by
  rw [permRef_ok_iff]
  have hs := i64_size_test n hn
  simp only [perm_identity_ex q h2, i64_half n hn]
  unfold permVerify
  rw [← perm_gen_ex q h2]
  simp only [Bool.and_eq_true, decide_eq_true_eq, Bool.not_eq_true', and_assoc]
  have hsz : i64and (n : Int) (i64sub (n : Int) 1) = 0 ↔ sizeOk n = true := by
    cases hk : sizeOk n <;> simp [hk] at hs ⊢ <;> simpa using hs
  rw [hsz]

end ex
end GV.VerifierGen
