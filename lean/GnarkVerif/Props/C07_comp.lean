import GnarkVerif.Model.PointCodecComp
import GnarkVerif.Model.PointCodecOps
import GnarkVerif.Proofs.PointCodecWriter
/-
C07 — composite objects (`kzg.SRS`, `kzg.ProvingKey`, `kzg.VerifyingKey`, `pedersen.ProvingKey`,
`pedersen.VerifyingKey`): several parts on one stream, each read by its own `Decoder` / written by its own `Encoder`.
Theorems about `Model/PointCodecComp.lean`: no part can hide the error of an earlier part.
-/
namespace GV.PointCodec
open GV

variable {α β : Type} [DecidableEq α] [DecidableEq β]

/-- a part that fails ends the read: the composite reports that part's error and byte count, whatever follows in
the stream (an intact later part cannot turn the error into nil) -/
theorem C07_comp_read_error_first (E : Env α β) (p : Part) (ps : List Part) (bs : List UInt8) (e : Err)
    (h : (decodeSeq E p.sub p.tys bs).2.1 = some e) :
    readParts E (p :: ps) bs = ((decodeSeq E p.sub p.tys bs).1, some e, (decodeSeq E p.sub p.tys bs).2.2) := by
  unfold readParts
  rcases hd : decodeSeq E p.sub p.tys bs with ⟨vs, oe, n⟩
  rw [hd] at h
  simp only at h
  subst h
  rfl

/-- a composite read without error: its first part was read without error, and so was the rest of the composite on
the rest of the stream -/
theorem C07_comp_read_no_hidden_error (E : Env α β) (p : Part) (ps : List Part) (bs : List UInt8)
    (h : (readParts E (p :: ps) bs).2.1 = none) :
    (decodeSeq E p.sub p.tys bs).2.1 = none ∧
    (readParts E ps (bs.drop (decodeSeq E p.sub p.tys bs).2.2)).2.1 = none := by
  unfold readParts at h
  rcases hd : decodeSeq E p.sub p.tys bs with ⟨vs, oe, n⟩
  rw [hd] at h
  cases oe with
  | some e => simp at h
  | none => exact ⟨rfl, h⟩

/-- the `Write` calls of a composite concatenate to its encoding -/
theorem C07_comp_chunks (E : Env α β) (raw : Bool) (vs : List (Val α β)) (lines : List UInt8) :
    (compChunks E raw vs lines).flatten = compBytes E raw vs lines := by
  unfold compChunks compBytes encodeSeq
  rw [List.flatten_append]
  simp only [List.flatten_cons, List.flatten_nil, List.append_nil]
  congr 1
  induction vs with
  | nil => rfl
  | cons v vs ih =>
    simp only [List.map_cons, List.flatten_cons, List.flatten_append]
    rw [ih, encodeChunks_flatten]

/-- a composite write stops at the first failed `Write`: on every writer it behaves as ONE `Write` of the whole
encoding; what reached the writer is a prefix of the encoding, a nil error means the WHOLE encoding reached it, an
error means strictly less did (a later successful `Write` cannot hide the failure) -/
theorem C07_comp_write_no_hidden_error (E : Env α β) (raw : Bool) (w : Budgets) (vs : List (Val α β))
    (lines : List UInt8) :
    compWriteTo E raw w vs lines = wWrite w (compBytes E raw vs lines) ∧
    (compWriteTo E raw w vs lines).1 <+: compBytes E raw vs lines ∧
    ((compWriteTo E raw w vs lines).2.1 = false → (compWriteTo E raw w vs lines).1 = compBytes E raw vs lines) ∧
    ((compWriteTo E raw w vs lines).2.1 = true →
      (compWriteTo E raw w vs lines).1.length < (compBytes E raw vs lines).length) := by
  have h : compWriteTo E raw w vs lines = wWrite w (compBytes E raw vs lines) := by
    unfold compWriteTo
    rw [wChunks_eq_write, C07_comp_chunks]
  rw [h]
  exact ⟨rfl, wWrite_prefix _ _, wWrite_ok _ _, wWrite_err _ _⟩

end GV.PointCodec

/-! ## twisted-Edwards point codec -/
namespace GV.PointCodec
open GV

/-- what `tedDecode` (the acceptance set the `ted dec` ops are compared with) accepts: the buffer holds a whole
frame, the ordinate is canonical, the decoded point is on the curve, `x = 0` comes without the sign bit, and the
count is the frame size -/
theorem C07_ted_accept (P : Sig.EdParams) (buf : List UInt8) (X : Nat × Nat) (n : Nat)
    (h : tedDecode P buf = .ok (X, n)) :
    P.size ≤ buf.length ∧ P.yRaw buf < P.q ∧ P.onCurve X = true ∧ ¬ (X.1 = 0 ∧ P.signBit buf = true) ∧
    n = P.size ∧ X = P.decompress (Sig.sqrtF P.q) buf := by
  unfold tedDecode at h
  split at h
  · cases h
  · rename_i hlen
    simp only at h
    split at h
    · cases h
    · rename_i hy
      split at h
      · cases h
      · split at h
        · cases h
        · rename_i hon
          split at h
          · cases h
          · rename_i hs
            cases h
            refine ⟨by omega, by omega, by simpa using hon, ?_, rfl, rfl⟩
            intro ⟨hx, hb⟩
            apply hs
            simp [hx, hb]

end GV.PointCodec
