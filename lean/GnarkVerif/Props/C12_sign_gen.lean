/- INSTANTIATED by bin/mkc12sign.py (one proof template for all packages). DO NOT EDIT: edit the script and re-run it. -/
import GnarkVerif.Proofs.SigSignGen
import GnarkVerif.Gen.Verifier.EddsaSig_bn254
import GnarkVerif.Gen.Verifier.EddsaSig_bls12_377
import GnarkVerif.Gen.Verifier.EddsaSig_bls12_381
import GnarkVerif.Gen.Verifier.EddsaSig_bandersnatch
import GnarkVerif.Gen.Verifier.EddsaSig_bls24_315
import GnarkVerif.Gen.Verifier.EddsaSig_bls24_317
import GnarkVerif.Gen.Verifier.EddsaSig_bw6_633
import GnarkVerif.Gen.Verifier.EddsaSig_bw6_761
import GnarkVerif.Model.SigParams
/-
C12, tie T for the EdDSA signature codec: `(*Signature).SetBytes` of the 8 eddsa packages as REGENERATED from the Go text of
ecc/<curve>/twistededwards/eddsa/marshal.go (+ bandersnatch) on every run (Gen/Verifier/EddsaSig_<curve>.lean, tools/goslp/slpsign.go).

TRANSLATED statement by statement: the length test, the byte-REVERSAL loop `bufCopy[sizeFr-1-i] = buf[i]` (unrolled, index bounds
checked by the translator), `bufCopy[0] &= mUnmask`, the big-endian reading of the unmasked ordinate and of S, the tests
y = 0, y >= fr.Modulus() (the field of definition), S = 0, S >= cp.Order in the order of the Go text, sig.R.SetBytes(buf[:sizeFr]) and its
error, IsOnCurve (reported with n = sizeFr), the copy of S, the returned byte count.
PARAMETERS (not looked into): `pointSetBytes` / `pointSetBytesErr` (twistededwards PointAffine.SetBytes: receiver after the call and its
error), `isOnCurve`, the curve parameters `edOrder` (+ edA, edD, edCofactor, edBase, unused); big.Int SetBytes / Cmp are exact integers.
HYPOTHESES of the model theorems, stated explicitly: an abstraction map φ : G → ℕ × ℕ with `φ (pointSetBytes b) = EdParams.decompress sq b`
(the model's decompression; C07's territory), `isOnCurve X = EdParams.onCurve (φ X)`, `pointSetBytesErr b = nil ↔ EdParams.hasX sq b` for buffers of exactly
sizeFr bytes (the Go function fails on short buffers and, since gnark-crypto 5916472, when the ordinate has no abscissa), and `edOrder` = the model's order. `_model` instantiates them with the
model's own dictionary (so they are satisfiable).

`_shape`: generated def = template of Proofs/SigSignGen.lean at this package's size / modulus (`rfl`; a changed statement breaks it).
`_setbytes`: generated = the answer read off `EdParams.sigParse` (Model/Sig.lean) on EVERY buffer: error names in the order of the Go
text, (0, err) with the receiver untouched on every error but errNotOnCurve ((sizeFr, err), R already overwritten), (2·sizeFr, nil) otherwise.
`_setbytes_ok` / `_setbytes_err`: exact acceptance and consumed length: sigParse accepts (k, R, s) ⇒ n = k = 2·sizeFr = len(buf),
φ(sig.R) = R, sig.S = buf[sizeFr:] with big-endian value s; sigParse rejects with e ⇒ a non-nil error, the Go error named by e
(for e = noSqrt: the error of PointAffine.SetBytes itself, handed on), sig.S untouched.

KNOWN FINDINGS not hidden by this: SetBytes bounds the ordinate under the sign bit by fr.Modulus() and refuses y = 0, but a PUBLIC KEY's
ordinate is never range-checked (PublicKey.SetBytes is not translated here; see bin/kf_data.py C12) — the theorem says nothing about keys.
NOT translated yet: Sign, Signature.Bytes, PublicKey.SetBytes / Bytes (so no Bytes ∘ SetBytes round trip and no completeness of generated
Sign/Verify here; the model-level statements are C12_eddsa_* of Props/C12.lean).
-/
set_option linter.unusedVariables false
open GV GV.Sig GV.Gen.Verifier GV.SigGen GV.SigSignGen
namespace GV.C12sign

/-! ### eddsa_bn254 -/

/-- `fr.Modulus()` as re-read on this run is the model's field of definition; the loop count / sizes are the model's `size` -/
theorem C12sign_bn254_modulus : eddsasig_bn254.frModulus = ((SigParams.ed_bn254).q : Int) ∧ 0 < (SigParams.ed_bn254).size := ⟨rfl, by decide⟩

theorem C12sign_bn254_setbytes_shape {G Fp : Type} [Add G] [Sub G] [Neg G] [Zero G] [SMul Int G] [Add Fp] [Sub Fp] [Mul Fp] [Inv Fp] [Zero Fp] [BEq Fp] :
    eddsasig_bn254.Signature_SetBytes (G := G) (Fp := Fp) = edSigSetBytesT (SigParams.ed_bn254).size ((SigParams.ed_bn254).q : Int) := rfl

theorem C12sign_bn254_setbytes {G Fp : Type} [Add G] [Sub G] [Neg G] [Zero G] [SMul Int G] [Add Fp] [Sub Fp] [Mul Fp] [Inv Fp] [Zero Fp] [BEq Fp] (sq : Nat → Option Nat) (edA edD edCofactor : Fp) (edBase : G)
    (dec : Bytes → G) (decErr : Bytes → Res) (onC : G → Bool) (φ : G → Nat × Nat)
    (hdec : ∀ b, φ (dec b) = (SigParams.ed_bn254).decompress sq b) (honC : ∀ X, onC X = (SigParams.ed_bn254).onCurve (φ X))
    (herr : ∀ b : Bytes, b.length = (SigParams.ed_bn254).size → (decErr b = Res.ok ↔ (SigParams.ed_bn254).hasX sq b = true)) (R0 : G) (s0 buf : Bytes) (hs : s0.length = (SigParams.ed_bn254).size) :
    eddsasig_bn254.Signature_SetBytes edA edD edCofactor ((SigParams.ed_bn254).order : Int) edBase dec decErr onC R0 s0 buf = edSigExpected (SigParams.ed_bn254) sq dec decErr R0 s0 buf := by
  rw [C12sign_bn254_setbytes_shape]
  exact edSigSetBytesT_spec (SigParams.ed_bn254) (by decide) sq edA edD edCofactor edBase dec decErr onC φ hdec honC herr R0 s0 buf hs

theorem C12sign_bn254_setbytes_ok {G Fp : Type} [Add G] [Sub G] [Neg G] [Zero G] [SMul Int G] [Add Fp] [Sub Fp] [Mul Fp] [Inv Fp] [Zero Fp] [BEq Fp] (sq : Nat → Option Nat) (edA edD edCofactor : Fp) (edBase : G)
    (dec : Bytes → G) (decErr : Bytes → Res) (onC : G → Bool) (φ : G → Nat × Nat)
    (hdec : ∀ b, φ (dec b) = (SigParams.ed_bn254).decompress sq b) (honC : ∀ X, onC X = (SigParams.ed_bn254).onCurve (φ X))
    (herr : ∀ b : Bytes, b.length = (SigParams.ed_bn254).size → (decErr b = Res.ok ↔ (SigParams.ed_bn254).hasX sq b = true)) (R0 : G) (s0 buf : Bytes) (hs : s0.length = (SigParams.ed_bn254).size)
    (k : Nat) (R : Nat × Nat) (s : Nat) (h : (SigParams.ed_bn254).sigParse sq buf = .ok (k, R, s)) :
    eddsasig_bn254.Signature_SetBytes edA edD edCofactor ((SigParams.ed_bn254).order : Int) edBase dec decErr onC R0 s0 buf
        = (((2 * (SigParams.ed_bn254).size : Nat) : Int), Res.ok, dec (buf.take (SigParams.ed_bn254).size), buf.drop (SigParams.ed_bn254).size) ∧
      buf.length = 2 * (SigParams.ed_bn254).size ∧ k = 2 * (SigParams.ed_bn254).size ∧ φ (dec (buf.take (SigParams.ed_bn254).size)) = R ∧ beToNat (buf.drop (SigParams.ed_bn254).size) = s ∧
      (buf.drop (SigParams.ed_bn254).size).length = (SigParams.ed_bn254).size := by
  rw [C12sign_bn254_setbytes_shape]
  exact edSigSetBytesT_ok (SigParams.ed_bn254) (by decide) sq edA edD edCofactor edBase dec decErr onC φ hdec honC herr R0 s0 buf hs k R s h

theorem C12sign_bn254_setbytes_err {G Fp : Type} [Add G] [Sub G] [Neg G] [Zero G] [SMul Int G] [Add Fp] [Sub Fp] [Mul Fp] [Inv Fp] [Zero Fp] [BEq Fp] (sq : Nat → Option Nat) (edA edD edCofactor : Fp) (edBase : G)
    (dec : Bytes → G) (decErr : Bytes → Res) (onC : G → Bool) (φ : G → Nat × Nat)
    (hdec : ∀ b, φ (dec b) = (SigParams.ed_bn254).decompress sq b) (honC : ∀ X, onC X = (SigParams.ed_bn254).onCurve (φ X))
    (herr : ∀ b : Bytes, b.length = (SigParams.ed_bn254).size → (decErr b = Res.ok ↔ (SigParams.ed_bn254).hasX sq b = true)) (R0 : G) (s0 buf : Bytes) (hs : s0.length = (SigParams.ed_bn254).size)
    (e : Err) (h : (SigParams.ed_bn254).sigParse sq buf = .error e) :
    (e ≠ .noSqrt → (eddsasig_bn254.Signature_SetBytes edA edD edCofactor ((SigParams.ed_bn254).order : Int) edBase dec decErr onC R0 s0 buf).2.1 = Res.err (edErrName e)) ∧
    (eddsasig_bn254.Signature_SetBytes edA edD edCofactor ((SigParams.ed_bn254).order : Int) edBase dec decErr onC R0 s0 buf).2.1 ≠ Res.ok ∧
    (eddsasig_bn254.Signature_SetBytes edA edD edCofactor ((SigParams.ed_bn254).order : Int) edBase dec decErr onC R0 s0 buf).2.2.2 = s0 := by
  rw [C12sign_bn254_setbytes_shape]
  have t := edSigSetBytesT_err (SigParams.ed_bn254) (by decide) sq edA edD edCofactor edBase dec decErr onC φ hdec honC herr R0 s0 buf hs e h
  exact ⟨t.1, t.2.1, t.2.2.1⟩

/-- non-vacuity: the hypotheses hold for the model's own dictionary, for every buffer -/
theorem C12sign_bn254_setbytes_model (sm : Nat → Nat × Nat → Nat × Nat) (sq : Nat → Option Nat)
    (edA edD edCofactor : EF (SigParams.ed_bn254).q) (edBase R0 : EdG (SigParams.ed_bn254) sm) (s0 buf : Bytes) (hs : s0.length = (SigParams.ed_bn254).size) :
    eddsasig_bn254.Signature_SetBytes (G := EdG (SigParams.ed_bn254) sm) (Fp := EF (SigParams.ed_bn254).q) edA edD edCofactor ((SigParams.ed_bn254).order : Int) edBase
        (fun b => ⟨(SigParams.ed_bn254).decompress sq b⟩) (edDecErr (SigParams.ed_bn254) sq) (fun X => (SigParams.ed_bn254).onCurve X.p) R0 s0 buf
      = edSigExpected (SigParams.ed_bn254) sq (fun b => (⟨(SigParams.ed_bn254).decompress sq b⟩ : EdG (SigParams.ed_bn254) sm)) (edDecErr (SigParams.ed_bn254) sq) R0 s0 buf := by
  rw [C12sign_bn254_setbytes_shape]
  exact edSigSetBytesT_model (SigParams.ed_bn254) (by decide) sm sq edA edD edCofactor edBase R0 s0 buf hs

/-! ### eddsa_bls12_377 -/

/-- `fr.Modulus()` as re-read on this run is the model's field of definition; the loop count / sizes are the model's `size` -/
theorem C12sign_bls12_377_modulus : eddsasig_bls12_377.frModulus = ((SigParams.ed_bls12_377).q : Int) ∧ 0 < (SigParams.ed_bls12_377).size := ⟨rfl, by decide⟩

theorem C12sign_bls12_377_setbytes_shape {G Fp : Type} [Add G] [Sub G] [Neg G] [Zero G] [SMul Int G] [Add Fp] [Sub Fp] [Mul Fp] [Inv Fp] [Zero Fp] [BEq Fp] :
    eddsasig_bls12_377.Signature_SetBytes (G := G) (Fp := Fp) = edSigSetBytesT (SigParams.ed_bls12_377).size ((SigParams.ed_bls12_377).q : Int) := rfl

theorem C12sign_bls12_377_setbytes {G Fp : Type} [Add G] [Sub G] [Neg G] [Zero G] [SMul Int G] [Add Fp] [Sub Fp] [Mul Fp] [Inv Fp] [Zero Fp] [BEq Fp] (sq : Nat → Option Nat) (edA edD edCofactor : Fp) (edBase : G)
    (dec : Bytes → G) (decErr : Bytes → Res) (onC : G → Bool) (φ : G → Nat × Nat)
    (hdec : ∀ b, φ (dec b) = (SigParams.ed_bls12_377).decompress sq b) (honC : ∀ X, onC X = (SigParams.ed_bls12_377).onCurve (φ X))
    (herr : ∀ b : Bytes, b.length = (SigParams.ed_bls12_377).size → (decErr b = Res.ok ↔ (SigParams.ed_bls12_377).hasX sq b = true)) (R0 : G) (s0 buf : Bytes) (hs : s0.length = (SigParams.ed_bls12_377).size) :
    eddsasig_bls12_377.Signature_SetBytes edA edD edCofactor ((SigParams.ed_bls12_377).order : Int) edBase dec decErr onC R0 s0 buf = edSigExpected (SigParams.ed_bls12_377) sq dec decErr R0 s0 buf := by
  rw [C12sign_bls12_377_setbytes_shape]
  exact edSigSetBytesT_spec (SigParams.ed_bls12_377) (by decide) sq edA edD edCofactor edBase dec decErr onC φ hdec honC herr R0 s0 buf hs

theorem C12sign_bls12_377_setbytes_ok {G Fp : Type} [Add G] [Sub G] [Neg G] [Zero G] [SMul Int G] [Add Fp] [Sub Fp] [Mul Fp] [Inv Fp] [Zero Fp] [BEq Fp] (sq : Nat → Option Nat) (edA edD edCofactor : Fp) (edBase : G)
    (dec : Bytes → G) (decErr : Bytes → Res) (onC : G → Bool) (φ : G → Nat × Nat)
    (hdec : ∀ b, φ (dec b) = (SigParams.ed_bls12_377).decompress sq b) (honC : ∀ X, onC X = (SigParams.ed_bls12_377).onCurve (φ X))
    (herr : ∀ b : Bytes, b.length = (SigParams.ed_bls12_377).size → (decErr b = Res.ok ↔ (SigParams.ed_bls12_377).hasX sq b = true)) (R0 : G) (s0 buf : Bytes) (hs : s0.length = (SigParams.ed_bls12_377).size)
    (k : Nat) (R : Nat × Nat) (s : Nat) (h : (SigParams.ed_bls12_377).sigParse sq buf = .ok (k, R, s)) :
    eddsasig_bls12_377.Signature_SetBytes edA edD edCofactor ((SigParams.ed_bls12_377).order : Int) edBase dec decErr onC R0 s0 buf
        = (((2 * (SigParams.ed_bls12_377).size : Nat) : Int), Res.ok, dec (buf.take (SigParams.ed_bls12_377).size), buf.drop (SigParams.ed_bls12_377).size) ∧
      buf.length = 2 * (SigParams.ed_bls12_377).size ∧ k = 2 * (SigParams.ed_bls12_377).size ∧ φ (dec (buf.take (SigParams.ed_bls12_377).size)) = R ∧ beToNat (buf.drop (SigParams.ed_bls12_377).size) = s ∧
      (buf.drop (SigParams.ed_bls12_377).size).length = (SigParams.ed_bls12_377).size := by
  rw [C12sign_bls12_377_setbytes_shape]
  exact edSigSetBytesT_ok (SigParams.ed_bls12_377) (by decide) sq edA edD edCofactor edBase dec decErr onC φ hdec honC herr R0 s0 buf hs k R s h

theorem C12sign_bls12_377_setbytes_err {G Fp : Type} [Add G] [Sub G] [Neg G] [Zero G] [SMul Int G] [Add Fp] [Sub Fp] [Mul Fp] [Inv Fp] [Zero Fp] [BEq Fp] (sq : Nat → Option Nat) (edA edD edCofactor : Fp) (edBase : G)
    (dec : Bytes → G) (decErr : Bytes → Res) (onC : G → Bool) (φ : G → Nat × Nat)
    (hdec : ∀ b, φ (dec b) = (SigParams.ed_bls12_377).decompress sq b) (honC : ∀ X, onC X = (SigParams.ed_bls12_377).onCurve (φ X))
    (herr : ∀ b : Bytes, b.length = (SigParams.ed_bls12_377).size → (decErr b = Res.ok ↔ (SigParams.ed_bls12_377).hasX sq b = true)) (R0 : G) (s0 buf : Bytes) (hs : s0.length = (SigParams.ed_bls12_377).size)
    (e : Err) (h : (SigParams.ed_bls12_377).sigParse sq buf = .error e) :
    (e ≠ .noSqrt → (eddsasig_bls12_377.Signature_SetBytes edA edD edCofactor ((SigParams.ed_bls12_377).order : Int) edBase dec decErr onC R0 s0 buf).2.1 = Res.err (edErrName e)) ∧
    (eddsasig_bls12_377.Signature_SetBytes edA edD edCofactor ((SigParams.ed_bls12_377).order : Int) edBase dec decErr onC R0 s0 buf).2.1 ≠ Res.ok ∧
    (eddsasig_bls12_377.Signature_SetBytes edA edD edCofactor ((SigParams.ed_bls12_377).order : Int) edBase dec decErr onC R0 s0 buf).2.2.2 = s0 := by
  rw [C12sign_bls12_377_setbytes_shape]
  have t := edSigSetBytesT_err (SigParams.ed_bls12_377) (by decide) sq edA edD edCofactor edBase dec decErr onC φ hdec honC herr R0 s0 buf hs e h
  exact ⟨t.1, t.2.1, t.2.2.1⟩

/-- non-vacuity: the hypotheses hold for the model's own dictionary, for every buffer -/
theorem C12sign_bls12_377_setbytes_model (sm : Nat → Nat × Nat → Nat × Nat) (sq : Nat → Option Nat)
    (edA edD edCofactor : EF (SigParams.ed_bls12_377).q) (edBase R0 : EdG (SigParams.ed_bls12_377) sm) (s0 buf : Bytes) (hs : s0.length = (SigParams.ed_bls12_377).size) :
    eddsasig_bls12_377.Signature_SetBytes (G := EdG (SigParams.ed_bls12_377) sm) (Fp := EF (SigParams.ed_bls12_377).q) edA edD edCofactor ((SigParams.ed_bls12_377).order : Int) edBase
        (fun b => ⟨(SigParams.ed_bls12_377).decompress sq b⟩) (edDecErr (SigParams.ed_bls12_377) sq) (fun X => (SigParams.ed_bls12_377).onCurve X.p) R0 s0 buf
      = edSigExpected (SigParams.ed_bls12_377) sq (fun b => (⟨(SigParams.ed_bls12_377).decompress sq b⟩ : EdG (SigParams.ed_bls12_377) sm)) (edDecErr (SigParams.ed_bls12_377) sq) R0 s0 buf := by
  rw [C12sign_bls12_377_setbytes_shape]
  exact edSigSetBytesT_model (SigParams.ed_bls12_377) (by decide) sm sq edA edD edCofactor edBase R0 s0 buf hs

/-! ### eddsa_bls12_381 -/

/-- `fr.Modulus()` as re-read on this run is the model's field of definition; the loop count / sizes are the model's `size` -/
theorem C12sign_bls12_381_modulus : eddsasig_bls12_381.frModulus = ((SigParams.ed_bls12_381).q : Int) ∧ 0 < (SigParams.ed_bls12_381).size := ⟨rfl, by decide⟩

theorem C12sign_bls12_381_setbytes_shape {G Fp : Type} [Add G] [Sub G] [Neg G] [Zero G] [SMul Int G] [Add Fp] [Sub Fp] [Mul Fp] [Inv Fp] [Zero Fp] [BEq Fp] :
    eddsasig_bls12_381.Signature_SetBytes (G := G) (Fp := Fp) = edSigSetBytesT (SigParams.ed_bls12_381).size ((SigParams.ed_bls12_381).q : Int) := rfl

theorem C12sign_bls12_381_setbytes {G Fp : Type} [Add G] [Sub G] [Neg G] [Zero G] [SMul Int G] [Add Fp] [Sub Fp] [Mul Fp] [Inv Fp] [Zero Fp] [BEq Fp] (sq : Nat → Option Nat) (edA edD edCofactor : Fp) (edBase : G)
    (dec : Bytes → G) (decErr : Bytes → Res) (onC : G → Bool) (φ : G → Nat × Nat)
    (hdec : ∀ b, φ (dec b) = (SigParams.ed_bls12_381).decompress sq b) (honC : ∀ X, onC X = (SigParams.ed_bls12_381).onCurve (φ X))
    (herr : ∀ b : Bytes, b.length = (SigParams.ed_bls12_381).size → (decErr b = Res.ok ↔ (SigParams.ed_bls12_381).hasX sq b = true)) (R0 : G) (s0 buf : Bytes) (hs : s0.length = (SigParams.ed_bls12_381).size) :
    eddsasig_bls12_381.Signature_SetBytes edA edD edCofactor ((SigParams.ed_bls12_381).order : Int) edBase dec decErr onC R0 s0 buf = edSigExpected (SigParams.ed_bls12_381) sq dec decErr R0 s0 buf := by
  rw [C12sign_bls12_381_setbytes_shape]
  exact edSigSetBytesT_spec (SigParams.ed_bls12_381) (by decide) sq edA edD edCofactor edBase dec decErr onC φ hdec honC herr R0 s0 buf hs

theorem C12sign_bls12_381_setbytes_ok {G Fp : Type} [Add G] [Sub G] [Neg G] [Zero G] [SMul Int G] [Add Fp] [Sub Fp] [Mul Fp] [Inv Fp] [Zero Fp] [BEq Fp] (sq : Nat → Option Nat) (edA edD edCofactor : Fp) (edBase : G)
    (dec : Bytes → G) (decErr : Bytes → Res) (onC : G → Bool) (φ : G → Nat × Nat)
    (hdec : ∀ b, φ (dec b) = (SigParams.ed_bls12_381).decompress sq b) (honC : ∀ X, onC X = (SigParams.ed_bls12_381).onCurve (φ X))
    (herr : ∀ b : Bytes, b.length = (SigParams.ed_bls12_381).size → (decErr b = Res.ok ↔ (SigParams.ed_bls12_381).hasX sq b = true)) (R0 : G) (s0 buf : Bytes) (hs : s0.length = (SigParams.ed_bls12_381).size)
    (k : Nat) (R : Nat × Nat) (s : Nat) (h : (SigParams.ed_bls12_381).sigParse sq buf = .ok (k, R, s)) :
    eddsasig_bls12_381.Signature_SetBytes edA edD edCofactor ((SigParams.ed_bls12_381).order : Int) edBase dec decErr onC R0 s0 buf
        = (((2 * (SigParams.ed_bls12_381).size : Nat) : Int), Res.ok, dec (buf.take (SigParams.ed_bls12_381).size), buf.drop (SigParams.ed_bls12_381).size) ∧
      buf.length = 2 * (SigParams.ed_bls12_381).size ∧ k = 2 * (SigParams.ed_bls12_381).size ∧ φ (dec (buf.take (SigParams.ed_bls12_381).size)) = R ∧ beToNat (buf.drop (SigParams.ed_bls12_381).size) = s ∧
      (buf.drop (SigParams.ed_bls12_381).size).length = (SigParams.ed_bls12_381).size := by
  rw [C12sign_bls12_381_setbytes_shape]
  exact edSigSetBytesT_ok (SigParams.ed_bls12_381) (by decide) sq edA edD edCofactor edBase dec decErr onC φ hdec honC herr R0 s0 buf hs k R s h

theorem C12sign_bls12_381_setbytes_err {G Fp : Type} [Add G] [Sub G] [Neg G] [Zero G] [SMul Int G] [Add Fp] [Sub Fp] [Mul Fp] [Inv Fp] [Zero Fp] [BEq Fp] (sq : Nat → Option Nat) (edA edD edCofactor : Fp) (edBase : G)
    (dec : Bytes → G) (decErr : Bytes → Res) (onC : G → Bool) (φ : G → Nat × Nat)
    (hdec : ∀ b, φ (dec b) = (SigParams.ed_bls12_381).decompress sq b) (honC : ∀ X, onC X = (SigParams.ed_bls12_381).onCurve (φ X))
    (herr : ∀ b : Bytes, b.length = (SigParams.ed_bls12_381).size → (decErr b = Res.ok ↔ (SigParams.ed_bls12_381).hasX sq b = true)) (R0 : G) (s0 buf : Bytes) (hs : s0.length = (SigParams.ed_bls12_381).size)
    (e : Err) (h : (SigParams.ed_bls12_381).sigParse sq buf = .error e) :
    (e ≠ .noSqrt → (eddsasig_bls12_381.Signature_SetBytes edA edD edCofactor ((SigParams.ed_bls12_381).order : Int) edBase dec decErr onC R0 s0 buf).2.1 = Res.err (edErrName e)) ∧
    (eddsasig_bls12_381.Signature_SetBytes edA edD edCofactor ((SigParams.ed_bls12_381).order : Int) edBase dec decErr onC R0 s0 buf).2.1 ≠ Res.ok ∧
    (eddsasig_bls12_381.Signature_SetBytes edA edD edCofactor ((SigParams.ed_bls12_381).order : Int) edBase dec decErr onC R0 s0 buf).2.2.2 = s0 := by
  rw [C12sign_bls12_381_setbytes_shape]
  have t := edSigSetBytesT_err (SigParams.ed_bls12_381) (by decide) sq edA edD edCofactor edBase dec decErr onC φ hdec honC herr R0 s0 buf hs e h
  exact ⟨t.1, t.2.1, t.2.2.1⟩

/-- non-vacuity: the hypotheses hold for the model's own dictionary, for every buffer -/
theorem C12sign_bls12_381_setbytes_model (sm : Nat → Nat × Nat → Nat × Nat) (sq : Nat → Option Nat)
    (edA edD edCofactor : EF (SigParams.ed_bls12_381).q) (edBase R0 : EdG (SigParams.ed_bls12_381) sm) (s0 buf : Bytes) (hs : s0.length = (SigParams.ed_bls12_381).size) :
    eddsasig_bls12_381.Signature_SetBytes (G := EdG (SigParams.ed_bls12_381) sm) (Fp := EF (SigParams.ed_bls12_381).q) edA edD edCofactor ((SigParams.ed_bls12_381).order : Int) edBase
        (fun b => ⟨(SigParams.ed_bls12_381).decompress sq b⟩) (edDecErr (SigParams.ed_bls12_381) sq) (fun X => (SigParams.ed_bls12_381).onCurve X.p) R0 s0 buf
      = edSigExpected (SigParams.ed_bls12_381) sq (fun b => (⟨(SigParams.ed_bls12_381).decompress sq b⟩ : EdG (SigParams.ed_bls12_381) sm)) (edDecErr (SigParams.ed_bls12_381) sq) R0 s0 buf := by
  rw [C12sign_bls12_381_setbytes_shape]
  exact edSigSetBytesT_model (SigParams.ed_bls12_381) (by decide) sm sq edA edD edCofactor edBase R0 s0 buf hs

/-! ### eddsa_bandersnatch -/

/-- `fr.Modulus()` as re-read on this run is the model's field of definition; the loop count / sizes are the model's `size` -/
theorem C12sign_bandersnatch_modulus : eddsasig_bandersnatch.frModulus = ((SigParams.ed_bandersnatch).q : Int) ∧ 0 < (SigParams.ed_bandersnatch).size := ⟨rfl, by decide⟩

theorem C12sign_bandersnatch_setbytes_shape {G Fp : Type} [Add G] [Sub G] [Neg G] [Zero G] [SMul Int G] [Add Fp] [Sub Fp] [Mul Fp] [Inv Fp] [Zero Fp] [BEq Fp] :
    eddsasig_bandersnatch.Signature_SetBytes (G := G) (Fp := Fp) = edSigSetBytesT (SigParams.ed_bandersnatch).size ((SigParams.ed_bandersnatch).q : Int) := rfl

theorem C12sign_bandersnatch_setbytes {G Fp : Type} [Add G] [Sub G] [Neg G] [Zero G] [SMul Int G] [Add Fp] [Sub Fp] [Mul Fp] [Inv Fp] [Zero Fp] [BEq Fp] (sq : Nat → Option Nat) (edA edD edCofactor : Fp) (edBase : G)
    (dec : Bytes → G) (decErr : Bytes → Res) (onC : G → Bool) (φ : G → Nat × Nat)
    (hdec : ∀ b, φ (dec b) = (SigParams.ed_bandersnatch).decompress sq b) (honC : ∀ X, onC X = (SigParams.ed_bandersnatch).onCurve (φ X))
    (herr : ∀ b : Bytes, b.length = (SigParams.ed_bandersnatch).size → (decErr b = Res.ok ↔ (SigParams.ed_bandersnatch).hasX sq b = true)) (R0 : G) (s0 buf : Bytes) (hs : s0.length = (SigParams.ed_bandersnatch).size) :
    eddsasig_bandersnatch.Signature_SetBytes edA edD edCofactor ((SigParams.ed_bandersnatch).order : Int) edBase dec decErr onC R0 s0 buf = edSigExpected (SigParams.ed_bandersnatch) sq dec decErr R0 s0 buf := by
  rw [C12sign_bandersnatch_setbytes_shape]
  exact edSigSetBytesT_spec (SigParams.ed_bandersnatch) (by decide) sq edA edD edCofactor edBase dec decErr onC φ hdec honC herr R0 s0 buf hs

theorem C12sign_bandersnatch_setbytes_ok {G Fp : Type} [Add G] [Sub G] [Neg G] [Zero G] [SMul Int G] [Add Fp] [Sub Fp] [Mul Fp] [Inv Fp] [Zero Fp] [BEq Fp] (sq : Nat → Option Nat) (edA edD edCofactor : Fp) (edBase : G)
    (dec : Bytes → G) (decErr : Bytes → Res) (onC : G → Bool) (φ : G → Nat × Nat)
    (hdec : ∀ b, φ (dec b) = (SigParams.ed_bandersnatch).decompress sq b) (honC : ∀ X, onC X = (SigParams.ed_bandersnatch).onCurve (φ X))
    (herr : ∀ b : Bytes, b.length = (SigParams.ed_bandersnatch).size → (decErr b = Res.ok ↔ (SigParams.ed_bandersnatch).hasX sq b = true)) (R0 : G) (s0 buf : Bytes) (hs : s0.length = (SigParams.ed_bandersnatch).size)
    (k : Nat) (R : Nat × Nat) (s : Nat) (h : (SigParams.ed_bandersnatch).sigParse sq buf = .ok (k, R, s)) :
    eddsasig_bandersnatch.Signature_SetBytes edA edD edCofactor ((SigParams.ed_bandersnatch).order : Int) edBase dec decErr onC R0 s0 buf
        = (((2 * (SigParams.ed_bandersnatch).size : Nat) : Int), Res.ok, dec (buf.take (SigParams.ed_bandersnatch).size), buf.drop (SigParams.ed_bandersnatch).size) ∧
      buf.length = 2 * (SigParams.ed_bandersnatch).size ∧ k = 2 * (SigParams.ed_bandersnatch).size ∧ φ (dec (buf.take (SigParams.ed_bandersnatch).size)) = R ∧ beToNat (buf.drop (SigParams.ed_bandersnatch).size) = s ∧
      (buf.drop (SigParams.ed_bandersnatch).size).length = (SigParams.ed_bandersnatch).size := by
  rw [C12sign_bandersnatch_setbytes_shape]
  exact edSigSetBytesT_ok (SigParams.ed_bandersnatch) (by decide) sq edA edD edCofactor edBase dec decErr onC φ hdec honC herr R0 s0 buf hs k R s h

theorem C12sign_bandersnatch_setbytes_err {G Fp : Type} [Add G] [Sub G] [Neg G] [Zero G] [SMul Int G] [Add Fp] [Sub Fp] [Mul Fp] [Inv Fp] [Zero Fp] [BEq Fp] (sq : Nat → Option Nat) (edA edD edCofactor : Fp) (edBase : G)
    (dec : Bytes → G) (decErr : Bytes → Res) (onC : G → Bool) (φ : G → Nat × Nat)
    (hdec : ∀ b, φ (dec b) = (SigParams.ed_bandersnatch).decompress sq b) (honC : ∀ X, onC X = (SigParams.ed_bandersnatch).onCurve (φ X))
    (herr : ∀ b : Bytes, b.length = (SigParams.ed_bandersnatch).size → (decErr b = Res.ok ↔ (SigParams.ed_bandersnatch).hasX sq b = true)) (R0 : G) (s0 buf : Bytes) (hs : s0.length = (SigParams.ed_bandersnatch).size)
    (e : Err) (h : (SigParams.ed_bandersnatch).sigParse sq buf = .error e) :
    (e ≠ .noSqrt → (eddsasig_bandersnatch.Signature_SetBytes edA edD edCofactor ((SigParams.ed_bandersnatch).order : Int) edBase dec decErr onC R0 s0 buf).2.1 = Res.err (edErrName e)) ∧
    (eddsasig_bandersnatch.Signature_SetBytes edA edD edCofactor ((SigParams.ed_bandersnatch).order : Int) edBase dec decErr onC R0 s0 buf).2.1 ≠ Res.ok ∧
    (eddsasig_bandersnatch.Signature_SetBytes edA edD edCofactor ((SigParams.ed_bandersnatch).order : Int) edBase dec decErr onC R0 s0 buf).2.2.2 = s0 := by
  rw [C12sign_bandersnatch_setbytes_shape]
  have t := edSigSetBytesT_err (SigParams.ed_bandersnatch) (by decide) sq edA edD edCofactor edBase dec decErr onC φ hdec honC herr R0 s0 buf hs e h
  exact ⟨t.1, t.2.1, t.2.2.1⟩

/-- non-vacuity: the hypotheses hold for the model's own dictionary, for every buffer -/
theorem C12sign_bandersnatch_setbytes_model (sm : Nat → Nat × Nat → Nat × Nat) (sq : Nat → Option Nat)
    (edA edD edCofactor : EF (SigParams.ed_bandersnatch).q) (edBase R0 : EdG (SigParams.ed_bandersnatch) sm) (s0 buf : Bytes) (hs : s0.length = (SigParams.ed_bandersnatch).size) :
    eddsasig_bandersnatch.Signature_SetBytes (G := EdG (SigParams.ed_bandersnatch) sm) (Fp := EF (SigParams.ed_bandersnatch).q) edA edD edCofactor ((SigParams.ed_bandersnatch).order : Int) edBase
        (fun b => ⟨(SigParams.ed_bandersnatch).decompress sq b⟩) (edDecErr (SigParams.ed_bandersnatch) sq) (fun X => (SigParams.ed_bandersnatch).onCurve X.p) R0 s0 buf
      = edSigExpected (SigParams.ed_bandersnatch) sq (fun b => (⟨(SigParams.ed_bandersnatch).decompress sq b⟩ : EdG (SigParams.ed_bandersnatch) sm)) (edDecErr (SigParams.ed_bandersnatch) sq) R0 s0 buf := by
  rw [C12sign_bandersnatch_setbytes_shape]
  exact edSigSetBytesT_model (SigParams.ed_bandersnatch) (by decide) sm sq edA edD edCofactor edBase R0 s0 buf hs

/-! ### eddsa_bls24_315 -/

/-- `fr.Modulus()` as re-read on this run is the model's field of definition; the loop count / sizes are the model's `size` -/
theorem C12sign_bls24_315_modulus : eddsasig_bls24_315.frModulus = ((SigParams.ed_bls24_315).q : Int) ∧ 0 < (SigParams.ed_bls24_315).size := ⟨rfl, by decide⟩

theorem C12sign_bls24_315_setbytes_shape {G Fp : Type} [Add G] [Sub G] [Neg G] [Zero G] [SMul Int G] [Add Fp] [Sub Fp] [Mul Fp] [Inv Fp] [Zero Fp] [BEq Fp] :
    eddsasig_bls24_315.Signature_SetBytes (G := G) (Fp := Fp) = edSigSetBytesT (SigParams.ed_bls24_315).size ((SigParams.ed_bls24_315).q : Int) := rfl

theorem C12sign_bls24_315_setbytes {G Fp : Type} [Add G] [Sub G] [Neg G] [Zero G] [SMul Int G] [Add Fp] [Sub Fp] [Mul Fp] [Inv Fp] [Zero Fp] [BEq Fp] (sq : Nat → Option Nat) (edA edD edCofactor : Fp) (edBase : G)
    (dec : Bytes → G) (decErr : Bytes → Res) (onC : G → Bool) (φ : G → Nat × Nat)
    (hdec : ∀ b, φ (dec b) = (SigParams.ed_bls24_315).decompress sq b) (honC : ∀ X, onC X = (SigParams.ed_bls24_315).onCurve (φ X))
    (herr : ∀ b : Bytes, b.length = (SigParams.ed_bls24_315).size → (decErr b = Res.ok ↔ (SigParams.ed_bls24_315).hasX sq b = true)) (R0 : G) (s0 buf : Bytes) (hs : s0.length = (SigParams.ed_bls24_315).size) :
    eddsasig_bls24_315.Signature_SetBytes edA edD edCofactor ((SigParams.ed_bls24_315).order : Int) edBase dec decErr onC R0 s0 buf = edSigExpected (SigParams.ed_bls24_315) sq dec decErr R0 s0 buf := by
  rw [C12sign_bls24_315_setbytes_shape]
  exact edSigSetBytesT_spec (SigParams.ed_bls24_315) (by decide) sq edA edD edCofactor edBase dec decErr onC φ hdec honC herr R0 s0 buf hs

theorem C12sign_bls24_315_setbytes_ok {G Fp : Type} [Add G] [Sub G] [Neg G] [Zero G] [SMul Int G] [Add Fp] [Sub Fp] [Mul Fp] [Inv Fp] [Zero Fp] [BEq Fp] (sq : Nat → Option Nat) (edA edD edCofactor : Fp) (edBase : G)
    (dec : Bytes → G) (decErr : Bytes → Res) (onC : G → Bool) (φ : G → Nat × Nat)
    (hdec : ∀ b, φ (dec b) = (SigParams.ed_bls24_315).decompress sq b) (honC : ∀ X, onC X = (SigParams.ed_bls24_315).onCurve (φ X))
    (herr : ∀ b : Bytes, b.length = (SigParams.ed_bls24_315).size → (decErr b = Res.ok ↔ (SigParams.ed_bls24_315).hasX sq b = true)) (R0 : G) (s0 buf : Bytes) (hs : s0.length = (SigParams.ed_bls24_315).size)
    (k : Nat) (R : Nat × Nat) (s : Nat) (h : (SigParams.ed_bls24_315).sigParse sq buf = .ok (k, R, s)) :
    eddsasig_bls24_315.Signature_SetBytes edA edD edCofactor ((SigParams.ed_bls24_315).order : Int) edBase dec decErr onC R0 s0 buf
        = (((2 * (SigParams.ed_bls24_315).size : Nat) : Int), Res.ok, dec (buf.take (SigParams.ed_bls24_315).size), buf.drop (SigParams.ed_bls24_315).size) ∧
      buf.length = 2 * (SigParams.ed_bls24_315).size ∧ k = 2 * (SigParams.ed_bls24_315).size ∧ φ (dec (buf.take (SigParams.ed_bls24_315).size)) = R ∧ beToNat (buf.drop (SigParams.ed_bls24_315).size) = s ∧
      (buf.drop (SigParams.ed_bls24_315).size).length = (SigParams.ed_bls24_315).size := by
  rw [C12sign_bls24_315_setbytes_shape]
  exact edSigSetBytesT_ok (SigParams.ed_bls24_315) (by decide) sq edA edD edCofactor edBase dec decErr onC φ hdec honC herr R0 s0 buf hs k R s h

theorem C12sign_bls24_315_setbytes_err {G Fp : Type} [Add G] [Sub G] [Neg G] [Zero G] [SMul Int G] [Add Fp] [Sub Fp] [Mul Fp] [Inv Fp] [Zero Fp] [BEq Fp] (sq : Nat → Option Nat) (edA edD edCofactor : Fp) (edBase : G)
    (dec : Bytes → G) (decErr : Bytes → Res) (onC : G → Bool) (φ : G → Nat × Nat)
    (hdec : ∀ b, φ (dec b) = (SigParams.ed_bls24_315).decompress sq b) (honC : ∀ X, onC X = (SigParams.ed_bls24_315).onCurve (φ X))
    (herr : ∀ b : Bytes, b.length = (SigParams.ed_bls24_315).size → (decErr b = Res.ok ↔ (SigParams.ed_bls24_315).hasX sq b = true)) (R0 : G) (s0 buf : Bytes) (hs : s0.length = (SigParams.ed_bls24_315).size)
    (e : Err) (h : (SigParams.ed_bls24_315).sigParse sq buf = .error e) :
    (e ≠ .noSqrt → (eddsasig_bls24_315.Signature_SetBytes edA edD edCofactor ((SigParams.ed_bls24_315).order : Int) edBase dec decErr onC R0 s0 buf).2.1 = Res.err (edErrName e)) ∧
    (eddsasig_bls24_315.Signature_SetBytes edA edD edCofactor ((SigParams.ed_bls24_315).order : Int) edBase dec decErr onC R0 s0 buf).2.1 ≠ Res.ok ∧
    (eddsasig_bls24_315.Signature_SetBytes edA edD edCofactor ((SigParams.ed_bls24_315).order : Int) edBase dec decErr onC R0 s0 buf).2.2.2 = s0 := by
  rw [C12sign_bls24_315_setbytes_shape]
  have t := edSigSetBytesT_err (SigParams.ed_bls24_315) (by decide) sq edA edD edCofactor edBase dec decErr onC φ hdec honC herr R0 s0 buf hs e h
  exact ⟨t.1, t.2.1, t.2.2.1⟩

/-- non-vacuity: the hypotheses hold for the model's own dictionary, for every buffer -/
theorem C12sign_bls24_315_setbytes_model (sm : Nat → Nat × Nat → Nat × Nat) (sq : Nat → Option Nat)
    (edA edD edCofactor : EF (SigParams.ed_bls24_315).q) (edBase R0 : EdG (SigParams.ed_bls24_315) sm) (s0 buf : Bytes) (hs : s0.length = (SigParams.ed_bls24_315).size) :
    eddsasig_bls24_315.Signature_SetBytes (G := EdG (SigParams.ed_bls24_315) sm) (Fp := EF (SigParams.ed_bls24_315).q) edA edD edCofactor ((SigParams.ed_bls24_315).order : Int) edBase
        (fun b => ⟨(SigParams.ed_bls24_315).decompress sq b⟩) (edDecErr (SigParams.ed_bls24_315) sq) (fun X => (SigParams.ed_bls24_315).onCurve X.p) R0 s0 buf
      = edSigExpected (SigParams.ed_bls24_315) sq (fun b => (⟨(SigParams.ed_bls24_315).decompress sq b⟩ : EdG (SigParams.ed_bls24_315) sm)) (edDecErr (SigParams.ed_bls24_315) sq) R0 s0 buf := by
  rw [C12sign_bls24_315_setbytes_shape]
  exact edSigSetBytesT_model (SigParams.ed_bls24_315) (by decide) sm sq edA edD edCofactor edBase R0 s0 buf hs

/-! ### eddsa_bls24_317 -/

/-- `fr.Modulus()` as re-read on this run is the model's field of definition; the loop count / sizes are the model's `size` -/
theorem C12sign_bls24_317_modulus : eddsasig_bls24_317.frModulus = ((SigParams.ed_bls24_317).q : Int) ∧ 0 < (SigParams.ed_bls24_317).size := ⟨rfl, by decide⟩

theorem C12sign_bls24_317_setbytes_shape {G Fp : Type} [Add G] [Sub G] [Neg G] [Zero G] [SMul Int G] [Add Fp] [Sub Fp] [Mul Fp] [Inv Fp] [Zero Fp] [BEq Fp] :
    eddsasig_bls24_317.Signature_SetBytes (G := G) (Fp := Fp) = edSigSetBytesT (SigParams.ed_bls24_317).size ((SigParams.ed_bls24_317).q : Int) := rfl

theorem C12sign_bls24_317_setbytes {G Fp : Type} [Add G] [Sub G] [Neg G] [Zero G] [SMul Int G] [Add Fp] [Sub Fp] [Mul Fp] [Inv Fp] [Zero Fp] [BEq Fp] (sq : Nat → Option Nat) (edA edD edCofactor : Fp) (edBase : G)
    (dec : Bytes → G) (decErr : Bytes → Res) (onC : G → Bool) (φ : G → Nat × Nat)
    (hdec : ∀ b, φ (dec b) = (SigParams.ed_bls24_317).decompress sq b) (honC : ∀ X, onC X = (SigParams.ed_bls24_317).onCurve (φ X))
    (herr : ∀ b : Bytes, b.length = (SigParams.ed_bls24_317).size → (decErr b = Res.ok ↔ (SigParams.ed_bls24_317).hasX sq b = true)) (R0 : G) (s0 buf : Bytes) (hs : s0.length = (SigParams.ed_bls24_317).size) :
    eddsasig_bls24_317.Signature_SetBytes edA edD edCofactor ((SigParams.ed_bls24_317).order : Int) edBase dec decErr onC R0 s0 buf = edSigExpected (SigParams.ed_bls24_317) sq dec decErr R0 s0 buf := by
  rw [C12sign_bls24_317_setbytes_shape]
  exact edSigSetBytesT_spec (SigParams.ed_bls24_317) (by decide) sq edA edD edCofactor edBase dec decErr onC φ hdec honC herr R0 s0 buf hs

theorem C12sign_bls24_317_setbytes_ok {G Fp : Type} [Add G] [Sub G] [Neg G] [Zero G] [SMul Int G] [Add Fp] [Sub Fp] [Mul Fp] [Inv Fp] [Zero Fp] [BEq Fp] (sq : Nat → Option Nat) (edA edD edCofactor : Fp) (edBase : G)
    (dec : Bytes → G) (decErr : Bytes → Res) (onC : G → Bool) (φ : G → Nat × Nat)
    (hdec : ∀ b, φ (dec b) = (SigParams.ed_bls24_317).decompress sq b) (honC : ∀ X, onC X = (SigParams.ed_bls24_317).onCurve (φ X))
    (herr : ∀ b : Bytes, b.length = (SigParams.ed_bls24_317).size → (decErr b = Res.ok ↔ (SigParams.ed_bls24_317).hasX sq b = true)) (R0 : G) (s0 buf : Bytes) (hs : s0.length = (SigParams.ed_bls24_317).size)
    (k : Nat) (R : Nat × Nat) (s : Nat) (h : (SigParams.ed_bls24_317).sigParse sq buf = .ok (k, R, s)) :
    eddsasig_bls24_317.Signature_SetBytes edA edD edCofactor ((SigParams.ed_bls24_317).order : Int) edBase dec decErr onC R0 s0 buf
        = (((2 * (SigParams.ed_bls24_317).size : Nat) : Int), Res.ok, dec (buf.take (SigParams.ed_bls24_317).size), buf.drop (SigParams.ed_bls24_317).size) ∧
      buf.length = 2 * (SigParams.ed_bls24_317).size ∧ k = 2 * (SigParams.ed_bls24_317).size ∧ φ (dec (buf.take (SigParams.ed_bls24_317).size)) = R ∧ beToNat (buf.drop (SigParams.ed_bls24_317).size) = s ∧
      (buf.drop (SigParams.ed_bls24_317).size).length = (SigParams.ed_bls24_317).size := by
  rw [C12sign_bls24_317_setbytes_shape]
  exact edSigSetBytesT_ok (SigParams.ed_bls24_317) (by decide) sq edA edD edCofactor edBase dec decErr onC φ hdec honC herr R0 s0 buf hs k R s h

theorem C12sign_bls24_317_setbytes_err {G Fp : Type} [Add G] [Sub G] [Neg G] [Zero G] [SMul Int G] [Add Fp] [Sub Fp] [Mul Fp] [Inv Fp] [Zero Fp] [BEq Fp] (sq : Nat → Option Nat) (edA edD edCofactor : Fp) (edBase : G)
    (dec : Bytes → G) (decErr : Bytes → Res) (onC : G → Bool) (φ : G → Nat × Nat)
    (hdec : ∀ b, φ (dec b) = (SigParams.ed_bls24_317).decompress sq b) (honC : ∀ X, onC X = (SigParams.ed_bls24_317).onCurve (φ X))
    (herr : ∀ b : Bytes, b.length = (SigParams.ed_bls24_317).size → (decErr b = Res.ok ↔ (SigParams.ed_bls24_317).hasX sq b = true)) (R0 : G) (s0 buf : Bytes) (hs : s0.length = (SigParams.ed_bls24_317).size)
    (e : Err) (h : (SigParams.ed_bls24_317).sigParse sq buf = .error e) :
    (e ≠ .noSqrt → (eddsasig_bls24_317.Signature_SetBytes edA edD edCofactor ((SigParams.ed_bls24_317).order : Int) edBase dec decErr onC R0 s0 buf).2.1 = Res.err (edErrName e)) ∧
    (eddsasig_bls24_317.Signature_SetBytes edA edD edCofactor ((SigParams.ed_bls24_317).order : Int) edBase dec decErr onC R0 s0 buf).2.1 ≠ Res.ok ∧
    (eddsasig_bls24_317.Signature_SetBytes edA edD edCofactor ((SigParams.ed_bls24_317).order : Int) edBase dec decErr onC R0 s0 buf).2.2.2 = s0 := by
  rw [C12sign_bls24_317_setbytes_shape]
  have t := edSigSetBytesT_err (SigParams.ed_bls24_317) (by decide) sq edA edD edCofactor edBase dec decErr onC φ hdec honC herr R0 s0 buf hs e h
  exact ⟨t.1, t.2.1, t.2.2.1⟩

/-- non-vacuity: the hypotheses hold for the model's own dictionary, for every buffer -/
theorem C12sign_bls24_317_setbytes_model (sm : Nat → Nat × Nat → Nat × Nat) (sq : Nat → Option Nat)
    (edA edD edCofactor : EF (SigParams.ed_bls24_317).q) (edBase R0 : EdG (SigParams.ed_bls24_317) sm) (s0 buf : Bytes) (hs : s0.length = (SigParams.ed_bls24_317).size) :
    eddsasig_bls24_317.Signature_SetBytes (G := EdG (SigParams.ed_bls24_317) sm) (Fp := EF (SigParams.ed_bls24_317).q) edA edD edCofactor ((SigParams.ed_bls24_317).order : Int) edBase
        (fun b => ⟨(SigParams.ed_bls24_317).decompress sq b⟩) (edDecErr (SigParams.ed_bls24_317) sq) (fun X => (SigParams.ed_bls24_317).onCurve X.p) R0 s0 buf
      = edSigExpected (SigParams.ed_bls24_317) sq (fun b => (⟨(SigParams.ed_bls24_317).decompress sq b⟩ : EdG (SigParams.ed_bls24_317) sm)) (edDecErr (SigParams.ed_bls24_317) sq) R0 s0 buf := by
  rw [C12sign_bls24_317_setbytes_shape]
  exact edSigSetBytesT_model (SigParams.ed_bls24_317) (by decide) sm sq edA edD edCofactor edBase R0 s0 buf hs

/-! ### eddsa_bw6_633 -/

/-- `fr.Modulus()` as re-read on this run is the model's field of definition; the loop count / sizes are the model's `size` -/
theorem C12sign_bw6_633_modulus : eddsasig_bw6_633.frModulus = ((SigParams.ed_bw6_633).q : Int) ∧ 0 < (SigParams.ed_bw6_633).size := ⟨rfl, by decide⟩

theorem C12sign_bw6_633_setbytes_shape {G Fp : Type} [Add G] [Sub G] [Neg G] [Zero G] [SMul Int G] [Add Fp] [Sub Fp] [Mul Fp] [Inv Fp] [Zero Fp] [BEq Fp] :
    eddsasig_bw6_633.Signature_SetBytes (G := G) (Fp := Fp) = edSigSetBytesT (SigParams.ed_bw6_633).size ((SigParams.ed_bw6_633).q : Int) := rfl

theorem C12sign_bw6_633_setbytes {G Fp : Type} [Add G] [Sub G] [Neg G] [Zero G] [SMul Int G] [Add Fp] [Sub Fp] [Mul Fp] [Inv Fp] [Zero Fp] [BEq Fp] (sq : Nat → Option Nat) (edA edD edCofactor : Fp) (edBase : G)
    (dec : Bytes → G) (decErr : Bytes → Res) (onC : G → Bool) (φ : G → Nat × Nat)
    (hdec : ∀ b, φ (dec b) = (SigParams.ed_bw6_633).decompress sq b) (honC : ∀ X, onC X = (SigParams.ed_bw6_633).onCurve (φ X))
    (herr : ∀ b : Bytes, b.length = (SigParams.ed_bw6_633).size → (decErr b = Res.ok ↔ (SigParams.ed_bw6_633).hasX sq b = true)) (R0 : G) (s0 buf : Bytes) (hs : s0.length = (SigParams.ed_bw6_633).size) :
    eddsasig_bw6_633.Signature_SetBytes edA edD edCofactor ((SigParams.ed_bw6_633).order : Int) edBase dec decErr onC R0 s0 buf = edSigExpected (SigParams.ed_bw6_633) sq dec decErr R0 s0 buf := by
  rw [C12sign_bw6_633_setbytes_shape]
  exact edSigSetBytesT_spec (SigParams.ed_bw6_633) (by decide) sq edA edD edCofactor edBase dec decErr onC φ hdec honC herr R0 s0 buf hs

theorem C12sign_bw6_633_setbytes_ok {G Fp : Type} [Add G] [Sub G] [Neg G] [Zero G] [SMul Int G] [Add Fp] [Sub Fp] [Mul Fp] [Inv Fp] [Zero Fp] [BEq Fp] (sq : Nat → Option Nat) (edA edD edCofactor : Fp) (edBase : G)
    (dec : Bytes → G) (decErr : Bytes → Res) (onC : G → Bool) (φ : G → Nat × Nat)
    (hdec : ∀ b, φ (dec b) = (SigParams.ed_bw6_633).decompress sq b) (honC : ∀ X, onC X = (SigParams.ed_bw6_633).onCurve (φ X))
    (herr : ∀ b : Bytes, b.length = (SigParams.ed_bw6_633).size → (decErr b = Res.ok ↔ (SigParams.ed_bw6_633).hasX sq b = true)) (R0 : G) (s0 buf : Bytes) (hs : s0.length = (SigParams.ed_bw6_633).size)
    (k : Nat) (R : Nat × Nat) (s : Nat) (h : (SigParams.ed_bw6_633).sigParse sq buf = .ok (k, R, s)) :
    eddsasig_bw6_633.Signature_SetBytes edA edD edCofactor ((SigParams.ed_bw6_633).order : Int) edBase dec decErr onC R0 s0 buf
        = (((2 * (SigParams.ed_bw6_633).size : Nat) : Int), Res.ok, dec (buf.take (SigParams.ed_bw6_633).size), buf.drop (SigParams.ed_bw6_633).size) ∧
      buf.length = 2 * (SigParams.ed_bw6_633).size ∧ k = 2 * (SigParams.ed_bw6_633).size ∧ φ (dec (buf.take (SigParams.ed_bw6_633).size)) = R ∧ beToNat (buf.drop (SigParams.ed_bw6_633).size) = s ∧
      (buf.drop (SigParams.ed_bw6_633).size).length = (SigParams.ed_bw6_633).size := by
  rw [C12sign_bw6_633_setbytes_shape]
  exact edSigSetBytesT_ok (SigParams.ed_bw6_633) (by decide) sq edA edD edCofactor edBase dec decErr onC φ hdec honC herr R0 s0 buf hs k R s h

theorem C12sign_bw6_633_setbytes_err {G Fp : Type} [Add G] [Sub G] [Neg G] [Zero G] [SMul Int G] [Add Fp] [Sub Fp] [Mul Fp] [Inv Fp] [Zero Fp] [BEq Fp] (sq : Nat → Option Nat) (edA edD edCofactor : Fp) (edBase : G)
    (dec : Bytes → G) (decErr : Bytes → Res) (onC : G → Bool) (φ : G → Nat × Nat)
    (hdec : ∀ b, φ (dec b) = (SigParams.ed_bw6_633).decompress sq b) (honC : ∀ X, onC X = (SigParams.ed_bw6_633).onCurve (φ X))
    (herr : ∀ b : Bytes, b.length = (SigParams.ed_bw6_633).size → (decErr b = Res.ok ↔ (SigParams.ed_bw6_633).hasX sq b = true)) (R0 : G) (s0 buf : Bytes) (hs : s0.length = (SigParams.ed_bw6_633).size)
    (e : Err) (h : (SigParams.ed_bw6_633).sigParse sq buf = .error e) :
    (e ≠ .noSqrt → (eddsasig_bw6_633.Signature_SetBytes edA edD edCofactor ((SigParams.ed_bw6_633).order : Int) edBase dec decErr onC R0 s0 buf).2.1 = Res.err (edErrName e)) ∧
    (eddsasig_bw6_633.Signature_SetBytes edA edD edCofactor ((SigParams.ed_bw6_633).order : Int) edBase dec decErr onC R0 s0 buf).2.1 ≠ Res.ok ∧
    (eddsasig_bw6_633.Signature_SetBytes edA edD edCofactor ((SigParams.ed_bw6_633).order : Int) edBase dec decErr onC R0 s0 buf).2.2.2 = s0 := by
  rw [C12sign_bw6_633_setbytes_shape]
  have t := edSigSetBytesT_err (SigParams.ed_bw6_633) (by decide) sq edA edD edCofactor edBase dec decErr onC φ hdec honC herr R0 s0 buf hs e h
  exact ⟨t.1, t.2.1, t.2.2.1⟩

/-- non-vacuity: the hypotheses hold for the model's own dictionary, for every buffer -/
theorem C12sign_bw6_633_setbytes_model (sm : Nat → Nat × Nat → Nat × Nat) (sq : Nat → Option Nat)
    (edA edD edCofactor : EF (SigParams.ed_bw6_633).q) (edBase R0 : EdG (SigParams.ed_bw6_633) sm) (s0 buf : Bytes) (hs : s0.length = (SigParams.ed_bw6_633).size) :
    eddsasig_bw6_633.Signature_SetBytes (G := EdG (SigParams.ed_bw6_633) sm) (Fp := EF (SigParams.ed_bw6_633).q) edA edD edCofactor ((SigParams.ed_bw6_633).order : Int) edBase
        (fun b => ⟨(SigParams.ed_bw6_633).decompress sq b⟩) (edDecErr (SigParams.ed_bw6_633) sq) (fun X => (SigParams.ed_bw6_633).onCurve X.p) R0 s0 buf
      = edSigExpected (SigParams.ed_bw6_633) sq (fun b => (⟨(SigParams.ed_bw6_633).decompress sq b⟩ : EdG (SigParams.ed_bw6_633) sm)) (edDecErr (SigParams.ed_bw6_633) sq) R0 s0 buf := by
  rw [C12sign_bw6_633_setbytes_shape]
  exact edSigSetBytesT_model (SigParams.ed_bw6_633) (by decide) sm sq edA edD edCofactor edBase R0 s0 buf hs

/-! ### eddsa_bw6_761 -/

/-- `fr.Modulus()` as re-read on this run is the model's field of definition; the loop count / sizes are the model's `size` -/
theorem C12sign_bw6_761_modulus : eddsasig_bw6_761.frModulus = ((SigParams.ed_bw6_761).q : Int) ∧ 0 < (SigParams.ed_bw6_761).size := ⟨rfl, by decide⟩

theorem C12sign_bw6_761_setbytes_shape {G Fp : Type} [Add G] [Sub G] [Neg G] [Zero G] [SMul Int G] [Add Fp] [Sub Fp] [Mul Fp] [Inv Fp] [Zero Fp] [BEq Fp] :
    eddsasig_bw6_761.Signature_SetBytes (G := G) (Fp := Fp) = edSigSetBytesT (SigParams.ed_bw6_761).size ((SigParams.ed_bw6_761).q : Int) := rfl

theorem C12sign_bw6_761_setbytes {G Fp : Type} [Add G] [Sub G] [Neg G] [Zero G] [SMul Int G] [Add Fp] [Sub Fp] [Mul Fp] [Inv Fp] [Zero Fp] [BEq Fp] (sq : Nat → Option Nat) (edA edD edCofactor : Fp) (edBase : G)
    (dec : Bytes → G) (decErr : Bytes → Res) (onC : G → Bool) (φ : G → Nat × Nat)
    (hdec : ∀ b, φ (dec b) = (SigParams.ed_bw6_761).decompress sq b) (honC : ∀ X, onC X = (SigParams.ed_bw6_761).onCurve (φ X))
    (herr : ∀ b : Bytes, b.length = (SigParams.ed_bw6_761).size → (decErr b = Res.ok ↔ (SigParams.ed_bw6_761).hasX sq b = true)) (R0 : G) (s0 buf : Bytes) (hs : s0.length = (SigParams.ed_bw6_761).size) :
    eddsasig_bw6_761.Signature_SetBytes edA edD edCofactor ((SigParams.ed_bw6_761).order : Int) edBase dec decErr onC R0 s0 buf = edSigExpected (SigParams.ed_bw6_761) sq dec decErr R0 s0 buf := by
  rw [C12sign_bw6_761_setbytes_shape]
  exact edSigSetBytesT_spec (SigParams.ed_bw6_761) (by decide) sq edA edD edCofactor edBase dec decErr onC φ hdec honC herr R0 s0 buf hs

theorem C12sign_bw6_761_setbytes_ok {G Fp : Type} [Add G] [Sub G] [Neg G] [Zero G] [SMul Int G] [Add Fp] [Sub Fp] [Mul Fp] [Inv Fp] [Zero Fp] [BEq Fp] (sq : Nat → Option Nat) (edA edD edCofactor : Fp) (edBase : G)
    (dec : Bytes → G) (decErr : Bytes → Res) (onC : G → Bool) (φ : G → Nat × Nat)
    (hdec : ∀ b, φ (dec b) = (SigParams.ed_bw6_761).decompress sq b) (honC : ∀ X, onC X = (SigParams.ed_bw6_761).onCurve (φ X))
    (herr : ∀ b : Bytes, b.length = (SigParams.ed_bw6_761).size → (decErr b = Res.ok ↔ (SigParams.ed_bw6_761).hasX sq b = true)) (R0 : G) (s0 buf : Bytes) (hs : s0.length = (SigParams.ed_bw6_761).size)
    (k : Nat) (R : Nat × Nat) (s : Nat) (h : (SigParams.ed_bw6_761).sigParse sq buf = .ok (k, R, s)) :
    eddsasig_bw6_761.Signature_SetBytes edA edD edCofactor ((SigParams.ed_bw6_761).order : Int) edBase dec decErr onC R0 s0 buf
        = (((2 * (SigParams.ed_bw6_761).size : Nat) : Int), Res.ok, dec (buf.take (SigParams.ed_bw6_761).size), buf.drop (SigParams.ed_bw6_761).size) ∧
      buf.length = 2 * (SigParams.ed_bw6_761).size ∧ k = 2 * (SigParams.ed_bw6_761).size ∧ φ (dec (buf.take (SigParams.ed_bw6_761).size)) = R ∧ beToNat (buf.drop (SigParams.ed_bw6_761).size) = s ∧
      (buf.drop (SigParams.ed_bw6_761).size).length = (SigParams.ed_bw6_761).size := by
  rw [C12sign_bw6_761_setbytes_shape]
  exact edSigSetBytesT_ok (SigParams.ed_bw6_761) (by decide) sq edA edD edCofactor edBase dec decErr onC φ hdec honC herr R0 s0 buf hs k R s h

theorem C12sign_bw6_761_setbytes_err {G Fp : Type} [Add G] [Sub G] [Neg G] [Zero G] [SMul Int G] [Add Fp] [Sub Fp] [Mul Fp] [Inv Fp] [Zero Fp] [BEq Fp] (sq : Nat → Option Nat) (edA edD edCofactor : Fp) (edBase : G)
    (dec : Bytes → G) (decErr : Bytes → Res) (onC : G → Bool) (φ : G → Nat × Nat)
    (hdec : ∀ b, φ (dec b) = (SigParams.ed_bw6_761).decompress sq b) (honC : ∀ X, onC X = (SigParams.ed_bw6_761).onCurve (φ X))
    (herr : ∀ b : Bytes, b.length = (SigParams.ed_bw6_761).size → (decErr b = Res.ok ↔ (SigParams.ed_bw6_761).hasX sq b = true)) (R0 : G) (s0 buf : Bytes) (hs : s0.length = (SigParams.ed_bw6_761).size)
    (e : Err) (h : (SigParams.ed_bw6_761).sigParse sq buf = .error e) :
    (e ≠ .noSqrt → (eddsasig_bw6_761.Signature_SetBytes edA edD edCofactor ((SigParams.ed_bw6_761).order : Int) edBase dec decErr onC R0 s0 buf).2.1 = Res.err (edErrName e)) ∧
    (eddsasig_bw6_761.Signature_SetBytes edA edD edCofactor ((SigParams.ed_bw6_761).order : Int) edBase dec decErr onC R0 s0 buf).2.1 ≠ Res.ok ∧
    (eddsasig_bw6_761.Signature_SetBytes edA edD edCofactor ((SigParams.ed_bw6_761).order : Int) edBase dec decErr onC R0 s0 buf).2.2.2 = s0 := by
  rw [C12sign_bw6_761_setbytes_shape]
  have t := edSigSetBytesT_err (SigParams.ed_bw6_761) (by decide) sq edA edD edCofactor edBase dec decErr onC φ hdec honC herr R0 s0 buf hs e h
  exact ⟨t.1, t.2.1, t.2.2.1⟩

/-- non-vacuity: the hypotheses hold for the model's own dictionary, for every buffer -/
theorem C12sign_bw6_761_setbytes_model (sm : Nat → Nat × Nat → Nat × Nat) (sq : Nat → Option Nat)
    (edA edD edCofactor : EF (SigParams.ed_bw6_761).q) (edBase R0 : EdG (SigParams.ed_bw6_761) sm) (s0 buf : Bytes) (hs : s0.length = (SigParams.ed_bw6_761).size) :
    eddsasig_bw6_761.Signature_SetBytes (G := EdG (SigParams.ed_bw6_761) sm) (Fp := EF (SigParams.ed_bw6_761).q) edA edD edCofactor ((SigParams.ed_bw6_761).order : Int) edBase
        (fun b => ⟨(SigParams.ed_bw6_761).decompress sq b⟩) (edDecErr (SigParams.ed_bw6_761) sq) (fun X => (SigParams.ed_bw6_761).onCurve X.p) R0 s0 buf
      = edSigExpected (SigParams.ed_bw6_761) sq (fun b => (⟨(SigParams.ed_bw6_761).decompress sq b⟩ : EdG (SigParams.ed_bw6_761) sm)) (edDecErr (SigParams.ed_bw6_761) sq) R0 s0 buf := by
  rw [C12sign_bw6_761_setbytes_shape]
  exact edSigSetBytesT_model (SigParams.ed_bw6_761) (by decide) sm sq edA edD edCofactor edBase R0 s0 buf hs

end GV.C12sign
