import GnarkVerif.Proofs.Bytes
import GnarkVerif.Props.C01_limb2_goldilocks
import GnarkVerif.Gen.Bytes.Goldilocks
/-
C08_gen (goldilocks, one 64-bit word) — the byte <-> word conversion code of /repo's goldilocks package (Gen/Bytes/Goldilocks.lean, regenerated on every run
by tools/goslp/bytes.go, calling Gen/Limb/Goldilocks.lean of the same run) against the hand model `GV.Conv` and the field model `GV.Field`, for
ALL byte arrays and ALL canonical elements. A decoder result is `(word, err)` with err = 0 for nil.
-/
set_option maxRecDepth 100000
set_option maxHeartbeats 2000000
set_option linter.unusedVariables false
set_option linter.unusedSimpArgs false
namespace GV.C08gen.goldilocks
open GV.Field GV.Limb GV.Bytes GV.Limb.goldilocks

theorem q_le : P.q ≤ 256 ^ 8 := by rw [P_q]; decide
theorem q_lt_W : P.q < 18446744073709551616 := by rw [P_q]; decide
theorem nBytes_eq : Gen.Bytes.goldilocks.nBytes = 8 ∧ GV.Gen.goldilocks.bytes = 8 := ⟨rfl, rfl⟩

theorem smaller_iff' (z : Nat) : Gen.Limb.goldilocks.smallerThanModulus z ↔ z < P.q := by rw [P_q]; rfl

/-- `toMont` of the Go text (`z.Mul(z, &rSquare)`) is `GV.Field.toMont` -/
theorem toMont_spec (z : Nat) (hz : z < P.q) :
    (Gen.Limb.goldilocks.Mul z 18446744065119617025) < P.q ∧ (Gen.Limb.goldilocks.Mul z 18446744065119617025) = GV.Field.toMont P z := by
  have hr : (18446744065119617025 : Nat) = GV.Field.rSquare P := by decide +kernel
  have hr' : (18446744065119617025 : Nat) < P.q := by rw [hr]; exact rSquare_lt P P_ok
  have e := Mul_spec z 18446744065119617025 hz hr'
  have e2 : Gen.Limb.goldilocks.Mul z 18446744065119617025 = GV.Field.toMont P z := by rw [e]; unfold GV.Field.toMont; rw [← hr]
  exact ⟨by rw [e2]; exact toMont_lt P P_ok z hz, e2⟩

theorem toMont_def (z : Nat) : Gen.Bytes.goldilocks.toMont z = (Gen.Limb.goldilocks.Mul z 18446744065119617025) := rfl

theorem words_BE (b : List UInt8) : Conv.limbsOfBE 8 1 b = [beUint 8 (slice b 0 8)] := by
  simp [Conv.limbsOfBE, Conv.chunks, slice, beUint, List.take_take]

theorem words_LE (b : List UInt8) : Conv.limbsOfLE 8 1 b = [leUint 8 (slice b 0 8)] := by
  simp [Conv.limbsOfLE, Conv.chunks, slice, leUint, List.take_take]

theorem words_BE_spec (b : List UInt8) (hb : b.length = 8) :
    beUint 8 (slice b 0 8) < 18446744073709551616 ∧ beUint 8 (slice b 0 8) = Conv.beToNat b := by
  have hl := Conv.limbsOfBE_lt 8 1 b
  have e := Conv.ofLimbs_limbsOfBE 8 1 b (by rw [hb])
  rw [words_BE] at e hl
  simp only [List.mem_cons, List.mem_nil_iff, or_false, forall_eq, Nat.reducePow] at hl
  rw [Conv.ofLimbs_single] at e
  exact ⟨hl, e⟩

theorem words_LE_spec (b : List UInt8) (hb : b.length = 8) :
    leUint 8 (slice b 0 8) < 18446744073709551616 ∧ leUint 8 (slice b 0 8) = Conv.leToNat b := by
  have hl := Conv.limbsOfLE_lt 8 1 b
  have e := Conv.ofLimbs_limbsOfLE 8 1 b (by rw [hb])
  rw [words_LE] at e hl
  simp only [List.mem_cons, List.mem_nil_iff, or_false, forall_eq, Nat.reducePow] at hl
  rw [Conv.ofLimbs_single] at e
  exact ⟨hl, e⟩

/-- **C08_gen** `bigEndian.Element` rejects every array whose value is `≥ q` -/
theorem bigEndian_Element_reject (b : List UInt8) (hb : b.length = 8) (h : P.q ≤ Conv.beToNat b) : Gen.Bytes.goldilocks.bigEndian_Element b = (0, 1) := by
  obtain ⟨hw, hv⟩ := words_BE_spec b hb
  unfold Gen.Bytes.goldilocks.bigEndian_Element
  simp only []
  generalize beUint 8 (slice b 0 8) = z at hw hv ⊢
  subst hv
  have hn : ¬ Gen.Limb.goldilocks.smallerThanModulus (Conv.beToNat b) := by rw [smaller_iff']; omega
  simp only [hn, not_false_eq_true, if_true]

/-- … and accepts every other one: the canonical Montgomery element of the value, error nil -/
theorem bigEndian_Element_accept (b : List UInt8) (hb : b.length = 8) (h : Conv.beToNat b < P.q) :
    ∃ m : Nat, m < P.q ∧ m = GV.Field.toMont P (Conv.beToNat b) ∧ Gen.Bytes.goldilocks.bigEndian_Element b = (m, 0) := by
  obtain ⟨hw, hv⟩ := words_BE_spec b hb
  unfold Gen.Bytes.goldilocks.bigEndian_Element
  simp only []
  generalize beUint 8 (slice b 0 8) = z at hw hv ⊢
  subst hv
  have hs : Gen.Limb.goldilocks.smallerThanModulus (Conv.beToNat b) := by rw [smaller_iff']; exact h
  obtain ⟨g, e⟩ := toMont_spec (Conv.beToNat b) h
  refine ⟨_, g, e, ?_⟩
  simp only [hs, not_true_eq_false, if_false]

theorem bigEndian_Element_err_iff (b : List UInt8) (hb : b.length = 8) : (Gen.Bytes.goldilocks.bigEndian_Element b).2 ≠ 0 ↔ P.q ≤ Conv.beToNat b := by
  by_cases h : Conv.beToNat b < P.q
  · obtain ⟨m, _, _, e⟩ := bigEndian_Element_accept b hb h
    rw [e]; simp only [ne_eq, not_true_eq_false, false_iff]; omega
  · rw [bigEndian_Element_reject b hb (by omega)]; simp only [ne_eq, one_ne_zero, not_false_eq_true, true_iff]; omega

/-- the hand model's decoder is the generated one followed by `fromMont` -/
theorem bigEndian_Element_model (b : List UInt8) (hb : b.length = 8) :
    Conv.elementBE P.q b =
      (if (Gen.Bytes.goldilocks.bigEndian_Element b).2 = 0 then .ok (GV.Field.fromMont P (Gen.Bytes.goldilocks.bigEndian_Element b).1) else .error .invalid) := by
  by_cases h : Conv.beToNat b < P.q
  · obtain ⟨m, _, hm, e⟩ := bigEndian_Element_accept b hb h
    rw [e]
    simp only [if_true, hm, fromMont_toMont P P_ok _ h, Conv.elementBE, h]
  · rw [bigEndian_Element_reject b hb (by omega)]
    simp only [one_ne_zero, if_false, Conv.elementBE, h]

/-- **C08_gen** `bigEndian.PutElement` writes the base-256 digits (length Bytes) of the regular value -/
theorem bigEndian_PutElement_spec (b : List UInt8) (hb : b.length = 8) (z : Nat) (hz : z < P.q) :
    Gen.Bytes.goldilocks.bigEndian_PutElement b z = Conv.toBytesBE 8 (GV.Field.fromMont P z) := by
  have e := fromMontGeneric_spec z hz
  have hf := fromMont_lt P P_ok z hz
  unfold Gen.Bytes.goldilocks.bigEndian_PutElement
  simp only []
  rw [e]
  generalize GV.Field.fromMont P z = r at hf ⊢
  have hr : r < 18446744073709551616 := lt_trans hf q_lt_W
  have l1 : (putSlice b 0 8 (Conv.natToBE 8 r)).length = 8 := by
    rw [Conv.length_putSlice _ _ _ _ (by omega) (by omega) (by rw [Conv.natToBE_length])]; exact hb
  have s0 : slice (putSlice b 0 8 (Conv.natToBE 8 r)) 0 8 = Conv.natToBE 8 r := by
    rw [Conv.slice_putSlice_same _ _ _ _ (by omega) (by omega) (by rw [Conv.natToBE_length])]
  have hw : Conv.limbsOfBE 8 1 (putSlice b 0 8 (Conv.natToBE 8 r)) = [r] := by
    rw [words_BE]
    simp only [beUint, s0, List.take_of_length_le (Nat.le_of_eq (Conv.natToBE_length 8 _)), Conv.beToNat_natToBE_of_lt 8 r (by omega)]
  have := Conv.eq_natToBE_of_limbs 8 1 _ [r] (by rw [l1]) hw
  rw [Conv.ofLimbs_single] at this
  exact this

/-- **C08_gen** `bigEndian.Element (bigEndian.PutElement z) = (z, nil)` for every canonical `z` -/
theorem bigEndian_roundtrip (b : List UInt8) (hb : b.length = 8) (z : Nat) (hz : z < P.q) :
    Gen.Bytes.goldilocks.bigEndian_Element (Gen.Bytes.goldilocks.bigEndian_PutElement b z) = (z, 0) := by
  rw [bigEndian_PutElement_spec b hb z hz]
  have hf := fromMont_lt P P_ok _ hz
  have hl : (Conv.toBytesBE 8 (GV.Field.fromMont P z)).length = 8 := by simp [Conv.toBytesBE]
  have hv : Conv.beToNat (Conv.toBytesBE 8 (GV.Field.fromMont P z)) = GV.Field.fromMont P z := by
    rw [Conv.toBytesBE, Conv.beToNat_natToBE, Nat.mod_eq_of_lt (lt_of_lt_of_le hf q_le)]
  obtain ⟨m, _, hm, e⟩ := bigEndian_Element_accept _ hl (by rw [hv]; exact hf)
  rw [hv, toMont_fromMont P P_ok _ hz] at hm
  rw [e, hm]

/-- **C08_gen** `bigEndian.PutElement (bigEndian.Element b) = b` whenever `b` is accepted -/
theorem bigEndian_roundtrip_inv (b t : List UInt8) (hb : b.length = 8) (ht : t.length = 8) (h : Conv.beToNat b < P.q) :
    Gen.Bytes.goldilocks.bigEndian_PutElement t (Gen.Bytes.goldilocks.bigEndian_Element b).1 = b := by
  obtain ⟨m, g, hm, e⟩ := bigEndian_Element_accept b hb h
  rw [e]
  show Gen.Bytes.goldilocks.bigEndian_PutElement t m = b
  rw [bigEndian_PutElement_spec t ht m g, hm, fromMont_toMont P P_ok _ h, Conv.toBytesBE, ← hb, Conv.natToBE_beToNat]

/-- **C08_gen** `littleEndian.Element` rejects every array whose value is `≥ q` -/
theorem littleEndian_Element_reject (b : List UInt8) (hb : b.length = 8) (h : P.q ≤ Conv.leToNat b) : Gen.Bytes.goldilocks.littleEndian_Element b = (0, 1) := by
  obtain ⟨hw, hv⟩ := words_LE_spec b hb
  unfold Gen.Bytes.goldilocks.littleEndian_Element
  simp only []
  generalize leUint 8 (slice b 0 8) = z at hw hv ⊢
  subst hv
  have hn : ¬ Gen.Limb.goldilocks.smallerThanModulus (Conv.leToNat b) := by rw [smaller_iff']; omega
  simp only [hn, not_false_eq_true, if_true]

/-- … and accepts every other one: the canonical Montgomery element of the value, error nil -/
theorem littleEndian_Element_accept (b : List UInt8) (hb : b.length = 8) (h : Conv.leToNat b < P.q) :
    ∃ m : Nat, m < P.q ∧ m = GV.Field.toMont P (Conv.leToNat b) ∧ Gen.Bytes.goldilocks.littleEndian_Element b = (m, 0) := by
  obtain ⟨hw, hv⟩ := words_LE_spec b hb
  unfold Gen.Bytes.goldilocks.littleEndian_Element
  simp only []
  generalize leUint 8 (slice b 0 8) = z at hw hv ⊢
  subst hv
  have hs : Gen.Limb.goldilocks.smallerThanModulus (Conv.leToNat b) := by rw [smaller_iff']; exact h
  obtain ⟨g, e⟩ := toMont_spec (Conv.leToNat b) h
  refine ⟨_, g, e, ?_⟩
  simp only [hs, not_true_eq_false, if_false]

theorem littleEndian_Element_err_iff (b : List UInt8) (hb : b.length = 8) : (Gen.Bytes.goldilocks.littleEndian_Element b).2 ≠ 0 ↔ P.q ≤ Conv.leToNat b := by
  by_cases h : Conv.leToNat b < P.q
  · obtain ⟨m, _, _, e⟩ := littleEndian_Element_accept b hb h
    rw [e]; simp only [ne_eq, not_true_eq_false, false_iff]; omega
  · rw [littleEndian_Element_reject b hb (by omega)]; simp only [ne_eq, one_ne_zero, not_false_eq_true, true_iff]; omega

/-- the hand model's decoder is the generated one followed by `fromMont` -/
theorem littleEndian_Element_model (b : List UInt8) (hb : b.length = 8) :
    Conv.elementLE P.q b =
      (if (Gen.Bytes.goldilocks.littleEndian_Element b).2 = 0 then .ok (GV.Field.fromMont P (Gen.Bytes.goldilocks.littleEndian_Element b).1) else .error .invalid) := by
  by_cases h : Conv.leToNat b < P.q
  · obtain ⟨m, _, hm, e⟩ := littleEndian_Element_accept b hb h
    rw [e]
    simp only [if_true, hm, fromMont_toMont P P_ok _ h, Conv.elementLE, h]
  · rw [littleEndian_Element_reject b hb (by omega)]
    simp only [one_ne_zero, if_false, Conv.elementLE, h]

/-- **C08_gen** `littleEndian.PutElement` writes the base-256 digits (length Bytes) of the regular value -/
theorem littleEndian_PutElement_spec (b : List UInt8) (hb : b.length = 8) (z : Nat) (hz : z < P.q) :
    Gen.Bytes.goldilocks.littleEndian_PutElement b z = Conv.toBytesLE 8 (GV.Field.fromMont P z) := by
  have e := fromMontGeneric_spec z hz
  have hf := fromMont_lt P P_ok z hz
  unfold Gen.Bytes.goldilocks.littleEndian_PutElement
  simp only []
  rw [e]
  generalize GV.Field.fromMont P z = r at hf ⊢
  have hr : r < 18446744073709551616 := lt_trans hf q_lt_W
  have l1 : (putSlice b 0 8 (Conv.natToLE 8 r)).length = 8 := by
    rw [Conv.length_putSlice _ _ _ _ (by omega) (by omega) (by rw [Conv.natToLE_length])]; exact hb
  have s0 : slice (putSlice b 0 8 (Conv.natToLE 8 r)) 0 8 = Conv.natToLE 8 r := by
    rw [Conv.slice_putSlice_same _ _ _ _ (by omega) (by omega) (by rw [Conv.natToLE_length])]
  have hw : Conv.limbsOfLE 8 1 (putSlice b 0 8 (Conv.natToLE 8 r)) = [r] := by
    rw [words_LE]
    simp only [leUint, s0, List.take_of_length_le (Nat.le_of_eq (Conv.natToLE_length 8 _)), Conv.leToNat_natToLE_of_lt 8 r (by omega)]
  have := Conv.eq_natToLE_of_limbs 8 1 _ [r] (by rw [l1]) hw
  rw [Conv.ofLimbs_single] at this
  exact this

/-- **C08_gen** `littleEndian.Element (littleEndian.PutElement z) = (z, nil)` for every canonical `z` -/
theorem littleEndian_roundtrip (b : List UInt8) (hb : b.length = 8) (z : Nat) (hz : z < P.q) :
    Gen.Bytes.goldilocks.littleEndian_Element (Gen.Bytes.goldilocks.littleEndian_PutElement b z) = (z, 0) := by
  rw [littleEndian_PutElement_spec b hb z hz]
  have hf := fromMont_lt P P_ok _ hz
  have hl : (Conv.toBytesLE 8 (GV.Field.fromMont P z)).length = 8 := by simp [Conv.toBytesLE]
  have hv : Conv.leToNat (Conv.toBytesLE 8 (GV.Field.fromMont P z)) = GV.Field.fromMont P z := by
    rw [Conv.toBytesLE, Conv.leToNat_natToLE, Nat.mod_eq_of_lt (lt_of_lt_of_le hf q_le)]
  obtain ⟨m, _, hm, e⟩ := littleEndian_Element_accept _ hl (by rw [hv]; exact hf)
  rw [hv, toMont_fromMont P P_ok _ hz] at hm
  rw [e, hm]

/-- **C08_gen** `littleEndian.PutElement (littleEndian.Element b) = b` whenever `b` is accepted -/
theorem littleEndian_roundtrip_inv (b t : List UInt8) (hb : b.length = 8) (ht : t.length = 8) (h : Conv.leToNat b < P.q) :
    Gen.Bytes.goldilocks.littleEndian_PutElement t (Gen.Bytes.goldilocks.littleEndian_Element b).1 = b := by
  obtain ⟨m, g, hm, e⟩ := littleEndian_Element_accept b hb h
  rw [e]
  show Gen.Bytes.goldilocks.littleEndian_PutElement t m = b
  rw [littleEndian_PutElement_spec t ht m g, hm, fromMont_toMont P P_ok _ h, Conv.toBytesLE, ← hb, Conv.natToLE_leToNat]

/-! ### `Bytes`, `SetBytesCanonical`, `SetBytes` -/

theorem Bytes_eq (z : Nat) : Gen.Bytes.goldilocks.Bytes z = Gen.Bytes.goldilocks.bigEndian_PutElement (List.replicate 8 0) z := rfl

theorem Bytes_spec (z : Nat) (hz : z < P.q) : Gen.Bytes.goldilocks.Bytes z = Conv.toBytesBE 8 (GV.Field.fromMont P z) := by
  rw [Bytes_eq, bigEndian_PutElement_spec _ (List.length_replicate ..) z hz]

theorem SetBytesCanonical_eq (z : Nat) (e : List UInt8) :
    Gen.Bytes.goldilocks.SetBytesCanonical z e =
      if e.length ≠ 8 then (z, 2)
      else if (Gen.Bytes.goldilocks.bigEndian_Element e).2 ≠ 0 then (z, (Gen.Bytes.goldilocks.bigEndian_Element e).2)
      else Gen.Bytes.goldilocks.bigEndian_Element e := by
  by_cases hl : e.length = 8
  · have ha : toArray 8 e = e := Conv.toArray_eq _ _ hl
    unfold Gen.Bytes.goldilocks.SetBytesCanonical Gen.Bytes.goldilocks.bigEndian_Element
    simp only [ha, hl, ne_eq, not_true_eq_false, if_false]
    split <;> rename_i hc
    · simp only [hc, not_false_eq_true, if_true, one_ne_zero]
    · simp only [hc, not_true_eq_false, if_false]
  · unfold Gen.Bytes.goldilocks.SetBytesCanonical
    simp only [hl, ne_eq, not_false_eq_true, if_true]

/-- **C08_gen** `SetBytesCanonical` accepts EXACTLY the `Bytes`-long big-endian encodings of the integers below `q` -/
theorem SetBytesCanonical_spec (z : Nat) (e : List UInt8) :
    ((Gen.Bytes.goldilocks.SetBytesCanonical z e).2 = 0 ↔ (e.length = 8 ∧ Conv.beToNat e < P.q)) ∧
    (e.length = 8 → Conv.beToNat e < P.q → ∃ m : Nat, m < P.q ∧ m = GV.Field.toMont P (Conv.beToNat e) ∧
      Gen.Bytes.goldilocks.SetBytesCanonical z e = (m, 0)) ∧
    (¬ (e.length = 8 ∧ Conv.beToNat e < P.q) → ∃ c, c ≠ 0 ∧ Gen.Bytes.goldilocks.SetBytesCanonical z e = (z, c)) := by
  by_cases hl : e.length = 8
  · by_cases h : Conv.beToNat e < P.q
    · obtain ⟨m, g, hm, he⟩ := bigEndian_Element_accept e hl h
      have key : Gen.Bytes.goldilocks.SetBytesCanonical z e = (m, 0) := by
        rw [SetBytesCanonical_eq, he]; simp only [hl, ne_eq, not_true_eq_false, if_false]
      rw [key]
      exact ⟨⟨fun _ => ⟨hl, h⟩, fun _ => rfl⟩, fun _ _ => ⟨m, g, hm, rfl⟩, fun hn => absurd ⟨hl, h⟩ hn⟩
    · have he := bigEndian_Element_reject e hl (by omega)
      have key : Gen.Bytes.goldilocks.SetBytesCanonical z e = (z, 1) := by
        rw [SetBytesCanonical_eq, he]; simp only [hl, ne_eq, not_true_eq_false, if_false, one_ne_zero, not_false_eq_true, if_true]
      rw [key]
      exact ⟨⟨fun h0 => absurd h0 one_ne_zero, fun hh => absurd hh.2 h⟩, fun _ hh => absurd hh h, fun _ => ⟨1, one_ne_zero, rfl⟩⟩
  · have key : Gen.Bytes.goldilocks.SetBytesCanonical z e = (z, 2) := by
      rw [SetBytesCanonical_eq]; simp only [hl, ne_eq, not_false_eq_true, if_true]
    rw [key]
    exact ⟨⟨fun h0 => absurd (show (2 : Nat) = 0 from h0) (by omega), fun hh => absurd hh.1 hl⟩, fun hh _ => absurd hh hl, fun _ => ⟨2, by omega, rfl⟩⟩

theorem SetBytesCanonical_model (z : Nat) (e : List UInt8) :
    Conv.setBytesCanonical P.q 8 e =
      (if (Gen.Bytes.goldilocks.SetBytesCanonical z e).2 = 0 then .ok (GV.Field.fromMont P (Gen.Bytes.goldilocks.SetBytesCanonical z e).1)
       else if e.length ≠ 8 then .error .length else .error .invalid) := by
  obtain ⟨h1, h2, h3⟩ := SetBytesCanonical_spec z e
  unfold Conv.setBytesCanonical
  by_cases hl : e.length = 8
  · by_cases h : Conv.beToNat e < P.q
    · obtain ⟨m, g, hm, he⟩ := h2 hl h
      rw [he]
      simp only [hl, ne_eq, not_true_eq_false, if_false, if_true, hm, fromMont_toMont P P_ok _ h, Conv.elementBE, h]
    · obtain ⟨c, hc, he⟩ := h3 (fun hh => h hh.2)
      rw [he]
      simp only [hl, ne_eq, not_true_eq_false, if_false, hc, Conv.elementBE, h]
  · obtain ⟨c, hc, he⟩ := h3 (fun hh => hl hh.1)
    rw [he]
    simp only [hl, ne_eq, not_false_eq_true, if_true, hc, if_false]

/-- **C08_gen** `SetBytes`: fast path (= `BigEndian.Element`) on a canonical `Bytes`-long input, the slow path `setBigIntBE e` (a PARAMETER:
`big.Int.SetBytes(e)` then `SetBigInt`) on EVERY other input -/
theorem SetBytes_spec (setBigIntBE : List UInt8 → Nat) (e : List UInt8) :
    (e.length = 8 → Conv.beToNat e < P.q → Gen.Bytes.goldilocks.SetBytes setBigIntBE e = (Gen.Bytes.goldilocks.bigEndian_Element e).1) ∧
    (¬ (e.length = 8 ∧ Conv.beToNat e < P.q) → Gen.Bytes.goldilocks.SetBytes setBigIntBE e = setBigIntBE e) := by
  constructor
  · intro hl h
    have ha : toArray 8 e = e := Conv.toArray_eq _ _ hl
    obtain ⟨m, g, hm, he⟩ := bigEndian_Element_accept e hl h
    have he' := he
    unfold Gen.Bytes.goldilocks.bigEndian_Element at he
    simp only [Prod.mk.injEq] at he
    unfold Gen.Bytes.goldilocks.SetBytes
    simp only [ha, hl, if_true, he, he']
  · intro hn
    by_cases hl : e.length = 8
    · have h : P.q ≤ Conv.beToNat e := by
        by_contra hc; exact hn ⟨hl, by omega⟩
      have ha : toArray 8 e = e := Conv.toArray_eq _ _ hl
      have he := bigEndian_Element_reject e hl h
      unfold Gen.Bytes.goldilocks.bigEndian_Element at he
      simp only [Prod.mk.injEq] at he
      unfold Gen.Bytes.goldilocks.SetBytes
      simp only [ha, hl, if_true, he, one_ne_zero, if_false]
    · unfold Gen.Bytes.goldilocks.SetBytes
      simp only [hl, if_false]

/-- with the slow path specified as the model says, `SetBytes` is `be(e) mod q` in Montgomery form for EVERY input -/
theorem SetBytes_lenient (setBigIntBE : List UInt8 → Nat)
    (hslow : ∀ e, setBigIntBE e = GV.Field.toMont P (Conv.beToNat e % P.q)) (e : List UInt8) :
    Gen.Bytes.goldilocks.SetBytes setBigIntBE e = GV.Field.toMont P (Conv.setBytes P.q 8 e) := by
  have hq : 0 < P.q := by rw [P_q]; omega
  rw [Conv.setBytes_eq P.q 8 hq]
  obtain ⟨h1, h2⟩ := SetBytes_spec setBigIntBE e
  by_cases hc : e.length = 8 ∧ Conv.beToNat e < P.q
  · obtain ⟨m, g, hm, he⟩ := bigEndian_Element_accept e hc.1 hc.2
    rw [h1 hc.1 hc.2, he, Nat.mod_eq_of_lt hc.2]
    exact hm
  · rw [h2 hc]; exact hslow e

/-! ### `Bits`, `Uint64`, `IsUint64`, `FitsOnOneWord`, `SetUint64` -/

theorem Bits_spec (z : Nat) (hz : z < P.q) : Gen.Bytes.goldilocks.Bits z = GV.Field.fromMont P z := fromMontGeneric_spec z hz

theorem Uint64_spec (z : Nat) (hz : z < P.q) : Gen.Bytes.goldilocks.Uint64 z = Conv.uint64 64 (GV.Field.fromMont P z) := by
  have hf := lt_trans (fromMont_lt P P_ok z hz) q_lt_W
  have : Gen.Bytes.goldilocks.Uint64 z = Gen.Limb.goldilocks.fromMontGeneric z := rfl
  rw [this, fromMontGeneric_spec z hz, Conv.uint64, Nat.mod_eq_of_lt (by simpa using hf)]

/-- a one-word field: `IsUint64()` and `FitsOnOneWord()` are the constant `true`, as in the model (every value is below 2^64) -/
theorem IsUint64_spec (z : Nat) (hz : z < P.q) :
    Gen.Bytes.goldilocks.IsUint64 ∧ Gen.Bytes.goldilocks.FitsOnOneWord ∧ Conv.isUint64 (GV.Field.fromMont P z) = true := by
  have hf := lt_trans (fromMont_lt P P_ok z hz) q_lt_W
  refine ⟨trivial, trivial, ?_⟩
  simp only [Conv.isUint64, decide_eq_true_eq]; omega

/-- `SetUint64 v` (`*z = Element{v}; z.Mul(z, &rSquare)`) for `v < q`: the canonical Montgomery element of `v`
(for `q ≤ v < 2^64` the Go code relies on Mul accepting an unreduced operand: not covered by C01_limb's Mul_spec, K only) -/
theorem SetUint64_spec (v : Nat) (hv : v < P.q) :
    Gen.Bytes.goldilocks.SetUint64 v = GV.Field.toMont P (Conv.setUint64 P.q v) := by
  rw [Conv.setUint64, Nat.mod_eq_of_lt hv]
  exact (toMont_spec v hv).2

end GV.C08gen.goldilocks
