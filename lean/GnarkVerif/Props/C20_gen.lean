import GnarkVerif.Gen.PolyDispatch
import GnarkVerif.Props.C20
/-
C20_gen — tie T for the FORM DISPATCH of `ecc/<curve>/fr/iop/polynomial.go` (7 packages).

`tools/goslp/polydispatch.go` re-reads the Go text on every run and writes `Gen/PolyDispatch.lean`: the `Basis` / `Layout`
constant blocks, the six form ids, and — statement by statement, in source order — the bodies of `ToLagrange`, `ToCanonical`,
`ToLagrangeCoset` (statements before the switch, every `case` with its label list, `default`, statements after the switch),
`ToRegular`, `ToBitReverse`, plus the case structure of `Evaluate` / `evaluate` / `GetCoeff`. The translator knows nothing about
the expected table. This file INTERPRETS the extracted statement sequences on an abstract state (current basis / layout, the saved
`id := p.Form`, the list of FFT calls issued, `grow`, the coset bookkeeping, `return`, `panic`) with Go's semantics of `switch`
(clauses tried in order, label values compared with the saved form, `default` last) and proves, per package, by kernel evaluation:

  * `C20gen_<pkg>_dispatch : dispatch = tableOf Gen.<pkg>` — the hand-copied table of `Model/Poly.lean` IS the table computed from
    the Go text: same FFT / FFTInverse calls in the same order with the same (inverse, DIF, OnCoset) flags, the layout assigned in
    the case, `none` exactly where the case returns early;
  * `C20gen_<pkg>_conv_ok` — every run returns `p` (no panic, no fall-through), FFTs act on `(*p.coefficients)` of the domain
    parameter and only after `p.grow(int(d.Cardinality))`, the basis at the end is the function's target (unchanged on the identity
    cases), `p.coset` is set to `d.FrMultiplicativeGen` by `ToLagrangeCoset` in EVERY case and never touched by the other two
    (the model's `cs := if target = .lagrangeCoset then d.g else p.coset`);
  * `C20gen_<pkg>_flips` — `ToRegular` / `ToBitReverse` = the model's `toRegular` / `toBitReverse` (one `fft.BitReverse` exactly when
    the layout differs, then the layout assignment);
  * `C20gen_<pkg>_consts` — the constant blocks give the codes 1, 2, 4 / 8, 16 the model serialises, the six form ids are the
    (Basis, Layout) pairs their names say, every switch mentions every form id exactly once;
  * `C20gen_<pkg>_evaluate_skeleton` — the case structure of `Evaluate` / `evaluate` / `GetCoeff` (which branch on which of
    Basis / Layout / shift, which helper is called where) is the one `Model.Poly.evaluate / evalCore / getCoeff` follow. The
    ARITHMETIC inside those three functions is NOT translated (statements kept as text): hand model + K;
  * `C20gen_<pkg>_conversion_sequence`, `C20gen_<pkg>_evaluate_invariant` — the main C20 theorems restated for the conversions
    DRIVEN BY THE EXTRACTED TABLES of that package.

A changed decimation / option / layout / label / order in any of the 7 files changes `Gen/PolyDispatch.lean` and breaks a proof here.
The FFT calls themselves (what `d.FFT(…, DIF, OnCoset)` computes) are C10's subject.
-/
namespace GV.Poly
open GV.FFT GV.Gen.PolyDispatch

/-! ### names -/

def basisOfName : String → Option Basis
  | "Canonical" => some .canonical
  | "Lagrange" => some .lagrange
  | "LagrangeCoset" => some .lagrangeCoset
  | _ => none

def layoutOfName : String → Option Bool
  | "Regular" => some false
  | "BitReverse" => some true
  | _ => none

def basisName : Basis → String
  | .canonical => "Canonical" | .lagrange => "Lagrange" | .lagrangeCoset => "LagrangeCoset"
def layoutName : Bool → String
  | false => "Regular" | true => "BitReverse"
/-- naming convention of the form ids: `canonicalRegular` … `lagrangeCosetBitReverse` -/
def formIdName : Basis → Bool → String
  | .canonical, br => "canonical" ++ layoutName br
  | .lagrange, br => "lagrange" ++ layoutName br
  | .lagrangeCoset, br => "lagrangeCoset" ++ layoutName br

def allBasis : List Basis := [.canonical, .lagrange, .lagrangeCoset]
def allForms : List (Basis × Bool) := allBasis.flatMap (fun b => [(b, false), (b, true)])

/-- value of the `i`-th name of `const ( n0 T = base << iota; n1; … )` -/
def constVal (c : ConstBlock) (n : String) : Option Nat := (c.names.findIdx? (· == n)).map (fun i => c.base * 2 ^ i)

/-! ### interpretation of the extracted statement sequences -/

/-- abstract state of one call -/
structure RunSt where
  basis : Basis
  bitrev : Bool
  saved : Option (String × Basis × Bool)   -- `id := p.Form` (a copy: later assignments to `p.Layout` do not change it)
  grown : Option String                    -- argument of the last `p.grow(…)`
  coset : Option String                    -- source of the last `p.coset.Set(&…)`
  calls : List Call                        -- FFT / FFTInverse calls on the coefficient vector, in order
  flips : Nat                              -- `fft.BitReverse` calls on the coefficient vector
  returned : Bool
  bad : Bool    -- panic reached, unknown constant name, FFT on another vector / another receiver / before `grow`
deriving DecidableEq, Repr

def RunSt.init (b : Basis) (br : Bool) : RunSt := ⟨b, br, none, none, none, [], 0, false, false⟩

def coeffsOf (recv : String) : String := "(*" ++ recv ++ ".coefficients)"

/-- one statement; `recv` = receiver variable, `domain` = the `*fft.Domain` parameter -/
def stepEff (recv domain : String) (s : RunSt) (e : Eff) : RunSt :=
  if s.returned then s else
  match e with
  | .saveForm v => { s with saved := some (v, s.basis, s.bitrev) }
  | .grow a => { s with grown := some a }
  | .nbTasksDefault _ => s
  | .nbTasksOverride _ _ => s
  | .cosetSet src => { s with coset := some src }
  | .setLayout n =>
    match layoutOfName n with
    | some l => { s with bitrev := l }
    | none => { s with bad := true }
  | .setBasis n =>
    match basisOfName n with
    | some b => { s with basis := b }
    | none => { s with bad := true }
  | .fft inv r a dec opts =>
    if r == domain && a == coeffsOf recv && s.grown == some ("int(" ++ domain ++ ".Cardinality)") then
      { s with calls := s.calls ++ [⟨inv, dec == .DIF, opts.contains .onCoset⟩] }
    else { s with bad := true }
  | .bitReverse a => if a == coeffsOf recv then { s with flips := s.flips + 1 } else { s with bad := true }
  | .retP => { s with returned := true }
  | .panic _ => { s with bad := true, returned := true }

/-- `case n:` matches the saved form `(b, br)` iff the variable `n` holds `Form{b, br}` -/
def labelIs (x : Extracted) (n : String) (b : Basis) (br : Bool) : Bool :=
  match x.formIds.lookup n with
  | some (bn, ln) => basisOfName bn == some b && layoutOfName ln == some br
  | none => false

/-- Go's `switch`: the first clause one of whose labels matches, else `default` -/
def selectCase (x : Extracted) (f : ConvFn) (b : Basis) (br : Bool) : Option (List Eff) :=
  match f.cases.find? (fun c => c.1.any (fun n => labelIs x n b br)) with
  | some c => some c.2
  | none => f.dflt

/-- one call of a conversion function on an object in form `(b, br)` -/
def runConv (x : Extracted) (f : ConvFn) (b : Basis) (br : Bool) : RunSt :=
  let s0 := f.pre.foldl (stepEff f.recv f.domain) (RunSt.init b br)
  let s1 :=
    match s0.saved with
    | some (v, sb, sbr) =>
      if v == f.tag then
        match selectCase x f sb sbr with
        | some body => body.foldl (stepEff f.recv f.domain) s0
        | none => s0
      else { s0 with bad := true }
    | none => { s0 with bad := true }
  f.post.foldl (stepEff f.recv f.domain) s1

def fnOf (x : Extracted) : Basis → ConvFn
  | .lagrange => x.toLagrange
  | .canonical => x.toCanonical
  | .lagrangeCoset => x.toLagrangeCoset

/-- **the dispatch table computed from the Go text**: target ↦ current (basis, layout) ↦ (FFT calls in order, layout assigned);
    `none` = nothing was called and the form is unchanged -/
def tableOf (x : Extracted) (t b : Basis) (br : Bool) : Option (List Call × Bool) :=
  let s := runConv x (fnOf x t) b br
  if s.calls = [] ∧ s.basis = b ∧ s.bitrev = br then none else some (s.calls, s.bitrev)

/-- side conditions of one run (see the header) -/
def convOK (x : Extracted) (t b : Basis) (br : Bool) : Bool :=
  let f := fnOf x t
  let s := runConv x f b br
  !s.bad && s.returned && s.flips == 0 &&
  s.grown == some ("int(" ++ f.domain ++ ".Cardinality)") &&
  s.basis == (match tableOf x t b br with | none => b | some _ => t) &&
  s.coset == (if t = .lagrangeCoset then some (f.domain ++ ".FrMultiplicativeGen") else none)

/-- `grow` comes BEFORE the switch (the model's `convert` grows first, also on the identity cases) -/
def growsFirst (f : ConvFn) : Bool := f.pre.contains (.grow ("int(" ++ f.domain ++ ".Cardinality)"))

/-- one call of `ToRegular` / `ToBitReverse` on layout `br` -/
def runFlip (f : FlipFn) (br : Bool) : RunSt :=
  let s0 := RunSt.init .canonical br
  let s1 := if layoutOfName f.guard == some br then f.thenEffs.foldl (stepEff f.recv "") s0 else s0
  f.rest.foldl (stepEff f.recv "") s1

/-- layout ↦ (number of `fft.BitReverse` calls, new layout) -/
def flipOf (f : FlipFn) (br : Bool) : Nat × Bool := ((runFlip f br).flips, (runFlip f br).bitrev)

def flipOK (f : FlipFn) : Bool :=
  (layoutOfName f.guard).isSome && [false, true].all (fun br =>
    let s := runFlip f br
    !s.bad && s.returned && s.calls == [] && s.basis == .canonical && s.grown == none && s.coset == none)

/-- constants and form ids -/
def constsOK (x : Extracted) : Bool :=
  x.basisBlock.names == ["Canonical", "Lagrange", "LagrangeCoset"].take x.basisBlock.names.length &&
  x.basisBlock.names.length == 3 && x.layoutBlock.names.length == 2 &&
  x.formFields == [("Basis", "Basis"), ("Layout", "Layout")] &&
  allBasis.all (fun b => constVal x.basisBlock (basisName b) ==
    some (toRec (q := 2) ⟨[], b, false, 0, 0, ⟨0⟩⟩).basis) &&
  [false, true].all (fun br => constVal x.layoutBlock (layoutName br) ==
    some (toRec (q := 2) ⟨[], .canonical, br, 0, 0, ⟨0⟩⟩).layout) &&
  x.formIds.length == 6 &&
  allForms.all (fun f => x.formIds.lookup (formIdName f.1 f.2) == some (basisName f.1, layoutName f.2)) &&
  -- every switch: labels are form ids, each form id exactly once, a `default` that panics
  allBasis.all (fun t =>
    let labels := (fnOf x t).cases.flatMap (·.1)
    labels.length == 6 && allForms.all (fun f => labels.count (formIdName f.1 f.2) == 1) &&
    (match (fnOf x t).dflt with | some [.panic _] => true | _ => false))

/-! ### case structure of Evaluate / evaluate / GetCoeff -/

/-- the items that carry structure: everything but plain statements without a parsed form -/
def skeletonOf (items : List SkItem) : List (Nat × SkKind × SkP) :=
  items.filterMap (fun i => if i.kind == .stmt && i.parsed == .other then none else some (i.depth, i.kind, i.parsed))

/-- `(*Polynomial).Evaluate` as `Model.Poly.evaluate` reads it:
    `x1 := if basis = lagrangeCoset then x / coset`; `if shift = 0 then evalCore x1`;
    `g := Generator(size)^shift` (two ways of computing the power: `smallExp` for 1..5, `Exp` otherwise); `evalCore (x1 * g)` -/
def expectedEvaluateOuter : List (Nat × SkKind × SkP) := [
  (0, .ifC, .basisEq "LagrangeCoset"), (1, .stmt, .divByCoset),
  (0, .ifC, .shiftEqZero), (1, .ret, .callEvaluate "x"),
  (0, .stmt, .generatorOfSize "gen"), (0, .ifC, .errNotNil), (1, .stmt, .panic),
  (0, .ifC, .shiftIn 0 5), (1, .stmt, .smallExpShift "g" "gen"), (0, .elseC, .other), (1, .stmt, .expShift "g" "gen"),
  (0, .stmt, .mulXBy "g"), (0, .ret, .callEvaluate "x")]

/-- `(*polynomial).evaluate` as `Model.Poly.evalCore` reads it: `if basis = canonical then Horner (two layouts) else evalLagrange`;
    inside the closure `evalLagrange`: the domain-point exit (two layouts) and the barycentric loop (two layouts) -/
def expectedEvaluateInner : List (Nat × SkKind × SkP) := [
  (0, .closure, .closureDef "evalLagrange"),
  (1, .ifC, .errNotNil), (2, .stmt, .panic),
  (1, .forC, .other), (2, .ifC, .other), (3, .ifC, .layoutEq "Regular"), (3, .elseC, .other), (3, .ret, .bare),
  (1, .ifC, .layoutEq "Regular"), (2, .forC, .other), (1, .elseC, .other), (2, .forC, .other),
  (0, .ifC, .basisEq "Canonical"),
  (1, .ifC, .layoutEq "Regular"), (2, .forC, .other), (1, .elseC, .other), (2, .forC, .other),
  (0, .elseC, .other), (1, .call, .callClosure "evalLagrange"),
  (0, .ret, .var "r")]

/-- `(*Polynomial).GetCoeff` as `Model.Poly.getCoeff` reads it: `n`, `rho = n / size`, index `((i + rho*shift) % n + n) % n`
    (the mathematical `mod`), read directly (Regular) or through the bit reversal -/
def expectedGetCoeff : List (Nat × SkKind × SkP) := [
  (0, .stmt, .lenDef "n"), (0, .stmt, .rhoDef),
  (0, .ifC, .layoutEq "Regular"), (1, .ret, .coeffAt "((i+rho*p.shift)%n+n)%n"),
  (0, .elseC, .other), (1, .ret, .coeffAt "iRev")]

def skeletonOK (x : Extracted) : Bool :=
  skeletonOf x.evaluateOuter == expectedEvaluateOuter && skeletonOf x.evaluateInner == expectedEvaluateInner &&
  skeletonOf x.getCoeff == expectedGetCoeff

/-! ### the model driven by a table -/

section Model
variable {R : Type} [CommRing R]

/-- `Model.Poly.convert` with the dispatch table as a parameter -/
def convertWith (tbl : Basis → Basis → Bool → Option (List Call × Bool)) (kers : List Nat) (target : Basis)
    (d : Domain R) (p : Poly R) : Poly R :=
  let c := grow (2^d.m) p.coeffs
  let cs := if target = .lagrangeCoset then d.g else p.coset
  match tbl target p.basis p.bitrev with
  | none => { p with coeffs := c, coset := cs }
  | some (calls, lay) =>
    { p with coeffs := calls.foldl (applyCall kers d) c, basis := target, bitrev := lay, coset := cs }

/-- `ToRegular` / `ToBitReverse` driven by a table layout ↦ (number of bit reversals, new layout) -/
def flipWith (r : Bool → Nat × Bool) (p : Poly R) : Poly R :=
  { p with coeffs := Nat.repeat (fun c => bitReverse c.length.log2 c) (r p.bitrev).1 p.coeffs, bitrev := (r p.bitrev).2 }

def applyOpWith (tbl : Basis → Basis → Bool → Option (List Call × Bool)) (fr fb : Bool → Nat × Bool)
    (kers : List Nat) (d : Domain R) : Op → Poly R → Poly R
  | .toLagrange, p => convertWith tbl kers .lagrange d p
  | .toCanonical, p => convertWith tbl kers .canonical d p
  | .toLagrangeCoset, p => convertWith tbl kers .lagrangeCoset d p
  | .toRegular, p => flipWith fr p
  | .toBitReverse, p => flipWith fb p
  | .clone, p => clone p
  | .shallowClone, p => shallowClone p

/-- the conversions of package `x`: every table comes from the extraction -/
def applyOpsX (x : Extracted) (kers : List Nat) (d : Domain R) (ops : List Op) (p : Poly R) : Poly R :=
  ops.foldl (fun p o => applyOpWith (tableOf x) (flipOf x.toRegular) (flipOf x.toBitReverse) kers d o p) p

/-- the model's `toRegular` / `toBitReverse` as tables -/
def regTable (br : Bool) : Nat × Bool := (if br then 1 else 0, false)
def brTable (br : Bool) : Nat × Bool := (if br then 0 else 1, true)

theorem toRegular_eq_flipWith (p : Poly R) : toRegular p = flipWith regTable p := by
  obtain ⟨c, b, br, s, z, k⟩ := p
  cases br <;> simp [toRegular, flipWith, regTable, Nat.repeat, flip]

theorem toBitReverse_eq_flipWith (p : Poly R) : toBitReverse p = flipWith brTable p := by
  obtain ⟨c, b, br, s, z, k⟩ := p
  cases br <;> simp [toBitReverse, flipWith, brTable, Nat.repeat, flip]

theorem applyOpsX_eq (x : Extracted) (h1 : dispatch = tableOf x) (h2 : flipOf x.toRegular = regTable)
    (h3 : flipOf x.toBitReverse = brTable) (kers : List Nat) (d : Domain R) (ops : List Op) (p : Poly R) :
    applyOpsX x kers d ops p = applyOps kers d ops p := by
  unfold applyOpsX applyOps
  rw [← h1, h2, h3]
  congr 1
  funext p o
  cases o
  · rfl
  · rfl
  · rfl
  · exact (toRegular_eq_flipWith p).symm
  · exact (toBitReverse_eq_flipWith p).symm
  · rfl
  · rfl

end Model


/-! ### ecc/bn254/fr/iop -/

/-- the hand-copied table of `Model/Poly.lean` is the table computed from the Go text of ecc/bn254/fr/iop/polynomial.go -/
theorem C20gen_bn254_dispatch : dispatch = tableOf Gen.PolyDispatch.bn254 := by
  funext t b br
  cases t <;> cases b <;> cases br <;> decide +kernel

/-- every run returns `p`, grows first, FFTs on `(*p.coefficients)` of the domain parameter, ends in the target basis, and sets the
    coset exactly in `ToLagrangeCoset` (all 18 runs) -/
theorem C20gen_bn254_conv_ok :
    (∀ t b br, convOK Gen.PolyDispatch.bn254 t b br = true) ∧ ∀ t, growsFirst (fnOf Gen.PolyDispatch.bn254 t) = true := by
  refine ⟨fun t b br => ?_, fun t => ?_⟩
  · cases t <;> cases b <;> cases br <;> decide +kernel
  · cases t <;> decide +kernel

/-- `ToRegular` / `ToBitReverse`: one `fft.BitReverse` exactly when the layout differs, then the layout assignment -/
theorem C20gen_bn254_flips :
    flipOf Gen.PolyDispatch.bn254.toRegular = regTable ∧ flipOf Gen.PolyDispatch.bn254.toBitReverse = brTable ∧
    flipOK Gen.PolyDispatch.bn254.toRegular = true ∧ flipOK Gen.PolyDispatch.bn254.toBitReverse = true := by
  refine ⟨?_, ?_, by decide +kernel, by decide +kernel⟩
  · funext br; cases br <;> decide +kernel
  · funext br; cases br <;> decide +kernel

theorem C20gen_bn254_consts : constsOK Gen.PolyDispatch.bn254 = true := by decide +kernel

theorem C20gen_bn254_evaluate_skeleton : skeletonOK Gen.PolyDispatch.bn254 = true := by decide +kernel

/-- **C20_conversion_sequence for the dispatch extracted from ecc/bn254/fr/iop**: every finite sequence of conversions driven by the
    extracted tables preserves the denoted polynomial, the shift and the size -/
theorem C20gen_bn254_conversion_sequence {R : Type} [CommRing R] (kers : List Nat) (d : Domain R) (hd : Good d)
    (ops : List Op) (p : Poly R) (a : List R) (h : Denotes d p a) :
    Denotes d (applyOpsX Gen.PolyDispatch.bn254 kers d ops p) a ∧
      (applyOpsX Gen.PolyDispatch.bn254 kers d ops p).shift = p.shift ∧
      (applyOpsX Gen.PolyDispatch.bn254 kers d ops p).size = p.size := by
  rw [applyOpsX_eq _ C20gen_bn254_dispatch C20gen_bn254_flips.1 C20gen_bn254_flips.2.1]
  exact C20_conversion_sequence kers d hd ops p a h

/-- **C20_evaluate_invariant for the dispatch extracted from ecc/bn254/fr/iop** -/
theorem C20gen_bn254_evaluate_invariant {F : Type} [Field F] [DecidableEq F] (kers : List Nat) (d : Domain F) (hd : Good d)
    (env : Env F) (p : Poly F) (a : List F) (h : Denotes d p a) (hinv : env.inv = fun x => x⁻¹)
    (hbinv : env.binv = List.map (fun x => x⁻¹)) (hgen : env.genOf (2^d.m) = d.gen)
    (hsz : env.genInvOf p.size = (env.genOf p.size)⁻¹) (ops : List Op) (x : F) :
    evaluate env (applyOpsX Gen.PolyDispatch.bn254 kers d ops p) x = evaluate env p x := by
  rw [applyOpsX_eq _ C20gen_bn254_dispatch C20gen_bn254_flips.1 C20gen_bn254_flips.2.1]
  exact C20_evaluate_invariant kers d hd env p a h hinv hbinv hgen hsz ops x

/-! ### ecc/bls12-377/fr/iop -/

/-- the hand-copied table of `Model/Poly.lean` is the table computed from the Go text of ecc/bls12-377/fr/iop/polynomial.go -/
theorem C20gen_bls12_377_dispatch : dispatch = tableOf Gen.PolyDispatch.bls12_377 := by
  funext t b br
  cases t <;> cases b <;> cases br <;> decide +kernel

/-- every run returns `p`, grows first, FFTs on `(*p.coefficients)` of the domain parameter, ends in the target basis, and sets the
    coset exactly in `ToLagrangeCoset` (all 18 runs) -/
theorem C20gen_bls12_377_conv_ok :
    (∀ t b br, convOK Gen.PolyDispatch.bls12_377 t b br = true) ∧ ∀ t, growsFirst (fnOf Gen.PolyDispatch.bls12_377 t) = true := by
  refine ⟨fun t b br => ?_, fun t => ?_⟩
  · cases t <;> cases b <;> cases br <;> decide +kernel
  · cases t <;> decide +kernel

/-- `ToRegular` / `ToBitReverse`: one `fft.BitReverse` exactly when the layout differs, then the layout assignment -/
theorem C20gen_bls12_377_flips :
    flipOf Gen.PolyDispatch.bls12_377.toRegular = regTable ∧ flipOf Gen.PolyDispatch.bls12_377.toBitReverse = brTable ∧
    flipOK Gen.PolyDispatch.bls12_377.toRegular = true ∧ flipOK Gen.PolyDispatch.bls12_377.toBitReverse = true := by
  refine ⟨?_, ?_, by decide +kernel, by decide +kernel⟩
  · funext br; cases br <;> decide +kernel
  · funext br; cases br <;> decide +kernel

theorem C20gen_bls12_377_consts : constsOK Gen.PolyDispatch.bls12_377 = true := by decide +kernel

theorem C20gen_bls12_377_evaluate_skeleton : skeletonOK Gen.PolyDispatch.bls12_377 = true := by decide +kernel

/-- **C20_conversion_sequence for the dispatch extracted from ecc/bls12-377/fr/iop**: every finite sequence of conversions driven by the
    extracted tables preserves the denoted polynomial, the shift and the size -/
theorem C20gen_bls12_377_conversion_sequence {R : Type} [CommRing R] (kers : List Nat) (d : Domain R) (hd : Good d)
    (ops : List Op) (p : Poly R) (a : List R) (h : Denotes d p a) :
    Denotes d (applyOpsX Gen.PolyDispatch.bls12_377 kers d ops p) a ∧
      (applyOpsX Gen.PolyDispatch.bls12_377 kers d ops p).shift = p.shift ∧
      (applyOpsX Gen.PolyDispatch.bls12_377 kers d ops p).size = p.size := by
  rw [applyOpsX_eq _ C20gen_bls12_377_dispatch C20gen_bls12_377_flips.1 C20gen_bls12_377_flips.2.1]
  exact C20_conversion_sequence kers d hd ops p a h

/-- **C20_evaluate_invariant for the dispatch extracted from ecc/bls12-377/fr/iop** -/
theorem C20gen_bls12_377_evaluate_invariant {F : Type} [Field F] [DecidableEq F] (kers : List Nat) (d : Domain F) (hd : Good d)
    (env : Env F) (p : Poly F) (a : List F) (h : Denotes d p a) (hinv : env.inv = fun x => x⁻¹)
    (hbinv : env.binv = List.map (fun x => x⁻¹)) (hgen : env.genOf (2^d.m) = d.gen)
    (hsz : env.genInvOf p.size = (env.genOf p.size)⁻¹) (ops : List Op) (x : F) :
    evaluate env (applyOpsX Gen.PolyDispatch.bls12_377 kers d ops p) x = evaluate env p x := by
  rw [applyOpsX_eq _ C20gen_bls12_377_dispatch C20gen_bls12_377_flips.1 C20gen_bls12_377_flips.2.1]
  exact C20_evaluate_invariant kers d hd env p a h hinv hbinv hgen hsz ops x

/-! ### ecc/bls12-381/fr/iop -/

/-- the hand-copied table of `Model/Poly.lean` is the table computed from the Go text of ecc/bls12-381/fr/iop/polynomial.go -/
theorem C20gen_bls12_381_dispatch : dispatch = tableOf Gen.PolyDispatch.bls12_381 := by
  funext t b br
  cases t <;> cases b <;> cases br <;> decide +kernel

/-- every run returns `p`, grows first, FFTs on `(*p.coefficients)` of the domain parameter, ends in the target basis, and sets the
    coset exactly in `ToLagrangeCoset` (all 18 runs) -/
theorem C20gen_bls12_381_conv_ok :
    (∀ t b br, convOK Gen.PolyDispatch.bls12_381 t b br = true) ∧ ∀ t, growsFirst (fnOf Gen.PolyDispatch.bls12_381 t) = true := by
  refine ⟨fun t b br => ?_, fun t => ?_⟩
  · cases t <;> cases b <;> cases br <;> decide +kernel
  · cases t <;> decide +kernel

/-- `ToRegular` / `ToBitReverse`: one `fft.BitReverse` exactly when the layout differs, then the layout assignment -/
theorem C20gen_bls12_381_flips :
    flipOf Gen.PolyDispatch.bls12_381.toRegular = regTable ∧ flipOf Gen.PolyDispatch.bls12_381.toBitReverse = brTable ∧
    flipOK Gen.PolyDispatch.bls12_381.toRegular = true ∧ flipOK Gen.PolyDispatch.bls12_381.toBitReverse = true := by
  refine ⟨?_, ?_, by decide +kernel, by decide +kernel⟩
  · funext br; cases br <;> decide +kernel
  · funext br; cases br <;> decide +kernel

theorem C20gen_bls12_381_consts : constsOK Gen.PolyDispatch.bls12_381 = true := by decide +kernel

theorem C20gen_bls12_381_evaluate_skeleton : skeletonOK Gen.PolyDispatch.bls12_381 = true := by decide +kernel

/-- **C20_conversion_sequence for the dispatch extracted from ecc/bls12-381/fr/iop**: every finite sequence of conversions driven by the
    extracted tables preserves the denoted polynomial, the shift and the size -/
theorem C20gen_bls12_381_conversion_sequence {R : Type} [CommRing R] (kers : List Nat) (d : Domain R) (hd : Good d)
    (ops : List Op) (p : Poly R) (a : List R) (h : Denotes d p a) :
    Denotes d (applyOpsX Gen.PolyDispatch.bls12_381 kers d ops p) a ∧
      (applyOpsX Gen.PolyDispatch.bls12_381 kers d ops p).shift = p.shift ∧
      (applyOpsX Gen.PolyDispatch.bls12_381 kers d ops p).size = p.size := by
  rw [applyOpsX_eq _ C20gen_bls12_381_dispatch C20gen_bls12_381_flips.1 C20gen_bls12_381_flips.2.1]
  exact C20_conversion_sequence kers d hd ops p a h

/-- **C20_evaluate_invariant for the dispatch extracted from ecc/bls12-381/fr/iop** -/
theorem C20gen_bls12_381_evaluate_invariant {F : Type} [Field F] [DecidableEq F] (kers : List Nat) (d : Domain F) (hd : Good d)
    (env : Env F) (p : Poly F) (a : List F) (h : Denotes d p a) (hinv : env.inv = fun x => x⁻¹)
    (hbinv : env.binv = List.map (fun x => x⁻¹)) (hgen : env.genOf (2^d.m) = d.gen)
    (hsz : env.genInvOf p.size = (env.genOf p.size)⁻¹) (ops : List Op) (x : F) :
    evaluate env (applyOpsX Gen.PolyDispatch.bls12_381 kers d ops p) x = evaluate env p x := by
  rw [applyOpsX_eq _ C20gen_bls12_381_dispatch C20gen_bls12_381_flips.1 C20gen_bls12_381_flips.2.1]
  exact C20_evaluate_invariant kers d hd env p a h hinv hbinv hgen hsz ops x

/-! ### ecc/bls24-315/fr/iop -/

/-- the hand-copied table of `Model/Poly.lean` is the table computed from the Go text of ecc/bls24-315/fr/iop/polynomial.go -/
theorem C20gen_bls24_315_dispatch : dispatch = tableOf Gen.PolyDispatch.bls24_315 := by
  funext t b br
  cases t <;> cases b <;> cases br <;> decide +kernel

/-- every run returns `p`, grows first, FFTs on `(*p.coefficients)` of the domain parameter, ends in the target basis, and sets the
    coset exactly in `ToLagrangeCoset` (all 18 runs) -/
theorem C20gen_bls24_315_conv_ok :
    (∀ t b br, convOK Gen.PolyDispatch.bls24_315 t b br = true) ∧ ∀ t, growsFirst (fnOf Gen.PolyDispatch.bls24_315 t) = true := by
  refine ⟨fun t b br => ?_, fun t => ?_⟩
  · cases t <;> cases b <;> cases br <;> decide +kernel
  · cases t <;> decide +kernel

/-- `ToRegular` / `ToBitReverse`: one `fft.BitReverse` exactly when the layout differs, then the layout assignment -/
theorem C20gen_bls24_315_flips :
    flipOf Gen.PolyDispatch.bls24_315.toRegular = regTable ∧ flipOf Gen.PolyDispatch.bls24_315.toBitReverse = brTable ∧
    flipOK Gen.PolyDispatch.bls24_315.toRegular = true ∧ flipOK Gen.PolyDispatch.bls24_315.toBitReverse = true := by
  refine ⟨?_, ?_, by decide +kernel, by decide +kernel⟩
  · funext br; cases br <;> decide +kernel
  · funext br; cases br <;> decide +kernel

theorem C20gen_bls24_315_consts : constsOK Gen.PolyDispatch.bls24_315 = true := by decide +kernel

theorem C20gen_bls24_315_evaluate_skeleton : skeletonOK Gen.PolyDispatch.bls24_315 = true := by decide +kernel

/-- **C20_conversion_sequence for the dispatch extracted from ecc/bls24-315/fr/iop**: every finite sequence of conversions driven by the
    extracted tables preserves the denoted polynomial, the shift and the size -/
theorem C20gen_bls24_315_conversion_sequence {R : Type} [CommRing R] (kers : List Nat) (d : Domain R) (hd : Good d)
    (ops : List Op) (p : Poly R) (a : List R) (h : Denotes d p a) :
    Denotes d (applyOpsX Gen.PolyDispatch.bls24_315 kers d ops p) a ∧
      (applyOpsX Gen.PolyDispatch.bls24_315 kers d ops p).shift = p.shift ∧
      (applyOpsX Gen.PolyDispatch.bls24_315 kers d ops p).size = p.size := by
  rw [applyOpsX_eq _ C20gen_bls24_315_dispatch C20gen_bls24_315_flips.1 C20gen_bls24_315_flips.2.1]
  exact C20_conversion_sequence kers d hd ops p a h

/-- **C20_evaluate_invariant for the dispatch extracted from ecc/bls24-315/fr/iop** -/
theorem C20gen_bls24_315_evaluate_invariant {F : Type} [Field F] [DecidableEq F] (kers : List Nat) (d : Domain F) (hd : Good d)
    (env : Env F) (p : Poly F) (a : List F) (h : Denotes d p a) (hinv : env.inv = fun x => x⁻¹)
    (hbinv : env.binv = List.map (fun x => x⁻¹)) (hgen : env.genOf (2^d.m) = d.gen)
    (hsz : env.genInvOf p.size = (env.genOf p.size)⁻¹) (ops : List Op) (x : F) :
    evaluate env (applyOpsX Gen.PolyDispatch.bls24_315 kers d ops p) x = evaluate env p x := by
  rw [applyOpsX_eq _ C20gen_bls24_315_dispatch C20gen_bls24_315_flips.1 C20gen_bls24_315_flips.2.1]
  exact C20_evaluate_invariant kers d hd env p a h hinv hbinv hgen hsz ops x

/-! ### ecc/bls24-317/fr/iop -/

/-- the hand-copied table of `Model/Poly.lean` is the table computed from the Go text of ecc/bls24-317/fr/iop/polynomial.go -/
theorem C20gen_bls24_317_dispatch : dispatch = tableOf Gen.PolyDispatch.bls24_317 := by
  funext t b br
  cases t <;> cases b <;> cases br <;> decide +kernel

/-- every run returns `p`, grows first, FFTs on `(*p.coefficients)` of the domain parameter, ends in the target basis, and sets the
    coset exactly in `ToLagrangeCoset` (all 18 runs) -/
theorem C20gen_bls24_317_conv_ok :
    (∀ t b br, convOK Gen.PolyDispatch.bls24_317 t b br = true) ∧ ∀ t, growsFirst (fnOf Gen.PolyDispatch.bls24_317 t) = true := by
  refine ⟨fun t b br => ?_, fun t => ?_⟩
  · cases t <;> cases b <;> cases br <;> decide +kernel
  · cases t <;> decide +kernel

/-- `ToRegular` / `ToBitReverse`: one `fft.BitReverse` exactly when the layout differs, then the layout assignment -/
theorem C20gen_bls24_317_flips :
    flipOf Gen.PolyDispatch.bls24_317.toRegular = regTable ∧ flipOf Gen.PolyDispatch.bls24_317.toBitReverse = brTable ∧
    flipOK Gen.PolyDispatch.bls24_317.toRegular = true ∧ flipOK Gen.PolyDispatch.bls24_317.toBitReverse = true := by
  refine ⟨?_, ?_, by decide +kernel, by decide +kernel⟩
  · funext br; cases br <;> decide +kernel
  · funext br; cases br <;> decide +kernel

theorem C20gen_bls24_317_consts : constsOK Gen.PolyDispatch.bls24_317 = true := by decide +kernel

theorem C20gen_bls24_317_evaluate_skeleton : skeletonOK Gen.PolyDispatch.bls24_317 = true := by decide +kernel

/-- **C20_conversion_sequence for the dispatch extracted from ecc/bls24-317/fr/iop**: every finite sequence of conversions driven by the
    extracted tables preserves the denoted polynomial, the shift and the size -/
theorem C20gen_bls24_317_conversion_sequence {R : Type} [CommRing R] (kers : List Nat) (d : Domain R) (hd : Good d)
    (ops : List Op) (p : Poly R) (a : List R) (h : Denotes d p a) :
    Denotes d (applyOpsX Gen.PolyDispatch.bls24_317 kers d ops p) a ∧
      (applyOpsX Gen.PolyDispatch.bls24_317 kers d ops p).shift = p.shift ∧
      (applyOpsX Gen.PolyDispatch.bls24_317 kers d ops p).size = p.size := by
  rw [applyOpsX_eq _ C20gen_bls24_317_dispatch C20gen_bls24_317_flips.1 C20gen_bls24_317_flips.2.1]
  exact C20_conversion_sequence kers d hd ops p a h

/-- **C20_evaluate_invariant for the dispatch extracted from ecc/bls24-317/fr/iop** -/
theorem C20gen_bls24_317_evaluate_invariant {F : Type} [Field F] [DecidableEq F] (kers : List Nat) (d : Domain F) (hd : Good d)
    (env : Env F) (p : Poly F) (a : List F) (h : Denotes d p a) (hinv : env.inv = fun x => x⁻¹)
    (hbinv : env.binv = List.map (fun x => x⁻¹)) (hgen : env.genOf (2^d.m) = d.gen)
    (hsz : env.genInvOf p.size = (env.genOf p.size)⁻¹) (ops : List Op) (x : F) :
    evaluate env (applyOpsX Gen.PolyDispatch.bls24_317 kers d ops p) x = evaluate env p x := by
  rw [applyOpsX_eq _ C20gen_bls24_317_dispatch C20gen_bls24_317_flips.1 C20gen_bls24_317_flips.2.1]
  exact C20_evaluate_invariant kers d hd env p a h hinv hbinv hgen hsz ops x

/-! ### ecc/bw6-633/fr/iop -/

/-- the hand-copied table of `Model/Poly.lean` is the table computed from the Go text of ecc/bw6-633/fr/iop/polynomial.go -/
theorem C20gen_bw6_633_dispatch : dispatch = tableOf Gen.PolyDispatch.bw6_633 := by
  funext t b br
  cases t <;> cases b <;> cases br <;> decide +kernel

/-- every run returns `p`, grows first, FFTs on `(*p.coefficients)` of the domain parameter, ends in the target basis, and sets the
    coset exactly in `ToLagrangeCoset` (all 18 runs) -/
theorem C20gen_bw6_633_conv_ok :
    (∀ t b br, convOK Gen.PolyDispatch.bw6_633 t b br = true) ∧ ∀ t, growsFirst (fnOf Gen.PolyDispatch.bw6_633 t) = true := by
  refine ⟨fun t b br => ?_, fun t => ?_⟩
  · cases t <;> cases b <;> cases br <;> decide +kernel
  · cases t <;> decide +kernel

/-- `ToRegular` / `ToBitReverse`: one `fft.BitReverse` exactly when the layout differs, then the layout assignment -/
theorem C20gen_bw6_633_flips :
    flipOf Gen.PolyDispatch.bw6_633.toRegular = regTable ∧ flipOf Gen.PolyDispatch.bw6_633.toBitReverse = brTable ∧
    flipOK Gen.PolyDispatch.bw6_633.toRegular = true ∧ flipOK Gen.PolyDispatch.bw6_633.toBitReverse = true := by
  refine ⟨?_, ?_, by decide +kernel, by decide +kernel⟩
  · funext br; cases br <;> decide +kernel
  · funext br; cases br <;> decide +kernel

theorem C20gen_bw6_633_consts : constsOK Gen.PolyDispatch.bw6_633 = true := by decide +kernel

theorem C20gen_bw6_633_evaluate_skeleton : skeletonOK Gen.PolyDispatch.bw6_633 = true := by decide +kernel

/-- **C20_conversion_sequence for the dispatch extracted from ecc/bw6-633/fr/iop**: every finite sequence of conversions driven by the
    extracted tables preserves the denoted polynomial, the shift and the size -/
theorem C20gen_bw6_633_conversion_sequence {R : Type} [CommRing R] (kers : List Nat) (d : Domain R) (hd : Good d)
    (ops : List Op) (p : Poly R) (a : List R) (h : Denotes d p a) :
    Denotes d (applyOpsX Gen.PolyDispatch.bw6_633 kers d ops p) a ∧
      (applyOpsX Gen.PolyDispatch.bw6_633 kers d ops p).shift = p.shift ∧
      (applyOpsX Gen.PolyDispatch.bw6_633 kers d ops p).size = p.size := by
  rw [applyOpsX_eq _ C20gen_bw6_633_dispatch C20gen_bw6_633_flips.1 C20gen_bw6_633_flips.2.1]
  exact C20_conversion_sequence kers d hd ops p a h

/-- **C20_evaluate_invariant for the dispatch extracted from ecc/bw6-633/fr/iop** -/
theorem C20gen_bw6_633_evaluate_invariant {F : Type} [Field F] [DecidableEq F] (kers : List Nat) (d : Domain F) (hd : Good d)
    (env : Env F) (p : Poly F) (a : List F) (h : Denotes d p a) (hinv : env.inv = fun x => x⁻¹)
    (hbinv : env.binv = List.map (fun x => x⁻¹)) (hgen : env.genOf (2^d.m) = d.gen)
    (hsz : env.genInvOf p.size = (env.genOf p.size)⁻¹) (ops : List Op) (x : F) :
    evaluate env (applyOpsX Gen.PolyDispatch.bw6_633 kers d ops p) x = evaluate env p x := by
  rw [applyOpsX_eq _ C20gen_bw6_633_dispatch C20gen_bw6_633_flips.1 C20gen_bw6_633_flips.2.1]
  exact C20_evaluate_invariant kers d hd env p a h hinv hbinv hgen hsz ops x

/-! ### ecc/bw6-761/fr/iop -/

/-- the hand-copied table of `Model/Poly.lean` is the table computed from the Go text of ecc/bw6-761/fr/iop/polynomial.go -/
theorem C20gen_bw6_761_dispatch : dispatch = tableOf Gen.PolyDispatch.bw6_761 := by
  funext t b br
  cases t <;> cases b <;> cases br <;> decide +kernel

/-- every run returns `p`, grows first, FFTs on `(*p.coefficients)` of the domain parameter, ends in the target basis, and sets the
    coset exactly in `ToLagrangeCoset` (all 18 runs) -/
theorem C20gen_bw6_761_conv_ok :
    (∀ t b br, convOK Gen.PolyDispatch.bw6_761 t b br = true) ∧ ∀ t, growsFirst (fnOf Gen.PolyDispatch.bw6_761 t) = true := by
  refine ⟨fun t b br => ?_, fun t => ?_⟩
  · cases t <;> cases b <;> cases br <;> decide +kernel
  · cases t <;> decide +kernel

/-- `ToRegular` / `ToBitReverse`: one `fft.BitReverse` exactly when the layout differs, then the layout assignment -/
theorem C20gen_bw6_761_flips :
    flipOf Gen.PolyDispatch.bw6_761.toRegular = regTable ∧ flipOf Gen.PolyDispatch.bw6_761.toBitReverse = brTable ∧
    flipOK Gen.PolyDispatch.bw6_761.toRegular = true ∧ flipOK Gen.PolyDispatch.bw6_761.toBitReverse = true := by
  refine ⟨?_, ?_, by decide +kernel, by decide +kernel⟩
  · funext br; cases br <;> decide +kernel
  · funext br; cases br <;> decide +kernel

theorem C20gen_bw6_761_consts : constsOK Gen.PolyDispatch.bw6_761 = true := by decide +kernel

theorem C20gen_bw6_761_evaluate_skeleton : skeletonOK Gen.PolyDispatch.bw6_761 = true := by decide +kernel

/-- **C20_conversion_sequence for the dispatch extracted from ecc/bw6-761/fr/iop**: every finite sequence of conversions driven by the
    extracted tables preserves the denoted polynomial, the shift and the size -/
theorem C20gen_bw6_761_conversion_sequence {R : Type} [CommRing R] (kers : List Nat) (d : Domain R) (hd : Good d)
    (ops : List Op) (p : Poly R) (a : List R) (h : Denotes d p a) :
    Denotes d (applyOpsX Gen.PolyDispatch.bw6_761 kers d ops p) a ∧
      (applyOpsX Gen.PolyDispatch.bw6_761 kers d ops p).shift = p.shift ∧
      (applyOpsX Gen.PolyDispatch.bw6_761 kers d ops p).size = p.size := by
  rw [applyOpsX_eq _ C20gen_bw6_761_dispatch C20gen_bw6_761_flips.1 C20gen_bw6_761_flips.2.1]
  exact C20_conversion_sequence kers d hd ops p a h

/-- **C20_evaluate_invariant for the dispatch extracted from ecc/bw6-761/fr/iop** -/
theorem C20gen_bw6_761_evaluate_invariant {F : Type} [Field F] [DecidableEq F] (kers : List Nat) (d : Domain F) (hd : Good d)
    (env : Env F) (p : Poly F) (a : List F) (h : Denotes d p a) (hinv : env.inv = fun x => x⁻¹)
    (hbinv : env.binv = List.map (fun x => x⁻¹)) (hgen : env.genOf (2^d.m) = d.gen)
    (hsz : env.genInvOf p.size = (env.genOf p.size)⁻¹) (ops : List Op) (x : F) :
    evaluate env (applyOpsX Gen.PolyDispatch.bw6_761 kers d ops p) x = evaluate env p x := by
  rw [applyOpsX_eq _ C20gen_bw6_761_dispatch C20gen_bw6_761_flips.1 C20gen_bw6_761_flips.2.1]
  exact C20_evaluate_invariant kers d hd env p a h hinv hbinv hgen hsz ops x

/-! ### all packages -/

/-- the 7 packages are the 7 scalar fields of the model's K tie, and their three non-translated functions have the SAME text
    (statement by statement, opaque items included) as bn254's -/
theorem C20gen_all_packages :
    allPkgs.map (·.pkg) = ["ecc/bn254/fr/iop", "ecc/bls12-377/fr/iop", "ecc/bls12-381/fr/iop", "ecc/bls24-315/fr/iop",
      "ecc/bls24-317/fr/iop", "ecc/bw6-633/fr/iop", "ecc/bw6-761/fr/iop"] ∧
    allPkgs.all (fun x => x.evaluateOuter == bn254.evaluateOuter && x.evaluateInner == bn254.evaluateInner &&
      x.getCoeff == bn254.getCoeff) = true := by
  refine ⟨by decide +kernel, by decide +kernel⟩

/-- non-vacuity: the interpreter sees a mutated case. `ToCanonical` of bn254 with `fft.DIF` replaced by `fft.DIT` in the
    `lagrangeRegular` case gives another table entry, and a case that forgets `return p` / reaches `default` is flagged -/
example :
    let f := { bn254.toCanonical with cases := bn254.toCanonical.cases.map (fun c =>
      if c.1 == ["lagrangeRegular"] then (c.1, [.setLayout "BitReverse", .fft true "d" "(*p.coefficients)" .DIT []]) else c) }
    tableOf { bn254 with toCanonical := f } .canonical .lagrange false = some ([⟨true, false, false⟩], true) ∧
    dispatch .canonical .lagrange false = some ([⟨true, true, false⟩], true) := by decide +kernel
example : convOK { bn254 with formIds := bn254.formIds.drop 1 } .lagrange .canonical false = false := by decide +kernel

end GV.Poly
