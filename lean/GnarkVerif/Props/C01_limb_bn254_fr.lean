import GnarkVerif.Proofs.Limb
import GnarkVerif.Gen.Limb.Bn254_fr
/-
C01_limb (bn254_fr) — the Go LIMB-LEVEL code of ecc/.../bn254_fr (translated into Gen/Limb/Bn254_fr.lean on every run by
tools/goslp/limb.go) computes the value-level model `GV.Field` on ALL inputs.
`val [l0, …] = Σ lᵢ·2^(64·i)`; `P` = the parameter set of the regenerated constants `GV.Gen.bn254_fr`.
-/
set_option maxRecDepth 100000
set_option maxHeartbeats 4000000

namespace GV.Limb.bn254_fr
open GV.Field GV.Limb GV.Gen.Limb.bn254_fr

/-- parameters of the field (regenerated constants) -/
abbrev P : Params := ofConsts GV.Gen.bn254_fr
theorem P_ok : P.OK := Params.OK_of_okb _ (by decide +kernel)
theorem P_q : P.q = 21888242871839275222246405745257275088548364400416034343698204186575808495617 := by decide +kernel
theorem P_W : P.W = 18446744073709551616 := by decide +kernel

/-- all limbs of a result tuple are words -/
abbrev Good (r : Nat × Nat × Nat × Nat) : Prop := r.1 < 18446744073709551616 ∧ r.2.1 < 18446744073709551616 ∧ r.2.2.1 < 18446744073709551616 ∧ r.2.2.2 < 18446744073709551616
/-- value of a result tuple -/
abbrev tval (r : Nat × Nat × Nat × Nat) : Nat := val [r.1, r.2.1, r.2.2.1, r.2.2.2]

/-- `smallerThanModulus` is `val z < q` -/
theorem smaller_iff (z0 z1 z2 z3 : Nat) (hz0 : z0 < 18446744073709551616) (hz1 : z1 < 18446744073709551616) (hz2 : z2 < 18446744073709551616) (hz3 : z3 < 18446744073709551616) :
    smallerThanModulus z0 z1 z2 z3 ↔ z0 + 18446744073709551616 * z1 + 340282366920938463463374607431768211456 * z2 + 6277101735386680763835789423207666416102355444464034512896 * z3 < 21888242871839275222246405745257275088548364400416034343698204186575808495617 := by
  unfold smallerThanModulus
  omega

/-- round 0 of `Mul` is one CIOS step of the model (second operand = the words of the Go operand `x`) -/
theorem Mul_s0_spec (x y0 y1 y2 y3 : Nat) (hx : x < 18446744073709551616) (hy0 : y0 < 18446744073709551616) (hy1 : y1 < 18446744073709551616) (hy2 : y2 < 18446744073709551616) (hy3 : y3 < 18446744073709551616)
    (hY : val [y0, y1, y2, y3] < P.q) :
    Good (Mul_s0 x y0 y1 y2 y3) ∧ tval (Mul_s0 x y0 y1 y2 y3) = ciosStep P (val [y0, y1, y2, y3]) (0) x := by
  have key : (fun r : Nat × Nat × Nat × Nat => ∃ m, m < 18446744073709551616 ∧ (r.1 < 18446744073709551616 ∧ r.2.1 < 18446744073709551616 ∧ r.2.2.1 < 18446744073709551616 ∧ r.2.2.2 < 18446744073709551616) ∧
      (r.1 + 18446744073709551616 * r.2.1 + 340282366920938463463374607431768211456 * r.2.2.1 + 6277101735386680763835789423207666416102355444464034512896 * r.2.2.2) * 18446744073709551616
        = ((x * y0) + 18446744073709551616 * (x * y1) + 340282366920938463463374607431768211456 * (x * y2) + 6277101735386680763835789423207666416102355444464034512896 * (x * y3)) + m * 21888242871839275222246405745257275088548364400416034343698204186575808495617) (Mul_s0 x y0 y1 y2 y3) := by
    simp only [val, limbsVal, P_q, Nat.reducePow, Nat.reduceMul] at hY
    have b0 : x * y0 ≤ 18446744073709551615 * y0 := Nat.mul_le_mul_right _ (by omega)
    have b1 : x * y1 ≤ 18446744073709551615 * y1 := Nat.mul_le_mul_right _ (by omega)
    have b2 : x * y2 ≤ 18446744073709551615 * y2 := Nat.mul_le_mul_right _ (by omega)
    have b3 : x * y3 ≤ 18446744073709551615 * y3 := Nat.mul_le_mul_right _ (by omega)
    unfold Mul_s0
    limb_start
    resolve_drops
    simp only []
    exists_local "m_"
    refine ⟨by exact_hyp, ⟨by exact_hyp, by exact_hyp, by exact_hyp, by exact_hyp⟩, ?_⟩
    linarith
  generalize Mul_s0 x y0 y1 y2 y3 = r at key ⊢
  obtain ⟨m, hm, hg, e⟩ := key
  refine ⟨hg, ?_⟩
  apply ciosStep_of_lin P P_ok _ _ _ _ m (by rw [P_W]; exact hm)
  rw [P_W, P_q]
  simp only [tval, val, limbsVal, Nat.reducePow]
  linarith

/-- round 1 of `Mul` is one CIOS step of the model (second operand = the words of the Go operand `x`) -/
theorem Mul_s1_spec (x y0 y1 y2 y3 t0 t1 t2 t3 : Nat) (hx : x < 18446744073709551616) (hy0 : y0 < 18446744073709551616) (hy1 : y1 < 18446744073709551616) (hy2 : y2 < 18446744073709551616) (hy3 : y3 < 18446744073709551616) (ht0 : t0 < 18446744073709551616) (ht1 : t1 < 18446744073709551616) (ht2 : t2 < 18446744073709551616) (ht3 : t3 < 18446744073709551616)
    (hT : val [t0, t1, t2, t3] < 2 * P.q)
    (hY : val [y0, y1, y2, y3] < P.q) :
    Good (Mul_s1 x y0 y1 y2 y3 t0 t1 t2 t3) ∧ tval (Mul_s1 x y0 y1 y2 y3 t0 t1 t2 t3) = ciosStep P (val [y0, y1, y2, y3]) (val [t0, t1, t2, t3]) x := by
  have key : (fun r : Nat × Nat × Nat × Nat => ∃ m, m < 18446744073709551616 ∧ (r.1 < 18446744073709551616 ∧ r.2.1 < 18446744073709551616 ∧ r.2.2.1 < 18446744073709551616 ∧ r.2.2.2 < 18446744073709551616) ∧
      (r.1 + 18446744073709551616 * r.2.1 + 340282366920938463463374607431768211456 * r.2.2.1 + 6277101735386680763835789423207666416102355444464034512896 * r.2.2.2) * 18446744073709551616
        = (t0 + 18446744073709551616 * t1 + 340282366920938463463374607431768211456 * t2 + 6277101735386680763835789423207666416102355444464034512896 * t3) + ((x * y0) + 18446744073709551616 * (x * y1) + 340282366920938463463374607431768211456 * (x * y2) + 6277101735386680763835789423207666416102355444464034512896 * (x * y3)) + m * 21888242871839275222246405745257275088548364400416034343698204186575808495617) (Mul_s1 x y0 y1 y2 y3 t0 t1 t2 t3) := by
    simp only [val, limbsVal, P_q, Nat.reducePow, Nat.reduceMul] at hT hY
    have b0 : x * y0 ≤ 18446744073709551615 * y0 := Nat.mul_le_mul_right _ (by omega)
    have b1 : x * y1 ≤ 18446744073709551615 * y1 := Nat.mul_le_mul_right _ (by omega)
    have b2 : x * y2 ≤ 18446744073709551615 * y2 := Nat.mul_le_mul_right _ (by omega)
    have b3 : x * y3 ≤ 18446744073709551615 * y3 := Nat.mul_le_mul_right _ (by omega)
    unfold Mul_s1
    limb_start
    resolve_drops
    simp only []
    exists_local "m_"
    refine ⟨by exact_hyp, ⟨by exact_hyp, by exact_hyp, by exact_hyp, by exact_hyp⟩, ?_⟩
    linarith
  generalize Mul_s1 x y0 y1 y2 y3 t0 t1 t2 t3 = r at key ⊢
  obtain ⟨m, hm, hg, e⟩ := key
  refine ⟨hg, ?_⟩
  apply ciosStep_of_lin P P_ok _ _ _ _ m (by rw [P_W]; exact hm)
  rw [P_W, P_q]
  simp only [tval, val, limbsVal, Nat.reducePow]
  linarith

/-- round 2 of `Mul` is one CIOS step of the model (second operand = the words of the Go operand `x`) -/
theorem Mul_s2_spec (x y0 y1 y2 y3 t0 t1 t2 t3 : Nat) (hx : x < 18446744073709551616) (hy0 : y0 < 18446744073709551616) (hy1 : y1 < 18446744073709551616) (hy2 : y2 < 18446744073709551616) (hy3 : y3 < 18446744073709551616) (ht0 : t0 < 18446744073709551616) (ht1 : t1 < 18446744073709551616) (ht2 : t2 < 18446744073709551616) (ht3 : t3 < 18446744073709551616)
    (hT : val [t0, t1, t2, t3] < 2 * P.q)
    (hY : val [y0, y1, y2, y3] < P.q) :
    Good (Mul_s2 x y0 y1 y2 y3 t0 t1 t2 t3) ∧ tval (Mul_s2 x y0 y1 y2 y3 t0 t1 t2 t3) = ciosStep P (val [y0, y1, y2, y3]) (val [t0, t1, t2, t3]) x := by
  have key : (fun r : Nat × Nat × Nat × Nat => ∃ m, m < 18446744073709551616 ∧ (r.1 < 18446744073709551616 ∧ r.2.1 < 18446744073709551616 ∧ r.2.2.1 < 18446744073709551616 ∧ r.2.2.2 < 18446744073709551616) ∧
      (r.1 + 18446744073709551616 * r.2.1 + 340282366920938463463374607431768211456 * r.2.2.1 + 6277101735386680763835789423207666416102355444464034512896 * r.2.2.2) * 18446744073709551616
        = (t0 + 18446744073709551616 * t1 + 340282366920938463463374607431768211456 * t2 + 6277101735386680763835789423207666416102355444464034512896 * t3) + ((x * y0) + 18446744073709551616 * (x * y1) + 340282366920938463463374607431768211456 * (x * y2) + 6277101735386680763835789423207666416102355444464034512896 * (x * y3)) + m * 21888242871839275222246405745257275088548364400416034343698204186575808495617) (Mul_s2 x y0 y1 y2 y3 t0 t1 t2 t3) := by
    simp only [val, limbsVal, P_q, Nat.reducePow, Nat.reduceMul] at hT hY
    have b0 : x * y0 ≤ 18446744073709551615 * y0 := Nat.mul_le_mul_right _ (by omega)
    have b1 : x * y1 ≤ 18446744073709551615 * y1 := Nat.mul_le_mul_right _ (by omega)
    have b2 : x * y2 ≤ 18446744073709551615 * y2 := Nat.mul_le_mul_right _ (by omega)
    have b3 : x * y3 ≤ 18446744073709551615 * y3 := Nat.mul_le_mul_right _ (by omega)
    unfold Mul_s2
    limb_start
    resolve_drops
    simp only []
    exists_local "m_"
    refine ⟨by exact_hyp, ⟨by exact_hyp, by exact_hyp, by exact_hyp, by exact_hyp⟩, ?_⟩
    linarith
  generalize Mul_s2 x y0 y1 y2 y3 t0 t1 t2 t3 = r at key ⊢
  obtain ⟨m, hm, hg, e⟩ := key
  refine ⟨hg, ?_⟩
  apply ciosStep_of_lin P P_ok _ _ _ _ m (by rw [P_W]; exact hm)
  rw [P_W, P_q]
  simp only [tval, val, limbsVal, Nat.reducePow]
  linarith

/-- round 3 of `Mul` is one CIOS step of the model (second operand = the words of the Go operand `x`) -/
theorem Mul_s3_spec (x y0 y1 y2 y3 t0 t1 t2 t3 : Nat) (hx : x < 18446744073709551616) (hy0 : y0 < 18446744073709551616) (hy1 : y1 < 18446744073709551616) (hy2 : y2 < 18446744073709551616) (hy3 : y3 < 18446744073709551616) (ht0 : t0 < 18446744073709551616) (ht1 : t1 < 18446744073709551616) (ht2 : t2 < 18446744073709551616) (ht3 : t3 < 18446744073709551616)
    (hT : val [t0, t1, t2, t3] < 2 * P.q)
    (hY : val [y0, y1, y2, y3] < P.q) :
    Good (Mul_s3 x y0 y1 y2 y3 t0 t1 t2 t3) ∧ tval (Mul_s3 x y0 y1 y2 y3 t0 t1 t2 t3) = ciosStep P (val [y0, y1, y2, y3]) (val [t0, t1, t2, t3]) x := by
  have key : (fun r : Nat × Nat × Nat × Nat => ∃ m, m < 18446744073709551616 ∧ (r.1 < 18446744073709551616 ∧ r.2.1 < 18446744073709551616 ∧ r.2.2.1 < 18446744073709551616 ∧ r.2.2.2 < 18446744073709551616) ∧
      (r.1 + 18446744073709551616 * r.2.1 + 340282366920938463463374607431768211456 * r.2.2.1 + 6277101735386680763835789423207666416102355444464034512896 * r.2.2.2) * 18446744073709551616
        = (t0 + 18446744073709551616 * t1 + 340282366920938463463374607431768211456 * t2 + 6277101735386680763835789423207666416102355444464034512896 * t3) + ((x * y0) + 18446744073709551616 * (x * y1) + 340282366920938463463374607431768211456 * (x * y2) + 6277101735386680763835789423207666416102355444464034512896 * (x * y3)) + m * 21888242871839275222246405745257275088548364400416034343698204186575808495617) (Mul_s3 x y0 y1 y2 y3 t0 t1 t2 t3) := by
    simp only [val, limbsVal, P_q, Nat.reducePow, Nat.reduceMul] at hT hY
    have b0 : x * y0 ≤ 18446744073709551615 * y0 := Nat.mul_le_mul_right _ (by omega)
    have b1 : x * y1 ≤ 18446744073709551615 * y1 := Nat.mul_le_mul_right _ (by omega)
    have b2 : x * y2 ≤ 18446744073709551615 * y2 := Nat.mul_le_mul_right _ (by omega)
    have b3 : x * y3 ≤ 18446744073709551615 * y3 := Nat.mul_le_mul_right _ (by omega)
    unfold Mul_s3
    limb_start
    resolve_drops
    simp only []
    exists_local "m_"
    refine ⟨by exact_hyp, ⟨by exact_hyp, by exact_hyp, by exact_hyp, by exact_hyp⟩, ?_⟩
    linarith
  generalize Mul_s3 x y0 y1 y2 y3 t0 t1 t2 t3 = r at key ⊢
  obtain ⟨m, hm, hg, e⟩ := key
  refine ⟨hg, ?_⟩
  apply ciosStep_of_lin P P_ok _ _ _ _ m (by rw [P_W]; exact hm)
  rw [P_W, P_q]
  simp only [tval, val, limbsVal, Nat.reducePow]
  linarith

/-- the conditional subtraction `if !z.smallerThanModulus() { z -= q }` is `reduceOnce` -/
theorem Mul_s4_spec (t0 t1 t2 t3 : Nat) (ht0 : t0 < 18446744073709551616) (ht1 : t1 < 18446744073709551616) (ht2 : t2 < 18446744073709551616) (ht3 : t3 < 18446744073709551616)
    (hT : val [t0, t1, t2, t3] < 2 * P.q) :
    Good (Mul_s4 t0 t1 t2 t3) ∧ tval (Mul_s4 t0 t1 t2 t3) = reduceOnce P (val [t0, t1, t2, t3]) := by
  have key : (fun r : Nat × Nat × Nat × Nat => (r.1 < 18446744073709551616 ∧ r.2.1 < 18446744073709551616 ∧ r.2.2.1 < 18446744073709551616 ∧ r.2.2.2 < 18446744073709551616) ∧
      (t0 + 18446744073709551616 * t1 + 340282366920938463463374607431768211456 * t2 + 6277101735386680763835789423207666416102355444464034512896 * t3 < 21888242871839275222246405745257275088548364400416034343698204186575808495617 → r.1 + 18446744073709551616 * r.2.1 + 340282366920938463463374607431768211456 * r.2.2.1 + 6277101735386680763835789423207666416102355444464034512896 * r.2.2.2 = t0 + 18446744073709551616 * t1 + 340282366920938463463374607431768211456 * t2 + 6277101735386680763835789423207666416102355444464034512896 * t3) ∧
      (21888242871839275222246405745257275088548364400416034343698204186575808495617 ≤ t0 + 18446744073709551616 * t1 + 340282366920938463463374607431768211456 * t2 + 6277101735386680763835789423207666416102355444464034512896 * t3 → r.1 + 18446744073709551616 * r.2.1 + 340282366920938463463374607431768211456 * r.2.2.1 + 6277101735386680763835789423207666416102355444464034512896 * r.2.2.2 + 21888242871839275222246405745257275088548364400416034343698204186575808495617 = t0 + 18446744073709551616 * t1 + 340282366920938463463374607431768211456 * t2 + 6277101735386680763835789423207666416102355444464034512896 * t3)) (Mul_s4 t0 t1 t2 t3) := by
    have hs := smaller_iff t0 t1 t2 t3 ht0 ht1 ht2 ht3
    unfold smallerThanModulus at hs
    rw [P_q] at hT
    simp only [val, limbsVal, Nat.reducePow, Nat.reduceMul] at hT
    unfold Mul_s4
    limb_start
    by_cases hc : t0 + 18446744073709551616 * t1 + 340282366920938463463374607431768211456 * t2 + 6277101735386680763835789423207666416102355444464034512896 * t3 < 21888242871839275222246405745257275088548364400416034343698204186575808495617
    · have hc' := hs.2 hc
      subst_ites [hc']
      simp only []
      refine ⟨⟨by exact_hyp, by exact_hyp, by exact_hyp, by exact_hyp⟩, fun h1 => ?_, fun h2 => ?_⟩ <;> first | exact trivial | linarith
    · have hc' : ¬ _ := fun h => hc (hs.1 h)
      subst_ites [hc']
      resolve_drops
      simp only []
      refine ⟨⟨by exact_hyp, by exact_hyp, by exact_hyp, by exact_hyp⟩, fun h1 => ?_, fun h2 => ?_⟩ <;> first | exact trivial | linarith
  generalize Mul_s4 t0 t1 t2 t3 = r at key ⊢
  obtain ⟨hg, e1, e2⟩ := key
  refine ⟨hg, ?_⟩
  have hq := P_q
  unfold reduceOnce
  by_cases h : val [t0, t1, t2, t3] ≥ P.q
  · rw [if_pos h]
    apply Nat.eq_sub_of_add_eq
    simp only [tval, val, limbsVal, Nat.reducePow] at h ⊢
    have := e2 (by linarith)
    linarith
  · rw [if_neg h]
    simp only [tval, val, limbsVal, Nat.reducePow] at h ⊢
    have := e1 (by linarith)
    linarith

/-- **C01_limb Mul**: the limb code of `Element.Mul` (element_purego.go, no-carry "Algorithm 2") returns the canonical
Montgomery product of the model, for ALL canonical inputs -/
theorem Mul_spec (x0 x1 x2 x3 y0 y1 y2 y3 : Nat) (hx0 : x0 < 18446744073709551616) (hx1 : x1 < 18446744073709551616) (hx2 : x2 < 18446744073709551616) (hx3 : x3 < 18446744073709551616) (hy0 : y0 < 18446744073709551616) (hy1 : y1 < 18446744073709551616) (hy2 : y2 < 18446744073709551616) (hy3 : y3 < 18446744073709551616)
    (hX : val [x0, x1, x2, x3] < P.q) (hY : val [y0, y1, y2, y3] < P.q) :
    Good (Gen.Limb.bn254_fr.Mul x0 x1 x2 x3 y0 y1 y2 y3) ∧
      tval (Gen.Limb.bn254_fr.Mul x0 x1 x2 x3 y0 y1 y2 y3) = GV.Field.mul P (val [x0, x1, x2, x3]) (val [y0, y1, y2, y3]) := by
  unfold Gen.Limb.bn254_fr.Mul
  lift_lets
  intro_lets
  obtain ⟨g0, e0⟩ := Mul_s0_spec x0 y0 y1 y2 y3 hx0 hy0 hy1 hy2 hy3 hY
  rw [← r_0_def] at g0 e0
  have hT0 : val [r_0.1, r_0.2.1, r_0.2.2.1, r_0.2.2.2] < 2 * P.q := by
    rw [show val [r_0.1, r_0.2.1, r_0.2.2.1, r_0.2.2.2] = tval r_0 from rfl, e0]
    exact ciosStep_lt P P_ok _ _ _ (by have := P_ok.q_gt; omega) hY (by rw [P_W]; exact hx0)
  obtain ⟨g1, e1⟩ := Mul_s1_spec x1 y0 y1 y2 y3 r_0.1 r_0.2.1 r_0.2.2.1 r_0.2.2.2 hx1 hy0 hy1 hy2 hy3 g0.1 g0.2.1 g0.2.2.1 g0.2.2.2 hT0 hY
  rw [← r_1_def] at g1 e1
  have hT1 : val [r_1.1, r_1.2.1, r_1.2.2.1, r_1.2.2.2] < 2 * P.q := by
    rw [show val [r_1.1, r_1.2.1, r_1.2.2.1, r_1.2.2.2] = tval r_1 from rfl, e1]
    exact ciosStep_lt P P_ok _ _ _ hT0 hY (by rw [P_W]; exact hx1)
  obtain ⟨g2, e2⟩ := Mul_s2_spec x2 y0 y1 y2 y3 r_1.1 r_1.2.1 r_1.2.2.1 r_1.2.2.2 hx2 hy0 hy1 hy2 hy3 g1.1 g1.2.1 g1.2.2.1 g1.2.2.2 hT1 hY
  rw [← r_2_def] at g2 e2
  have hT2 : val [r_2.1, r_2.2.1, r_2.2.2.1, r_2.2.2.2] < 2 * P.q := by
    rw [show val [r_2.1, r_2.2.1, r_2.2.2.1, r_2.2.2.2] = tval r_2 from rfl, e2]
    exact ciosStep_lt P P_ok _ _ _ hT1 hY (by rw [P_W]; exact hx2)
  obtain ⟨g3, e3⟩ := Mul_s3_spec x3 y0 y1 y2 y3 r_2.1 r_2.2.1 r_2.2.2.1 r_2.2.2.2 hx3 hy0 hy1 hy2 hy3 g2.1 g2.2.1 g2.2.2.1 g2.2.2.2 hT2 hY
  rw [← r_3_def] at g3 e3
  have hT3 : val [r_3.1, r_3.2.1, r_3.2.2.1, r_3.2.2.2] < 2 * P.q := by
    rw [show val [r_3.1, r_3.2.1, r_3.2.2.1, r_3.2.2.2] = tval r_3 from rfl, e3]
    exact ciosStep_lt P P_ok _ _ _ hT2 hY (by rw [P_W]; exact hx3)
  obtain ⟨g4, e4⟩ := Mul_s4_spec r_3.1 r_3.2.1 r_3.2.2.1 r_3.2.2.2 g3.1 g3.2.1 g3.2.2.1 g3.2.2.2 hT3
  rw [← r_4_def] at g4 e4
  refine ⟨g4, ?_⟩
  rw [mul_comm' P P_ok _ _ hX hY]
  unfold GV.Field.mul
  have hw : P.w = 64 := rfl
  rw [show val [x0, x1, x2, x3] = limbsVal P.w [x0, x1, x2, x3] from rfl,
    montRaw_limbs P _ [x0, x1, x2, x3] (by intro y hy; rw [P_W]; simp only [List.mem_cons, List.not_mem_nil, or_false] at hy; rcases hy with rfl | rfl | rfl | rfl <;> assumption) rfl]
  rw [List.foldl_cons, List.foldl_cons, List.foldl_cons, List.foldl_cons, List.foldl_nil]
  show tval r_4 = _
  rw [e4]
  congr 1
  show tval r_3 = _
  rw [e3, show val [r_2.1, r_2.2.1, r_2.2.2.1, r_2.2.2.2] = tval r_2 from rfl, e2, show val [r_1.1, r_1.2.1, r_1.2.2.1, r_1.2.2.2] = tval r_1 from rfl, e1, show val [r_0.1, r_0.2.1, r_0.2.2.1, r_0.2.2.2] = tval r_0 from rfl, e0]

/-- round 0 of `Square` is one CIOS step of the model (second operand = the words of the Go operand `x`) -/
theorem Square_s0_spec (x0 x1 x2 x3 : Nat) (hx0 : x0 < 18446744073709551616) (hx1 : x1 < 18446744073709551616) (hx2 : x2 < 18446744073709551616) (hx3 : x3 < 18446744073709551616)
    (hY : val [x0, x1, x2, x3] < P.q) :
    Good (Square_s0 x0 x1 x2 x3) ∧ tval (Square_s0 x0 x1 x2 x3) = ciosStep P (val [x0, x1, x2, x3]) (0) x0 := by
  have key : (fun r : Nat × Nat × Nat × Nat => ∃ m, m < 18446744073709551616 ∧ (r.1 < 18446744073709551616 ∧ r.2.1 < 18446744073709551616 ∧ r.2.2.1 < 18446744073709551616 ∧ r.2.2.2 < 18446744073709551616) ∧
      (r.1 + 18446744073709551616 * r.2.1 + 340282366920938463463374607431768211456 * r.2.2.1 + 6277101735386680763835789423207666416102355444464034512896 * r.2.2.2) * 18446744073709551616
        = ((x0 * x0) + 18446744073709551616 * (x0 * x1) + 340282366920938463463374607431768211456 * (x0 * x2) + 6277101735386680763835789423207666416102355444464034512896 * (x0 * x3)) + m * 21888242871839275222246405745257275088548364400416034343698204186575808495617) (Square_s0 x0 x1 x2 x3) := by
    simp only [val, limbsVal, P_q, Nat.reducePow, Nat.reduceMul] at hY
    have b0 : x0 * x0 ≤ 18446744073709551615 * x0 := Nat.mul_le_mul_right _ (by omega)
    have b1 : x0 * x1 ≤ 18446744073709551615 * x1 := Nat.mul_le_mul_right _ (by omega)
    have b2 : x0 * x2 ≤ 18446744073709551615 * x2 := Nat.mul_le_mul_right _ (by omega)
    have b3 : x0 * x3 ≤ 18446744073709551615 * x3 := Nat.mul_le_mul_right _ (by omega)
    unfold Square_s0
    limb_start
    resolve_drops
    simp only []
    exists_local "m_"
    refine ⟨by exact_hyp, ⟨by exact_hyp, by exact_hyp, by exact_hyp, by exact_hyp⟩, ?_⟩
    linarith
  generalize Square_s0 x0 x1 x2 x3 = r at key ⊢
  obtain ⟨m, hm, hg, e⟩ := key
  refine ⟨hg, ?_⟩
  apply ciosStep_of_lin P P_ok _ _ _ _ m (by rw [P_W]; exact hm)
  rw [P_W, P_q]
  simp only [tval, val, limbsVal, Nat.reducePow]
  linarith

/-- round 1 of `Square` is one CIOS step of the model (second operand = the words of the Go operand `x`) -/
theorem Square_s1_spec (x0 x1 x2 x3 t0 t1 t2 t3 : Nat) (hx0 : x0 < 18446744073709551616) (hx1 : x1 < 18446744073709551616) (hx2 : x2 < 18446744073709551616) (hx3 : x3 < 18446744073709551616) (ht0 : t0 < 18446744073709551616) (ht1 : t1 < 18446744073709551616) (ht2 : t2 < 18446744073709551616) (ht3 : t3 < 18446744073709551616)
    (hT : val [t0, t1, t2, t3] < 2 * P.q)
    (hY : val [x0, x1, x2, x3] < P.q) :
    Good (Square_s1 x0 x1 x2 x3 t0 t1 t2 t3) ∧ tval (Square_s1 x0 x1 x2 x3 t0 t1 t2 t3) = ciosStep P (val [x0, x1, x2, x3]) (val [t0, t1, t2, t3]) x1 := by
  have key : (fun r : Nat × Nat × Nat × Nat => ∃ m, m < 18446744073709551616 ∧ (r.1 < 18446744073709551616 ∧ r.2.1 < 18446744073709551616 ∧ r.2.2.1 < 18446744073709551616 ∧ r.2.2.2 < 18446744073709551616) ∧
      (r.1 + 18446744073709551616 * r.2.1 + 340282366920938463463374607431768211456 * r.2.2.1 + 6277101735386680763835789423207666416102355444464034512896 * r.2.2.2) * 18446744073709551616
        = (t0 + 18446744073709551616 * t1 + 340282366920938463463374607431768211456 * t2 + 6277101735386680763835789423207666416102355444464034512896 * t3) + ((x1 * x0) + 18446744073709551616 * (x1 * x1) + 340282366920938463463374607431768211456 * (x1 * x2) + 6277101735386680763835789423207666416102355444464034512896 * (x1 * x3)) + m * 21888242871839275222246405745257275088548364400416034343698204186575808495617) (Square_s1 x0 x1 x2 x3 t0 t1 t2 t3) := by
    simp only [val, limbsVal, P_q, Nat.reducePow, Nat.reduceMul] at hT hY
    have b0 : x1 * x0 ≤ 18446744073709551615 * x0 := Nat.mul_le_mul_right _ (by omega)
    have b1 : x1 * x1 ≤ 18446744073709551615 * x1 := Nat.mul_le_mul_right _ (by omega)
    have b2 : x1 * x2 ≤ 18446744073709551615 * x2 := Nat.mul_le_mul_right _ (by omega)
    have b3 : x1 * x3 ≤ 18446744073709551615 * x3 := Nat.mul_le_mul_right _ (by omega)
    unfold Square_s1
    limb_start
    resolve_drops
    simp only []
    exists_local "m_"
    refine ⟨by exact_hyp, ⟨by exact_hyp, by exact_hyp, by exact_hyp, by exact_hyp⟩, ?_⟩
    linarith
  generalize Square_s1 x0 x1 x2 x3 t0 t1 t2 t3 = r at key ⊢
  obtain ⟨m, hm, hg, e⟩ := key
  refine ⟨hg, ?_⟩
  apply ciosStep_of_lin P P_ok _ _ _ _ m (by rw [P_W]; exact hm)
  rw [P_W, P_q]
  simp only [tval, val, limbsVal, Nat.reducePow]
  linarith

/-- round 2 of `Square` is one CIOS step of the model (second operand = the words of the Go operand `x`) -/
theorem Square_s2_spec (x0 x1 x2 x3 t0 t1 t2 t3 : Nat) (hx0 : x0 < 18446744073709551616) (hx1 : x1 < 18446744073709551616) (hx2 : x2 < 18446744073709551616) (hx3 : x3 < 18446744073709551616) (ht0 : t0 < 18446744073709551616) (ht1 : t1 < 18446744073709551616) (ht2 : t2 < 18446744073709551616) (ht3 : t3 < 18446744073709551616)
    (hT : val [t0, t1, t2, t3] < 2 * P.q)
    (hY : val [x0, x1, x2, x3] < P.q) :
    Good (Square_s2 x0 x1 x2 x3 t0 t1 t2 t3) ∧ tval (Square_s2 x0 x1 x2 x3 t0 t1 t2 t3) = ciosStep P (val [x0, x1, x2, x3]) (val [t0, t1, t2, t3]) x2 := by
  have key : (fun r : Nat × Nat × Nat × Nat => ∃ m, m < 18446744073709551616 ∧ (r.1 < 18446744073709551616 ∧ r.2.1 < 18446744073709551616 ∧ r.2.2.1 < 18446744073709551616 ∧ r.2.2.2 < 18446744073709551616) ∧
      (r.1 + 18446744073709551616 * r.2.1 + 340282366920938463463374607431768211456 * r.2.2.1 + 6277101735386680763835789423207666416102355444464034512896 * r.2.2.2) * 18446744073709551616
        = (t0 + 18446744073709551616 * t1 + 340282366920938463463374607431768211456 * t2 + 6277101735386680763835789423207666416102355444464034512896 * t3) + ((x2 * x0) + 18446744073709551616 * (x2 * x1) + 340282366920938463463374607431768211456 * (x2 * x2) + 6277101735386680763835789423207666416102355444464034512896 * (x2 * x3)) + m * 21888242871839275222246405745257275088548364400416034343698204186575808495617) (Square_s2 x0 x1 x2 x3 t0 t1 t2 t3) := by
    simp only [val, limbsVal, P_q, Nat.reducePow, Nat.reduceMul] at hT hY
    have b0 : x2 * x0 ≤ 18446744073709551615 * x0 := Nat.mul_le_mul_right _ (by omega)
    have b1 : x2 * x1 ≤ 18446744073709551615 * x1 := Nat.mul_le_mul_right _ (by omega)
    have b2 : x2 * x2 ≤ 18446744073709551615 * x2 := Nat.mul_le_mul_right _ (by omega)
    have b3 : x2 * x3 ≤ 18446744073709551615 * x3 := Nat.mul_le_mul_right _ (by omega)
    unfold Square_s2
    limb_start
    resolve_drops
    simp only []
    exists_local "m_"
    refine ⟨by exact_hyp, ⟨by exact_hyp, by exact_hyp, by exact_hyp, by exact_hyp⟩, ?_⟩
    linarith
  generalize Square_s2 x0 x1 x2 x3 t0 t1 t2 t3 = r at key ⊢
  obtain ⟨m, hm, hg, e⟩ := key
  refine ⟨hg, ?_⟩
  apply ciosStep_of_lin P P_ok _ _ _ _ m (by rw [P_W]; exact hm)
  rw [P_W, P_q]
  simp only [tval, val, limbsVal, Nat.reducePow]
  linarith

/-- round 3 of `Square` is one CIOS step of the model (second operand = the words of the Go operand `x`) -/
theorem Square_s3_spec (x0 x1 x2 x3 t0 t1 t2 t3 : Nat) (hx0 : x0 < 18446744073709551616) (hx1 : x1 < 18446744073709551616) (hx2 : x2 < 18446744073709551616) (hx3 : x3 < 18446744073709551616) (ht0 : t0 < 18446744073709551616) (ht1 : t1 < 18446744073709551616) (ht2 : t2 < 18446744073709551616) (ht3 : t3 < 18446744073709551616)
    (hT : val [t0, t1, t2, t3] < 2 * P.q)
    (hY : val [x0, x1, x2, x3] < P.q) :
    Good (Square_s3 x0 x1 x2 x3 t0 t1 t2 t3) ∧ tval (Square_s3 x0 x1 x2 x3 t0 t1 t2 t3) = ciosStep P (val [x0, x1, x2, x3]) (val [t0, t1, t2, t3]) x3 := by
  have key : (fun r : Nat × Nat × Nat × Nat => ∃ m, m < 18446744073709551616 ∧ (r.1 < 18446744073709551616 ∧ r.2.1 < 18446744073709551616 ∧ r.2.2.1 < 18446744073709551616 ∧ r.2.2.2 < 18446744073709551616) ∧
      (r.1 + 18446744073709551616 * r.2.1 + 340282366920938463463374607431768211456 * r.2.2.1 + 6277101735386680763835789423207666416102355444464034512896 * r.2.2.2) * 18446744073709551616
        = (t0 + 18446744073709551616 * t1 + 340282366920938463463374607431768211456 * t2 + 6277101735386680763835789423207666416102355444464034512896 * t3) + ((x3 * x0) + 18446744073709551616 * (x3 * x1) + 340282366920938463463374607431768211456 * (x3 * x2) + 6277101735386680763835789423207666416102355444464034512896 * (x3 * x3)) + m * 21888242871839275222246405745257275088548364400416034343698204186575808495617) (Square_s3 x0 x1 x2 x3 t0 t1 t2 t3) := by
    simp only [val, limbsVal, P_q, Nat.reducePow, Nat.reduceMul] at hT hY
    have b0 : x3 * x0 ≤ 18446744073709551615 * x0 := Nat.mul_le_mul_right _ (by omega)
    have b1 : x3 * x1 ≤ 18446744073709551615 * x1 := Nat.mul_le_mul_right _ (by omega)
    have b2 : x3 * x2 ≤ 18446744073709551615 * x2 := Nat.mul_le_mul_right _ (by omega)
    have b3 : x3 * x3 ≤ 18446744073709551615 * x3 := Nat.mul_le_mul_right _ (by omega)
    unfold Square_s3
    limb_start
    resolve_drops
    simp only []
    exists_local "m_"
    refine ⟨by exact_hyp, ⟨by exact_hyp, by exact_hyp, by exact_hyp, by exact_hyp⟩, ?_⟩
    linarith
  generalize Square_s3 x0 x1 x2 x3 t0 t1 t2 t3 = r at key ⊢
  obtain ⟨m, hm, hg, e⟩ := key
  refine ⟨hg, ?_⟩
  apply ciosStep_of_lin P P_ok _ _ _ _ m (by rw [P_W]; exact hm)
  rw [P_W, P_q]
  simp only [tval, val, limbsVal, Nat.reducePow]
  linarith

/-- the conditional subtraction `if !z.smallerThanModulus() { z -= q }` is `reduceOnce` -/
theorem Square_s4_spec (t0 t1 t2 t3 : Nat) (ht0 : t0 < 18446744073709551616) (ht1 : t1 < 18446744073709551616) (ht2 : t2 < 18446744073709551616) (ht3 : t3 < 18446744073709551616)
    (hT : val [t0, t1, t2, t3] < 2 * P.q) :
    Good (Square_s4 t0 t1 t2 t3) ∧ tval (Square_s4 t0 t1 t2 t3) = reduceOnce P (val [t0, t1, t2, t3]) := by
  have key : (fun r : Nat × Nat × Nat × Nat => (r.1 < 18446744073709551616 ∧ r.2.1 < 18446744073709551616 ∧ r.2.2.1 < 18446744073709551616 ∧ r.2.2.2 < 18446744073709551616) ∧
      (t0 + 18446744073709551616 * t1 + 340282366920938463463374607431768211456 * t2 + 6277101735386680763835789423207666416102355444464034512896 * t3 < 21888242871839275222246405745257275088548364400416034343698204186575808495617 → r.1 + 18446744073709551616 * r.2.1 + 340282366920938463463374607431768211456 * r.2.2.1 + 6277101735386680763835789423207666416102355444464034512896 * r.2.2.2 = t0 + 18446744073709551616 * t1 + 340282366920938463463374607431768211456 * t2 + 6277101735386680763835789423207666416102355444464034512896 * t3) ∧
      (21888242871839275222246405745257275088548364400416034343698204186575808495617 ≤ t0 + 18446744073709551616 * t1 + 340282366920938463463374607431768211456 * t2 + 6277101735386680763835789423207666416102355444464034512896 * t3 → r.1 + 18446744073709551616 * r.2.1 + 340282366920938463463374607431768211456 * r.2.2.1 + 6277101735386680763835789423207666416102355444464034512896 * r.2.2.2 + 21888242871839275222246405745257275088548364400416034343698204186575808495617 = t0 + 18446744073709551616 * t1 + 340282366920938463463374607431768211456 * t2 + 6277101735386680763835789423207666416102355444464034512896 * t3)) (Square_s4 t0 t1 t2 t3) := by
    have hs := smaller_iff t0 t1 t2 t3 ht0 ht1 ht2 ht3
    unfold smallerThanModulus at hs
    rw [P_q] at hT
    simp only [val, limbsVal, Nat.reducePow, Nat.reduceMul] at hT
    unfold Square_s4
    limb_start
    by_cases hc : t0 + 18446744073709551616 * t1 + 340282366920938463463374607431768211456 * t2 + 6277101735386680763835789423207666416102355444464034512896 * t3 < 21888242871839275222246405745257275088548364400416034343698204186575808495617
    · have hc' := hs.2 hc
      subst_ites [hc']
      simp only []
      refine ⟨⟨by exact_hyp, by exact_hyp, by exact_hyp, by exact_hyp⟩, fun h1 => ?_, fun h2 => ?_⟩ <;> first | exact trivial | linarith
    · have hc' : ¬ _ := fun h => hc (hs.1 h)
      subst_ites [hc']
      resolve_drops
      simp only []
      refine ⟨⟨by exact_hyp, by exact_hyp, by exact_hyp, by exact_hyp⟩, fun h1 => ?_, fun h2 => ?_⟩ <;> first | exact trivial | linarith
  generalize Square_s4 t0 t1 t2 t3 = r at key ⊢
  obtain ⟨hg, e1, e2⟩ := key
  refine ⟨hg, ?_⟩
  have hq := P_q
  unfold reduceOnce
  by_cases h : val [t0, t1, t2, t3] ≥ P.q
  · rw [if_pos h]
    apply Nat.eq_sub_of_add_eq
    simp only [tval, val, limbsVal, Nat.reducePow] at h ⊢
    have := e2 (by linarith)
    linarith
  · rw [if_neg h]
    simp only [tval, val, limbsVal, Nat.reducePow] at h ⊢
    have := e1 (by linarith)
    linarith

/-- **C01_limb Square**: `Element.Square` (element_purego.go) is the model's `square` -/
theorem Square_spec (x0 x1 x2 x3 : Nat) (hx0 : x0 < 18446744073709551616) (hx1 : x1 < 18446744073709551616) (hx2 : x2 < 18446744073709551616) (hx3 : x3 < 18446744073709551616)
    (hX : val [x0, x1, x2, x3] < P.q) :
    Good (Square x0 x1 x2 x3) ∧ tval (Square x0 x1 x2 x3) = GV.Field.square P (val [x0, x1, x2, x3]) := by
  have hY := hX
  unfold Square
  lift_lets
  intro_lets
  obtain ⟨g0, e0⟩ := Square_s0_spec x0 x1 x2 x3 hx0 hx1 hx2 hx3 hY
  rw [← r_0_def] at g0 e0
  have hT0 : val [r_0.1, r_0.2.1, r_0.2.2.1, r_0.2.2.2] < 2 * P.q := by
    rw [show val [r_0.1, r_0.2.1, r_0.2.2.1, r_0.2.2.2] = tval r_0 from rfl, e0]
    exact ciosStep_lt P P_ok _ _ _ (by have := P_ok.q_gt; omega) hY (by rw [P_W]; exact hx0)
  obtain ⟨g1, e1⟩ := Square_s1_spec x0 x1 x2 x3 r_0.1 r_0.2.1 r_0.2.2.1 r_0.2.2.2 hx0 hx1 hx2 hx3 g0.1 g0.2.1 g0.2.2.1 g0.2.2.2 hT0 hY
  rw [← r_1_def] at g1 e1
  have hT1 : val [r_1.1, r_1.2.1, r_1.2.2.1, r_1.2.2.2] < 2 * P.q := by
    rw [show val [r_1.1, r_1.2.1, r_1.2.2.1, r_1.2.2.2] = tval r_1 from rfl, e1]
    exact ciosStep_lt P P_ok _ _ _ hT0 hY (by rw [P_W]; exact hx1)
  obtain ⟨g2, e2⟩ := Square_s2_spec x0 x1 x2 x3 r_1.1 r_1.2.1 r_1.2.2.1 r_1.2.2.2 hx0 hx1 hx2 hx3 g1.1 g1.2.1 g1.2.2.1 g1.2.2.2 hT1 hY
  rw [← r_2_def] at g2 e2
  have hT2 : val [r_2.1, r_2.2.1, r_2.2.2.1, r_2.2.2.2] < 2 * P.q := by
    rw [show val [r_2.1, r_2.2.1, r_2.2.2.1, r_2.2.2.2] = tval r_2 from rfl, e2]
    exact ciosStep_lt P P_ok _ _ _ hT1 hY (by rw [P_W]; exact hx2)
  obtain ⟨g3, e3⟩ := Square_s3_spec x0 x1 x2 x3 r_2.1 r_2.2.1 r_2.2.2.1 r_2.2.2.2 hx0 hx1 hx2 hx3 g2.1 g2.2.1 g2.2.2.1 g2.2.2.2 hT2 hY
  rw [← r_3_def] at g3 e3
  have hT3 : val [r_3.1, r_3.2.1, r_3.2.2.1, r_3.2.2.2] < 2 * P.q := by
    rw [show val [r_3.1, r_3.2.1, r_3.2.2.1, r_3.2.2.2] = tval r_3 from rfl, e3]
    exact ciosStep_lt P P_ok _ _ _ hT2 hY (by rw [P_W]; exact hx3)
  obtain ⟨g4, e4⟩ := Square_s4_spec r_3.1 r_3.2.1 r_3.2.2.1 r_3.2.2.2 g3.1 g3.2.1 g3.2.2.1 g3.2.2.2 hT3
  rw [← r_4_def] at g4 e4
  refine ⟨g4, ?_⟩
  unfold GV.Field.square GV.Field.mul
  rw [show val [x0, x1, x2, x3] = limbsVal P.w [x0, x1, x2, x3] from rfl,
    montRaw_limbs P _ [x0, x1, x2, x3] (by intro y hy; rw [P_W]; simp only [List.mem_cons, List.not_mem_nil, or_false] at hy; rcases hy with rfl | rfl | rfl | rfl <;> assumption) rfl]
  rw [List.foldl_cons, List.foldl_cons, List.foldl_cons, List.foldl_cons, List.foldl_nil, show limbsVal P.w [x0, x1, x2, x3] = val [x0, x1, x2, x3] from rfl]
  show tval r_4 = _
  rw [e4]
  congr 1
  show tval r_3 = _
  rw [e3, show val [r_2.1, r_2.2.1, r_2.2.2.1, r_2.2.2.2] = tval r_2 from rfl, e2, show val [r_1.1, r_1.2.1, r_1.2.2.1, r_1.2.2.2] = tval r_1 from rfl, e1, show val [r_0.1, r_0.2.1, r_0.2.2.1, r_0.2.2.2] = tval r_0 from rfl, e0]

/-- the conditional subtraction `if !z.smallerThanModulus() { z -= q }` is `reduceOnce` -/
theorem reduceGeneric_spec (t0 t1 t2 t3 : Nat) (ht0 : t0 < 18446744073709551616) (ht1 : t1 < 18446744073709551616) (ht2 : t2 < 18446744073709551616) (ht3 : t3 < 18446744073709551616)
    (hT : val [t0, t1, t2, t3] < 2 * P.q) :
    Good (reduceGeneric t0 t1 t2 t3) ∧ tval (reduceGeneric t0 t1 t2 t3) = reduceOnce P (val [t0, t1, t2, t3]) := by
  have key : (fun r : Nat × Nat × Nat × Nat => (r.1 < 18446744073709551616 ∧ r.2.1 < 18446744073709551616 ∧ r.2.2.1 < 18446744073709551616 ∧ r.2.2.2 < 18446744073709551616) ∧
      (t0 + 18446744073709551616 * t1 + 340282366920938463463374607431768211456 * t2 + 6277101735386680763835789423207666416102355444464034512896 * t3 < 21888242871839275222246405745257275088548364400416034343698204186575808495617 → r.1 + 18446744073709551616 * r.2.1 + 340282366920938463463374607431768211456 * r.2.2.1 + 6277101735386680763835789423207666416102355444464034512896 * r.2.2.2 = t0 + 18446744073709551616 * t1 + 340282366920938463463374607431768211456 * t2 + 6277101735386680763835789423207666416102355444464034512896 * t3) ∧
      (21888242871839275222246405745257275088548364400416034343698204186575808495617 ≤ t0 + 18446744073709551616 * t1 + 340282366920938463463374607431768211456 * t2 + 6277101735386680763835789423207666416102355444464034512896 * t3 → r.1 + 18446744073709551616 * r.2.1 + 340282366920938463463374607431768211456 * r.2.2.1 + 6277101735386680763835789423207666416102355444464034512896 * r.2.2.2 + 21888242871839275222246405745257275088548364400416034343698204186575808495617 = t0 + 18446744073709551616 * t1 + 340282366920938463463374607431768211456 * t2 + 6277101735386680763835789423207666416102355444464034512896 * t3)) (reduceGeneric t0 t1 t2 t3) := by
    have hs := smaller_iff t0 t1 t2 t3 ht0 ht1 ht2 ht3
    unfold smallerThanModulus at hs
    rw [P_q] at hT
    simp only [val, limbsVal, Nat.reducePow, Nat.reduceMul] at hT
    unfold reduceGeneric
    limb_start
    by_cases hc : t0 + 18446744073709551616 * t1 + 340282366920938463463374607431768211456 * t2 + 6277101735386680763835789423207666416102355444464034512896 * t3 < 21888242871839275222246405745257275088548364400416034343698204186575808495617
    · have hc' := hs.2 hc
      subst_ites [hc']
      simp only []
      refine ⟨⟨by exact_hyp, by exact_hyp, by exact_hyp, by exact_hyp⟩, fun h1 => ?_, fun h2 => ?_⟩ <;> first | exact trivial | linarith
    · have hc' : ¬ _ := fun h => hc (hs.1 h)
      subst_ites [hc']
      resolve_drops
      simp only []
      refine ⟨⟨by exact_hyp, by exact_hyp, by exact_hyp, by exact_hyp⟩, fun h1 => ?_, fun h2 => ?_⟩ <;> first | exact trivial | linarith
  generalize reduceGeneric t0 t1 t2 t3 = r at key ⊢
  obtain ⟨hg, e1, e2⟩ := key
  refine ⟨hg, ?_⟩
  have hq := P_q
  unfold reduceOnce
  by_cases h : val [t0, t1, t2, t3] ≥ P.q
  · rw [if_pos h]
    apply Nat.eq_sub_of_add_eq
    simp only [tval, val, limbsVal, Nat.reducePow] at h ⊢
    have := e2 (by linarith)
    linarith
  · rw [if_neg h]
    simp only [tval, val, limbsVal, Nat.reducePow] at h ⊢
    have := e1 (by linarith)
    linarith

/-- **C01_limb Add**: carry chain + conditional subtraction = the model's `add` -/
theorem Add_spec (x0 x1 x2 x3 y0 y1 y2 y3 : Nat) (hx0 : x0 < 18446744073709551616) (hx1 : x1 < 18446744073709551616) (hx2 : x2 < 18446744073709551616) (hx3 : x3 < 18446744073709551616) (hy0 : y0 < 18446744073709551616) (hy1 : y1 < 18446744073709551616) (hy2 : y2 < 18446744073709551616) (hy3 : y3 < 18446744073709551616)
    (hX : val [x0, x1, x2, x3] < P.q) (hY : val [y0, y1, y2, y3] < P.q) :
    Good (Gen.Limb.bn254_fr.Add x0 x1 x2 x3 y0 y1 y2 y3) ∧ tval (Gen.Limb.bn254_fr.Add x0 x1 x2 x3 y0 y1 y2 y3) = GV.Field.add P (val [x0, x1, x2, x3]) (val [y0, y1, y2, y3]) := by
  have key : (fun r : Nat × Nat × Nat × Nat => (r.1 < 18446744073709551616 ∧ r.2.1 < 18446744073709551616 ∧ r.2.2.1 < 18446744073709551616 ∧ r.2.2.2 < 18446744073709551616) ∧
      ((x0 + 18446744073709551616 * x1 + 340282366920938463463374607431768211456 * x2 + 6277101735386680763835789423207666416102355444464034512896 * x3) + (y0 + 18446744073709551616 * y1 + 340282366920938463463374607431768211456 * y2 + 6277101735386680763835789423207666416102355444464034512896 * y3) < 21888242871839275222246405745257275088548364400416034343698204186575808495617 → r.1 + 18446744073709551616 * r.2.1 + 340282366920938463463374607431768211456 * r.2.2.1 + 6277101735386680763835789423207666416102355444464034512896 * r.2.2.2 = (x0 + 18446744073709551616 * x1 + 340282366920938463463374607431768211456 * x2 + 6277101735386680763835789423207666416102355444464034512896 * x3) + (y0 + 18446744073709551616 * y1 + 340282366920938463463374607431768211456 * y2 + 6277101735386680763835789423207666416102355444464034512896 * y3)) ∧
      (21888242871839275222246405745257275088548364400416034343698204186575808495617 ≤ (x0 + 18446744073709551616 * x1 + 340282366920938463463374607431768211456 * x2 + 6277101735386680763835789423207666416102355444464034512896 * x3) + (y0 + 18446744073709551616 * y1 + 340282366920938463463374607431768211456 * y2 + 6277101735386680763835789423207666416102355444464034512896 * y3) → r.1 + 18446744073709551616 * r.2.1 + 340282366920938463463374607431768211456 * r.2.2.1 + 6277101735386680763835789423207666416102355444464034512896 * r.2.2.2 + 21888242871839275222246405745257275088548364400416034343698204186575808495617 = (x0 + 18446744073709551616 * x1 + 340282366920938463463374607431768211456 * x2 + 6277101735386680763835789423207666416102355444464034512896 * x3) + (y0 + 18446744073709551616 * y1 + 340282366920938463463374607431768211456 * y2 + 6277101735386680763835789423207666416102355444464034512896 * y3))) (Gen.Limb.bn254_fr.Add x0 x1 x2 x3 y0 y1 y2 y3) := by
    rw [P_q] at hX hY
    simp only [val, limbsVal, Nat.reducePow, Nat.reduceMul] at hX hY
    unfold Gen.Limb.bn254_fr.Add
    limb_start
    resolve_drops
    have hs := smaller_iff z0_1 z1_1 z2_1 z3_1 z0_1_def_lt z1_1_def_lt z2_1_def_lt z3_1_def_lt
    unfold smallerThanModulus at hs
    by_cases hc : z0_1 + 18446744073709551616 * z1_1 + 340282366920938463463374607431768211456 * z2_1 + 6277101735386680763835789423207666416102355444464034512896 * z3_1 < 21888242871839275222246405745257275088548364400416034343698204186575808495617
    · have hc' := hs.2 hc
      subst_ites [hc']
      simp only []
      refine ⟨⟨by exact_hyp, by exact_hyp, by exact_hyp, by exact_hyp⟩, fun h1 => ?_, fun h2 => ?_⟩ <;> first | exact trivial | linarith
    · have hc' : ¬ _ := fun h => hc (hs.1 h)
      subst_ites [hc']
      resolve_drops
      simp only []
      refine ⟨⟨by exact_hyp, by exact_hyp, by exact_hyp, by exact_hyp⟩, fun h1 => ?_, fun h2 => ?_⟩ <;> first | exact trivial | linarith
  generalize Gen.Limb.bn254_fr.Add x0 x1 x2 x3 y0 y1 y2 y3 = r at key ⊢
  obtain ⟨hg, e1, e2⟩ := key
  refine ⟨hg, ?_⟩
  have hq := P_q
  unfold GV.Field.add reduceOnce
  by_cases h : val [x0, x1, x2, x3] + val [y0, y1, y2, y3] ≥ P.q
  · rw [if_pos h]
    apply Nat.eq_sub_of_add_eq
    simp only [tval, val, limbsVal, Nat.reducePow] at h ⊢
    have := e2 (by linarith)
    linarith
  · rw [if_neg h]
    simp only [tval, val, limbsVal, Nat.reducePow] at h ⊢
    have := e1 (by linarith)
    linarith

/-- **C01_limb Double**: carry chain + conditional subtraction = the model's `double` -/
theorem Double_spec (x0 x1 x2 x3 : Nat) (hx0 : x0 < 18446744073709551616) (hx1 : x1 < 18446744073709551616) (hx2 : x2 < 18446744073709551616) (hx3 : x3 < 18446744073709551616)
    (hX : val [x0, x1, x2, x3] < P.q) :
    Good (Double x0 x1 x2 x3) ∧ tval (Double x0 x1 x2 x3) = GV.Field.double P (val [x0, x1, x2, x3]) := by
  have key : (fun r : Nat × Nat × Nat × Nat => (r.1 < 18446744073709551616 ∧ r.2.1 < 18446744073709551616 ∧ r.2.2.1 < 18446744073709551616 ∧ r.2.2.2 < 18446744073709551616) ∧
      ((x0 + 18446744073709551616 * x1 + 340282366920938463463374607431768211456 * x2 + 6277101735386680763835789423207666416102355444464034512896 * x3) + (x0 + 18446744073709551616 * x1 + 340282366920938463463374607431768211456 * x2 + 6277101735386680763835789423207666416102355444464034512896 * x3) < 21888242871839275222246405745257275088548364400416034343698204186575808495617 → r.1 + 18446744073709551616 * r.2.1 + 340282366920938463463374607431768211456 * r.2.2.1 + 6277101735386680763835789423207666416102355444464034512896 * r.2.2.2 = (x0 + 18446744073709551616 * x1 + 340282366920938463463374607431768211456 * x2 + 6277101735386680763835789423207666416102355444464034512896 * x3) + (x0 + 18446744073709551616 * x1 + 340282366920938463463374607431768211456 * x2 + 6277101735386680763835789423207666416102355444464034512896 * x3)) ∧
      (21888242871839275222246405745257275088548364400416034343698204186575808495617 ≤ (x0 + 18446744073709551616 * x1 + 340282366920938463463374607431768211456 * x2 + 6277101735386680763835789423207666416102355444464034512896 * x3) + (x0 + 18446744073709551616 * x1 + 340282366920938463463374607431768211456 * x2 + 6277101735386680763835789423207666416102355444464034512896 * x3) → r.1 + 18446744073709551616 * r.2.1 + 340282366920938463463374607431768211456 * r.2.2.1 + 6277101735386680763835789423207666416102355444464034512896 * r.2.2.2 + 21888242871839275222246405745257275088548364400416034343698204186575808495617 = (x0 + 18446744073709551616 * x1 + 340282366920938463463374607431768211456 * x2 + 6277101735386680763835789423207666416102355444464034512896 * x3) + (x0 + 18446744073709551616 * x1 + 340282366920938463463374607431768211456 * x2 + 6277101735386680763835789423207666416102355444464034512896 * x3))) (Double x0 x1 x2 x3) := by
    rw [P_q] at hX
    simp only [val, limbsVal, Nat.reducePow, Nat.reduceMul] at hX
    unfold Double
    limb_start
    resolve_drops
    have hs := smaller_iff z0_1 z1_1 z2_1 z3_1 z0_1_def_lt z1_1_def_lt z2_1_def_lt z3_1_def_lt
    unfold smallerThanModulus at hs
    by_cases hc : z0_1 + 18446744073709551616 * z1_1 + 340282366920938463463374607431768211456 * z2_1 + 6277101735386680763835789423207666416102355444464034512896 * z3_1 < 21888242871839275222246405745257275088548364400416034343698204186575808495617
    · have hc' := hs.2 hc
      subst_ites [hc']
      simp only []
      refine ⟨⟨by exact_hyp, by exact_hyp, by exact_hyp, by exact_hyp⟩, fun h1 => ?_, fun h2 => ?_⟩ <;> first | exact trivial | linarith
    · have hc' : ¬ _ := fun h => hc (hs.1 h)
      subst_ites [hc']
      resolve_drops
      simp only []
      refine ⟨⟨by exact_hyp, by exact_hyp, by exact_hyp, by exact_hyp⟩, fun h1 => ?_, fun h2 => ?_⟩ <;> first | exact trivial | linarith
  generalize Double x0 x1 x2 x3 = r at key ⊢
  obtain ⟨hg, e1, e2⟩ := key
  refine ⟨hg, ?_⟩
  have hq := P_q
  unfold GV.Field.double reduceOnce
  by_cases h : val [x0, x1, x2, x3] + val [x0, x1, x2, x3] ≥ P.q
  · rw [if_pos h]
    apply Nat.eq_sub_of_add_eq
    simp only [tval, val, limbsVal, Nat.reducePow] at h ⊢
    have := e2 (by linarith)
    linarith
  · rw [if_neg h]
    simp only [tval, val, limbsVal, Nat.reducePow] at h ⊢
    have := e1 (by linarith)
    linarith

/-- **C01_limb Sub**: borrow chain + conditional addition of `q` = the model's `sub` -/
theorem Sub_spec (x0 x1 x2 x3 y0 y1 y2 y3 : Nat) (hx0 : x0 < 18446744073709551616) (hx1 : x1 < 18446744073709551616) (hx2 : x2 < 18446744073709551616) (hx3 : x3 < 18446744073709551616) (hy0 : y0 < 18446744073709551616) (hy1 : y1 < 18446744073709551616) (hy2 : y2 < 18446744073709551616) (hy3 : y3 < 18446744073709551616)
    (hX : val [x0, x1, x2, x3] < P.q) (hY : val [y0, y1, y2, y3] < P.q) :
    Good (Gen.Limb.bn254_fr.Sub x0 x1 x2 x3 y0 y1 y2 y3) ∧ tval (Gen.Limb.bn254_fr.Sub x0 x1 x2 x3 y0 y1 y2 y3) = GV.Field.sub P (val [x0, x1, x2, x3]) (val [y0, y1, y2, y3]) := by
  have key : (fun r : Nat × Nat × Nat × Nat => (r.1 < 18446744073709551616 ∧ r.2.1 < 18446744073709551616 ∧ r.2.2.1 < 18446744073709551616 ∧ r.2.2.2 < 18446744073709551616) ∧
      ((x0 + 18446744073709551616 * x1 + 340282366920938463463374607431768211456 * x2 + 6277101735386680763835789423207666416102355444464034512896 * x3) < (y0 + 18446744073709551616 * y1 + 340282366920938463463374607431768211456 * y2 + 6277101735386680763835789423207666416102355444464034512896 * y3) → r.1 + 18446744073709551616 * r.2.1 + 340282366920938463463374607431768211456 * r.2.2.1 + 6277101735386680763835789423207666416102355444464034512896 * r.2.2.2 + (y0 + 18446744073709551616 * y1 + 340282366920938463463374607431768211456 * y2 + 6277101735386680763835789423207666416102355444464034512896 * y3) = (x0 + 18446744073709551616 * x1 + 340282366920938463463374607431768211456 * x2 + 6277101735386680763835789423207666416102355444464034512896 * x3) + 21888242871839275222246405745257275088548364400416034343698204186575808495617) ∧
      ((y0 + 18446744073709551616 * y1 + 340282366920938463463374607431768211456 * y2 + 6277101735386680763835789423207666416102355444464034512896 * y3) ≤ (x0 + 18446744073709551616 * x1 + 340282366920938463463374607431768211456 * x2 + 6277101735386680763835789423207666416102355444464034512896 * x3) → r.1 + 18446744073709551616 * r.2.1 + 340282366920938463463374607431768211456 * r.2.2.1 + 6277101735386680763835789423207666416102355444464034512896 * r.2.2.2 + (y0 + 18446744073709551616 * y1 + 340282366920938463463374607431768211456 * y2 + 6277101735386680763835789423207666416102355444464034512896 * y3) = (x0 + 18446744073709551616 * x1 + 340282366920938463463374607431768211456 * x2 + 6277101735386680763835789423207666416102355444464034512896 * x3))) (Gen.Limb.bn254_fr.Sub x0 x1 x2 x3 y0 y1 y2 y3) := by
    rw [P_q] at hX hY
    simp only [val, limbsVal, Nat.reducePow, Nat.reduceMul] at hX hY
    unfold Gen.Limb.bn254_fr.Sub
    limb_start
    by_cases hc : (x0 + 18446744073709551616 * x1 + 340282366920938463463374607431768211456 * x2 + 6277101735386680763835789423207666416102355444464034512896 * x3) < (y0 + 18446744073709551616 * y1 + 340282366920938463463374607431768211456 * y2 + 6277101735386680763835789423207666416102355444464034512896 * y3)
    · have hb : b_4 = 1 := by
        have h1 : 0 < b_4 := by linarith
        clear * - h1 b_4_def_le
        omega
      subst hb
      subst_ites []
      have hd : drop_1 = 1 := by
        have h1 : 0 < drop_1 := by linarith
        have h2 : drop_1 < 2 := by linarith
        clear * - h1 h2
        omega
      subst hd
      simp only []
      refine ⟨⟨by exact_hyp, by exact_hyp, by exact_hyp, by exact_hyp⟩, fun h1 => ?_, fun h2 => ?_⟩ <;> first | exact trivial | linarith
    · have hb : b_4 = 0 := by
        have h1 : b_4 < 1 := by linarith
        clear * - h1
        omega
      subst hb
      subst_ites []
      simp only []
      refine ⟨⟨by exact_hyp, by exact_hyp, by exact_hyp, by exact_hyp⟩, fun h1 => ?_, fun h2 => ?_⟩ <;> first | exact trivial | linarith
  generalize Gen.Limb.bn254_fr.Sub x0 x1 x2 x3 y0 y1 y2 y3 = r at key ⊢
  obtain ⟨hg, e1, e2⟩ := key
  refine ⟨hg, ?_⟩
  have hq := P_q
  unfold GV.Field.sub
  by_cases h : val [x0, x1, x2, x3] < val [y0, y1, y2, y3]
  · rw [if_pos h]
    apply Nat.eq_sub_of_add_eq
    simp only [tval, val, limbsVal, Nat.reducePow] at h ⊢
    have := e1 (by linarith)
    linarith
  · rw [if_neg h]
    apply Nat.eq_sub_of_add_eq
    simp only [tval, val, limbsVal, Nat.reducePow] at h ⊢
    have := e2 (by linarith)
    linarith

/-- **C01_limb Neg**: `0 ↦ 0`, otherwise the borrow chain `q - x` = the model's `neg` -/
theorem Neg_spec (x0 x1 x2 x3 : Nat) (hx0 : x0 < 18446744073709551616) (hx1 : x1 < 18446744073709551616) (hx2 : x2 < 18446744073709551616) (hx3 : x3 < 18446744073709551616)
    (hX : val [x0, x1, x2, x3] < P.q) :
    Good (Gen.Limb.bn254_fr.Neg x0 x1 x2 x3) ∧ tval (Gen.Limb.bn254_fr.Neg x0 x1 x2 x3) = GV.Field.neg P (val [x0, x1, x2, x3]) := by
  have key : (fun r : Nat × Nat × Nat × Nat => (r.1 < 18446744073709551616 ∧ r.2.1 < 18446744073709551616 ∧ r.2.2.1 < 18446744073709551616 ∧ r.2.2.2 < 18446744073709551616) ∧
      ((x0 + 18446744073709551616 * x1 + 340282366920938463463374607431768211456 * x2 + 6277101735386680763835789423207666416102355444464034512896 * x3) = 0 → r.1 + 18446744073709551616 * r.2.1 + 340282366920938463463374607431768211456 * r.2.2.1 + 6277101735386680763835789423207666416102355444464034512896 * r.2.2.2 = 0) ∧
      ((x0 + 18446744073709551616 * x1 + 340282366920938463463374607431768211456 * x2 + 6277101735386680763835789423207666416102355444464034512896 * x3) ≠ 0 → r.1 + 18446744073709551616 * r.2.1 + 340282366920938463463374607431768211456 * r.2.2.1 + 6277101735386680763835789423207666416102355444464034512896 * r.2.2.2 + (x0 + 18446744073709551616 * x1 + 340282366920938463463374607431768211456 * x2 + 6277101735386680763835789423207666416102355444464034512896 * x3) = 21888242871839275222246405745257275088548364400416034343698204186575808495617)) (Gen.Limb.bn254_fr.Neg x0 x1 x2 x3) := by
    rw [P_q] at hX
    simp only [val, limbsVal, Nat.reducePow, Nat.reduceMul] at hX
    unfold Gen.Limb.bn254_fr.Neg
    limb_start
    resolve_drops
    by_cases hc : x0 = 0 ∧ x1 = 0 ∧ x2 = 0 ∧ x3 = 0
    · have hc' : (((x3 ||| x2) ||| x1) ||| x0) = 0 := by
        obtain ⟨h0, h1, h2, h3⟩ := hc
        subst h0 h1 h2 h3
        rfl
      subst_ites [hc']
      simp only []
      refine ⟨⟨by omega, by omega, by omega, by omega⟩, fun h1 => ?_, fun h2 => ?_⟩ <;> first | exact trivial | omega
    · have hc' : ¬ ((((x3 ||| x2) ||| x1) ||| x0) = 0) := by
        intro h
        simp only [Nat.or_eq_zero_iff] at h
        omega
      subst_ites [hc']
      simp only []
      refine ⟨⟨by exact_hyp, by exact_hyp, by exact_hyp, by exact_hyp⟩, fun h1 => ?_, fun h2 => ?_⟩
      · exfalso
        clear * - h1 hc
        omega
      · linarith
  generalize Gen.Limb.bn254_fr.Neg x0 x1 x2 x3 = r at key ⊢
  obtain ⟨hg, e1, e2⟩ := key
  refine ⟨hg, ?_⟩
  have hq := P_q
  unfold GV.Field.neg
  by_cases h : val [x0, x1, x2, x3] = 0
  · rw [if_pos h]
    simp only [tval, val, limbsVal, Nat.reducePow] at h ⊢
    have := e1 (by linarith)
    linarith
  · rw [if_neg h]
    apply Nat.eq_sub_of_add_eq
    simp only [tval, val, limbsVal, Nat.reducePow] at h ⊢
    have := e2 (by omega)
    linarith

/-- outer iteration 0 of the CIOS loop of `mulGeneric` is one CIOS step of the model -/
theorem mulGeneric_s0_spec (x0 x1 x2 x3 y : Nat) (hx0 : x0 < 18446744073709551616) (hx1 : x1 < 18446744073709551616) (hx2 : x2 < 18446744073709551616) (hx3 : x3 < 18446744073709551616) (hy : y < 18446744073709551616)
    (hX : val [x0, x1, x2, x3] < P.q) :
    ((mulGeneric_s0 x0 x1 x2 x3 y).1 < 18446744073709551616 ∧ (mulGeneric_s0 x0 x1 x2 x3 y).2.1 < 18446744073709551616 ∧ (mulGeneric_s0 x0 x1 x2 x3 y).2.2.1 < 18446744073709551616 ∧ (mulGeneric_s0 x0 x1 x2 x3 y).2.2.2.1 < 18446744073709551616 ∧ (mulGeneric_s0 x0 x1 x2 x3 y).2.2.2.2 < 18446744073709551616) ∧
      val [(mulGeneric_s0 x0 x1 x2 x3 y).1, (mulGeneric_s0 x0 x1 x2 x3 y).2.1, (mulGeneric_s0 x0 x1 x2 x3 y).2.2.1, (mulGeneric_s0 x0 x1 x2 x3 y).2.2.2.1, (mulGeneric_s0 x0 x1 x2 x3 y).2.2.2.2] = ciosStep P (val [x0, x1, x2, x3]) (0) y := by
  have key : (fun r : Nat × Nat × Nat × Nat × Nat => ∃ m, m < 18446744073709551616 ∧ (r.1 < 18446744073709551616 ∧ r.2.1 < 18446744073709551616 ∧ r.2.2.1 < 18446744073709551616 ∧ r.2.2.2.1 < 18446744073709551616 ∧ r.2.2.2.2 < 18446744073709551616) ∧
      (r.1 + 18446744073709551616 * r.2.1 + 340282366920938463463374607431768211456 * r.2.2.1 + 6277101735386680763835789423207666416102355444464034512896 * r.2.2.2.1 + 115792089237316195423570985008687907853269984665640564039457584007913129639936 * r.2.2.2.2) * 18446744073709551616
        = ((y * x0) + 18446744073709551616 * (y * x1) + 340282366920938463463374607431768211456 * (y * x2) + 6277101735386680763835789423207666416102355444464034512896 * (y * x3)) + m * 21888242871839275222246405745257275088548364400416034343698204186575808495617) (mulGeneric_s0 x0 x1 x2 x3 y) := by
    rw [P_q] at hX
    simp only [val, limbsVal, Nat.reducePow, Nat.reduceMul] at hX
    have b0 : y * x0 ≤ 18446744073709551615 * x0 := Nat.mul_le_mul_right _ (by omega)
    have b1 : y * x1 ≤ 18446744073709551615 * x1 := Nat.mul_le_mul_right _ (by omega)
    have b2 : y * x2 ≤ 18446744073709551615 * x2 := Nat.mul_le_mul_right _ (by omega)
    have b3 : y * x3 ≤ 18446744073709551615 * x3 := Nat.mul_le_mul_right _ (by omega)
    unfold mulGeneric_s0
    limb_start
    resolve_drops
    simp only []
    exists_local "m_"
    refine ⟨by exact_hyp, ⟨by exact_hyp, by exact_hyp, by exact_hyp, by exact_hyp, by exact_hyp⟩, ?_⟩
    linarith
  generalize mulGeneric_s0 x0 x1 x2 x3 y = r at key ⊢
  obtain ⟨m, hm, hg, e⟩ := key
  refine ⟨hg, ?_⟩
  apply ciosStep_of_lin P P_ok _ _ _ _ m (by rw [P_W]; exact hm)
  rw [P_W, P_q]
  simp only [val, limbsVal, Nat.reducePow]
  linarith

/-- outer iteration 1 of the CIOS loop of `mulGeneric` is one CIOS step of the model -/
theorem mulGeneric_s1_spec (x0 x1 x2 x3 y t0 t1 t2 t3 t4 : Nat) (hx0 : x0 < 18446744073709551616) (hx1 : x1 < 18446744073709551616) (hx2 : x2 < 18446744073709551616) (hx3 : x3 < 18446744073709551616) (hy : y < 18446744073709551616) (ht0 : t0 < 18446744073709551616) (ht1 : t1 < 18446744073709551616) (ht2 : t2 < 18446744073709551616) (ht3 : t3 < 18446744073709551616) (ht4 : t4 < 18446744073709551616)
    (hT : val [t0, t1, t2, t3, t4] < 2 * P.q)
    (hX : val [x0, x1, x2, x3] < P.q) :
    ((mulGeneric_s1 x0 x1 x2 x3 y t0 t1 t2 t3 t4).1 < 18446744073709551616 ∧ (mulGeneric_s1 x0 x1 x2 x3 y t0 t1 t2 t3 t4).2.1 < 18446744073709551616 ∧ (mulGeneric_s1 x0 x1 x2 x3 y t0 t1 t2 t3 t4).2.2.1 < 18446744073709551616 ∧ (mulGeneric_s1 x0 x1 x2 x3 y t0 t1 t2 t3 t4).2.2.2.1 < 18446744073709551616 ∧ (mulGeneric_s1 x0 x1 x2 x3 y t0 t1 t2 t3 t4).2.2.2.2 < 18446744073709551616) ∧
      val [(mulGeneric_s1 x0 x1 x2 x3 y t0 t1 t2 t3 t4).1, (mulGeneric_s1 x0 x1 x2 x3 y t0 t1 t2 t3 t4).2.1, (mulGeneric_s1 x0 x1 x2 x3 y t0 t1 t2 t3 t4).2.2.1, (mulGeneric_s1 x0 x1 x2 x3 y t0 t1 t2 t3 t4).2.2.2.1, (mulGeneric_s1 x0 x1 x2 x3 y t0 t1 t2 t3 t4).2.2.2.2] = ciosStep P (val [x0, x1, x2, x3]) (val [t0, t1, t2, t3, t4]) y := by
  have key : (fun r : Nat × Nat × Nat × Nat × Nat => ∃ m, m < 18446744073709551616 ∧ (r.1 < 18446744073709551616 ∧ r.2.1 < 18446744073709551616 ∧ r.2.2.1 < 18446744073709551616 ∧ r.2.2.2.1 < 18446744073709551616 ∧ r.2.2.2.2 < 18446744073709551616) ∧
      (r.1 + 18446744073709551616 * r.2.1 + 340282366920938463463374607431768211456 * r.2.2.1 + 6277101735386680763835789423207666416102355444464034512896 * r.2.2.2.1 + 115792089237316195423570985008687907853269984665640564039457584007913129639936 * r.2.2.2.2) * 18446744073709551616
        = (t0 + 18446744073709551616 * t1 + 340282366920938463463374607431768211456 * t2 + 6277101735386680763835789423207666416102355444464034512896 * t3 + 115792089237316195423570985008687907853269984665640564039457584007913129639936 * t4) + ((y * x0) + 18446744073709551616 * (y * x1) + 340282366920938463463374607431768211456 * (y * x2) + 6277101735386680763835789423207666416102355444464034512896 * (y * x3)) + m * 21888242871839275222246405745257275088548364400416034343698204186575808495617) (mulGeneric_s1 x0 x1 x2 x3 y t0 t1 t2 t3 t4) := by
    rw [P_q] at hT hX
    simp only [val, limbsVal, Nat.reducePow, Nat.reduceMul] at hT hX
    have b0 : y * x0 ≤ 18446744073709551615 * x0 := Nat.mul_le_mul_right _ (by omega)
    have b1 : y * x1 ≤ 18446744073709551615 * x1 := Nat.mul_le_mul_right _ (by omega)
    have b2 : y * x2 ≤ 18446744073709551615 * x2 := Nat.mul_le_mul_right _ (by omega)
    have b3 : y * x3 ≤ 18446744073709551615 * x3 := Nat.mul_le_mul_right _ (by omega)
    unfold mulGeneric_s1
    limb_start
    resolve_drops
    simp only []
    exists_local "m_"
    refine ⟨by exact_hyp, ⟨by exact_hyp, by exact_hyp, by exact_hyp, by exact_hyp, by exact_hyp⟩, ?_⟩
    linarith
  generalize mulGeneric_s1 x0 x1 x2 x3 y t0 t1 t2 t3 t4 = r at key ⊢
  obtain ⟨m, hm, hg, e⟩ := key
  refine ⟨hg, ?_⟩
  apply ciosStep_of_lin P P_ok _ _ _ _ m (by rw [P_W]; exact hm)
  rw [P_W, P_q]
  simp only [val, limbsVal, Nat.reducePow]
  linarith

/-- outer iteration 2 of the CIOS loop of `mulGeneric` is one CIOS step of the model -/
theorem mulGeneric_s2_spec (x0 x1 x2 x3 y t0 t1 t2 t3 t4 : Nat) (hx0 : x0 < 18446744073709551616) (hx1 : x1 < 18446744073709551616) (hx2 : x2 < 18446744073709551616) (hx3 : x3 < 18446744073709551616) (hy : y < 18446744073709551616) (ht0 : t0 < 18446744073709551616) (ht1 : t1 < 18446744073709551616) (ht2 : t2 < 18446744073709551616) (ht3 : t3 < 18446744073709551616) (ht4 : t4 < 18446744073709551616)
    (hT : val [t0, t1, t2, t3, t4] < 2 * P.q)
    (hX : val [x0, x1, x2, x3] < P.q) :
    ((mulGeneric_s2 x0 x1 x2 x3 y t0 t1 t2 t3 t4).1 < 18446744073709551616 ∧ (mulGeneric_s2 x0 x1 x2 x3 y t0 t1 t2 t3 t4).2.1 < 18446744073709551616 ∧ (mulGeneric_s2 x0 x1 x2 x3 y t0 t1 t2 t3 t4).2.2.1 < 18446744073709551616 ∧ (mulGeneric_s2 x0 x1 x2 x3 y t0 t1 t2 t3 t4).2.2.2.1 < 18446744073709551616 ∧ (mulGeneric_s2 x0 x1 x2 x3 y t0 t1 t2 t3 t4).2.2.2.2 < 18446744073709551616) ∧
      val [(mulGeneric_s2 x0 x1 x2 x3 y t0 t1 t2 t3 t4).1, (mulGeneric_s2 x0 x1 x2 x3 y t0 t1 t2 t3 t4).2.1, (mulGeneric_s2 x0 x1 x2 x3 y t0 t1 t2 t3 t4).2.2.1, (mulGeneric_s2 x0 x1 x2 x3 y t0 t1 t2 t3 t4).2.2.2.1, (mulGeneric_s2 x0 x1 x2 x3 y t0 t1 t2 t3 t4).2.2.2.2] = ciosStep P (val [x0, x1, x2, x3]) (val [t0, t1, t2, t3, t4]) y := by
  have key : (fun r : Nat × Nat × Nat × Nat × Nat => ∃ m, m < 18446744073709551616 ∧ (r.1 < 18446744073709551616 ∧ r.2.1 < 18446744073709551616 ∧ r.2.2.1 < 18446744073709551616 ∧ r.2.2.2.1 < 18446744073709551616 ∧ r.2.2.2.2 < 18446744073709551616) ∧
      (r.1 + 18446744073709551616 * r.2.1 + 340282366920938463463374607431768211456 * r.2.2.1 + 6277101735386680763835789423207666416102355444464034512896 * r.2.2.2.1 + 115792089237316195423570985008687907853269984665640564039457584007913129639936 * r.2.2.2.2) * 18446744073709551616
        = (t0 + 18446744073709551616 * t1 + 340282366920938463463374607431768211456 * t2 + 6277101735386680763835789423207666416102355444464034512896 * t3 + 115792089237316195423570985008687907853269984665640564039457584007913129639936 * t4) + ((y * x0) + 18446744073709551616 * (y * x1) + 340282366920938463463374607431768211456 * (y * x2) + 6277101735386680763835789423207666416102355444464034512896 * (y * x3)) + m * 21888242871839275222246405745257275088548364400416034343698204186575808495617) (mulGeneric_s2 x0 x1 x2 x3 y t0 t1 t2 t3 t4) := by
    rw [P_q] at hT hX
    simp only [val, limbsVal, Nat.reducePow, Nat.reduceMul] at hT hX
    have b0 : y * x0 ≤ 18446744073709551615 * x0 := Nat.mul_le_mul_right _ (by omega)
    have b1 : y * x1 ≤ 18446744073709551615 * x1 := Nat.mul_le_mul_right _ (by omega)
    have b2 : y * x2 ≤ 18446744073709551615 * x2 := Nat.mul_le_mul_right _ (by omega)
    have b3 : y * x3 ≤ 18446744073709551615 * x3 := Nat.mul_le_mul_right _ (by omega)
    unfold mulGeneric_s2
    limb_start
    resolve_drops
    simp only []
    exists_local "m_"
    refine ⟨by exact_hyp, ⟨by exact_hyp, by exact_hyp, by exact_hyp, by exact_hyp, by exact_hyp⟩, ?_⟩
    linarith
  generalize mulGeneric_s2 x0 x1 x2 x3 y t0 t1 t2 t3 t4 = r at key ⊢
  obtain ⟨m, hm, hg, e⟩ := key
  refine ⟨hg, ?_⟩
  apply ciosStep_of_lin P P_ok _ _ _ _ m (by rw [P_W]; exact hm)
  rw [P_W, P_q]
  simp only [val, limbsVal, Nat.reducePow]
  linarith

/-- outer iteration 3 of the CIOS loop of `mulGeneric` is one CIOS step of the model -/
theorem mulGeneric_s3_spec (x0 x1 x2 x3 y t0 t1 t2 t3 t4 : Nat) (hx0 : x0 < 18446744073709551616) (hx1 : x1 < 18446744073709551616) (hx2 : x2 < 18446744073709551616) (hx3 : x3 < 18446744073709551616) (hy : y < 18446744073709551616) (ht0 : t0 < 18446744073709551616) (ht1 : t1 < 18446744073709551616) (ht2 : t2 < 18446744073709551616) (ht3 : t3 < 18446744073709551616) (ht4 : t4 < 18446744073709551616)
    (hT : val [t0, t1, t2, t3, t4] < 2 * P.q)
    (hX : val [x0, x1, x2, x3] < P.q) :
    ((mulGeneric_s3 x0 x1 x2 x3 y t0 t1 t2 t3 t4).1 < 18446744073709551616 ∧ (mulGeneric_s3 x0 x1 x2 x3 y t0 t1 t2 t3 t4).2.1 < 18446744073709551616 ∧ (mulGeneric_s3 x0 x1 x2 x3 y t0 t1 t2 t3 t4).2.2.1 < 18446744073709551616 ∧ (mulGeneric_s3 x0 x1 x2 x3 y t0 t1 t2 t3 t4).2.2.2.1 < 18446744073709551616 ∧ (mulGeneric_s3 x0 x1 x2 x3 y t0 t1 t2 t3 t4).2.2.2.2 < 18446744073709551616) ∧
      val [(mulGeneric_s3 x0 x1 x2 x3 y t0 t1 t2 t3 t4).1, (mulGeneric_s3 x0 x1 x2 x3 y t0 t1 t2 t3 t4).2.1, (mulGeneric_s3 x0 x1 x2 x3 y t0 t1 t2 t3 t4).2.2.1, (mulGeneric_s3 x0 x1 x2 x3 y t0 t1 t2 t3 t4).2.2.2.1, (mulGeneric_s3 x0 x1 x2 x3 y t0 t1 t2 t3 t4).2.2.2.2] = ciosStep P (val [x0, x1, x2, x3]) (val [t0, t1, t2, t3, t4]) y := by
  have key : (fun r : Nat × Nat × Nat × Nat × Nat => ∃ m, m < 18446744073709551616 ∧ (r.1 < 18446744073709551616 ∧ r.2.1 < 18446744073709551616 ∧ r.2.2.1 < 18446744073709551616 ∧ r.2.2.2.1 < 18446744073709551616 ∧ r.2.2.2.2 < 18446744073709551616) ∧
      (r.1 + 18446744073709551616 * r.2.1 + 340282366920938463463374607431768211456 * r.2.2.1 + 6277101735386680763835789423207666416102355444464034512896 * r.2.2.2.1 + 115792089237316195423570985008687907853269984665640564039457584007913129639936 * r.2.2.2.2) * 18446744073709551616
        = (t0 + 18446744073709551616 * t1 + 340282366920938463463374607431768211456 * t2 + 6277101735386680763835789423207666416102355444464034512896 * t3 + 115792089237316195423570985008687907853269984665640564039457584007913129639936 * t4) + ((y * x0) + 18446744073709551616 * (y * x1) + 340282366920938463463374607431768211456 * (y * x2) + 6277101735386680763835789423207666416102355444464034512896 * (y * x3)) + m * 21888242871839275222246405745257275088548364400416034343698204186575808495617) (mulGeneric_s3 x0 x1 x2 x3 y t0 t1 t2 t3 t4) := by
    rw [P_q] at hT hX
    simp only [val, limbsVal, Nat.reducePow, Nat.reduceMul] at hT hX
    have b0 : y * x0 ≤ 18446744073709551615 * x0 := Nat.mul_le_mul_right _ (by omega)
    have b1 : y * x1 ≤ 18446744073709551615 * x1 := Nat.mul_le_mul_right _ (by omega)
    have b2 : y * x2 ≤ 18446744073709551615 * x2 := Nat.mul_le_mul_right _ (by omega)
    have b3 : y * x3 ≤ 18446744073709551615 * x3 := Nat.mul_le_mul_right _ (by omega)
    unfold mulGeneric_s3
    limb_start
    resolve_drops
    simp only []
    exists_local "m_"
    refine ⟨by exact_hyp, ⟨by exact_hyp, by exact_hyp, by exact_hyp, by exact_hyp, by exact_hyp⟩, ?_⟩
    linarith
  generalize mulGeneric_s3 x0 x1 x2 x3 y t0 t1 t2 t3 t4 = r at key ⊢
  obtain ⟨m, hm, hg, e⟩ := key
  refine ⟨hg, ?_⟩
  apply ciosStep_of_lin P P_ok _ _ _ _ m (by rw [P_W]; exact hm)
  rw [P_W, P_q]
  simp only [val, limbsVal, Nat.reducePow]
  linarith

/-- the final reduction of `mulGeneric` (extra word set ⇒ subtract `q`; else conditional subtraction) is `reduceOnce` -/
theorem mulGeneric_s4_spec (t0 t1 t2 t3 t4 : Nat) (ht0 : t0 < 18446744073709551616) (ht1 : t1 < 18446744073709551616) (ht2 : t2 < 18446744073709551616) (ht3 : t3 < 18446744073709551616) (ht4 : t4 < 18446744073709551616)
    (hT : val [t0, t1, t2, t3, t4] < 2 * P.q) :
    Good (mulGeneric_s4 t0 t1 t2 t3 t4) ∧ tval (mulGeneric_s4 t0 t1 t2 t3 t4) = reduceOnce P (val [t0, t1, t2, t3, t4]) := by
  have key : (fun r : Nat × Nat × Nat × Nat => (r.1 < 18446744073709551616 ∧ r.2.1 < 18446744073709551616 ∧ r.2.2.1 < 18446744073709551616 ∧ r.2.2.2 < 18446744073709551616) ∧
      (t0 + 18446744073709551616 * t1 + 340282366920938463463374607431768211456 * t2 + 6277101735386680763835789423207666416102355444464034512896 * t3 + 115792089237316195423570985008687907853269984665640564039457584007913129639936 * t4 < 21888242871839275222246405745257275088548364400416034343698204186575808495617 → r.1 + 18446744073709551616 * r.2.1 + 340282366920938463463374607431768211456 * r.2.2.1 + 6277101735386680763835789423207666416102355444464034512896 * r.2.2.2 = t0 + 18446744073709551616 * t1 + 340282366920938463463374607431768211456 * t2 + 6277101735386680763835789423207666416102355444464034512896 * t3 + 115792089237316195423570985008687907853269984665640564039457584007913129639936 * t4) ∧
      (21888242871839275222246405745257275088548364400416034343698204186575808495617 ≤ t0 + 18446744073709551616 * t1 + 340282366920938463463374607431768211456 * t2 + 6277101735386680763835789423207666416102355444464034512896 * t3 + 115792089237316195423570985008687907853269984665640564039457584007913129639936 * t4 → r.1 + 18446744073709551616 * r.2.1 + 340282366920938463463374607431768211456 * r.2.2.1 + 6277101735386680763835789423207666416102355444464034512896 * r.2.2.2 + 21888242871839275222246405745257275088548364400416034343698204186575808495617 = t0 + 18446744073709551616 * t1 + 340282366920938463463374607431768211456 * t2 + 6277101735386680763835789423207666416102355444464034512896 * t3 + 115792089237316195423570985008687907853269984665640564039457584007913129639936 * t4)) (mulGeneric_s4 t0 t1 t2 t3 t4) := by
    have hs := smaller_iff t0 t1 t2 t3 ht0 ht1 ht2 ht3
    unfold smallerThanModulus at hs
    rw [P_q] at hT
    simp only [val, limbsVal, Nat.reducePow, Nat.reduceMul] at hT
    unfold mulGeneric_s4
    limb_start
    by_cases h4 : t4 = 0
    · subst h4
      subst_ites []
      by_cases hc : t0 + 18446744073709551616 * t1 + 340282366920938463463374607431768211456 * t2 + 6277101735386680763835789423207666416102355444464034512896 * t3 < 21888242871839275222246405745257275088548364400416034343698204186575808495617
      · have hc' := hs.2 hc
        subst_ites [hc']
        simp only []
        refine ⟨⟨by exact_hyp, by exact_hyp, by exact_hyp, by exact_hyp⟩, fun h1 => ?_, fun h2 => ?_⟩ <;> first | exact trivial | linarith
      · have hc' : ¬ _ := fun h => hc (hs.1 h)
        subst_ites [hc']
        resolve_drops
        simp only []
        refine ⟨⟨by exact_hyp, by exact_hyp, by exact_hyp, by exact_hyp⟩, fun h1 => ?_, fun h2 => ?_⟩ <;> first | exact trivial | linarith
    · have h41 : t4 = 1 := by
        have h1 : 0 < t4 := Nat.pos_of_ne_zero h4
        have h2 : t4 < 2 := by linarith
        clear * - h1 h2
        omega
      subst h41
      subst_ites []
      resolve_drops
      simp only []
      refine ⟨⟨by exact_hyp, by exact_hyp, by exact_hyp, by exact_hyp⟩, fun h1 => ?_, fun h2 => ?_⟩ <;> first | exact trivial | linarith
  generalize mulGeneric_s4 t0 t1 t2 t3 t4 = r at key ⊢
  obtain ⟨hg, e1, e2⟩ := key
  refine ⟨hg, ?_⟩
  have hq := P_q
  unfold reduceOnce
  by_cases h : val [t0, t1, t2, t3, t4] ≥ P.q
  · rw [if_pos h]
    apply Nat.eq_sub_of_add_eq
    simp only [tval, val, limbsVal, Nat.reducePow] at h ⊢
    have := e2 (by linarith)
    linarith
  · rw [if_neg h]
    simp only [tval, val, limbsVal, Nat.reducePow] at h ⊢
    have := e1 (by linarith)
    linarith

/-- **C01_limb mulGeneric**: textbook CIOS with an extra word = the model's Montgomery product -/
theorem mulGeneric_spec (x0 x1 x2 x3 y0 y1 y2 y3 : Nat) (hx0 : x0 < 18446744073709551616) (hx1 : x1 < 18446744073709551616) (hx2 : x2 < 18446744073709551616) (hx3 : x3 < 18446744073709551616) (hy0 : y0 < 18446744073709551616) (hy1 : y1 < 18446744073709551616) (hy2 : y2 < 18446744073709551616) (hy3 : y3 < 18446744073709551616)
    (hX : val [x0, x1, x2, x3] < P.q) (hY : val [y0, y1, y2, y3] < P.q) :
    Good (mulGeneric x0 x1 x2 x3 y0 y1 y2 y3) ∧ tval (mulGeneric x0 x1 x2 x3 y0 y1 y2 y3) = GV.Field.mul P (val [x0, x1, x2, x3]) (val [y0, y1, y2, y3]) := by
  unfold mulGeneric
  lift_lets
  intro_lets
  obtain ⟨g0, e0⟩ := mulGeneric_s0_spec x0 x1 x2 x3 y0 hx0 hx1 hx2 hx3 hy0 hX
  rw [← r_0_def] at g0 e0
  have hT0 : val [r_0.1, r_0.2.1, r_0.2.2.1, r_0.2.2.2.1, r_0.2.2.2.2] < 2 * P.q := by
    rw [e0]
    exact ciosStep_lt P P_ok _ _ _ (by have := P_ok.q_gt; omega) hX (by rw [P_W]; exact hy0)
  obtain ⟨g1, e1⟩ := mulGeneric_s1_spec x0 x1 x2 x3 y1 r_0.1 r_0.2.1 r_0.2.2.1 r_0.2.2.2.1 r_0.2.2.2.2 hx0 hx1 hx2 hx3 hy1 g0.1 g0.2.1 g0.2.2.1 g0.2.2.2.1 g0.2.2.2.2 hT0 hX
  rw [← r_1_def] at g1 e1
  have hT1 : val [r_1.1, r_1.2.1, r_1.2.2.1, r_1.2.2.2.1, r_1.2.2.2.2] < 2 * P.q := by
    rw [e1]
    exact ciosStep_lt P P_ok _ _ _ hT0 hX (by rw [P_W]; exact hy1)
  obtain ⟨g2, e2⟩ := mulGeneric_s2_spec x0 x1 x2 x3 y2 r_1.1 r_1.2.1 r_1.2.2.1 r_1.2.2.2.1 r_1.2.2.2.2 hx0 hx1 hx2 hx3 hy2 g1.1 g1.2.1 g1.2.2.1 g1.2.2.2.1 g1.2.2.2.2 hT1 hX
  rw [← r_2_def] at g2 e2
  have hT2 : val [r_2.1, r_2.2.1, r_2.2.2.1, r_2.2.2.2.1, r_2.2.2.2.2] < 2 * P.q := by
    rw [e2]
    exact ciosStep_lt P P_ok _ _ _ hT1 hX (by rw [P_W]; exact hy2)
  obtain ⟨g3, e3⟩ := mulGeneric_s3_spec x0 x1 x2 x3 y3 r_2.1 r_2.2.1 r_2.2.2.1 r_2.2.2.2.1 r_2.2.2.2.2 hx0 hx1 hx2 hx3 hy3 g2.1 g2.2.1 g2.2.2.1 g2.2.2.2.1 g2.2.2.2.2 hT2 hX
  rw [← r_3_def] at g3 e3
  have hT3 : val [r_3.1, r_3.2.1, r_3.2.2.1, r_3.2.2.2.1, r_3.2.2.2.2] < 2 * P.q := by
    rw [e3]
    exact ciosStep_lt P P_ok _ _ _ hT2 hX (by rw [P_W]; exact hy3)
  obtain ⟨g4, e4⟩ := mulGeneric_s4_spec r_3.1 r_3.2.1 r_3.2.2.1 r_3.2.2.2.1 r_3.2.2.2.2 g3.1 g3.2.1 g3.2.2.1 g3.2.2.2.1 g3.2.2.2.2 hT3
  rw [← r_4_def] at g4 e4
  refine ⟨g4, ?_⟩
  unfold GV.Field.mul
  rw [show val [y0, y1, y2, y3] = limbsVal P.w [y0, y1, y2, y3] from rfl,
    montRaw_limbs P _ [y0, y1, y2, y3] (by intro y hy; rw [P_W]; simp only [List.mem_cons, List.not_mem_nil, or_false] at hy; rcases hy with rfl | rfl | rfl | rfl <;> assumption) rfl]
  rw [List.foldl_cons, List.foldl_cons, List.foldl_cons, List.foldl_cons, List.foldl_nil]
  show tval r_4 = _
  rw [e4]
  congr 1
  rw [e3, e2, e1, e0]

/-- block 0 of `_fromMontGeneric` is one CIOS step with a zero word -/
theorem fromMontGeneric_s0_spec (t0 t1 t2 t3 : Nat) (ht0 : t0 < 18446744073709551616) (ht1 : t1 < 18446744073709551616) (ht2 : t2 < 18446744073709551616) (ht3 : t3 < 18446744073709551616)
    (hT : val [t0, t1, t2, t3] < 2 * P.q) :
    Good (fromMontGeneric_s0 t0 t1 t2 t3) ∧ tval (fromMontGeneric_s0 t0 t1 t2 t3) = ciosStep P 0 (val [t0, t1, t2, t3]) 0 := by
  have key : (fun r : Nat × Nat × Nat × Nat => ∃ m, m < 18446744073709551616 ∧ (r.1 < 18446744073709551616 ∧ r.2.1 < 18446744073709551616 ∧ r.2.2.1 < 18446744073709551616 ∧ r.2.2.2 < 18446744073709551616) ∧
      (r.1 + 18446744073709551616 * r.2.1 + 340282366920938463463374607431768211456 * r.2.2.1 + 6277101735386680763835789423207666416102355444464034512896 * r.2.2.2) * 18446744073709551616 = (t0 + 18446744073709551616 * t1 + 340282366920938463463374607431768211456 * t2 + 6277101735386680763835789423207666416102355444464034512896 * t3) + m * 21888242871839275222246405745257275088548364400416034343698204186575808495617) (fromMontGeneric_s0 t0 t1 t2 t3) := by
    rw [P_q] at hT
    simp only [val, limbsVal, Nat.reducePow, Nat.reduceMul] at hT
    unfold fromMontGeneric_s0
    limb_start
    resolve_drops
    simp only []
    exists_local "m_"
    refine ⟨by exact_hyp, ⟨by exact_hyp, by exact_hyp, by exact_hyp, by exact_hyp⟩, ?_⟩
    linarith
  generalize fromMontGeneric_s0 t0 t1 t2 t3 = r at key ⊢
  obtain ⟨m, hm, hg, e⟩ := key
  refine ⟨hg, ?_⟩
  apply ciosStep_of_lin P P_ok _ _ _ _ m (by rw [P_W]; exact hm)
  rw [P_W, P_q]
  simp only [tval, val, limbsVal, Nat.reducePow]
  linarith

/-- block 1 of `_fromMontGeneric` is one CIOS step with a zero word -/
theorem fromMontGeneric_s1_spec (t0 t1 t2 t3 : Nat) (ht0 : t0 < 18446744073709551616) (ht1 : t1 < 18446744073709551616) (ht2 : t2 < 18446744073709551616) (ht3 : t3 < 18446744073709551616)
    (hT : val [t0, t1, t2, t3] < 2 * P.q) :
    Good (fromMontGeneric_s1 t0 t1 t2 t3) ∧ tval (fromMontGeneric_s1 t0 t1 t2 t3) = ciosStep P 0 (val [t0, t1, t2, t3]) 0 := by
  have key : (fun r : Nat × Nat × Nat × Nat => ∃ m, m < 18446744073709551616 ∧ (r.1 < 18446744073709551616 ∧ r.2.1 < 18446744073709551616 ∧ r.2.2.1 < 18446744073709551616 ∧ r.2.2.2 < 18446744073709551616) ∧
      (r.1 + 18446744073709551616 * r.2.1 + 340282366920938463463374607431768211456 * r.2.2.1 + 6277101735386680763835789423207666416102355444464034512896 * r.2.2.2) * 18446744073709551616 = (t0 + 18446744073709551616 * t1 + 340282366920938463463374607431768211456 * t2 + 6277101735386680763835789423207666416102355444464034512896 * t3) + m * 21888242871839275222246405745257275088548364400416034343698204186575808495617) (fromMontGeneric_s1 t0 t1 t2 t3) := by
    rw [P_q] at hT
    simp only [val, limbsVal, Nat.reducePow, Nat.reduceMul] at hT
    unfold fromMontGeneric_s1
    limb_start
    resolve_drops
    simp only []
    exists_local "m_"
    refine ⟨by exact_hyp, ⟨by exact_hyp, by exact_hyp, by exact_hyp, by exact_hyp⟩, ?_⟩
    linarith
  generalize fromMontGeneric_s1 t0 t1 t2 t3 = r at key ⊢
  obtain ⟨m, hm, hg, e⟩ := key
  refine ⟨hg, ?_⟩
  apply ciosStep_of_lin P P_ok _ _ _ _ m (by rw [P_W]; exact hm)
  rw [P_W, P_q]
  simp only [tval, val, limbsVal, Nat.reducePow]
  linarith

/-- block 2 of `_fromMontGeneric` is one CIOS step with a zero word -/
theorem fromMontGeneric_s2_spec (t0 t1 t2 t3 : Nat) (ht0 : t0 < 18446744073709551616) (ht1 : t1 < 18446744073709551616) (ht2 : t2 < 18446744073709551616) (ht3 : t3 < 18446744073709551616)
    (hT : val [t0, t1, t2, t3] < 2 * P.q) :
    Good (fromMontGeneric_s2 t0 t1 t2 t3) ∧ tval (fromMontGeneric_s2 t0 t1 t2 t3) = ciosStep P 0 (val [t0, t1, t2, t3]) 0 := by
  have key : (fun r : Nat × Nat × Nat × Nat => ∃ m, m < 18446744073709551616 ∧ (r.1 < 18446744073709551616 ∧ r.2.1 < 18446744073709551616 ∧ r.2.2.1 < 18446744073709551616 ∧ r.2.2.2 < 18446744073709551616) ∧
      (r.1 + 18446744073709551616 * r.2.1 + 340282366920938463463374607431768211456 * r.2.2.1 + 6277101735386680763835789423207666416102355444464034512896 * r.2.2.2) * 18446744073709551616 = (t0 + 18446744073709551616 * t1 + 340282366920938463463374607431768211456 * t2 + 6277101735386680763835789423207666416102355444464034512896 * t3) + m * 21888242871839275222246405745257275088548364400416034343698204186575808495617) (fromMontGeneric_s2 t0 t1 t2 t3) := by
    rw [P_q] at hT
    simp only [val, limbsVal, Nat.reducePow, Nat.reduceMul] at hT
    unfold fromMontGeneric_s2
    limb_start
    resolve_drops
    simp only []
    exists_local "m_"
    refine ⟨by exact_hyp, ⟨by exact_hyp, by exact_hyp, by exact_hyp, by exact_hyp⟩, ?_⟩
    linarith
  generalize fromMontGeneric_s2 t0 t1 t2 t3 = r at key ⊢
  obtain ⟨m, hm, hg, e⟩ := key
  refine ⟨hg, ?_⟩
  apply ciosStep_of_lin P P_ok _ _ _ _ m (by rw [P_W]; exact hm)
  rw [P_W, P_q]
  simp only [tval, val, limbsVal, Nat.reducePow]
  linarith

/-- block 3 of `_fromMontGeneric` is one CIOS step with a zero word -/
theorem fromMontGeneric_s3_spec (t0 t1 t2 t3 : Nat) (ht0 : t0 < 18446744073709551616) (ht1 : t1 < 18446744073709551616) (ht2 : t2 < 18446744073709551616) (ht3 : t3 < 18446744073709551616)
    (hT : val [t0, t1, t2, t3] < 2 * P.q) :
    Good (fromMontGeneric_s3 t0 t1 t2 t3) ∧ tval (fromMontGeneric_s3 t0 t1 t2 t3) = ciosStep P 0 (val [t0, t1, t2, t3]) 0 := by
  have key : (fun r : Nat × Nat × Nat × Nat => ∃ m, m < 18446744073709551616 ∧ (r.1 < 18446744073709551616 ∧ r.2.1 < 18446744073709551616 ∧ r.2.2.1 < 18446744073709551616 ∧ r.2.2.2 < 18446744073709551616) ∧
      (r.1 + 18446744073709551616 * r.2.1 + 340282366920938463463374607431768211456 * r.2.2.1 + 6277101735386680763835789423207666416102355444464034512896 * r.2.2.2) * 18446744073709551616 = (t0 + 18446744073709551616 * t1 + 340282366920938463463374607431768211456 * t2 + 6277101735386680763835789423207666416102355444464034512896 * t3) + m * 21888242871839275222246405745257275088548364400416034343698204186575808495617) (fromMontGeneric_s3 t0 t1 t2 t3) := by
    rw [P_q] at hT
    simp only [val, limbsVal, Nat.reducePow, Nat.reduceMul] at hT
    unfold fromMontGeneric_s3
    limb_start
    resolve_drops
    simp only []
    exists_local "m_"
    refine ⟨by exact_hyp, ⟨by exact_hyp, by exact_hyp, by exact_hyp, by exact_hyp⟩, ?_⟩
    linarith
  generalize fromMontGeneric_s3 t0 t1 t2 t3 = r at key ⊢
  obtain ⟨m, hm, hg, e⟩ := key
  refine ⟨hg, ?_⟩
  apply ciosStep_of_lin P P_ok _ _ _ _ m (by rw [P_W]; exact hm)
  rw [P_W, P_q]
  simp only [tval, val, limbsVal, Nat.reducePow]
  linarith

/-- the conditional subtraction `if !z.smallerThanModulus() { z -= q }` is `reduceOnce` -/
theorem fromMontGeneric_s4_spec (t0 t1 t2 t3 : Nat) (ht0 : t0 < 18446744073709551616) (ht1 : t1 < 18446744073709551616) (ht2 : t2 < 18446744073709551616) (ht3 : t3 < 18446744073709551616)
    (hT : val [t0, t1, t2, t3] < 2 * P.q) :
    Good (fromMontGeneric_s4 t0 t1 t2 t3) ∧ tval (fromMontGeneric_s4 t0 t1 t2 t3) = reduceOnce P (val [t0, t1, t2, t3]) := by
  have key : (fun r : Nat × Nat × Nat × Nat => (r.1 < 18446744073709551616 ∧ r.2.1 < 18446744073709551616 ∧ r.2.2.1 < 18446744073709551616 ∧ r.2.2.2 < 18446744073709551616) ∧
      (t0 + 18446744073709551616 * t1 + 340282366920938463463374607431768211456 * t2 + 6277101735386680763835789423207666416102355444464034512896 * t3 < 21888242871839275222246405745257275088548364400416034343698204186575808495617 → r.1 + 18446744073709551616 * r.2.1 + 340282366920938463463374607431768211456 * r.2.2.1 + 6277101735386680763835789423207666416102355444464034512896 * r.2.2.2 = t0 + 18446744073709551616 * t1 + 340282366920938463463374607431768211456 * t2 + 6277101735386680763835789423207666416102355444464034512896 * t3) ∧
      (21888242871839275222246405745257275088548364400416034343698204186575808495617 ≤ t0 + 18446744073709551616 * t1 + 340282366920938463463374607431768211456 * t2 + 6277101735386680763835789423207666416102355444464034512896 * t3 → r.1 + 18446744073709551616 * r.2.1 + 340282366920938463463374607431768211456 * r.2.2.1 + 6277101735386680763835789423207666416102355444464034512896 * r.2.2.2 + 21888242871839275222246405745257275088548364400416034343698204186575808495617 = t0 + 18446744073709551616 * t1 + 340282366920938463463374607431768211456 * t2 + 6277101735386680763835789423207666416102355444464034512896 * t3)) (fromMontGeneric_s4 t0 t1 t2 t3) := by
    have hs := smaller_iff t0 t1 t2 t3 ht0 ht1 ht2 ht3
    unfold smallerThanModulus at hs
    rw [P_q] at hT
    simp only [val, limbsVal, Nat.reducePow, Nat.reduceMul] at hT
    unfold fromMontGeneric_s4
    limb_start
    by_cases hc : t0 + 18446744073709551616 * t1 + 340282366920938463463374607431768211456 * t2 + 6277101735386680763835789423207666416102355444464034512896 * t3 < 21888242871839275222246405745257275088548364400416034343698204186575808495617
    · have hc' := hs.2 hc
      subst_ites [hc']
      simp only []
      refine ⟨⟨by exact_hyp, by exact_hyp, by exact_hyp, by exact_hyp⟩, fun h1 => ?_, fun h2 => ?_⟩ <;> first | exact trivial | linarith
    · have hc' : ¬ _ := fun h => hc (hs.1 h)
      subst_ites [hc']
      resolve_drops
      simp only []
      refine ⟨⟨by exact_hyp, by exact_hyp, by exact_hyp, by exact_hyp⟩, fun h1 => ?_, fun h2 => ?_⟩ <;> first | exact trivial | linarith
  generalize fromMontGeneric_s4 t0 t1 t2 t3 = r at key ⊢
  obtain ⟨hg, e1, e2⟩ := key
  refine ⟨hg, ?_⟩
  have hq := P_q
  unfold reduceOnce
  by_cases h : val [t0, t1, t2, t3] ≥ P.q
  · rw [if_pos h]
    apply Nat.eq_sub_of_add_eq
    simp only [tval, val, limbsVal, Nat.reducePow] at h ⊢
    have := e2 (by linarith)
    linarith
  · rw [if_neg h]
    simp only [tval, val, limbsVal, Nat.reducePow] at h ⊢
    have := e1 (by linarith)
    linarith

/-- **C01_limb fromMont**: `_fromMontGeneric` is the model's `fromMont` (`z ↦ mul z 1`) -/
theorem fromMontGeneric_spec (z0 z1 z2 z3 : Nat) (hz0 : z0 < 18446744073709551616) (hz1 : z1 < 18446744073709551616) (hz2 : z2 < 18446744073709551616) (hz3 : z3 < 18446744073709551616)
    (hZ : val [z0, z1, z2, z3] < P.q) :
    Good (fromMontGeneric z0 z1 z2 z3) ∧ tval (fromMontGeneric z0 z1 z2 z3) = GV.Field.fromMont P (val [z0, z1, z2, z3]) := by
  have hT : val [z0, z1, z2, z3] < 2 * P.q := by omega
  unfold fromMontGeneric
  lift_lets
  intro_lets
  obtain ⟨g0, e0⟩ := fromMontGeneric_s0_spec z0 z1 z2 z3 hz0 hz1 hz2 hz3 hT
  rw [← r_0_def] at g0 e0
  have hT0 : val [r_0.1, r_0.2.1, r_0.2.2.1, r_0.2.2.2] < 2 * P.q := by
    rw [show val [r_0.1, r_0.2.1, r_0.2.2.1, r_0.2.2.2] = tval r_0 from rfl, e0]
    exact ciosStep_lt P P_ok _ _ _ hT (by have := P_ok.q_gt; omega) P.W_pos
  obtain ⟨g1, e1⟩ := fromMontGeneric_s1_spec r_0.1 r_0.2.1 r_0.2.2.1 r_0.2.2.2 g0.1 g0.2.1 g0.2.2.1 g0.2.2.2 hT0
  rw [← r_1_def] at g1 e1
  have hT1 : val [r_1.1, r_1.2.1, r_1.2.2.1, r_1.2.2.2] < 2 * P.q := by
    rw [show val [r_1.1, r_1.2.1, r_1.2.2.1, r_1.2.2.2] = tval r_1 from rfl, e1]
    exact ciosStep_lt P P_ok _ _ _ hT0 (by have := P_ok.q_gt; omega) P.W_pos
  obtain ⟨g2, e2⟩ := fromMontGeneric_s2_spec r_1.1 r_1.2.1 r_1.2.2.1 r_1.2.2.2 g1.1 g1.2.1 g1.2.2.1 g1.2.2.2 hT1
  rw [← r_2_def] at g2 e2
  have hT2 : val [r_2.1, r_2.2.1, r_2.2.2.1, r_2.2.2.2] < 2 * P.q := by
    rw [show val [r_2.1, r_2.2.1, r_2.2.2.1, r_2.2.2.2] = tval r_2 from rfl, e2]
    exact ciosStep_lt P P_ok _ _ _ hT1 (by have := P_ok.q_gt; omega) P.W_pos
  obtain ⟨g3, e3⟩ := fromMontGeneric_s3_spec r_2.1 r_2.2.1 r_2.2.2.1 r_2.2.2.2 g2.1 g2.2.1 g2.2.2.1 g2.2.2.2 hT2
  rw [← r_3_def] at g3 e3
  have hT3 : val [r_3.1, r_3.2.1, r_3.2.2.1, r_3.2.2.2] < 2 * P.q := by
    rw [show val [r_3.1, r_3.2.1, r_3.2.2.1, r_3.2.2.2] = tval r_3 from rfl, e3]
    exact ciosStep_lt P P_ok _ _ _ hT2 (by have := P_ok.q_gt; omega) P.W_pos
  obtain ⟨g4, e4⟩ := fromMontGeneric_s4_spec r_3.1 r_3.2.1 r_3.2.2.1 r_3.2.2.2 g3.1 g3.2.1 g3.2.2.1 g3.2.2.2 hT3
  rw [← r_4_def] at g4 e4
  refine ⟨g4, ?_⟩
  unfold GV.Field.fromMont GV.Field.mul
  rw [show (1 : Nat) = limbsVal P.w [1, 0, 0, 0] from by decide +kernel,
    montRaw_limbs P _ [1, 0, 0, 0] (by intro y hy; rw [P_W]; simp only [List.mem_cons, List.not_mem_nil, or_false] at hy; rcases hy with rfl | rfl | rfl | rfl <;> omega) rfl]
  rw [List.foldl_cons, List.foldl_cons, List.foldl_cons, List.foldl_cons, List.foldl_nil, ciosStep_first_one]
  simp only [ciosStep_zero_word P (val [z0, z1, z2, z3])]
  show tval r_4 = _
  rw [e4]
  congr 1
  show tval r_3 = _
  rw [e3, show val [r_2.1, r_2.2.1, r_2.2.2.1, r_2.2.2.2] = tval r_2 from rfl, e2, show val [r_1.1, r_1.2.1, r_1.2.2.1, r_1.2.2.2] = tval r_1 from rfl, e1, show val [r_0.1, r_0.2.1, r_0.2.2.1, r_0.2.2.2] = tval r_0 from rfl, e0]

/-! ### non-vacuity -/
example := Mul_spec 2 0 0 1 3 0 0 0 (by decide) (by decide) (by decide) (by decide) (by decide) (by decide) (by decide) (by decide) (by decide +kernel) (by decide +kernel)
example := mulGeneric_spec 2 0 0 1 3 0 0 0 (by decide) (by decide) (by decide) (by decide) (by decide) (by decide) (by decide) (by decide) (by decide +kernel) (by decide +kernel)
example := Add_spec 2 0 0 1 3 0 0 0 (by decide) (by decide) (by decide) (by decide) (by decide) (by decide) (by decide) (by decide) (by decide +kernel) (by decide +kernel)
example := Sub_spec 3 0 0 0 2 0 0 1 (by decide) (by decide) (by decide) (by decide) (by decide) (by decide) (by decide) (by decide) (by decide +kernel) (by decide +kernel)
example := Double_spec 2 0 0 1 (by decide) (by decide) (by decide) (by decide) (by decide +kernel)
example := Neg_spec 2 0 0 1 (by decide) (by decide) (by decide) (by decide) (by decide +kernel)
example := fromMontGeneric_spec 2 0 0 1 (by decide) (by decide) (by decide) (by decide) (by decide +kernel)
example : tval (Gen.Limb.bn254_fr.Mul 2 0 0 1 3 0 0 0) = GV.Field.mul P (val [2, 0, 0, 1]) (val [3, 0, 0, 0]) := by decide +kernel

example := Square_spec 2 0 0 1 (by decide) (by decide) (by decide) (by decide) (by decide +kernel)

end GV.Limb.bn254_fr
