import GnarkVerif.Proofs.H2FGen
import GnarkVerif.Props.C13_xmd_gen
/-
C13_h2f_gen — tie T for hash_to_field: `func Hash(msg, dst []byte, count int) ([]Element, error)` and `func (z *Element) SetBigInt(v *big.Int)`
of `element.go` of ALL 23 field packages are RE-TRANSLATED statement by statement on every run (tools/goslp mode "imp", target kind h2f,
tools/goslp/imp_h2f.go → Gen/Imp/H2F_<pkg>.lean), together with a GENERIC copy (Gen/Imp/H2F_generic.lean: the text of ecc/bn254/fr with
the package constants `Bits` and `_modulus` as parameters); Gen/Imp/H2FAll.lean proves (`allPkgs_same`, regenerated too) that the
translation of every package IS the generic text at the package's own constants, so the theorems are proved once (Proofs/H2FGen.lean)
and hold of all 23 texts.

What is translated: the local constants `Bytes = 1 + (Bits-1)/8`, `L = 16 + Bytes` (from the package constant `Bits`, read from the Go
text), `lenInBytes := count * L`, the error return, `pool.BigInt.Get()/Put` (a pooled scratch `*big.Int` = a fresh exact integer; the
translator CHECKS that it is set before it is read, does not escape and is not used after `Put`), `make([]Element, count)`, the loop
`for i := 0; i < count; i++`, `vv.SetBytes(pseudoRandomBytes[i*L : (i+1)*L])` (big-endian value of the window with the bounds as
written), `res[i].SetBigInt(vv)`; and of `SetBigInt`: `z.SetZero()`, `v.Cmp(&_modulus)`, `v.Cmp(&zero)`, the fast path, `vv.Mod(v, &_modulus)`
(Euclidean remainder). `_modulus` is the literal of the single `_modulus.SetString("…", 16)` in `init()`; the translator checks that the
package never mutates it elsewhere. `C13h2fgen_consts` proves (decide) for every package: that literal = the modulus q of Gen/Fields.lean,
and `16 + (1 + (Bits-1)/8) = lenPerElt q = ⌈(⌈log₂ q⌉ + 128)/8⌉`.

PARAMETERS (with their assumed behaviour as hypotheses of the theorems):
* `setBigIntF : Int → F` — the limb-level `(*Element).setBigInt` ("assumes 0 ⩽ v < q"): `hset : ∀ v, 0 ≤ v → v < q → val (setBigIntF v) = v`,
  where `val : F → Nat` is the abstraction function (the integer an element value stands for); `zeroF : F` — `z.SetZero()`: `val zeroF = 0`;
  the Go zero value `Element{}` (used by `make`) is `default : F`, no hypothesis on it is needed (every entry is overwritten);
* `hash.ExpandMsgXmd` — a parameter of the generated defs; the theorems INSTANTIATE it with the translated text of
  field/hash/hashutils.go (Gen/Imp/ExpandMsgXmd.lean, C13_xmd_gen) over a stream hash `W = some`, `H` with 32-byte digests, `Size = 32`,
  `BlockSize = 64` (SHA-256: `C13h2fgen_sha256`).

Proved, for every package, message, tag and count ≥ 0: generated `Hash` read through `val` = `Model.hashToField H q` (C13h2fgen_eq): error
iff XMD errors, with the same class (count·L > 8160 → "invalid lenInBytes", else |dst| > 255 → "invalid domain size"), a nil slice on
error, otherwise EXACTLY `count` elements, element i = OS2IP(bytes[i·L:(i+1)·L]) mod q, every window inside the expansion
(C13h2fgen_bounds); `count = 0` gives `([], nil)` for |dst| ≤ 255 and the tag error otherwise.  `SetBigInt v` represents `v mod q` for
EVERY v ∈ ℤ (negative, = q, ≥ q: C13h2fgen_setBigInt).
Guards / not covered: `count < 0` — Go evaluates `ExpandMsgXmd(msg, dst, count*L)`: for |dst| > 255 it returns the tag error
(C13h2fgen_negative_count_dst), otherwise `make([]byte, lenInBytes)` inside ExpandMsgXmd panics (panics are outside the value semantics
of Model/GoImp.lean); `int` is ℤ (no 64-bit wrap-around: `count * L` is assumed < 2^63; a count ≥ 2^63/L wraps `lenInBytes` in Go).
-/
namespace GV.H2FGen
open GV GV.GoImp GV.HashToField GV.Gen.Imp GV.Gen.Imp.H2FAll GV.XmdGen

/-- the constants read from the 23 Go texts against Gen/Fields.lean: same package names in the same order; the `_modulus` literal is q;
`L = 16 + (1 + (Bits-1)/8)` is `⌈(⌈log₂ q⌉ + 128)/8⌉` -/
theorem C13h2fgen_consts :
    allPkgs.map (·.name) = Gen.allFields.map (·.name) ∧
    ∀ P ∈ allPkgs, ∀ fc ∈ Gen.allFields, fc.name = P.name →
      P.modulus = (fc.q : Int) ∧ 16 + (1 + Int.tdiv (P.bits - 1) 8) = ((lenPerElt fc.q : Nat) : Int) ∧ 0 < fc.q := by
  decide +kernel

section
variable {F : Type} [Inhabited F] (zeroF : F) (setBigIntF : Int → F) (val : F → Nat)

/-- C08/C01 side: the translated `SetBigInt` of every package reduces EVERY integer mod q -/
theorem C13h2fgen_setBigInt : ∀ P ∈ allPkgs, ∀ fc ∈ Gen.allFields, fc.name = P.name →
    val zeroF = 0 → (∀ v : Int, 0 ≤ v → v < fc.q → val (setBigIntF v) = v.toNat) →
    ∀ (z : F) (v : Int), val (P.setBigInt zeroF setBigIntF z v) = (v % (fc.q : Int)).toNat := by
  intro P hP fc hfc hn hzero hset z v
  obtain ⟨hm, _, hq⟩ := C13h2fgen_consts.2 P hP fc hfc hn
  rw [(allPkgs_same P hP).1, hm]
  exact setBigInt_val zeroF setBigIntF val fc.q hq hzero hset P.bits z v

/-- the dispatch of the translated `SetBigInt`, for every package: `v = q` ↦ 0, `0 ≤ v < q` ↦ the limb-level primitive on v itself,
everything else ↦ the primitive on the Euclidean remainder -/
theorem C13h2fgen_setBigInt_dispatch : ∀ P ∈ allPkgs, ∀ fc ∈ Gen.allFields, fc.name = P.name → ∀ (z : F) (v : Int),
    P.setBigInt zeroF setBigIntF z v =
      if v = (fc.q : Int) then zeroF else if 0 ≤ v ∧ v < (fc.q : Int) then setBigIntF v else setBigIntF (v % (fc.q : Int)) := by
  intro P hP fc hfc hn z v
  obtain ⟨hm, _, _⟩ := C13h2fgen_consts.2 P hP fc hfc hn
  rw [(allPkgs_same P hP).1, setBigInt_cases, hm]

/-- MAIN: for every field package the translated `Hash`, calling the translated `ExpandMsgXmd`, is the model's `hashToField` with the
package's modulus — for all messages, tags, counts ≥ 0 and every stream hash with 32-byte digests -/
theorem C13h2fgen_eq : ∀ P ∈ allPkgs, ∀ fc ∈ Gen.allFields, fc.name = P.name →
    val zeroF = 0 → (∀ v : Int, 0 ≤ v → v < fc.q → val (setBigIntF v) = v.toNat) →
    ∀ (W : B → Option B) (_ : ∀ p, W p = some p) (H : B → B) (_ : ∀ m, (H m).length = 32) (msg dst : B) (count : Nat),
    ((P.hash zeroF setBigIntF (HashUtils.ExpandMsgXmd W H 32 64) msg dst (count : Int)).1.map val,
      (P.hash zeroF setBigIntF (HashUtils.ExpandMsgXmd W H 32 64) msg dst (count : Int)).2) =
      outOfF (hashToField H fc.q msg dst count) := by
  intro P hP fc hfc hn hzero hset W hW H hH msg dst count
  obtain ⟨hm, hL, hq⟩ := C13h2fgen_consts.2 P hP fc hfc hn
  rw [(allPkgs_same P hP).2, hm]
  exact hash_eq zeroF setBigIntF val fc.q hq hzero hset P.bits hL _ H
    (fun m d n => xmd_eq W hW H 32 64 (by decide) hH (by decide) m d n) msg dst count

/-- the SHA-256 instance (what the library runs) -/
theorem C13h2fgen_sha256 : ∀ P ∈ allPkgs, ∀ fc ∈ Gen.allFields, fc.name = P.name →
    val zeroF = 0 → (∀ v : Int, 0 ≤ v → v < fc.q → val (setBigIntF v) = v.toNat) → ∀ (msg dst : B) (count : Nat),
    ((P.hash zeroF setBigIntF (HashUtils.ExpandMsgXmd some Sha256.hash 32 64) msg dst (count : Int)).1.map val,
      (P.hash zeroF setBigIntF (HashUtils.ExpandMsgXmd some Sha256.hash 32 64) msg dst (count : Int)).2) =
      outOfF (hashToField Sha256.hash fc.q msg dst count) :=
  fun P hP fc hfc hn hzero hset msg dst count =>
    C13h2fgen_eq zeroF setBigIntF val P hP fc hfc hn hzero hset some (fun _ => rfl) Sha256.hash sha256_length msg dst count

/-! ### transfer of the C13 theorems about `hashToField` to the translated text of every package -/

section transfer
variable (P : Pkg) (hP : P ∈ allPkgs) (fc : Gen.FieldConsts) (hfc : fc ∈ Gen.allFields) (hn : fc.name = P.name)
  (hzero : val zeroF = 0) (hset : ∀ v : Int, 0 ≤ v → v < fc.q → val (setBigIntF v) = v.toNat)
  (W : B → Option B) (hW : ∀ p, W p = some p) (H : B → B) (hH : ∀ m, (H m).length = 32)
include hP hfc hn hzero hset hW hH

/-- C13.4 transferred: a nil error means EXACTLY `count` elements, each one reduced -/
theorem C13h2fgen_count_reduced (msg dst : B) (count : Nat)
    (h : (P.hash zeroF setBigIntF (HashUtils.ExpandMsgXmd W H 32 64) msg dst (count : Int)).2 = GoImp.Err.nil) :
    (P.hash zeroF setBigIntF (HashUtils.ExpandMsgXmd W H 32 64) msg dst (count : Int)).1.length = count ∧
    ∀ x ∈ (P.hash zeroF setBigIntF (HashUtils.ExpandMsgXmd W H 32 64) msg dst (count : Int)).1, val x < fc.q := by
  have e := C13h2fgen_eq zeroF setBigIntF val P hP fc hfc hn hzero hset W hW H hH msg dst count
  obtain ⟨_, _, hq⟩ := C13h2fgen_consts.2 P hP fc hfc hn
  cases hx : hashToField H fc.q msg dst count with
  | error er => rw [hx] at e; cases er <;> simp [outOfF, h] at e
  | ok xs =>
    rw [hx] at e
    obtain ⟨hl, hr⟩ := C13_hashToField_count_reduced H fc.q hq msg dst count xs hx
    have e1 : (P.hash zeroF setBigIntF (HashUtils.ExpandMsgXmd W H 32 64) msg dst (count : Int)).1.map val = xs :=
      congrArg Prod.fst e
    refine ⟨by have := congrArg List.length e1; rw [List.length_map] at this; omega, fun x hxm => hr _ (e1 ▸ List.mem_map_of_mem hxm)⟩

/-- C13.6 transferred, with the error classes in the Go order: "invalid lenInBytes" ↔ count·L > 8160 = 255·32; "invalid domain size"
↔ count·L ≤ 8160 ∧ |dst| > 255; nil ↔ neither; and the slice is nil whenever the error is not -/
theorem C13h2fgen_errors (msg dst : B) (count : Nat) :
    ((P.hash zeroF setBigIntF (HashUtils.ExpandMsgXmd W H 32 64) msg dst (count : Int)).2 = GoImp.Err.sentinel "invalid lenInBytes" ↔
      8160 < count * lenPerElt fc.q) ∧
    ((P.hash zeroF setBigIntF (HashUtils.ExpandMsgXmd W H 32 64) msg dst (count : Int)).2 =
        GoImp.Err.sentinel "invalid domain size (>255 bytes)" ↔ count * lenPerElt fc.q ≤ 8160 ∧ 255 < dst.length) ∧
    ((P.hash zeroF setBigIntF (HashUtils.ExpandMsgXmd W H 32 64) msg dst (count : Int)).2 = GoImp.Err.nil ↔
      count * lenPerElt fc.q ≤ 8160 ∧ dst.length ≤ 255) ∧
    ((P.hash zeroF setBigIntF (HashUtils.ExpandMsgXmd W H 32 64) msg dst (count : Int)).2 ≠ GoImp.Err.nil →
      (P.hash zeroF setBigIntF (HashUtils.ExpandMsgXmd W H 32 64) msg dst (count : Int)).1 = []) := by
  have e := C13h2fgen_eq zeroF setBigIntF val P hP fc hfc hn hzero hset W hW H hH msg dst count
  obtain ⟨e1, e2, e3⟩ := C13_xmd_sha256_errors H msg dst (count * lenPerElt fc.q)
  unfold hashToField at e
  simp only at e
  cases hx : expandMsgXmd H 32 64 msg dst (count * lenPerElt fc.q) with
  | ok out =>
    rw [hx] at e
    have h3 := e3.mp ⟨out, hx⟩
    have e2' := congrArg Prod.snd e
    simp only [outOfF] at e2'
    rw [e2']
    refine ⟨by constructor <;> intro h <;> first | (simp at h) | omega, by constructor <;> intro h <;> first | (simp at h) | omega,
      by simp; exact h3, by simp⟩
  | error er =>
    rw [hx] at e
    cases er with
    | len =>
      have := e1.mp hx
      have e2' := congrArg Prod.snd e
      have e1' := congrArg Prod.fst e
      simp only [outOfF] at e2' e1'
      rw [e2']
      refine ⟨by simp; exact this, by constructor <;> intro h <;> first | (simp at h) | omega,
        by constructor <;> intro h <;> first | (simp at h) | omega, fun _ => List.map_eq_nil_iff.mp e1'⟩
    | dst =>
      have := e2.mp hx
      have e2' := congrArg Prod.snd e
      have e1' := congrArg Prod.fst e
      simp only [outOfF] at e2' e1'
      rw [e2']
      refine ⟨by constructor <;> intro h <;> first | (simp at h) | omega, by simp; exact this,
        by constructor <;> intro h <;> first | (simp at h) | omega, fun _ => List.map_eq_nil_iff.mp e1'⟩

/-- C13.5 transferred: on admissible parameters the error is nil, element i is `OS2IP(bytes[i·L : (i+1)·L]) mod q` of the
`count·L`-byte expansion, and every window the Go text slices lies inside the expansion (no slice-bounds panic) -/
theorem C13h2fgen_elements (msg dst : B) (count : Nat) (hadm : count * lenPerElt fc.q ≤ 8160 ∧ dst.length ≤ 255) :
    ∃ bytes, expandMsgXmd H 32 64 msg dst (count * lenPerElt fc.q) = .ok bytes ∧ bytes.length = count * lenPerElt fc.q ∧
      (P.hash zeroF setBigIntF (HashUtils.ExpandMsgXmd W H 32 64) msg dst (count : Int)).2 = GoImp.Err.nil ∧
      (P.hash zeroF setBigIntF (HashUtils.ExpandMsgXmd W H 32 64) msg dst (count : Int)).1.map val =
        (List.range count).map (fun i => beToNat ((bytes.drop (i * lenPerElt fc.q)).take (lenPerElt fc.q)) % fc.q) ∧
      ∀ i < count, (i + 1) * lenPerElt fc.q ≤ bytes.length := by
  have e := C13h2fgen_eq zeroF setBigIntF val P hP fc hfc hn hzero hset W hW H hH msg dst count
  obtain ⟨bytes, hb⟩ := (C13_xmd_sha256_errors H msg dst (count * lenPerElt fc.q)).2.2.mpr hadm
  have hlen := C13_xmd_length H 32 64 (by decide) hH msg dst _ bytes hb
  rw [C13_hashToField_eq, hb] at e
  refine ⟨bytes, hb, hlen, congrArg Prod.snd e, congrArg Prod.fst e, ?_⟩
  intro i hi
  rw [hlen]
  exact Nat.mul_le_mul_right _ hi

/-- count = 0: `([], nil)` (for a tag of at most 255 bytes; a longer tag is refused even for count = 0, as in the Go text) -/
theorem C13h2fgen_count_zero (msg dst : B) (hd : dst.length ≤ 255) :
    P.hash zeroF setBigIntF (HashUtils.ExpandMsgXmd W H 32 64) msg dst 0 = ([], GoImp.Err.nil) := by
  obtain ⟨bytes, _, _, h2, h1, _⟩ := C13h2fgen_elements zeroF setBigIntF val P hP fc hfc hn hzero hset W hW H hH msg dst 0
    ⟨by omega, hd⟩
  simp only [List.range_zero, List.map_nil, List.map_eq_nil_iff] at h1
  exact Prod.ext h1 h2

omit hzero hset hW hH in
/-- count < 0 (`make` with a negative length panics in Go — the guard `0 ≤ count` of the theorems above): with an over-long tag the
Go text returns the tag error before reaching `make`; with |dst| ≤ 255 it panics in `make([]byte, lenInBytes)` of ExpandMsgXmd -/
theorem C13h2fgen_negative_count_dst (msg dst : B) (count : Int) (hc : count < 0) (hd : 255 < dst.length) :
    P.hash zeroF setBigIntF (HashUtils.ExpandMsgXmd W H 32 64) msg dst count =
      ([], GoImp.Err.sentinel "invalid domain size (>255 bytes)") := by
  obtain ⟨_, hL, _⟩ := C13h2fgen_consts.2 P hP fc hfc hn
  rw [(allPkgs_same P hP).2]
  exact hash_neg_dst zeroF setBigIntF P.bits P.modulus (lenPerElt fc.q) hL (by unfold lenPerElt; omega) W H msg dst count hc hd

end transfer

end

/-! non-vacuity of the hypotheses on the parameters: elements as their canonical integers -/
example (q : Nat) : ∃ (zeroF : Nat) (setBigIntF : Int → Nat) (val : Nat → Nat),
    val zeroF = 0 ∧ ∀ v : Int, 0 ≤ v → v < q → val (setBigIntF v) = v.toNat := ⟨0, Int.toNat, id, rfl, fun _ _ _ => rfl⟩

/-! the generated code RUN (elements as canonical integers, the limb-level primitive = the identity on [0, q)); the values are those the Go
library returns for `koalabear.Hash([]byte{1,2,3}, []byte{4,5}, 2)` and `fr.Hash(…, 1)` of bn254; `SetBigInt` on -1, q, 3q+5 -/
example : H2F_koalabear.Hash (F := Nat) 0 Int.toNat (HashUtils.ExpandMsgXmd some Sha256.hash 32 64) [1, 2, 3] [4, 5] 2 =
    ([1094470119, 1228282297], GoImp.Err.nil) := by decide +kernel
example : H2F_bn254_fr.Hash (F := Nat) 0 Int.toNat (HashUtils.ExpandMsgXmd some Sha256.hash 32 64) [1, 2, 3] [4, 5] 1 =
    ([10061970468863059501534025900590032832335114319471481564042073878639888221808], GoImp.Err.nil) := by decide +kernel
example : (H2F_bn254_fr.Hash (F := Nat) 0 Int.toNat (HashUtils.ExpandMsgXmd some Sha256.hash 32 64) [1] (List.replicate 256 0) 1).2 =
    GoImp.Err.sentinel "invalid domain size (>255 bytes)" := by decide +kernel
example : (H2F_bn254_fr.Hash (F := Nat) 0 Int.toNat (HashUtils.ExpandMsgXmd some Sha256.hash 32 64) [1] [2] 171) =
    ([], GoImp.Err.sentinel "invalid lenInBytes") := by decide +kernel
example : H2F_bn254_fr.SetBigInt (F := Nat) 0 Int.toNat 7 (-1) = 21888242871839275222246405745257275088548364400416034343698204186575808495616 ∧
    H2F_bn254_fr.SetBigInt (F := Nat) 0 Int.toNat 7 H2F_bn254_fr.modulus = 0 ∧
    H2F_bn254_fr.SetBigInt (F := Nat) 0 Int.toNat 7 (H2F_bn254_fr.modulus * 3 + 5) = 5 := by decide +kernel
/-- the hypotheses of the theorems are satisfiable for a concrete package: the ∀-package theorem INSTANTIATED at ecc/bn254/fr with elements
as canonical integers — the translated `fr.Hash` returns the model's field elements on every input -/
example (msg dst : B) (count : Nat) :
    (H2F_bn254_fr.Hash (F := Nat) 0 Int.toNat (HashUtils.ExpandMsgXmd some Sha256.hash 32 64) msg dst (count : Int)) =
      outOfF (hashToField Sha256.hash Gen.bn254_fr.q msg dst count) := by
  have h := C13h2fgen_sha256 (F := Nat) 0 Int.toNat id
    ⟨"bn254_fr", H2F_bn254_fr.Bits, H2F_bn254_fr.modulus, @H2F_bn254_fr.SetBigInt, @H2F_bn254_fr.Hash⟩ (by simp [allPkgs])
    Gen.bn254_fr (by simp [Gen.allFields]) (by decide +kernel) rfl (fun _ _ _ => rfl) msg dst count
  simpa using h

end GV.H2FGen
