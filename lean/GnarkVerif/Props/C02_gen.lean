import GnarkVerif.Props.C02_gen_bn254
import GnarkVerif.Props.C02_gen_bls12_381
import GnarkVerif.Props.C02_gen_bls12_377
import GnarkVerif.Props.C02_gen_bls24_315
import GnarkVerif.Props.C02_gen_bls24_317
import GnarkVerif.Props.C02_gen_bw6_761
import GnarkVerif.Props.C02_gen_bw6_633
import GnarkVerif.Props.C02_gen_grumpkin
import GnarkVerif.Props.C02_gen_secp256k1
import GnarkVerif.Props.C02_gen_bw6_761_g2
import GnarkVerif.Props.C02_gen_bw6_633_g2
import GnarkVerif.Props.C02_gen_bn254_g2
import GnarkVerif.Props.C02_gen_bls12_381_g2
import GnarkVerif.Props.C02_gen_bls12_377_g2
import GnarkVerif.Props.C02_gen_te_bn254
import GnarkVerif.Props.C02_gen_te_bls12_381
import GnarkVerif.Props.C02_gen_te_bandersnatch
import GnarkVerif.Props.C02_gen_te_bls12_377
import GnarkVerif.Props.C02_gen_te_bls24_315
import GnarkVerif.Props.C02_gen_te_bls24_317
import GnarkVerif.Props.C02_gen_te_bw6_761
import GnarkVerif.Props.C02_gen_te_bw6_633
import GnarkVerif.Props.C02_gen_bls24_315_g2
import GnarkVerif.Props.C02_gen_bls24_317_g2
import GnarkVerif.Props.C02_gen_stark
/- C02 (tie T): the group-law theorems about the point formulas that tools/goslp regenerates from the Go source on
   every run (Gen/Curve/*.lean). This module only imports the per-package files; written by bin/mkc02gen.py.
   25 files, 596 theorems `C02gen_*` (listed with their axioms in Audit/C02_gen.lean). -/
