import GnarkVerif.Proofs.RecodeGen
import GnarkVerif.Proofs.RecodeStatsGen
import GnarkVerif.Props.C03
/-
C04_recode_gen — tie T for the signed-digit RECODING of `partitionScalars` (/repo/ecc/<curve>/multiexp.go, the 9 MSM packages; cited
by C04 and C03).  Gen/Imp/Recode.lean is REGENERATED on every run by tools/goslp (imp_recode.go, sub-pass imp:Recode), which is fatal
unless the 9 packages translate to the same text.

Translated statement by statement: the prelude (`mask`, `max`, `cDivides64`: maskOf / maxOf / cDivides64Of), the body of the selector
loop (mkSelector: index, shift, mask, multiWordSelect, maskHigh, shiftHigh), the body of the chunk loop (digitStep: window over one or
two limbs, carry, `digit -= 1<<c`, the `continue` on a zero digit, the uint16 encoding of the sign) and the last-chunk statements
(lastStep).  The FRAME (chunk loop as recursion on fuel = chunkLoop, the zero-scalar `continue`, the column of one scalar =
scalarDigits) is emitted from a template after its exact text was checked.

PARAMETERS of the generated defs (not translated): `scalar k` = word k of `scalars[i].Bits()` (regular form: the Montgomery conversion
FromMont is inside Bits; the theorems instantiate it with `limb s`, the 64-bit words of the scalar value s — that Bits returns them is
C01/C08's subject), `isZero` = `scalars[i].IsZero()` (instantiated with `s = 0`), `frLimbs` = fr.Limbs, `nbChunks` =
computeNbChunks(c) (instantiated with the model's `computeNbChunks bits c`; the text of computeNbChunks is tied by C04_gen).
ASSUMED (subset semantics, Model/GoImp.lean): uint64 = Nat with explicit % 2^64, `<<` = shl64; Go int = unbounded Int (all int values
here are below 2^c + 2, c < 64); a read scalar[k] beyond the array is not a panic but the value of the parameter.
Chunk statistics (after the first parallel.Execute): the body of `for _, digit := range chunkDigits` is translated (statStep: the
`continue` on 0, totalOps++, bucketID from the uint16 digit, the bit set b as a function ℕ → Bool, nz++) and its frame (`var b
bitSetC<N>`, `totalOps := 0`, `nz := 0`, the slice digits[chunkID*len(scalars):(chunkID+1)*len(scalars)]) pattern-checked: statLoop;
`C04recode_stats` proves totalOps = Model.MSM.chunkOps and nz = the number of distinct buckets hit.  NOT translated: the float32
arithmetic that turns (totalOps, nz) into weight / ppBucketFilled and the normalisation by the mean (whole text of that part recorded as
`statsSrc` and pinned by `C04recode_stats_pinned`, so an edit is reported; tie K otherwise); an index b[bucketID] beyond the bit set is
not a panic; the tiling of parallel.Execute (C04_execgen).

Non-interference: the generated `scalarDigits` is a function of ONE scalar (the translator checked that the per-scalar body mentions
`scalars`, `i` and `digits` only in the frame and in the final stores at `int(chunk)*len(scalars)+i`); `C04recode_index_inj` says that
distinct (chunk, i) write distinct entries.
-/
namespace GV.RecodeGen
open GV GV.ScalarMul GV.GoImp GV.Gen.Imp.Recode

/-- **the translated per-scalar body = the model**, for every window size 1 ≤ c < 64, every limb count, every bit size and EVERY
scalar value s (words `limb s`): the column of uint16 digits the Go text writes for the scalar is `partitionScalar bits limbs c s` -/
theorem C04recode_scalar (bits limbs c s : ℕ) (hc1 : 1 ≤ c) (hc : c < 64) (hl1 : 1 ≤ limbs) (hl : limbs < 2 ^ 64)
    (hb1 : 1 ≤ bits) (hb : bits < 2 ^ 63) :
    scalarDigits limbs c (computeNbChunks bits c) (decide (s = 0)) (limb s) = partitionScalar bits limbs c s := by
  obtain ⟨hnb1, hnb2⟩ := computeNbChunks_bounds bits c hc1
  have hb0 : ¬ bits = 0 := by omega
  simp only [hb0, if_false, add_zero] at hnb2
  have hnbpos : 1 ≤ computeNbChunks bits c := by
    rcases Nat.eq_zero_or_pos (computeNbChunks bits c) with h | h
    · rw [h] at hnb1; omega
    · exact h
  have hnbc : (computeNbChunks bits c - 1) * c < 2 ^ 63 := by omega
  have hnble : computeNbChunks bits c - 1 ≤ (computeNbChunks bits c - 1) * c := Nat.le_mul_of_pos_right _ (by omega)
  unfold scalarDigits partitionScalar recode
  dsimp only
  by_cases hs : s = 0
  · simp only [hs, decide_true, if_true, List.map_replicate]
    rfl
  · simp only [hs, decide_false, if_false, Bool.false_eq_true]
    have key := chunkLoop_eq c (computeNbChunks bits c) hc1 hc (by omega)
      (mkSelector limbs c (maskOf c) (cDivides64Of c)) (limb s) (selectDigit limbs c s)
      (by
        intro j hj
        have hjc : j * c ≤ (computeNbChunks bits c - 1) * c := Nat.mul_le_mul_right c (by omega)
        rw [mkSelector_eq limbs c j hc1 hc hl1 hl (by omega)]
        exact genSel_model limbs c s j (by omega))
      (maxOf c) (maxOf_eq c hc1 hc) (computeNbChunks bits c - 1) 0 0 [] (by omega)
    simp only [Nat.cast_zero, List.nil_append] at key
    exact key

/-- non-vacuity of the hypotheses: bn254 (fr.Bits = 254, fr.Limbs = 4), window 5 -/
example : scalarDigits 4 5 (computeNbChunks 254 5) (decide ((123456789 : ℕ) = 0)) (limb 123456789) = partitionScalar 254 4 5 123456789 :=
  C04recode_scalar 254 4 5 123456789 (by norm_num) (by norm_num) (by norm_num) (by norm_num) (by norm_num) (by norm_num)

/-- hence the column the Go text writes is the uint16 encoding of a list of signed digits that SUM to the scalar
(Σ dⱼ·2^{c·j} = s: `C03_recode_sum` transferred to the translated text) -/
theorem C04recode_sum (bits limbs c s : ℕ) (hc1 : 1 ≤ c) (hc : c < 64) (hl1 : 1 ≤ limbs) (hl : limbs < 2 ^ 64)
    (hb1 : 1 ≤ bits) (hbl : bits ≤ 64 * limbs) (hb : bits < 2 ^ 63) (hs : s < 2 ^ bits) :
    scalarDigits limbs c (computeNbChunks bits c) (decide (s = 0)) (limb s) = (recode bits limbs c s).map encodeDigit ∧
      evalDigits c 0 (recode bits limbs c s) = s :=
  ⟨C04recode_scalar bits limbs c s hc1 hc hl1 hl hb1 hb, C03_recode_sum bits limbs c s hc1 (by omega) hb1 hbl hs⟩

example : (1 : ℕ) ≤ 5 ∧ 5 < 64 ∧ 1 ≤ 4 ∧ 4 < 2 ^ 64 ∧ 1 ≤ 254 ∧ 254 ≤ 64 * 4 ∧ 254 < 2 ^ 63 ∧ 123456789 < 2 ^ 254 := by norm_num

section batch
variable {G : Type} [AddCommGroup G]

/-- the consumer's view (`C03_batchWith` transferred): decoding the column the translated text writes, digit by digit as
`BatchScalarMultiplication` does (c doublings, add / subtract the table entry selected by the uint16 digit), gives `s • base`; so the
stored uint16 values decode to a signed-digit representation of the scalar -/
theorem C04recode_decodes (bits limbs c s : ℕ) (base : G) (hc1 : 1 ≤ c) (hc : c ≤ 16) (hl1 : 1 ≤ limbs) (hl : limbs < 2 ^ 64)
    (hb1 : 1 ≤ bits) (hbl : bits ≤ 64 * limbs) (hb : bits < 2 ^ 63) (hlast : lastC bits c ≤ 15) (hs : s < 2 ^ bits) :
    batchOne (GOps.ofGroup G) c
        (baseTable (GOps.ofGroup G) base (1 <<< ((if c > lastC bits c then c else lastC bits c) - 1)))
        (scalarDigits limbs c (computeNbChunks bits c) (decide (s = 0)) (limb s)) = s • base := by
  rw [C04recode_scalar bits limbs c s hc1 (by omega) hl1 hl hb1 hb]
  have h := C03_batchWith bits limbs c base [s] hc1 hc hb1 hbl hlast (by simpa using hs)
  simpa [batchWith] using h

example : (1 : ℕ) ≤ 5 ∧ 5 ≤ 16 ∧ 254 ≤ 64 * 4 ∧ lastC 254 5 ≤ 15 := by decide

end batch

/-- non-interference of the stores: the entries `int(chunk)*len(scalars)+i` written for (chunk, i) and (chunk', i') with
i, i' < n = len(scalars) coincide only when chunk = chunk' and i = i' -/
theorem C04recode_index_inj (n chunk i chunk' i' : ℕ) (hi : i < n) (hi' : i' < n) (h : chunk * n + i = chunk' * n + i') :
    chunk = chunk' ∧ i = i' := by
  have h1 : (chunk * n + i) % n = i := by rw [Nat.mul_add_mod_of_lt hi]
  have h2 : (chunk' * n + i') % n = i' := by rw [Nat.mul_add_mod_of_lt hi']
  have hii : i = i' := by rw [← h1, ← h2, h]
  subst hii
  have hn : 0 < n := by omega
  exact ⟨Nat.eq_of_mul_eq_mul_right hn (by omega), rfl⟩

example : (1 : ℕ) < 3 ∧ (2 : ℕ) < 3 := by decide

/-- **chunk statistics = their definition**: over the uint16 digits of one chunk the translated loop counts the non-zero digits
(totalOps = `Model.MSM.chunkOps`, from which `weight` is computed) and the DISTINCT buckets they address (nz = nbBucketFilled; the
bit set marks exactly the buckets `bucketOf digit` of the non-zero digits) -/
theorem C04recode_stats (col : List ℕ) (hcol : ∀ d ∈ col, d < 65536) :
    (∀ x, (statLoop col).1 x = true ↔ x ∈ ((col.filter (· != 0)).map GV.MSM.bucketOf).toFinset) ∧
    (statLoop col).2.1 = (GV.MSM.chunkOps col : ℤ) ∧
    (statLoop col).2.2 = ((((col.filter (· != 0)).map GV.MSM.bucketOf).toFinset.card : ℕ) : ℤ) :=
  Stats.statLoop_eq col hcol

example : ∀ d ∈ [0, 6, 7, 6, 2], d < 65536 := by decide

/-- the text of partitionScalars after the first parallel.Execute (only its inner loop is translated) (chunk statistics, after the first parallel.Execute) has this text in all 9
packages (the bit-set type bitSetC15 / bitSetC16 masked): an edit of it breaks this theorem -/
theorem C04recode_stats_pinned : statsSrc =
    "chunkStats := make([]chunkStat, nbChunks) ; if c <= 9 { return digits, chunkStats } ; parallel.Execute(len(chunkStats), func(start, end int) { for chunkID := start; chunkID < end; chunkID++ { var b bitSetC<N> chunkDigits := digits[chunkID*len(scalars) : (chunkID+1)*len(scalars)] totalOps := 0 nz := 0 for _, digit := range chunkDigits { if digit == 0 { continue } totalOps++ bucketID := digit >> 1 if digit&1 == 0 { bucketID -= 1 } if !b[bucketID] { nz++ b[bucketID] = true } } chunkStats[chunkID].weight = float32(totalOps) chunkStats[chunkID].ppBucketFilled = (float32(nz) * 100.0) / float32(int(1<<(c-1))) chunkStats[chunkID].nbBucketFilled = nz } }, nbTasks) ; totalOps := float32(0.0) ; for _, stat := range chunkStats { totalOps += stat.weight } ; target := totalOps / float32(nbChunks) ; if target != 0.0 { for i := 0; i < len(chunkStats); i++ { chunkStats[i].weight = (chunkStats[i].weight * 100.0) / target } } ; return digits, chunkStats" := rfl

/-- the 9 MSM packages share the translated text (checked by the translator, which writes this list) -/
theorem C04recode_packages : packages =
    ["bn254", "bls12-377", "bls12-381", "bls24-315", "bls24-317", "bw6-633", "bw6-761", "grumpkin", "secp256k1"] := rfl

end GV.RecodeGen
