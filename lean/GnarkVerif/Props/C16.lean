import GnarkVerif.Proofs.MerkleSound
import GnarkVerif.Proofs.MerkleSub
import GnarkVerif.Proofs.MerkleVortex
/-
C16 — Merkle proofs verify for, and only for, the committed leaf and position.

Theorems about `GV.Merkle` (executable models of accumulator/merkletree/{tree,verify,readers}.go and of
field/koalabear/vortex/merkle.go; tie = correspondence K, ops `C16 …`).  All statements are for every leaf
list / every index (induction), over an abstract hash.

Hash hypotheses of the soundness theorems (the idealisation of collision resistance), stated explicitly:
  `hinj  : ∀ a b c e, hn a b = hn c e → a = c ∧ b = e`   node hash injective
  `hdisj : ∀ x a b, hl x ≠ hn a b`                        leaf and node hashes have disjoint ranges
  `hlinj : Function.Injective hl`                          leaf hash injective
`hdisj` is **domain separation, which the Go accumulator does not have** (`leafSum = H(data)`,
`nodeSum = H(a‖b)`, the 0x00/0x01 prefixes are commented out): for SHA-256 `hl (a ++ b) = hn a b`.  Without it
soundness is false for the model and for the Go code alike, because `VerifyProof` does not fix the number of trailing
left siblings: for 3 leaves, root `= H(H(H l0‖H l1)‖H l2)`, the one-element proof set `[H(H l0‖H l1) ‖ H l2]` verifies
for index 2 / 3 leaves (the 64-byte "leaf" is the preimage of the root).  Op family `C16 acct … collapse <j>`.
The Vortex theorems need `hinj` only, but for the verifier *as the property demands it* (`vverify`: index range and
proof length checked); `C16_vortex_go_ignores_high_index_bits` shows that the Go verifier (`vverifyGo`) is different.
-/
namespace GV.Merkle
set_option linter.unusedSectionVars false

/-! ## A. accumulator/merkletree -/
section Accumulator
variable {A D : Type} [Inhabited D] [DecidableEq D] (hl : A → D) (hn : D → D → D)

/-- `mth`/`MTH` is the RFC 6962 recursion: one leaf … -/
theorem C16_MTH_single (x : A) : MTH hl hn [x] = hl x := by
  simp [MTH, mth]

/-- … and for `n > 1` leaves the split at the largest power of two `2^k < n` -/
theorem C16_MTH_split (L : List A) (k : Nat) (h1 : 2^k < L.length) (h2 : L.length ≤ 2^(k+1)) :
    MTH hl hn L = hn (MTH hl hn (L.take (2^k))) (MTH hl hn (L.drop (2^k))) := by
  have hk := two_pow_pos k
  have l1 : (L.take (2^k)).length = 2^k := by rw [List.length_take]; omega
  have l2 : (L.drop (2^k)).length = L.length - 2^k := by rw [List.length_drop]
  unfold MTH
  rw [mth_fuel hl hn L.length (k+1) L (Nat.le_of_lt Nat.lt_two_pow_self) h2, mth_succ_of_gt hl hn k L h1,
    mth_fuel hl hn _ k (L.take (2^k)) (Nat.le_of_lt Nat.lt_two_pow_self) (by omega),
    mth_fuel hl hn _ k (L.drop (2^k)) (Nat.le_of_lt Nat.lt_two_pow_self) (by rw [l2, pow_succ] at *; omega)]

example : MTH (fun (x : Nat) => [x]) (fun a b => a ++ b) [1, 2, 3, 4, 5] = [1, 2, 3, 4, 5] := by decide

/-- (1) `Root()` after pushing `n ≥ 1` leaves is the RFC 6962 tree hash (whatever `SetIndex` was) -/
theorem C16_root_eq_MTH (L : List A) (hL : L ≠ []) (p : Nat) (pt : Bool) :
    root hn (pushAll hl hn (⟨[], 0, p, none, [], pt⟩ : Tree A D) L) = some (MTH hl hn L) :=
  root_pushAll_init hl hn L hL p pt

example : root (fun a b => a ++ b) (pushAll (fun (x : Nat) => [x]) (fun a b => a ++ b) ⟨[], 0, 0, none, [], false⟩ [1, 2, 3])
    = some [1, 2, 3] := by decide

/-- (2a) `Prove()` after `SetIndex(p)` and `n > p` pushes returns root, leaf, RFC 6962 audit path, index, count -/
theorem C16_prove_eq_PATH (L : List A) (p : Nat) (hp : p < L.length) (pt : Bool) :
    prove hn (pushAll hl hn (⟨[], 0, p, none, [], pt⟩ : Tree A D) L) =
      (some (MTH hl hn L), some L[p], PATH hl hn L p, p, L.length) :=
  prove_pushAll_init hl hn L p hp pt

/-- `Prove()` when the proof index was never reached: empty proof set -/
theorem C16_prove_unreached (L : List A) (hL : L ≠ []) (p : Nat) (hp : L.length ≤ p) (pt : Bool) :
    prove hn (pushAll hl hn (⟨[], 0, p, none, [], pt⟩ : Tree A D) L) = (some (MTH hl hn L), none, [], p, L.length) :=
  prove_pushAll_init_unreached hl hn L hL p (by omega) pt

/-- (2b) completeness: the RFC 6962 audit path verifies, for every `n` and every `i < n` -/
theorem C16_verify_complete (L : List A) (i : Nat) (hi : i < L.length) :
    verifyProof hl hn (some (MTH hl hn L)) (some L[i]) (PATH hl hn L i) i L.length = true := by
  unfold verifyProof
  simp only
  rw [verifySum_eq_vs hl hn _ _ i _ hi]
  have := vs_complete hl hn L.length L i L[i] [] (by omega) (Nat.le_of_lt Nat.lt_two_pow_self)
    (List.getElem?_eq_getElem hi)
  rw [List.append_nil] at this
  unfold PATH MTH
  rw [this]
  simp [wrapL]

/-- (2) what `Prove()` returns is accepted by `VerifyProof` -/
theorem C16_prove_verifies (L : List A) (p : Nat) (hp : p < L.length) (pt : Bool) :
    (let r := prove hn (pushAll hl hn (⟨[], 0, p, none, [], pt⟩ : Tree A D) L)
     verifyProof hl hn r.1 r.2.1 r.2.2.1 r.2.2.2.1 r.2.2.2.2) = true := by
  rw [C16_prove_eq_PATH hl hn L p hp pt]
  exact C16_verify_complete hl hn L p hp

example : (let r := prove Sym.node (pushAll Sym.leaf Sym.node ⟨[], 0, 1, none, [], true⟩ [[1], [2], [3]])
    verifyProof Sym.leaf Sym.node r.1 r.2.1 r.2.2.1 r.2.2.2.1 r.2.2.2.2) = true := by decide

/-- (3) soundness: whatever `VerifyProof` accepts against the root of `L` for the leaf count `|L|` is the leaf at an
    in-range index together with exactly its audit path (so: no other leaf, no changed / missing / extra sibling) -/
theorem C16_verify_sound (hinj : ∀ a b c e, hn a b = hn c e → a = c ∧ b = e) (hdisj : ∀ x a b, hl x ≠ hn a b)
    (hlinj : Function.Injective hl) (L : List A) (hL : L ≠ []) (lf : Option A) (sibs : List D) (i : Nat)
    (hv : verifyProof hl hn (some (MTH hl hn L)) lf sibs i L.length = true) :
    i < L.length ∧ lf = L[i]? ∧ sibs = PATH hl hn L i := by
  have h0 : 0 < L.length := List.length_pos_iff.mpr hL
  unfold verifyProof at hv
  simp only [beq_iff_eq] at hv
  have hi : i < L.length := by
    by_contra hc
    unfold verifySum at hv
    rw [if_pos (by omega)] at hv
    cases hv
  cases lf with
  | none =>
    unfold verifySum at hv
    rw [if_neg (by omega)] at hv
    cases hv
  | some y =>
    rw [verifySum_eq_vs hl hn y sibs i _ hi] at hv
    unfold vs at hv
    cases hc : c12 hn L.length L.length i (hl y) sibs with
    | none => rw [hc] at hv; cases hv
    | some r =>
      obtain ⟨c, rem⟩ := r
      rw [hc] at hv
      simp only [Option.map_some, Option.some.injEq] at hv
      obtain ⟨⟨x, hx, hs⟩, hsib⟩ := c12_sound hl hn hinj hdisj L.length L i [] y sibs c rem h0
        (Nat.le_of_lt Nat.lt_two_pow_self) hi (by intro e he; simp at he) hc (by rw [hv]; rfl)
      refine ⟨hi, ?_, ?_⟩
      · rw [hx, hlinj hs]
      · rw [hsib]; simp [PATH]

-- the hypotheses are satisfiable (free term algebra), and the statement is not vacuous
example : ∀ a b c e, Sym.node a b = Sym.node c e → a = c ∧ b = e := by
  intro a b c e h; cases h; exact ⟨rfl, rfl⟩
example : ∀ x a b, Sym.leaf x ≠ Sym.node a b := by
  intro x a b h; cases h
example : Function.Injective Sym.leaf := by
  intro a b h; cases h; rfl
example : verifyProof Sym.leaf Sym.node (some (MTH Sym.leaf Sym.node [[1], [2], [3]])) (some [3])
    (PATH Sym.leaf Sym.node [[1], [2], [3]] 2) 2 3 = true := by decide

/-- consequence: out-of-range index rejected (any root, any proof) -/
theorem C16_verify_rejects_out_of_range (rt : Option D) (lf : Option A) (sibs : List D) (i n : Nat) (h : n ≤ i) :
    verifyProof hl hn rt lf sibs i n = false := by
  unfold verifyProof
  cases rt with
  | none => rfl
  | some r =>
    unfold verifySum
    rw [if_pos h]
    simp

/-- consequence: nil root / empty proof set rejected -/
theorem C16_verify_rejects_nil (rt : Option D) (lf : Option A) (sibs : List D) (i n : Nat) (h : rt = none ∨ lf = none) :
    verifyProof hl hn rt lf sibs i n = false := by
  unfold verifyProof
  cases rt with
  | none => rfl
  | some r =>
    rcases h with h | h
    · cases h
    · subst h
      unfold verifySum
      split <;> simp

/-- consequence: a proof set that differs from the audit path in any way (changed sibling, shortened, extended)
    or a different leaf is rejected -/
theorem C16_verify_rejects_tampered (hinj : ∀ a b c e, hn a b = hn c e → a = c ∧ b = e) (hdisj : ∀ x a b, hl x ≠ hn a b)
    (hlinj : Function.Injective hl) (L : List A) (hL : L ≠ []) (lf : Option A) (sibs : List D) (i : Nat)
    (h : lf ≠ L[i]? ∨ sibs ≠ PATH hl hn L i ∨ sibs.length ≠ (PATH hl hn L i).length) :
    verifyProof hl hn (some (MTH hl hn L)) lf sibs i L.length = false := by
  cases hv : verifyProof hl hn (some (MTH hl hn L)) lf sibs i L.length with
  | false => rfl
  | true =>
    obtain ⟨_, h1, h2⟩ := C16_verify_sound hl hn hinj hdisj hlinj L hL lf sibs i hv
    rcases h with h | h | h
    · exact absurd h1 h
    · exact absurd h2 h
    · rw [h2] at h; exact absurd rfl h

/-- consequence: the honest proof for index `i` presented with another index `j` (same leaf count) is accepted only
    if position `j` holds the same leaf with the same audit path -/
theorem C16_verify_other_index (hinj : ∀ a b c e, hn a b = hn c e → a = c ∧ b = e) (hdisj : ∀ x a b, hl x ≠ hn a b)
    (hlinj : Function.Injective hl) (L : List A) (i j : Nat) (hi : i < L.length)
    (hv : verifyProof hl hn (some (MTH hl hn L)) (some L[i]) (PATH hl hn L i) j L.length = true) :
    j < L.length ∧ L[j]? = some L[i] ∧ PATH hl hn L j = PATH hl hn L i := by
  have hL : L ≠ [] := by intro h; subst h; simp at hi
  obtain ⟨h1, h2, h3⟩ := C16_verify_sound hl hn hinj hdisj hlinj L hL _ _ j hv
  exact ⟨h1, h2.symm, h3.symm⟩

/-- consequence: any other root is rejected for the honest proof -/
theorem C16_verify_rejects_wrong_root (L : List A) (i : Nat) (hi : i < L.length) (r : D) (hr : r ≠ MTH hl hn L) :
    verifyProof hl hn (some r) (some L[i]) (PATH hl hn L i) i L.length = false := by
  have hc := C16_verify_complete hl hn L i hi
  unfold verifyProof at hc ⊢
  simp only [beq_iff_eq] at hc
  simp only [hc]
  simp [Ne.symm hr]

/-- (5) cached sub-trees: at a position that is a multiple of `2^h`, `PushSubTree(h, MTH X)` of a block `X` of `2^h`
    leaves not containing the proof index succeeds and gives exactly the state of pushing the leaves of `X`
    (hence the same `Root()`, `Prove()` and behaviour under all later calls) -/
theorem C16_pushSubTree_refines (L1 X : List A) (h p : Nat) (pt : Bool) (hX : X.length = 2^h) (hd : 2^h ∣ L1.length)
    (hp : ¬ (L1.length ≤ p ∧ p < L1.length + 2^h)) :
    pushSubTree hn (pushAll hl hn (⟨[], 0, p, none, [], pt⟩ : Tree A D) L1) h (MTH hl hn X) =
      .ok (pushAll hl hn ⟨[], 0, p, none, [], pt⟩ (L1 ++ X)) := by
  rw [pushAll_init_append_full hl hn L1 X h p pt hX hd hp]
  unfold pushSubTree
  rw [pushAll_init]
  simp only
  rw [if_neg (by rintro ⟨_, h1 | ⟨h1, h2⟩⟩ <;> omega)]
  have hge := blocks_ge_of_dvd hl hn h L1.length L1 Nat.lt_two_pow_self hd
  cases hb : blocks hl hn L1.length L1 with
  | nil => rfl
  | cons e tl =>
    have := hge e (by rw [hb]; simp)
    simp only
    rw [if_neg (by omega)]

/-- (5) … and it is refused when the block contains the proof index of a proof tree -/
theorem C16_pushSubTree_refuses_proof_index (L1 : List A) (h p : Nat) (s : D)
    (hp : L1.length ≤ p ∧ p < L1.length + 2^h) :
    pushSubTree hn (pushAll hl hn (⟨[], 0, p, none, [], true⟩ : Tree A D) L1) h s = .error .containsProofIndex := by
  unfold pushSubTree
  rw [pushAll_init]
  simp only
  rw [if_pos (by refine ⟨by trivial, ?_⟩; omega)]

/-- (5) same tree through a cached sub-tree: later pushes continue identically -/
theorem C16_cached_subtree_same_tree (L1 X L2 : List A) (h p : Nat) (pt : Bool) (hX : X.length = 2^h)
    (hd : 2^h ∣ L1.length) (hp : ¬ (L1.length ≤ p ∧ p < L1.length + 2^h)) :
    ∃ t', pushSubTree hn (pushAll hl hn (⟨[], 0, p, none, [], pt⟩ : Tree A D) L1) h (MTH hl hn X) = .ok t' ∧
      pushAll hl hn t' L2 = pushAll hl hn ⟨[], 0, p, none, [], pt⟩ (L1 ++ X ++ L2) :=
  ⟨_, C16_pushSubTree_refines hl hn L1 X h p pt hX hd hp, (pushAll_append hl hn _ (L1 ++ X) L2).symm⟩

example : pushSubTree Sym.node (pushAll Sym.leaf Sym.node ⟨[], 0, 0, none, [], true⟩ [[1], [2]]) 1
      (MTH Sym.leaf Sym.node [[3], [4]]) = .ok (pushAll Sym.leaf Sym.node ⟨[], 0, 0, none, [], true⟩ [[1], [2], [3], [4]]) :=
  C16_pushSubTree_refines Sym.leaf Sym.node [[1], [2]] [[3], [4]] 1 0 true rfl (by decide) (by decide)


/-! ### histories with observation calls

`HOp` / `hstep` / `hrun` (Model/Merkle.lean) is the call-level state machine: `Push`, `PushSubTree`, and the observation
calls `Root()` / `Prove()` at any point.  Op family `C16 accd … Or / Op …` runs the same histories on the Go `Tree`. -/

/-- the leaves a history has committed -/
def hleaves : List (HOp A) → List A
  | [] => []
  | .push x :: ops => x :: hleaves ops
  | .sub _ X :: ops => X ++ hleaves ops
  | _ :: ops => hleaves ops

/-- every cached sub-tree of the history is a full block of `2^h` leaves pushed at a multiple of `2^h` and does not
    contain the proof index (`c` = number of leaves before the history) -/
def hwf (p : Nat) : Nat → List (HOp A) → Prop
  | _, [] => True
  | c, .push _ :: ops => hwf p (c + 1) ops
  | c, .sub h X :: ops => X.length = 2^h ∧ 2^h ∣ c ∧ ¬ (c ≤ p ∧ p < c + 2^h) ∧ hwf p (c + 2^h) ops
  | c, _ :: ops => hwf p c ops

/-- what `Root()` must return when the leaves `L` have been committed -/
def specRoot (L : List A) : Option D := if L.isEmpty then none else some (MTH hl hn L)

/-- what `Prove()` must return after `SetIndex(p)` when the leaves `L` have been committed -/
def specProve (p : Nat) (L : List A) : Option D × Option A × List D × Nat × Nat :=
  if L.isEmpty then (none, none, [], p, 0)
  else if h : p < L.length then (some (MTH hl hn L), some L[p], PATH hl hn L p, p, L.length)
  else (some (MTH hl hn L), none, [], p, L.length)

/-- the observations demanded by the property: each one a function of the leaves committed BEFORE it, only -/
def hspec (p : Nat) : List A → List (HOp A) → List (Obs A D)
  | _, [] => []
  | L, .push x :: ops => hspec p (L ++ [x]) ops
  | L, .sub _ X :: ops => hspec p (L ++ X) ops
  | L, .root :: ops => .root (specRoot hl hn L) :: hspec p L ops
  | L, .prove :: ops => .prove (specProve hl hn p L) :: hspec p L ops

theorem root_eq_specRoot (L : List A) (p : Nat) (pt : Bool) :
    root hn (pushAll hl hn (⟨[], 0, p, none, [], pt⟩ : Tree A D) L) = specRoot hl hn L := by
  unfold specRoot
  cases L with
  | nil => rfl
  | cons x xs => simpa using C16_root_eq_MTH hl hn (x :: xs) (by simp) p pt

theorem prove_eq_specProve (L : List A) (p : Nat) (pt : Bool) :
    prove hn (pushAll hl hn (⟨[], 0, p, none, [], pt⟩ : Tree A D) L) = specProve hl hn p L := by
  unfold specProve
  cases L with
  | nil => rfl
  | cons x xs =>
    simp only [List.isEmpty_cons, Bool.false_eq_true, if_false]
    by_cases h : p < (x :: xs).length
    · rw [dif_pos h]; exact C16_prove_eq_PATH hl hn (x :: xs) p h pt
    · rw [dif_neg h]; exact C16_prove_unreached hl hn (x :: xs) (by simp) p (by omega) pt

/-- (6) histories: after `SetIndex(p)` (or none), whatever `Push` / `PushSubTree` calls (full aligned blocks not
    containing `p`) and `Root()` / `Prove()` observations are interleaved, in any order and any number,
    * the state is the state of pushing the committed leaves one by one — the observations have left no trace;
    * every `Root()` returned the RFC 6962 tree hash of the leaves committed before it (nil for none), every `Prove()`
      returned (that root, the leaf at `p`, its RFC 6962 audit path, `p`, the leaf count) of the leaves committed
      before it — whatever was observed earlier. -/
theorem C16_history (p : Nat) (pt : Bool) : ∀ (ops : List (HOp A)) (L : List A), hwf p L.length ops →
    hrun hl hn (pushAll hl hn (⟨[], 0, p, none, [], pt⟩ : Tree A D) L) ops =
      (pushAll hl hn ⟨[], 0, p, none, [], pt⟩ (L ++ hleaves ops), hspec hl hn p L ops)
  | [], L, _ => by simp [hrun, hleaves, hspec]
  | .push x :: ops, L, hw => by
    have ih := C16_history p pt ops (L ++ [x]) (by simpa [hwf] using hw)
    have hs : push hl hn (pushAll hl hn (⟨[], 0, p, none, [], pt⟩ : Tree A D) L) x =
        pushAll hl hn ⟨[], 0, p, none, [], pt⟩ (L ++ [x]) := by
      rw [pushAll_append]; rfl
    simp only [hrun, hstep, hs, ih, hleaves, hspec, Option.toList, List.nil_append, List.append_assoc,
      List.singleton_append]
  | .sub h X :: ops, L, hw => by
    obtain ⟨hX, hd, hp, hw'⟩ := hw
    have ih := C16_history p pt ops (L ++ X) (by rw [List.length_append, hX]; exact hw')
    simp only [hrun, hstep, C16_pushSubTree_refines hl hn L X h p pt hX hd hp, ih, hleaves, hspec, Option.toList,
      List.nil_append, List.append_assoc]
  | .root :: ops, L, hw => by
    have ih := C16_history p pt ops L hw
    simp only [hrun, hstep, ih, hleaves, hspec, Option.toList, root_eq_specRoot, List.singleton_append]
  | .prove :: ops, L, hw => by
    have ih := C16_history p pt ops L hw
    simp only [hrun, hstep, ih, hleaves, hspec, Option.toList, prove_eq_specProve, List.singleton_append]

/-- (6) the observation calls are pure: they return the state they were given, … -/
theorem C16_observers_keep_state (t : Tree A D) :
    (hstep hl hn t .root).1 = t ∧ (hstep hl hn t .prove).1 = t := ⟨rfl, rfl⟩

/-- … so deleting every observation from ANY history (any start state, well-formed or not) changes neither the final
    state nor, hence, anything a later call returns -/
theorem C16_observers_erasable (t : Tree A D) (ops : List (HOp A)) :
    (hrun hl hn t ops).1 =
      (hrun hl hn t (ops.filter (fun o => match o with | .root => false | .prove => false | _ => true))).1 := by
  induction ops generalizing t with
  | nil => rfl
  | cons o ops ih =>
    cases o with
    | push x => simp only [List.filter_cons, hrun]; exact ih _
    | sub h X => simp only [List.filter_cons, hrun]; exact ih _
    | root => simp only [List.filter_cons, hrun, hstep]; exact ih _
    | prove => simp only [List.filter_cons, hrun, hstep]; exact ih _

/-- (6) in particular: the root read at the end of a history is the tree hash of all committed leaves, however many
    times `Root()` / `Prove()` were called on the way -/
theorem C16_history_final_root (p : Nat) (pt : Bool) (ops : List (HOp A)) (hw : hwf p 0 ops) :
    root hn (hrun hl hn (⟨[], 0, p, none, [], pt⟩ : Tree A D) ops).1 = specRoot hl hn (hleaves ops) := by
  have := C16_history hl hn p pt ops [] hw
  simp only [pushAll, List.foldl_nil, List.nil_append] at this
  rw [this]
  exact root_eq_specRoot hl hn _ p pt

example : (hrun Sym.leaf Sym.node (⟨[], 0, 1, none, [], true⟩ : Tree Bytes Sym)
    [.root, .push [1], .prove, .push [2], .root, .sub 1 [[3], [4]], .prove, .root]).2 =
    hspec Sym.leaf Sym.node 1 [] [.root, .push [1], .prove, .push [2], .root, .sub 1 [[3], [4]], .prove, .root] := by
  decide

end Accumulator

/-- (5) `ReadAll` is `Push` of the consecutive segments, and the segments concatenate to the stream -/
theorem C16_readAll_is_push {D : Type} (hl : Bytes → D) (hn : D → D → D) (t : Tree Bytes D) (r : Bytes) (seg : Nat) :
    readAll hl hn t r seg = pushAll hl hn t (chunks seg r.length r) := rfl

theorem C16_chunks_flatten (seg : Nat) (hs : 0 < seg) : ∀ (fuel : Nat) (bs : List UInt8), bs.length ≤ fuel →
    (chunks seg fuel bs).flatten = bs
  | 0, bs, h => by
    have : bs = [] := List.length_eq_zero_iff.mp (by omega)
    subst this; simp [chunks]
  | fuel+1, bs, h => by
    unfold chunks
    split
    · rename_i he
      have : bs = [] := by simpa using he
      subst this; simp
    · rename_i he
      have hne : bs ≠ [] := by simpa using he
      have hpos : 0 < bs.length := List.length_pos_iff.mpr hne
      rw [List.flatten_cons, C16_chunks_flatten seg hs fuel (bs.drop seg) (by rw [List.length_drop]; omega),
        List.take_append_drop]

/-! ## B. Vortex tree -/
section Vortex
variable {D : Type} [DecidableEq D] (hn : D → D → D) (zero : D)

/-- (4) completeness at every position of the padded tree: `Open(i)` succeeds with `depth` elements and the Go
    verifier accepts it for the (padded) leaf at `i` -/
theorem C16_vortex_complete (leaves : List D) (hne : leaves ≠ []) (i : Nat) (hi : i < 2^(log2Ceil leaves.length)) :
    ∃ pf, vopen hn zero leaves i = some pf ∧ pf.length = log2Ceil leaves.length ∧
      vverifyGo hn pf i ((padded zero leaves).getD i zero) (vroot hn zero leaves) = true := by
  refine ⟨openAux zero (vlevels hn zero leaves) i, ?_, ?_, ?_⟩
  · unfold vopen; rw [if_neg (by omega)]
  · exact openAux_length hn zero _ _ i
  · unfold vverifyGo
    rw [vroot_eq]
    simp only [vlevels, beq_iff_eq]
    exact vfold_open hn zero _ _ i (padded_length zero leaves hne) hi

/-- (4) completeness for every leaf count `n ≥ 1` and leaf index `i < n`, for the checked verifier -/
theorem C16_vortex_complete_leaf (leaves : List D) (i : Nat) (hi : i < leaves.length) :
    ∃ pf, vopen hn zero leaves i = some pf ∧
      vverify hn leaves.length pf i (leaves.getD i zero) (vroot hn zero leaves) = true := by
  have hne : leaves ≠ [] := by intro h; subst h; simp at hi
  have hle := le_pow_log2Ceil leaves.length (by omega)
  obtain ⟨pf, h1, h2, h3⟩ := C16_vortex_complete hn zero leaves hne i (by omega)
  refine ⟨pf, h1, ?_⟩
  rw [padded_getD zero leaves i hi] at h3
  unfold vverify
  rw [h3]
  simp [hi, h2]

example : ∃ pf, vopen Sym.node (Sym.atom 0) [Sym.atom 1, Sym.atom 2, Sym.atom 3] 2 = some pf ∧
    vverify Sym.node 3 pf 2 (Sym.atom 3) (vroot Sym.node (Sym.atom 0) [Sym.atom 1, Sym.atom 2, Sym.atom 3]) = true :=
  ⟨_, rfl, by decide⟩

/-- (4) soundness of the checked verifier (index range and proof length): an accepted (index, leaf, proof) is the
    committed leaf at that index with exactly the path `Open` returns; needs only injectivity of the compression -/
theorem C16_vortex_sound (hinj : ∀ a b c e, hn a b = hn c e → a = c ∧ b = e) (leaves : List D) (hne : leaves ≠ [])
    (pf : List D) (i : Nat) (leaf : D)
    (hv : vverify hn leaves.length pf i leaf (vroot hn zero leaves) = true) :
    i < leaves.length ∧ leaf = leaves.getD i zero ∧ vopen hn zero leaves i = some pf := by
  simp only [vverify, vverifyGo, Bool.and_eq_true, decide_eq_true_eq, beq_iff_eq] at hv
  obtain ⟨⟨hi, hlen⟩, hf⟩ := hv
  have hle := le_pow_log2Ceil leaves.length (by omega)
  rw [vroot_eq] at hf
  obtain ⟨h1, h2⟩ := vfold_sound hn zero hinj _ _ i leaf pf (padded_length zero leaves hne) (by omega) hlen hf
  refine ⟨hi, ?_, ?_⟩
  · rw [h1, padded_getD zero leaves i hi]
  · unfold vopen; rw [if_neg (by omega), h2]; rfl

/-- consequences: out-of-range index and wrong proof length are rejected by the checked verifier -/
theorem C16_vortex_rejects_out_of_range (n : Nat) (pf : List D) (i : Nat) (leaf rt : D)
    (h : n ≤ i ∨ pf.length ≠ log2Ceil n) : vverify hn n pf i leaf rt = false := by
  unfold vverify
  rcases h with h | h
  · simp [Nat.not_lt.mpr h]
  · simp [h]

/-- the index lattice of op family `C16 vxi`: for a tree of `n ≥ 1` leaves (depth `d = log2Ceil n`) the checked verifier
    rejects, whatever leaf / proof / root it is given, the first index after the padded leaf level `2^d`, everything
    above it, and every `p + k·2^d` with `k ≥ 1` (the indices that share their `d` low bits with position `p`) -/
theorem C16_vortex_rejects_index_lattice (n : Nat) (hn0 : 0 < n) (pf : List D) (leaf rt : D) :
    (∀ i, 2^(log2Ceil n) ≤ i → vverify hn n pf i leaf rt = false) ∧
    (∀ p k, 0 < k → vverify hn n pf (p + k * 2^(log2Ceil n)) leaf rt = false) := by
  have hle := le_pow_log2Ceil n hn0
  refine ⟨fun i hi => C16_vortex_rejects_out_of_range hn n pf i leaf rt (Or.inl (by omega)), fun p k hk => ?_⟩
  refine C16_vortex_rejects_out_of_range hn n pf _ leaf rt (Or.inl ?_)
  have : 2^(log2Ceil n) ≤ k * 2^(log2Ceil n) := Nat.le_mul_of_pos_left _ hk
  omega

/-- `Open` refuses exactly the indices `≥ 2^depth` -/
theorem C16_vortex_open_range (leaves : List D) (i : Nat) :
    (vopen hn zero leaves i).isSome = decide (i < 2^(log2Ceil leaves.length)) := by
  unfold vopen
  by_cases h : i ≥ 2^(log2Ceil leaves.length)
  · rw [if_pos h]; simp; omega
  · rw [if_neg h]; simp; omega

/-- what the Go verifier (no range check, no length check) guarantees: only the `|proof|` low bits of the index count.
    In particular `Verify(i + k·2^depth, …)` accepts whatever `Verify(i, …)` accepts: the out-of-range rejection
    demanded by the property does NOT hold for `MerkleProof.Verify` as written. -/
theorem C16_vortex_go_ignores_high_index_bits (pf : List D) (i k : Nat) (leaf rt : D) :
    vverifyGo hn pf (i + k * 2^pf.length) leaf rt = vverifyGo hn pf i leaf rt := by
  unfold vverifyGo
  rw [← vfold_mod hn pf (i + k * 2^pf.length), Nat.add_mul_mod_self_right, vfold_mod]

/-- soundness of the Go verifier when the caller supplies a proof of the right length: position `i mod 2^depth` of
    the padded tree -/
theorem C16_vortex_go_sound_mod (hinj : ∀ a b c e, hn a b = hn c e → a = c ∧ b = e) (leaves : List D) (hne : leaves ≠ [])
    (pf : List D) (i : Nat) (leaf : D) (hlen : pf.length = log2Ceil leaves.length)
    (hv : vverifyGo hn pf i leaf (vroot hn zero leaves) = true) :
    leaf = (padded zero leaves).getD (i % 2^(log2Ceil leaves.length)) zero ∧
      vopen hn zero leaves (i % 2^(log2Ceil leaves.length)) = some pf := by
  simp only [vverifyGo, beq_iff_eq] at hv
  rw [← vfold_mod, hlen, vroot_eq] at hv
  have hlt : i % 2^(log2Ceil leaves.length) < 2^(log2Ceil leaves.length) := Nat.mod_lt _ (Nat.two_pow_pos _)
  obtain ⟨h1, h2⟩ := vfold_sound hn zero hinj _ _ _ leaf pf (padded_length zero leaves hne) hlt hlen hv
  refine ⟨h1, ?_⟩
  unfold vopen; rw [if_neg (by omega), h2]; rfl

end Vortex

/-! ### readers that deliver the stream in pieces (`Model/Merkle.lean` `Rd`, `readFull`) -/

theorem flatten_dropWhile_isEmpty (l : List Bytes) : (l.dropWhile (·.isEmpty)).flatten = l.flatten := by
  induction l with
  | nil => rfl
  | cons a l ih =>
    by_cases h : a.isEmpty = true
    · have ha : a = [] := List.isEmpty_iff.mp h
      subst ha
      simpa [List.dropWhile] using ih
    · simp [List.dropWhile, h]

/-- a `Read` delivers a prefix of what is still to come, at most `req` bytes, and leaves the rest: nothing is lost, duplicated
or reordered, whatever the pieces and the policy of the reader -/
theorem C16_read_conserves (r : Rd) (req : Nat) (b : Bytes) (r' : Rd) (h : r.read req = some (b, r')) :
    b ++ r'.flat = r.flat ∧ b.length ≤ req := by
  unfold Rd.read at h
  have hf := flatten_dropWhile_isEmpty r.pieces
  split at h
  · cases h
  · rename_i c rest hc
    simp only [Option.some.injEq, Prod.mk.injEq] at h
    obtain ⟨hb, hr⟩ := h
    subst hb; subst hr
    rw [hc] at hf
    constructor
    · simp only [Rd.flat, List.flatten_cons] at hf ⊢
      rw [← hf, ← List.append_assoc, List.take_append_drop]
    · simp only [List.length_take]; omega

/-- `io.ReadFull` through ANY reader: the bytes collected followed by the bytes still to come are the stream, and at most
`need` bytes are added: the segments `ReadAll` cuts do not depend on how the reader delivers the stream -/
theorem C16_readFull_conserves (fuel : Nat) (r : Rd) (need : Nat) (acc : Bytes) :
    (readFull fuel r need acc).1 ++ (readFull fuel r need acc).2.1.flat = acc ++ r.flat ∧
    (readFull fuel r need acc).1.length ≤ acc.length + need := by
  induction fuel generalizing r need acc with
  | zero => simp [readFull]
  | succ f ih =>
    unfold readFull
    by_cases hn : need = 0
    · simp [hn]
    · simp only [hn, if_false]
      cases hrd : r.read need with
      | none => simp
      | some p =>
        obtain ⟨b, r'⟩ := p
        obtain ⟨h1, h2⟩ := C16_read_conserves r need b r' hrd
        obtain ⟨i1, i2⟩ := ih r' (need - b.length) (acc ++ b)
        simp only
        constructor
        · rw [i1, List.append_assoc, h1]
        · simp only [List.length_append] at i2; omega


end GV.Merkle
