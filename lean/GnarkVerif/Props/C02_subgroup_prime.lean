/- WRITTEN by bin/mkc02sub.py. DO NOT EDIT. -/
import GnarkVerif.Proofs.CurveGen
import GnarkVerif.Gen.Curve.Bn254
import GnarkVerif.Gen.Curve.Secp256k1
import GnarkVerif.Gen.Curve.Grumpkin
import GnarkVerif.Gen.Curve.Stark_curve
/- C02 (tie T) — the prime-order groups (bn254 G1, secp256k1, grumpkin, stark-curve): the translated `IsInSubGroup` IS the
   translated `IsOnCurve` (definitional: the Go text is `return p.IsOnCurve()`), whose SPEC is `C02gen_G1Jac_IsOnCurve`. -/
namespace GV.Gen.Curve.bn254

/-! ## prime-order group: `IsInSubGroup` is `IsOnCurve` (exact given that the group of points has prime order r) -/
section prime
variable {F : Type} [Field F] [DecidableEq F]
theorem C02sub_G1Jac_IsInSubGroup_eq (p : G1Jac F) : G1Jac.IsInSubGroup p = G1Jac.IsOnCurve p := rfl
theorem C02sub_G1Affine_IsInSubGroup_eq (p : G1Affine F) (b : F) : G1Affine.IsInSubGroup p b = G1Affine.IsOnCurve p b := rfl
end prime
end GV.Gen.Curve.bn254

namespace GV.Gen.Curve.secp256k1

/-! ## prime-order group: `IsInSubGroup` is `IsOnCurve` (exact given that the group of points has prime order r) -/
section prime
variable {F : Type} [Field F] [DecidableEq F]
theorem C02sub_G1Jac_IsInSubGroup_eq (p : G1Jac F) (b : F) : G1Jac.IsInSubGroup p b = G1Jac.IsOnCurve p b := rfl
theorem C02sub_G1Affine_IsInSubGroup_eq (p : G1Affine F) (b : F) : G1Affine.IsInSubGroup p b = G1Jac.IsOnCurve (G1Jac.FromAffine p).1 b := rfl
end prime
end GV.Gen.Curve.secp256k1

namespace GV.Gen.Curve.grumpkin

/-! ## prime-order group: `IsInSubGroup` is `IsOnCurve` (exact given that the group of points has prime order r) -/
section prime
variable {F : Type} [Field F] [DecidableEq F]
theorem C02sub_G1Jac_IsInSubGroup_eq (p : G1Jac F) (b : F) : G1Jac.IsInSubGroup p b = G1Jac.IsOnCurve p b := rfl
theorem C02sub_G1Affine_IsInSubGroup_eq (p : G1Affine F) (b : F) : G1Affine.IsInSubGroup p b = G1Jac.IsOnCurve (G1Jac.FromAffine p).1 b := rfl
end prime
end GV.Gen.Curve.grumpkin

namespace GV.Gen.Curve.stark_curve

/-! ## prime-order group: `IsInSubGroup` is `IsOnCurve` (exact given that the group of points has prime order r) -/
section prime
variable {F : Type} [Field F] [DecidableEq F]
theorem C02sub_G1Jac_IsInSubGroup_eq (p : G1Jac F) (b : F) : G1Jac.IsInSubGroup p b = G1Jac.IsOnCurve p b := rfl
theorem C02sub_G1Affine_IsInSubGroup_eq (p : G1Affine F) (b : F) : G1Affine.IsInSubGroup p b = G1Jac.IsOnCurve (G1Jac.FromAffine p).1 b := rfl
end prime
end GV.Gen.Curve.stark_curve

