/- INSTANTIATED by bin/mkc11gen.py (one proof template for the 7 packages). DO NOT EDIT: edit the script and re-run it. -/
import GnarkVerif.Proofs.VerifierGen
import GnarkVerif.Gen.Verifier.Kzg_bw6_633
import Mathlib.Algebra.Group.Basic
import Mathlib.Algebra.Ring.Defs
import Mathlib.Tactic.Abel
import Mathlib.Tactic.Ring
/-
C11, tie T for the group-level code of ecc/bw6-633/kzg/kzg.go: Verify, fold, FoldProof, BatchVerifySinglePoint (1..4 digests),
BatchVerifyMultiPoints (1..3 claims) as REGENERATED from the Go text (Gen/Verifier/Kzg_bw6_633.lean).
`_ex` / unmarked theorems: the generated def, read in the exponent model (`Proofs/VerifierGen.lean`: G = S = naturals mod r,
[s]P = s·P, PairingCheckFixedQ [A, B] vk.Lines = (A·g2₀ + B·g2₁ ≡ 0)), EQUALS the hand model `Model/KZG.lean` on every input, so every
theorem of Props/C11.lean about `verify` / `foldProof` / `batchVerifySinglePoint` / `batchVerifyMultiPoints` holds of the translated text.
`_abstract` theorems: the same defs over ANY commutative group and ANY pairing check compute the textbook operands.
-/
set_option linter.unusedSectionVars false
set_option linter.unusedVariables false
set_option linter.unusedSimpArgs false
set_option linter.unusedTactic false
set_option linter.unreachableTactic false

open GV.KZG GV.Gen.Verifier GV.VerifierGen
namespace GV.C11gen
variable (r : ℕ) [NeZero r]

/-- `kzg.Verify` as the Go text computes it, read in the exponent model, IS `Model.KZG.verify` (every input) -/
theorem C11gen_bw6_633_verify_ex (c H v z g1 : Ex r) (l : ℕ × ℕ) (q0 q1 : Unit) :
    kzg_bw6_633.Verify (G := Ex r) (G2 := Unit) (S := Ex r) (L := ℕ × ℕ) Ex.toInt (pcFixed r) c H v z q0 q1 g1 l
      = resOfBool (verify r ⟨g1.v, l⟩ c.v H.v v.v z.v) := by
  have h : pcFixed r [(Ex.toInt v • g1 + Ex.toInt (-z) • H) - c, H] l = verify r ⟨g1.v, l⟩ c.v H.v v.v z.v := rfl
  simp only [kzg_bw6_633.Verify, h, resOfBool, Res.errVerify]
  cases verify r ⟨g1.v, l⟩ c.v H.v v.v z.v <;> rfl

/-- the same with natural-number arguments and a model verifying key: generated `Verify` = `Model.KZG.verify` -/
theorem C11gen_bw6_633_verify (vk : VK) (c H v z : ℕ) :
    kzg_bw6_633.Verify (G := Ex r) (G2 := Unit) (S := Ex r) (L := ℕ × ℕ) Ex.toInt (pcFixed r) ⟨c⟩ ⟨H⟩ ⟨v⟩ ⟨z⟩ () () ⟨vk.g1⟩ vk.g2
      = resOfBool (verify r vk c H v z) := C11gen_bw6_633_verify_ex r ⟨c⟩ ⟨H⟩ ⟨v⟩ ⟨z⟩ ⟨vk.g1⟩ vk.g2 () ()

/-- exact acceptance (C11_verify_iff) now holds of the translated Go text: with the key of trapdoor τ the generated
`Verify` returns nil iff `c − v = (τ − z)·H` in `ZMod r` -/
theorem C11gen_bw6_633_verify_iff (τ c H v z : ℕ) :
    kzg_bw6_633.Verify (G := Ex r) (G2 := Unit) (S := Ex r) (L := ℕ × ℕ) Ex.toInt (pcFixed r) ⟨c⟩ ⟨H⟩ ⟨v⟩ ⟨z⟩ () () ⟨(vkOf r τ).g1⟩ (vkOf r τ).g2 = Res.ok
      ↔ (c : ZMod r) - v = ((τ : ZMod r) - z) * H := by
  rw [C11gen_bw6_633_verify, resOfBool_ok]
  exact verify_iff r τ c H v z

/-- "the code computes the textbook check", no exponent model: for ANY additive commutative group `G`, any scalar type, any
`toInt` and ANY pairing check, the generated `Verify` returns nil iff the check holds of `[v]G₁ + [−z]H − C` and `H` -/
theorem C11gen_bw6_633_verify_abstract {G G2 S L : Type} [AddCommGroup G] [CommRing S] [BEq G2]
    (toInt : S → Int) (pcf : List G → L → Bool) (C H g1 : G) (v z : S) (q0 q1 : G2) (lines : L) :
    kzg_bw6_633.Verify toInt pcf C H v z q0 q1 g1 lines = Res.ok ↔
      pcf [toInt v • g1 + toInt (-z) • H - C, H] lines = true := by
  simp only [kzg_bw6_633.Verify]
  cases pcf [toInt v • g1 + toInt (-z) • H - C, H] lines <;> simp

/-- the only error the generated `Verify` returns is ErrVerifyOpeningProof -/
theorem C11gen_bw6_633_verify_errors {G G2 S L : Type} [AddCommGroup G] [CommRing S] [BEq G2]
    (toInt : S → Int) (pcf : List G → L → Bool) (C H g1 : G) (v z : S) (q0 q1 : G2) (lines : L) :
    kzg_bw6_633.Verify toInt pcf C H v z q0 q1 g1 lines = Res.ok ∨
      kzg_bw6_633.Verify toInt pcf C H v z q0 q1 g1 lines = Res.errVerify := by
  simp only [kzg_bw6_633.Verify, Res.errVerify]
  cases pcf [toInt v • g1 + toInt (-z) • H - C, H] lines <;> simp

/-- the empty batch: `FoldProof` / `BatchVerifySinglePoint` answer ErrZeroNbDigests = the model (`C11_batchSingle_empty`) -/
theorem C11gen_bw6_633_batchSingle_k0 (γ : ℕ) (H z g1 : Ex r) (l : ℕ × ℕ) (q0 q1 : Unit) :
    (kzg_bw6_633.FoldProof_k0 (G := Ex r) (G2 := Unit) (S := Ex r) (L := ℕ × ℕ) Ex.toInt H z).2.2.2 = Res.err "ErrZeroNbDigests" ∧
    kzg_bw6_633.BatchVerifySinglePoint_k0 (G := Ex r) (G2 := Unit) (S := Ex r) (L := ℕ × ℕ) Ex.toInt (pcFixed r) H z q0 q1 g1 l
      = resOfVerdict (batchVerifySinglePoint r γ ⟨g1.v, l⟩ [] H.v [] z.v) := by
  constructor
  · rfl
  · simp [kzg_bw6_633.BatchVerifySinglePoint_k0, kzg_bw6_633.FoldProof_k0, batchVerifySinglePoint, foldProof, resOfVerdict]

/-- no claims: `BatchVerifyMultiPoints` answers ErrZeroNbDigests = the model -/
theorem C11gen_bw6_633_multi_k0 (lams : List ℕ) (g1 : Ex r) (l : ℕ × ℕ) (q0 q1 : Unit) :
    kzg_bw6_633.BatchVerifyMultiPoints_k0 (G := Ex r) (G2 := Unit) (S := Ex r) (L := ℕ × ℕ) Ex.toInt q0 q1 g1 l
      = resOfVerdict (batchVerifyMultiPoints r ⟨g1.v, l⟩ lams [] [] []) := by
  simp [kzg_bw6_633.BatchVerifyMultiPoints_k0, batchVerifyMultiPoints, resOfVerdict]

/-- `fold` on 1 digests = `Model.KZG.fold` -/
theorem C11gen_bw6_633_fold_k1_ex (d0 f0 c0 : Ex r) :
    kzg_bw6_633.fold_k1 (G := Ex r) (G2 := Unit) (S := Ex r) (L := ℕ × ℕ) Ex.toInt d0 f0 c0
      = (⟨(fold r [d0.v] [f0.v] [c0.v]).1⟩, ⟨(fold r [d0.v] [f0.v] [c0.v]).2⟩, Res.ok) := by
  refine Prod.ext rfl (Prod.ext ?_ rfl)
  apply Ex.ext
  simp only [kzg_bw6_633.fold_k1, fold, msm, add_v, mul_v, zero_v]
  ex_nat_eq r

/-- `fold` on 1 digests returns (Σ [cᵢ]dᵢ, Σ fᵢ·cᵢ, nil) in every commutative group / ring -/
theorem C11gen_bw6_633_fold_k1_abstract {G G2 S L : Type} [AddCommGroup G] [CommRing S] [BEq G2] (toInt : S → Int)
    (d0 : G) (f0 c0 : S) :
    kzg_bw6_633.fold_k1 (G2 := G2) (L := L) toInt d0 f0 c0
      = (toInt c0 • d0, f0 * c0, Res.ok) := by
  simp only [kzg_bw6_633.fold_k1, add_zero, zero_add, add_assoc]

/-- `FoldProof` on 1 digests (γ = what deriveGamma returned, no transcript error) = `Model.KZG.foldProof` -/
theorem C11gen_bw6_633_foldProof_k1 (γ : ℕ) (d0 H v0 z : Ex r) :
    foldProof r γ [d0.v] H.v [v0.v] = .ok (H.v % r, (fold r [d0.v] [v0.v] (gammaPowers r γ 1)).2, (fold r [d0.v] [v0.v] (gammaPowers r γ 1)).1) ∧
    kzg_bw6_633.FoldProof_k1 (G := Ex r) (G2 := Unit) (S := Ex r) (L := ℕ × ℕ) Ex.toInt (fun _ _ _ => ⟨γ⟩) false d0 H v0 z
      = (H, ⟨(fold r [d0.v] [v0.v] (gammaPowers r γ 1)).2⟩, ⟨(fold r [d0.v] [v0.v] (gammaPowers r γ 1)).1⟩, Res.ok) := by
  constructor
  · simp [foldProof]
  · simp only [kzg_bw6_633.FoldProof_k1, C11gen_bw6_633_fold_k1_ex]
    simp only [Bool.false_eq_true, if_false, bne_self_eq_false]
    refine Prod.ext rfl (Prod.ext ?_ (Prod.ext ?_ rfl)) <;> apply Ex.ext <;>
      simp only [fold, msm, gammaPowers, powers, one_v, mul_v] <;> ex_nat_eq r

/-- a transcript error in deriveGamma makes `FoldProof` return ErrInvalidNbDigests (as the Go text says) -/
theorem C11gen_bw6_633_foldProof_k1_gammaErr {G G2 S L : Type} [AddCommGroup G] [CommRing S] [BEq G2] (toInt : S → Int)
    (dg : S → List G → List S → S) (d0 H : G) (v0 z : S) :
    (kzg_bw6_633.FoldProof_k1 (G2 := G2) (L := L) toInt dg true d0 H v0 z).2.2.2 = Res.err "ErrInvalidNbDigests" := by
  simp only [kzg_bw6_633.FoldProof_k1, if_true]

/-- `BatchVerifySinglePoint` on 1 digests = `Model.KZG.batchVerifySinglePoint` (same γ) -/
theorem C11gen_bw6_633_batchSingle_k1 (γ : ℕ) (d0 H v0 z g1 : Ex r) (l : ℕ × ℕ) (q0 q1 : Unit) :
    kzg_bw6_633.BatchVerifySinglePoint_k1 (G := Ex r) (G2 := Unit) (S := Ex r) (L := ℕ × ℕ) Ex.toInt (fun _ _ _ => ⟨γ⟩) false (pcFixed r) d0 H v0 z q0 q1 g1 l
      = resOfVerdict (batchVerifySinglePoint r γ ⟨g1.v, l⟩ [d0.v] H.v [v0.v] z.v) := by
  simp only [kzg_bw6_633.BatchVerifySinglePoint_k1, (C11gen_bw6_633_foldProof_k1 r γ d0 H v0 z).2, batchVerifySinglePoint,
    (C11gen_bw6_633_foldProof_k1 r γ d0 H v0 z).1, bne_self_eq_false, Bool.false_eq_true, if_false,
    C11gen_bw6_633_verify_ex, resOfVerdict]
  congr 1
  apply verify_congr <;> ex_cast_eq

/-- abstract level: `BatchVerifySinglePoint` on 1 digests is `Verify` of the folded digest Σ [γⁱ]dᵢ and folded value Σ vᵢ·γⁱ, γ = deriveGamma(point, digests, values) -/
theorem C11gen_bw6_633_batchSingle_k1_abstract {G G2 S L : Type} [AddCommGroup G] [CommRing S] [BEq G2] (toInt : S → Int)
    (pcf : List G → L → Bool) (dg : S → List G → List S → S) (d0 H g1 : G) (v0 z : S) (q0 q1 : G2) (lines : L) :
    kzg_bw6_633.BatchVerifySinglePoint_k1 toInt dg false pcf d0 H v0 z q0 q1 g1 lines
      = (let γ := dg z [d0] [v0]
         kzg_bw6_633.Verify toInt pcf (toInt 1 • d0) H (v0 * 1) z q0 q1 g1 lines) := by
  simp only [kzg_bw6_633.BatchVerifySinglePoint_k1, kzg_bw6_633.FoldProof_k1, C11gen_bw6_633_fold_k1_abstract, Bool.false_eq_true, if_false,
    bne_self_eq_false]

/-- `fold` on 2 digests = `Model.KZG.fold` -/
theorem C11gen_bw6_633_fold_k2_ex (d0 d1 f0 f1 c0 c1 : Ex r) :
    kzg_bw6_633.fold_k2 (G := Ex r) (G2 := Unit) (S := Ex r) (L := ℕ × ℕ) Ex.toInt d0 d1 f0 f1 c0 c1
      = (⟨(fold r [d0.v, d1.v] [f0.v, f1.v] [c0.v, c1.v]).1⟩, ⟨(fold r [d0.v, d1.v] [f0.v, f1.v] [c0.v, c1.v]).2⟩, Res.ok) := by
  refine Prod.ext rfl (Prod.ext ?_ rfl)
  apply Ex.ext
  simp only [kzg_bw6_633.fold_k2, fold, msm, add_v, mul_v, zero_v]
  ex_nat_eq r

/-- `fold` on 2 digests returns (Σ [cᵢ]dᵢ, Σ fᵢ·cᵢ, nil) in every commutative group / ring -/
theorem C11gen_bw6_633_fold_k2_abstract {G G2 S L : Type} [AddCommGroup G] [CommRing S] [BEq G2] (toInt : S → Int)
    (d0 d1 : G) (f0 f1 c0 c1 : S) :
    kzg_bw6_633.fold_k2 (G2 := G2) (L := L) toInt d0 d1 f0 f1 c0 c1
      = (toInt c0 • d0 + toInt c1 • d1, f0 * c0 + f1 * c1, Res.ok) := by
  simp only [kzg_bw6_633.fold_k2, add_zero, zero_add, add_assoc]

/-- `FoldProof` on 2 digests (γ = what deriveGamma returned, no transcript error) = `Model.KZG.foldProof` -/
theorem C11gen_bw6_633_foldProof_k2 (γ : ℕ) (d0 d1 H v0 v1 z : Ex r) :
    foldProof r γ [d0.v, d1.v] H.v [v0.v, v1.v] = .ok (H.v % r, (fold r [d0.v, d1.v] [v0.v, v1.v] (gammaPowers r γ 2)).2, (fold r [d0.v, d1.v] [v0.v, v1.v] (gammaPowers r γ 2)).1) ∧
    kzg_bw6_633.FoldProof_k2 (G := Ex r) (G2 := Unit) (S := Ex r) (L := ℕ × ℕ) Ex.toInt (fun _ _ _ => ⟨γ⟩) false d0 d1 H v0 v1 z
      = (H, ⟨(fold r [d0.v, d1.v] [v0.v, v1.v] (gammaPowers r γ 2)).2⟩, ⟨(fold r [d0.v, d1.v] [v0.v, v1.v] (gammaPowers r γ 2)).1⟩, Res.ok) := by
  constructor
  · simp [foldProof]
  · simp only [kzg_bw6_633.FoldProof_k2, C11gen_bw6_633_fold_k2_ex]
    simp only [Bool.false_eq_true, if_false, bne_self_eq_false]
    refine Prod.ext rfl (Prod.ext ?_ (Prod.ext ?_ rfl)) <;> apply Ex.ext <;>
      simp only [fold, msm, gammaPowers, powers, one_v, mul_v] <;> ex_nat_eq r

/-- a transcript error in deriveGamma makes `FoldProof` return ErrInvalidNbDigests (as the Go text says) -/
theorem C11gen_bw6_633_foldProof_k2_gammaErr {G G2 S L : Type} [AddCommGroup G] [CommRing S] [BEq G2] (toInt : S → Int)
    (dg : S → List G → List S → S) (d0 d1 H : G) (v0 v1 z : S) :
    (kzg_bw6_633.FoldProof_k2 (G2 := G2) (L := L) toInt dg true d0 d1 H v0 v1 z).2.2.2 = Res.err "ErrInvalidNbDigests" := by
  simp only [kzg_bw6_633.FoldProof_k2, if_true]

/-- `BatchVerifySinglePoint` on 2 digests = `Model.KZG.batchVerifySinglePoint` (same γ) -/
theorem C11gen_bw6_633_batchSingle_k2 (γ : ℕ) (d0 d1 H v0 v1 z g1 : Ex r) (l : ℕ × ℕ) (q0 q1 : Unit) :
    kzg_bw6_633.BatchVerifySinglePoint_k2 (G := Ex r) (G2 := Unit) (S := Ex r) (L := ℕ × ℕ) Ex.toInt (fun _ _ _ => ⟨γ⟩) false (pcFixed r) d0 d1 H v0 v1 z q0 q1 g1 l
      = resOfVerdict (batchVerifySinglePoint r γ ⟨g1.v, l⟩ [d0.v, d1.v] H.v [v0.v, v1.v] z.v) := by
  simp only [kzg_bw6_633.BatchVerifySinglePoint_k2, (C11gen_bw6_633_foldProof_k2 r γ d0 d1 H v0 v1 z).2, batchVerifySinglePoint,
    (C11gen_bw6_633_foldProof_k2 r γ d0 d1 H v0 v1 z).1, bne_self_eq_false, Bool.false_eq_true, if_false,
    C11gen_bw6_633_verify_ex, resOfVerdict]
  congr 1
  apply verify_congr <;> ex_cast_eq

/-- abstract level: `BatchVerifySinglePoint` on 2 digests is `Verify` of the folded digest Σ [γⁱ]dᵢ and folded value Σ vᵢ·γⁱ, γ = deriveGamma(point, digests, values) -/
theorem C11gen_bw6_633_batchSingle_k2_abstract {G G2 S L : Type} [AddCommGroup G] [CommRing S] [BEq G2] (toInt : S → Int)
    (pcf : List G → L → Bool) (dg : S → List G → List S → S) (d0 d1 H g1 : G) (v0 v1 z : S) (q0 q1 : G2) (lines : L) :
    kzg_bw6_633.BatchVerifySinglePoint_k2 toInt dg false pcf d0 d1 H v0 v1 z q0 q1 g1 lines
      = (let γ := dg z [d0, d1] [v0, v1]
         kzg_bw6_633.Verify toInt pcf (toInt 1 • d0 + toInt γ • d1) H (v0 * 1 + v1 * γ) z q0 q1 g1 lines) := by
  simp only [kzg_bw6_633.BatchVerifySinglePoint_k2, kzg_bw6_633.FoldProof_k2, C11gen_bw6_633_fold_k2_abstract, Bool.false_eq_true, if_false,
    bne_self_eq_false]

/-- `fold` on 3 digests = `Model.KZG.fold` -/
theorem C11gen_bw6_633_fold_k3_ex (d0 d1 d2 f0 f1 f2 c0 c1 c2 : Ex r) :
    kzg_bw6_633.fold_k3 (G := Ex r) (G2 := Unit) (S := Ex r) (L := ℕ × ℕ) Ex.toInt d0 d1 d2 f0 f1 f2 c0 c1 c2
      = (⟨(fold r [d0.v, d1.v, d2.v] [f0.v, f1.v, f2.v] [c0.v, c1.v, c2.v]).1⟩, ⟨(fold r [d0.v, d1.v, d2.v] [f0.v, f1.v, f2.v] [c0.v, c1.v, c2.v]).2⟩, Res.ok) := by
  refine Prod.ext rfl (Prod.ext ?_ rfl)
  apply Ex.ext
  simp only [kzg_bw6_633.fold_k3, fold, msm, add_v, mul_v, zero_v]
  ex_nat_eq r

/-- `fold` on 3 digests returns (Σ [cᵢ]dᵢ, Σ fᵢ·cᵢ, nil) in every commutative group / ring -/
theorem C11gen_bw6_633_fold_k3_abstract {G G2 S L : Type} [AddCommGroup G] [CommRing S] [BEq G2] (toInt : S → Int)
    (d0 d1 d2 : G) (f0 f1 f2 c0 c1 c2 : S) :
    kzg_bw6_633.fold_k3 (G2 := G2) (L := L) toInt d0 d1 d2 f0 f1 f2 c0 c1 c2
      = (toInt c0 • d0 + toInt c1 • d1 + toInt c2 • d2, f0 * c0 + f1 * c1 + f2 * c2, Res.ok) := by
  simp only [kzg_bw6_633.fold_k3, add_zero, zero_add, add_assoc]

/-- `FoldProof` on 3 digests (γ = what deriveGamma returned, no transcript error) = `Model.KZG.foldProof` -/
theorem C11gen_bw6_633_foldProof_k3 (γ : ℕ) (d0 d1 d2 H v0 v1 v2 z : Ex r) :
    foldProof r γ [d0.v, d1.v, d2.v] H.v [v0.v, v1.v, v2.v] = .ok (H.v % r, (fold r [d0.v, d1.v, d2.v] [v0.v, v1.v, v2.v] (gammaPowers r γ 3)).2, (fold r [d0.v, d1.v, d2.v] [v0.v, v1.v, v2.v] (gammaPowers r γ 3)).1) ∧
    kzg_bw6_633.FoldProof_k3 (G := Ex r) (G2 := Unit) (S := Ex r) (L := ℕ × ℕ) Ex.toInt (fun _ _ _ => ⟨γ⟩) false d0 d1 d2 H v0 v1 v2 z
      = (H, ⟨(fold r [d0.v, d1.v, d2.v] [v0.v, v1.v, v2.v] (gammaPowers r γ 3)).2⟩, ⟨(fold r [d0.v, d1.v, d2.v] [v0.v, v1.v, v2.v] (gammaPowers r γ 3)).1⟩, Res.ok) := by
  constructor
  · simp [foldProof]
  · simp only [kzg_bw6_633.FoldProof_k3, C11gen_bw6_633_fold_k3_ex]
    simp only [Bool.false_eq_true, if_false, bne_self_eq_false]
    refine Prod.ext rfl (Prod.ext ?_ (Prod.ext ?_ rfl)) <;> apply Ex.ext <;>
      simp only [fold, msm, gammaPowers, powers, one_v, mul_v] <;> ex_nat_eq r

/-- a transcript error in deriveGamma makes `FoldProof` return ErrInvalidNbDigests (as the Go text says) -/
theorem C11gen_bw6_633_foldProof_k3_gammaErr {G G2 S L : Type} [AddCommGroup G] [CommRing S] [BEq G2] (toInt : S → Int)
    (dg : S → List G → List S → S) (d0 d1 d2 H : G) (v0 v1 v2 z : S) :
    (kzg_bw6_633.FoldProof_k3 (G2 := G2) (L := L) toInt dg true d0 d1 d2 H v0 v1 v2 z).2.2.2 = Res.err "ErrInvalidNbDigests" := by
  simp only [kzg_bw6_633.FoldProof_k3, if_true]

/-- `BatchVerifySinglePoint` on 3 digests = `Model.KZG.batchVerifySinglePoint` (same γ) -/
theorem C11gen_bw6_633_batchSingle_k3 (γ : ℕ) (d0 d1 d2 H v0 v1 v2 z g1 : Ex r) (l : ℕ × ℕ) (q0 q1 : Unit) :
    kzg_bw6_633.BatchVerifySinglePoint_k3 (G := Ex r) (G2 := Unit) (S := Ex r) (L := ℕ × ℕ) Ex.toInt (fun _ _ _ => ⟨γ⟩) false (pcFixed r) d0 d1 d2 H v0 v1 v2 z q0 q1 g1 l
      = resOfVerdict (batchVerifySinglePoint r γ ⟨g1.v, l⟩ [d0.v, d1.v, d2.v] H.v [v0.v, v1.v, v2.v] z.v) := by
  simp only [kzg_bw6_633.BatchVerifySinglePoint_k3, (C11gen_bw6_633_foldProof_k3 r γ d0 d1 d2 H v0 v1 v2 z).2, batchVerifySinglePoint,
    (C11gen_bw6_633_foldProof_k3 r γ d0 d1 d2 H v0 v1 v2 z).1, bne_self_eq_false, Bool.false_eq_true, if_false,
    C11gen_bw6_633_verify_ex, resOfVerdict]
  congr 1
  apply verify_congr <;> ex_cast_eq

/-- abstract level: `BatchVerifySinglePoint` on 3 digests is `Verify` of the folded digest Σ [γⁱ]dᵢ and folded value Σ vᵢ·γⁱ, γ = deriveGamma(point, digests, values) -/
theorem C11gen_bw6_633_batchSingle_k3_abstract {G G2 S L : Type} [AddCommGroup G] [CommRing S] [BEq G2] (toInt : S → Int)
    (pcf : List G → L → Bool) (dg : S → List G → List S → S) (d0 d1 d2 H g1 : G) (v0 v1 v2 z : S) (q0 q1 : G2) (lines : L) :
    kzg_bw6_633.BatchVerifySinglePoint_k3 toInt dg false pcf d0 d1 d2 H v0 v1 v2 z q0 q1 g1 lines
      = (let γ := dg z [d0, d1, d2] [v0, v1, v2]
         kzg_bw6_633.Verify toInt pcf (toInt 1 • d0 + toInt γ • d1 + toInt (γ * γ) • d2) H (v0 * 1 + v1 * γ + v2 * (γ * γ)) z q0 q1 g1 lines) := by
  simp only [kzg_bw6_633.BatchVerifySinglePoint_k3, kzg_bw6_633.FoldProof_k3, C11gen_bw6_633_fold_k3_abstract, Bool.false_eq_true, if_false,
    bne_self_eq_false]

/-- `fold` on 4 digests = `Model.KZG.fold` -/
theorem C11gen_bw6_633_fold_k4_ex (d0 d1 d2 d3 f0 f1 f2 f3 c0 c1 c2 c3 : Ex r) :
    kzg_bw6_633.fold_k4 (G := Ex r) (G2 := Unit) (S := Ex r) (L := ℕ × ℕ) Ex.toInt d0 d1 d2 d3 f0 f1 f2 f3 c0 c1 c2 c3
      = (⟨(fold r [d0.v, d1.v, d2.v, d3.v] [f0.v, f1.v, f2.v, f3.v] [c0.v, c1.v, c2.v, c3.v]).1⟩, ⟨(fold r [d0.v, d1.v, d2.v, d3.v] [f0.v, f1.v, f2.v, f3.v] [c0.v, c1.v, c2.v, c3.v]).2⟩, Res.ok) := by
  refine Prod.ext rfl (Prod.ext ?_ rfl)
  apply Ex.ext
  simp only [kzg_bw6_633.fold_k4, fold, msm, add_v, mul_v, zero_v]
  ex_nat_eq r

/-- `fold` on 4 digests returns (Σ [cᵢ]dᵢ, Σ fᵢ·cᵢ, nil) in every commutative group / ring -/
theorem C11gen_bw6_633_fold_k4_abstract {G G2 S L : Type} [AddCommGroup G] [CommRing S] [BEq G2] (toInt : S → Int)
    (d0 d1 d2 d3 : G) (f0 f1 f2 f3 c0 c1 c2 c3 : S) :
    kzg_bw6_633.fold_k4 (G2 := G2) (L := L) toInt d0 d1 d2 d3 f0 f1 f2 f3 c0 c1 c2 c3
      = (toInt c0 • d0 + toInt c1 • d1 + toInt c2 • d2 + toInt c3 • d3, f0 * c0 + f1 * c1 + f2 * c2 + f3 * c3, Res.ok) := by
  simp only [kzg_bw6_633.fold_k4, add_zero, zero_add, add_assoc]

/-- `FoldProof` on 4 digests (γ = what deriveGamma returned, no transcript error) = `Model.KZG.foldProof` -/
theorem C11gen_bw6_633_foldProof_k4 (γ : ℕ) (d0 d1 d2 d3 H v0 v1 v2 v3 z : Ex r) :
    foldProof r γ [d0.v, d1.v, d2.v, d3.v] H.v [v0.v, v1.v, v2.v, v3.v] = .ok (H.v % r, (fold r [d0.v, d1.v, d2.v, d3.v] [v0.v, v1.v, v2.v, v3.v] (gammaPowers r γ 4)).2, (fold r [d0.v, d1.v, d2.v, d3.v] [v0.v, v1.v, v2.v, v3.v] (gammaPowers r γ 4)).1) ∧
    kzg_bw6_633.FoldProof_k4 (G := Ex r) (G2 := Unit) (S := Ex r) (L := ℕ × ℕ) Ex.toInt (fun _ _ _ => ⟨γ⟩) false d0 d1 d2 d3 H v0 v1 v2 v3 z
      = (H, ⟨(fold r [d0.v, d1.v, d2.v, d3.v] [v0.v, v1.v, v2.v, v3.v] (gammaPowers r γ 4)).2⟩, ⟨(fold r [d0.v, d1.v, d2.v, d3.v] [v0.v, v1.v, v2.v, v3.v] (gammaPowers r γ 4)).1⟩, Res.ok) := by
  constructor
  · simp [foldProof]
  · simp only [kzg_bw6_633.FoldProof_k4, C11gen_bw6_633_fold_k4_ex]
    simp only [Bool.false_eq_true, if_false, bne_self_eq_false]
    refine Prod.ext rfl (Prod.ext ?_ (Prod.ext ?_ rfl)) <;> apply Ex.ext <;>
      simp only [fold, msm, gammaPowers, powers, one_v, mul_v] <;> ex_nat_eq r

/-- a transcript error in deriveGamma makes `FoldProof` return ErrInvalidNbDigests (as the Go text says) -/
theorem C11gen_bw6_633_foldProof_k4_gammaErr {G G2 S L : Type} [AddCommGroup G] [CommRing S] [BEq G2] (toInt : S → Int)
    (dg : S → List G → List S → S) (d0 d1 d2 d3 H : G) (v0 v1 v2 v3 z : S) :
    (kzg_bw6_633.FoldProof_k4 (G2 := G2) (L := L) toInt dg true d0 d1 d2 d3 H v0 v1 v2 v3 z).2.2.2 = Res.err "ErrInvalidNbDigests" := by
  simp only [kzg_bw6_633.FoldProof_k4, if_true]

/-- `BatchVerifySinglePoint` on 4 digests = `Model.KZG.batchVerifySinglePoint` (same γ) -/
theorem C11gen_bw6_633_batchSingle_k4 (γ : ℕ) (d0 d1 d2 d3 H v0 v1 v2 v3 z g1 : Ex r) (l : ℕ × ℕ) (q0 q1 : Unit) :
    kzg_bw6_633.BatchVerifySinglePoint_k4 (G := Ex r) (G2 := Unit) (S := Ex r) (L := ℕ × ℕ) Ex.toInt (fun _ _ _ => ⟨γ⟩) false (pcFixed r) d0 d1 d2 d3 H v0 v1 v2 v3 z q0 q1 g1 l
      = resOfVerdict (batchVerifySinglePoint r γ ⟨g1.v, l⟩ [d0.v, d1.v, d2.v, d3.v] H.v [v0.v, v1.v, v2.v, v3.v] z.v) := by
  simp only [kzg_bw6_633.BatchVerifySinglePoint_k4, (C11gen_bw6_633_foldProof_k4 r γ d0 d1 d2 d3 H v0 v1 v2 v3 z).2, batchVerifySinglePoint,
    (C11gen_bw6_633_foldProof_k4 r γ d0 d1 d2 d3 H v0 v1 v2 v3 z).1, bne_self_eq_false, Bool.false_eq_true, if_false,
    C11gen_bw6_633_verify_ex, resOfVerdict]
  congr 1
  apply verify_congr <;> ex_cast_eq

/-- abstract level: `BatchVerifySinglePoint` on 4 digests is `Verify` of the folded digest Σ [γⁱ]dᵢ and folded value Σ vᵢ·γⁱ, γ = deriveGamma(point, digests, values) -/
theorem C11gen_bw6_633_batchSingle_k4_abstract {G G2 S L : Type} [AddCommGroup G] [CommRing S] [BEq G2] (toInt : S → Int)
    (pcf : List G → L → Bool) (dg : S → List G → List S → S) (d0 d1 d2 d3 H g1 : G) (v0 v1 v2 v3 z : S) (q0 q1 : G2) (lines : L) :
    kzg_bw6_633.BatchVerifySinglePoint_k4 toInt dg false pcf d0 d1 d2 d3 H v0 v1 v2 v3 z q0 q1 g1 lines
      = (let γ := dg z [d0, d1, d2, d3] [v0, v1, v2, v3]
         kzg_bw6_633.Verify toInt pcf (toInt 1 • d0 + toInt γ • d1 + toInt (γ * γ) • d2 + toInt ((γ * γ) * γ) • d3) H (v0 * 1 + v1 * γ + v2 * (γ * γ) + v3 * ((γ * γ) * γ)) z q0 q1 g1 lines) := by
  simp only [kzg_bw6_633.BatchVerifySinglePoint_k4, kzg_bw6_633.FoldProof_k4, C11gen_bw6_633_fold_k4_abstract, Bool.false_eq_true, if_false,
    bne_self_eq_false]

/-- `BatchVerifyMultiPoints` on one claim is `Verify` = the model's verdict (no random number is drawn) -/
theorem C11gen_bw6_633_multi_k1 (lams : List ℕ) (d0 h0 v0 z0 g1 : Ex r) (l : ℕ × ℕ) (q0 q1 : Unit) :
    kzg_bw6_633.BatchVerifyMultiPoints_k1 (G := Ex r) (G2 := Unit) (S := Ex r) (L := ℕ × ℕ) Ex.toInt (pcFixed r) d0 h0 v0 z0 q0 q1 g1 l
      = resOfVerdict (batchVerifyMultiPoints r ⟨g1.v, l⟩ lams [d0.v] [(h0.v, v0.v)] [z0.v]) := by
  simp only [kzg_bw6_633.BatchVerifyMultiPoints_k1, C11gen_bw6_633_verify_ex]
  simp [batchVerifyMultiPoints, resOfVerdict]

/-- `BatchVerifyMultiPoints` on 2 claims with the random numbers λ₁.. handed in (λ₀ = 1 is set by the code, whatever
`lam0` is; no randomness error) = `Model.KZG.batchVerifyMultiPoints` with the same λ -/
theorem C11gen_bw6_633_multi_k2 (lam0 lam1 : ℕ) (d0 d1 h0 v0 h1 v1 z0 z1 g1 : Ex r) (l : ℕ × ℕ) (q0 q1 : Unit) :
    kzg_bw6_633.BatchVerifyMultiPoints_k2 (G := Ex r) (G2 := Unit) (S := Ex r) (L := ℕ × ℕ) Ex.toInt ⟨lam1⟩ false (pcFixed r) d0 d1 h0 v0 h1 v1 z0 z1 q0 q1 g1 l
      = resOfVerdict (batchVerifyMultiPoints r ⟨g1.v, l⟩ [lam0, lam1] [d0.v, d1.v] [(h0.v, v0.v), (h1.v, v1.v)] [z0.v, z1.v]) := by
  simp only [kzg_bw6_633.BatchVerifyMultiPoints_k2, C11gen_bw6_633_fold_k2_ex, bne_self_eq_false, Bool.false_eq_true, if_false]
  simp [batchVerifyMultiPoints, multiFold, resOfVerdict, resOfBool, pcFixed, Res.errVerify]
  apply ite_verdict_congr
  apply pairingCheck2_congr <;> (simp only [fold, msm] <;> ex_cast_eq)

/-- abstract level, 2 claims: with λ₀ = 1 and the drawn λ₁.., the code accepts iff the pairing check holds of
`Σ[λᵢ]dᵢ − [Σ vᵢλᵢ]G₁ + Σ[λᵢzᵢ]Hᵢ` and `−Σ[λᵢ]Hᵢ` -/
theorem C11gen_bw6_633_multi_k2_abstract {G G2 S L : Type} [AddCommGroup G] [CommRing S] [BEq G2] (toInt : S → Int)
    (pcf : List G → L → Bool) (lam1 : S) (d0 d1 h0 h1 g1 : G) (v0 v1 z0 z1 : S) (q0 q1 : G2) (lines : L) :
    kzg_bw6_633.BatchVerifyMultiPoints_k2 toInt lam1 false pcf d0 d1 h0 v0 h1 v1 z0 z1 q0 q1 g1 lines = Res.ok ↔
      pcf [(toInt 1 • d0 + toInt lam1 • d1) - toInt (v0 * 1 + v1 * lam1) • g1
            + (toInt (1 * z0) • h0 + toInt (lam1 * z1) • h1),
           -(toInt 1 • h0 + toInt lam1 • h1)] lines = true := by
  simp only [kzg_bw6_633.BatchVerifyMultiPoints_k2, C11gen_bw6_633_fold_k2_abstract, Bool.false_eq_true, if_false, bne_self_eq_false,
    add_zero, add_assoc]
  cases pcf _ lines <;> simp

/-- a failing `SetRandom` makes the code return that error before anything is checked -/
theorem C11gen_bw6_633_multi_k2_rndErr {G G2 S L : Type} [AddCommGroup G] [CommRing S] [BEq G2] (toInt : S → Int)
    (pcf : List G → L → Bool) (lam1 : S) (d0 d1 h0 h1 g1 : G) (v0 v1 z0 z1 : S) (q0 q1 : G2) (lines : L) :
    kzg_bw6_633.BatchVerifyMultiPoints_k2 toInt lam1 true pcf d0 d1 h0 v0 h1 v1 z0 z1 q0 q1 g1 lines = Res.err "SetRandom" := by
  simp only [kzg_bw6_633.BatchVerifyMultiPoints_k2, if_true]

/-- `BatchVerifyMultiPoints` on 3 claims with the random numbers λ₁.. handed in (λ₀ = 1 is set by the code, whatever
`lam0` is; no randomness error) = `Model.KZG.batchVerifyMultiPoints` with the same λ -/
theorem C11gen_bw6_633_multi_k3 (lam0 lam1 lam2 : ℕ) (d0 d1 d2 h0 v0 h1 v1 h2 v2 z0 z1 z2 g1 : Ex r) (l : ℕ × ℕ) (q0 q1 : Unit) :
    kzg_bw6_633.BatchVerifyMultiPoints_k3 (G := Ex r) (G2 := Unit) (S := Ex r) (L := ℕ × ℕ) Ex.toInt ⟨lam1⟩ false ⟨lam2⟩ false (pcFixed r) d0 d1 d2 h0 v0 h1 v1 h2 v2 z0 z1 z2 q0 q1 g1 l
      = resOfVerdict (batchVerifyMultiPoints r ⟨g1.v, l⟩ [lam0, lam1, lam2] [d0.v, d1.v, d2.v] [(h0.v, v0.v), (h1.v, v1.v), (h2.v, v2.v)] [z0.v, z1.v, z2.v]) := by
  simp only [kzg_bw6_633.BatchVerifyMultiPoints_k3, C11gen_bw6_633_fold_k3_ex, bne_self_eq_false, Bool.false_eq_true, if_false]
  simp [batchVerifyMultiPoints, multiFold, resOfVerdict, resOfBool, pcFixed, Res.errVerify]
  apply ite_verdict_congr
  apply pairingCheck2_congr <;> (simp only [fold, msm] <;> ex_cast_eq)

/-- abstract level, 3 claims: with λ₀ = 1 and the drawn λ₁.., the code accepts iff the pairing check holds of
`Σ[λᵢ]dᵢ − [Σ vᵢλᵢ]G₁ + Σ[λᵢzᵢ]Hᵢ` and `−Σ[λᵢ]Hᵢ` -/
theorem C11gen_bw6_633_multi_k3_abstract {G G2 S L : Type} [AddCommGroup G] [CommRing S] [BEq G2] (toInt : S → Int)
    (pcf : List G → L → Bool) (lam1 lam2 : S) (d0 d1 d2 h0 h1 h2 g1 : G) (v0 v1 v2 z0 z1 z2 : S) (q0 q1 : G2) (lines : L) :
    kzg_bw6_633.BatchVerifyMultiPoints_k3 toInt lam1 false lam2 false pcf d0 d1 d2 h0 v0 h1 v1 h2 v2 z0 z1 z2 q0 q1 g1 lines = Res.ok ↔
      pcf [(toInt 1 • d0 + toInt lam1 • d1 + toInt lam2 • d2) - toInt (v0 * 1 + v1 * lam1 + v2 * lam2) • g1
            + (toInt (1 * z0) • h0 + toInt (lam1 * z1) • h1 + toInt (lam2 * z2) • h2),
           -(toInt 1 • h0 + toInt lam1 • h1 + toInt lam2 • h2)] lines = true := by
  simp only [kzg_bw6_633.BatchVerifyMultiPoints_k3, C11gen_bw6_633_fold_k3_abstract, Bool.false_eq_true, if_false, bne_self_eq_false,
    add_zero, add_assoc]
  cases pcf _ lines <;> simp

/-- a failing `SetRandom` makes the code return that error before anything is checked -/
theorem C11gen_bw6_633_multi_k3_rndErr {G G2 S L : Type} [AddCommGroup G] [CommRing S] [BEq G2] (toInt : S → Int)
    (pcf : List G → L → Bool) (lam1 lam2 : S) (e2 : Bool) (d0 d1 d2 h0 h1 h2 g1 : G) (v0 v1 v2 z0 z1 z2 : S) (q0 q1 : G2) (lines : L) :
    kzg_bw6_633.BatchVerifyMultiPoints_k3 toInt lam1 true lam2 e2 pcf d0 d1 d2 h0 v0 h1 v1 h2 v2 z0 z1 z2 q0 q1 g1 lines = Res.err "SetRandom" := by
  simp only [kzg_bw6_633.BatchVerifyMultiPoints_k3, if_true]

end GV.C11gen
