import GnarkVerif.Props.C02_gen_bn254
import GnarkVerif.Props.C02_gen_bn254_g2
import GnarkVerif.Props.C02_gen_bls12_377
import GnarkVerif.Props.C02_gen_bls12_377_g2
import GnarkVerif.Props.C02_gen_bls12_381
import GnarkVerif.Props.C02_gen_bls12_381_g2
import GnarkVerif.Props.C02_gen_bw6_761
import GnarkVerif.Props.C02_gen_bw6_761_g2
import GnarkVerif.Props.C03_chains
/- WRITTEN by bin/mkchains.py (generic part and per-package templates are in the script). DO NOT EDIT: edit the script and re-run it. -/
/-
C03 / C02 — `mulBySeed` END TO END on the curve group: the hypotheses of `C03_chain_points` (Props/C03_chains.lean) are
discharged with the group-law theorems of Props/C02_gen_<curve>* about the point formulas that tools/goslp/slp.go
regenerates from the same g1.go / g2.go (`C02gen_G1Jac_AddAssign`, `C02gen_G1Jac_Double`, `C02gen_G1Jac_Neg`, and G2).
Hence: for every field of characteristic ≠ 2 (G2: over the translated quadratic extension), every coefficient b and every
Jacobian triple q representing a point Q of Mathlib's group `(sw 0 b).Point` — infinity, 2-torsion, any scaling —
running the translated `mulBySeed` chain with the translated `AddAssign` / `Double` / `Neg` yields a representation of
`xGen • Q`, `xGen` the regenerated seed. (`DoubleAssign` is `Double` on the same variable: both are `jacDouble`, C02_gen.)
-/
set_option linter.unusedSectionVars false
set_option linter.unusedVariables false

namespace GV.Gen.Curve.bn254
open GV.Chain GV.Curve GV.C02 GV.CurveGen GV.Tower WeierstrassCurve

section g1
variable {F : Type} [Field F] [DecidableEq F]

/-- the translated G1 point operations as chain operations -/
def g1ChainOps : Ops (G1Jac F) :=
  { mul := fun a b => (G1Jac.AddAssign a b).1, sq := fun a => (G1Jac.Double a).1, inv := fun a => (G1Jac.Neg a).1,
    sqc := fun a => (G1Jac.Double a).1, dec := id }

theorem C03_mulBySeed_G1 (hc : (2 : F) ≠ 0) {b : F} {q : G1Jac F} {Q : (sw 0 b).Point} (hq : q.Rep b Q) :
    (eval g1ChainOps GV.Gen.Chains.Curve.bn254.g1_mulBySeed q).Rep b (GV.Gen.CurveConsts.bn254.xGen • Q) ∧
    (eval g1ChainOps GV.Gen.Chains.Curve.bn254.g1_mulBySeed_inplace q).Rep b (GV.Gen.CurveConsts.bn254.xGen • Q) :=
  ⟨C03_chain_points g1ChainOps (fun t P => G1Jac.Rep b t P) (fun _ _ _ _ ha hb => C02gen_G1Jac_AddAssign hc ha hb)
      (fun _ _ ha => C02gen_G1Jac_Double hc ha) (fun _ _ ha => C02gen_G1Jac_Neg ha) (fun _ _ ha => C02gen_G1Jac_Double hc ha)
      (fun _ _ ha => ha) _ _ GV.Chain.bn254.g1_mulBySeed_expo q Q hq,
   C03_chain_points g1ChainOps (fun t P => G1Jac.Rep b t P) (fun _ _ _ _ ha hb => C02gen_G1Jac_AddAssign hc ha hb)
      (fun _ _ ha => C02gen_G1Jac_Double hc ha) (fun _ _ ha => C02gen_G1Jac_Neg ha) (fun _ _ ha => C02gen_G1Jac_Double hc ha)
      (fun _ _ ha => ha) _ _ GV.Chain.bn254.g1_mulBySeed_inplace_expo q Q hq⟩
end g1

section g2
variable {F : Type} [Field F] [DecidableEq F] [QuadExt.NonSquare (-1 : F)]

/-- the translated G2 point operations as chain operations -/
def g2ChainOps : Ops (G2Jac F) :=
  { mul := fun a b => (G2Jac.AddAssign a b).1, sq := fun a => (G2Jac.Double a).1, inv := fun a => (G2Jac.Neg a).1,
    sqc := fun a => (G2Jac.Double a).1, dec := id }

theorem C03_mulBySeed_G2 (hc : (2 : K2 F) ≠ 0) {b : K2 F} {q : G2Jac F} {Q : (sw 0 b).Point} (hq : q.Rep b Q) :
    (eval g2ChainOps GV.Gen.Chains.Curve.bn254.g2_mulBySeed q).Rep b (GV.Gen.CurveConsts.bn254.xGen • Q) ∧
    (eval g2ChainOps GV.Gen.Chains.Curve.bn254.g2_mulBySeed_inplace q).Rep b (GV.Gen.CurveConsts.bn254.xGen • Q) :=
  ⟨C03_chain_points g2ChainOps (fun t P => G2Jac.Rep b t P) (fun _ _ _ _ ha hb => C02gen_G2Jac_AddAssign hc ha hb)
      (fun _ _ ha => C02gen_G2Jac_Double hc ha) (fun _ _ ha => C02gen_G2Jac_Neg ha) (fun _ _ ha => C02gen_G2Jac_Double hc ha)
      (fun _ _ ha => ha) _ _ GV.Chain.bn254.g2_mulBySeed_expo q Q hq,
   C03_chain_points g2ChainOps (fun t P => G2Jac.Rep b t P) (fun _ _ _ _ ha hb => C02gen_G2Jac_AddAssign hc ha hb)
      (fun _ _ ha => C02gen_G2Jac_Double hc ha) (fun _ _ ha => C02gen_G2Jac_Neg ha) (fun _ _ ha => C02gen_G2Jac_Double hc ha)
      (fun _ _ ha => ha) _ _ GV.Chain.bn254.g2_mulBySeed_inplace_expo q Q hq⟩
end g2
end GV.Gen.Curve.bn254

namespace GV.Gen.Curve.bls12_377
open GV.Chain GV.Curve GV.C02 GV.CurveGen GV.Tower WeierstrassCurve

section g1
variable {F : Type} [Field F] [DecidableEq F]

/-- the translated G1 point operations as chain operations -/
def g1ChainOps : Ops (G1Jac F) :=
  { mul := fun a b => (G1Jac.AddAssign a b).1, sq := fun a => (G1Jac.Double a).1, inv := fun a => (G1Jac.Neg a).1,
    sqc := fun a => (G1Jac.Double a).1, dec := id }

theorem C03_mulBySeed_G1 (hc : (2 : F) ≠ 0) {b : F} {q : G1Jac F} {Q : (sw 0 b).Point} (hq : q.Rep b Q) :
    (eval g1ChainOps GV.Gen.Chains.Curve.bls12_377.g1_mulBySeed q).Rep b (GV.Gen.CurveConsts.bls12_377.xGen • Q) ∧
    (eval g1ChainOps GV.Gen.Chains.Curve.bls12_377.g1_mulBySeed_inplace q).Rep b (GV.Gen.CurveConsts.bls12_377.xGen • Q) :=
  ⟨C03_chain_points g1ChainOps (fun t P => G1Jac.Rep b t P) (fun _ _ _ _ ha hb => C02gen_G1Jac_AddAssign hc ha hb)
      (fun _ _ ha => C02gen_G1Jac_Double hc ha) (fun _ _ ha => C02gen_G1Jac_Neg ha) (fun _ _ ha => C02gen_G1Jac_Double hc ha)
      (fun _ _ ha => ha) _ _ GV.Chain.bls12_377.g1_mulBySeed_expo q Q hq,
   C03_chain_points g1ChainOps (fun t P => G1Jac.Rep b t P) (fun _ _ _ _ ha hb => C02gen_G1Jac_AddAssign hc ha hb)
      (fun _ _ ha => C02gen_G1Jac_Double hc ha) (fun _ _ ha => C02gen_G1Jac_Neg ha) (fun _ _ ha => C02gen_G1Jac_Double hc ha)
      (fun _ _ ha => ha) _ _ GV.Chain.bls12_377.g1_mulBySeed_inplace_expo q Q hq⟩
end g1

section g2
variable {F : Type} [Field F] [DecidableEq F] [QuadExt.NonSquare (-5 : F)]

/-- the translated G2 point operations as chain operations -/
def g2ChainOps : Ops (G2Jac F) :=
  { mul := fun a b => (G2Jac.AddAssign a b).1, sq := fun a => (G2Jac.Double a).1, inv := fun a => (G2Jac.Neg a).1,
    sqc := fun a => (G2Jac.Double a).1, dec := id }

theorem C03_mulBySeed_G2 (hc : (2 : K2 F) ≠ 0) {b : K2 F} {q : G2Jac F} {Q : (sw 0 b).Point} (hq : q.Rep b Q) :
    (eval g2ChainOps GV.Gen.Chains.Curve.bls12_377.g2_mulBySeed q).Rep b (GV.Gen.CurveConsts.bls12_377.xGen • Q) ∧
    (eval g2ChainOps GV.Gen.Chains.Curve.bls12_377.g2_mulBySeed_inplace q).Rep b (GV.Gen.CurveConsts.bls12_377.xGen • Q) :=
  ⟨C03_chain_points g2ChainOps (fun t P => G2Jac.Rep b t P) (fun _ _ _ _ ha hb => C02gen_G2Jac_AddAssign hc ha hb)
      (fun _ _ ha => C02gen_G2Jac_Double hc ha) (fun _ _ ha => C02gen_G2Jac_Neg ha) (fun _ _ ha => C02gen_G2Jac_Double hc ha)
      (fun _ _ ha => ha) _ _ GV.Chain.bls12_377.g2_mulBySeed_expo q Q hq,
   C03_chain_points g2ChainOps (fun t P => G2Jac.Rep b t P) (fun _ _ _ _ ha hb => C02gen_G2Jac_AddAssign hc ha hb)
      (fun _ _ ha => C02gen_G2Jac_Double hc ha) (fun _ _ ha => C02gen_G2Jac_Neg ha) (fun _ _ ha => C02gen_G2Jac_Double hc ha)
      (fun _ _ ha => ha) _ _ GV.Chain.bls12_377.g2_mulBySeed_inplace_expo q Q hq⟩
end g2
end GV.Gen.Curve.bls12_377

namespace GV.Gen.Curve.bls12_381
open GV.Chain GV.Curve GV.C02 GV.CurveGen GV.Tower WeierstrassCurve

section g1
variable {F : Type} [Field F] [DecidableEq F]

/-- the translated G1 point operations as chain operations -/
def g1ChainOps : Ops (G1Jac F) :=
  { mul := fun a b => (G1Jac.AddAssign a b).1, sq := fun a => (G1Jac.Double a).1, inv := fun a => (G1Jac.Neg a).1,
    sqc := fun a => (G1Jac.Double a).1, dec := id }

theorem C03_mulBySeed_G1 (hc : (2 : F) ≠ 0) {b : F} {q : G1Jac F} {Q : (sw 0 b).Point} (hq : q.Rep b Q) :
    (eval g1ChainOps GV.Gen.Chains.Curve.bls12_381.g1_mulBySeed q).Rep b (GV.Gen.CurveConsts.bls12_381.xGen • Q) ∧
    (eval g1ChainOps GV.Gen.Chains.Curve.bls12_381.g1_mulBySeed_inplace q).Rep b (GV.Gen.CurveConsts.bls12_381.xGen • Q) :=
  ⟨C03_chain_points g1ChainOps (fun t P => G1Jac.Rep b t P) (fun _ _ _ _ ha hb => C02gen_G1Jac_AddAssign hc ha hb)
      (fun _ _ ha => C02gen_G1Jac_Double hc ha) (fun _ _ ha => C02gen_G1Jac_Neg ha) (fun _ _ ha => C02gen_G1Jac_Double hc ha)
      (fun _ _ ha => ha) _ _ GV.Chain.bls12_381.g1_mulBySeed_expo q Q hq,
   C03_chain_points g1ChainOps (fun t P => G1Jac.Rep b t P) (fun _ _ _ _ ha hb => C02gen_G1Jac_AddAssign hc ha hb)
      (fun _ _ ha => C02gen_G1Jac_Double hc ha) (fun _ _ ha => C02gen_G1Jac_Neg ha) (fun _ _ ha => C02gen_G1Jac_Double hc ha)
      (fun _ _ ha => ha) _ _ GV.Chain.bls12_381.g1_mulBySeed_inplace_expo q Q hq⟩
end g1

section g2
variable {F : Type} [Field F] [DecidableEq F] [QuadExt.NonSquare (-1 : F)]

/-- the translated G2 point operations as chain operations -/
def g2ChainOps : Ops (G2Jac F) :=
  { mul := fun a b => (G2Jac.AddAssign a b).1, sq := fun a => (G2Jac.Double a).1, inv := fun a => (G2Jac.Neg a).1,
    sqc := fun a => (G2Jac.Double a).1, dec := id }

theorem C03_mulBySeed_G2 (hc : (2 : K2 F) ≠ 0) {b : K2 F} {q : G2Jac F} {Q : (sw 0 b).Point} (hq : q.Rep b Q) :
    (eval g2ChainOps GV.Gen.Chains.Curve.bls12_381.g2_mulBySeed q).Rep b (GV.Gen.CurveConsts.bls12_381.xGen • Q) ∧
    (eval g2ChainOps GV.Gen.Chains.Curve.bls12_381.g2_mulBySeed_inplace q).Rep b (GV.Gen.CurveConsts.bls12_381.xGen • Q) :=
  ⟨C03_chain_points g2ChainOps (fun t P => G2Jac.Rep b t P) (fun _ _ _ _ ha hb => C02gen_G2Jac_AddAssign hc ha hb)
      (fun _ _ ha => C02gen_G2Jac_Double hc ha) (fun _ _ ha => C02gen_G2Jac_Neg ha) (fun _ _ ha => C02gen_G2Jac_Double hc ha)
      (fun _ _ ha => ha) _ _ GV.Chain.bls12_381.g2_mulBySeed_expo q Q hq,
   C03_chain_points g2ChainOps (fun t P => G2Jac.Rep b t P) (fun _ _ _ _ ha hb => C02gen_G2Jac_AddAssign hc ha hb)
      (fun _ _ ha => C02gen_G2Jac_Double hc ha) (fun _ _ ha => C02gen_G2Jac_Neg ha) (fun _ _ ha => C02gen_G2Jac_Double hc ha)
      (fun _ _ ha => ha) _ _ GV.Chain.bls12_381.g2_mulBySeed_inplace_expo q Q hq⟩
end g2
end GV.Gen.Curve.bls12_381

namespace GV.Gen.Curve.bw6_761
open GV.Chain GV.Curve GV.C02 GV.CurveGen GV.Tower WeierstrassCurve

section g1
variable {F : Type} [Field F] [DecidableEq F]

/-- the translated G1 point operations as chain operations -/
def g1ChainOps : Ops (G1Jac F) :=
  { mul := fun a b => (G1Jac.AddAssign a b).1, sq := fun a => (G1Jac.Double a).1, inv := fun a => (G1Jac.Neg a).1,
    sqc := fun a => (G1Jac.Double a).1, dec := id }

theorem C03_mulBySeed_G1 (hc : (2 : F) ≠ 0) {b : F} {q : G1Jac F} {Q : (sw 0 b).Point} (hq : q.Rep b Q) :
    (eval g1ChainOps GV.Gen.Chains.Curve.bw6_761.g1_mulBySeed q).Rep b (GV.Gen.CurveConsts.bw6_761.xGen • Q) ∧
    (eval g1ChainOps GV.Gen.Chains.Curve.bw6_761.g1_mulBySeed_inplace q).Rep b (GV.Gen.CurveConsts.bw6_761.xGen • Q) :=
  ⟨C03_chain_points g1ChainOps (fun t P => G1Jac.Rep b t P) (fun _ _ _ _ ha hb => C02gen_G1Jac_AddAssign hc ha hb)
      (fun _ _ ha => C02gen_G1Jac_Double hc ha) (fun _ _ ha => C02gen_G1Jac_Neg ha) (fun _ _ ha => C02gen_G1Jac_Double hc ha)
      (fun _ _ ha => ha) _ _ GV.Chain.bw6_761.g1_mulBySeed_expo q Q hq,
   C03_chain_points g1ChainOps (fun t P => G1Jac.Rep b t P) (fun _ _ _ _ ha hb => C02gen_G1Jac_AddAssign hc ha hb)
      (fun _ _ ha => C02gen_G1Jac_Double hc ha) (fun _ _ ha => C02gen_G1Jac_Neg ha) (fun _ _ ha => C02gen_G1Jac_Double hc ha)
      (fun _ _ ha => ha) _ _ GV.Chain.bw6_761.g1_mulBySeed_inplace_expo q Q hq⟩
end g1

section g2
variable {F : Type} [Field F] [DecidableEq F] 

/-- the translated G2 point operations as chain operations -/
def g2ChainOps : Ops (G2Jac F) :=
  { mul := fun a b => (G2Jac.AddAssign a b).1, sq := fun a => (G2Jac.Double a).1, inv := fun a => (G2Jac.Neg a).1,
    sqc := fun a => (G2Jac.Double a).1, dec := id }

theorem C03_mulBySeed_G2 (hc : (2 : F) ≠ 0) {b : F} {q : G2Jac F} {Q : (sw 0 b).Point} (hq : q.Rep b Q) :
    (eval g2ChainOps GV.Gen.Chains.Curve.bw6_761.g2_mulBySeed q).Rep b (GV.Gen.CurveConsts.bw6_761.xGen • Q) ∧
    (eval g2ChainOps GV.Gen.Chains.Curve.bw6_761.g2_mulBySeed_inplace q).Rep b (GV.Gen.CurveConsts.bw6_761.xGen • Q) :=
  ⟨C03_chain_points g2ChainOps (fun t P => G2Jac.Rep b t P) (fun _ _ _ _ ha hb => C02gen_G2Jac_AddAssign hc ha hb)
      (fun _ _ ha => C02gen_G2Jac_Double hc ha) (fun _ _ ha => C02gen_G2Jac_Neg ha) (fun _ _ ha => C02gen_G2Jac_Double hc ha)
      (fun _ _ ha => ha) _ _ GV.Chain.bw6_761.g2_mulBySeed_expo q Q hq,
   C03_chain_points g2ChainOps (fun t P => G2Jac.Rep b t P) (fun _ _ _ _ ha hb => C02gen_G2Jac_AddAssign hc ha hb)
      (fun _ _ ha => C02gen_G2Jac_Double hc ha) (fun _ _ ha => C02gen_G2Jac_Neg ha) (fun _ _ ha => C02gen_G2Jac_Double hc ha)
      (fun _ _ ha => ha) _ _ GV.Chain.bw6_761.g2_mulBySeed_inplace_expo q Q hq⟩
end g2
end GV.Gen.Curve.bw6_761
