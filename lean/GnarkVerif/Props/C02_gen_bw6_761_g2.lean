/- INSTANTIATED by bin/mkc02gen.py from Props/C02_gen_bn254.lean (bn254 G1). DO NOT EDIT: edit the master and re-run the script.
   Every statement below is checked by Lean against the defs regenerated from the Go source. -/
import GnarkVerif.Proofs.CurveGen
import GnarkVerif.Gen.Curve.Bw6_761Alias
/-
C02 (tie T) — bw6_761 G2 (coordinates in Fp): the point-arithmetic methods of /repo/ecc/bw6-761/g2.go implement the group law.

Every theorem `C02gen_*` below is about a def of `Gen/Curve/Bw6_761.lean`, which tools/goslp REGENERATES from the Go
source on every run: a changed Go formula or dispatch condition changes the def and breaks the proof. The
specification is Mathlib's group `(sw 0 b).Point` (y² = x³ + b over any field of characteristic ≠ 2) and the
representation predicates `JacPt` / `AffPt` / `XyzzPt` of Proofs/CurveGen.lean (Z = 0, (0,0), ZZ = 0 encode infinity).
Each theorem covers ALL inputs of the method: the infinity operands, the equal-point dispatch to the doubling formula,
opposite points (result infinity), 2-torsion points, and the general chord formula, for every projective scaling.

Structure: `X_eq` lemmas = "generated def = total hand operation" (unfolding + `ring`; this is the proof-level tie that
replaces differential testing), then the group-law statements by the generic theorems of Proofs/CurveGen.lean.
-/
set_option linter.unusedSectionVars false
set_option linter.unusedVariables false
namespace GV.Gen.Curve.bw6_761
open GV.Curve GV.C02 GV.CurveGen WeierstrassCurve

variable {F : Type} [Field F] [DecidableEq F]

/-- p represents the group element P -/
def G2Jac.Rep (b : F) (p : G2Jac F) (P : (sw 0 b).Point) : Prop := JacPt 0 b p.X p.Y p.Z P
def G2Affine.Rep (b : F) (p : G2Affine F) (P : (sw 0 b).Point) : Prop := AffPt 0 b p.X p.Y P
def g2JacExtended.Rep (b : F) (p : g2JacExtended F) (P : (sw 0 b).Point) : Prop := XyzzPt 0 b p.X p.Y p.ZZ p.ZZZ P

def G2Jac.ofT (t : F × F × F) : G2Jac F := ⟨t.1, t.2.1, t.2.2⟩
def G2Affine.ofT (t : F × F) : G2Affine F := ⟨t.1, t.2⟩
def g2JacExtended.ofT (t : F × F × F × F) : g2JacExtended F := ⟨t.1, t.2.1, t.2.2.1, t.2.2.2⟩

/-! ## bridge: generated def = total operation -/

theorem G2Affine.IsInfinity_iff (p : G2Affine F) : G2Affine.IsInfinity p = true ↔ (p.X = 0 ∧ p.Y = 0) := by
  simp only [G2Affine.IsInfinity, decide_eq_true_eq, Bool.and_eq_true]

theorem G2Jac.DoubleAssign_eq (p : G2Jac F) : G2Jac.DoubleAssign p = .ofT (jacDouble p.X p.Y p.Z) := by
  gv_bridge [G2Jac.DoubleAssign, G2Jac.ofT, jacDouble]

theorem G2Jac.Double_eq (q : G2Jac F) : (G2Jac.Double q).1 = .ofT (jacDouble q.X q.Y q.Z) := by
  simp only [G2Jac.Double, G2Jac.Set, G2Jac.DoubleAssign_eq]

theorem G2Jac.DoubleMixed_eq (a : G2Affine F) : (G2Jac.DoubleMixed a).1 = .ofT (jacDoubleMixed a.X a.Y) := by
  gv_bridge [G2Jac.DoubleMixed, G2Jac.ofT, jacDoubleMixed]

theorem G2Jac.AddAssign_eq (p q : G2Jac F) : (G2Jac.AddAssign p q).1 = .ofT (jacAddT p.X p.Y p.Z q.X q.Y q.Z) := by
  gv_bridge [G2Jac.AddAssign, jacAddT, jacAddTW, G2Jac.DoubleAssign_eq, G2Jac.Set, G2Jac.ofT, jacAddUS, jacAdd]

theorem G2Jac.AddMixed_eq (p : G2Jac F) (a : G2Affine F) :
    (G2Jac.AddMixed p a).1 = .ofT (jacAddMixedT p.X p.Y p.Z a.X a.Y) := by
  gv_bridge [G2Jac.AddMixed, jacAddMixedT, jacAddMixedTW, G2Jac.DoubleMixed_eq, G2Affine.IsInfinity, G2Jac.ofT, jacAddMixedUS, jacAddMixed]

theorem G2Jac.SubAssign_eq (p q : G2Jac F) : (G2Jac.SubAssign p q).1 = .ofT (jacAddT p.X p.Y p.Z q.X (-q.Y) q.Z) := by
  simp only [G2Jac.SubAssign, G2Jac.Set, G2Jac.AddAssign_eq]

theorem G2Jac.Neg_eq (q : G2Jac F) : (G2Jac.Neg q).1 = ⟨q.X, -q.Y, q.Z⟩ := rfl
theorem G2Jac.Set_eq (q : G2Jac F) : (G2Jac.Set q).1 = q := rfl

theorem G2Jac.FromAffine_eq (a : G2Affine F) : (G2Jac.FromAffine a).1 = .ofT (jacFromAffineT a.X a.Y) := by
  gv_bridge [G2Jac.FromAffine, jacFromAffineT, G2Affine.IsInfinity, G2Jac.ofT]

theorem G2Jac.Equal_iff (p q : G2Jac F) : G2Jac.Equal p q = true ↔ jacEqualT p.X p.Y p.Z q.X q.Y q.Z := by
  simp only [G2Jac.Equal, jacEqualT, jacEqualTest]
  split_ifs <;> simp_all

theorem G2Jac.IsOnCurve_iff (p : G2Jac F) : G2Jac.IsOnCurve p = true ↔ jacIsOnCurve (4) p.X p.Y p.Z := by
  simp only [G2Jac.IsOnCurve, jacIsOnCurve, decide_eq_true_eq]
  constructor <;> intro h <;> linear_combination h

theorem G2Affine.FromJacobian_eq (p1 : G2Jac F) : (G2Affine.FromJacobian p1).1 = .ofT (fromJacobianT p1.X p1.Y p1.Z) := by
  gv_bridge [G2Affine.FromJacobian, fromJacobianT, fromJacobian, G2Affine.ofT]

theorem G2Affine.Double_eq (a : G2Affine F) : (G2Affine.Double a).1 = .ofT (affDoubleT a.X a.Y) := by
  simp only [G2Affine.Double, G2Affine.FromJacobian_eq, G2Jac.DoubleMixed_eq, affDoubleT, G2Jac.ofT]

theorem G2Affine.Add_eq (a b : G2Affine F) : (G2Affine.Add a b).1 = .ofT (affAddT a.X a.Y b.X b.Y) := by
  gv_bridge [G2Affine.Add, affAddT, affDoubleT, G2Affine.FromJacobian_eq, G2Jac.DoubleMixed_eq, G2Affine.IsInfinity,
    G2Affine.Set, G2Affine.SetInfinity, G2Affine.ofT, G2Jac.ofT, affAddJac]

theorem G2Affine.Neg_eq (a : G2Affine F) : (G2Affine.Neg a).1 = ⟨a.X, -a.Y⟩ := rfl
theorem G2Affine.Set_eq (a : G2Affine F) : (G2Affine.Set a).1 = a := rfl

theorem G2Affine.Sub_eq (a b : G2Affine F) : (G2Affine.Sub a b).1 = .ofT (affAddT a.X a.Y b.X (-b.Y)) := by
  simp only [G2Affine.Sub, G2Affine.Neg_eq, G2Affine.Add_eq]

theorem G2Affine.Equal_iff (p a : G2Affine F) : G2Affine.Equal p a = true ↔ (p.X = a.X ∧ p.Y = a.Y) := by
  simp only [G2Affine.Equal, decide_eq_true_eq, Bool.and_eq_true]

theorem G2Affine.IsOnCurve_iff (p : G2Affine F) (b : F) :
    G2Affine.IsOnCurve p b = true ↔ ((p.X = 0 ∧ p.Y = 0) ∨ OnCurve 0 b p.X p.Y) := by
  simp only [G2Affine.IsOnCurve, G2Affine.IsInfinity, OnCurve, decide_eq_true_eq, Bool.and_eq_true]
  split_ifs with h
  · simp [h]
  · simp only [h, false_or, decide_eq_true_eq]
    constructor <;> intro h <;> linear_combination h

theorem g2JacExtended.double_eq (q : g2JacExtended F) :
    (g2JacExtended.double q).1 = .ofT (xyzzDouble q.X q.Y q.ZZ q.ZZZ) := by
  gv_bridge [g2JacExtended.double, g2JacExtended.ofT, xyzzDouble]

theorem g2JacExtended.doubleMixed_eq (a : G2Affine F) :
    (g2JacExtended.doubleMixed a).1 = .ofT (xyzzDoubleMixed a.X a.Y) := by
  gv_bridge [g2JacExtended.doubleMixed, g2JacExtended.ofT, xyzzDoubleMixed]

theorem g2JacExtended.doubleNegMixed_eq (a : G2Affine F) :
    (g2JacExtended.doubleNegMixed a).1 = .ofT (xyzzDoubleNegMixed a.X a.Y) := by
  gv_bridge [g2JacExtended.doubleNegMixed, g2JacExtended.ofT, xyzzDoubleNegMixed]

theorem g2JacExtended.add_eq (p q : g2JacExtended F) :
    (g2JacExtended.add p q).1 = .ofT (xyzzAddT p.X p.Y p.ZZ p.ZZZ q.X q.Y q.ZZ q.ZZZ) := by
  gv_bridge [g2JacExtended.add, xyzzAddT, xyzzAddTW, g2JacExtended.double_eq, g2JacExtended.Set, g2JacExtended.ofT, xyzzAddAB, xyzzAdd]

theorem g2JacExtended.addMixed_eq (p : g2JacExtended F) (a : G2Affine F) :
    (g2JacExtended.addMixed p a).1 = .ofT (xyzzAddMixedT p.X p.Y p.ZZ p.ZZZ a.X a.Y) := by
  gv_bridge [g2JacExtended.addMixed, xyzzAddMixedT, xyzzAddMixedTW, g2JacExtended.doubleMixed_eq, G2Affine.IsInfinity, g2JacExtended.ofT,
    xyzzAddMixedPR, xyzzAddMixed]

theorem g2JacExtended.subMixed_eq (p : g2JacExtended F) (a : G2Affine F) :
    (g2JacExtended.subMixed p a).1 = .ofT (xyzzSubMixedT p.X p.Y p.ZZ p.ZZZ a.X a.Y) := by
  gv_bridge [g2JacExtended.subMixed, xyzzSubMixedT, g2JacExtended.doubleNegMixed_eq, G2Affine.IsInfinity, g2JacExtended.ofT,
    xyzzSubMixed]

theorem G2Affine.fromJacExtended_eq (q : g2JacExtended F) :
    (G2Affine.fromJacExtended q).1 = .ofT (xyzzToAffineT q.X q.Y q.ZZ q.ZZZ) := by
  gv_bridge [G2Affine.fromJacExtended, xyzzToAffineT, xyzzToAffine, G2Affine.ofT]

theorem G2Jac.fromJacExtended_eq (q : g2JacExtended F) (inf : G2Jac F) :
    (G2Jac.fromJacExtended q inf).1 = .ofT (xyzzToJacT q.X q.Y q.ZZ q.ZZZ inf.X inf.Y inf.Z) := by
  gv_bridge [G2Jac.fromJacExtended, xyzzToJacT, xyzzToJac, G2Jac.Set, G2Jac.ofT]

theorem G2Jac.unsafeFromJacExtended_eq (q : g2JacExtended F) :
    (G2Jac.unsafeFromJacExtended q).1 = .ofT (xyzzToJacUnsafe q.X q.Y q.ZZ q.ZZZ) := by
  gv_bridge [G2Jac.unsafeFromJacExtended, xyzzToJacUnsafe, G2Jac.ofT]

/-! ## C02: the generated methods implement the group law (all inputs, all scalings) -/

section
variable {b : F} {P Q : (sw 0 b).Point}

/-- `G2Jac.AddAssign`: p ← p + q, every branch (infinity operands, p = q → doubling, p = -q → infinity, chord) -/
theorem C02gen_G2Jac_AddAssign (hc : (2 : F) ≠ 0) {p q : G2Jac F} (hp : p.Rep b P) (hq : q.Rep b Q) :
    (G2Jac.AddAssign p q).1.Rep b (P + Q) := by
  rw [G2Jac.AddAssign_eq]; exact jacAddT_correct rfl hc hp hq

/-- `G2Jac.SubAssign`: p ← p - q -/
theorem C02gen_G2Jac_SubAssign (hc : (2 : F) ≠ 0) {p q : G2Jac F} (hp : p.Rep b P) (hq : q.Rep b Q) :
    (G2Jac.SubAssign p q).1.Rep b (P - Q) := by
  rw [G2Jac.SubAssign_eq, sub_eq_add_neg]; exact jacAddT_correct rfl hc hp (JacPt.neg hq)

/-- `G2Jac.AddMixed`: p ← p + a with a affine -/
theorem C02gen_G2Jac_AddMixed (hc : (2 : F) ≠ 0) {p : G2Jac F} {a : G2Affine F} (hp : p.Rep b P) (ha : a.Rep b Q) :
    (G2Jac.AddMixed p a).1.Rep b (P + Q) := by
  rw [G2Jac.AddMixed_eq]; exact jacAddMixedT_correct rfl hc hp ha

/-- `G2Jac.DoubleAssign`, `G2Jac.Double`: 2P, including 2-torsion points and infinity -/
theorem C02gen_G2Jac_DoubleAssign (hc : (2 : F) ≠ 0) {p : G2Jac F} (hp : p.Rep b P) :
    (G2Jac.DoubleAssign p).Rep b (P + P) := by
  rw [G2Jac.DoubleAssign_eq]; exact jacDouble_total hc hp

theorem C02gen_G2Jac_Double (hc : (2 : F) ≠ 0) {q : G2Jac F} (hq : q.Rep b Q) : (G2Jac.Double q).1.Rep b (Q + Q) := by
  rw [G2Jac.Double_eq]; exact jacDouble_total hc hq

/-- `G2Jac.DoubleMixed`: 2a for a affine -/
theorem C02gen_G2Jac_DoubleMixed (hc : (2 : F) ≠ 0) {a : G2Affine F} (ha : a.Rep b Q) :
    (G2Jac.DoubleMixed a).1.Rep b (Q + Q) := by
  rw [G2Jac.DoubleMixed_eq]; exact jacDoubleMixed_total hc ha

theorem C02gen_G2Jac_Neg {q : G2Jac F} (hq : q.Rep b Q) : (G2Jac.Neg q).1.Rep b (-Q) := JacPt.neg hq

theorem C02gen_G2Jac_Set {q : G2Jac F} (hq : q.Rep b Q) : (G2Jac.Set q).1.Rep b Q := hq

/-- `G2Jac.Equal` decides equality of the represented group elements -/
theorem C02gen_G2Jac_Equal {p q : G2Jac F} (hp : p.Rep b P) (hq : q.Rep b Q) : G2Jac.Equal p q = true ↔ P = Q := by
  rw [G2Jac.Equal_iff]; exact jacEqualT_iff hp hq

/-- `G2Jac.IsOnCurve` (b = 4: two doublings): the curve equation of the affine point; on Z = 0 it is
Y² = X³ (so (1,1,0) passes, (X,Y,0) with Y² ≠ X³ does not) -/
theorem C02gen_G2Jac_IsOnCurve (p : G2Jac F) :
    (p.Z = 0 → (G2Jac.IsOnCurve p = true ↔ p.Y * p.Y = p.X * p.X * p.X)) ∧
    (∀ x y, JacRep p.X p.Y p.Z x y → (G2Jac.IsOnCurve p = true ↔ (sw 0 (4 : F)).Equation x y)) := by
  rw [G2Jac.IsOnCurve_iff]; exact jacIsOnCurve_total

theorem C02gen_G2Jac_FromAffine {a : G2Affine F} (ha : a.Rep b Q) : (G2Jac.FromAffine a).1.Rep b Q := by
  rw [G2Jac.FromAffine_eq]; exact jacFromAffineT_correct ha

theorem C02gen_G2Affine_FromJacobian (hb : b ≠ 0) {p : G2Jac F} (hp : p.Rep b P) :
    (G2Affine.FromJacobian p).1.Rep b P := by
  rw [G2Affine.FromJacobian_eq]; exact fromJacobianT_correct hb hp

/-- `G2Affine.Add`, every branch -/
theorem C02gen_G2Affine_Add (hc : (2 : F) ≠ 0) (hb : b ≠ 0) {x y : G2Affine F} (hx : x.Rep b P) (hy : y.Rep b Q) :
    (G2Affine.Add x y).1.Rep b (P + Q) := by
  rw [G2Affine.Add_eq]; exact affAddT_correct rfl hc hb hx hy

theorem C02gen_G2Affine_Sub (hc : (2 : F) ≠ 0) (hb : b ≠ 0) {x y : G2Affine F} (hx : x.Rep b P) (hy : y.Rep b Q) :
    (G2Affine.Sub x y).1.Rep b (P - Q) := by
  rw [G2Affine.Sub_eq, sub_eq_add_neg]; exact affAddT_correct rfl hc hb hx (AffPt.neg hy)

theorem C02gen_G2Affine_Double (hc : (2 : F) ≠ 0) (hb : b ≠ 0) {a : G2Affine F} (ha : a.Rep b Q) :
    (G2Affine.Double a).1.Rep b (Q + Q) := by
  rw [G2Affine.Double_eq]; exact affDoubleT_correct hc hb ha

theorem C02gen_G2Affine_Neg {a : G2Affine F} (ha : a.Rep b Q) : (G2Affine.Neg a).1.Rep b (-Q) := AffPt.neg ha

theorem C02gen_G2Affine_Equal {x y : G2Affine F} (hx : x.Rep b P) (hy : y.Rep b Q) :
    G2Affine.Equal x y = true ↔ P = Q := by
  rw [G2Affine.Equal_iff]; exact AffPt.eq_iff hx hy

theorem C02gen_G2Affine_IsInfinity {a : G2Affine F} (ha : a.Rep b Q) : G2Affine.IsInfinity a = true ↔ Q = 0 := by
  rw [G2Affine.IsInfinity_iff]; exact (AffPt.eq_zero_iff ha).symm

/-- `G2Affine.IsOnCurve p bCurveCoeff`: infinity or Mathlib's curve equation -/
theorem C02gen_G2Affine_IsOnCurve (p : G2Affine F) (b : F) :
    G2Affine.IsOnCurve p b = true ↔ ((p.X = 0 ∧ p.Y = 0) ∨ (sw 0 b).Equation p.X p.Y) := by
  rw [G2Affine.IsOnCurve_iff, sw_equation_iff]

/-! ### extended Jacobian (bucket) coordinates -/

theorem C02gen_g2JacExtended_add (hc : (2 : F) ≠ 0) {p q : g2JacExtended F} (hp : p.Rep b P) (hq : q.Rep b Q) :
    (g2JacExtended.add p q).1.Rep b (P + Q) := by
  rw [g2JacExtended.add_eq]; exact xyzzAddT_correct rfl hc hp hq

theorem C02gen_g2JacExtended_double (hc : (2 : F) ≠ 0) {q : g2JacExtended F} (hq : q.Rep b Q) :
    (g2JacExtended.double q).1.Rep b (Q + Q) := by
  rw [g2JacExtended.double_eq]; exact xyzzDouble_total hc hq

theorem C02gen_g2JacExtended_addMixed (hc : (2 : F) ≠ 0) {p : g2JacExtended F} {a : G2Affine F} (hp : p.Rep b P)
    (ha : a.Rep b Q) : (g2JacExtended.addMixed p a).1.Rep b (P + Q) := by
  rw [g2JacExtended.addMixed_eq]; exact xyzzAddMixedT_correct rfl hc hp ha

theorem C02gen_g2JacExtended_subMixed (hc : (2 : F) ≠ 0) {p : g2JacExtended F} {a : G2Affine F} (hp : p.Rep b P)
    (ha : a.Rep b Q) : (g2JacExtended.subMixed p a).1.Rep b (P - Q) := by
  rw [g2JacExtended.subMixed_eq]; exact xyzzSubMixedT_correct rfl hc hp ha

theorem C02gen_g2JacExtended_doubleMixed (hc : (2 : F) ≠ 0) {a : G2Affine F} (ha : a.Rep b Q) :
    (g2JacExtended.doubleMixed a).1.Rep b (Q + Q) := by
  rw [g2JacExtended.doubleMixed_eq]; exact xyzzDoubleMixed_total hc ha

theorem C02gen_g2JacExtended_doubleNegMixed (hc : (2 : F) ≠ 0) {a : G2Affine F} (ha : a.Rep b Q) :
    (g2JacExtended.doubleNegMixed a).1.Rep b (-Q + -Q) := by
  rw [g2JacExtended.doubleNegMixed_eq]; exact xyzzDoubleNegMixed_total hc ha

theorem C02gen_G2Affine_fromJacExtended (hb : b ≠ 0) {q : g2JacExtended F} (hq : q.Rep b Q) :
    (G2Affine.fromJacExtended q).1.Rep b Q := by
  rw [G2Affine.fromJacExtended_eq]; exact xyzzToAffineT_correct hb hq

/-- `G2Jac.fromJacExtended` (the package variable `g2Infinity` is a parameter; only its Z = 0 matters) -/
theorem C02gen_G2Jac_fromJacExtended {q : g2JacExtended F} {inf : G2Jac F} (hi : inf.Z = 0) (hq : q.Rep b Q) :
    (G2Jac.fromJacExtended q inf).1.Rep b Q := by
  rw [G2Jac.fromJacExtended_eq]; exact xyzzToJacT_correct hi hq

/-- `G2Jac.unsafeFromJacExtended` on a non-infinity bucket -/
theorem C02gen_G2Jac_unsafeFromJacExtended {q : g2JacExtended F} {l x y : F} (hq : XyzzRep l q.X q.Y q.ZZ q.ZZZ x y) :
    JacRep (G2Jac.unsafeFromJacExtended q).1.X (G2Jac.unsafeFromJacExtended q).1.Y (G2Jac.unsafeFromJacExtended q).1.Z x y := by
  rw [G2Jac.unsafeFromJacExtended_eq, G2Jac.ofT, (C02_xyzz_conversions hq).2.2]; exact (C02_xyzz_conversions hq).2.1

end

/-! ### non-vacuity: y² = x³ + 3 over ℚ, P = (1,2) scaled by Z = 2, Q = (1,-2) -/
example : (sw 0 (3 : ℚ)).Nonsingular 1 2 := by
  rw [Affine.nonsingular_iff', Affine.equation_iff]; simp [sw]; norm_num
example (h : (sw 0 (3 : ℚ)).Nonsingular 1 2) :
    G2Jac.Rep (3 : ℚ) ⟨4, 16, 2⟩ (Affine.Point.some 1 2 h) := Or.inr ⟨1, 2, h, ⟨by norm_num, by norm_num, by norm_num⟩, rfl⟩
example : G2Jac.Rep (3 : ℚ) ⟨1, 1, 0⟩ 0 := Or.inl ⟨rfl, rfl⟩

end GV.Gen.Curve.bw6_761
