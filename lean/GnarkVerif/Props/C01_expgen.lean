import GnarkVerif.Gen.Imp.ExpAll
import GnarkVerif.Props.C01
import Mathlib.Algebra.GroupWithZero.Basic
import Mathlib.Algebra.Group.Basic
import Mathlib.Tactic.Ring
/-
C01_expgen — tie T for the exponentiation loop: the Lean def `Exp` of Gen/Imp/Exp_bn254_fr.lean is REGENERATED from
`func (z *Element) Exp(x Element, k *big.Int) *Element` of /repo/ecc/bn254/fr/element.go on every run (tools/goslp mode "imp") at the
FIELD level: the element primitives are abstract operations (`z.Square(z)` = `mul z z`, `z.Mul(z, &x)` = `mul z x`, `z.SetOne()` = `one`,
`x.Inverse(&x)` = `inv x`, `z.Set(&x)` = copy), `*big.Int` is an exact integer (`IsUint64`, `Uint64`, `Sign`, `Neg`, `BitLen`, `Bit`).
Proved: in every monoid the translated text computes `x ^ k` for k ≥ 0, and in every group with zero (every field) `x ^ k` for ALL k ∈ ℤ
(k = 0 ↦ 1 also for x = 0, negative k through the inverse).
-/
namespace GV.ExpGen
open GV.GoImp GV.Gen.Imp GV.Gen.Imp.Exp_bn254_fr

theorem shiftRight_log2 (n : Nat) (hn : n ≠ 0) : n >>> n.log2 = 1 := by
  rw [Nat.shiftRight_eq_div_pow]
  have h1 := Nat.log2_self_le hn
  have h2 := @Nat.lt_log2_self n
  rw [Nat.pow_succ] at h2
  exact Nat.div_eq_of_lt_le (by omega) (by omega)

theorem bigBit_nat (e j : Nat) : bigBit (e : Int) (j : Int) = (e >>> j) % 2 := by
  simp [bigBit]

section Monoid
variable {M : Type} [Monoid M] (inv : M → M)

/-- square-and-multiply from bit `j-1` down to bit 0 -/
theorem loop_pow (x : M) (e : Nat) : ∀ (j : Nat) (z : M), z = x ^ (e >>> j) →
    (Exp.loop1 (· * ·) 1 inv x (e : Int) j z ((j : Int) - 1)).1 = x ^ e := by
  intro j
  induction j with
  | zero => intro z hz; simpa [Exp.loop1] using hz
  | succ j ih =>
    intro z hz
    have hc : ((j + 1 : Nat) : Int) - 1 ≥ 0 := by omega
    have ei : ((j + 1 : Nat) : Int) - 1 = (j : Int) := by omega
    simp only [Exp.loop1, hc, decide_true, if_true, ei, bigBit_nat]
    apply ih
    have hsh : e >>> j = 2 * (e >>> (j + 1)) + (e >>> j) % 2 := by
      rw [Nat.shiftRight_succ]; omega
    rw [hz]
    by_cases hb : (e >>> j) % 2 = 1
    · simp only [hb, beq_self_eq_true, if_true]
      rw [hsh, hb]; simp [pow_add, pow_succ, two_mul]
    · have hb0 : (e >>> j) % 2 = 0 := by omega
      have : ((e >>> j) % 2 == 1) = false := by simp [hb0]
      simp only [this, Bool.false_eq_true, if_false]
      rw [hsh, hb0]; simp [pow_add, two_mul]

/-- the part of `Exp` after the sign handling, for a positive exponent -/
theorem tail_pow (x : M) (n : Nat) (hn : n ≠ 0) :
    (Exp.loop1 (· * ·) 1 inv x (n : Int) (bigBitLen (n : Int) - 2 + 1 - 0).toNat x (bigBitLen (n : Int) - 2)).1 = x ^ n := by
  have hbl : bigBitLen (n : Int) = ((n.log2 + 1 : Nat) : Int) := by
    simp [bigBitLen, hn]
  have hf : (((n.log2 + 1 : Nat) : Int) - 2 + 1 - 0).toNat = n.log2 := by omega
  have hi : ((n.log2 + 1 : Nat) : Int) - 2 = ((n.log2 : Nat) : Int) - 1 := by omega
  rw [hbl, hf, hi]
  exact loop_pow inv x n n.log2 x (by rw [shiftRight_log2 n hn, pow_one])

/-- the translated `Exp` computes `x ^ n` for every natural exponent, in every monoid (whatever `inv` is, whatever z held) -/
theorem C01expgen_nat (z x : M) (n : Nat) : Exp (· * ·) 1 inv z x (n : Int) = x ^ n := by
  by_cases hn : n = 0
  · subst hn; simp [Exp, bigIsUint64, bigUint64]
  · have hz : ¬ (bigIsUint64 (n : Int) && (bigUint64 (n : Int) == 0)) = true := by
      simp only [bigIsUint64, bigUint64, Int.natAbs_natCast, Bool.and_eq_true, decide_eq_true_eq, beq_iff_eq, not_and]
      intro h; have : n < 2^64 := by omega
      rw [Nat.mod_eq_of_lt this]; exact hn
    have hs : ¬ (bigSign (n : Int) == -1) = true := by
      have : Int.sign (n : Int) = 1 := Int.sign_eq_one_of_pos (by omega)
      simp [bigSign, this]
    simp only [Exp, hz, hs, Bool.false_eq_true, if_false]
    exact tail_pow inv x n hn
end Monoid

section GroupWithZero
variable {G : Type} [GroupWithZero G]

/-- in every group with zero — in particular every field — the translated `Exp` computes `x ^ k` for ALL integers k:
`k = 0 ↦ 1` also for `x = 0`, negative k through the inverse -/
theorem C01expgen_zpow (z x : G) (k : ℤ) : Exp (· * ·) 1 (·⁻¹) z x k = x ^ k := by
  rcases Int.lt_or_le k 0 with hk | hk
  · obtain ⟨n, rfl⟩ : ∃ n : Nat, k = -((n + 1 : Nat) : Int) := ⟨(-k - 1).toNat, by omega⟩
    have hz : ¬ (bigIsUint64 (-((n + 1 : Nat) : Int)) && (bigUint64 (-((n + 1 : Nat) : Int)) == 0)) = true := by
      simp [bigIsUint64]; omega
    have hs : (bigSign (-((n + 1 : Nat) : Int)) == -1) = true := by
      have : Int.sign (-((n + 1 : Nat) : Int)) = -1 := Int.sign_eq_neg_one_of_neg (by omega)
      show (Int.sign _ == -1) = true
      rw [this]; rfl
    simp only [Exp, hz, hs, Bool.false_eq_true, if_false, if_true, neg_neg]
    rw [zpow_neg, zpow_natCast, ← inv_pow]
    exact tail_pow (fun a : G => a⁻¹) x⁻¹ (n + 1) (by omega)
  · obtain ⟨n, rfl⟩ : ∃ n : Nat, k = (n : Int) := ⟨k.toNat, by omega⟩
    rw [zpow_natCast]; exact C01expgen_nat _ z x n
end GroupWithZero

/-! ### transport along a representation map (limb-level value ↦ abstract field element) -/

section Hom
variable {F G : Type} (mulF : F → F → F) (oneF : F) (invF : F → F) (mulG : G → G → G) (oneG : G) (invG : G → G)
  (φ : F → G) (P : F → Prop)
  (hmul : ∀ a b, P a → P b → P (mulF a b) ∧ φ (mulF a b) = mulG (φ a) (φ b))
  (hone : P oneF ∧ φ oneF = oneG)
  (hinv : ∀ a, P a → P (invF a) ∧ φ (invF a) = invG (φ a))
include hmul

theorem loop_hom (x : F) (hx : P x) (e : Int) : ∀ (fuel : Nat) (z : F) (i : Int), P z →
    P (Exp.loop1 mulF oneF invF x e fuel z i).1 ∧
    φ (Exp.loop1 mulF oneF invF x e fuel z i).1 = (Exp.loop1 mulG oneG invG (φ x) e fuel (φ z) i).1 := by
  intro fuel
  induction fuel with
  | zero => intro z i hz; exact ⟨hz, rfl⟩
  | succ fuel ih =>
    intro z i hz
    simp only [Exp.loop1]
    by_cases hc : i ≥ 0
    · simp only [hc, decide_true, if_true]
      obtain ⟨p1, e1⟩ := hmul z z hz hz
      by_cases hb : (bigBit e i == 1) = true
      · simp only [hb, if_true]
        obtain ⟨p2, e2⟩ := hmul _ x p1 hx
        have := ih (mulF (mulF z z) x) (i - 1) p2
        rw [e2, e1] at this
        exact this
      · simp only [hb, Bool.false_eq_true, if_false]
        have := ih (mulF z z) (i - 1) p1
        rw [e1] at this
        exact this
    · simp only [hc, decide_false, Bool.false_eq_true, if_false]
      exact ⟨hz, trivial⟩

include hone hinv
/-- `Exp` commutes with every map that commutes with the three primitives on a set closed under them -/
theorem Exp_hom (z x : F) (hx : P x) (k : Int) :
    P (Exp mulF oneF invF z x k) ∧ φ (Exp mulF oneF invF z x k) = Exp mulG oneG invG (φ z) (φ x) k := by
  simp only [Exp]
  by_cases h0 : (bigIsUint64 k && (bigUint64 k == 0)) = true
  · simp only [h0, if_true]; exact hone
  · simp only [h0, Bool.false_eq_true, if_false]
    by_cases hs : (bigSign k == -1) = true
    · simp only [hs, if_true]
      obtain ⟨p1, e1⟩ := hinv x hx
      have := loop_hom mulF oneF invF mulG oneG invG φ P hmul (invF x) p1 (-k) (bigBitLen (-k) - 2 + 1 - 0).toNat (invF x)
        (bigBitLen (-k) - 2) p1
      rw [e1] at this
      exact this
    · simp only [hs, Bool.false_eq_true, if_false]
      exact loop_hom mulF oneF invF mulG oneG invG φ P hmul x hx k _ x _ hx
end Hom

/-! ### corollary on the Montgomery value level of Model/Field.lean -/

section Field
open GV.Field
variable (p : Params) [Fact p.q.Prime]

/-- the translated `Exp` run on the limb-level values of `GV.Field` (Montgomery `mul`, `one`, `inv` of Model/Field.lean, proved
against the regenerated limb code by C01_limb) returns a reduced value whose abstract field element is `x ^ k`, for every reduced
`x` and ALL integers `k` — the same statement as `C01_exp` for the hand-written `exp` -/
theorem C01expgen_field (h : p.OK) (z x : Nat) (hx : x < p.q) (k : ℤ) :
    Exp (mul p) (one p) (inv p) z x k < p.q ∧ abs p (Exp (mul p) (one p) (inv p) z x k) = abs p x ^ k := by
  have := Exp_hom (mul p) (one p) (inv p) (· * ·) 1 (·⁻¹) (abs p) (fun a => a < p.q)
    (fun a b ha hb => ⟨C01_mul_canonical p h a b ha hb, C01_mul_exact p h a b ha hb⟩)
    (C01_one p h) (fun a ha => C01_inv p h a ha) z x hx k
  rw [C01expgen_zpow] at this
  exact this

/-- hence the translated text agrees with the hand-written model `GV.Field.exp` as field elements -/
theorem C01expgen_eq_model (h : p.OK) (z x : Nat) (hx : x < p.q) (k : ℤ) :
    abs p (Exp (mul p) (one p) (inv p) z x k) = abs p (exp p x k) := by
  rw [(C01expgen_field p h z x hx k).2, (C01_exp p h x hx k).2]
end Field

/-! ### all 23 field packages

`Element.Exp` is template-generated; the translator reads EVERY package's element.go on every run (Gen/Imp/Exp_<pkg>.lean) and
Gen/Imp/ExpAll.lean proves each translation equal to the bn254/fr one (`<pkg>_same`, `allExp_same`), so the theorems hold of all. -/

theorem C01expgen_all_zpow {G : Type} [GroupWithZero G] :
    ∀ e ∈ GV.Gen.Imp.ExpAll.allExp, ∀ (z x : G) (k : ℤ), e.2 (· * ·) 1 (·⁻¹) z x k = x ^ k := by
  intro e he z x k
  have := GV.Gen.Imp.ExpAll.allExp_same e he
  rw [show e.2 (· * ·) 1 (·⁻¹) z x k = @Exp_bn254_fr.Exp G (· * ·) 1 (·⁻¹) z x k from by rw [this]]
  exact C01expgen_zpow z x k

theorem C01expgen_all_field (p : GV.Field.Params) [Fact p.q.Prime] (h : p.OK) :
    ∀ e ∈ GV.Gen.Imp.ExpAll.allExp, ∀ (z x : Nat) (k : ℤ), x < p.q →
      e.2 (GV.Field.mul p) (GV.Field.one p) (GV.Field.inv p) z x k < p.q ∧
      GV.Field.abs p (e.2 (GV.Field.mul p) (GV.Field.one p) (GV.Field.inv p) z x k) = GV.Field.abs p x ^ k := by
  intro e he z x k hx
  have := GV.Gen.Imp.ExpAll.allExp_same e he
  rw [show e.2 (GV.Field.mul p) (GV.Field.one p) (GV.Field.inv p) z x k =
    @Exp_bn254_fr.Exp Nat (GV.Field.mul p) (GV.Field.one p) (GV.Field.inv p) z x k from by rw [this]]
  exact C01expgen_field p h z x hx k

theorem C01expgen_all_packages : GV.Gen.Imp.ExpAll.allExp.length = 23 := rfl

/-! non-vacuity: the generated code on integers mod 251 in Montgomery form, and in ℚ -/
example : Exp (· * ·) 1 (·⁻¹) (7 : ℚ) 2 10 = 1024 ∧ Exp (· * ·) 1 (·⁻¹) (7 : ℚ) 2 (-3) = 1 / 8 ∧
    Exp (· * ·) 1 (·⁻¹) (7 : ℚ) 0 0 = 1 ∧ Exp (· * ·) 1 (·⁻¹) (7 : ℚ) 0 (-2) = 0 := by
  refine ⟨?_, ?_, ?_, ?_⟩ <;> rw [C01expgen_zpow] <;> norm_num

end GV.ExpGen
