import GnarkVerif.Proofs.Bytes
import GnarkVerif.Props.C01_limb_bls12_381_fp
import GnarkVerif.Gen.Bytes.Bls12_381_fp
/-
C08_gen (bls12_381_fp) — the byte <-> limb conversion code of /repo's bls12_381_fp package (Gen/Bytes/Bls12_381_fp.lean, regenerated on every run by
tools/goslp/bytes.go; its calls of Mul / fromMontGeneric / smallerThanModulus are the definitions of Gen/Limb/Bls12_381_fp.lean of the same run)
against the hand model `GV.Conv` (Model/Conv.lean) and the value-level field model `GV.Field`, for ALL byte arrays and ALL canonical elements.
`val [l0, …] = Σ lᵢ·2^(64·i)`; `P` = the parameter set of the regenerated constants; a decoder result is `(limbs…, err)` with err = 0 for nil.
-/
set_option maxRecDepth 100000
set_option maxHeartbeats 2000000
set_option linter.unusedVariables false
set_option linter.unusedSimpArgs false
namespace GV.C08gen.bls12_381_fp
open GV.Field GV.Limb GV.Bytes GV.Limb.bls12_381_fp

theorem val_lin (z0 z1 z2 z3 z4 z5 : Nat) : val [z0, z1, z2, z3, z4, z5] = z0 + 18446744073709551616 * z1 + 340282366920938463463374607431768211456 * z2 + 6277101735386680763835789423207666416102355444464034512896 * z3 + 115792089237316195423570985008687907853269984665640564039457584007913129639936 * z4 + 2135987035920910082395021706169552114602704522356652769947041607822219725780640550022962086936576 * z5 := by
  simp only [val, limbsVal]; ring

/-- words are determined by the value -/
theorem val_inj (a0 a1 a2 a3 a4 a5 c0 c1 c2 c3 c4 c5 : Nat) (ha0 : a0 < 18446744073709551616) (ha1 : a1 < 18446744073709551616) (ha2 : a2 < 18446744073709551616) (ha3 : a3 < 18446744073709551616) (ha4 : a4 < 18446744073709551616) (ha5 : a5 < 18446744073709551616) (hc0 : c0 < 18446744073709551616) (hc1 : c1 < 18446744073709551616) (hc2 : c2 < 18446744073709551616) (hc3 : c3 < 18446744073709551616) (hc4 : c4 < 18446744073709551616) (hc5 : c5 < 18446744073709551616)
    (h : val [a0, a1, a2, a3, a4, a5] = val [c0, c1, c2, c3, c4, c5]) : a0 = c0 ∧ a1 = c1 ∧ a2 = c2 ∧ a3 = c3 ∧ a4 = c4 ∧ a5 = c5 := by
  rw [val_lin, val_lin] at h; omega

/-- `q ≤ 256^Bytes` for the regenerated constants: every canonical value has a `Bytes`-long encoding -/
theorem q_le : P.q ≤ 256 ^ 48 := by rw [P_q]; decide
theorem nBytes_eq : Gen.Bytes.bls12_381_fp.nBytes = 48 ∧ GV.Gen.bls12_381_fp.bytes = 48 := ⟨rfl, rfl⟩

/-- the Go literal `rSquare` is `R² mod q` of the model -/
theorem rSquare_val : val [17644856173732828998, 754043588434789617, 10224657059481499349, 7488229067341005760, 11130996698012816685, 1267921511277847466] = GV.Field.rSquare P := by decide +kernel

/-- `toMont` of the Go text (`z.Mul(z, &rSquare)`) is `GV.Field.toMont` -/
theorem toMont_spec (z0 z1 z2 z3 z4 z5 : Nat) (hz0 : z0 < 18446744073709551616) (hz1 : z1 < 18446744073709551616) (hz2 : z2 < 18446744073709551616) (hz3 : z3 < 18446744073709551616) (hz4 : z4 < 18446744073709551616) (hz5 : z5 < 18446744073709551616) (hZ : val [z0, z1, z2, z3, z4, z5] < P.q) :
    Good (Gen.Limb.bls12_381_fp.Mul z0 z1 z2 z3 z4 z5 17644856173732828998 754043588434789617 10224657059481499349 7488229067341005760 11130996698012816685 1267921511277847466) ∧ tval (Gen.Limb.bls12_381_fp.Mul z0 z1 z2 z3 z4 z5 17644856173732828998 754043588434789617 10224657059481499349 7488229067341005760 11130996698012816685 1267921511277847466) = GV.Field.toMont P (val [z0, z1, z2, z3, z4, z5]) := by
  have hr : val [17644856173732828998, 754043588434789617, 10224657059481499349, 7488229067341005760, 11130996698012816685, 1267921511277847466] < P.q := by rw [rSquare_val]; exact rSquare_lt P P_ok
  obtain ⟨g, e⟩ := Mul_spec z0 z1 z2 z3 z4 z5 17644856173732828998 754043588434789617 10224657059481499349 7488229067341005760 11130996698012816685 1267921511277847466 hz0 hz1 hz2 hz3 hz4 hz5 (by omega) (by omega) (by omega) (by omega) (by omega) (by omega) hZ hr
  exact ⟨g, by rw [e, rSquare_val]; rfl⟩

/-! ### wiring: the words the decoders load are the limbs of the array's value -/

theorem words_BE (b : List UInt8) :
    Conv.limbsOfBE 8 6 b = [beUint 8 (slice b 40 48), beUint 8 (slice b 32 40), beUint 8 (slice b 24 32), beUint 8 (slice b 16 24), beUint 8 (slice b 8 16), beUint 8 (slice b 0 8)] := by
  simp [Conv.limbsOfBE, Conv.chunks, slice, beUint, List.drop_drop, List.take_take]

theorem words_LE (b : List UInt8) :
    Conv.limbsOfLE 8 6 b = [leUint 8 (slice b 0 8), leUint 8 (slice b 8 16), leUint 8 (slice b 16 24), leUint 8 (slice b 24 32), leUint 8 (slice b 32 40), leUint 8 (slice b 40 48)] := by
  simp [Conv.limbsOfLE, Conv.chunks, slice, leUint, List.drop_drop, List.take_take]

theorem words_BE_spec (b : List UInt8) (hb : b.length = 48) :
    (beUint 8 (slice b 40 48) < 18446744073709551616 ∧ beUint 8 (slice b 32 40) < 18446744073709551616 ∧ beUint 8 (slice b 24 32) < 18446744073709551616 ∧ beUint 8 (slice b 16 24) < 18446744073709551616 ∧ beUint 8 (slice b 8 16) < 18446744073709551616 ∧ beUint 8 (slice b 0 8) < 18446744073709551616) ∧
      val [beUint 8 (slice b 40 48), beUint 8 (slice b 32 40), beUint 8 (slice b 24 32), beUint 8 (slice b 16 24), beUint 8 (slice b 8 16), beUint 8 (slice b 0 8)] = Conv.beToNat b := by
  have hl := Conv.limbsOfBE_lt 8 6 b
  have e := Conv.ofLimbs_limbsOfBE 8 6 b (by rw [hb])
  rw [words_BE, ← Conv.limbsVal_eq_ofLimbs] at e
  rw [words_BE] at hl
  simp only [List.mem_cons, List.mem_nil_iff, or_false, forall_eq_or_imp, forall_eq, Nat.reducePow] at hl
  exact ⟨hl, e⟩

theorem words_LE_spec (b : List UInt8) (hb : b.length = 48) :
    (leUint 8 (slice b 0 8) < 18446744073709551616 ∧ leUint 8 (slice b 8 16) < 18446744073709551616 ∧ leUint 8 (slice b 16 24) < 18446744073709551616 ∧ leUint 8 (slice b 24 32) < 18446744073709551616 ∧ leUint 8 (slice b 32 40) < 18446744073709551616 ∧ leUint 8 (slice b 40 48) < 18446744073709551616) ∧
      val [leUint 8 (slice b 0 8), leUint 8 (slice b 8 16), leUint 8 (slice b 16 24), leUint 8 (slice b 24 32), leUint 8 (slice b 32 40), leUint 8 (slice b 40 48)] = Conv.leToNat b := by
  have hl := Conv.limbsOfLE_lt 8 6 b
  have e := Conv.ofLimbs_limbsOfLE 8 6 b (by rw [hb])
  rw [words_LE, ← Conv.limbsVal_eq_ofLimbs] at e
  rw [words_LE] at hl
  simp only [List.mem_cons, List.mem_nil_iff, or_false, forall_eq_or_imp, forall_eq, Nat.reducePow] at hl
  exact ⟨hl, e⟩

/-! ### decoders: strict — an error EXACTLY when the value is `≥ q`, otherwise the canonical Montgomery element of the value -/

/-- the common tail of both decoders: `if !z.smallerThanModulus() { return Element{}, err }; z.toMont(); return z, nil` -/
theorem decode_tail (z0 z1 z2 z3 z4 z5 : Nat) (hz0 : z0 < 18446744073709551616) (hz1 : z1 < 18446744073709551616) (hz2 : z2 < 18446744073709551616) (hz3 : z3 < 18446744073709551616) (hz4 : z4 < 18446744073709551616) (hz5 : z5 < 18446744073709551616) :
    (P.q ≤ val [z0, z1, z2, z3, z4, z5] → ¬ Gen.Limb.bls12_381_fp.smallerThanModulus z0 z1 z2 z3 z4 z5) ∧
    (val [z0, z1, z2, z3, z4, z5] < P.q → Gen.Limb.bls12_381_fp.smallerThanModulus z0 z1 z2 z3 z4 z5) := by
  have h := smaller_iff z0 z1 z2 z3 z4 z5 hz0 hz1 hz2 hz3 hz4 hz5
  rw [val_lin, P_q]
  exact ⟨fun hq hs => by have := h.mp hs; omega, fun hq => h.mpr hq⟩

/-- **C08_gen** `bigEndian.Element` rejects every array whose value is `≥ q` (returns `Element{}` and the error) -/
theorem bigEndian_Element_reject (b : List UInt8) (hb : b.length = 48) (h : P.q ≤ Conv.beToNat b) :
    Gen.Bytes.bls12_381_fp.bigEndian_Element b = (0, 0, 0, 0, 0, 0, 1) := by
  obtain ⟨hw, hv⟩ := words_BE_spec b hb
  unfold Gen.Bytes.bls12_381_fp.bigEndian_Element
  simp only []
  generalize beUint 8 (slice b 40 48) = z0 at hw hv ⊢
  generalize beUint 8 (slice b 32 40) = z1 at hw hv ⊢
  generalize beUint 8 (slice b 24 32) = z2 at hw hv ⊢
  generalize beUint 8 (slice b 16 24) = z3 at hw hv ⊢
  generalize beUint 8 (slice b 8 16) = z4 at hw hv ⊢
  generalize beUint 8 (slice b 0 8) = z5 at hw hv ⊢
  obtain ⟨hz0, hz1, hz2, hz3, hz4, hz5⟩ := hw
  have hn := (decode_tail z0 z1 z2 z3 z4 z5 hz0 hz1 hz2 hz3 hz4 hz5).1 (by rw [hv]; exact h)
  simp only [hn, not_false_eq_true, if_true]

/-- … and accepts every other one: the result is the canonical Montgomery element of the array's value, error nil -/
theorem bigEndian_Element_accept (b : List UInt8) (hb : b.length = 48) (h : Conv.beToNat b < P.q) :
    ∃ m0 m1 m2 m3 m4 m5 : Nat, Good (m0, m1, m2, m3, m4, m5) ∧ val [m0, m1, m2, m3, m4, m5] = GV.Field.toMont P (Conv.beToNat b) ∧
      Gen.Bytes.bls12_381_fp.bigEndian_Element b = (m0, m1, m2, m3, m4, m5, 0) := by
  obtain ⟨hw, hv⟩ := words_BE_spec b hb
  unfold Gen.Bytes.bls12_381_fp.bigEndian_Element
  simp only []
  generalize beUint 8 (slice b 40 48) = z0 at hw hv ⊢
  generalize beUint 8 (slice b 32 40) = z1 at hw hv ⊢
  generalize beUint 8 (slice b 24 32) = z2 at hw hv ⊢
  generalize beUint 8 (slice b 16 24) = z3 at hw hv ⊢
  generalize beUint 8 (slice b 8 16) = z4 at hw hv ⊢
  generalize beUint 8 (slice b 0 8) = z5 at hw hv ⊢
  obtain ⟨hz0, hz1, hz2, hz3, hz4, hz5⟩ := hw
  have hs := (decode_tail z0 z1 z2 z3 z4 z5 hz0 hz1 hz2 hz3 hz4 hz5).2 (by rw [hv]; exact h)
  obtain ⟨g, e⟩ := toMont_spec z0 z1 z2 z3 z4 z5 hz0 hz1 hz2 hz3 hz4 hz5 (by rw [hv]; exact h)
  rw [hv] at e
  refine ⟨(Gen.Limb.bls12_381_fp.Mul z0 z1 z2 z3 z4 z5 17644856173732828998 754043588434789617 10224657059481499349 7488229067341005760 11130996698012816685 1267921511277847466).1, (Gen.Limb.bls12_381_fp.Mul z0 z1 z2 z3 z4 z5 17644856173732828998 754043588434789617 10224657059481499349 7488229067341005760 11130996698012816685 1267921511277847466).2.1, (Gen.Limb.bls12_381_fp.Mul z0 z1 z2 z3 z4 z5 17644856173732828998 754043588434789617 10224657059481499349 7488229067341005760 11130996698012816685 1267921511277847466).2.2.1, (Gen.Limb.bls12_381_fp.Mul z0 z1 z2 z3 z4 z5 17644856173732828998 754043588434789617 10224657059481499349 7488229067341005760 11130996698012816685 1267921511277847466).2.2.2.1, (Gen.Limb.bls12_381_fp.Mul z0 z1 z2 z3 z4 z5 17644856173732828998 754043588434789617 10224657059481499349 7488229067341005760 11130996698012816685 1267921511277847466).2.2.2.2.1, (Gen.Limb.bls12_381_fp.Mul z0 z1 z2 z3 z4 z5 17644856173732828998 754043588434789617 10224657059481499349 7488229067341005760 11130996698012816685 1267921511277847466).2.2.2.2.2, g, e, ?_⟩
  simp only [hs, not_true_eq_false, if_false]

/-- the error flag: nil IFF the value is below `q` ("strict decoders reject non-canonical input", of the Go text) -/
theorem bigEndian_Element_err_iff (b : List UInt8) (hb : b.length = 48) :
    (Gen.Bytes.bls12_381_fp.bigEndian_Element b).2.2.2.2.2.2 ≠ 0 ↔ P.q ≤ Conv.beToNat b := by
  by_cases h : Conv.beToNat b < P.q
  · obtain ⟨m0, m1, m2, m3, m4, m5, _, _, e⟩ := bigEndian_Element_accept b hb h
    rw [e]; simp only [ne_eq, not_true_eq_false, false_iff]; omega
  · rw [bigEndian_Element_reject b hb (by omega)]; simp only [ne_eq, one_ne_zero, not_false_eq_true, true_iff]; omega

/-- the hand model's decoder (`Conv.elementBE`, on regular values) is the generated one followed by `fromMont` -/
theorem bigEndian_Element_model (b : List UInt8) (hb : b.length = 48) :
    Conv.elementBE P.q b =
      (if (Gen.Bytes.bls12_381_fp.bigEndian_Element b).2.2.2.2.2.2 = 0 then
        .ok (GV.Field.fromMont P (val [(Gen.Bytes.bls12_381_fp.bigEndian_Element b).1, (Gen.Bytes.bls12_381_fp.bigEndian_Element b).2.1, (Gen.Bytes.bls12_381_fp.bigEndian_Element b).2.2.1, (Gen.Bytes.bls12_381_fp.bigEndian_Element b).2.2.2.1, (Gen.Bytes.bls12_381_fp.bigEndian_Element b).2.2.2.2.1, (Gen.Bytes.bls12_381_fp.bigEndian_Element b).2.2.2.2.2.1])) else .error .invalid) := by
  by_cases h : Conv.beToNat b < P.q
  · obtain ⟨m0, m1, m2, m3, m4, m5, _, hm, e⟩ := bigEndian_Element_accept b hb h
    rw [e]
    simp only [if_true, hm, fromMont_toMont P P_ok _ h, Conv.elementBE, h]
  · rw [bigEndian_Element_reject b hb (by omega)]
    simp only [one_ne_zero, if_false, Conv.elementBE, h]

/-- **C08_gen** `littleEndian.Element` rejects every array whose value is `≥ q` (returns `Element{}` and the error) -/
theorem littleEndian_Element_reject (b : List UInt8) (hb : b.length = 48) (h : P.q ≤ Conv.leToNat b) :
    Gen.Bytes.bls12_381_fp.littleEndian_Element b = (0, 0, 0, 0, 0, 0, 1) := by
  obtain ⟨hw, hv⟩ := words_LE_spec b hb
  unfold Gen.Bytes.bls12_381_fp.littleEndian_Element
  simp only []
  generalize leUint 8 (slice b 0 8) = z0 at hw hv ⊢
  generalize leUint 8 (slice b 8 16) = z1 at hw hv ⊢
  generalize leUint 8 (slice b 16 24) = z2 at hw hv ⊢
  generalize leUint 8 (slice b 24 32) = z3 at hw hv ⊢
  generalize leUint 8 (slice b 32 40) = z4 at hw hv ⊢
  generalize leUint 8 (slice b 40 48) = z5 at hw hv ⊢
  obtain ⟨hz0, hz1, hz2, hz3, hz4, hz5⟩ := hw
  have hn := (decode_tail z0 z1 z2 z3 z4 z5 hz0 hz1 hz2 hz3 hz4 hz5).1 (by rw [hv]; exact h)
  simp only [hn, not_false_eq_true, if_true]

/-- … and accepts every other one: the result is the canonical Montgomery element of the array's value, error nil -/
theorem littleEndian_Element_accept (b : List UInt8) (hb : b.length = 48) (h : Conv.leToNat b < P.q) :
    ∃ m0 m1 m2 m3 m4 m5 : Nat, Good (m0, m1, m2, m3, m4, m5) ∧ val [m0, m1, m2, m3, m4, m5] = GV.Field.toMont P (Conv.leToNat b) ∧
      Gen.Bytes.bls12_381_fp.littleEndian_Element b = (m0, m1, m2, m3, m4, m5, 0) := by
  obtain ⟨hw, hv⟩ := words_LE_spec b hb
  unfold Gen.Bytes.bls12_381_fp.littleEndian_Element
  simp only []
  generalize leUint 8 (slice b 0 8) = z0 at hw hv ⊢
  generalize leUint 8 (slice b 8 16) = z1 at hw hv ⊢
  generalize leUint 8 (slice b 16 24) = z2 at hw hv ⊢
  generalize leUint 8 (slice b 24 32) = z3 at hw hv ⊢
  generalize leUint 8 (slice b 32 40) = z4 at hw hv ⊢
  generalize leUint 8 (slice b 40 48) = z5 at hw hv ⊢
  obtain ⟨hz0, hz1, hz2, hz3, hz4, hz5⟩ := hw
  have hs := (decode_tail z0 z1 z2 z3 z4 z5 hz0 hz1 hz2 hz3 hz4 hz5).2 (by rw [hv]; exact h)
  obtain ⟨g, e⟩ := toMont_spec z0 z1 z2 z3 z4 z5 hz0 hz1 hz2 hz3 hz4 hz5 (by rw [hv]; exact h)
  rw [hv] at e
  refine ⟨(Gen.Limb.bls12_381_fp.Mul z0 z1 z2 z3 z4 z5 17644856173732828998 754043588434789617 10224657059481499349 7488229067341005760 11130996698012816685 1267921511277847466).1, (Gen.Limb.bls12_381_fp.Mul z0 z1 z2 z3 z4 z5 17644856173732828998 754043588434789617 10224657059481499349 7488229067341005760 11130996698012816685 1267921511277847466).2.1, (Gen.Limb.bls12_381_fp.Mul z0 z1 z2 z3 z4 z5 17644856173732828998 754043588434789617 10224657059481499349 7488229067341005760 11130996698012816685 1267921511277847466).2.2.1, (Gen.Limb.bls12_381_fp.Mul z0 z1 z2 z3 z4 z5 17644856173732828998 754043588434789617 10224657059481499349 7488229067341005760 11130996698012816685 1267921511277847466).2.2.2.1, (Gen.Limb.bls12_381_fp.Mul z0 z1 z2 z3 z4 z5 17644856173732828998 754043588434789617 10224657059481499349 7488229067341005760 11130996698012816685 1267921511277847466).2.2.2.2.1, (Gen.Limb.bls12_381_fp.Mul z0 z1 z2 z3 z4 z5 17644856173732828998 754043588434789617 10224657059481499349 7488229067341005760 11130996698012816685 1267921511277847466).2.2.2.2.2, g, e, ?_⟩
  simp only [hs, not_true_eq_false, if_false]

/-- the error flag: nil IFF the value is below `q` ("strict decoders reject non-canonical input", of the Go text) -/
theorem littleEndian_Element_err_iff (b : List UInt8) (hb : b.length = 48) :
    (Gen.Bytes.bls12_381_fp.littleEndian_Element b).2.2.2.2.2.2 ≠ 0 ↔ P.q ≤ Conv.leToNat b := by
  by_cases h : Conv.leToNat b < P.q
  · obtain ⟨m0, m1, m2, m3, m4, m5, _, _, e⟩ := littleEndian_Element_accept b hb h
    rw [e]; simp only [ne_eq, not_true_eq_false, false_iff]; omega
  · rw [littleEndian_Element_reject b hb (by omega)]; simp only [ne_eq, one_ne_zero, not_false_eq_true, true_iff]; omega

/-- the hand model's decoder (`Conv.elementLE`, on regular values) is the generated one followed by `fromMont` -/
theorem littleEndian_Element_model (b : List UInt8) (hb : b.length = 48) :
    Conv.elementLE P.q b =
      (if (Gen.Bytes.bls12_381_fp.littleEndian_Element b).2.2.2.2.2.2 = 0 then
        .ok (GV.Field.fromMont P (val [(Gen.Bytes.bls12_381_fp.littleEndian_Element b).1, (Gen.Bytes.bls12_381_fp.littleEndian_Element b).2.1, (Gen.Bytes.bls12_381_fp.littleEndian_Element b).2.2.1, (Gen.Bytes.bls12_381_fp.littleEndian_Element b).2.2.2.1, (Gen.Bytes.bls12_381_fp.littleEndian_Element b).2.2.2.2.1, (Gen.Bytes.bls12_381_fp.littleEndian_Element b).2.2.2.2.2.1])) else .error .invalid) := by
  by_cases h : Conv.leToNat b < P.q
  · obtain ⟨m0, m1, m2, m3, m4, m5, _, hm, e⟩ := littleEndian_Element_accept b hb h
    rw [e]
    simp only [if_true, hm, fromMont_toMont P P_ok _ h, Conv.elementLE, h]
  · rw [littleEndian_Element_reject b hb (by omega)]
    simp only [one_ne_zero, if_false, Conv.elementLE, h]

/-! ### encoders: the bytes are the base-256 digits of the REGULAR value `val z · R⁻¹ mod q` -/

theorem put_BE (b : List UInt8) (hb : b.length = 48) (r0 r1 r2 r3 r4 r5 : Nat) (hr0 : r0 < 18446744073709551616) (hr1 : r1 < 18446744073709551616) (hr2 : r2 < 18446744073709551616) (hr3 : r3 < 18446744073709551616) (hr4 : r4 < 18446744073709551616) (hr5 : r5 < 18446744073709551616) :
    (putSlice (putSlice (putSlice (putSlice (putSlice (putSlice b 40 48 (Conv.natToBE 8 r0)) 32 40 (Conv.natToBE 8 r1)) 24 32 (Conv.natToBE 8 r2)) 16 24 (Conv.natToBE 8 r3)) 8 16 (Conv.natToBE 8 r4)) 0 8 (Conv.natToBE 8 r5)) = Conv.natToBE 48 (val [r0, r1, r2, r3, r4, r5]) := by
  have l0 : b.length = 48 := hb
  have l1 : (putSlice b 40 48 (Conv.natToBE 8 r0)).length = 48 := by
    rw [Conv.length_putSlice _ _ _ _ (by omega) (by omega) (by rw [Conv.natToBE_length])]; exact l0
  have l2 : (putSlice (putSlice b 40 48 (Conv.natToBE 8 r0)) 32 40 (Conv.natToBE 8 r1)).length = 48 := by
    rw [Conv.length_putSlice _ _ _ _ (by omega) (by omega) (by rw [Conv.natToBE_length])]; exact l1
  have l3 : (putSlice (putSlice (putSlice b 40 48 (Conv.natToBE 8 r0)) 32 40 (Conv.natToBE 8 r1)) 24 32 (Conv.natToBE 8 r2)).length = 48 := by
    rw [Conv.length_putSlice _ _ _ _ (by omega) (by omega) (by rw [Conv.natToBE_length])]; exact l2
  have l4 : (putSlice (putSlice (putSlice (putSlice b 40 48 (Conv.natToBE 8 r0)) 32 40 (Conv.natToBE 8 r1)) 24 32 (Conv.natToBE 8 r2)) 16 24 (Conv.natToBE 8 r3)).length = 48 := by
    rw [Conv.length_putSlice _ _ _ _ (by omega) (by omega) (by rw [Conv.natToBE_length])]; exact l3
  have l5 : (putSlice (putSlice (putSlice (putSlice (putSlice b 40 48 (Conv.natToBE 8 r0)) 32 40 (Conv.natToBE 8 r1)) 24 32 (Conv.natToBE 8 r2)) 16 24 (Conv.natToBE 8 r3)) 8 16 (Conv.natToBE 8 r4)).length = 48 := by
    rw [Conv.length_putSlice _ _ _ _ (by omega) (by omega) (by rw [Conv.natToBE_length])]; exact l4
  have l6 : (putSlice (putSlice (putSlice (putSlice (putSlice (putSlice b 40 48 (Conv.natToBE 8 r0)) 32 40 (Conv.natToBE 8 r1)) 24 32 (Conv.natToBE 8 r2)) 16 24 (Conv.natToBE 8 r3)) 8 16 (Conv.natToBE 8 r4)) 0 8 (Conv.natToBE 8 r5)).length = 48 := by
    rw [Conv.length_putSlice _ _ _ _ (by omega) (by omega) (by rw [Conv.natToBE_length])]; exact l5
  have s0 : slice (putSlice (putSlice (putSlice (putSlice (putSlice (putSlice b 40 48 (Conv.natToBE 8 r0)) 32 40 (Conv.natToBE 8 r1)) 24 32 (Conv.natToBE 8 r2)) 16 24 (Conv.natToBE 8 r3)) 8 16 (Conv.natToBE 8 r4)) 0 8 (Conv.natToBE 8 r5)) 40 48 = Conv.natToBE 8 r0 := by
    rw [Conv.slice_putSlice_disj _ _ _ _ _ _ (by omega) (by omega) (by rw [Conv.natToBE_length]) (by omega),
      Conv.slice_putSlice_disj _ _ _ _ _ _ (by omega) (by omega) (by rw [Conv.natToBE_length]) (by omega),
      Conv.slice_putSlice_disj _ _ _ _ _ _ (by omega) (by omega) (by rw [Conv.natToBE_length]) (by omega),
      Conv.slice_putSlice_disj _ _ _ _ _ _ (by omega) (by omega) (by rw [Conv.natToBE_length]) (by omega),
      Conv.slice_putSlice_disj _ _ _ _ _ _ (by omega) (by omega) (by rw [Conv.natToBE_length]) (by omega),
      Conv.slice_putSlice_same _ _ _ _ (by omega) (by omega) (by rw [Conv.natToBE_length])]
  have s1 : slice (putSlice (putSlice (putSlice (putSlice (putSlice (putSlice b 40 48 (Conv.natToBE 8 r0)) 32 40 (Conv.natToBE 8 r1)) 24 32 (Conv.natToBE 8 r2)) 16 24 (Conv.natToBE 8 r3)) 8 16 (Conv.natToBE 8 r4)) 0 8 (Conv.natToBE 8 r5)) 32 40 = Conv.natToBE 8 r1 := by
    rw [Conv.slice_putSlice_disj _ _ _ _ _ _ (by omega) (by omega) (by rw [Conv.natToBE_length]) (by omega),
      Conv.slice_putSlice_disj _ _ _ _ _ _ (by omega) (by omega) (by rw [Conv.natToBE_length]) (by omega),
      Conv.slice_putSlice_disj _ _ _ _ _ _ (by omega) (by omega) (by rw [Conv.natToBE_length]) (by omega),
      Conv.slice_putSlice_disj _ _ _ _ _ _ (by omega) (by omega) (by rw [Conv.natToBE_length]) (by omega),
      Conv.slice_putSlice_same _ _ _ _ (by omega) (by omega) (by rw [Conv.natToBE_length])]
  have s2 : slice (putSlice (putSlice (putSlice (putSlice (putSlice (putSlice b 40 48 (Conv.natToBE 8 r0)) 32 40 (Conv.natToBE 8 r1)) 24 32 (Conv.natToBE 8 r2)) 16 24 (Conv.natToBE 8 r3)) 8 16 (Conv.natToBE 8 r4)) 0 8 (Conv.natToBE 8 r5)) 24 32 = Conv.natToBE 8 r2 := by
    rw [Conv.slice_putSlice_disj _ _ _ _ _ _ (by omega) (by omega) (by rw [Conv.natToBE_length]) (by omega),
      Conv.slice_putSlice_disj _ _ _ _ _ _ (by omega) (by omega) (by rw [Conv.natToBE_length]) (by omega),
      Conv.slice_putSlice_disj _ _ _ _ _ _ (by omega) (by omega) (by rw [Conv.natToBE_length]) (by omega),
      Conv.slice_putSlice_same _ _ _ _ (by omega) (by omega) (by rw [Conv.natToBE_length])]
  have s3 : slice (putSlice (putSlice (putSlice (putSlice (putSlice (putSlice b 40 48 (Conv.natToBE 8 r0)) 32 40 (Conv.natToBE 8 r1)) 24 32 (Conv.natToBE 8 r2)) 16 24 (Conv.natToBE 8 r3)) 8 16 (Conv.natToBE 8 r4)) 0 8 (Conv.natToBE 8 r5)) 16 24 = Conv.natToBE 8 r3 := by
    rw [Conv.slice_putSlice_disj _ _ _ _ _ _ (by omega) (by omega) (by rw [Conv.natToBE_length]) (by omega),
      Conv.slice_putSlice_disj _ _ _ _ _ _ (by omega) (by omega) (by rw [Conv.natToBE_length]) (by omega),
      Conv.slice_putSlice_same _ _ _ _ (by omega) (by omega) (by rw [Conv.natToBE_length])]
  have s4 : slice (putSlice (putSlice (putSlice (putSlice (putSlice (putSlice b 40 48 (Conv.natToBE 8 r0)) 32 40 (Conv.natToBE 8 r1)) 24 32 (Conv.natToBE 8 r2)) 16 24 (Conv.natToBE 8 r3)) 8 16 (Conv.natToBE 8 r4)) 0 8 (Conv.natToBE 8 r5)) 8 16 = Conv.natToBE 8 r4 := by
    rw [Conv.slice_putSlice_disj _ _ _ _ _ _ (by omega) (by omega) (by rw [Conv.natToBE_length]) (by omega),
      Conv.slice_putSlice_same _ _ _ _ (by omega) (by omega) (by rw [Conv.natToBE_length])]
  have s5 : slice (putSlice (putSlice (putSlice (putSlice (putSlice (putSlice b 40 48 (Conv.natToBE 8 r0)) 32 40 (Conv.natToBE 8 r1)) 24 32 (Conv.natToBE 8 r2)) 16 24 (Conv.natToBE 8 r3)) 8 16 (Conv.natToBE 8 r4)) 0 8 (Conv.natToBE 8 r5)) 0 8 = Conv.natToBE 8 r5 := by
    rw [Conv.slice_putSlice_same _ _ _ _ (by omega) (by omega) (by rw [Conv.natToBE_length])]
  have hw : Conv.limbsOfBE 8 6 (putSlice (putSlice (putSlice (putSlice (putSlice (putSlice b 40 48 (Conv.natToBE 8 r0)) 32 40 (Conv.natToBE 8 r1)) 24 32 (Conv.natToBE 8 r2)) 16 24 (Conv.natToBE 8 r3)) 8 16 (Conv.natToBE 8 r4)) 0 8 (Conv.natToBE 8 r5)) = [r0, r1, r2, r3, r4, r5] := by
    rw [words_BE]
    simp only [beUint, s0, s1, s2, s3, s4, s5, List.take_of_length_le (Nat.le_of_eq (Conv.natToBE_length 8 _)), Conv.beToNat_natToBE_of_lt 8 r0 (by omega), Conv.beToNat_natToBE_of_lt 8 r1 (by omega), Conv.beToNat_natToBE_of_lt 8 r2 (by omega), Conv.beToNat_natToBE_of_lt 8 r3 (by omega), Conv.beToNat_natToBE_of_lt 8 r4 (by omega), Conv.beToNat_natToBE_of_lt 8 r5 (by omega)]
  have := Conv.eq_natToBE_of_limbs 8 6 _ [r0, r1, r2, r3, r4, r5] (by rw [l6]) hw
  rw [← Conv.limbsVal_eq_ofLimbs] at this
  exact this

/-- **C08_gen** `bigEndian.PutElement` writes the big-endian base-256 digits (length Bytes) of the regular value of a
canonical Montgomery element, whatever the array held before -/
theorem bigEndian_PutElement_spec (b : List UInt8) (hb : b.length = 48) (z0 z1 z2 z3 z4 z5 : Nat) (hz0 : z0 < 18446744073709551616) (hz1 : z1 < 18446744073709551616) (hz2 : z2 < 18446744073709551616) (hz3 : z3 < 18446744073709551616) (hz4 : z4 < 18446744073709551616) (hz5 : z5 < 18446744073709551616) (hZ : val [z0, z1, z2, z3, z4, z5] < P.q) :
    Gen.Bytes.bls12_381_fp.bigEndian_PutElement b z0 z1 z2 z3 z4 z5 = Conv.toBytesBE 48 (GV.Field.fromMont P (val [z0, z1, z2, z3, z4, z5])) := by
  obtain ⟨g, e⟩ := fromMontGeneric_spec z0 z1 z2 z3 z4 z5 hz0 hz1 hz2 hz3 hz4 hz5 hZ
  unfold Gen.Bytes.bls12_381_fp.bigEndian_PutElement
  simp only []
  generalize Gen.Limb.bls12_381_fp.fromMontGeneric z0 z1 z2 z3 z4 z5 = r at g e ⊢
  obtain ⟨r0, r1, r2, r3, r4, r5⟩ := r
  rw [← e]
  exact put_BE b hb r0 r1 r2 r3 r4 r5 g.1 g.2.1 g.2.2.1 g.2.2.2.1 g.2.2.2.2.1 g.2.2.2.2.2

theorem put_LE (b : List UInt8) (hb : b.length = 48) (r0 r1 r2 r3 r4 r5 : Nat) (hr0 : r0 < 18446744073709551616) (hr1 : r1 < 18446744073709551616) (hr2 : r2 < 18446744073709551616) (hr3 : r3 < 18446744073709551616) (hr4 : r4 < 18446744073709551616) (hr5 : r5 < 18446744073709551616) :
    (putSlice (putSlice (putSlice (putSlice (putSlice (putSlice b 0 8 (Conv.natToLE 8 r0)) 8 16 (Conv.natToLE 8 r1)) 16 24 (Conv.natToLE 8 r2)) 24 32 (Conv.natToLE 8 r3)) 32 40 (Conv.natToLE 8 r4)) 40 48 (Conv.natToLE 8 r5)) = Conv.natToLE 48 (val [r0, r1, r2, r3, r4, r5]) := by
  have l0 : b.length = 48 := hb
  have l1 : (putSlice b 0 8 (Conv.natToLE 8 r0)).length = 48 := by
    rw [Conv.length_putSlice _ _ _ _ (by omega) (by omega) (by rw [Conv.natToLE_length])]; exact l0
  have l2 : (putSlice (putSlice b 0 8 (Conv.natToLE 8 r0)) 8 16 (Conv.natToLE 8 r1)).length = 48 := by
    rw [Conv.length_putSlice _ _ _ _ (by omega) (by omega) (by rw [Conv.natToLE_length])]; exact l1
  have l3 : (putSlice (putSlice (putSlice b 0 8 (Conv.natToLE 8 r0)) 8 16 (Conv.natToLE 8 r1)) 16 24 (Conv.natToLE 8 r2)).length = 48 := by
    rw [Conv.length_putSlice _ _ _ _ (by omega) (by omega) (by rw [Conv.natToLE_length])]; exact l2
  have l4 : (putSlice (putSlice (putSlice (putSlice b 0 8 (Conv.natToLE 8 r0)) 8 16 (Conv.natToLE 8 r1)) 16 24 (Conv.natToLE 8 r2)) 24 32 (Conv.natToLE 8 r3)).length = 48 := by
    rw [Conv.length_putSlice _ _ _ _ (by omega) (by omega) (by rw [Conv.natToLE_length])]; exact l3
  have l5 : (putSlice (putSlice (putSlice (putSlice (putSlice b 0 8 (Conv.natToLE 8 r0)) 8 16 (Conv.natToLE 8 r1)) 16 24 (Conv.natToLE 8 r2)) 24 32 (Conv.natToLE 8 r3)) 32 40 (Conv.natToLE 8 r4)).length = 48 := by
    rw [Conv.length_putSlice _ _ _ _ (by omega) (by omega) (by rw [Conv.natToLE_length])]; exact l4
  have l6 : (putSlice (putSlice (putSlice (putSlice (putSlice (putSlice b 0 8 (Conv.natToLE 8 r0)) 8 16 (Conv.natToLE 8 r1)) 16 24 (Conv.natToLE 8 r2)) 24 32 (Conv.natToLE 8 r3)) 32 40 (Conv.natToLE 8 r4)) 40 48 (Conv.natToLE 8 r5)).length = 48 := by
    rw [Conv.length_putSlice _ _ _ _ (by omega) (by omega) (by rw [Conv.natToLE_length])]; exact l5
  have s0 : slice (putSlice (putSlice (putSlice (putSlice (putSlice (putSlice b 0 8 (Conv.natToLE 8 r0)) 8 16 (Conv.natToLE 8 r1)) 16 24 (Conv.natToLE 8 r2)) 24 32 (Conv.natToLE 8 r3)) 32 40 (Conv.natToLE 8 r4)) 40 48 (Conv.natToLE 8 r5)) 0 8 = Conv.natToLE 8 r0 := by
    rw [Conv.slice_putSlice_disj _ _ _ _ _ _ (by omega) (by omega) (by rw [Conv.natToLE_length]) (by omega),
      Conv.slice_putSlice_disj _ _ _ _ _ _ (by omega) (by omega) (by rw [Conv.natToLE_length]) (by omega),
      Conv.slice_putSlice_disj _ _ _ _ _ _ (by omega) (by omega) (by rw [Conv.natToLE_length]) (by omega),
      Conv.slice_putSlice_disj _ _ _ _ _ _ (by omega) (by omega) (by rw [Conv.natToLE_length]) (by omega),
      Conv.slice_putSlice_disj _ _ _ _ _ _ (by omega) (by omega) (by rw [Conv.natToLE_length]) (by omega),
      Conv.slice_putSlice_same _ _ _ _ (by omega) (by omega) (by rw [Conv.natToLE_length])]
  have s1 : slice (putSlice (putSlice (putSlice (putSlice (putSlice (putSlice b 0 8 (Conv.natToLE 8 r0)) 8 16 (Conv.natToLE 8 r1)) 16 24 (Conv.natToLE 8 r2)) 24 32 (Conv.natToLE 8 r3)) 32 40 (Conv.natToLE 8 r4)) 40 48 (Conv.natToLE 8 r5)) 8 16 = Conv.natToLE 8 r1 := by
    rw [Conv.slice_putSlice_disj _ _ _ _ _ _ (by omega) (by omega) (by rw [Conv.natToLE_length]) (by omega),
      Conv.slice_putSlice_disj _ _ _ _ _ _ (by omega) (by omega) (by rw [Conv.natToLE_length]) (by omega),
      Conv.slice_putSlice_disj _ _ _ _ _ _ (by omega) (by omega) (by rw [Conv.natToLE_length]) (by omega),
      Conv.slice_putSlice_disj _ _ _ _ _ _ (by omega) (by omega) (by rw [Conv.natToLE_length]) (by omega),
      Conv.slice_putSlice_same _ _ _ _ (by omega) (by omega) (by rw [Conv.natToLE_length])]
  have s2 : slice (putSlice (putSlice (putSlice (putSlice (putSlice (putSlice b 0 8 (Conv.natToLE 8 r0)) 8 16 (Conv.natToLE 8 r1)) 16 24 (Conv.natToLE 8 r2)) 24 32 (Conv.natToLE 8 r3)) 32 40 (Conv.natToLE 8 r4)) 40 48 (Conv.natToLE 8 r5)) 16 24 = Conv.natToLE 8 r2 := by
    rw [Conv.slice_putSlice_disj _ _ _ _ _ _ (by omega) (by omega) (by rw [Conv.natToLE_length]) (by omega),
      Conv.slice_putSlice_disj _ _ _ _ _ _ (by omega) (by omega) (by rw [Conv.natToLE_length]) (by omega),
      Conv.slice_putSlice_disj _ _ _ _ _ _ (by omega) (by omega) (by rw [Conv.natToLE_length]) (by omega),
      Conv.slice_putSlice_same _ _ _ _ (by omega) (by omega) (by rw [Conv.natToLE_length])]
  have s3 : slice (putSlice (putSlice (putSlice (putSlice (putSlice (putSlice b 0 8 (Conv.natToLE 8 r0)) 8 16 (Conv.natToLE 8 r1)) 16 24 (Conv.natToLE 8 r2)) 24 32 (Conv.natToLE 8 r3)) 32 40 (Conv.natToLE 8 r4)) 40 48 (Conv.natToLE 8 r5)) 24 32 = Conv.natToLE 8 r3 := by
    rw [Conv.slice_putSlice_disj _ _ _ _ _ _ (by omega) (by omega) (by rw [Conv.natToLE_length]) (by omega),
      Conv.slice_putSlice_disj _ _ _ _ _ _ (by omega) (by omega) (by rw [Conv.natToLE_length]) (by omega),
      Conv.slice_putSlice_same _ _ _ _ (by omega) (by omega) (by rw [Conv.natToLE_length])]
  have s4 : slice (putSlice (putSlice (putSlice (putSlice (putSlice (putSlice b 0 8 (Conv.natToLE 8 r0)) 8 16 (Conv.natToLE 8 r1)) 16 24 (Conv.natToLE 8 r2)) 24 32 (Conv.natToLE 8 r3)) 32 40 (Conv.natToLE 8 r4)) 40 48 (Conv.natToLE 8 r5)) 32 40 = Conv.natToLE 8 r4 := by
    rw [Conv.slice_putSlice_disj _ _ _ _ _ _ (by omega) (by omega) (by rw [Conv.natToLE_length]) (by omega),
      Conv.slice_putSlice_same _ _ _ _ (by omega) (by omega) (by rw [Conv.natToLE_length])]
  have s5 : slice (putSlice (putSlice (putSlice (putSlice (putSlice (putSlice b 0 8 (Conv.natToLE 8 r0)) 8 16 (Conv.natToLE 8 r1)) 16 24 (Conv.natToLE 8 r2)) 24 32 (Conv.natToLE 8 r3)) 32 40 (Conv.natToLE 8 r4)) 40 48 (Conv.natToLE 8 r5)) 40 48 = Conv.natToLE 8 r5 := by
    rw [Conv.slice_putSlice_same _ _ _ _ (by omega) (by omega) (by rw [Conv.natToLE_length])]
  have hw : Conv.limbsOfLE 8 6 (putSlice (putSlice (putSlice (putSlice (putSlice (putSlice b 0 8 (Conv.natToLE 8 r0)) 8 16 (Conv.natToLE 8 r1)) 16 24 (Conv.natToLE 8 r2)) 24 32 (Conv.natToLE 8 r3)) 32 40 (Conv.natToLE 8 r4)) 40 48 (Conv.natToLE 8 r5)) = [r0, r1, r2, r3, r4, r5] := by
    rw [words_LE]
    simp only [leUint, s0, s1, s2, s3, s4, s5, List.take_of_length_le (Nat.le_of_eq (Conv.natToLE_length 8 _)), Conv.leToNat_natToLE_of_lt 8 r0 (by omega), Conv.leToNat_natToLE_of_lt 8 r1 (by omega), Conv.leToNat_natToLE_of_lt 8 r2 (by omega), Conv.leToNat_natToLE_of_lt 8 r3 (by omega), Conv.leToNat_natToLE_of_lt 8 r4 (by omega), Conv.leToNat_natToLE_of_lt 8 r5 (by omega)]
  have := Conv.eq_natToLE_of_limbs 8 6 _ [r0, r1, r2, r3, r4, r5] (by rw [l6]) hw
  rw [← Conv.limbsVal_eq_ofLimbs] at this
  exact this

/-- **C08_gen** `littleEndian.PutElement` writes the little-endian base-256 digits (length Bytes) of the regular value of a
canonical Montgomery element, whatever the array held before -/
theorem littleEndian_PutElement_spec (b : List UInt8) (hb : b.length = 48) (z0 z1 z2 z3 z4 z5 : Nat) (hz0 : z0 < 18446744073709551616) (hz1 : z1 < 18446744073709551616) (hz2 : z2 < 18446744073709551616) (hz3 : z3 < 18446744073709551616) (hz4 : z4 < 18446744073709551616) (hz5 : z5 < 18446744073709551616) (hZ : val [z0, z1, z2, z3, z4, z5] < P.q) :
    Gen.Bytes.bls12_381_fp.littleEndian_PutElement b z0 z1 z2 z3 z4 z5 = Conv.toBytesLE 48 (GV.Field.fromMont P (val [z0, z1, z2, z3, z4, z5])) := by
  obtain ⟨g, e⟩ := fromMontGeneric_spec z0 z1 z2 z3 z4 z5 hz0 hz1 hz2 hz3 hz4 hz5 hZ
  unfold Gen.Bytes.bls12_381_fp.littleEndian_PutElement
  simp only []
  generalize Gen.Limb.bls12_381_fp.fromMontGeneric z0 z1 z2 z3 z4 z5 = r at g e ⊢
  obtain ⟨r0, r1, r2, r3, r4, r5⟩ := r
  rw [← e]
  exact put_LE b hb r0 r1 r2 r3 r4 r5 g.1 g.2.1 g.2.2.1 g.2.2.2.1 g.2.2.2.2.1 g.2.2.2.2.2

/-! ### round trips at the level of the Go text -/

/-- **C08_gen** `bigEndian.Element (bigEndian.PutElement z) = (z, nil)` for every canonical `z` -/
theorem bigEndian_roundtrip (b : List UInt8) (hb : b.length = 48) (z0 z1 z2 z3 z4 z5 : Nat) (hz0 : z0 < 18446744073709551616) (hz1 : z1 < 18446744073709551616) (hz2 : z2 < 18446744073709551616) (hz3 : z3 < 18446744073709551616) (hz4 : z4 < 18446744073709551616) (hz5 : z5 < 18446744073709551616) (hZ : val [z0, z1, z2, z3, z4, z5] < P.q) :
    Gen.Bytes.bls12_381_fp.bigEndian_Element (Gen.Bytes.bls12_381_fp.bigEndian_PutElement b z0 z1 z2 z3 z4 z5) = (z0, z1, z2, z3, z4, z5, 0) := by
  rw [bigEndian_PutElement_spec b hb z0 z1 z2 z3 z4 z5 hz0 hz1 hz2 hz3 hz4 hz5 hZ]
  have hf := fromMont_lt P P_ok _ hZ
  have hl : (Conv.toBytesBE 48 (GV.Field.fromMont P (val [z0, z1, z2, z3, z4, z5]))).length = 48 := by simp [Conv.toBytesBE]
  have hv : Conv.beToNat (Conv.toBytesBE 48 (GV.Field.fromMont P (val [z0, z1, z2, z3, z4, z5]))) = GV.Field.fromMont P (val [z0, z1, z2, z3, z4, z5]) := by
    rw [Conv.toBytesBE, Conv.beToNat_natToBE, Nat.mod_eq_of_lt (lt_of_lt_of_le hf q_le)]
  obtain ⟨m0, m1, m2, m3, m4, m5, g, hm, e⟩ := bigEndian_Element_accept _ hl (by rw [hv]; exact hf)
  rw [hv, toMont_fromMont P P_ok _ hZ] at hm
  obtain ⟨e0, e1, e2, e3, e4, e5⟩ := val_inj m0 m1 m2 m3 m4 m5 z0 z1 z2 z3 z4 z5 g.1 g.2.1 g.2.2.1 g.2.2.2.1 g.2.2.2.2.1 g.2.2.2.2.2 hz0 hz1 hz2 hz3 hz4 hz5 hm
  rw [e]; subst e0 e1 e2 e3 e4 e5; rfl

/-- **C08_gen** `bigEndian.PutElement (bigEndian.Element b) = b` whenever `b` is accepted (into any target array) -/
theorem bigEndian_roundtrip_inv (b t : List UInt8) (hb : b.length = 48) (ht : t.length = 48) (h : Conv.beToNat b < P.q) :
    Gen.Bytes.bls12_381_fp.bigEndian_PutElement t (Gen.Bytes.bls12_381_fp.bigEndian_Element b).1 (Gen.Bytes.bls12_381_fp.bigEndian_Element b).2.1 (Gen.Bytes.bls12_381_fp.bigEndian_Element b).2.2.1 (Gen.Bytes.bls12_381_fp.bigEndian_Element b).2.2.2.1 (Gen.Bytes.bls12_381_fp.bigEndian_Element b).2.2.2.2.1 (Gen.Bytes.bls12_381_fp.bigEndian_Element b).2.2.2.2.2.1 = b := by
  obtain ⟨m0, m1, m2, m3, m4, m5, g, hm, e⟩ := bigEndian_Element_accept b hb h
  rw [e]
  have hlt := toMont_lt P P_ok _ h
  rw [bigEndian_PutElement_spec t ht m0 m1 m2 m3 m4 m5 g.1 g.2.1 g.2.2.1 g.2.2.2.1 g.2.2.2.2.1 g.2.2.2.2.2 (by rw [hm]; exact hlt),
    hm, fromMont_toMont P P_ok _ h, Conv.toBytesBE, ← hb, Conv.natToBE_beToNat]

/-- **C08_gen** `littleEndian.Element (littleEndian.PutElement z) = (z, nil)` for every canonical `z` -/
theorem littleEndian_roundtrip (b : List UInt8) (hb : b.length = 48) (z0 z1 z2 z3 z4 z5 : Nat) (hz0 : z0 < 18446744073709551616) (hz1 : z1 < 18446744073709551616) (hz2 : z2 < 18446744073709551616) (hz3 : z3 < 18446744073709551616) (hz4 : z4 < 18446744073709551616) (hz5 : z5 < 18446744073709551616) (hZ : val [z0, z1, z2, z3, z4, z5] < P.q) :
    Gen.Bytes.bls12_381_fp.littleEndian_Element (Gen.Bytes.bls12_381_fp.littleEndian_PutElement b z0 z1 z2 z3 z4 z5) = (z0, z1, z2, z3, z4, z5, 0) := by
  rw [littleEndian_PutElement_spec b hb z0 z1 z2 z3 z4 z5 hz0 hz1 hz2 hz3 hz4 hz5 hZ]
  have hf := fromMont_lt P P_ok _ hZ
  have hl : (Conv.toBytesLE 48 (GV.Field.fromMont P (val [z0, z1, z2, z3, z4, z5]))).length = 48 := by simp [Conv.toBytesLE]
  have hv : Conv.leToNat (Conv.toBytesLE 48 (GV.Field.fromMont P (val [z0, z1, z2, z3, z4, z5]))) = GV.Field.fromMont P (val [z0, z1, z2, z3, z4, z5]) := by
    rw [Conv.toBytesLE, Conv.leToNat_natToLE, Nat.mod_eq_of_lt (lt_of_lt_of_le hf q_le)]
  obtain ⟨m0, m1, m2, m3, m4, m5, g, hm, e⟩ := littleEndian_Element_accept _ hl (by rw [hv]; exact hf)
  rw [hv, toMont_fromMont P P_ok _ hZ] at hm
  obtain ⟨e0, e1, e2, e3, e4, e5⟩ := val_inj m0 m1 m2 m3 m4 m5 z0 z1 z2 z3 z4 z5 g.1 g.2.1 g.2.2.1 g.2.2.2.1 g.2.2.2.2.1 g.2.2.2.2.2 hz0 hz1 hz2 hz3 hz4 hz5 hm
  rw [e]; subst e0 e1 e2 e3 e4 e5; rfl

/-- **C08_gen** `littleEndian.PutElement (littleEndian.Element b) = b` whenever `b` is accepted (into any target array) -/
theorem littleEndian_roundtrip_inv (b t : List UInt8) (hb : b.length = 48) (ht : t.length = 48) (h : Conv.leToNat b < P.q) :
    Gen.Bytes.bls12_381_fp.littleEndian_PutElement t (Gen.Bytes.bls12_381_fp.littleEndian_Element b).1 (Gen.Bytes.bls12_381_fp.littleEndian_Element b).2.1 (Gen.Bytes.bls12_381_fp.littleEndian_Element b).2.2.1 (Gen.Bytes.bls12_381_fp.littleEndian_Element b).2.2.2.1 (Gen.Bytes.bls12_381_fp.littleEndian_Element b).2.2.2.2.1 (Gen.Bytes.bls12_381_fp.littleEndian_Element b).2.2.2.2.2.1 = b := by
  obtain ⟨m0, m1, m2, m3, m4, m5, g, hm, e⟩ := littleEndian_Element_accept b hb h
  rw [e]
  have hlt := toMont_lt P P_ok _ h
  rw [littleEndian_PutElement_spec t ht m0 m1 m2 m3 m4 m5 g.1 g.2.1 g.2.2.1 g.2.2.2.1 g.2.2.2.2.1 g.2.2.2.2.2 (by rw [hm]; exact hlt),
    hm, fromMont_toMont P P_ok _ h, Conv.toBytesLE, ← hb, Conv.natToLE_leToNat]

/-! ### `Bytes`, `SetBytesCanonical`, `SetBytes` -/

/-- `Bytes()` is `BigEndian.PutElement` into a fresh (zero) array -/
theorem Bytes_eq (z0 z1 z2 z3 z4 z5 : Nat) :
    Gen.Bytes.bls12_381_fp.Bytes z0 z1 z2 z3 z4 z5 = Gen.Bytes.bls12_381_fp.bigEndian_PutElement (List.replicate 48 0) z0 z1 z2 z3 z4 z5 := rfl

theorem Bytes_spec (z0 z1 z2 z3 z4 z5 : Nat) (hz0 : z0 < 18446744073709551616) (hz1 : z1 < 18446744073709551616) (hz2 : z2 < 18446744073709551616) (hz3 : z3 < 18446744073709551616) (hz4 : z4 < 18446744073709551616) (hz5 : z5 < 18446744073709551616) (hZ : val [z0, z1, z2, z3, z4, z5] < P.q) :
    Gen.Bytes.bls12_381_fp.Bytes z0 z1 z2 z3 z4 z5 = Conv.toBytesBE 48 (GV.Field.fromMont P (val [z0, z1, z2, z3, z4, z5])) := by
  rw [Bytes_eq, bigEndian_PutElement_spec _ (List.length_replicate ..) z0 z1 z2 z3 z4 z5 hz0 hz1 hz2 hz3 hz4 hz5 hZ]

/-- `SetBytesCanonical` as a function of the whole input: a slice of another length is an error and leaves `z` alone; a `Bytes`-long one
goes through `BigEndian.Element`, and `z` is overwritten only on success -/
theorem SetBytesCanonical_eq (z0 z1 z2 z3 z4 z5 : Nat) (e : List UInt8) :
    Gen.Bytes.bls12_381_fp.SetBytesCanonical z0 z1 z2 z3 z4 z5 e =
      if e.length ≠ 48 then (z0, z1, z2, z3, z4, z5, 2)
      else if (Gen.Bytes.bls12_381_fp.bigEndian_Element e).2.2.2.2.2.2 ≠ 0 then (z0, z1, z2, z3, z4, z5, (Gen.Bytes.bls12_381_fp.bigEndian_Element e).2.2.2.2.2.2)
      else Gen.Bytes.bls12_381_fp.bigEndian_Element e := by
  by_cases hl : e.length = 48
  · have ha : toArray 48 e = e := Conv.toArray_eq _ _ hl
    unfold Gen.Bytes.bls12_381_fp.SetBytesCanonical Gen.Bytes.bls12_381_fp.bigEndian_Element
    simp only [ha, hl, ne_eq, not_true_eq_false, if_false]
    split <;> rename_i hc
    · simp only [hc, not_false_eq_true, if_true, one_ne_zero]
    · simp only [hc, not_true_eq_false, if_false]
  · unfold Gen.Bytes.bls12_381_fp.SetBytesCanonical
    simp only [hl, ne_eq, not_false_eq_true, if_true]

/-- **C08_gen** `SetBytesCanonical` accepts EXACTLY the `Bytes`-long big-endian encodings of the integers below `q` and then stores the
canonical Montgomery element; the model's `Conv.setBytesCanonical` is its image under `fromMont` -/
theorem SetBytesCanonical_spec (z0 z1 z2 z3 z4 z5 : Nat) (e : List UInt8) :
    ((Gen.Bytes.bls12_381_fp.SetBytesCanonical z0 z1 z2 z3 z4 z5 e).2.2.2.2.2.2 = 0 ↔ (e.length = 48 ∧ Conv.beToNat e < P.q)) ∧
    (e.length = 48 → Conv.beToNat e < P.q → ∃ m0 m1 m2 m3 m4 m5 : Nat, Good (m0, m1, m2, m3, m4, m5) ∧ val [m0, m1, m2, m3, m4, m5] = GV.Field.toMont P (Conv.beToNat e) ∧
      Gen.Bytes.bls12_381_fp.SetBytesCanonical z0 z1 z2 z3 z4 z5 e = (m0, m1, m2, m3, m4, m5, 0)) ∧
    (¬ (e.length = 48 ∧ Conv.beToNat e < P.q) → ∃ c, c ≠ 0 ∧ Gen.Bytes.bls12_381_fp.SetBytesCanonical z0 z1 z2 z3 z4 z5 e = (z0, z1, z2, z3, z4, z5, c)) := by
  by_cases hl : e.length = 48
  · by_cases h : Conv.beToNat e < P.q
    · obtain ⟨m0, m1, m2, m3, m4, m5, g, hm, he⟩ := bigEndian_Element_accept e hl h
      have key : Gen.Bytes.bls12_381_fp.SetBytesCanonical z0 z1 z2 z3 z4 z5 e = (m0, m1, m2, m3, m4, m5, 0) := by
        rw [SetBytesCanonical_eq, he]; simp only [hl, ne_eq, not_true_eq_false, if_false]
      rw [key]
      exact ⟨⟨fun _ => ⟨hl, h⟩, fun _ => rfl⟩, fun _ _ => ⟨m0, m1, m2, m3, m4, m5, g, hm, rfl⟩, fun hn => absurd ⟨hl, h⟩ hn⟩
    · have he := bigEndian_Element_reject e hl (by omega)
      have key : Gen.Bytes.bls12_381_fp.SetBytesCanonical z0 z1 z2 z3 z4 z5 e = (z0, z1, z2, z3, z4, z5, 1) := by
        rw [SetBytesCanonical_eq, he]; simp only [hl, ne_eq, not_true_eq_false, if_false, one_ne_zero, not_false_eq_true, if_true]
      rw [key]
      exact ⟨⟨fun h0 => absurd h0 one_ne_zero, fun hh => absurd hh.2 h⟩, fun _ hh => absurd hh h, fun _ => ⟨1, one_ne_zero, rfl⟩⟩
  · have key : Gen.Bytes.bls12_381_fp.SetBytesCanonical z0 z1 z2 z3 z4 z5 e = (z0, z1, z2, z3, z4, z5, 2) := by
      rw [SetBytesCanonical_eq]; simp only [hl, ne_eq, not_false_eq_true, if_true]
    rw [key]
    exact ⟨⟨fun h0 => absurd (show (2 : Nat) = 0 from h0) (by omega), fun hh => absurd hh.1 hl⟩, fun hh _ => absurd hh hl, fun _ => ⟨2, by omega, rfl⟩⟩

theorem SetBytesCanonical_model (z0 z1 z2 z3 z4 z5 : Nat) (e : List UInt8) :
    Conv.setBytesCanonical P.q 48 e =
      (if (Gen.Bytes.bls12_381_fp.SetBytesCanonical z0 z1 z2 z3 z4 z5 e).2.2.2.2.2.2 = 0 then
        .ok (GV.Field.fromMont P (val [(Gen.Bytes.bls12_381_fp.SetBytesCanonical z0 z1 z2 z3 z4 z5 e).1, (Gen.Bytes.bls12_381_fp.SetBytesCanonical z0 z1 z2 z3 z4 z5 e).2.1, (Gen.Bytes.bls12_381_fp.SetBytesCanonical z0 z1 z2 z3 z4 z5 e).2.2.1, (Gen.Bytes.bls12_381_fp.SetBytesCanonical z0 z1 z2 z3 z4 z5 e).2.2.2.1, (Gen.Bytes.bls12_381_fp.SetBytesCanonical z0 z1 z2 z3 z4 z5 e).2.2.2.2.1, (Gen.Bytes.bls12_381_fp.SetBytesCanonical z0 z1 z2 z3 z4 z5 e).2.2.2.2.2.1]))
       else if e.length ≠ 48 then .error .length else .error .invalid) := by
  obtain ⟨h1, h2, h3⟩ := SetBytesCanonical_spec z0 z1 z2 z3 z4 z5 e
  unfold Conv.setBytesCanonical
  by_cases hl : e.length = 48
  · by_cases h : Conv.beToNat e < P.q
    · obtain ⟨m0, m1, m2, m3, m4, m5, g, hm, he⟩ := h2 hl h
      rw [he]
      simp only [hl, ne_eq, not_true_eq_false, if_false, if_true, hm, fromMont_toMont P P_ok _ h, Conv.elementBE, h]
    · obtain ⟨c, hc, he⟩ := h3 (fun hh => h hh.2)
      rw [he]
      simp only [hl, ne_eq, not_true_eq_false, if_false, hc, Conv.elementBE, h]
  · obtain ⟨c, hc, he⟩ := h3 (fun hh => hl hh.1)
    rw [he]
    simp only [hl, ne_eq, not_false_eq_true, if_true, hc, if_false]

/-- **C08_gen** `SetBytes`: on a `Bytes`-long input with a canonical value the fast path is taken and the result is that of
`BigEndian.Element` (= `SetBytesCanonical`); on EVERY other input (other length, or value `≥ q`) it is the slow path `setBigIntBE e`.
`setBigIntBE` is a parameter: `big.Int.SetBytes(e)` followed by `Element.SetBigInt` (math/big is not translated). -/
theorem SetBytes_spec (setBigIntBE : List UInt8 → Nat × Nat × Nat × Nat × Nat × Nat) (e : List UInt8) :
    (e.length = 48 → Conv.beToNat e < P.q →
      Gen.Bytes.bls12_381_fp.SetBytes setBigIntBE e = ((Gen.Bytes.bls12_381_fp.bigEndian_Element e).1, (Gen.Bytes.bls12_381_fp.bigEndian_Element e).2.1, (Gen.Bytes.bls12_381_fp.bigEndian_Element e).2.2.1, (Gen.Bytes.bls12_381_fp.bigEndian_Element e).2.2.2.1, (Gen.Bytes.bls12_381_fp.bigEndian_Element e).2.2.2.2.1, (Gen.Bytes.bls12_381_fp.bigEndian_Element e).2.2.2.2.2.1)) ∧
    (¬ (e.length = 48 ∧ Conv.beToNat e < P.q) → Gen.Bytes.bls12_381_fp.SetBytes setBigIntBE e = setBigIntBE e) := by
  constructor
  · intro hl h
    have ha : toArray 48 e = e := Conv.toArray_eq _ _ hl
    obtain ⟨m0, m1, m2, m3, m4, m5, g, hm, he⟩ := bigEndian_Element_accept e hl h
    have he' := he
    unfold Gen.Bytes.bls12_381_fp.bigEndian_Element at he
    simp only [Prod.mk.injEq] at he
    unfold Gen.Bytes.bls12_381_fp.SetBytes
    simp only [ha, hl, if_true, he, he']
  · intro hn
    by_cases hl : e.length = 48
    · have h : P.q ≤ Conv.beToNat e := by
        by_contra hc; exact hn ⟨hl, by omega⟩
      have ha : toArray 48 e = e := Conv.toArray_eq _ _ hl
      have he := bigEndian_Element_reject e hl h
      unfold Gen.Bytes.bls12_381_fp.bigEndian_Element at he
      simp only [Prod.mk.injEq] at he
      unfold Gen.Bytes.bls12_381_fp.SetBytes
      simp only [ha, hl, if_true, he, one_ne_zero, if_false]
    · unfold Gen.Bytes.bls12_381_fp.SetBytes
      simp only [hl, if_false]

/-- with the slow path specified as the model says (`setBigIntBE e` = the canonical Montgomery element of `be(e) mod q`, which is
`Conv.setBigInt` on a non-negative integer) `SetBytes` is `be(e) mod q` in Montgomery form for EVERY input: `C08_setBytes_lenient` of
the Go text, fast path = slow path -/
theorem SetBytes_lenient (setBigIntBE : List UInt8 → Nat × Nat × Nat × Nat × Nat × Nat)
    (hslow : ∀ e, Good (setBigIntBE e) ∧ tval (setBigIntBE e) = GV.Field.toMont P (Conv.beToNat e % P.q)) (e : List UInt8) :
    Good (Gen.Bytes.bls12_381_fp.SetBytes setBigIntBE e) ∧
      tval (Gen.Bytes.bls12_381_fp.SetBytes setBigIntBE e) = GV.Field.toMont P (Conv.setBytes P.q 48 e) := by
  have hq : 0 < P.q := by rw [P_q]; omega
  rw [Conv.setBytes_eq P.q 48 hq]
  obtain ⟨h1, h2⟩ := SetBytes_spec setBigIntBE e
  by_cases hc : e.length = 48 ∧ Conv.beToNat e < P.q
  · obtain ⟨m0, m1, m2, m3, m4, m5, g, hm, he⟩ := bigEndian_Element_accept e hc.1 hc.2
    rw [h1 hc.1 hc.2, he, Nat.mod_eq_of_lt hc.2]
    exact ⟨g, hm⟩
  · rw [h2 hc]; exact hslow e

/-! ### `Bits`, `Uint64`, `IsUint64`, `FitsOnOneWord`, `SetUint64` -/

/-- `Bits()` are the words of the regular value -/
theorem Bits_spec (z0 z1 z2 z3 z4 z5 : Nat) (hz0 : z0 < 18446744073709551616) (hz1 : z1 < 18446744073709551616) (hz2 : z2 < 18446744073709551616) (hz3 : z3 < 18446744073709551616) (hz4 : z4 < 18446744073709551616) (hz5 : z5 < 18446744073709551616) (hZ : val [z0, z1, z2, z3, z4, z5] < P.q) :
    Good (Gen.Bytes.bls12_381_fp.Bits z0 z1 z2 z3 z4 z5) ∧ tval (Gen.Bytes.bls12_381_fp.Bits z0 z1 z2 z3 z4 z5) = GV.Field.fromMont P (val [z0, z1, z2, z3, z4, z5]) := by
  obtain ⟨g, e⟩ := fromMontGeneric_spec z0 z1 z2 z3 z4 z5 hz0 hz1 hz2 hz3 hz4 hz5 hZ
  exact ⟨g, e⟩

/-- `Uint64()` is the low word of the regular value (`Conv.uint64`) -/
theorem Uint64_spec (z0 z1 z2 z3 z4 z5 : Nat) (hz0 : z0 < 18446744073709551616) (hz1 : z1 < 18446744073709551616) (hz2 : z2 < 18446744073709551616) (hz3 : z3 < 18446744073709551616) (hz4 : z4 < 18446744073709551616) (hz5 : z5 < 18446744073709551616) (hZ : val [z0, z1, z2, z3, z4, z5] < P.q) :
    Gen.Bytes.bls12_381_fp.Uint64 z0 z1 z2 z3 z4 z5 = Conv.uint64 64 (GV.Field.fromMont P (val [z0, z1, z2, z3, z4, z5])) := by
  obtain ⟨g, e⟩ := fromMontGeneric_spec z0 z1 z2 z3 z4 z5 hz0 hz1 hz2 hz3 hz4 hz5 hZ
  unfold Gen.Bytes.bls12_381_fp.Uint64 Conv.uint64
  simp only []
  rw [← e]
  generalize Gen.Limb.bls12_381_fp.fromMontGeneric z0 z1 z2 z3 z4 z5 = r at g ⊢
  obtain ⟨r0, r1, r2, r3, r4, r5⟩ := r
  simp only [tval, val_lin, Nat.reducePow]
  obtain ⟨g0, g1, g2, g3, g4, g5⟩ := g
  simp only at g0
  omega

/-- `FitsOnOneWord()` on the words it is given, `IsUint64()` on the regular value (`Conv.isUint64`) -/
theorem FitsOnOneWord_spec (z0 z1 z2 z3 z4 z5 : Nat) (hz0 : z0 < 18446744073709551616) (hz1 : z1 < 18446744073709551616) (hz2 : z2 < 18446744073709551616) (hz3 : z3 < 18446744073709551616) (hz4 : z4 < 18446744073709551616) (hz5 : z5 < 18446744073709551616) :
    Gen.Bytes.bls12_381_fp.FitsOnOneWord z1 z2 z3 z4 z5 ↔ val [z0, z1, z2, z3, z4, z5] < 18446744073709551616 := by
  unfold Gen.Bytes.bls12_381_fp.FitsOnOneWord
  rw [val_lin]
  simp only [Nat.or_eq_zero_iff]
  omega

theorem IsUint64_spec (z0 z1 z2 z3 z4 z5 : Nat) (hz0 : z0 < 18446744073709551616) (hz1 : z1 < 18446744073709551616) (hz2 : z2 < 18446744073709551616) (hz3 : z3 < 18446744073709551616) (hz4 : z4 < 18446744073709551616) (hz5 : z5 < 18446744073709551616) (hZ : val [z0, z1, z2, z3, z4, z5] < P.q) :
    Gen.Bytes.bls12_381_fp.IsUint64 z0 z1 z2 z3 z4 z5 ↔ Conv.isUint64 (GV.Field.fromMont P (val [z0, z1, z2, z3, z4, z5])) = true := by
  obtain ⟨g, e⟩ := fromMontGeneric_spec z0 z1 z2 z3 z4 z5 hz0 hz1 hz2 hz3 hz4 hz5 hZ
  have : Gen.Bytes.bls12_381_fp.IsUint64 z0 z1 z2 z3 z4 z5 = Gen.Bytes.bls12_381_fp.FitsOnOneWord (Gen.Limb.bls12_381_fp.fromMontGeneric z0 z1 z2 z3 z4 z5).2.1 (Gen.Limb.bls12_381_fp.fromMontGeneric z0 z1 z2 z3 z4 z5).2.2.1 (Gen.Limb.bls12_381_fp.fromMontGeneric z0 z1 z2 z3 z4 z5).2.2.2.1 (Gen.Limb.bls12_381_fp.fromMontGeneric z0 z1 z2 z3 z4 z5).2.2.2.2.1 (Gen.Limb.bls12_381_fp.fromMontGeneric z0 z1 z2 z3 z4 z5).2.2.2.2.2 := rfl
  rw [this, ← e]
  generalize Gen.Limb.bls12_381_fp.fromMontGeneric z0 z1 z2 z3 z4 z5 = r at g ⊢
  obtain ⟨r0, r1, r2, r3, r4, r5⟩ := r
  rw [FitsOnOneWord_spec r0 r1 r2 r3 r4 r5 g.1 g.2.1 g.2.2.1 g.2.2.2.1 g.2.2.2.2.1 g.2.2.2.2.2]
  simp only [Conv.isUint64, decide_eq_true_eq, tval, Nat.reducePow]

/-- `SetUint64 v` is the canonical Montgomery element of `v` (`v < 2^64 < q`: `Conv.setUint64` is the identity there) -/
theorem SetUint64_spec (v : Nat) (hv : v < 18446744073709551616) :
    Good (Gen.Bytes.bls12_381_fp.SetUint64 v) ∧ tval (Gen.Bytes.bls12_381_fp.SetUint64 v) = GV.Field.toMont P (Conv.setUint64 P.q v) := by
  have hq : v < P.q := by rw [P_q]; omega
  have hval : val [v, 0, 0, 0, 0, 0] = v := by rw [val_lin]; omega
  obtain ⟨g, e⟩ := toMont_spec v 0 0 0 0 0 hv (by omega) (by omega) (by omega) (by omega) (by omega) (by rw [hval]; exact hq)
  rw [hval] at e
  rw [Conv.setUint64, Nat.mod_eq_of_lt hq]
  exact ⟨g, e⟩

end GV.C08gen.bls12_381_fp
