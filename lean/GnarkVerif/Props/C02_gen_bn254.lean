import GnarkVerif.Proofs.CurveGen
import GnarkVerif.Gen.Curve.Bn254Alias
/-
C02 (tie T) — bn254 G1: the point-arithmetic methods of /repo/ecc/bn254/g1.go implement the group law.

Every theorem `C02gen_*` below is about a def of `Gen/Curve/Bn254.lean`, which tools/goslp REGENERATES from the Go
source on every run: a changed Go formula or dispatch condition changes the def and breaks the proof. The
specification is Mathlib's group `(sw 0 b).Point` (y² = x³ + b over any field of characteristic ≠ 2) and the
representation predicates `JacPt` / `AffPt` / `XyzzPt` of Proofs/CurveGen.lean (Z = 0, (0,0), ZZ = 0 encode infinity).
Each theorem covers ALL inputs of the method: the infinity operands, the equal-point dispatch to the doubling formula,
opposite points (result infinity), 2-torsion points, and the general chord formula, for every projective scaling.

Structure: `X_eq` lemmas = "generated def = total hand operation" (unfolding + `ring`; this is the proof-level tie that
replaces differential testing), then the group-law statements by the generic theorems of Proofs/CurveGen.lean.
-/
set_option linter.unusedSectionVars false
set_option linter.unusedVariables false
namespace GV.Gen.Curve.bn254
open GV.Curve GV.C02 GV.CurveGen WeierstrassCurve

variable {F : Type} [Field F] [DecidableEq F]

/-- p represents the group element P -/
def G1Jac.Rep (b : F) (p : G1Jac F) (P : (sw 0 b).Point) : Prop := JacPt 0 b p.X p.Y p.Z P
def G1Affine.Rep (b : F) (p : G1Affine F) (P : (sw 0 b).Point) : Prop := AffPt 0 b p.X p.Y P
def g1JacExtended.Rep (b : F) (p : g1JacExtended F) (P : (sw 0 b).Point) : Prop := XyzzPt 0 b p.X p.Y p.ZZ p.ZZZ P

def G1Jac.ofT (t : F × F × F) : G1Jac F := ⟨t.1, t.2.1, t.2.2⟩
def G1Affine.ofT (t : F × F) : G1Affine F := ⟨t.1, t.2⟩
def g1JacExtended.ofT (t : F × F × F × F) : g1JacExtended F := ⟨t.1, t.2.1, t.2.2.1, t.2.2.2⟩

/-! ## bridge: generated def = total operation -/

theorem G1Affine.IsInfinity_iff (p : G1Affine F) : G1Affine.IsInfinity p = true ↔ (p.X = 0 ∧ p.Y = 0) := by
  simp only [G1Affine.IsInfinity, decide_eq_true_eq, Bool.and_eq_true]

theorem G1Jac.DoubleAssign_eq (p : G1Jac F) : G1Jac.DoubleAssign p = .ofT (jacDouble p.X p.Y p.Z) := by
  gv_bridge [G1Jac.DoubleAssign, G1Jac.ofT, jacDouble]

theorem G1Jac.Double_eq (q : G1Jac F) : (G1Jac.Double q).1 = .ofT (jacDouble q.X q.Y q.Z) := by
  simp only [G1Jac.Double, G1Jac.Set, G1Jac.DoubleAssign_eq]

theorem G1Jac.DoubleMixed_eq (a : G1Affine F) : (G1Jac.DoubleMixed a).1 = .ofT (jacDoubleMixed a.X a.Y) := by
  gv_bridge [G1Jac.DoubleMixed, G1Jac.ofT, jacDoubleMixed]

theorem G1Jac.AddAssign_eq (p q : G1Jac F) : (G1Jac.AddAssign p q).1 = .ofT (jacAddT p.X p.Y p.Z q.X q.Y q.Z) := by
  gv_bridge [G1Jac.AddAssign, jacAddT, jacAddTW, G1Jac.DoubleAssign_eq, G1Jac.Set, G1Jac.ofT, jacAddUS, jacAdd]

theorem G1Jac.AddMixed_eq (p : G1Jac F) (a : G1Affine F) :
    (G1Jac.AddMixed p a).1 = .ofT (jacAddMixedT p.X p.Y p.Z a.X a.Y) := by
  gv_bridge [G1Jac.AddMixed, jacAddMixedT, jacAddMixedTW, G1Jac.DoubleMixed_eq, G1Affine.IsInfinity, G1Jac.ofT, jacAddMixedUS, jacAddMixed]

theorem G1Jac.SubAssign_eq (p q : G1Jac F) : (G1Jac.SubAssign p q).1 = .ofT (jacAddT p.X p.Y p.Z q.X (-q.Y) q.Z) := by
  simp only [G1Jac.SubAssign, G1Jac.Set, G1Jac.AddAssign_eq]

theorem G1Jac.Neg_eq (q : G1Jac F) : (G1Jac.Neg q).1 = ⟨q.X, -q.Y, q.Z⟩ := rfl
theorem G1Jac.Set_eq (q : G1Jac F) : (G1Jac.Set q).1 = q := rfl

theorem G1Jac.FromAffine_eq (a : G1Affine F) : (G1Jac.FromAffine a).1 = .ofT (jacFromAffineT a.X a.Y) := by
  gv_bridge [G1Jac.FromAffine, jacFromAffineT, G1Affine.IsInfinity, G1Jac.ofT]

theorem G1Jac.Equal_iff (p q : G1Jac F) : G1Jac.Equal p q = true ↔ jacEqualT p.X p.Y p.Z q.X q.Y q.Z := by
  simp only [G1Jac.Equal, jacEqualT, jacEqualTest]
  split_ifs <;> simp_all

theorem G1Jac.IsOnCurve_iff (p : G1Jac F) : G1Jac.IsOnCurve p = true ↔ jacIsOnCurve 3 p.X p.Y p.Z := by
  simp only [G1Jac.IsOnCurve, jacIsOnCurve, decide_eq_true_eq]
  constructor <;> intro h <;> linear_combination h

theorem G1Affine.FromJacobian_eq (p1 : G1Jac F) : (G1Affine.FromJacobian p1).1 = .ofT (fromJacobianT p1.X p1.Y p1.Z) := by
  gv_bridge [G1Affine.FromJacobian, fromJacobianT, fromJacobian, G1Affine.ofT]

theorem G1Affine.Double_eq (a : G1Affine F) : (G1Affine.Double a).1 = .ofT (affDoubleT a.X a.Y) := by
  simp only [G1Affine.Double, G1Affine.FromJacobian_eq, G1Jac.DoubleMixed_eq, affDoubleT, G1Jac.ofT]

theorem G1Affine.Add_eq (a b : G1Affine F) : (G1Affine.Add a b).1 = .ofT (affAddT a.X a.Y b.X b.Y) := by
  gv_bridge [G1Affine.Add, affAddT, affDoubleT, G1Affine.FromJacobian_eq, G1Jac.DoubleMixed_eq, G1Affine.IsInfinity,
    G1Affine.Set, G1Affine.SetInfinity, G1Affine.ofT, G1Jac.ofT, affAddJac]

theorem G1Affine.Neg_eq (a : G1Affine F) : (G1Affine.Neg a).1 = ⟨a.X, -a.Y⟩ := rfl
theorem G1Affine.Set_eq (a : G1Affine F) : (G1Affine.Set a).1 = a := rfl

theorem G1Affine.Sub_eq (a b : G1Affine F) : (G1Affine.Sub a b).1 = .ofT (affAddT a.X a.Y b.X (-b.Y)) := by
  simp only [G1Affine.Sub, G1Affine.Neg_eq, G1Affine.Add_eq]

theorem G1Affine.Equal_iff (p a : G1Affine F) : G1Affine.Equal p a = true ↔ (p.X = a.X ∧ p.Y = a.Y) := by
  simp only [G1Affine.Equal, decide_eq_true_eq, Bool.and_eq_true]

theorem G1Affine.IsOnCurve_iff (p : G1Affine F) (b : F) :
    G1Affine.IsOnCurve p b = true ↔ ((p.X = 0 ∧ p.Y = 0) ∨ OnCurve 0 b p.X p.Y) := by
  simp only [G1Affine.IsOnCurve, G1Affine.IsInfinity, OnCurve, decide_eq_true_eq, Bool.and_eq_true]
  split_ifs with h
  · simp [h]
  · simp only [h, false_or, decide_eq_true_eq]
    constructor <;> intro h <;> linear_combination h

theorem g1JacExtended.double_eq (q : g1JacExtended F) :
    (g1JacExtended.double q).1 = .ofT (xyzzDouble q.X q.Y q.ZZ q.ZZZ) := by
  gv_bridge [g1JacExtended.double, g1JacExtended.ofT, xyzzDouble]

theorem g1JacExtended.doubleMixed_eq (a : G1Affine F) :
    (g1JacExtended.doubleMixed a).1 = .ofT (xyzzDoubleMixed a.X a.Y) := by
  gv_bridge [g1JacExtended.doubleMixed, g1JacExtended.ofT, xyzzDoubleMixed]

theorem g1JacExtended.doubleNegMixed_eq (a : G1Affine F) :
    (g1JacExtended.doubleNegMixed a).1 = .ofT (xyzzDoubleNegMixed a.X a.Y) := by
  gv_bridge [g1JacExtended.doubleNegMixed, g1JacExtended.ofT, xyzzDoubleNegMixed]

theorem g1JacExtended.add_eq (p q : g1JacExtended F) :
    (g1JacExtended.add p q).1 = .ofT (xyzzAddT p.X p.Y p.ZZ p.ZZZ q.X q.Y q.ZZ q.ZZZ) := by
  gv_bridge [g1JacExtended.add, xyzzAddT, xyzzAddTW, g1JacExtended.double_eq, g1JacExtended.Set, g1JacExtended.ofT, xyzzAddAB, xyzzAdd]

theorem g1JacExtended.addMixed_eq (p : g1JacExtended F) (a : G1Affine F) :
    (g1JacExtended.addMixed p a).1 = .ofT (xyzzAddMixedT p.X p.Y p.ZZ p.ZZZ a.X a.Y) := by
  gv_bridge [g1JacExtended.addMixed, xyzzAddMixedT, xyzzAddMixedTW, g1JacExtended.doubleMixed_eq, G1Affine.IsInfinity, g1JacExtended.ofT,
    xyzzAddMixedPR, xyzzAddMixed]

theorem g1JacExtended.subMixed_eq (p : g1JacExtended F) (a : G1Affine F) :
    (g1JacExtended.subMixed p a).1 = .ofT (xyzzSubMixedT p.X p.Y p.ZZ p.ZZZ a.X a.Y) := by
  gv_bridge [g1JacExtended.subMixed, xyzzSubMixedT, g1JacExtended.doubleNegMixed_eq, G1Affine.IsInfinity, g1JacExtended.ofT,
    xyzzSubMixed]

theorem G1Affine.fromJacExtended_eq (q : g1JacExtended F) :
    (G1Affine.fromJacExtended q).1 = .ofT (xyzzToAffineT q.X q.Y q.ZZ q.ZZZ) := by
  gv_bridge [G1Affine.fromJacExtended, xyzzToAffineT, xyzzToAffine, G1Affine.ofT]

theorem G1Jac.fromJacExtended_eq (q : g1JacExtended F) (inf : G1Jac F) :
    (G1Jac.fromJacExtended q inf).1 = .ofT (xyzzToJacT q.X q.Y q.ZZ q.ZZZ inf.X inf.Y inf.Z) := by
  gv_bridge [G1Jac.fromJacExtended, xyzzToJacT, xyzzToJac, G1Jac.Set, G1Jac.ofT]

theorem G1Jac.unsafeFromJacExtended_eq (q : g1JacExtended F) :
    (G1Jac.unsafeFromJacExtended q).1 = .ofT (xyzzToJacUnsafe q.X q.Y q.ZZ q.ZZZ) := by
  gv_bridge [G1Jac.unsafeFromJacExtended, xyzzToJacUnsafe, G1Jac.ofT]

/-! ## C02: the generated methods implement the group law (all inputs, all scalings) -/

section
variable {b : F} {P Q : (sw 0 b).Point}

/-- `G1Jac.AddAssign`: p ← p + q, every branch (infinity operands, p = q → doubling, p = -q → infinity, chord) -/
theorem C02gen_G1Jac_AddAssign (hc : (2 : F) ≠ 0) {p q : G1Jac F} (hp : p.Rep b P) (hq : q.Rep b Q) :
    (G1Jac.AddAssign p q).1.Rep b (P + Q) := by
  rw [G1Jac.AddAssign_eq]; exact jacAddT_correct rfl hc hp hq

/-- `G1Jac.SubAssign`: p ← p - q -/
theorem C02gen_G1Jac_SubAssign (hc : (2 : F) ≠ 0) {p q : G1Jac F} (hp : p.Rep b P) (hq : q.Rep b Q) :
    (G1Jac.SubAssign p q).1.Rep b (P - Q) := by
  rw [G1Jac.SubAssign_eq, sub_eq_add_neg]; exact jacAddT_correct rfl hc hp (JacPt.neg hq)

/-- `G1Jac.AddMixed`: p ← p + a with a affine -/
theorem C02gen_G1Jac_AddMixed (hc : (2 : F) ≠ 0) {p : G1Jac F} {a : G1Affine F} (hp : p.Rep b P) (ha : a.Rep b Q) :
    (G1Jac.AddMixed p a).1.Rep b (P + Q) := by
  rw [G1Jac.AddMixed_eq]; exact jacAddMixedT_correct rfl hc hp ha

/-- `G1Jac.DoubleAssign`, `G1Jac.Double`: 2P, including 2-torsion points and infinity -/
theorem C02gen_G1Jac_DoubleAssign (hc : (2 : F) ≠ 0) {p : G1Jac F} (hp : p.Rep b P) :
    (G1Jac.DoubleAssign p).Rep b (P + P) := by
  rw [G1Jac.DoubleAssign_eq]; exact jacDouble_total hc hp

theorem C02gen_G1Jac_Double (hc : (2 : F) ≠ 0) {q : G1Jac F} (hq : q.Rep b Q) : (G1Jac.Double q).1.Rep b (Q + Q) := by
  rw [G1Jac.Double_eq]; exact jacDouble_total hc hq

/-- `G1Jac.DoubleMixed`: 2a for a affine -/
theorem C02gen_G1Jac_DoubleMixed (hc : (2 : F) ≠ 0) {a : G1Affine F} (ha : a.Rep b Q) :
    (G1Jac.DoubleMixed a).1.Rep b (Q + Q) := by
  rw [G1Jac.DoubleMixed_eq]; exact jacDoubleMixed_total hc ha

theorem C02gen_G1Jac_Neg {q : G1Jac F} (hq : q.Rep b Q) : (G1Jac.Neg q).1.Rep b (-Q) := JacPt.neg hq

theorem C02gen_G1Jac_Set {q : G1Jac F} (hq : q.Rep b Q) : (G1Jac.Set q).1.Rep b Q := hq

/-- `G1Jac.Equal` decides equality of the represented group elements -/
theorem C02gen_G1Jac_Equal {p q : G1Jac F} (hp : p.Rep b P) (hq : q.Rep b Q) : G1Jac.Equal p q = true ↔ P = Q := by
  rw [G1Jac.Equal_iff]; exact jacEqualT_iff hp hq

/-- `G1Jac.IsOnCurve` (b = 3 is hard-wired by `fp.MulBy3`): the curve equation of the affine point; on Z = 0 it is
Y² = X³ (so (1,1,0) passes, (X,Y,0) with Y² ≠ X³ does not) -/
theorem C02gen_G1Jac_IsOnCurve (p : G1Jac F) :
    (p.Z = 0 → (G1Jac.IsOnCurve p = true ↔ p.Y * p.Y = p.X * p.X * p.X)) ∧
    (∀ x y, JacRep p.X p.Y p.Z x y → (G1Jac.IsOnCurve p = true ↔ (sw 0 (3 : F)).Equation x y)) := by
  rw [G1Jac.IsOnCurve_iff]; exact jacIsOnCurve_total

theorem C02gen_G1Jac_FromAffine {a : G1Affine F} (ha : a.Rep b Q) : (G1Jac.FromAffine a).1.Rep b Q := by
  rw [G1Jac.FromAffine_eq]; exact jacFromAffineT_correct ha

theorem C02gen_G1Affine_FromJacobian (hb : b ≠ 0) {p : G1Jac F} (hp : p.Rep b P) :
    (G1Affine.FromJacobian p).1.Rep b P := by
  rw [G1Affine.FromJacobian_eq]; exact fromJacobianT_correct hb hp

/-- `G1Affine.Add`, every branch -/
theorem C02gen_G1Affine_Add (hc : (2 : F) ≠ 0) (hb : b ≠ 0) {x y : G1Affine F} (hx : x.Rep b P) (hy : y.Rep b Q) :
    (G1Affine.Add x y).1.Rep b (P + Q) := by
  rw [G1Affine.Add_eq]; exact affAddT_correct rfl hc hb hx hy

theorem C02gen_G1Affine_Sub (hc : (2 : F) ≠ 0) (hb : b ≠ 0) {x y : G1Affine F} (hx : x.Rep b P) (hy : y.Rep b Q) :
    (G1Affine.Sub x y).1.Rep b (P - Q) := by
  rw [G1Affine.Sub_eq, sub_eq_add_neg]; exact affAddT_correct rfl hc hb hx (AffPt.neg hy)

theorem C02gen_G1Affine_Double (hc : (2 : F) ≠ 0) (hb : b ≠ 0) {a : G1Affine F} (ha : a.Rep b Q) :
    (G1Affine.Double a).1.Rep b (Q + Q) := by
  rw [G1Affine.Double_eq]; exact affDoubleT_correct hc hb ha

theorem C02gen_G1Affine_Neg {a : G1Affine F} (ha : a.Rep b Q) : (G1Affine.Neg a).1.Rep b (-Q) := AffPt.neg ha

theorem C02gen_G1Affine_Equal {x y : G1Affine F} (hx : x.Rep b P) (hy : y.Rep b Q) :
    G1Affine.Equal x y = true ↔ P = Q := by
  rw [G1Affine.Equal_iff]; exact AffPt.eq_iff hx hy

theorem C02gen_G1Affine_IsInfinity {a : G1Affine F} (ha : a.Rep b Q) : G1Affine.IsInfinity a = true ↔ Q = 0 := by
  rw [G1Affine.IsInfinity_iff]; exact (AffPt.eq_zero_iff ha).symm

/-- `G1Affine.IsOnCurve p bCurveCoeff`: infinity or Mathlib's curve equation -/
theorem C02gen_G1Affine_IsOnCurve (p : G1Affine F) (b : F) :
    G1Affine.IsOnCurve p b = true ↔ ((p.X = 0 ∧ p.Y = 0) ∨ (sw 0 b).Equation p.X p.Y) := by
  rw [G1Affine.IsOnCurve_iff, sw_equation_iff]

/-! ### extended Jacobian (bucket) coordinates -/

theorem C02gen_g1JacExtended_add (hc : (2 : F) ≠ 0) {p q : g1JacExtended F} (hp : p.Rep b P) (hq : q.Rep b Q) :
    (g1JacExtended.add p q).1.Rep b (P + Q) := by
  rw [g1JacExtended.add_eq]; exact xyzzAddT_correct rfl hc hp hq

theorem C02gen_g1JacExtended_double (hc : (2 : F) ≠ 0) {q : g1JacExtended F} (hq : q.Rep b Q) :
    (g1JacExtended.double q).1.Rep b (Q + Q) := by
  rw [g1JacExtended.double_eq]; exact xyzzDouble_total hc hq

theorem C02gen_g1JacExtended_addMixed (hc : (2 : F) ≠ 0) {p : g1JacExtended F} {a : G1Affine F} (hp : p.Rep b P)
    (ha : a.Rep b Q) : (g1JacExtended.addMixed p a).1.Rep b (P + Q) := by
  rw [g1JacExtended.addMixed_eq]; exact xyzzAddMixedT_correct rfl hc hp ha

theorem C02gen_g1JacExtended_subMixed (hc : (2 : F) ≠ 0) {p : g1JacExtended F} {a : G1Affine F} (hp : p.Rep b P)
    (ha : a.Rep b Q) : (g1JacExtended.subMixed p a).1.Rep b (P - Q) := by
  rw [g1JacExtended.subMixed_eq]; exact xyzzSubMixedT_correct rfl hc hp ha

theorem C02gen_g1JacExtended_doubleMixed (hc : (2 : F) ≠ 0) {a : G1Affine F} (ha : a.Rep b Q) :
    (g1JacExtended.doubleMixed a).1.Rep b (Q + Q) := by
  rw [g1JacExtended.doubleMixed_eq]; exact xyzzDoubleMixed_total hc ha

theorem C02gen_g1JacExtended_doubleNegMixed (hc : (2 : F) ≠ 0) {a : G1Affine F} (ha : a.Rep b Q) :
    (g1JacExtended.doubleNegMixed a).1.Rep b (-Q + -Q) := by
  rw [g1JacExtended.doubleNegMixed_eq]; exact xyzzDoubleNegMixed_total hc ha

theorem C02gen_G1Affine_fromJacExtended (hb : b ≠ 0) {q : g1JacExtended F} (hq : q.Rep b Q) :
    (G1Affine.fromJacExtended q).1.Rep b Q := by
  rw [G1Affine.fromJacExtended_eq]; exact xyzzToAffineT_correct hb hq

/-- `G1Jac.fromJacExtended` (the package variable `g1Infinity` is a parameter; only its Z = 0 matters) -/
theorem C02gen_G1Jac_fromJacExtended {q : g1JacExtended F} {inf : G1Jac F} (hi : inf.Z = 0) (hq : q.Rep b Q) :
    (G1Jac.fromJacExtended q inf).1.Rep b Q := by
  rw [G1Jac.fromJacExtended_eq]; exact xyzzToJacT_correct hi hq

/-- `G1Jac.unsafeFromJacExtended` on a non-infinity bucket -/
theorem C02gen_G1Jac_unsafeFromJacExtended {q : g1JacExtended F} {l x y : F} (hq : XyzzRep l q.X q.Y q.ZZ q.ZZZ x y) :
    JacRep (G1Jac.unsafeFromJacExtended q).1.X (G1Jac.unsafeFromJacExtended q).1.Y (G1Jac.unsafeFromJacExtended q).1.Z x y := by
  rw [G1Jac.unsafeFromJacExtended_eq, G1Jac.ofT, (C02_xyzz_conversions hq).2.2]; exact (C02_xyzz_conversions hq).2.1

end

/-! ### non-vacuity: y² = x³ + 3 over ℚ, P = (1,2) scaled by Z = 2, Q = (1,-2) -/
example : (sw 0 (3 : ℚ)).Nonsingular 1 2 := by
  rw [Affine.nonsingular_iff', Affine.equation_iff]; simp [sw]; norm_num
example (h : (sw 0 (3 : ℚ)).Nonsingular 1 2) :
    G1Jac.Rep (3 : ℚ) ⟨4, 16, 2⟩ (Affine.Point.some 1 2 h) := Or.inr ⟨1, 2, h, ⟨by norm_num, by norm_num, by norm_num⟩, rfl⟩
example : G1Jac.Rep (3 : ℚ) ⟨1, 1, 0⟩ 0 := Or.inl ⟨rfl, rfl⟩

end GV.Gen.Curve.bn254
