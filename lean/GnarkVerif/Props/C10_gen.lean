import GnarkVerif.Props.C10_gen_bn254
import GnarkVerif.Props.C10_gen_bls12_381
import GnarkVerif.Props.C10_gen_bls12_377
import GnarkVerif.Props.C10_gen_bls24_315
import GnarkVerif.Props.C10_gen_bls24_317
import GnarkVerif.Props.C10_gen_bw6_761
import GnarkVerif.Props.C10_gen_bw6_633
import GnarkVerif.Props.C10_gen_goldilocks
import GnarkVerif.Props.C10_gen_koalabear
import GnarkVerif.Props.C10_gen_babybear
/- C10 (tie T): the theorems about the FFT kernels and small complete transforms that tools/goslp regenerates from the Go
   source on every run (Gen/FFT/*.lean). This module imports the per-package files (written by bin/mkc10gen.py) and states the
   generic links between the Go-shaped list programs and Model/FFT.lean.
   10 packages, 596 theorems (listed with their axioms in Audit/C10_gen.lean). -/

namespace GV.FFT
variable {R : Type} [CommRing R]

/-- C10gen (generic link, DIF): the Go-shaped recursion the generated `difFFT` defs are equal to (`*_go`) is the model's `difFFT`
    whenever the rows of the twiddle table start with 1 — every size, every table, every stage -/
theorem C10gen_go_difFFT_is_model (kers : List Nat) (tw : List (List R)) (tss m : Nat) (w : R) (stage : Nat) (a : List R)
    (h : HeadsOK tw tss stage m) : goDifFFT kers tw tss m w stage a = difFFT kers tw tss m w stage a :=
  goDifFFT_eq kers tw tss m w stage a h

/-- C10gen (generic link, DIT) -/
theorem C10gen_go_ditFFT_is_model (kers : List Nat) (tw : List (List R)) (tss m : Nat) (w : R) (stage : Nat) (a : List R)
    (h : HeadsOK tw tss stage m) : goDitFFT kers tw tss m w stage a = ditFFT kers tw tss m w stage a :=
  goDitFFT_eq kers tw tss m w stage a h

/-- C10gen (generic link to `Domain.FFT` of the model, hence to `C10_FFT_DIF` / `C10_FFT_DIT`): on the tables the domain passes
    down, the Go-shaped recursions ARE `FFT(·, DIF)` / `FFT(·, DIT)` without coset -/
theorem C10gen_go_is_FFT (kers : List Nat) (d : Domain R) (a : List R) (ha : a.length = 2^d.m) :
    goDifFFT kers (tables d d.gen).1 (tables d d.gen).2 d.m d.gen 0 a = FFT kers d true false a ∧
    goDitFFT kers (tables d d.gen).1 (tables d d.gen).2 d.m d.gen 0 a = FFT kers d false false a :=
  ⟨goDifFFT_tables kers d a ha, goDitFFT_tables kers d a ha⟩

/-- C10gen (generic link, kernels): the Go-shaped stage lists are the model's kernels when the rows start with 1 -/
theorem C10gen_go_kernels_are_model (k : Nat) (rows : List (List R)) (c : Nat) (a : List R)
    (h : ∀ j, j < k → (rows.getD j []).head? = some 1) :
    goKerDIF rows k c a = kerDIF rows k c a ∧ goKerDIT rows k c a = kerDIT rows k c a :=
  ⟨goKerDIF_eq k rows h c a, goKerDIT_eq k rows h c a⟩

/-- the hypothesis of the links holds for the tables of every domain (non-vacuity) -/
example (d : Domain R) : HeadsOK (tables d d.gen).1 (tables d d.gen).2 0 d.m := (tables_ok d d.gen).heads

end GV.FFT
