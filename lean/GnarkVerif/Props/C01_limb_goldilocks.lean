import GnarkVerif.Proofs.Limb
import GnarkVerif.Gen.Limb.Goldilocks
/-
C01_limb (goldilocks, one 64-bit word) — the limb code of field/goldilocks (Gen/Limb/Goldilocks.lean, regenerated on every
run) equals the value-level model `GV.Field` on ALL canonical inputs: `Mul` (REDC with the `lo ≠ 0` shortcut), `Square`,
`Add`, `Sub`, `Neg`.
-/
set_option maxRecDepth 100000
namespace GV.Limb.goldilocks
open GV.Field GV.Limb GV.Gen.Limb.goldilocks

abbrev P : Params := ofConsts GV.Gen.goldilocks
theorem P_ok : P.OK := Params.OK_of_okb _ (by decide +kernel)
theorem P_q : P.q = 18446744069414584321 := by decide +kernel
theorem P_W : P.W = 18446744073709551616 := by decide +kernel

theorem Mul_spec (x y : Nat) (hx : x < P.q) (hy : y < P.q) :
    Gen.Limb.goldilocks.Mul x y = GV.Field.mul P x y := by
  have key : (fun r : Nat => ∃ R m, m < 18446744073709551616 ∧ R * 18446744073709551616 = x * y + m * 18446744069414584321 ∧
      (R < 18446744069414584321 → r = R) ∧ (18446744069414584321 ≤ R → R < 2 * 18446744069414584321 → r + 18446744069414584321 = R)) (Gen.Limb.goldilocks.Mul x y) := by
    rw [P_q] at hx hy
    have b0 : x * y ≤ 18446744069414584320 * y := Nat.mul_le_mul_right _ (by omega)
    unfold Gen.Limb.goldilocks.Mul
    limb_start
    have hz : (lo_1 + drop_1) % 18446744073709551616 = 0 := by
      clear * - m_1_def hi2_1_def_lin
      omega
    have hz2 : lo_1 + drop_1 = 0 ∨ lo_1 + drop_1 = 18446744073709551616 := by
      clear * - hz lo_1_def_lt drop_1_def_lt
      omega
    have h1 : hi_1 + 1 < 18446744073709551616 := by
      have : 18446744073709551616 * hi_1 ≤ 18446744069414584320 * 18446744069414584320 := by
        have : 18446744069414584320 * y ≤ 18446744069414584320 * 18446744069414584320 := Nat.mul_le_mul_left _ (by omega)
        linarith
      omega
    rw [Nat.mod_eq_of_lt h1] at hi_2_def
    beta_reduce
    refine ⟨r_1 + 18446744073709551616 * carry_1, m_1, by exact_hyp, ?_, ?_, ?_⟩
    · by_cases hl : lo_1 = 0
      · subst_ites [hl]
        rcases hz2 with h | h <;> linarith
      · subst_ites [hl]
        rcases hz2 with h | h
        · exfalso; omega
        · linarith
    · intro hR
      have hc0 : carry_1 = 0 := by
        clear * - hR
        omega
      subst hc0
      have hr : ¬ (r_1 ≥ 18446744069414584321) := by
        clear * - hR
        omega
      subst_ites [hr]
      omega
    · intro hR1 hR2
      by_cases hc0 : carry_1 = 0
      · have hr : r_1 ≥ 18446744069414584321 := by
          clear * - hR1 hc0
          omega
        rw [if_pos (Or.inr hr)] at r_3_def
        subst r_3_def r_2_def
        clear * - drop_2_def_lin drop_2_def_le sub_1_def_lt hr r_1_def_lt hc0
        omega
      · subst_ites [hc0]
        subst r_2_def
        clear * - drop_2_def_lin drop_2_def_le sub_1_def_lt hR2 r_1_def_lt hc0
        omega
  generalize Gen.Limb.goldilocks.Mul x y = r at key ⊢
  obtain ⟨R, m, hm, e, e1, e2⟩ := key
  have hy' : y < P.W := by rw [P_W]; rw [P_q] at hy; omega
  have hR : R = ciosStep P x 0 y := by
    apply ciosStep_of_lin P P_ok _ _ _ _ m (by rw [P_W]; exact hm)
    rw [P_W, P_q]
    linarith
  have hR2 : R < 2 * P.q := by
    rw [hR]
    exact ciosStep_lt P P_ok _ _ _ (by have := P_ok.q_gt; omega) hx hy'
  unfold GV.Field.mul
  rw [show y = limbsVal P.w [y] from by simp [limbsVal],
    montRaw_limbs P _ [y] (by intro z hz; simp only [List.mem_cons, List.not_mem_nil, or_false] at hz; subst hz; exact hy') rfl]
  rw [List.foldl_cons, List.foldl_nil, ← hR]
  unfold reduceOnce
  rw [P_q] at hR2 ⊢
  by_cases h : R ≥ 18446744069414584321
  · rw [if_pos h]
    have := e2 h hR2
    omega
  · rw [if_neg h]
    exact e1 (by omega)

example := Mul_spec 5 7 (by decide +kernel) (by decide +kernel)

/-- `Square` is literally `Mul` with both operands equal -/
theorem Square_eq (x : Nat) : Square x = Gen.Limb.goldilocks.Mul x x := rfl

theorem Square_spec (x : Nat) (hx : x < P.q) : Square x = GV.Field.square P x := by
  rw [Square_eq, Mul_spec x x hx hx]; rfl

theorem Add_spec (x y : Nat) (hx : x < P.q) (hy : y < P.q) :
    Gen.Limb.goldilocks.Add x y = GV.Field.add P x y := by
  unfold GV.Field.add reduceOnce
  rw [P_q] at hx hy ⊢
  unfold Gen.Limb.goldilocks.Add
  limb_start
  subst z0_2_def
  by_cases hcond : (carry_1 ≠ 0 ∨ z0_1 ≥ 18446744069414584321)
  · rw [if_pos hcond] at z0_3_def
    subst z0_3_def
    by_cases h : x + y ≥ 18446744069414584321
    · rw [if_pos h]; omega
    · rw [if_neg h]; omega
  · rw [if_neg hcond] at z0_3_def
    subst z0_3_def
    by_cases h : x + y ≥ 18446744069414584321
    · rw [if_pos h]; omega
    · rw [if_neg h]; omega
example := Add_spec 5 7 (by decide +kernel) (by decide +kernel)

theorem Sub_spec (x y : Nat) (hx : x < P.q) (hy : y < P.q) :
    Gen.Limb.goldilocks.Sub x y = GV.Field.sub P x y := by
  unfold GV.Field.sub
  rw [P_q] at hx hy ⊢
  unfold Gen.Limb.goldilocks.Sub
  limb_start
  by_cases hcond : b_1 ≠ 0
  · rw [if_pos hcond] at z0_3_def
    subst z0_3_def
    by_cases h : x < y
    · rw [if_pos h]; omega
    · rw [if_neg h]; omega
  · rw [if_neg hcond] at z0_3_def
    subst z0_3_def
    by_cases h : x < y
    · rw [if_pos h]; omega
    · rw [if_neg h]; omega
example := Sub_spec 5 7 (by decide +kernel) (by decide +kernel)

theorem Neg_spec (x : Nat) (hx : x < P.q) :
    Gen.Limb.goldilocks.Neg x = GV.Field.neg P x := by
  unfold GV.Field.neg
  rw [P_q] at hx ⊢
  unfold Gen.Limb.goldilocks.Neg
  limb_start
  by_cases h : x = 0
  · rw [if_pos h] at z0_1_def
    rw [if_pos h]; exact z0_1_def
  · rw [if_neg h] at z0_1_def
    rw [if_neg h]
    subst z0_1_def
    omega
example := Neg_spec 5 (by decide +kernel)

end GV.Limb.goldilocks
