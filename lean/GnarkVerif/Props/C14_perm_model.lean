/- written by bin/mkc14perm.py (constant text). DO NOT EDIT: edit the script and re-run it. -/
import GnarkVerif.Props.C14
import GnarkVerif.Proofs.C14Perm
import GnarkVerif.Proofs.Poseidon2Hom
/-
C14 (tie T, composition of the Poseidon2 layers) — the package-independent, MODEL-side facts: when the executable model returns an
error, the shape of the key tables it accepts, and the bridge from the executable `Nat`-mod-q model to the form
`permute (ringOps (ZMod q)) (instOf …)` in which the generated `Permutation` defs are stated (Props/C14_perm_<pkg>.lean).
-/
namespace GV.Poseidon2
open GV.C14perm

/-- the executable model returns an error (`none`) exactly when the length of the buffer is not the width — the model's side of
the length guard `len(input) != h.params.Width` that every `Permutation.lengthGuard` states -/
theorem C14perm_model_error_iff (C : CInst) (x : List Nat) : C.perm x = none ↔ x.length ≠ C.inst.t := by
  unfold CInst.perm; split <;> simp_all

/-- a key table accepted by the model (`keysShapeOk`) has the row lengths `keysOf` produces (the shape the translator read from initRC) -/
theorem C14perm_keys_shape (t rf rp q : Nat) (keys : List (List Nat)) (h : keysShapeOk t rf rp keys q = true) :
    keys.map List.length = (keysOf t rf rp (rcOf 0 keys)).map List.length := by
  have hl : keys.length = rf + rp := by
    simp only [keysShapeOk, Bool.and_eq_true, beq_iff_eq] at h; exact h.1.1.1.1
  apply List.ext_getElem
  · simp [keysOf, hl]
  · intro i h1 h2
    simp only [List.length_map] at h1
    simp only [keysShapeOk, Bool.and_eq_true, beq_iff_eq, List.all_eq_true] at h
    obtain ⟨⟨⟨⟨_, ha⟩, hb⟩, hc⟩, _⟩ := h
    simp only [List.getElem_map, keysOf, List.getElem_range, List.length_map, List.length_range]
    by_cases c1 : i < rf / 2
    · have : keys[i] ∈ keys.take (rf / 2) := by
        rw [List.mem_take_iff_getElem]; exact ⟨i, by omega, rfl⟩
      rw [ha _ this, if_neg (by omega)]
    · by_cases c2 : i < rf / 2 + rp
      · have : keys[i] ∈ (keys.drop (rf / 2)).take rp := by
          rw [List.mem_take_iff_getElem]
          refine ⟨i - rf / 2, by simp; omega, ?_⟩
          simp only [List.getElem_drop]; congr 1; omega
        rw [hb _ this, if_pos (by omega)]
      · have : keys[i] ∈ keys.drop (rf / 2 + rp) := by
          rw [List.mem_drop_iff_getElem]
          refine ⟨i - (rf / 2 + rp), by omega, ?_⟩
          congr 1; omega
        rw [hc _ this, if_neg (by omega)]

theorem list_eq_range_getD {α : Type} (z : α) (l : List α) : l = (List.range l.length).map (fun j => l.getD j z) := by
  apply List.ext_getElem
  · simp
  · intro i h1 h2
    simp [List.getD_eq_getElem?_getD, List.getElem?_eq_getElem h1]

/-- a key table accepted by the model IS `keysOf` of its accessor -/
theorem C14perm_keys_eq (t rf rp q : Nat) (keys : List (List Nat)) (h : keysShapeOk t rf rp keys q = true) :
    keys = keysOf t rf rp (rcOf 0 keys) := by
  have hs := C14perm_keys_shape t rf rp q keys h
  have hl : keys.length = rf + rp := by
    simpa [keysOf] using congrArg List.length hs
  apply List.ext_getElem
  · simp [keysOf, hl]
  · intro i h1 h2
    have hi : (keys[i]).length = if rf / 2 ≤ i ∧ i < rf / 2 + rp then 1 else t := by
      have := congrArg (fun l => l[i]?) hs
      simp only [List.getElem?_map, List.getElem?_eq_getElem h1, List.getElem?_eq_getElem h2, Option.map_some, Option.some.injEq] at this
      rw [this]; simp [keysOf]
    simp only [keysOf, List.getElem_map, List.getElem_range]
    rw [← hi]
    have hr : rcOf 0 keys i = fun j => (keys[i]).getD j 0 := by
      funext j; simp [rcOf, List.getD_eq_getElem?_getD, List.getElem?_eq_getElem h1]
    rw [hr]
    exact list_eq_range_getD 0 _

/-- **the executable model on an accepted key table is the algebraic permutation on `keysOf`** — the right-hand side is the form
in which the generated `Permutation` defs are stated (Props/C14_perm_<pkg>) -/
theorem C14perm_exec (q : ℕ) (I : Inst ℕ) (h : keysShapeOk I.t I.rf I.rp I.keys q = true) (x : List ℕ) :
    (permute (natOps q) I x).map (Nat.cast : ℕ → ZMod q) =
      permute (ringOps (ZMod q)) (instOf I.t I.sb I.m4k (I.diag.map Nat.cast) I.rf I.rp (fun i j => ((rcOf 0 I.keys i j : ℕ) : ZMod q)))
        (x.map Nat.cast) := by
  rw [C14_p2_permute_field]
  congr 1
  simp only [Inst.map, instOf, Inst.mk.injEq, true_and]
  conv_lhs => rw [C14perm_keys_eq I.t I.rf I.rp q I.keys h]
  simp [keysOf, List.map_map, Function.comp_def]
end GV.Poseidon2
