import GnarkVerif.Proofs.XmdGen
import GnarkVerif.Props.C13
/-
C13_xmd_gen — tie T for expand_message_xmd: the Lean def `ExpandMsgXmd` of Gen/Imp/ExpandMsgXmd.lean is REGENERATED from
/repo/field/hash/hashutils.go on every run (tools/goslp mode "imp": the hasher `sha256.New()` as the abstract hash object with
parameters `W` (one Write), `H` (Sum(nil)), `hSize`, `hBlockSize`; byte buffers as values, `copy(res[a:b], src)` as a list splice,
`strxor[j] = b0[j] ^ b1[j]` as a list update, counting loops as fuel recursion, `(bytes, error)` results) and proved EQUAL to
`expandMsgXmd` of Model/HashToField.lean (an independent transcription of RFC 9380 §5.3.1) for ALL messages, tags and lengths ≥ 0,
for every hash whose Write accepts everything (`W = some`, a stream hash such as SHA-256) and whose digest has `hSize` bytes with
`255·hSize ≤ 65535`.  Hence the C13 theorems about the model (exact output length, error ↔ inadmissible parameters, the b_0 / b_i
chaining specification) are theorems about the translated Go text.
Not covered: negative `lenInBytes` (`make` panics in Go).
-/
namespace GV.XmdGen
open GV.GoImp GV.HashToField GV.Gen.Imp.HashUtils

/-- the translated text is the model, for every stream hash with `b`-byte digests (general block size `s`) -/
theorem C13xmdgen_eq (W : B → Option B) (hW : ∀ p, W p = some p) (H : B → B) (b s : Nat) (hb : 0 < b) (hH : ∀ m, (H m).length = b)
    (hb255 : 255 * b ≤ 65535) (msg dst : B) (len : Nat) :
    ExpandMsgXmd W H (b : Int) (s : Int) msg dst (len : Int) = outOf (expandMsgXmd H b s msg dst len) :=
  xmd_eq W hW H b s hb hH hb255 msg dst len

/-- the SHA-256 instance used by every `Hash` function of the library -/
theorem C13xmdgen_sha256 (msg dst : B) (len : Nat) :
    ExpandMsgXmd some Sha256.hash 32 64 msg dst (len : Int) = outOf (xmdSha256 msg dst len) :=
  xmd_eq some (fun _ => rfl) Sha256.hash 32 64 (by decide) sha256_length (by decide) msg dst len

/-- transfer of C13.1 (exact output length): a nil error means exactly `lenInBytes` bytes -/
theorem C13xmdgen_length (msg dst : B) (len : Nat) (h : (ExpandMsgXmd some Sha256.hash 32 64 msg dst (len : Int)).2 = GoImp.Err.nil) :
    (ExpandMsgXmd some Sha256.hash 32 64 msg dst (len : Int)).1.length = len := by
  rw [C13xmdgen_sha256] at h ⊢
  cases hx : xmdSha256 msg dst len with
  | ok out => simp only [outOf]; exact C13_xmdSha256_length msg dst len out hx
  | error e => cases e <;> simp [hx, outOf] at h

/-- transfer of C13.2 (errors exactly on inadmissible parameters, SHA-256 numbers): "invalid lenInBytes" ↔ 8160 < len,
"invalid domain size" ↔ len ≤ 8160 ∧ 255 < |dst|, nil error ↔ len ≤ 8160 ∧ |dst| ≤ 255 -/
theorem C13xmdgen_errors (msg dst : B) (len : Nat) :
    ((ExpandMsgXmd some Sha256.hash 32 64 msg dst (len : Int)).2 = GoImp.Err.sentinel "invalid lenInBytes" ↔ 8160 < len) ∧
    ((ExpandMsgXmd some Sha256.hash 32 64 msg dst (len : Int)).2 = GoImp.Err.sentinel "invalid domain size (>255 bytes)" ↔
      len ≤ 8160 ∧ 255 < dst.length) ∧
    ((ExpandMsgXmd some Sha256.hash 32 64 msg dst (len : Int)).2 = GoImp.Err.nil ↔ len ≤ 8160 ∧ dst.length ≤ 255) := by
  rw [C13xmdgen_sha256]
  obtain ⟨e1, e2, e3⟩ := C13_xmd_sha256_errors Sha256.hash msg dst len
  unfold xmdSha256
  cases hx : expandMsgXmd Sha256.hash 32 64 msg dst len with
  | ok out =>
    have h3 := e3.mp ⟨out, hx⟩
    simp only [outOf]
    refine ⟨by constructor <;> intro h <;> first | (simp at h) | omega, by constructor <;> intro h <;> first | (simp at h) | omega, by simp; exact h3⟩
  | error e =>
    cases e with
    | len =>
      have := e1.mp hx
      simp only [outOf]
      refine ⟨by simp; exact this, by constructor <;> intro h <;> first | (simp at h) | omega, by constructor <;> intro h <;> first | (simp at h) | omega⟩
    | dst =>
      have := e2.mp hx
      simp only [outOf]
      refine ⟨by constructor <;> intro h <;> first | (simp at h) | omega, by simp; exact this, by constructor <;> intro h <;> first | (simp at h) | omega⟩

/-- transfer of C13.3 (the b_0 / b_i chaining specification): on admissible parameters the translated text returns the first
`lenInBytes` bytes of `b_1 ‖ … ‖ b_ell` -/
theorem C13xmdgen_spec (msg dst : B) (len : Nat) (hadm : Admissible 32 dst len) :
    let dstPrime := dst ++ [UInt8.ofNat dst.length]
    let b0 := Sha256.hash (List.replicate 64 0 ++ msg ++ natToBE 2 len ++ [0] ++ dstPrime)
    ExpandMsgXmd some Sha256.hash 32 64 msg dst (len : Int) =
      ((uniformSpec Sha256.hash b0 dstPrime (ellOf 32 len)).take len, GoImp.Err.nil) := by
  intro dstPrime b0
  rw [C13xmdgen_sha256]
  unfold xmdSha256
  rw [C13_xmd_spec Sha256.hash 32 64 (by decide) msg dst len hadm]
  rfl

/-! non-vacuity: the generated code run with a toy 2-byte stream hash (digest = length and first byte of what was absorbed): 5 bytes =
three blocks, the last one truncated; an over-long tag and an over-long request are refused -/
example :
    let H : B → B := fun m => [UInt8.ofNat m.length, m.headD 7]
    ExpandMsgXmd some H 2 4 [9] [5] 5 = ([5, 10, 5, 15, 5], GoImp.Err.nil) ∧
    (ExpandMsgXmd some H 2 4 [9] (List.replicate 256 1) 5).2 = GoImp.Err.sentinel "invalid domain size (>255 bytes)" ∧
    (ExpandMsgXmd some H 2 4 [9] [5] 511).2 = GoImp.Err.sentinel "invalid lenInBytes" ∧
    ExpandMsgXmd some H 2 4 [9] [5] 0 = ([], GoImp.Err.nil) := by decide +kernel

end GV.XmdGen
