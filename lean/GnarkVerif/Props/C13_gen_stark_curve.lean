/- INSTANTIATED by bin/mkc13gen.py (SvdW template) with the constants of Gen/H2C/Stark_curve.lean. DO NOT EDIT: edit the script. -/
import GnarkVerif.Props.C13
import GnarkVerif.Proofs.H2CGen
import GnarkVerif.Gen.H2C.Stark_curve
/-
C13 (tie T) — stark-curve G1: the Shallue–van de Woestijne map `MapToCurve1` of /repo/ecc/stark-curve/hash_to_g1.go.

Every theorem below is about `GV.Gen.H2C.stark_curve.MapToCurve1`, a def that tools/goslp REGENERATES from the Go source on
every run (Gen/H2C/Stark_curve.lean): the constants `Z, c1..c4` are the Go literals (converted from Montgomery form), the
candidate selection is the Go flag arithmetic (`Legendre() >> 1`, `|`, `^`, `Select`), `Sqrt` / `Legendre` are parameters
with their specification `LegSqrtOK` as hypothesis, `g1Sgn0` is the translated parity of the canonical representative.
`MapToCurve1_eq` is the proof-level tie to the hand transcription `Model.HashToField.svdw`; the relations between the
constants (RFC 9380 §F.1) are PROVED here from the literals, in any field in which the base modulus vanishes.
-/
set_option linter.unusedSectionVars false
set_option linter.unusedVariables false
set_option linter.unusedSimpArgs false
set_option linter.unusedTactic false
set_option linter.unreachableTactic false
namespace GV.Gen.H2C.stark_curve
open GV GV.HashToField GV.H2CGen

/-- the base-field modulus (Gen/Fields.lean, regenerated) -/
abbrev q : Nat := 3618502788666131213697322783095070105623107215331596699973092056135872020481
theorem q_eq : q = Gen.stark_curve_fp.q := by decide +kernel

variable {F : Type} [Field F] [DecidableEq F]

/-- the SvdW constants as they appear in the generated def -/
def P (b : F) : SvdwParams F where
  A := 1
  B := b
  Z := ((1 : Nat) : F)
  c1 := ((3141592653589793238462643383279502884197169399375105820974944592307816406667 : Nat) : F)
  c2 := ((1809251394333065606848661391547535052811553607665798349986546028067936010240 : Nat) : F)
  c3 := ((747120397548504753672821049844706693752799645928246271384591722031176001048 : Nat) : F)
  c4 := ((272520077186478842991245371323181269386250180546566216570369979330317493608 : Nat) : F)

/-- `g1Sgn0` as a Boolean: parity of the canonical representative (`z.Bits()[0] % 2`) -/
def sgn0 (toNat : F → Nat) (z : F) : Bool := decide (toNat z % 18446744073709551616 % 2 = 1)

theorem g1Sgn0_eq (toNat : F → Nat) (z : F) : (g1Sgn0 z toNat).1 = toNat z % 18446744073709551616 % 2 := rfl

/-- bridge: the generated def is the hand-transcribed straight-line map on the Go constants -/
theorem MapToCurve1_eq (b u : F) (legendre : F → Int) (sqrt : F → Option F) (toNat : F → Nat)
    (hl : ∀ a, legendre a = -1 ∨ legendre a = 0 ∨ legendre a = 1) :
    (MapToCurve1 u b legendre sqrt toNat).1 =
      let r := svdw (fieldOps F) (fun a => decide (legendre a >>> 1 = 0)) (fun a => (sqrt a).getD 0)
        (sgn0 toNat) (P b) u
      ⟨r.1, r.2⟩ := by
  dsimp only [MapToCurve1, g1Sgn0, svdw, svdwX, svdwCandidates, gOf, fieldOps, P, sgn0]
  simp only [add_zero, decide_eq_true_eq]
  rw [svdw_select _ _ (shr1_of_leg _ (hl _)).2 (shr1_of_leg _ (hl _)).2]
  congr 1
  all_goals first | exact select_xor_parity _ _ _ _ | rfl

/-- the relations of RFC 9380 §F.1 between the Go constants, in any field where the modulus is 0 and `b` is the curve
coefficient (multiples of the modulus and square roots computed offline, checked by the kernel) -/
theorem consts_ok (b : F) (hq : ((q : Nat) : F) = 0) (hb : b = ((3141592653589793238462643383279502884197169399375105820974944592307816406665 : Nat) : F)) : SvdwConstsOK (P b) where
  two_ne := two_ne_zero_of_odd_char 1809251394333065606848661391547535052811553607665798349986546028067936010240 hq
  c1_def := by
    have h := natCast_eq_of_eq_add_mul (F := F) q ((1 * 1 + 1) * 1 + 3141592653589793238462643383279502884197169399375105820974944592307816406665) 3141592653589793238462643383279502884197169399375105820974944592307816406667 0 hq rfl
    subst hb; simp only [P]; push_cast at h ⊢; linear_combination -h
  c2_def := by
    have h := natCast_eq_of_eq_add_mul (F := F) q (2 * 1809251394333065606848661391547535052811553607665798349986546028067936010240 + 1) 0 1 hq rfl
    simp only [P]; push_cast at h ⊢; linear_combination h
  c3_def := by
    have h := natCast_eq_of_eq_add_mul (F := F) q (747120397548504753672821049844706693752799645928246271384591722031176001048 ^ 2 + 3141592653589793238462643383279502884197169399375105820974944592307816406667 * (3 * 1 ^ 2 + 4 * 1)) 0 154259626434832150186028169190397783289043807188294994846194233855313541133 hq rfl
    simp only [P]; push_cast at h ⊢; linear_combination h
  c4_def := by
    have h := natCast_eq_of_eq_add_mul (F := F) q (272520077186478842991245371323181269386250180546566216570369979330317493608 * (3 * 1 ^ 2 + 4 * 1) + 4 * 3141592653589793238462643383279502884197169399375105820974944592307816406667) 0 4 hq rfl
    simp only [P]; push_cast at h ⊢; linear_combination h
  c4_sq := by
    refine ⟨((1337323938700197733392332321370828132766246050591185365307156103477894865621 : Nat) : F), ?_⟩
    have h := natCast_eq_of_eq_add_mul (F := F) q (1337323938700197733392332321370828132766246050591185365307156103477894865621 * 1337323938700197733392332321370828132766246050591185365307156103477894865621) 272520077186478842991245371323181269386250180546566216570369979330317493608 494247323125560254692778880132260035892460090114257041276071526046326333393 hq rfl
    simp only [P]; push_cast at h ⊢; linear_combination -h
  z_sq := by
    left
    refine ⟨((1130673244253924969006665885121925533155264548256591442770131812330730973800 : Nat) : F), ?_⟩
    have h := natCast_eq_of_eq_add_mul (F := F) q (1130673244253924969006665885121925533155264548256591442770131812330730973800 * 1130673244253924969006665885121925533155264548256591442770131812330730973800) 3141592653589793238462643383279502884197169399375105820974944592307816406667 353301367979034649258479950941769803782775378204299978600341392507892640693 hq rfl
    simp only [P]; push_cast at h ⊢; linear_combination -h

variable (legendre : F → Int) (sqrt : F → Option F) (toNat : F → Nat)

/-- C13gen.1 (stark-curve) for EVERY `u` the point returned by the translated `MapToCurve1` is on `y² = x³ + x + b` -/
theorem C13gen_stark_curve_svdw_on_curve (b : F) (hq : ((q : Nat) : F) = 0) (hb : b = ((3141592653589793238462643383279502884197169399375105820974944592307816406665 : Nat) : F))
    (hprim : LegSqrtOK legendre sqrt)
    (hmul : ∀ a b : F, ¬ IsSquare a → ¬ IsSquare b → IsSquare (a * b)) (u : F) :
    let p := (MapToCurve1 u b legendre sqrt toNat).1
    p.Y * p.Y = p.X * p.X * p.X + p.X + b := by
  intro p
  have h := C13_svdw_on_curve (fun a => (sqrt a).getD 0) (sgn0 toNat) (P b) (consts_ok b hq hb)
    (fun a => decide (legendre a >>> 1 = 0)) hprim.isSq_iff hmul (fun a ha => hprim.sqrt_getD a ha) u
  simp only [p, MapToCurve1_eq b u legendre sqrt toNat hprim.leg_range]
  simpa [P] using h

/-- C13gen.2 (stark-curve) the same over a finite field (product of two non-residues is a residue: proved) -/
theorem C13gen_stark_curve_svdw_on_curve_finite [Fintype F] (b : F) (hq : ((q : Nat) : F) = 0) (hb : b = ((3141592653589793238462643383279502884197169399375105820974944592307816406665 : Nat) : F))
    (hprim : LegSqrtOK legendre sqrt) (u : F) :
    let p := (MapToCurve1 u b legendre sqrt toNat).1
    p.Y * p.Y = p.X * p.X * p.X + p.X + b :=
  C13gen_stark_curve_svdw_on_curve legendre sqrt toNat b hq hb hprim finite_field_nonsquare_mul u

/-- C13gen.3 (stark-curve) sign convention: `g1Sgn0(y) = g1Sgn0(u)`; the parity of the canonical representative flips under
negation of a non-zero element (the modulus is odd) and the curve has no point with `y = 0` -/
theorem C13gen_stark_curve_svdw_sign [Fintype F] (b : F) (hq : ((q : Nat) : F) = 0) (hb : b = ((3141592653589793238462643383279502884197169399375105820974944592307816406665 : Nat) : F))
    (hprim : LegSqrtOK legendre sqrt)
    (hpar : ∀ y : F, y ≠ 0 → toNat (-y) % 18446744073709551616 % 2 ≠ toNat y % 18446744073709551616 % 2)
    (hnr : ∀ x : F, (x * x + 1) * x + b ≠ 0) (u : F) :
    (g1Sgn0 (MapToCurve1 u b legendre sqrt toNat).1.Y toNat).1 = (g1Sgn0 u toNat).1 := by
  have hsgn : ∀ y : F, y ≠ 0 → sgn0 toNat (-y) = !sgn0 toNat y := by
    intro y hy
    have := hpar y hy
    simp only [sgn0]
    rcases Nat.mod_two_eq_zero_or_one (toNat (-y) % 18446744073709551616) with h1 | h1 <;>
      rcases Nat.mod_two_eq_zero_or_one (toNat y % 18446744073709551616) with h2 | h2 <;> simp_all
  have h := C13_svdw_sign (fun a => (sqrt a).getD 0) (sgn0 toNat) (P b) (consts_ok b hq hb)
    (fun a => decide (legendre a >>> 1 = 0)) hprim.isSq_iff finite_field_nonsquare_mul
    (fun a ha => hprim.sqrt_getD a ha) hsgn
    (fun x => by simpa [gOf, fieldOps, P] using hnr x) u
  rw [MapToCurve1_eq b u legendre sqrt toNat hprim.leg_range, g1Sgn0_eq, g1Sgn0_eq]
  simp only [sgn0] at h
  rcases Nat.mod_two_eq_zero_or_one (toNat u % 18446744073709551616) with h1 | h1 <;>
    rcases Nat.mod_two_eq_zero_or_one
      (toNat (svdw (fieldOps F) (fun a => decide (legendre a >>> 1 = 0)) (fun a => (sqrt a).getD 0)
        (sgn0 toNat) (P b) u).2 % 18446744073709551616) with h2 | h2 <;> simp_all [sgn0]

/-- non-vacuity: the hypotheses on the constants hold in `ZMod q` (a field as soon as `q` is prime), those on the
primitives are satisfiable in every field -/
example [Fact (Nat.Prime q)] : SvdwConstsOK (P (((3141592653589793238462643383279502884197169399375105820974944592307816406665 : Nat) : ZMod q))) := consts_ok _ (ZMod.natCast_self q) rfl
example : ∃ (l : F → Int) (s : F → Option F), LegSqrtOK l s := legSqrtOK_exists

end GV.Gen.H2C.stark_curve
