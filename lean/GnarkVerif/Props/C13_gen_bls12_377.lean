/- INSTANTIATED by bin/mkc13gen.py (SSWU template) with the constants of Gen/H2C/Bls12_377.lean. DO NOT EDIT: edit the script. -/
import GnarkVerif.Props.C13
import GnarkVerif.Proofs.H2CGen
import GnarkVerif.Gen.H2C.Bls12_377
/-
C13 (tie T) — bls12-377 G1: the simplified SWU map `MapToCurve1` of /repo/ecc/bls12-377/hash_to_g1.go with `G1MulByZ`,
`G1NotZero`, `G1Sgn0`, `G1SqrtRatio` of /repo/ecc/bls12-377/hash_to_curve/g1.go.

Every theorem is about defs of Gen/H2C/Bls12_377.lean, which tools/goslp REGENERATES from the Go source on every run. The
proofs name the intermediate values of the generated def (`extract_lets`), so an edit of the Go straight-line program
(another operand, another flag, another constant) breaks them. Limb-level primitives are parameters with their
specification as hypothesis: `limbOr` (OR of all Montgomery limbs, `G1NotZero`), `notEqual` (`Element.NotEqual`),
`toNat` (canonical representative, `Bits()`).
-/
set_option linter.unusedSectionVars false
set_option linter.unusedVariables false
namespace GV.Gen.H2C.bls12_377
open GV GV.HashToField GV.H2CGen

abbrev q : Nat := 258664426012969094010652733694893533536393512754914660539884262666720468348340822774968888139573360124440321458177
theorem q_eq : q = Gen.bls12_377_fp.q := by decide +kernel

variable {F : Type} [Field F] [DecidableEq F]

/-- coefficients of the isogenous curve and the SSWU constant, as regenerated from the Go literals -/
abbrev A : F := const_g1sswuCurveACoeff
abbrev B : F := const_g1sswuCurveBCoeff
abbrev Z : F := const_g1sswuCurveZ

/-- specification of `G1SqrtRatio` (RFC 9380 §F.2.1) about the GENERATED def: `r.1 = 0` iff `n/d` is a square -/
def SqrtRatioOK (notEqual : F → F → Nat) : Prop :=
  ∀ n d : F, d ≠ 0 →
    ((G1SqrtRatio n d notEqual).1 = 0 → (G1SqrtRatio n d notEqual).2.1 ^ 2 * d = n) ∧
    ((G1SqrtRatio n d notEqual).1 ≠ 0 →
      (G1SqrtRatio n d notEqual).2.1 ^ 2 * d = Z * n ∧ ¬ IsSquare (n / d))

variable (toNat : F → Nat) (notEqual : F → F → Nat) (limbOr : F → Nat)

/-- the addition chain `G1MulByZ` multiplies by the constant `Z` -/
theorem G1MulByZ_eq (x : F) : G1MulByZ_z_eq_x x = Z * x := by
  simp only [G1MulByZ_z_eq_x, Z, const_g1sswuCurveZ]; push_cast; ring

/-- C13gen.4 (bls12-377) SSWU lands on the ISOGENOUS curve `y² = x³ + A·x + B` for every `u`; for the exceptional inputs
`Z²u⁴ + Zu² = 0` (`u = 0` is one) this needs criterion 4 of `find_z_sswu`: `g(B/(Z·A))` is a square -/
theorem C13gen_bls12_377_sswu_on_curve (hlimb : ∀ x : F, limbOr x = 0 ↔ x = 0)
    (hA : (A : F) ≠ 0) (hZ : (Z : F) ≠ 0) (hsr : SqrtRatioOK notEqual)
    (u : F)
    (hcrit4 : Z * (u * u) * (Z * (u * u)) + Z * (u * u) = 0 →
      IsSquare (((B : F) / (Z * A)) ^ 3 + A * (B / (Z * A)) + B)) :
    let p := (MapToCurve1 u toNat notEqual limbOr).1
    p.Y * p.Y = p.X * p.X * p.X + A * p.X + B := by
  unfold MapToCurve1
  extract_lets r_1 tv1_1 tv1_2 tv2_1 tv2_2 tv3_1 tv3_2 ret_1 ret_2 tv2_3 tv4_1 tv4_2 tv2_4 tv6_1 tv5_1 tv2_5 tv2_6 tv6_2
    tv5_2 tv2_7 x_1 r_2 gx1NSquare_1 y_1 y_2 x_2 y_3 y1_1 ret_3 ret_4 y_4 x_3 p
  have hrA : r_1.1 = A := rfl
  have hrB : r_1.2 = B := rfl
  have ht : tv1_2 = Z * (u * u) := G1MulByZ_eq _
  have hret1 : ret_1 = 0 ↔ tv2_2 = 0 := hlimb tv2_2
  have hret2 : ret_2 = Z := rfl
  have hy4 : y_4 * y_4 = y_3 * y_3 := by simp only [y_4, y1_1]; split <;> ring
  show y_4 * y_4 = x_3 * x_3 * x_3 + A * x_3 + B
  rw [hy4]
  have h4 : tv4_2 ≠ 0 := by
    simp only [tv4_2, tv4_1, hrA]
    split
    · exact mul_ne_zero (hret2 ▸ hZ) hA
    · rename_i h; exact mul_ne_zero (neg_ne_zero.mpr (fun h0 => h (hret1.mpr h0))) hA
  have hd3 : tv6_2 ≠ 0 := mul_ne_zero (mul_ne_zero h4 h4) h4
  obtain ⟨hs1, hs2⟩ := hsr tv2_7 tv6_2 hd3
  by_cases hr : gx1NSquare_1 = 0
  · -- first candidate x1 = tv3/tv4
    have h1 : r_2.2.1 ^ 2 * tv6_2 = tv2_7 := hs1 hr
    have hx : x_3 = tv3_2 * tv4_2⁻¹ := by simp only [x_3, x_2, if_pos hr]
    have hy : y_3 = r_2.2.1 := by simp only [y_3, if_pos hr]
    rw [hx, hy]
    refine sswu_frac_on_curve A B tv3_2 tv4_2 r_2.2.1 h4 ?_
    simp only [tv6_2, tv6_1, tv2_7, tv2_6, tv2_5, tv2_4, tv5_1, tv5_2, hrA, hrB] at h1
    linear_combination h1
  · obtain ⟨h2, hns⟩ := hs2 hr
    replace h2 : r_2.2.1 ^ 2 * tv6_2 = Z * tv2_7 := h2
    by_cases h0 : tv2_2 = 0
    · -- exceptional input: x1 = B/(Z·A), and g(x1) is a square by criterion 4 of find_z_sswu
      exfalso
      apply hns
      have e4 : tv4_2 = Z * A := by simp only [tv4_2, tv4_1, if_pos (hret1.mpr h0), hret2, hrA]
      have e3 : tv3_2 = B := by simp only [tv3_2, tv3_1, h0, hrB]; ring
      have : tv2_7 / tv6_2 = ((B : F) / (Z * A)) ^ 3 + A * (B / (Z * A)) + B := by
        simp only [tv6_2, tv6_1, tv2_7, tv2_6, tv2_5, tv2_4, tv5_1, tv5_2, hrA, hrB, e4, e3]
        field_simp
      rw [this]
      have hexc : tv1_2 * tv1_2 + tv1_2 = 0 := h0
      rw [ht] at hexc
      exact hcrit4 hexc
    · have hdd : tv4_2 = A * -(Z * (u * u) * (Z * (u * u)) + Z * (u * u)) := by
        simp only [tv4_2, tv4_1, if_neg (fun h => h0 (hret1.mp h)), tv2_3, tv2_2, tv2_1, hrA, ht]; ring
      have key := sswu_second_on_curve A B Z u tv4_2 r_2.2.1 h4 hdd (by
        simp only [tv6_2, tv6_1, tv2_7, tv2_6, tv2_5, tv2_4, tv5_1, tv5_2, tv3_2, tv3_1, tv2_2, tv2_1, hrA, hrB, ht] at h2
        linear_combination h2)
      simp only [x_3, x_2, y_3, y_2, y_1, x_1, if_neg hr, tv3_2, tv3_1, tv2_2, tv2_1, hrB, ht]
      linear_combination key

/-! ### the constants: side conditions PROVED from the Go literals, in any field in which the base modulus vanishes
(Bézout coefficients / square roots computed offline, checked by the kernel) -/

theorem A_ne_zero (hq : ((q : Nat) : F) = 0) : (A : F) ≠ 0 := by
  have h : ((258664426012969092796408009721202742408018065645352501567204841856062976176281513834280849065051431927238430294002 * 120710065472718910543701252275277830277554196828336006736269008892516918527768203112499650194354332183393047307879 : Nat) : F) = ((1 + 120710065472718909977053714420888794392312269595588554620176328708681847091571850266989160381774574669796338984541 * q : Nat) : F) := by congr 1
  rw [Nat.cast_add, Nat.cast_mul _ q, hq, mul_zero, add_zero, Nat.cast_mul, Nat.cast_one] at h
  intro h0
  simp only [A, const_g1sswuCurveACoeff] at h0
  rw [h0, zero_mul] at h
  exact zero_ne_one h

theorem Z_ne_zero (hq : ((q : Nat) : F) = 0) : (Z : F) ≠ 0 := by
  have h : ((5 * 103465770405187637604261093477957413414557405101965864215953705066688187339336329109987555255829344049776128583271 : Nat) : F) = ((1 + 2 * q : Nat) : F) := by congr 1
  rw [Nat.cast_add, Nat.cast_mul _ q, hq, mul_zero, add_zero, Nat.cast_mul, Nat.cast_one] at h
  intro h0
  simp only [Z, const_g1sswuCurveZ] at h0
  rw [h0, zero_mul] at h
  exact zero_ne_one h

/- `crit4` (criterion 4 of `find_z_sswu`: `g(B/(Z·A))` is a square) is NOT provable for this curve: the script found
that `g(B/(Z·A))` is a NON-residue for the Go constants of bls12-377 G1 (FINDING: the SSWU constant Z violates criterion 4).
For the exceptional inputs `Z²u⁴ + Zu² = 0` - `u = 0` always is one - the Go map returns `(0, 0)`-like points that are not
on the isogenous curve. The theorem below therefore excludes exactly these inputs. -/

/-- C13gen.4' (bls12-377) every NON-exceptional `u` is mapped to the isogenous curve (constants discharged) -/
theorem C13gen_bls12_377_sswu_on_curve_nonexceptional (hq : ((q : Nat) : F) = 0) (hlimb : ∀ x : F, limbOr x = 0 ↔ x = 0)
    (hsr : SqrtRatioOK notEqual) (u : F) (hu : Z * (u * u) * (Z * (u * u)) + Z * (u * u) ≠ (0 : F)) :
    let p := (MapToCurve1 u toNat notEqual limbOr).1
    p.Y * p.Y = p.X * p.X * p.X + A * p.X + B :=
  C13gen_bls12_377_sswu_on_curve toNat notEqual limbOr hlimb (A_ne_zero hq) (Z_ne_zero hq) hsr u (fun h => absurd h hu)

/-- C13gen.6 (bls12-377) sign convention `G1Sgn0(y) = G1Sgn0(u)` whenever `y ≠ 0` (`sgn0(0) = 0` cannot be flipped); the
parity of the canonical representative flips under negation of a non-zero element (odd modulus) -/
theorem C13gen_bls12_377_sswu_sign
    (hpar : ∀ y : F, y ≠ 0 → toNat (-y) % 18446744073709551616 % 2 ≠ toNat y % 18446744073709551616 % 2) (u : F) :
    let p := (MapToCurve1 u toNat notEqual limbOr).1
    p.Y ≠ 0 → (G1Sgn0 p.Y toNat).1 = (G1Sgn0 u toNat).1 := by
  unfold MapToCurve1
  extract_lets r_1 tv1_1 tv1_2 tv2_1 tv2_2 tv3_1 tv3_2 ret_1 ret_2 tv2_3 tv4_1 tv4_2 tv2_4 tv6_1 tv5_1 tv2_5 tv2_6 tv6_2
    tv5_2 tv2_7 x_1 r_2 gx1NSquare_1 y_1 y_2 x_2 y_3 y1_1 ret_3 ret_4 y_4 x_3 p
  show y_4 ≠ 0 → (G1Sgn0 y_4 toNat).1 = (G1Sgn0 u toNat).1
  have e3 : ret_3 = toNat u % 18446744073709551616 % 2 := rfl
  have e4 : ret_4 = toNat y_3 % 18446744073709551616 % 2 := rfl
  intro hy
  simp only [G1Sgn0]
  by_cases hx : ret_3 ^^^ ret_4 = 0
  · have : y_4 = y_3 := by simp only [y_4, if_pos hx]
    rw [this]
    rw [e3, e4, xor_parity_eq_zero] at hx
    exact hx.symm
  · have h4 : y_4 = -y_3 := by simp only [y_4, y1_1, if_neg hx]
    have hy3 : y_3 ≠ 0 := by intro h0; apply hy; rw [h4, h0, neg_zero]
    have hp := hpar y_3 hy3
    rw [h4, ← e3]
    rw [e3, e4, xor_parity_eq_zero] at hx
    rcases Nat.mod_two_eq_zero_or_one (toNat u % 18446744073709551616) with a | a <;>
      rcases Nat.mod_two_eq_zero_or_one (toNat y_3 % 18446744073709551616) with b | b <;>
      rcases Nat.mod_two_eq_zero_or_one (toNat (-y_3) % 18446744073709551616) with c | c <;> simp_all

/-- non-vacuity of the hypotheses on the limb-level primitives: they hold for `limbOr x = if x = 0 then 0 else 1`,
`notEqual a b = if a = b then 0 else 1` in every field -/
example : ∃ (l : F → Nat) (n : F → F → Nat), (∀ x, l x = 0 ↔ x = 0) ∧ (∀ a b, n a b = 0 ↔ a = b) :=
  ⟨fun x => if x = 0 then 0 else 1, fun a b => if a = b then 0 else 1,
    fun x => by by_cases h : x = 0 <;> simp [h], fun a b => by by_cases h : a = b <;> simp [h]⟩

end GV.Gen.H2C.bls12_377
