import GnarkVerif.Proofs.HashToField
import GnarkVerif.Proofs.Svdw
import Mathlib.Algebra.Field.ZMod
/-
Property C13 — hash-to-field and hash-to-curve are total, valid and conform to RFC 9380.

Part 1: expand_message_xmd / hash_to_field (model `Model/HashToField.lean`, transcribed from RFC 9380 §5.2, §5.3.1).
The model is a total function (no partial operation), so "never panics" holds by construction for the model; the Go code
`field/hash.ExpandMsgXmd` is tied to it by correspondence and DISAGREES (slice-bounds panic) for `lenInBytes < 32`.
Part 2: the Shallue–van de Woestijne map of `ecc/bn254/hash_to_g1.go` (same template: bn254 G2, grumpkin, secp256k1,
stark-curve): the selected candidate is on the curve for EVERY u (including u = 0 and the exceptional inputs where
`inv0` is applied to 0), and `sgn0(y) = sgn0(u)`.
-/
namespace GV.HashToField
open GV GV.Alg

/-! ## Part 1 — expand_message_xmd and hash_to_field -/

/-- admissibility as the property states it (b = 32: `lenInBytes ≤ 8160 = 255·32`, `|dst| ≤ 255`) -/
def Admissible (b : Nat) (dst : List UInt8) (lenInBytes : Nat) : Prop :=
  ellOf b lenInBytes ≤ 255 ∧ lenInBytes ≤ 65535 ∧ dst.length ≤ 255

/-- C13.1 the output has EXACTLY `lenInBytes` bytes whenever the expansion succeeds – for all messages, tags and
lengths, including `lenInBytes < b` and `lenInBytes = 0` (where the Go code panics). -/
theorem C13_xmd_length (H : List UInt8 → List UInt8) (b s : Nat) (hb : 0 < b) (hH : ∀ m, (H m).length = b)
    (msg dst : List UInt8) (len : Nat) (out : List UInt8)
    (h : expandMsgXmd H b s msg dst len = .ok out) : out.length = len := by
  unfold expandMsgXmd at h
  simp only at h
  split at h
  · exact absurd h (by simp)
  · split at h
    · exact absurd h (by simp)
    · injection h with h
      subst h
      rw [List.length_take, List.length_append, hH, blockLoop_length H b hH]
      have hge := ell_mul_ge b len hb
      by_cases h0 : ellOf b len = 0
      · have := ell_zero b len hb h0; omega
      · have : (ellOf b len - 1) * b + b = ellOf b len * b := by
          rw [← Nat.succ_mul]; congr 1; omega
        omega

example : (xmdSha256 [1, 2, 3] [4, 5] 5).map List.length = .ok 5 := by decide +kernel

/-- C13.1' the same for the SHA-256 instance used by the library, unconditionally (`Sha256.hash` returns 32 bytes) -/
theorem C13_xmdSha256_length (msg dst : List UInt8) (len : Nat) (out : List UInt8)
    (h : xmdSha256 msg dst len = .ok out) : out.length = len :=
  C13_xmd_length Sha256.hash 32 64 (by decide) sha256_length msg dst len out h

/-- C13.2 it fails exactly on the inadmissible parameters (general `b`) … -/
theorem C13_xmd_error_iff (H : List UInt8 → List UInt8) (b s : Nat) (msg dst : List UInt8) (len : Nat) :
    (∃ e, expandMsgXmd H b s msg dst len = .error e) ↔ ¬ Admissible b dst len := by
  unfold expandMsgXmd Admissible
  simp only
  split
  · constructor
    · intro _; omega
    · intro _; exact ⟨_, rfl⟩
  · split
    · constructor
      · intro _; omega
      · intro _; exact ⟨_, rfl⟩
    · constructor
      · rintro ⟨e, he⟩; exact absurd he (by simp)
      · intro hn; omega

/-- … and for SHA-256 (b = 32) that is: output longer than 8160 bytes, or a tag longer than 255 bytes; with the error
classes: `len` iff `lenInBytes > 8160`, `dst` iff `lenInBytes ≤ 8160 ∧ |dst| > 255`. -/
theorem C13_xmd_sha256_errors (H : List UInt8 → List UInt8) (msg dst : List UInt8) (len : Nat) :
    (expandMsgXmd H 32 64 msg dst len = .error .len ↔ 8160 < len) ∧
    (expandMsgXmd H 32 64 msg dst len = .error .dst ↔ len ≤ 8160 ∧ 255 < dst.length) ∧
    ((∃ out, expandMsgXmd H 32 64 msg dst len = .ok out) ↔ len ≤ 8160 ∧ dst.length ≤ 255) := by
  unfold expandMsgXmd ellOf
  simp only
  split
  · rename_i h
    refine ⟨⟨fun _ => by omega, fun _ => rfl⟩, ⟨fun h' => by simp at h', fun h' => by omega⟩,
      ⟨fun ⟨_, h'⟩ => by simp at h', fun h' => by omega⟩⟩
  · rename_i h
    split
    · rename_i h2
      refine ⟨⟨fun h' => by simp at h', fun h' => by omega⟩, ⟨fun _ => by omega, fun _ => rfl⟩,
        ⟨fun ⟨_, h'⟩ => by simp at h', fun h' => by omega⟩⟩
    · rename_i h2
      refine ⟨⟨fun h' => by simp at h', fun h' => by omega⟩, ⟨fun h' => by simp at h', fun h' => by omega⟩,
        ⟨fun _ => by omega, fun _ => ⟨_, rfl⟩⟩⟩

example : xmdSha256 [] [] 8161 = .error .len := by decide +kernel
example : xmdSha256 [] (List.replicate 256 0) 10 = .error .dst := by decide +kernel
example : ∃ out, xmdSha256 [] [] 0 = .ok out := ⟨[], by decide +kernel⟩

/-- C13.3 structure theorem: on admissible parameters the result is the first `lenInBytes` bytes of
`b_1 ‖ … ‖ b_ell` where `b_0 = H(Z_pad ‖ msg ‖ I2OSP(len,2) ‖ 0 ‖ DST')`, `b_1 = H(b_0 ‖ 1 ‖ DST')`,
`b_i = H((b_0 xor b_(i-1)) ‖ i ‖ DST')` (`bSpec`, a recursion on the block index – independent of the loop). -/
theorem C13_xmd_spec (H : List UInt8 → List UInt8) (b s : Nat) (hb : 0 < b) (msg dst : List UInt8) (len : Nat)
    (hadm : Admissible b dst len) :
    let dstPrime := dst ++ [UInt8.ofNat dst.length]
    let b0 := H (List.replicate s 0 ++ msg ++ natToBE 2 len ++ [0] ++ dstPrime)
    expandMsgXmd H b s msg dst len = .ok ((uniformSpec H b0 dstPrime (ellOf b len)).take len) := by
  intro dstPrime b0
  unfold expandMsgXmd
  simp only
  obtain ⟨h1, h2, h3⟩ := hadm
  rw [if_neg (by omega), if_neg (by omega)]
  by_cases h0 : ellOf b len = 0
  · have := ell_zero b len hb h0
    subst this
    simp
  · rw [uniform_eq_spec H _ _ _ (by omega)]

/-- the block recursion itself, spelled out -/
theorem C13_xmd_block_chain (H : List UInt8 → List UInt8) (b0 d : List UInt8) :
    bSpec H b0 d 0 = b0 ∧ bSpec H b0 d 1 = H (b0 ++ [1] ++ d) ∧
    ∀ i, 1 ≤ i → bSpec H b0 d (i+1) = H (strxor b0 (bSpec H b0 d i) ++ [UInt8.ofNat (i+1)] ++ d) := by
  refine ⟨rfl, rfl, ?_⟩
  intro i hi
  obtain ⟨j, rfl⟩ : ∃ j, i = j + 1 := ⟨i - 1, by omega⟩
  rfl

/-- C13.4 `hashToField` returns exactly `count` elements, each reduced (`< q`) – for every count ≥ 0 and every field,
including the small fields where `count·L < 32`. No hypothesis on the hash. -/
theorem C13_hashToField_count_reduced (H : List UInt8 → List UInt8) (q : Nat) (hq : 0 < q) (msg dst : List UInt8)
    (count : Nat) (xs : List Nat) (h : hashToField H q msg dst count = .ok xs) :
    xs.length = count ∧ ∀ x ∈ xs, x < q := by
  unfold hashToField at h
  simp only at h
  split at h
  · exact absurd h (by simp)
  · injection h with h
    subst h
    refine ⟨by simp [chunks_length], ?_⟩
    intro x hx
    simp only [List.mem_map] at hx
    obtain ⟨c, _, rfl⟩ := hx
    exact Nat.mod_lt _ hq

/-- C13.5 the i-th element is `OS2IP(bytes[i·L : (i+1)·L]) mod q` of the expansion to `count·L` bytes (as in the Go code) -/
theorem C13_hashToField_eq (H : List UInt8 → List UInt8) (q : Nat) (msg dst : List UInt8) (count : Nat) :
    hashToField H q msg dst count =
      (expandMsgXmd H 32 64 msg dst (count * lenPerElt q)).map
        (fun bytes => (List.range count).map (fun i => beToNat ((bytes.drop (i * lenPerElt q)).take (lenPerElt q)) % q)) := by
  unfold hashToField
  simp only
  cases expandMsgXmd H 32 64 msg dst (count * lenPerElt q) with
  | error e => rfl
  | ok bytes => simp [Except.map, chunks_eq, List.map_map, Function.comp]

/-- C13.6 `hashToField` fails exactly when `count·L > 8160` or `|dst| > 255`; in particular never for `count = 0` -/
theorem C13_hashToField_error_iff (H : List UInt8 → List UInt8) (q : Nat) (msg dst : List UInt8) (count : Nat) :
    (∃ e, hashToField H q msg dst count = .error e) ↔ (8160 < count * lenPerElt q ∨ 255 < dst.length) := by
  have h3 := (C13_xmd_sha256_errors H msg dst (count * lenPerElt q)).2.2
  unfold hashToField
  simp only
  cases hx : expandMsgXmd H 32 64 msg dst (count * lenPerElt q) with
  | error e =>
    simp only [exists_apply_eq_apply', true_iff] at *
    by_contra hn
    have : ∃ out, expandMsgXmd H 32 64 msg dst (count * lenPerElt q) = Except.ok out := h3.2 (by omega)
    rw [hx] at this
    obtain ⟨_, h⟩ := this
    exact absurd h (by simp)
  | ok bytes =>
    have := h3.1 ⟨bytes, hx⟩
    constructor
    · rintro ⟨e, he⟩; exact absurd he (by simp)
    · intro h; omega

example : hashToField Sha256.hash 2130706433 [1] [2] 0 = .ok [] := by decide +kernel

/-- C13.7 `L = ⌈(⌈log₂ q⌉ + 128)/8⌉` computed from the modulus equals the constant `16 + Bytes` of each of the 23 `Hash`
functions (`Bytes = 1 + (Bits-1)/8` as in the Go code) -/
theorem C13_L_table : ∀ fc ∈ Gen.allFields,
    lenPerElt fc.q = 16 + fc.bytes ∧ fc.bytes = 1 + (fc.bits - 1) / 8 ∧ bitLen fc.q = fc.bits := by
  decide +kernel

/-! ## Part 1b — the `hash.Hash` wrappers `hash_to_field.New(dst)`: call histories

Model `hstep` / `hanswer` / `hrun` (Model/HashToField.lean): Write appends a copy, Sum answers from the absorbed bytes and
leaves them alone, Reset clears. The theorems say that every answer of every history is a function of the CONCATENATION of
the bytes written since the last Reset (at the time of each Write) – not of the chunking, not of earlier histories on the
same object, not of what was handed to Sum before. The Go wrappers are tied to the model by the `h2fhist` op. -/

def HOp.payload : HOp → List UInt8
  | .write p => p
  | _ => []

def HOp.isReset : HOp → Bool
  | .reset => true
  | _ => false

/-- C13.h1 without a Reset the state is the initial state followed by all written chunks, in order -/
theorem C13_hist_state (st : List UInt8) (ops : List HOp) (h : ∀ op ∈ ops, op.isReset = false) :
    ops.foldl hstep st = st ++ ops.flatMap HOp.payload := by
  induction ops generalizing st with
  | nil => simp
  | cons op ops ih =>
    have hop := h op (by simp)
    have hrest : ∀ o ∈ ops, o.isReset = false := fun o ho => h o (by simp [ho])
    rw [List.foldl_cons, ih _ hrest, List.flatMap_cons]
    cases op <;> simp_all [hstep, HOp.payload, HOp.isReset]

/-- C13.h2 whatever happened before a Reset is forgotten: the state is the concatenation of the chunks written since -/
theorem C13_hist_state_after_reset (st : List UInt8) (pre ops : List HOp) (h : ∀ op ∈ ops, op.isReset = false) :
    (pre ++ HOp.reset :: ops).foldl hstep st = ops.flatMap HOp.payload := by
  rw [List.foldl_append, List.foldl_cons]
  simpa [hstep] using C13_hist_state [] ops h

/-- C13.h3 the i-th answer of a history is the answer of that call in the state reached by the calls before it -/
theorem C13_hist_answer (H : List UInt8 → List UInt8) (q nb : Nat) (dst st : List UInt8) (ops : List HOp) (i : Nat)
    (hi : i < ops.length) :
    (hrun H q nb dst st ops)[i]? = some (hanswer H q nb dst ((ops.take i).foldl hstep st) ops[i]) := by
  induction ops generalizing st i with
  | nil => simp at hi
  | cons op ops ih =>
    cases i with
    | zero => simp [hrun]
    | succ j =>
      have hj : j < ops.length := by simpa using hi
      simp [hrun, ih (hstep st op) j hj]

/-- C13.h4 `Sum(b)` after ANY history on a fresh hasher = `b ‖ digest(bytes written since the last Reset)`; with
`pre = []`-style histories (no Reset at all) covered by `C13_hist_sum_fresh`. In particular two histories that wrote the
same byte string since their last Reset (any chunking, any interleaved Sum / Size / BlockSize) have the same digest. -/
theorem C13_hist_sum (H : List UInt8 → List UInt8) (q nb : Nat) (dst st b : List UInt8) (pre ops : List HOp)
    (h : ∀ op ∈ ops, op.isReset = false) :
    hanswer H q nb dst ((pre ++ HOp.reset :: ops).foldl hstep st) (.sum b) =
      match wrapDigest H q nb dst (ops.flatMap HOp.payload) with
      | .error e => e.show
      | .ok d => bytesToHex (b ++ d) := by
  rw [C13_hist_state_after_reset st pre ops h]; rfl

theorem C13_hist_sum_fresh (H : List UInt8 → List UInt8) (q nb : Nat) (dst b : List UInt8) (ops : List HOp)
    (h : ∀ op ∈ ops, op.isReset = false) :
    hanswer H q nb dst (ops.foldl hstep []) (.sum b) =
      match wrapDigest H q nb dst (ops.flatMap HOp.payload) with
      | .error e => e.show
      | .ok d => bytesToHex (b ++ d) := by
  rw [C13_hist_state [] ops h]; rfl

/-- C13.h5 the digest depends only on the concatenation: histories `pre₁ ++ Reset :: ops₁` and `pre₂ ++ Reset :: ops₂`
(or fresh ones) whose written chunks concatenate to the same bytes answer every following call identically -/
theorem C13_hist_concat_only (H : List UInt8 → List UInt8) (q nb : Nat) (dst st₁ st₂ : List UInt8)
    (pre₁ ops₁ pre₂ ops₂ next : List HOp)
    (h₁ : ∀ op ∈ ops₁, op.isReset = false) (h₂ : ∀ op ∈ ops₂, op.isReset = false)
    (hcat : ops₁.flatMap HOp.payload = ops₂.flatMap HOp.payload) :
    hrun H q nb dst ((pre₁ ++ HOp.reset :: ops₁).foldl hstep st₁) next =
      hrun H q nb dst ((pre₂ ++ HOp.reset :: ops₂).foldl hstep st₂) next := by
  rw [C13_hist_state_after_reset st₁ pre₁ ops₁ h₁, C13_hist_state_after_reset st₂ pre₂ ops₂ h₂, hcat]

/-- C13.h6 Sum, Size and BlockSize do not change the state (a second Sum returns the same digest) -/
theorem C13_hist_sum_idempotent (H : List UInt8 → List UInt8) (q nb : Nat) (dst st b₁ b₂ : List UInt8) :
    hrun H q nb dst st [.sum b₁, .sum b₂] =
      [hanswer H q nb dst st (.sum b₁), hanswer H q nb dst st (.sum b₂)] := rfl

/-- C13.h7 the digest is `Bytes` long (so `Sum(b)` returns `|b| + Size()` bytes) and is the big-endian encoding of the
single reduced element `Hash(msg, dst, 1)[0]` -/
theorem C13_hist_digest_spec (H : List UInt8 → List UInt8) (q nb : Nat) (hq : 0 < q) (dst msg d : List UInt8)
    (h : wrapDigest H q nb dst msg = .ok d) :
    d.length = nb ∧ ∃ x, hashToField H q msg dst 1 = .ok [x] ∧ x < q ∧ d = natToBE nb x := by
  unfold wrapDigest at h
  split at h
  · exact absurd h (by simp)
  · rename_i xs hxs
    injection h with h
    obtain ⟨hlen, hred⟩ := C13_hashToField_count_reduced H q hq msg dst 1 xs hxs
    match xs, hlen with
    | [x], _ =>
      refine ⟨by subst h; simp [natToBE], x, hxs, hred x (by simp), by subst h; rfl⟩

example : hrun Sha256.hash 2130706433 4 [1] [] [.write [1, 2], .write [3], .sum [], .reset, .write [1], .write [2, 3], .sum []]
    = ["ok:2", "ok:1", (hanswer Sha256.hash 2130706433 4 [1] [1, 2, 3] (.sum [])), "ok", "ok:1", "ok:2",
       (hanswer Sha256.hash 2130706433 4 [1] [1, 2, 3] (.sum []))] := by decide +kernel

/-! ## Part 2 — the Shallue–van de Woestijne map (`MapToCurve1` of bn254 G1; same template for bn254 G2, grumpkin,
secp256k1, stark-curve with A = 1) -/

section svdw
variable {F : Type} [Field F] [DecidableEq F]

/-- the defining relations of the constants `Z, c1..c4` (RFC 9380 §F.1) and the two criteria of `find_z_svdw`
(§H.1) that the proof uses. `Model.svdwParamsP` computes constants with these relations from `(A,B)` alone and the
correspondence op `svdw` checks that the Go constants give the same images. -/
structure SvdwConstsOK (P : SvdwParams F) : Prop where
  two_ne : (2 : F) ≠ 0
  c1_def : P.c1 = (P.Z * P.Z + P.A) * P.Z + P.B
  c2_def : 2 * P.c2 = -P.Z
  c3_def : P.c3 ^ 2 = -P.c1 * (3 * P.Z ^ 2 + 4 * P.A)
  c4_def : P.c4 * (3 * P.Z ^ 2 + 4 * P.A) = -4 * P.c1
  c4_sq : IsSquare P.c4
  z_sq : IsSquare P.c1 ∨ IsSquare ((P.c2 * P.c2 + P.A) * P.c2 + P.B)

/-- C13.8 for EVERY `u` – including `u = 0` and the exceptional inputs `u² = ±1/g(Z)` where step 6 inverts 0 and
`0⁻¹ = 0` – the abscissa selected among the three candidates by the two square tests satisfies: `g(x)` is a square.
`hmul` (product of two non-squares is a square) holds in every finite field, see `C13_svdw_on_curve_finite`. -/
theorem C13_svdw_x_square (P : SvdwParams F) (hP : SvdwConstsOK P) (isSq : F → Bool)
    (hisSq : ∀ a, isSq a = true ↔ IsSquare a)
    (hmul : ∀ a b : F, ¬ IsSquare a → ¬ IsSquare b → IsSquare (a * b)) (u : F) :
    IsSquare (gOf (fieldOps F) P.A P.B (svdwX (fieldOps F) isSq P u)) := by
  unfold svdwX
  simp only
  split
  · rename_i h; exact (hisSq _).mp h
  · rename_i h1
    split
    · rename_i h; exact (hisSq _).mp h
    · rename_i h2
      have n1 := fun h => h1 ((hisSq _).mpr h)
      have n2 := fun h => h2 ((hisSq _).mpr h)
      simp only [svdwCandidates, gOf, fieldOps] at n1 n2 ⊢
      by_cases hD : (1 - u * u * P.c1) * (1 + u * u * P.c1) = 0
      · -- exceptional input: tv3 = inv0(0) = 0, x1 = x2 = c2 = −Z/2, x3 = Z
        simp only [hD, inv_zero, mul_zero, zero_mul, sub_zero, add_zero, zero_add] at n1 n2 ⊢
        rcases hP.z_sq with hz | hz
        · rw [← hP.c1_def]; exact hz
        · exact absurd hz n1
      · obtain ⟨W, hW⟩ := svdw_product P.A P.B P.Z P.c1 P.c2 P.c3 P.c4 u
          ((1 - u * u * P.c1) * (1 + u * u * P.c1))⁻¹ hP.two_ne hP.c1_def hP.c2_def hP.c3_def hP.c4_def
          (mul_inv_cancel₀ hD)
        obtain ⟨s, hs⟩ := hP.c4_sq
        obtain ⟨m, hm⟩ := hmul _ _ n1 n2
        have hm0 : m ≠ 0 := by
          rintro rfl
          rw [mul_zero] at hm
          rcases mul_eq_zero.mp hm with h0 | h0
          · exact n1 (h0 ▸ IsSquare.zero)
          · exact n2 (h0 ▸ IsSquare.zero)
        refine ⟨s * W / m, ?_⟩
        rw [hm] at hW
        rw [div_mul_div_comm, eq_div_iff (mul_ne_zero hm0 hm0)]
        linear_combination hW + W ^ 2 * hs

variable (sqrt : F → F) (sgn0 : F → Bool)

/-- C13.9 the image of the SvdW map is on the curve `y² = x³ + A·x + B` for every `u`
(`sqrt` is any function returning a square root of squares – `Element.Sqrt`) -/
theorem C13_svdw_on_curve (P : SvdwParams F) (hP : SvdwConstsOK P) (isSq : F → Bool)
    (hisSq : ∀ a, isSq a = true ↔ IsSquare a)
    (hmul : ∀ a b : F, ¬ IsSquare a → ¬ IsSquare b → IsSquare (a * b))
    (hsqrt : ∀ a, IsSquare a → sqrt a * sqrt a = a) (u : F) :
    let p := svdw (fieldOps F) isSq sqrt sgn0 P u
    p.2 * p.2 = p.1 * p.1 * p.1 + P.A * p.1 + P.B := by
  intro p
  have hx := C13_svdw_x_square P hP isSq hisSq hmul u
  have hy := hsqrt _ hx
  have hg : ∀ x : F, gOf (fieldOps F) P.A P.B x = x * x * x + P.A * x + P.B := by
    intro x; simp only [gOf, fieldOps]; ring
  have hneg : ∀ y : F, (fieldOps F).neg y = -y := fun _ => rfl
  simp only [p, svdw]
  split
  · rw [hneg, neg_mul_neg, hy, hg]
  · rw [hy, hg]

/-- C13.10 sign convention of the RFC: `sgn0(y) = sgn0(u)` (when the curve has no point with `y = 0`, e.g. odd order) -/
theorem C13_svdw_sign (P : SvdwParams F) (hP : SvdwConstsOK P) (isSq : F → Bool)
    (hisSq : ∀ a, isSq a = true ↔ IsSquare a)
    (hmul : ∀ a b : F, ¬ IsSquare a → ¬ IsSquare b → IsSquare (a * b))
    (hsqrt : ∀ a, IsSquare a → sqrt a * sqrt a = a)
    (hsgn : ∀ y : F, y ≠ 0 → sgn0 (-y) = !sgn0 y)
    (hnr : ∀ x : F, gOf (fieldOps F) P.A P.B x ≠ 0) (u : F) :
    sgn0 (svdw (fieldOps F) isSq sqrt sgn0 P u).2 = sgn0 u := by
  have hx := C13_svdw_x_square P hP isSq hisSq hmul u
  have hy := hsqrt _ hx
  have hy0 : sqrt (gOf (fieldOps F) P.A P.B (svdwX (fieldOps F) isSq P u)) ≠ 0 := by
    intro h0; rw [h0, mul_zero] at hy; exact hnr _ hy.symm
  simp only [svdw]
  split
  · rename_i h
    have hneg : ∀ y : F, (fieldOps F).neg y = -y := fun _ => rfl
    rw [hneg, hsgn _ hy0]
    revert h
    cases sgn0 u <;> cases sgn0 (sqrt (gOf (fieldOps F) P.A P.B (svdwX (fieldOps F) isSq P u))) <;> simp
  · rename_i h
    revert h
    cases sgn0 u <;> cases sgn0 (sqrt (gOf (fieldOps F) P.A P.B (svdwX (fieldOps F) isSq P u))) <;> simp

/-- C13.11 over a finite field the hypothesis `hmul` is a theorem -/
theorem C13_svdw_on_curve_finite [Fintype F] (P : SvdwParams F) (hP : SvdwConstsOK P) (isSq : F → Bool)
    (hisSq : ∀ a, isSq a = true ↔ IsSquare a)
    (hsqrt : ∀ a, IsSquare a → sqrt a * sqrt a = a) (u : F) :
    let p := svdw (fieldOps F) isSq sqrt sgn0 P u
    p.2 * p.2 = p.1 * p.1 * p.1 + P.A * p.1 + P.B :=
  C13_svdw_on_curve sqrt sgn0 P hP isSq hisSq (finite_field_nonsquare_mul) hsqrt u

end svdw

/-! ## Part 3 — simplified SWU (`MapToCurve1` of bls12-381 G1; identical text for every SSWU curve of the library):
the image is on the ISOGENOUS curve `y² = x³ + A'x + B'` for every `u`, PROVIDED `Z` satisfies criterion 4 of
`find_z_sswu` (RFC 9380 §H.2): `g(B/(Z·A))` is a square. That criterion is what makes the exceptional inputs
`Z²u⁴ + Zu² = 0` harmless; the constants of bw6-761 G1 violate it and `MapToG1` returns an invalid point there
(finding). The isogeny `E' → E` and the cofactor clearing are NOT covered by a theorem (correspondence only). -/

section sswu
variable {F : Type} [Field F] [DecidableEq F]

/-- C13.12 SSWU lands on the isogenous curve for every `u`, `u = 0` and the exceptional inputs included -/
theorem C13_sswu_on_curve (A B Z : F) (hA : A ≠ 0) (hZ : Z ≠ 0)
    (sqrtRatio : F → F → Bool × F) (sgn0 : F → Bool)
    (hsr1 : ∀ n d, d ≠ 0 → (sqrtRatio n d).1 = true → (sqrtRatio n d).2 ^ 2 * d = n)
    (hsr2 : ∀ n d, d ≠ 0 → (sqrtRatio n d).1 = false →
      (sqrtRatio n d).2 ^ 2 * d = Z * n ∧ ¬ IsSquare (n / d))
    (hcrit4 : IsSquare ((B / (Z * A)) ^ 3 + A * (B / (Z * A)) + B)) (u : F) :
    let p := sswu (fieldOps F) sqrtRatio sgn0 A B Z u
    p.2 * p.2 = p.1 * p.1 * p.1 + A * p.1 + B := by
  intro p
  -- the sign fix does not change y²
  suffices h : ∀ tv4 : F, tv4 ≠ 0 →
      (tv4 = A * Z ∧ Z * (u * u) * (Z * (u * u)) + Z * (u * u) = 0 ∨
        tv4 = A * -(Z * (u * u) * (Z * (u * u)) + Z * (u * u))) →
      let tv3 := B * (Z * (u * u) * (Z * (u * u)) + Z * (u * u) + 1)
      let r := sqrtRatio ((tv3 * tv3 + A * (tv4 * tv4)) * tv3 + B * (tv4 * tv4 * tv4)) (tv4 * tv4 * tv4)
      let y := if r.1 = true then r.2 else Z * (u * u) * u * r.2
      let x := (if r.1 = true then tv3 else Z * (u * u) * tv3) * tv4⁻¹
      y * y = x * x * x + A * x + B by
    have ite_neg_sq : ∀ (c : Prop) [Decidable c] (y : F),
        (if c then (fieldOps F).neg y else y) * (if c then (fieldOps F).neg y else y) = y * y := by
      intro c _ y
      have hneg : (fieldOps F).neg y = -y := rfl
      rw [hneg]; split <;> ring
    have tail : ∀ raw : F, A * raw ≠ 0 →
        (A * raw = A * Z ∧ Z * (u * u) * (Z * (u * u)) + Z * (u * u) = 0 ∨
          A * raw = A * -(Z * (u * u) * (Z * (u * u)) + Z * (u * u))) →
        let q := sswuTail (fieldOps F) sqrtRatio sgn0 A B u (Z * (u * u))
          (B * (Z * (u * u) * (Z * (u * u)) + Z * (u * u) + 1)) raw
        q.2 * q.2 = q.1 * q.1 * q.1 + A * q.1 + B := by
      intro raw hne hc q
      have := h (A * raw) hne hc
      simp only [q, sswuTail]
      rw [ite_neg_sq]
      exact this
    simp only [p, sswu]
    by_cases h0 : Z * (u * u) * (Z * (u * u)) + Z * (u * u) = 0
    · have hif : (if (fieldOps F).beq ((fieldOps F).add ((fieldOps F).mul ((fieldOps F).mul Z ((fieldOps F).mul u u))
          ((fieldOps F).mul Z ((fieldOps F).mul u u))) ((fieldOps F).mul Z ((fieldOps F).mul u u))) (fieldOps F).zero = true
          then Z else (fieldOps F).neg ((fieldOps F).add ((fieldOps F).mul ((fieldOps F).mul Z ((fieldOps F).mul u u))
          ((fieldOps F).mul Z ((fieldOps F).mul u u))) ((fieldOps F).mul Z ((fieldOps F).mul u u)))) = Z := by
        simp only [fieldOps, h0, decide_true, if_true]
      rw [hif]
      exact tail Z (mul_ne_zero hA hZ) (Or.inl ⟨rfl, h0⟩)
    · have hif : (if (fieldOps F).beq ((fieldOps F).add ((fieldOps F).mul ((fieldOps F).mul Z ((fieldOps F).mul u u))
          ((fieldOps F).mul Z ((fieldOps F).mul u u))) ((fieldOps F).mul Z ((fieldOps F).mul u u))) (fieldOps F).zero = true
          then Z else (fieldOps F).neg ((fieldOps F).add ((fieldOps F).mul ((fieldOps F).mul Z ((fieldOps F).mul u u))
          ((fieldOps F).mul Z ((fieldOps F).mul u u))) ((fieldOps F).mul Z ((fieldOps F).mul u u)))) =
          -(Z * (u * u) * (Z * (u * u)) + Z * (u * u)) := by
        simp only [fieldOps, h0, decide_false, Bool.false_eq_true, if_false]
      rw [hif]
      exact tail _ (mul_ne_zero hA (neg_ne_zero.mpr h0)) (Or.inr rfl)
  intro tv4 h4 hcase tv3 r y x
  have hd3 : tv4 * tv4 * tv4 ≠ 0 := mul_ne_zero (mul_ne_zero h4 h4) h4
  by_cases hr : r.1 = true
  · -- first candidate x1 = tv3/tv4
    have h1 := hsr1 _ _ hd3 hr
    simp only [y, x, hr, if_true]
    exact sswu_frac_on_curve A B tv3 tv4 r.2 h4 h1
  · have hr' : r.1 = false := by simpa using hr
    obtain ⟨h2, hns⟩ := hsr2 _ _ hd3 hr'
    rcases hcase with ⟨h4e, h0⟩ | h4e
    · -- exceptional input: x1 = B/(Z·A) and g(x1) is a square by criterion 4
      exfalso
      apply hns
      have htv3 : tv3 = B := by simp only [tv3, h0]; ring
      rw [htv3, h4e]
      convert hcrit4 using 1
      field_simp
    · simp only [y, x, hr, if_false, Bool.false_eq_true]
      exact sswu_second_on_curve A B Z u tv4 r.2 h4 h4e h2

end sswu

/-- non-vacuity: `y² = x³ + 2` over F₇ with `Z = 3` (`c1 = 1, c2 = 2, c3 = 6, c4 = 4`) satisfies every hypothesis on the constants -/
instance : Fact (Nat.Prime 7) := ⟨by decide⟩
example : SvdwConstsOK (F := ZMod 7) { A := 0, B := 2, Z := 3, c1 := 1, c2 := 2, c3 := 6, c4 := 4 } where
  two_ne := by decide
  c1_def := by decide
  c2_def := by decide
  c3_def := by decide
  c4_def := by decide
  c4_sq := ⟨2, by decide⟩
  z_sq := Or.inl ⟨1, by decide⟩

/-- the executable constants derived by `find_z_svdw` for the four F_p curves exist (Z = 1 for all four, as in the Go code) -/
example : (svdwCurves.map (fun c => ((lookupField c.2.1).bind
    (fun fc => svdwParamsP fc c.2.2.1 (c.2.2.2 % (fc.q : Int)).toNat)).map (·.Z))) = [some 1, some 1, some 1, some 1] := by
  decide +kernel

end GV.HashToField
