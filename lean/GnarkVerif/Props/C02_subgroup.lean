import GnarkVerif.Props.C02_subgroup_bls12_381
/- C02 (tie T): the fast subgroup tests and cofactor clearing of the translated g1.go / g2.go (Gen/Curve/*.lean) against
   Mathlib's group of points. This module only imports the per-curve files; generic part: Proofs/Subgroup.lean. -/
