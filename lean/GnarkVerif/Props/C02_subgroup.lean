import GnarkVerif.Props.C02_subgroup_bls12_381
import GnarkVerif.Props.C02_subgroup_bls12_377
import GnarkVerif.Props.C02_subgroup_bls24_315
import GnarkVerif.Props.C02_subgroup_bls24_317
import GnarkVerif.Props.C02_subgroup_bw6_761
import GnarkVerif.Props.C02_subgroup_bw6_633
import GnarkVerif.Props.C02_subgroup_prime
/- C02 (tie T): the fast subgroup tests and cofactor clearing of the translated g1.go / g2.go (Gen/Curve/*.lean) against
   Mathlib's group of points. This module only imports the per-curve files (written by bin/mkc02sub.py; bls12_381 is the
   hand-written master); generic part: Proofs/Subgroup.lean. -/
