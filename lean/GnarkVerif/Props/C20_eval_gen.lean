import GnarkVerif.Proofs.PolyEvalGen
import GnarkVerif.Props.C20
/-
C20, tie T for the ARITHMETIC of `(*Polynomial).Evaluate`, `(*polynomial).evaluate` (with its closure `evalLagrange`),
`(*Polynomial).GetCoeff` (ecc/<curve>/fr/iop/polynomial.go) and `exp0..exp5`, `smallExp` (utils.go).

TRANSLATED (tools/goslp/imp_poly.go → Gen/Imp/PolyEval.lean, regenerated from /repo on every run, statement by statement; the
translator is fatal unless the 7 iop packages give the SAME Lean text, so these definitions are those of every package): the
shift handling of `Evaluate` (division by the coset shift, `shift == 0`, `smallExp` for 0 < shift ≤ 5, `Exp` otherwise), the Horner
loops of both layouts, the barycentric evaluation incl. the early return at a domain point, the index arithmetic of `GetCoeff`
(truncated `%`, `+n`, `%` again; bit-reversed index), `smallExp`.

PARAMETERS of the generated definitions (`EvalGen.Prims`; the ring operations are `+ - *` of the commutative ring / field) and what is
ASSUMED of them (`EvalGen.PrimsFor P env n size`, hypotheses of every theorem below, `env` = the model's environment):
  * `Element.Div(a,b) = a·env.inv b`, `Element.Square(a) = a·a`, `Element.Inverse = env.inv`, `IsZero(a) ↔ a = 0`, `SetUint64(n) = n·1`;
  * `fr.BatchInvert = env.binv`, length preserving (C01_batchInv: the element-wise inverse);
  * `fft.Generator(size)` / `fft.Generator(n)` return no error and the value `env.genOf size` / `env.genOf n` (a `panic(err)` would end the
    generated function with the uninterpreted value `P.panicked`);
  * `Element.Exp(x, n) = xⁿ` for the vector length `n`, and `Exp(gen_size, k) = gen_size^k` for EVERY integer `k`, negative ones through
    `env.genInvOf size` (C01_expgen is the theorem about `Exp`);
  * `bits.Reverse64(uint64(j)) >> (64 - bits.TrailingZeros(uint(n)))` is the model's `bitrev (log2 n) j` for `j < n` (`EvalGen.RevSpec`);
    `C20evalgen_revSpec_of_bits` derives it for `n = 2^m`, `m ≤ 63` from "Reverse64 reverses the 64 bits" and "TrailingZeros(2^m) = m";
  * Go's 64-bit `int` does not overflow (Int is unbounded); out-of-range reads are not panics (they read 0).

ABSTRACTION: `EvalGen.toGen p` (model object ↦ Go struct: coefficient vector, Basis / Layout constants 1,2,4 / 8,16 read from the const
blocks, coset, shift, size); every Go object with valid codes and `size ≥ 0` is in its range (`C20evalgen_abstraction_surjective`).
-/
namespace GV.Poly
open GV.FFT GV.GoImp GV.Poly.EvalGen GV.Gen.Imp Finset

set_option linter.unusedSectionVars false

section Ring
variable {R : Type} [CommRing R] [DecidableEq R]

/-- every Go `Polynomial` value with valid Basis / Layout codes and a non-negative size is `toGen` of a model object -/
theorem C20evalgen_abstraction_surjective (g : PolyEval.Polynomial R)
    (hb : g.polynomial.Basis = PolyEval.Canonical ∨ g.polynomial.Basis = PolyEval.Lagrange ∨ g.polynomial.Basis = PolyEval.LagrangeCoset)
    (hl : g.polynomial.Layout = PolyEval.Regular ∨ g.polynomial.Layout = PolyEval.BitReverse) (hs : 0 ≤ g.size) :
    ∃ p : Poly R, toGen p = g := toGen_surjective g hb hl hs

example : ∃ p : Poly (ZMod 5), toGen p = ⟨⟨[1, 2], PolyEval.Lagrange, PolyEval.BitReverse, 3⟩, -2, 2⟩ :=
  C20evalgen_abstraction_surjective _ (Or.inr (Or.inl rfl)) (Or.inr rfl) (by decide)

/-- **generated `(*polynomial).evaluate` = model `evalCore`**: every coefficient list, every basis and layout, every point
    (Horner in both layouts; Lagrange bases: the stored value at a domain point, the barycentric sum elsewhere) -/
theorem C20evalgen_evaluate_eq (P : Prims R) (env : Env R) (p : Poly R) (h : PrimsFor P env p.coeffs.length p.size) (x : R) :
    P.evaluate (toGenP p) x = evalCore env p x := P.evaluate_eq env p h x

/-- **generated `(*Polynomial).Evaluate` = model `evaluate`**: every coefficient list, form, shift ∈ ℤ, size, point -/
theorem C20evalgen_Evaluate_eq (P : Prims R) (env : Env R) (p : Poly R) (h : PrimsFor P env p.coeffs.length p.size) (x : R) :
    P.Evaluate (toGen p) x = evaluate env p x := P.Evaluate_eq env p h x

/-- **generated `(*Polynomial).GetCoeff` = model `getCoeff`**: every coefficient list, layout, shift ∈ ℤ, size (0 included), index -/
theorem C20evalgen_GetCoeff_eq (P : Prims R) (p : Poly R) (h : p.bitrev = true → RevSpec P.rev64 P.tz p.coeffs.length) (i : Nat) :
    P.GetCoeff (toGen p) (i : Int) = getCoeff p i := P.GetCoeff_eq p h i

/-- **generated `smallExp(x, n)` = xⁿ** for 0 < n ≤ 5 -/
theorem C20evalgen_smallExp (P : Prims R) (hsq : ∀ a, P.fsquare a = a * a) (g : R) (n : Int) (h0 : 0 < n) (h5 : n ≤ 5) :
    gSmallExp P.panicked P.fdiv P.fsquare P.finv P.fofU64 P.fexp P.fisZero P.batchInvert P.generator P.rev64 P.tz g n = g ^ n.toNat := by
  rw [gSmallExp_eq _ _ _ _ _ _ _ _ _ _ _ hsq g n h0 h5, pw_eq]

/-- **GetCoeff index arithmetic, generated code**: entry `(i + ρ·shift) mod n` of the natural-order vector, both layouts -/
theorem C20evalgen_getCoeff_index (P : Prims R) (d : Domain R) (p : Poly R) (a : List R) (h : Denotes d p a)
    (hrev : RevSpec P.rev64 P.tz (2^d.m)) (i : Nat) :
    P.GetCoeff (toGen p) (i : Int) = (vecOf d p.basis a).getD
      ((((i : Int) + ((2^d.m / p.size : Nat) : Int) * p.shift) % ((2^d.m : Nat) : Int)).toNat) 0 := by
  rw [P.GetCoeff_eq p (fun _ => by rw [h.length]; exact hrev) i, C20_getCoeff_index d p a h i]

/-- **the bit-level meaning of `bits.Reverse64` / `bits.TrailingZeros` gives `RevSpec`**: if `Reverse64` reverses the 64 bits (the model's
    `bitrev 64`) and `TrailingZeros(2^m) = m`, the BitReverse index expression `Reverse64(uint64(j)) >> (64 - TrailingZeros(uint(n)))` is the
    model's `bitrev m j` for every `j < n = 2^m`, `m ≤ 63` -/
theorem C20evalgen_revSpec_of_bits (rev64 tz : Int → Int) (m : Nat) (hm : m ≤ 63)
    (hrev : ∀ j : Nat, j < 2^64 → rev64 (j : Int) = (bitrev 64 j : Int))
    (htz : tz ((2^m : Nat) : Int) = (m : Int)) : RevSpec rev64 tz (2^m) := revSpec_of_bits rev64 tz m hm hrev htz

example (m : Nat) (hm : m ≤ 63) : RevSpec (fun j => (bitrev 64 j.toNat : Int)) (fun z => (z.toNat.log2 : Int)) (2^m) :=
  C20evalgen_revSpec_of_bits _ _ m hm (fun j _ => by simp)
    (by show ((((2^m : Nat) : Int).toNat.log2 : Nat) : Int) = (m : Int); rw [Int.toNat_natCast, Nat.log2_two_pow])

end Ring

/-! ### non-vacuity: concrete primitives over `ZMod 5`, `n = 4`, `ω = 2` (the C20 example environment `exEnv`) -/

/-- concrete primitives: field operations of `ZMod 5`; `Reverse64` / `TrailingZeros` as needed for vectors of length 4 -/
noncomputable def exPrims : Prims (ZMod 5) where
  panicked := 0
  fdiv := fun a b => a * b⁻¹
  fsquare := fun a => a * a
  finv := fun a => a⁻¹
  fofU64 := fun z => natR z.toNat
  fexp := fun y k => if y = 2 then zpw 2 3 k else pw y k.toNat
  fisZero := fun a => decide (a = 0)
  batchInvert := List.map (fun a => a⁻¹)
  generator := fun _ => (2, Err.nil)
  rev64 := fun j => (bitrev 2 j.toNat : Int) * 2^62
  tz := fun _ => 2

theorem exRevSpec : RevSpec exPrims.rev64 exPrims.tz 4 := by
  intro j hj
  interval_cases j <;> simp [exPrims, shrU64, toU64] <;> decide

theorem exPrimsFor (size : Nat) : PrimsFor exPrims exEnv 4 size := by
  refine ⟨fun a b => rfl, fun a => rfl, rfl, fun k => ?_, exRevSpec, fun a => rfl, rfl, rfl, fun l => by simp [exEnv], rfl, ?_, fun y => ?_⟩
  · simp [exPrims, exEnv]
  · simp [exPrims, toU64]
  · by_cases hy : y = 2
    · subst hy; simp [exPrims, zpw]
    · simp [exPrims, hy]

section Fld
variable {F : Type} [Field F] [DecidableEq F]

/-- **Evaluate, generated code** (C20_evaluate restated): for an object that `Denotes` the polynomial `a`, in every one of the six
    forms, for EVERY integer shift and every point — domain and coset points included — the generated `Evaluate x` is `a(x·ω_size^shift)` -/
theorem C20evalgen_evaluate (P : Prims F) (d : Domain F) (hd : Good d) (env : Env F) (p : Poly F) (a : List F) (h : Denotes d p a)
    (hinv : env.inv = fun x => x⁻¹) (hbinv : env.binv = List.map (fun x => x⁻¹))
    (hgen : env.genOf (2^d.m) = d.gen) (hsz : env.genInvOf p.size = (env.genOf p.size)⁻¹)
    (hP : PrimsFor P env (2^d.m) p.size) (x : F) :
    P.Evaluate (toGen p) x = ∑ j ∈ range a.length, a.getD j 0 * (x * (env.genOf p.size) ^ p.shift) ^ j := by
  rw [P.Evaluate_eq env p (by rw [h.length]; exact hP) x, C20_evaluate d hd env p a h hinv hbinv hgen hsz x]

/-- **Evaluate is invariant under every sequence of conversions, generated code** (C20_evaluate_invariant restated): the generated
    `Evaluate` returns the same value on the object before and after any sequence of ToLagrange / ToCanonical / ToLagrangeCoset /
    ToRegular / ToBitReverse / Clone / ShallowClone (whose dispatch is tied by Props/C20_gen, whose FFTs are C10) -/
theorem C20evalgen_evaluate_invariant (P : Prims F) (kers : List Nat) (d : Domain F) (hd : Good d) (env : Env F) (p : Poly F)
    (a : List F) (h : Denotes d p a) (hinv : env.inv = fun x => x⁻¹) (hbinv : env.binv = List.map (fun x => x⁻¹))
    (hgen : env.genOf (2^d.m) = d.gen) (hsz : env.genInvOf p.size = (env.genOf p.size)⁻¹)
    (hP : PrimsFor P env (2^d.m) p.size) (ops : List Op) (x : F) :
    P.Evaluate (toGen (applyOps kers d ops p)) x = P.Evaluate (toGen p) x := by
  obtain ⟨h1, _, h3⟩ := applyOps_denotes kers d hd ops p a h
  rw [P.Evaluate_eq env _ (by rw [h1.length, h3]; exact hP) x, P.Evaluate_eq env p (by rw [h.length]; exact hP) x,
    C20_evaluate_invariant kers d hd env p a h hinv hbinv hgen hsz ops x]

/-- **GetCoeff in Lagrange basis, generated code** (C20_getCoeff_lagrange restated) -/
theorem C20evalgen_getCoeff_lagrange (P : Prims F) (d : Domain F) (hd : Good d) (p : Poly F) (a : List F) (h : Denotes d p a)
    (hb : p.basis = .lagrange) (hω : d.gen ^ (2^d.m) = 1) (hrev : RevSpec P.rev64 P.tz (2^d.m)) (i : Nat) :
    P.GetCoeff (toGen p) (i : Int) = evalAt a (d.gen ^ i * (d.gen ^ (2^d.m / p.size)) ^ p.shift) := by
  rw [P.GetCoeff_eq p (fun _ => by rw [h.length]; exact hrev) i, C20_getCoeff_lagrange d hd p a h hb hω i]

end Fld

/-- all hypotheses of the `Evaluate` theorems hold together: the LagrangeCoset / Regular object obtained from `1+2X+3X²+4X³` by two
    conversions, shifted by an arbitrary integer `s`, evaluated by the GENERATED code at an arbitrary point of `ZMod 5` (the four domain
    points and the coset points included) -/
example (x : ZMod 5) (s : Int) :
    exPrims.Evaluate (toGen (setShift (applyOps [5, 8] (exD true) [.toLagrangeCoset, .toRegular] exP) s)) x
      = ∑ j ∈ range 4, ([1, 2, 3, 4] : List (ZMod 5)).getD j 0 * (x * (2 : ZMod 5) ^ s) ^ j := by
  have h0 := (C20_conversion_sequence [5, 8] (exD true) exGood [.toLagrangeCoset, .toRegular] exP _ exDen).1
  have hden := (C20_clone_setSize _ _ _ h0 0 s).2.2.2
  exact C20evalgen_evaluate exPrims (exD true) exGood exEnv _ [1, 2, 3, 4] hden rfl rfl rfl exInv (exPrimsFor _) x

example (x : ZMod 5) :
    exPrims.Evaluate (toGen (applyOps [5, 8] (exD true) [.toLagrange, .toBitReverse, .toLagrangeCoset] (setShift exP (-7)))) x
      = exPrims.Evaluate (toGen (setShift exP (-7))) x :=
  C20evalgen_evaluate_invariant exPrims [5, 8] (exD true) exGood exEnv _ [1, 2, 3, 4] (C20_clone_setSize _ _ _ exDen 0 (-7)).2.2.2
    rfl rfl rfl exInv (exPrimsFor _) _ x

example : exPrims.GetCoeff (toGen (setShift (toBitReverse exP) (-1))) 0 = 4 := by
  rw [show (0 : Int) = ((0 : Nat) : Int) from rfl, C20evalgen_GetCoeff_eq exPrims (setShift (toBitReverse exP) (-1)) (fun _ => exRevSpec) 0]; decide

example (i : Nat) : exPrims.GetCoeff (toGen (setShift (toBitReverse exP) (-3))) (i : Int)
    = (vecOf (exD true) .canonical [1, 2, 3, 4]).getD ((((i : Int) + ((2^2 / 4 : Nat) : Int) * (-3)) % ((2^2 : Nat) : Int)).toNat) 0 :=
  C20evalgen_getCoeff_index exPrims (exD true) _ [1, 2, 3, 4]
    (C20_clone_setSize _ _ _ ((C20_conversion_sequence [5, 8] (exD true) exGood [.toBitReverse] exP _ exDen).1) 0 (-3)).2.2.2 exRevSpec i

example : gSmallExp exPrims.panicked exPrims.fdiv exPrims.fsquare exPrims.finv exPrims.fofU64 exPrims.fexp exPrims.fisZero
    exPrims.batchInvert exPrims.generator exPrims.rev64 exPrims.tz (2 : ZMod 5) 5 = 2 ^ 5 :=
  C20evalgen_smallExp exPrims (fun _ => rfl) 2 5 (by decide) (by decide)

end GV.Poly
