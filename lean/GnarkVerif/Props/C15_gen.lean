import GnarkVerif.Proofs.TranscriptGen
import GnarkVerif.Props.C15
/-
C15_gen — tie T for the Fiat–Shamir transcript: the Lean defs `NewTranscript`, `Bind`, `ComputeChallenge` of
Gen/Imp/Transcript.lean are REGENERATED from /repo/fiat-shamir/transcript.go on every run (tools/goslp mode "imp": a
statement-by-statement translation; value vocabulary and its Go semantics in Model/GoImp.lean) and are proved here to
REFINE the hand-written model of Model/Transcript.lean, so that every theorem of Props/C15.lean is a theorem about the
translated Go text.

* `abs` maps a generated transcript (hasher object, `map[string]challenge` as an association list, `previous *challenge` as an
  optional copy) to the model state (challenges in position order, position of the last freshly computed one);
* `Inv` is the representation invariant of the states reachable from `NewTranscript(h, names…)` with DISTINCT names: one map entry
  per name, the i-th name has `position` i, `previous` is a copy of the (computed) entry at its position.
  The model value of an entry is `some value` exactly when `isComputed` is set (built into `abs`).
* the hasher is not part of the model state; `hashOK` records that a call leaves it untouched or Reset (the deferred Reset).

Remark (duplicate names): the property quantifies over a list of distinct challenge names.  With a repeated name the Go map keeps
one entry carrying the LAST position, so no entry has the first position any more and `Inv.pos` fails: such a name can only be
computed after the challenge preceding its last occurrence, whereas the list model finds its first occurrence.  `C15gen_init`
therefore assumes `names.Nodup`.
-/
namespace GV.Transcript.Gen
open GV.GoImp GV.Gen.Imp GV.Gen.Imp.FiatShamir
variable (W : Bytes → Option Bytes) (H : Bytes → Bytes)

/-- `NewTranscript(h, names…)` establishes the invariant and is the model's initial state; its map has exactly the declared names
as keys (in declaration order in the association list) and it holds the hasher it was given -/
theorem C15gen_init (h : Hash) (names : List Bytes) (hnd : names.Nodup) :
    Inv (NewTranscript h names) ∧ abs (NewTranscript h names) = init names ∧
    (NewTranscript h names).challenges.entries.map (·.1) = names ∧ (NewTranscript h names).h = h :=
  init_refines h names hnd

/-- `Bind` preserves the invariant, commutes with the abstraction and returns exactly the model's outcome (nil ↦ ok,
errChallengeNotFound, errChallengeAlreadyComputed) -/
theorem C15gen_bind (t : GTranscript) (n v : Bytes) (hi : Inv t) :
    Inv (FiatShamir.Bind t n v).1 ∧ abs (FiatShamir.Bind t n v).1 = (step W H (abs t) (.bind n v)).1 ∧
    outBind (FiatShamir.Bind t n v).2 = (step W H (abs t) (.bind n v)).2 :=
  bind_refines W H t n v hi

/-- `ComputeChallenge` preserves the invariant, commutes with the abstraction and returns exactly the model's outcome: the value
(fresh or cached copy), errChallengeNotFound, the hash error of a refused write of the NAME (wrapped by fmt.Errorf, reported
before the predecessor check), errPreviousChallengeNotComputed, the hash error of a refused write of the previous value or of a
bound value; and it leaves the hasher untouched or Reset -/
theorem C15gen_compute (t : GTranscript) (n : Bytes) (hi : Inv t) :
    Inv (ComputeChallenge W H t n).1 ∧ abs (ComputeChallenge W H t n).1 = (step W H (abs t) (.compute n)).1 ∧
    outCompute (ComputeChallenge W H t n).2 = (step W H (abs t) (.compute n)).2 ∧
    hashOK t (ComputeChallenge W H t n).1 :=
  compute_refines W H t n hi

/-- a `Bind` that returns an error returns the transcript it was given (all fields) -/
theorem C15gen_bind_error_unchanged (t : GTranscript) (n v : Bytes) (h : (FiatShamir.Bind t n v).2 ≠ GoImp.Err.nil) :
    (FiatShamir.Bind t n v).1 = t :=
  bind_error_unchanged t n v h

/-- a `ComputeChallenge` that returns an error leaves map and `previous` as they were (the hasher may have been Reset) and returns
nil bytes -/
theorem C15gen_compute_error_unchanged (t : GTranscript) (n : Bytes) (h : (ComputeChallenge W H t n).2.2 ≠ GoImp.Err.nil) :
    (ComputeChallenge W H t n).1.challenges = t.challenges ∧ (ComputeChallenge W H t n).1.previous = t.previous ∧
    (ComputeChallenge W H t n).2.1 = [] :=
  compute_error_unchanged W H t n h

/-- one call of the generated code simulates one model step -/
theorem C15gen_step (t : GTranscript) (op : Op) (hi : Inv t) :
    Inv (genStep W H t op).1 ∧ abs (genStep W H t op).1 = (step W H (abs t) op).1 ∧ (genStep W H t op).2 = (step W H (abs t) op).2 := by
  cases op with
  | bind n v => exact C15gen_bind W H t n v hi
  | compute n => obtain ⟨h1, h2, h3, _⟩ := C15gen_compute W H t n hi; exact ⟨h1, h2, h3⟩

/-- along every history the generated code and the model produce the same outputs and stay related -/
theorem C15gen_run_from (t : GTranscript) (ops : List Op) (hi : Inv t) :
    Inv (genRun W H t ops).1 ∧ abs (genRun W H t ops).1 = (run W H (abs t) ops).1 ∧ (genRun W H t ops).2 = (run W H (abs t) ops).2 := by
  induction ops generalizing t with
  | nil => exact ⟨hi, rfl, rfl⟩
  | cons op ops ih =>
    obtain ⟨h1, h2, h3⟩ := C15gen_step W H t op hi
    obtain ⟨i1, i2, i3⟩ := ih _ h1
    simp only [genRun, run]
    rw [← h2, ← h3]
    exact ⟨i1, i2, by rw [i3]⟩

/-- any history of Bind / ComputeChallenge calls on `NewTranscript(h, names…)` (distinct names, any hasher state `h`): the outputs
of the translated Go code are the outputs of `Model.run`, and the final states are related by `abs` -/
theorem C15gen_run (h : Hash) (names : List Bytes) (hnd : names.Nodup) (ops : List Op) :
    (genRun W H (NewTranscript h names) ops).2 = (run W H (init names) ops).2 ∧
    abs (genRun W H (NewTranscript h names) ops).1 = (run W H (init names) ops).1 := by
  obtain ⟨hi, ha, _, _⟩ := C15gen_init h names hnd
  obtain ⟨_, h2, h3⟩ := C15gen_run_from W H _ ops hi
  rw [ha] at h2 h3
  exact ⟨h3, h2⟩

/-- transfer of the main specification theorem of Props/C15.lean (`C15_compute_is_spec` + `C15_reachable_inv`) to the translated
Go text: after ANY history on a fresh transcript with distinct names, whenever the generated `ComputeChallenge` returns a nil
error its bytes are the sequential specification `specValue` (H of the accepted writes name, previous challenge, bound values
in binding order) of the challenge with that name, evaluated in the abstraction of the resulting transcript -/
theorem C15gen_compute_is_spec (h : Hash) (names : List Bytes) (hnd : names.Nodup) (ops : List Op) (n : Bytes) :
    let t := (genRun W H (NewTranscript h names) ops).1
    let r := ComputeChallenge W H t n
    r.2.2 = GoImp.Err.nil →
      ∃ i, find (abs t).chals n = some i ∧ specValue W H (abs r.1).chals i = some r.2.1 := by
  intro t r hr
  obtain ⟨hi0, ha0, _, _⟩ := C15gen_init h names hnd
  obtain ⟨hi, ha, _⟩ := C15gen_run_from W H _ ops hi0
  obtain ⟨_, c2, c3, _⟩ := C15gen_compute W H t n hi
  have hinv : GV.Transcript.Inv W H (abs t) := by
    show GV.Transcript.Inv W H (abs (genRun W H (NewTranscript h names) ops).1)
    rw [ha, ha0]; exact C15_reachable_inv W H names ops
  have hval : (step W H (abs t) (.compute n)).2 = .val r.2.1 := by
    rw [← c3]; simp only [outCompute]; rw [if_pos hr]
  obtain ⟨i, hf, hs⟩ := C15_compute_is_spec W H (abs t) n r.2.1 hinv hval
  exact ⟨i, hf, by rw [c2]; exact hs⟩

/-- transfer of the order-refusal / unchanged-on-error clause: a generated call whose model outcome is an error leaves the
abstract transcript unchanged (and by `C15gen_*_error_unchanged` even the concrete map and `previous`) -/
theorem C15gen_error_leaves_state (t : GTranscript) (op : Op) (e : GV.Transcript.Err) (hi : Inv t)
    (h : (genStep W H t op).2 = .err e) : abs (genStep W H t op).1 = abs t := by
  obtain ⟨_, h2, h3⟩ := C15gen_step W H t op hi
  rw [h2]; exact C15_error_leaves_state W H (abs t) op e (by rw [← h3]; exact h)

/-- `Bind` never touches the hasher -/
theorem C15gen_bind_hasher (t : GTranscript) (n v : Bytes) : (FiatShamir.Bind t n v).1.h = t.h := by
  simp only [FiatShamir.Bind]
  (repeat' split) <;> rfl

/-- between calls the hasher is in the Reset state: started with a fresh (Reset) hasher, every history of the generated code
ends with the hasher Reset (this is what the deferred `t.h.Reset()` is for) -/
theorem C15gen_hasher_clean (names : List Bytes) (hnd : names.Nodup) (ops : List Op) :
    (genRun W H (NewTranscript {} names) ops).1.h = {} := by
  obtain ⟨hi0, _, _, hh0⟩ := C15gen_init {} names hnd
  suffices h : ∀ t : GTranscript, Inv t → t.h = {} → (genRun W H t ops).1.h = {} from h _ hi0 hh0
  induction ops with
  | nil => intro t _ ht; exact ht
  | cons op ops ih =>
    intro t hi ht
    simp only [genRun]
    apply ih _ (C15gen_step W H t op hi).1
    cases op with
    | bind n v => simp only [genStep]; rw [C15gen_bind_hasher, ht]
    | compute n =>
      simp only [genStep]
      rcases (C15gen_compute W H t n hi).2.2.2 with h | h
      · rw [h, ht]
      · rw [h]; rfl

/-! non-vacuity: the GENERATED code run on a concrete history over two challenges with a toy stream hash
(`W = some`, digest = length and first byte of what was absorbed): out-of-order compute refused, binding after compute
refused, second challenge chained on the first, recompute served from the cache, unknown name -/
example :
    let H : Bytes → Bytes := fun b => [UInt8.ofNat b.length, b.headD 0]
    let r := genRun some H (NewTranscript {} [[1], [2]])
      [.bind [1] [9, 9], .compute [2], .compute [1], .bind [1] [7], .bind [2] [5], .compute [2], .compute [1], .compute [3]]
    r.2 = [.ok, .err .prevNotComputed, .val [3, 1], .err .alreadyComputed, .ok, .val [4, 2], .val [3, 1], .err .notFound] ∧
    r.1.previous.map (·.position) = some 1 ∧ r.1.h = {} := by decide

/-! non-vacuity with a hasher that refuses writes (toy MiMC: odd lengths other than 1 refused): a refused NAME is reported as the
wrapped hash error even though it is not that challenge's turn; a refused bound value fails the compute, leaves map and previous
as they were and the hasher Reset -/
example :
    let W : Bytes → Option Bytes := fun b => if b.length = 1 then some (0 :: b) else if b.length % 2 = 0 then some b else none
    let t0 := NewTranscript { written := [[7]] } [[1], [2, 2, 2]]
    (ComputeChallenge W id t0 [2, 2, 2]).2 = ([], Err.wrapf "write: %w" Err.hashWrite) ∧
    (ComputeChallenge W id (FiatShamir.Bind t0 [1] [1, 2, 3]).1 [1]) =
      ({ (FiatShamir.Bind t0 [1] [1, 2, 3]).1 with h := {} }, ([], Err.hashWrite)) := by decide

end GV.Transcript.Gen
