/- INSTANTIATED by bin/mkc13gen.py (SSWU template) with the constants of Gen/H2C/Bls12_381.lean. DO NOT EDIT: edit the script. -/
import GnarkVerif.Props.C13
import GnarkVerif.Proofs.H2CGen
import GnarkVerif.Gen.H2C.Bls12_381
/-
C13 (tie T) — bls12-381 G1: the simplified SWU map `MapToCurve1` of /repo/ecc/bls12-381/hash_to_g1.go with `G1MulByZ`,
`G1NotZero`, `G1Sgn0`, `G1SqrtRatio` of /repo/ecc/bls12-381/hash_to_curve/g1.go.

Every theorem is about defs of Gen/H2C/Bls12_381.lean, which tools/goslp REGENERATES from the Go source on every run. The
proofs name the intermediate values of the generated def (`extract_lets`), so an edit of the Go straight-line program
(another operand, another flag, another constant) breaks them. Limb-level primitives are parameters with their
specification as hypothesis: `limbOr` (OR of all Montgomery limbs, `G1NotZero`), `notEqual` (`Element.NotEqual`),
`toNat` (canonical representative, `Bits()`).
-/
set_option linter.unusedSectionVars false
set_option linter.unusedVariables false
namespace GV.Gen.H2C.bls12_381
open GV GV.HashToField GV.H2CGen

abbrev q : Nat := 4002409555221667393417789825735904156556882819939007885332058136124031650490837864442687629129015664037894272559787
theorem q_eq : q = Gen.bls12_381_fp.q := by decide +kernel

variable {F : Type} [Field F] [DecidableEq F]

/-- coefficients of the isogenous curve and the SSWU constant, as regenerated from the Go literals -/
abbrev A : F := const_g1sswuCurveACoeff
abbrev B : F := const_g1sswuCurveBCoeff
abbrev Z : F := const_g1sswuCurveZ

/-- specification of `G1SqrtRatio` (RFC 9380 §F.2.1) about the GENERATED def: `r.1 = 0` iff `n/d` is a square -/
def SqrtRatioOK (notEqual : F → F → Nat) : Prop :=
  ∀ n d : F, d ≠ 0 →
    ((G1SqrtRatio n d notEqual).1 = 0 → (G1SqrtRatio n d notEqual).2.1 ^ 2 * d = n) ∧
    ((G1SqrtRatio n d notEqual).1 ≠ 0 →
      (G1SqrtRatio n d notEqual).2.1 ^ 2 * d = Z * n ∧ ¬ IsSquare (n / d))

variable (toNat : F → Nat) (notEqual : F → F → Nat) (limbOr : F → Nat)

/-- the addition chain `G1MulByZ` multiplies by the constant `Z` -/
theorem G1MulByZ_eq (x : F) : G1MulByZ_z_eq_x x = Z * x := by
  simp only [G1MulByZ_z_eq_x, Z, const_g1sswuCurveZ]; push_cast; ring

/-- C13gen.4 (bls12-381) SSWU lands on the ISOGENOUS curve `y² = x³ + A·x + B` for every `u`; for the exceptional inputs
`Z²u⁴ + Zu² = 0` (`u = 0` is one) this needs criterion 4 of `find_z_sswu`: `g(B/(Z·A))` is a square -/
theorem C13gen_bls12_381_sswu_on_curve (hlimb : ∀ x : F, limbOr x = 0 ↔ x = 0)
    (hA : (A : F) ≠ 0) (hZ : (Z : F) ≠ 0) (hsr : SqrtRatioOK notEqual)
    (u : F)
    (hcrit4 : Z * (u * u) * (Z * (u * u)) + Z * (u * u) = 0 →
      IsSquare (((B : F) / (Z * A)) ^ 3 + A * (B / (Z * A)) + B)) :
    let p := (MapToCurve1 u toNat notEqual limbOr).1
    p.Y * p.Y = p.X * p.X * p.X + A * p.X + B := by
  unfold MapToCurve1
  extract_lets r_1 tv1_1 tv1_2 tv2_1 tv2_2 tv3_1 tv3_2 ret_1 ret_2 tv2_3 tv4_1 tv4_2 tv2_4 tv6_1 tv5_1 tv2_5 tv2_6 tv6_2
    tv5_2 tv2_7 x_1 r_2 gx1NSquare_1 y_1 y_2 x_2 y_3 y1_1 ret_3 ret_4 y_4 x_3 p
  have hrA : r_1.1 = A := rfl
  have hrB : r_1.2 = B := rfl
  have ht : tv1_2 = Z * (u * u) := G1MulByZ_eq _
  have hret1 : ret_1 = 0 ↔ tv2_2 = 0 := hlimb tv2_2
  have hret2 : ret_2 = Z := rfl
  have hy4 : y_4 * y_4 = y_3 * y_3 := by simp only [y_4, y1_1]; split <;> ring
  show y_4 * y_4 = x_3 * x_3 * x_3 + A * x_3 + B
  rw [hy4]
  have h4 : tv4_2 ≠ 0 := by
    simp only [tv4_2, tv4_1, hrA]
    split
    · exact mul_ne_zero (hret2 ▸ hZ) hA
    · rename_i h; exact mul_ne_zero (neg_ne_zero.mpr (fun h0 => h (hret1.mpr h0))) hA
  have hd3 : tv6_2 ≠ 0 := mul_ne_zero (mul_ne_zero h4 h4) h4
  obtain ⟨hs1, hs2⟩ := hsr tv2_7 tv6_2 hd3
  by_cases hr : gx1NSquare_1 = 0
  · -- first candidate x1 = tv3/tv4
    have h1 : r_2.2.1 ^ 2 * tv6_2 = tv2_7 := hs1 hr
    have hx : x_3 = tv3_2 * tv4_2⁻¹ := by simp only [x_3, x_2, if_pos hr]
    have hy : y_3 = r_2.2.1 := by simp only [y_3, if_pos hr]
    rw [hx, hy]
    refine sswu_frac_on_curve A B tv3_2 tv4_2 r_2.2.1 h4 ?_
    simp only [tv6_2, tv6_1, tv2_7, tv2_6, tv2_5, tv2_4, tv5_1, tv5_2, hrA, hrB] at h1
    linear_combination h1
  · obtain ⟨h2, hns⟩ := hs2 hr
    replace h2 : r_2.2.1 ^ 2 * tv6_2 = Z * tv2_7 := h2
    by_cases h0 : tv2_2 = 0
    · -- exceptional input: x1 = B/(Z·A), and g(x1) is a square by criterion 4 of find_z_sswu
      exfalso
      apply hns
      have e4 : tv4_2 = Z * A := by simp only [tv4_2, tv4_1, if_pos (hret1.mpr h0), hret2, hrA]
      have e3 : tv3_2 = B := by simp only [tv3_2, tv3_1, h0, hrB]; ring
      have : tv2_7 / tv6_2 = ((B : F) / (Z * A)) ^ 3 + A * (B / (Z * A)) + B := by
        simp only [tv6_2, tv6_1, tv2_7, tv2_6, tv2_5, tv2_4, tv5_1, tv5_2, hrA, hrB, e4, e3]
        field_simp
      rw [this]
      have hexc : tv1_2 * tv1_2 + tv1_2 = 0 := h0
      rw [ht] at hexc
      exact hcrit4 hexc
    · have hdd : tv4_2 = A * -(Z * (u * u) * (Z * (u * u)) + Z * (u * u)) := by
        simp only [tv4_2, tv4_1, if_neg (fun h => h0 (hret1.mp h)), tv2_3, tv2_2, tv2_1, hrA, ht]; ring
      have key := sswu_second_on_curve A B Z u tv4_2 r_2.2.1 h4 hdd (by
        simp only [tv6_2, tv6_1, tv2_7, tv2_6, tv2_5, tv2_4, tv5_1, tv5_2, tv3_2, tv3_1, tv2_2, tv2_1, hrA, hrB, ht] at h2
        linear_combination h2)
      simp only [x_3, x_2, y_3, y_2, y_1, x_1, if_neg hr, tv3_2, tv3_1, tv2_2, tv2_1, hrB, ht]
      linear_combination key

/-! ### the constants: side conditions PROVED from the Go literals, in any field in which the base modulus vanishes
(Bézout coefficients / square roots computed offline, checked by the kernel) -/

theorem A_ne_zero (hq : ((q : Nat) : F) = 0) : (A : F) ≠ 0 := by
  have h : ((12190336318893619529228877361869031420615612348429846051986726275283378313155663745811710833465465981901188123677 * 2470605349102496840697564257721286814198963480458760529508496668981646457183329052911487732857586473067324032374572 : Nat) : F) = ((1 + 7524844647026384692865583074547510384406589026810212929122688429677813253917751690535260992598347266929711304689 * q : Nat) : F) := by congr 1
  rw [Nat.cast_add, Nat.cast_mul _ q, hq, mul_zero, add_zero, Nat.cast_mul, Nat.cast_one] at h
  intro h0
  simp only [A, const_g1sswuCurveACoeff] at h0
  rw [h0, zero_mul] at h
  exact zero_ne_one h

theorem Z_ne_zero (hq : ((q : Nat) : F) = 0) : (Z : F) ≠ 0 := by
  have h : ((11 * 3638554141110606721288899841578094687778984381762734441210961941930937864082579876766079662844559694579903884145261 : Nat) : F) = ((1 + 10 * q : Nat) : F) := by congr 1
  rw [Nat.cast_add, Nat.cast_mul _ q, hq, mul_zero, add_zero, Nat.cast_mul, Nat.cast_one] at h
  intro h0
  simp only [Z, const_g1sswuCurveZ] at h0
  rw [h0, zero_mul] at h
  exact zero_ne_one h

/-- criterion 4 of `find_z_sswu` (RFC 9380 §H.2): `g(B/(Z·A))` is a square — this is what makes the exceptional
inputs harmless -/
theorem crit4 (hq : ((q : Nat) : F) = 0) : IsSquare (((B : F) / (Z * A)) ^ 3 + A * (B / (Z * A)) + B) := by
  have hi : ((11 * 12190336318893619529228877361869031420615612348429846051986726275283378313155663745811710833465465981901188123677 * 2804858857133937099622193571436483626014013193105397454853431114229365119931628302936765775078151302032269524150292 : Nat) : F) = ((2906670324641927570491258158026293881577086121416628140204402091718288198173574630967936031029026176254968826637280 + 93971867586540033431931562345427700293651935620869855920714089765598245716121671177605233768949616849542905413412 * q : Nat) : F) := by congr 1
  rw [Nat.cast_add, Nat.cast_mul _ q, hq, mul_zero, add_zero] at hi
  have hx : (B : F) / (Z * A) = ((2804858857133937099622193571436483626014013193105397454853431114229365119931628302936765775078151302032269524150292 : Nat) : F) := by
    rw [div_eq_iff (mul_ne_zero (Z_ne_zero hq) (A_ne_zero hq))]
    simp only [A, B, Z, const_g1sswuCurveACoeff, const_g1sswuCurveBCoeff, const_g1sswuCurveZ]
    push_cast at hi ⊢
    linear_combination -hi
  have hw : ((2804858857133937099622193571436483626014013193105397454853431114229365119931628302936765775078151302032269524150292 ^ 3 + 12190336318893619529228877361869031420615612348429846051986726275283378313155663745811710833465465981901188123677 * 2804858857133937099622193571436483626014013193105397454853431114229365119931628302936765775078151302032269524150292 + 2906670324641927570491258158026293881577086121416628140204402091718288198173574630967936031029026176254968826637280 : Nat) : F) = ((883926319761702754759909536142450234040420493353017578303105057331414514426056372828799438842649753623273850162620 * 883926319761702754759909536142450234040420493353017578303105057331414514426056372828799438842649753623273850162620 + 5513298537139989984780785358163429970770758151005968195102091596805812961952125297268149430529864495170183974886817415764263289248013760592432335526914920189312741770800563603468816802636907401012586884244322997943723439520934396 * q : Nat) : F) := by congr 1
  rw [Nat.cast_add _ (_ * q), Nat.cast_mul _ q, hq, mul_zero, add_zero] at hw
  refine ⟨((883926319761702754759909536142450234040420493353017578303105057331414514426056372828799438842649753623273850162620 : Nat) : F), ?_⟩
  rw [hx]
  simp only [A, B, const_g1sswuCurveACoeff, const_g1sswuCurveBCoeff]
  push_cast at hw ⊢
  linear_combination hw

/-- C13gen.4' (bls12-381) the same with every condition on the constants discharged: only the specification of
`G1SqrtRatio` and of the limb-level `G1NotZero` remain as hypotheses -/
theorem C13gen_bls12_381_sswu_on_curve_consts (hq : ((q : Nat) : F) = 0) (hlimb : ∀ x : F, limbOr x = 0 ↔ x = 0)
    (hsr : SqrtRatioOK notEqual) (u : F) :
    let p := (MapToCurve1 u toNat notEqual limbOr).1
    p.Y * p.Y = p.X * p.X * p.X + A * p.X + B :=
  C13gen_bls12_381_sswu_on_curve toNat notEqual limbOr hlimb (A_ne_zero hq) (Z_ne_zero hq) hsr u (fun _ => crit4 hq)

/-! ### `G1SqrtRatio` (optimised version for q ≡ 3 mod 4) meets its specification over the field with `q` elements -/

/-- `c2² = -Z` for the constant `c2` of `G1SqrtRatio` -/
theorem c2_sq (hq : ((q : Nat) : F) = 0) :
    (((674008237974212438248723729577393239183484355108025529917084410198223800758598092373770506194640977045288353413059 : Nat) : F)) * (((674008237974212438248723729577393239183484355108025529917084410198223800758598092373770506194640977045288353413059 : Nat) : F)) = -(Z : F) := by
  have h : ((674008237974212438248723729577393239183484355108025529917084410198223800758598092373770506194640977045288353413059 * 674008237974212438248723729577393239183484355108025529917084410198223800758598092373770506194640977045288353413059 + 11 : Nat) : F) = ((113503403034910699534665602719791482461090957613240203968610963546847704642156295982570635959683637829631846390716 * q : Nat) : F) := by congr 1
  rw [Nat.cast_mul _ q, hq, mul_zero] at h
  simp only [Z, const_g1sswuCurveZ]
  push_cast at h ⊢
  linear_combination h

theorem sqrtRatio_ok [Fintype F] (hcard : Fintype.card F = q) (hne : ∀ a b : F, notEqual a b = 0 ↔ a = b) :
    SqrtRatioOK notEqual := by
  intro n d hd
  have hq : ((q : Nat) : F) = 0 := by rw [← hcard]; exact FiniteField.cast_card_eq_zero F
  have key := sqrtRatio_3mod4 1000602388805416848354447456433976039139220704984751971333014534031007912622709466110671907282253916009473568139946 ((674008237974212438248723729577393239183484355108025529917084410198223800758598092373770506194640977045288353413059 : Nat) : F) (Z : F) n d (by rw [hcard]) (c2_sq hq) hd
  simp only [G1SqrtRatio]
  constructor
  · intro h
    rw [hne] at h
    rw [if_pos ((hne _ _).mpr h)]
    exact key.1 h
  · intro h
    rw [Ne, hne] at h
    rw [if_neg (fun h' => h ((hne _ _).mp h'))]
    exact key.2 h

/-- C13gen.5 (bls12-381) over the field with `q` elements NOTHING is assumed besides the specification of the two
limb-level primitives (`NotEqual`, the OR of all limbs): for every `u` the translated `MapToCurve1` returns a point of the
isogenous curve `y² = x³ + A·x + B` -/
theorem C13gen_bls12_381_sswu_on_curve_finite [Fintype F] (hcard : Fintype.card F = q)
    (hlimb : ∀ x : F, limbOr x = 0 ↔ x = 0) (hne : ∀ a b : F, notEqual a b = 0 ↔ a = b) (u : F) :
    let p := (MapToCurve1 u toNat notEqual limbOr).1
    p.Y * p.Y = p.X * p.X * p.X + A * p.X + B := by
  have hq : ((q : Nat) : F) = 0 := by rw [← hcard]; exact FiniteField.cast_card_eq_zero F
  exact C13gen_bls12_381_sswu_on_curve toNat notEqual limbOr hlimb (A_ne_zero hq) (Z_ne_zero hq)
    (sqrtRatio_ok notEqual hcard hne) u (fun _ => crit4 hq)

/-- C13gen.6 (bls12-381) sign convention `G1Sgn0(y) = G1Sgn0(u)` whenever `y ≠ 0` (`sgn0(0) = 0` cannot be flipped); the
parity of the canonical representative flips under negation of a non-zero element (odd modulus) -/
theorem C13gen_bls12_381_sswu_sign
    (hpar : ∀ y : F, y ≠ 0 → toNat (-y) % 18446744073709551616 % 2 ≠ toNat y % 18446744073709551616 % 2) (u : F) :
    let p := (MapToCurve1 u toNat notEqual limbOr).1
    p.Y ≠ 0 → (G1Sgn0 p.Y toNat).1 = (G1Sgn0 u toNat).1 := by
  unfold MapToCurve1
  extract_lets r_1 tv1_1 tv1_2 tv2_1 tv2_2 tv3_1 tv3_2 ret_1 ret_2 tv2_3 tv4_1 tv4_2 tv2_4 tv6_1 tv5_1 tv2_5 tv2_6 tv6_2
    tv5_2 tv2_7 x_1 r_2 gx1NSquare_1 y_1 y_2 x_2 y_3 y1_1 ret_3 ret_4 y_4 x_3 p
  show y_4 ≠ 0 → (G1Sgn0 y_4 toNat).1 = (G1Sgn0 u toNat).1
  have e3 : ret_3 = toNat u % 18446744073709551616 % 2 := rfl
  have e4 : ret_4 = toNat y_3 % 18446744073709551616 % 2 := rfl
  intro hy
  simp only [G1Sgn0]
  by_cases hx : ret_3 ^^^ ret_4 = 0
  · have : y_4 = y_3 := by simp only [y_4, if_pos hx]
    rw [this]
    rw [e3, e4, xor_parity_eq_zero] at hx
    exact hx.symm
  · have h4 : y_4 = -y_3 := by simp only [y_4, y1_1, if_neg hx]
    have hy3 : y_3 ≠ 0 := by intro h0; apply hy; rw [h4, h0, neg_zero]
    have hp := hpar y_3 hy3
    rw [h4, ← e3]
    rw [e3, e4, xor_parity_eq_zero] at hx
    rcases Nat.mod_two_eq_zero_or_one (toNat u % 18446744073709551616) with a | a <;>
      rcases Nat.mod_two_eq_zero_or_one (toNat y_3 % 18446744073709551616) with b | b <;>
      rcases Nat.mod_two_eq_zero_or_one (toNat (-y_3) % 18446744073709551616) with c | c <;> simp_all

/-- non-vacuity of the hypotheses on the limb-level primitives: they hold for `limbOr x = if x = 0 then 0 else 1`,
`notEqual a b = if a = b then 0 else 1` in every field -/
example : ∃ (l : F → Nat) (n : F → F → Nat), (∀ x, l x = 0 ↔ x = 0) ∧ (∀ a b, n a b = 0 ↔ a = b) :=
  ⟨fun x => if x = 0 then 0 else 1, fun a b => if a = b then 0 else 1,
    fun x => by by_cases h : x = 0 <;> simp [h], fun a b => by by_cases h : a = b <;> simp [h]⟩

end GV.Gen.H2C.bls12_381
