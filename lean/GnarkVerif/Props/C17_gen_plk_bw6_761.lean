/- (G := Ex q) (G2 := Unit) (S := Ex q) (L := ℕ × ℕ)ANTIATED by bin/mkc17permgen.py (one proof template for the 7 packages). DO NOT EDIT: edit the script and re-run it. -/
import GnarkVerif.Proofs.PlkGen
import GnarkVerif.Gen.Verifier.Plookup_bw6_761
import GnarkVerif.Props.C11_gen_bw6_761
import GnarkVerif.Props.C17c
/-
C17 (plookup, vector proofs), tie T for ecc/bw6-761/fr/plookup/vector.go: `VerifyLookupVector(vk, proof)` as REGENERATED from the Go text on every run
(Gen/Verifier/Plookup_bw6_761.lean; tools/goslp/slpgperm.go): the four Fiat–Shamir challenges (`deriveRandomness` of table.go executed in place), the two calls
of kzg.BatchVerifySinglePoint (6 digests at ν, 4 digests at ν·g; re-translated from kzg.go on this run, prefix `kzg_`; the 4-digest def proved identical to
the one of Gen/Verifier/Kzg_bw6_761.lean, the 6-digest def has no counterpart there and is expanded to its pairing operands by C17gen_bw6_761_plk_batch6_abstract), the size test
(`size` is a Go uint64), the generator test and the quotient identity, in the order of the Go text. PARAMETERS and ASSUMPTIONS: as in Props/C17_gen_perm_bw6_761.lean.
-/
set_option linter.unusedVariables false
set_option linter.unusedSectionVars false
open GV GV.Alg GV.KZG GV.Gen.Verifier GV.VerifierGen GV.ArgPairing GV.C11gen
namespace GV.C17gen

/-- the 4-digest kzg def emitted into Plookup_bw6_761.lean is the def of Kzg_bw6_761.lean -/
theorem C17gen_bw6_761_plk_kzg_same {G G2 S L : Type} [AddCommGroup G] [Field S] [BEq S] [BEq G2] (toInt : S → Int)
    (dg : S → List G → List S → S) (dgErr : Bool) (pcf : List G → L → Bool) (d0 d1 d2 d3 H g1 : G) (v0 v1 v2 v3 z : S) (q0 q1 : G2) (lines : L) :
    plookup_bw6_761.kzg_BatchVerifySinglePoint_k4 toInt dg dgErr pcf d0 d1 d2 d3 H v0 v1 v2 v3 z q0 q1 g1 lines
      = kzg_bw6_761.BatchVerifySinglePoint_k4 toInt dg dgErr pcf d0 d1 d2 d3 H v0 v1 v2 v3 z q0 q1 g1 lines := rfl

/-- the 6-digest batch verification (re-translated from kzg.go; Kzg_bw6_761.lean stops at 4) over ANY commutative group / ring: `kzg.Verify` of the folded
digest Σ [γⁱ]dᵢ and folded value Σ vᵢ·γⁱ, γ = deriveGamma(point, digests, values) -/
theorem C17gen_bw6_761_plk_batch6_abstract {G G2 S L : Type} [AddCommGroup G] [Field S] [BEq S] [BEq G2] (toInt : S → Int)
    (pcf : List G → L → Bool) (dg : S → List G → List S → S) (d0 d1 d2 d3 d4 d5 H g1 : G) (v0 v1 v2 v3 v4 v5 z : S) (q0 q1 : G2) (lines : L) :
    plookup_bw6_761.kzg_BatchVerifySinglePoint_k6 toInt dg false pcf d0 d1 d2 d3 d4 d5 H v0 v1 v2 v3 v4 v5 z q0 q1 g1 lines
      = (let γ := dg z [d0, d1, d2, d3, d4, d5] [v0, v1, v2, v3, v4, v5]
         kzg_bw6_761.Verify toInt pcf
           (toInt 1 • d0 + toInt γ • d1 + toInt (γ * γ) • d2 + toInt ((γ * γ) * γ) • d3 + toInt (((γ * γ) * γ) * γ) • d4 + toInt ((((γ * γ) * γ) * γ) * γ) • d5) H
           (v0 * 1 + v1 * γ + v2 * (γ * γ) + v3 * ((γ * γ) * γ) + v4 * (((γ * γ) * γ) * γ) + v5 * ((((γ * γ) * γ) * γ) * γ)) z q0 q1 g1 lines) := by
  have hv : ∀ (c : G) (hh : G) (v zz : S), plookup_bw6_761.kzg_Verify toInt pcf c hh v zz q0 q1 g1 lines = kzg_bw6_761.Verify toInt pcf c hh v zz q0 q1 g1 lines :=
    fun _ _ _ _ => rfl
  simp only [plookup_bw6_761.kzg_BatchVerifySinglePoint_k6, plookup_bw6_761.kzg_FoldProof_k6, plookup_bw6_761.kzg_fold_k6, Bool.false_eq_true, if_false,
    bne_self_eq_false, hv, add_zero, zero_add, add_assoc]

/-- THE TIE: the generated `VerifyLookupVector` IS the reference program `plkRef` of Proofs/PlkGen.lean (`rfl`) -/
theorem C17gen_bw6_761_plk_ref {G G2 S L : Type} [AddCommGroup G] [Field S] [BEq S] [BEq G2] (toInt : S → Int) (rawG : G → List UInt8)
    (fsC : String → List (List UInt8) → List (List UInt8) → List UInt8) (frB : List UInt8 → S) (expS : S → Int → S)
    (dg : S → List G → List S → S) (dgErr : Bool) (pcf : List G → L → Bool) (q0 q1 : G2) (g1 : G) (lines : L) (size : Int) (g : S)
    (h1 h2 t z f h bH : G) (c0 c1 c2 c3 c4 c5 : S) (sH : G) (s0 s1 s2 s3 : S) :
    plookup_bw6_761.VerifyLookupVector toInt rawG fsC frB dg dgErr pcf expS q0 q1 g1 lines size g h1 h2 t z f h bH c0 c1 c2 c3 c4 c5 sH s0 s1 s2 s3
      = plkRef rawG fsC frB expS size g h1 h2 t z f h c0 c1 c2 c3 c4 c5 s0 s1 s2 s3
          (fun ν => plookup_bw6_761.kzg_BatchVerifySinglePoint_k6 toInt dg dgErr pcf h1 h2 t z f h bH c0 c1 c2 c3 c4 c5 ν q0 q1 g1 lines)
          (fun x => kzg_bw6_761.BatchVerifySinglePoint_k4 toInt dg dgErr pcf h1 h2 t z sH s0 s1 s2 s3 x q0 q1 g1 lines) := rfl

/-- ABSTRACT FORM over ANY commutative group and field: nil iff the pairing check of the batch at ν holds of `[Σ cᵢδⁱ]G₁ + [−ν]H − Σ[δⁱ]Dᵢ` and `H` (h1, h2, t, z, f, h), the pairing check of the shifted batch
holds of `[Σ sᵢγ'ⁱ]G₁ + [−νg]H' − Σ[γ'ⁱ]Cᵢ` and `H'` (h1, h2, t, z at ν·g), `size & (size−1) = 0`, `g^(size/2) ≠ 1`, `(g^(size/2))² = 1`, and the field identity holds -/
theorem C17gen_bw6_761_plk_abstract {G G2 S L : Type} [AddCommGroup G] [Field S] [BEq S] [BEq G2] (toInt : S → Int) (rawG : G → List UInt8)
    (fsC : String → List (List UInt8) → List (List UInt8) → List UInt8) (frB : List UInt8 → S) (expS : S → Int → S)
    (dg : S → List G → List S → S) (pcf : List G → L → Bool) (q0 q1 : G2) (g1 : G) (lines : L) (size : Int) (g : S)
    (h1 h2 t z f h bH : G) (c0 c1 c2 c3 c4 c5 : S) (sH : G) (s0 s1 s2 s3 : S) :
    plookup_bw6_761.VerifyLookupVector toInt rawG fsC frB dg false pcf expS q0 q1 g1 lines size g h1 h2 t z f h bH c0 c1 c2 c3 c4 c5 sH s0 s1 s2 s3 = Res.ok ↔
      (let ch := plkChallenges rawG fsC t f h1 h2 z h
       let ν := frB ch.2.2.2
       let γ := dg (ν * g) [h1, h2, t, z] [s0, s1, s2, s3]
       (let δ := dg ν [h1, h2, t, z, f, h] [c0, c1, c2, c3, c4, c5]
        pcf [toInt (c0 * 1 + c1 * δ + c2 * (δ * δ) + c3 * ((δ * δ) * δ) + c4 * (((δ * δ) * δ) * δ) + c5 * ((((δ * δ) * δ) * δ) * δ)) • g1 + toInt (-ν) • bH
              - (toInt 1 • h1 + toInt δ • h2 + toInt (δ * δ) • t + toInt ((δ * δ) * δ) • z + toInt (((δ * δ) * δ) * δ) • f + toInt ((((δ * δ) * δ) * δ) * δ) • h), bH] lines = true) ∧
       pcf [toInt (s0 * 1 + s1 * γ + s2 * (γ * γ) + s3 * ((γ * γ) * γ)) • g1 + toInt (-(ν * g)) • sH
              - (toInt 1 • h1 + toInt γ • h2 + toInt (γ * γ) • t + toInt ((γ * γ) * γ) • z), sH] lines = true ∧
       u64and size (u64sub size 1) = 0 ∧
       (expS g (wrap64 (u64quo size 2)) == 1) = false ∧ (expS g (wrap64 (u64quo size 2)) * expS g (wrap64 (u64quo size 2)) == 1) = true ∧
       plkIdent expS size g c0 c1 c2 c3 c4 c5 s0 s1 s2 s3 (frB ch.1) (frB ch.2.1) (frB ch.2.2.1) ν = true) := by
  rw [C17gen_bw6_761_plk_ref, plkRef_ok_iff]
  simp only [C17gen_bw6_761_plk_batch6_abstract, C11gen_bw6_761_batchSingle_k4_abstract, C11gen_bw6_761_verify_abstract]

/-- BINDING: `VerifyLookupVector` depends on the transcript only through `fsChallenge "beta" [t, f, h1, h2] []`, `fsChallenge "gamma" [] [β]`,
`fsChallenge "alpha" [z] [β, γ]`, `fsChallenge "nu" [h] [β, γ, α]` (RawBytes of the commitments, in this order) -/
theorem C17gen_bw6_761_plk_binding {G G2 S L : Type} [AddCommGroup G] [Field S] [BEq S] [BEq G2] (toInt : S → Int) (rawG : G → List UInt8)
    (fsC fsC' : String → List (List UInt8) → List (List UInt8) → List UInt8) (frB : List UInt8 → S) (expS : S → Int → S)
    (dg : S → List G → List S → S) (dgErr : Bool) (pcf : List G → L → Bool) (q0 q1 : G2) (g1 : G) (lines : L) (size : Int) (g : S)
    (h1 h2 t z f h bH : G) (c0 c1 c2 c3 c4 c5 : S) (sH : G) (s0 s1 s2 s3 : S)
    (hc : plkChallenges rawG fsC' t f h1 h2 z h = plkChallenges rawG fsC t f h1 h2 z h) :
    plookup_bw6_761.VerifyLookupVector toInt rawG fsC' frB dg dgErr pcf expS q0 q1 g1 lines size g h1 h2 t z f h bH c0 c1 c2 c3 c4 c5 sH s0 s1 s2 s3
      = plookup_bw6_761.VerifyLookupVector toInt rawG fsC frB dg dgErr pcf expS q0 q1 g1 lines size g h1 h2 t z f h bH c0 c1 c2 c3 c4 c5 sH s0 s1 s2 s3 := by
  rw [C17gen_bw6_761_plk_ref, C17gen_bw6_761_plk_ref]
  exact plkRef_binding rawG fsC fsC' frB expS size g h1 h2 t z f h c0 c1 c2 c3 c4 c5 s0 s1 s2 s3 _ _ hc

example : plkChallenges (G := ℕ) (fun _ => []) (fun _ _ _ => []) 0 0 0 0 0 0 = plkChallenges (fun _ => []) (fun _ _ _ => []) 0 0 0 0 0 0 := rfl

variable (q : ℕ) [Fact q.Prime]

/-- EXPONENT MODEL (dictionary `fp q`): the generated `VerifyLookupVector` accepts iff `Model.ArgPairing.plkVerify` accepts, for every input with
0 ≤ size < 2^63: β, γ, α, ν = the challenges the transcript derives; kzgBatch / kzgShift = the verdicts of the generated kzg verifications at ν / ν·g -/
theorem C17gen_bw6_761_plk_ex (h2 : 2 < q) (rawG : Ex q → List UInt8) (fsC : String → List (List UInt8) → List (List UInt8) → List UInt8)
    (frB : List UInt8 → Ex q) (dg : Ex q → List (Ex q) → List (Ex q) → Ex q) (dgErr : Bool) (n : ℕ) (hn : n < 2 ^ 63)
    (g h1 h2' t z f h bH c0 c1 c2 c3 c4 c5 sH s0 s1 s2 s3 g1 : Ex q) (l : ℕ × ℕ) (q0 q1 : Unit) :
    plookup_bw6_761.VerifyLookupVector (G := Ex q) (G2 := Unit) (S := Ex q) (L := ℕ × ℕ) Ex.toInt rawG fsC frB dg dgErr (pcFixed q) (expEx q) q0 q1 g1 l (n : Int) g h1 h2' t z f h bH c0 c1 c2 c3 c4 c5 sH s0 s1 s2 s3 = Res.ok ↔
      plkVerify (fp q) n g.v [c0.v, c1.v, c2.v, c3.v, c4.v, c5.v] [s0.v, s1.v, s2.v, s3.v]
        (frB (plkChallenges rawG fsC t f h1 h2' z h).1).v (frB (plkChallenges rawG fsC t f h1 h2' z h).2.1).v
        (frB (plkChallenges rawG fsC t f h1 h2' z h).2.2.1).v (frB (plkChallenges rawG fsC t f h1 h2' z h).2.2.2).v
        (decide (plookup_bw6_761.kzg_BatchVerifySinglePoint_k6 (G := Ex q) (G2 := Unit) (S := Ex q) (L := ℕ × ℕ) Ex.toInt dg dgErr (pcFixed q) h1 h2' t z f h bH c0 c1 c2 c3 c4 c5
                  (frB (plkChallenges rawG fsC t f h1 h2' z h).2.2.2) q0 q1 g1 l = Res.ok))
        (decide (kzg_bw6_761.BatchVerifySinglePoint_k4 (G := Ex q) (G2 := Unit) (S := Ex q) (L := ℕ × ℕ) Ex.toInt dg dgErr (pcFixed q) h1 h2' t z sH s0 s1 s2 s3
                  (frB (plkChallenges rawG fsC t f h1 h2' z h).2.2.2 * g) q0 q1 g1 l = Res.ok)) = true := by
  have hq : NeZero q := ⟨(Fact.out : q.Prime).ne_zero⟩
  have e : plookup_bw6_761.VerifyLookupVector (G := Ex q) (G2 := Unit) (S := Ex q) (L := ℕ × ℕ) Ex.toInt rawG fsC frB dg dgErr (pcFixed q) (expEx q) q0 q1 g1 l (n : Int) g h1 h2' t z f h bH c0 c1 c2 c3 c4 c5 sH s0 s1 s2 s3
      = plkRef rawG fsC frB (expEx q) (n : Int) g h1 h2' t z f h c0 c1 c2 c3 c4 c5 s0 s1 s2 s3
          (fun ν => plookup_bw6_761.kzg_BatchVerifySinglePoint_k6 (G := Ex q) (G2 := Unit) (S := Ex q) (L := ℕ × ℕ) Ex.toInt dg dgErr (pcFixed q) h1 h2' t z f h bH c0 c1 c2 c3 c4 c5 ν q0 q1 g1 l)
          (fun x => kzg_bw6_761.BatchVerifySinglePoint_k4 (G := Ex q) (G2 := Unit) (S := Ex q) (L := ℕ × ℕ) Ex.toInt dg dgErr (pcFixed q) h1 h2' t z sH s0 s1 s2 s3 x q0 q1 g1 l) := rfl
  rw [e]
  exact plkRef_ex q h2 rawG fsC frB n hn g h1 h2' t z f h c0 c1 c2 c3 c4 c5 s0 s1 s2 s3 _ _

example : (2 : ℕ) < 13 ∧ (4 : ℕ) < 2 ^ 63 := by decide

/-- transfer of C17c_plookup_consist_iff to the Go text: when the identity and both generated KZG verifications pass, `VerifyLookupVector` with
size = 2^(k+1) < 2^63 accepts exactly when the prover-supplied g is a PRIMITIVE size-th root of unity in ZMod q -/
theorem C17gen_bw6_761_plk_ex_sound (h2 : 2 < q) (rawG : Ex q → List UInt8) (fsC : String → List (List UInt8) → List (List UInt8) → List UInt8)
    (frB : List UInt8 → Ex q) (dg : Ex q → List (Ex q) → List (Ex q) → Ex q) (dgErr : Bool) (k : ℕ) (hn : 2 ^ (k + 1) < 2 ^ 63)
    (g h1 h2' t z f h bH c0 c1 c2 c3 c4 c5 sH s0 s1 s2 s3 g1 : Ex q) (l : ℕ × ℕ) (q0 q1 : Unit)
    (hid : plkIdentity (fp q) (2 ^ (k + 1)) g.v [c0.v, c1.v, c2.v, c3.v, c4.v, c5.v] [s0.v, s1.v, s2.v, s3.v]
        (frB (plkChallenges rawG fsC t f h1 h2' z h).1).v (frB (plkChallenges rawG fsC t f h1 h2' z h).2.1).v
        (frB (plkChallenges rawG fsC t f h1 h2' z h).2.2.1).v (frB (plkChallenges rawG fsC t f h1 h2' z h).2.2.2).v = true)
    (hb : plookup_bw6_761.kzg_BatchVerifySinglePoint_k6 (G := Ex q) (G2 := Unit) (S := Ex q) (L := ℕ × ℕ) Ex.toInt dg dgErr (pcFixed q) h1 h2' t z f h bH c0 c1 c2 c3 c4 c5
                  (frB (plkChallenges rawG fsC t f h1 h2' z h).2.2.2) q0 q1 g1 l = Res.ok)
    (hs : kzg_bw6_761.BatchVerifySinglePoint_k4 (G := Ex q) (G2 := Unit) (S := Ex q) (L := ℕ × ℕ) Ex.toInt dg dgErr (pcFixed q) h1 h2' t z sH s0 s1 s2 s3
                  (frB (plkChallenges rawG fsC t f h1 h2' z h).2.2.2 * g) q0 q1 g1 l = Res.ok) :
    plookup_bw6_761.VerifyLookupVector (G := Ex q) (G2 := Unit) (S := Ex q) (L := ℕ × ℕ) Ex.toInt rawG fsC frB dg dgErr (pcFixed q) (expEx q) q0 q1 g1 l ((2 ^ (k + 1) : ℕ) : Int) g h1 h2' t z f h bH c0 c1 c2 c3 c4 c5 sH s0 s1 s2 s3 = Res.ok ↔
      orderOf ((g.v : ℕ) : ZMod q) = 2 ^ (k + 1) := by
  rw [C17gen_bw6_761_plk_ex q h2 rawG fsC frB dg dgErr _ hn, hb, hs]
  simp only [decide_true]
  exact C17c_plookup_consist_iff (lawful_fp q h2) k g.v _ _ _ _ _ _ hid

end GV.C17gen
