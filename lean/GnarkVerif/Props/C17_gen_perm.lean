/- INSTANTIATED by bin/mkc17permgen.py (one proof template for the 7 packages). DO NOT EDIT: edit the script and re-run it. -/
import GnarkVerif.Props.C17_gen_perm_bn254
import GnarkVerif.Props.C17_gen_plk_bn254
import GnarkVerif.Props.C17_gen_perm_bls12_377
import GnarkVerif.Props.C17_gen_plk_bls12_377
import GnarkVerif.Props.C17_gen_perm_bls12_381
import GnarkVerif.Props.C17_gen_plk_bls12_381
import GnarkVerif.Props.C17_gen_perm_bls24_315
import GnarkVerif.Props.C17_gen_plk_bls24_315
import GnarkVerif.Props.C17_gen_perm_bls24_317
import GnarkVerif.Props.C17_gen_plk_bls24_317
import GnarkVerif.Props.C17_gen_perm_bw6_633
import GnarkVerif.Props.C17_gen_plk_bw6_633
import GnarkVerif.Props.C17_gen_perm_bw6_761
import GnarkVerif.Props.C17_gen_plk_bw6_761
/-
C17 tie T (permutation.Verify): see Props/C17_gen_perm_<curve>.lean and Proofs/PermGen.lean. This root module only collects the 7 instances.
-/
