/- INSTANTIATED by bin/mkc12gen.py (one proof template for all packages). DO NOT EDIT: edit the script and re-run it. -/
import GnarkVerif.Gen.Verifier.Eddsa_bw6_633
import Mathlib.Tactic.SplitIfs
/-
C12, tie T for the EdDSA verifier of package eddsa_bw6_633: `(*PublicKey).Verify` as REGENERATED from the Go text (Gen/Verifier/Eddsa_bw6_633.lean).
`Signature.SetBytes` is NOT looked into here (parameters sigParseErr / sigParseR / sigParseS of the signature bytes: the length check,
the range checks of R and S, the decompression of R and its on-curve test stay hand model + K); the curve parameters are the parameters
edBase, edCofactor (twistededwards.GetEdwardsCurve()); the hash object is hashWriteOk / hashSum as for ECDSA.
`_verify_abstract`: over ANY types the Go text returns (true, nil) exactly when A is on the curve, the signature parses, the five Writes
(R.X, R.Y, A.X, A.Y, message) succeed, [c]([S]B) and [c]([h]A + R) are on the curve and have equal X AND equal Y coordinates
(c = cofactor, h = the digest as a big-endian integer; S is NOT reduced modulo the order here).
-/
set_option linter.unusedVariables false
open GV GV.Gen.Verifier
namespace GV.C12gen

theorem C12gen_bw6_633_eddsa_verify_abstract {G Fp : Type} [Add G] [Sub G] [Neg G] [Zero G] [SMul Int G] [Add Fp] [Sub Fp] [Mul Fp] [Inv Fp] [Zero Fp] [BEq Fp]
    (edA edD edCofactor : Fp) (edOrder : Int) (edBase : G) (isOnCurve : G → Bool) (perr : List UInt8 → Res) (pR : List UInt8 → G)
    (pS : List UInt8 → List UInt8) (affX : G → Fp) (fpBytes : Fp → List UInt8) (affY : G → Fp) (wok : List UInt8 → Bool)
    (hsum : List (List UInt8) → List UInt8) (fpToInt : Fp → Int) (A : G) (sig msg : List UInt8)
    (h : Int) (hh : h = Int.ofNat (beToNat (hsum [fpBytes (affX (pR sig)), fpBytes (affY (pR sig)), fpBytes (affX A), fpBytes (affY A), msg])))
    (L R : G) (hL : L = fpToInt edCofactor • (Int.ofNat (beToNat (pS sig)) • edBase)) (hR : R = fpToInt edCofactor • (h • A + pR sig)) :
    eddsa_bw6_633.PublicKey_Verify_hash edA edD edCofactor edOrder edBase isOnCurve perr pR pS affX fpBytes affY wok hsum fpToInt A sig msg = (true, Res.ok) ↔
      (isOnCurve A = true ∧ perr sig = Res.ok ∧ wok (fpBytes (affX (pR sig))) = true ∧ wok (fpBytes (affY (pR sig))) = true ∧
       wok (fpBytes (affX A)) = true ∧ wok (fpBytes (affY A)) = true ∧ wok msg = true ∧
       isOnCurve L = true ∧ isOnCurve R = true ∧ (affX L == affX R) = true ∧ (affY L == affY R) = true) := by
  subst hh hL hR
  simp only [eddsa_bw6_633.PublicKey_Verify_hash]
  by_cases c1 : isOnCurve A = true
  case neg => simp [c1]
  by_cases c2 : perr sig = Res.ok
  case neg => simp [c1, c2]
  by_cases c3 : wok (fpBytes (affX (pR sig))) = true
  case neg => simp [c1, c2, c3]
  by_cases c4 : wok (fpBytes (affY (pR sig))) = true
  case neg => simp [c1, c2, c3, c4]
  by_cases c5 : wok (fpBytes (affX A)) = true
  case neg => simp [c1, c2, c3, c4, c5]
  by_cases c6 : wok (fpBytes (affY A)) = true
  case neg => simp [c1, c2, c3, c4, c5, c6]
  by_cases c7 : wok msg = true
  case neg => simp [c1, c2, c3, c4, c5, c6, c7]
  simp only [c1, c2, c3, c4, c5, c6, c7, Bool.not_true, Bool.false_eq_true, if_false, bne_self_eq_false, true_and]
  split_ifs <;> simp_all <;> (rename_i h; intro ha; rcases h with h | h <;> simp_all)

/-- without a hash object the verifier refuses before anything else -/
theorem C12gen_bw6_633_eddsa_verify_nohash {G Fp : Type} [Add G] [Sub G] [Neg G] [Zero G] [SMul Int G] [Add Fp] [Sub Fp] [Mul Fp] [Inv Fp] [Zero Fp] [BEq Fp] (A : G) (sig msg : List UInt8) :
    eddsa_bw6_633.PublicKey_Verify_nohash (Fp := Fp) A sig msg = (false, Res.err "errHashNeeded") := rfl

end GV.C12gen
