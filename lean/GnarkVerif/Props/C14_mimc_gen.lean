import GnarkVerif.Proofs.MiMCDigestSim
import GnarkVerif.Props.C14
/-
C14_mimc_gen — tie T for the MiMC digest state machine (streaming semantics).

The Lean defs `Reset`, `checksum`, `Sum`, `Write`, `SetState`, `State`, `WriteString` (methods of `*digest`) and `pkgSum` (the
package-level `Sum`) of Gen/Imp/Mimc_<pkg>.lean are REGENERATED from /repo/ecc/<curve>/fr/mimc/mimc.go of the 8 mimc packages on
every run (tools/goslp mode "imp", extension imp_digest.go: statement-by-statement translation, anything outside the subset is a
fatal error of the pass `imp:Mimc`; value vocabulary and its Go semantics: Model/GoImp.lean + Model/GoImpDigest.lean).
Gen/Imp/MimcAll.lean proves every package's defs EQUAL to the ones of ecc/bn254 (SetState of the two bw6 packages: same text
with the length literal 40 / 48 instead of 32, `Proofs/MiMCDigestGen.SetStateN`).

PARAMETERS of the generated defs (NOT translated here; their assumed behaviour is the hypothesis `OK P bo X`, spelled out in
`Proofs/MiMCDigestGen.ParamsOK`, at F = ℕ = canonical representatives):
  * `encrypt k m`  = `d.encrypt(m)` with k = `d.h`  — assumed = `Model.MiMC.encrypt P k m` (the translated `encrypt` of Gen/Hash is
    proved equal to it in Props/C14_gen_mimc_<pkg>; the translator checks that `encrypt` does not touch `d` except reading `d.h`);
  * `fAdd` = `Element.Add` — assumed addition mod q; `fZero` = `fr.Element{0,…}` — assumed 0;
  * `boElement bo blk` = `d.byteOrder.Element(blk)` — assumed: on a block of BlockSize bytes it returns (value, nil) when the value
    (in the byte order of `P`) is < q and a non-nil error otherwise; `fBytes` = `Element.Bytes()` — assumed the BlockSize-byte
    big-endian encoding of reduced values; `fSet z buf` = `z.SetBytesCanonical(buf)` — assumed (big-endian value, nil) for a
    BlockSize-byte value < q, otherwise z unchanged and a non-nil error (these codecs are the subject of C08 / C08_gen);
  * `frHash` = `fr.Hash(msg, dst, n)` (hash to field, C13) — no assumption; `frBE` = `fr.BigEndian`;
  * `BS` = the constant `BlockSize` — assumed = `P.size` (the translator checks the declaration `BlockSize = fr.Bytes`).
Also assumed: `0 < P.size`, `0 < P.q`, and for `SetState` that its length literal equals `P.size` (`C14mimcgen_stateLen_is_frBytes`
proves that the literal of every package is `fr.Bytes` as re-extracted into Gen/Fields).

Proved: abstraction `abs` (forget `byteOrder`), invariant `d.h < q`; every generated method = `Model.MiMC.step` on the
corresponding `Op`, outputs and error cases included, a refused call returns the hasher unchanged (all fields); lifted to `run` over
every op list; then the streaming theorems of Props/C14 for the generated code, the package-level `Sum`, `WriteString`.
The same statements for an ABSTRACT element type F read through a value map `val : F → ℕ` (section "abstract element type":
hypothesis `ParamsOKF`, abstraction `abs ∘ dmap val`; by the simulation lemmas of Proofs/MiMCDigestSim), so nothing depends on the
choice F = ℕ; Props/C14_mimc_gen_enc instantiates F = ZMod q with the TRANSLATED `encrypt` of Gen/Hash as the parameter.
NOT translated: `NewMiMC` (options plumbing) — a fresh hasher is any digest with `h = 0`, `data = []` (what `new(digest)` +
`Reset` give); `Size`, `BlockSize` (constants). By-value slices: aliasing / capacity effects are outside this tie (they are K's).
-/
set_option linter.unusedSimpArgs false
set_option linter.unusedVariables false
namespace GV.MiMC.DigestGen
open GV.GoImp GV.Gen.Imp

/-! ### the 8 packages -/

def methods_bls12_377 {F BO : Type} [Inhabited F] (X : Prims F BO) : Methods F BO where
  reset := Mimc_bls12_377.Reset X.fZero X.fAdd X.encrypt X.boElement X.fBytes X.fSet X.frHash X.frBE X.BS
  sum := Mimc_bls12_377.Sum X.fZero X.fAdd X.encrypt X.boElement X.fBytes X.fSet X.frHash X.frBE X.BS
  write := Mimc_bls12_377.Write X.fZero X.fAdd X.encrypt X.boElement X.fBytes X.fSet X.frHash X.frBE X.BS
  setState := Mimc_bls12_377.SetState X.fZero X.fAdd X.encrypt X.boElement X.fBytes X.fSet X.frHash X.frBE X.BS
  state := Mimc_bls12_377.State X.fZero X.fAdd X.encrypt X.boElement X.fBytes X.fSet X.frHash X.frBE X.BS
  writeString := Mimc_bls12_377.WriteString X.fZero X.fAdd X.encrypt X.boElement X.fBytes X.fSet X.frHash X.frBE X.BS
  pkgSum := Mimc_bls12_377.pkgSum X.fZero X.fAdd X.encrypt X.boElement X.fBytes X.fSet X.frHash X.frBE X.BS

def methods_bls12_381 {F BO : Type} [Inhabited F] (X : Prims F BO) : Methods F BO where
  reset := Mimc_bls12_381.Reset X.fZero X.fAdd X.encrypt X.boElement X.fBytes X.fSet X.frHash X.frBE X.BS
  sum := Mimc_bls12_381.Sum X.fZero X.fAdd X.encrypt X.boElement X.fBytes X.fSet X.frHash X.frBE X.BS
  write := Mimc_bls12_381.Write X.fZero X.fAdd X.encrypt X.boElement X.fBytes X.fSet X.frHash X.frBE X.BS
  setState := Mimc_bls12_381.SetState X.fZero X.fAdd X.encrypt X.boElement X.fBytes X.fSet X.frHash X.frBE X.BS
  state := Mimc_bls12_381.State X.fZero X.fAdd X.encrypt X.boElement X.fBytes X.fSet X.frHash X.frBE X.BS
  writeString := Mimc_bls12_381.WriteString X.fZero X.fAdd X.encrypt X.boElement X.fBytes X.fSet X.frHash X.frBE X.BS
  pkgSum := Mimc_bls12_381.pkgSum X.fZero X.fAdd X.encrypt X.boElement X.fBytes X.fSet X.frHash X.frBE X.BS

def methods_bls24_315 {F BO : Type} [Inhabited F] (X : Prims F BO) : Methods F BO where
  reset := Mimc_bls24_315.Reset X.fZero X.fAdd X.encrypt X.boElement X.fBytes X.fSet X.frHash X.frBE X.BS
  sum := Mimc_bls24_315.Sum X.fZero X.fAdd X.encrypt X.boElement X.fBytes X.fSet X.frHash X.frBE X.BS
  write := Mimc_bls24_315.Write X.fZero X.fAdd X.encrypt X.boElement X.fBytes X.fSet X.frHash X.frBE X.BS
  setState := Mimc_bls24_315.SetState X.fZero X.fAdd X.encrypt X.boElement X.fBytes X.fSet X.frHash X.frBE X.BS
  state := Mimc_bls24_315.State X.fZero X.fAdd X.encrypt X.boElement X.fBytes X.fSet X.frHash X.frBE X.BS
  writeString := Mimc_bls24_315.WriteString X.fZero X.fAdd X.encrypt X.boElement X.fBytes X.fSet X.frHash X.frBE X.BS
  pkgSum := Mimc_bls24_315.pkgSum X.fZero X.fAdd X.encrypt X.boElement X.fBytes X.fSet X.frHash X.frBE X.BS

def methods_bls24_317 {F BO : Type} [Inhabited F] (X : Prims F BO) : Methods F BO where
  reset := Mimc_bls24_317.Reset X.fZero X.fAdd X.encrypt X.boElement X.fBytes X.fSet X.frHash X.frBE X.BS
  sum := Mimc_bls24_317.Sum X.fZero X.fAdd X.encrypt X.boElement X.fBytes X.fSet X.frHash X.frBE X.BS
  write := Mimc_bls24_317.Write X.fZero X.fAdd X.encrypt X.boElement X.fBytes X.fSet X.frHash X.frBE X.BS
  setState := Mimc_bls24_317.SetState X.fZero X.fAdd X.encrypt X.boElement X.fBytes X.fSet X.frHash X.frBE X.BS
  state := Mimc_bls24_317.State X.fZero X.fAdd X.encrypt X.boElement X.fBytes X.fSet X.frHash X.frBE X.BS
  writeString := Mimc_bls24_317.WriteString X.fZero X.fAdd X.encrypt X.boElement X.fBytes X.fSet X.frHash X.frBE X.BS
  pkgSum := Mimc_bls24_317.pkgSum X.fZero X.fAdd X.encrypt X.boElement X.fBytes X.fSet X.frHash X.frBE X.BS

def methods_bn254 {F BO : Type} [Inhabited F] (X : Prims F BO) : Methods F BO where
  reset := Mimc_bn254.Reset X.fZero X.fAdd X.encrypt X.boElement X.fBytes X.fSet X.frHash X.frBE X.BS
  sum := Mimc_bn254.Sum X.fZero X.fAdd X.encrypt X.boElement X.fBytes X.fSet X.frHash X.frBE X.BS
  write := Mimc_bn254.Write X.fZero X.fAdd X.encrypt X.boElement X.fBytes X.fSet X.frHash X.frBE X.BS
  setState := Mimc_bn254.SetState X.fZero X.fAdd X.encrypt X.boElement X.fBytes X.fSet X.frHash X.frBE X.BS
  state := Mimc_bn254.State X.fZero X.fAdd X.encrypt X.boElement X.fBytes X.fSet X.frHash X.frBE X.BS
  writeString := Mimc_bn254.WriteString X.fZero X.fAdd X.encrypt X.boElement X.fBytes X.fSet X.frHash X.frBE X.BS
  pkgSum := Mimc_bn254.pkgSum X.fZero X.fAdd X.encrypt X.boElement X.fBytes X.fSet X.frHash X.frBE X.BS

def methods_bw6_633 {F BO : Type} [Inhabited F] (X : Prims F BO) : Methods F BO where
  reset := Mimc_bw6_633.Reset X.fZero X.fAdd X.encrypt X.boElement X.fBytes X.fSet X.frHash X.frBE X.BS
  sum := Mimc_bw6_633.Sum X.fZero X.fAdd X.encrypt X.boElement X.fBytes X.fSet X.frHash X.frBE X.BS
  write := Mimc_bw6_633.Write X.fZero X.fAdd X.encrypt X.boElement X.fBytes X.fSet X.frHash X.frBE X.BS
  setState := Mimc_bw6_633.SetState X.fZero X.fAdd X.encrypt X.boElement X.fBytes X.fSet X.frHash X.frBE X.BS
  state := Mimc_bw6_633.State X.fZero X.fAdd X.encrypt X.boElement X.fBytes X.fSet X.frHash X.frBE X.BS
  writeString := Mimc_bw6_633.WriteString X.fZero X.fAdd X.encrypt X.boElement X.fBytes X.fSet X.frHash X.frBE X.BS
  pkgSum := Mimc_bw6_633.pkgSum X.fZero X.fAdd X.encrypt X.boElement X.fBytes X.fSet X.frHash X.frBE X.BS

def methods_bw6_761 {F BO : Type} [Inhabited F] (X : Prims F BO) : Methods F BO where
  reset := Mimc_bw6_761.Reset X.fZero X.fAdd X.encrypt X.boElement X.fBytes X.fSet X.frHash X.frBE X.BS
  sum := Mimc_bw6_761.Sum X.fZero X.fAdd X.encrypt X.boElement X.fBytes X.fSet X.frHash X.frBE X.BS
  write := Mimc_bw6_761.Write X.fZero X.fAdd X.encrypt X.boElement X.fBytes X.fSet X.frHash X.frBE X.BS
  setState := Mimc_bw6_761.SetState X.fZero X.fAdd X.encrypt X.boElement X.fBytes X.fSet X.frHash X.frBE X.BS
  state := Mimc_bw6_761.State X.fZero X.fAdd X.encrypt X.boElement X.fBytes X.fSet X.frHash X.frBE X.BS
  writeString := Mimc_bw6_761.WriteString X.fZero X.fAdd X.encrypt X.boElement X.fBytes X.fSet X.frHash X.frBE X.BS
  pkgSum := Mimc_bw6_761.pkgSum X.fZero X.fAdd X.encrypt X.boElement X.fBytes X.fSet X.frHash X.frBE X.BS

def methods_grumpkin {F BO : Type} [Inhabited F] (X : Prims F BO) : Methods F BO where
  reset := Mimc_grumpkin.Reset X.fZero X.fAdd X.encrypt X.boElement X.fBytes X.fSet X.frHash X.frBE X.BS
  sum := Mimc_grumpkin.Sum X.fZero X.fAdd X.encrypt X.boElement X.fBytes X.fSet X.frHash X.frBE X.BS
  write := Mimc_grumpkin.Write X.fZero X.fAdd X.encrypt X.boElement X.fBytes X.fSet X.frHash X.frBE X.BS
  setState := Mimc_grumpkin.SetState X.fZero X.fAdd X.encrypt X.boElement X.fBytes X.fSet X.frHash X.frBE X.BS
  state := Mimc_grumpkin.State X.fZero X.fAdd X.encrypt X.boElement X.fBytes X.fSet X.frHash X.frBE X.BS
  writeString := Mimc_grumpkin.WriteString X.fZero X.fAdd X.encrypt X.boElement X.fBytes X.fSet X.frHash X.frBE X.BS
  pkgSum := Mimc_grumpkin.pkgSum X.fZero X.fAdd X.encrypt X.boElement X.fBytes X.fSet X.frHash X.frBE X.BS

def stateMsg (n : Int) : String := "the mimc state expects a state of " ++ toString n ++ " bytes"

/-- the translated methods of ecc/bls12-377/fr/mimc are the reference text (length literal 32) -/
theorem C14mimcgen_pkg_bls12_377 {F BO : Type} [Inhabited F] (X : Prims F BO) : methods_bls12_377 X = refMethods X 32 (stateMsg 32) := by
  simp only [methods_bls12_377, refMethods, MimcAll.bls12_377_Reset_same, MimcAll.bls12_377_Sum_same, MimcAll.bls12_377_Write_same, MimcAll.bls12_377_SetState_same,
    MimcAll.bls12_377_State_same, MimcAll.bls12_377_WriteString_same, MimcAll.bls12_377_pkgSum_same]
  rfl

/-- the translated methods of ecc/bls12-381/fr/mimc are the reference text (length literal 32) -/
theorem C14mimcgen_pkg_bls12_381 {F BO : Type} [Inhabited F] (X : Prims F BO) : methods_bls12_381 X = refMethods X 32 (stateMsg 32) := by
  simp only [methods_bls12_381, refMethods, MimcAll.bls12_381_Reset_same, MimcAll.bls12_381_Sum_same, MimcAll.bls12_381_Write_same, MimcAll.bls12_381_SetState_same,
    MimcAll.bls12_381_State_same, MimcAll.bls12_381_WriteString_same, MimcAll.bls12_381_pkgSum_same]
  rfl

/-- the translated methods of ecc/bls24-315/fr/mimc are the reference text (length literal 32) -/
theorem C14mimcgen_pkg_bls24_315 {F BO : Type} [Inhabited F] (X : Prims F BO) : methods_bls24_315 X = refMethods X 32 (stateMsg 32) := by
  simp only [methods_bls24_315, refMethods, MimcAll.bls24_315_Reset_same, MimcAll.bls24_315_Sum_same, MimcAll.bls24_315_Write_same, MimcAll.bls24_315_SetState_same,
    MimcAll.bls24_315_State_same, MimcAll.bls24_315_WriteString_same, MimcAll.bls24_315_pkgSum_same]
  rfl

/-- the translated methods of ecc/bls24-317/fr/mimc are the reference text (length literal 32) -/
theorem C14mimcgen_pkg_bls24_317 {F BO : Type} [Inhabited F] (X : Prims F BO) : methods_bls24_317 X = refMethods X 32 (stateMsg 32) := by
  simp only [methods_bls24_317, refMethods, MimcAll.bls24_317_Reset_same, MimcAll.bls24_317_Sum_same, MimcAll.bls24_317_Write_same, MimcAll.bls24_317_SetState_same,
    MimcAll.bls24_317_State_same, MimcAll.bls24_317_WriteString_same, MimcAll.bls24_317_pkgSum_same]
  rfl

/-- the translated methods of ecc/bn254/fr/mimc are the reference text (length literal 32) -/
theorem C14mimcgen_pkg_bn254 {F BO : Type} [Inhabited F] (X : Prims F BO) : methods_bn254 X = refMethods X 32 (stateMsg 32) := rfl

/-- the translated methods of ecc/bw6-633/fr/mimc are the reference text (length literal 40) -/
theorem C14mimcgen_pkg_bw6_633 {F BO : Type} [Inhabited F] (X : Prims F BO) : methods_bw6_633 X = refMethods X 40 (stateMsg 40) := by
  simp only [methods_bw6_633, refMethods, MimcAll.bw6_633_Reset_same, MimcAll.bw6_633_Sum_same, MimcAll.bw6_633_Write_same,
    MimcAll.bw6_633_State_same, MimcAll.bw6_633_WriteString_same, MimcAll.bw6_633_pkgSum_same]
  rfl

/-- the translated methods of ecc/bw6-761/fr/mimc are the reference text (length literal 48) -/
theorem C14mimcgen_pkg_bw6_761 {F BO : Type} [Inhabited F] (X : Prims F BO) : methods_bw6_761 X = refMethods X 48 (stateMsg 48) := by
  simp only [methods_bw6_761, refMethods, MimcAll.bw6_761_Reset_same, MimcAll.bw6_761_Sum_same, MimcAll.bw6_761_Write_same,
    MimcAll.bw6_761_State_same, MimcAll.bw6_761_WriteString_same, MimcAll.bw6_761_pkgSum_same]
  rfl

/-- the translated methods of ecc/grumpkin/fr/mimc are the reference text (length literal 32) -/
theorem C14mimcgen_pkg_grumpkin {F BO : Type} [Inhabited F] (X : Prims F BO) : methods_grumpkin X = refMethods X 32 (stateMsg 32) := by
  simp only [methods_grumpkin, refMethods, MimcAll.grumpkin_Reset_same, MimcAll.grumpkin_Sum_same, MimcAll.grumpkin_Write_same, MimcAll.grumpkin_SetState_same,
    MimcAll.grumpkin_State_same, MimcAll.grumpkin_WriteString_same, MimcAll.grumpkin_pkgSum_same]
  rfl

/-- (package, length literal of SetState, translated methods) -/
def allMethods {F BO : Type} [Inhabited F] (X : Prims F BO) : List (String × Int × Methods F BO) := [
  ("bls12_377", 32, methods_bls12_377 X),
  ("bls12_381", 32, methods_bls12_381 X),
  ("bls24_315", 32, methods_bls24_315 X),
  ("bls24_317", 32, methods_bls24_317 X),
  ("bn254", 32, methods_bn254 X),
  ("bw6_633", 40, methods_bw6_633 X),
  ("bw6_761", 48, methods_bw6_761 X),
  ("grumpkin", 32, methods_grumpkin X)]

/-- **all packages**: every package's translated methods are the reference text with its own length literal -/
theorem C14mimcgen_all {F BO : Type} [Inhabited F] (X : Prims F BO) : ∀ e ∈ allMethods X, e.2.2 = refMethods X e.2.1 (stateMsg e.2.1) := by
  intro e he
  simp only [allMethods, List.mem_cons, List.not_mem_nil, or_false] at he
  rcases he with rfl | rfl | rfl | rfl | rfl | rfl | rfl | rfl
  · exact C14mimcgen_pkg_bls12_377 X
  · exact C14mimcgen_pkg_bls12_381 X
  · exact C14mimcgen_pkg_bls24_315 X
  · exact C14mimcgen_pkg_bls24_317 X
  · exact C14mimcgen_pkg_bn254 X
  · exact C14mimcgen_pkg_bw6_633 X
  · exact C14mimcgen_pkg_bw6_761 X
  · exact C14mimcgen_pkg_grumpkin X

/-- the length literals recorded by the translator are the ones used above … -/
theorem C14mimcgen_stateLen : MimcAll.stateLen = (allMethods (canonical { q := 1, d := 5, size := 1, consts := [] })).map (fun e => (e.1, e.2.1)) := rfl

/-- … and each equals `fr.Bytes` of its package as re-extracted into Gen/Fields (so `hn` below is `P.size = fr.Bytes`) -/
theorem C14mimcgen_stateLen_is_frBytes :
    MimcAll.stateLen.all (fun e => (Gen.allFields.find? (·.name == e.1 ++ "_fr")).map (fun fc => (fc.bytes : Int)) == some e.2) = true := by
  decide

/-! ### refinement: generated methods = the model's step machine

`M` is the record of translated methods of any package (`hM`: by `C14mimcgen_all` / `C14mimcgen_pkg_<pkg>`), `n` its length literal. -/

section
variable {BO : Type} (P : Params) (bo : BO) (X : Prims Nat BO) (n : Int) (M : Methods Nat BO)

/-- **one call**: every generated method commutes with the abstraction and returns exactly the model's outcome (bytes of Sum /
State, `(len, nil)` of Write, every error case), keeps the byte order object and the invariant -/
theorem C14mimcgen_step (hM : M = refMethods X n (stateMsg n)) (hok : OK P bo X) (hn : (P.size : Int) = n)
    (d : Mimc_bn254.digest Nat BO) (hbo : d.byteOrder = bo) (hlt : d.h < P.q) (op : Op) :
    abs (gstep M d op).1 = (step P (abs d) op).1 ∧ (gstep M d op).2 = (step P (abs d) op).2 ∧
    (gstep M d op).1.byteOrder = bo ∧ (gstep M d op).1.h < P.q := by
  subst hM; exact gstep_refines P bo X n _ hok hn d hbo hlt op

/-- **every history**: outputs and final state of the generated code along any op list equal the model's -/
theorem C14mimcgen_run (hM : M = refMethods X n (stateMsg n)) (hok : OK P bo X) (hn : (P.size : Int) = n)
    (d : Mimc_bn254.digest Nat BO) (hbo : d.byteOrder = bo) (hlt : d.h < P.q) (ops : List Op) :
    abs (grun M d ops).1 = (run P (abs d) ops).1 ∧ (grun M d ops).2 = (run P (abs d) ops).2 ∧
    (grun M d ops).1.byteOrder = bo ∧ (grun M d ops).1.h < P.q := by
  subst hM; exact grun_refines P bo X n _ hok hn ops d hbo hlt

/-- a refused call (Write / SetState returning an error) returns the hasher it was given — all fields, not only up to `abs` -/
theorem C14mimcgen_error_leaves_state (hM : M = refMethods X n (stateMsg n)) (hok : OK P bo X) (hn : (P.size : Int) = n)
    (d : Mimc_bn254.digest Nat BO) (hbo : d.byteOrder = bo) (op : Op) (he : (gstep M d op).2 = .err) :
    (gstep M d op).1 = d := by
  subst hM; exact gstep_error_unchanged P bo X n _ hok hn d hbo op he

/-- `Reset` gives the model's initial state whatever the hasher held -/
theorem C14mimcgen_reset_init (hM : M = refMethods X n (stateMsg n)) (hok : OK P bo X) (d : Mimc_bn254.digest Nat BO) :
    abs (gstep M d .reset).1 = init ∧ (gstep M d .reset).1.byteOrder = d.byteOrder := by
  subst hM
  obtain ⟨h1, h2⟩ := reset_refines (frHash := X.frHash) (frBE := X.frBE) hok d
  refine ⟨?_, h2⟩
  have e : (gstep (refMethods X n (stateMsg n)) d .reset).1 =
      Mimc_bn254.Reset X.fZero X.fAdd X.encrypt X.boElement X.fBytes X.fSet X.frHash X.frBE X.BS d := rfl
  rw [e, h1]; simp [step, init]

-- non-vacuity: the hypotheses `OK`, `hn`, `hbo`, `hlt` hold for the canonical parameters of a toy instance with BlockSize 32 …
example : OK { q := 101, d := 5, size := 32, consts := [3] } () (canonical { q := 101, d := 5, size := 32, consts := [3] }) ∧
    (((32 : Nat) : Int) = 32) ∧ ((⟨0, [], ()⟩ : Mimc_bn254.digest Nat Unit).byteOrder = ()) ∧ (0 < 101) :=
  ⟨canonical_ok _ (by decide) (by decide), rfl, rfl, by decide⟩
-- … and for EVERY parameter set with positive block size and modulus (the canonical parameters read off the model)
example (P : Params) (hs : 0 < P.size) (hq : 0 < P.q) : OK P () (canonical P) := canonical_ok P hs hq
-- … with the length literals 40 and 48 of the bw6 packages
example : OK { q := 101, d := 5, size := 40, consts := [3] } () (canonical { q := 101, d := 5, size := 40, consts := [3] }) ∧
    (((40 : Nat) : Int) = 40) := ⟨canonical_ok _ (by decide) (by decide), rfl⟩
example : OK { q := 101, d := 5, size := 48, consts := [3] } () (canonical { q := 101, d := 5, size := 48, consts := [3] }) ∧
    (((48 : Nat) : Int) = 48) := ⟨canonical_ok _ (by decide) (by decide), rfl⟩

/-! ### the streaming theorems of Props/C14, for the generated code -/

/-- a fresh hasher: what `new(digest)` followed by `Reset` holds -/
def Fresh (d : Mimc_bn254.digest Nat BO) : Prop := d.h = 0 ∧ d.data = [] ∧ d.byteOrder = bo

theorem fresh_abs {bo : BO} {d : Mimc_bn254.digest Nat BO} (h : Fresh bo d) : abs d = init := by
  obtain ⟨h1, h2, _⟩ := h; simp [abs, init, h1, h2]

/-- **digest after any history** of calls on a fresh generated hasher = Miyaguchi–Preneel (mathematical definition) from the
chaining value of the last Reset / SetState over the concatenation of the blocks successfully written since, appended to `b` -/
theorem C14mimcgen_sum_after_history (hM : M = refMethods X n (stateMsg n)) (hok : OK P bo X) (hn : (P.size : Int) = n)
    (d : Mimc_bn254.digest Nat BO) (hd : Fresh bo d) (ops : List Op) (b : Bytes) :
    (gstep M (grun M d ops).1 (.sum b)).2 =
      .bytes (b ++ encBE P.size (mpSpec P (ghostRun P {} ops).h0 (ghostRun P {} ops).blocks)) := by
  have hlt : d.h < P.q := by rw [hd.1]; exact hok.q_pos
  obtain ⟨r1, _, r3, r4⟩ := C14mimcgen_run P bo X n M hM hok hn d hd.2.2 hlt ops
  obtain ⟨_, s2, _, _⟩ := C14mimcgen_step P bo X n M hM hok hn _ r3 r4 (.sum b)
  rw [s2, r1, fresh_abs hd]
  exact C14_mimc_sum_after_history P hok.q_pos ops b

example : Fresh () (⟨0, [], ()⟩ : Mimc_bn254.digest Nat Unit) := ⟨rfl, rfl, rfl⟩

/-- `State()` returns what `Sum(nil)` returns and leaves the same hasher -/
theorem C14mimcgen_state_eq_sum (hM : M = refMethods X n (stateMsg n)) (hok : OK P bo X) (d : Mimc_bn254.digest Nat BO) :
    gstep M d .state = gstep M d (.sum []) := by
  subst hM
  simp [gstep, refMethods, Mimc_bn254.State, sum_eq hok]

/-- `Sum` is idempotent: a second `Sum` returns the same digest and leaves the same hasher -/
theorem C14mimcgen_sum_idempotent (hM : M = refMethods X n (stateMsg n)) (hok : OK P bo X) (d : Mimc_bn254.digest Nat BO)
    (b b' : Bytes) :
    gstep M (gstep M d (.sum b)).1 (.sum b') =
      ((gstep M d (.sum b)).1, .bytes (b' ++ X.fBytes (gstep M d (.sum b)).1.h)) := by
  subst hM
  simp [gstep, refMethods, sum_eq hok, mp]

/-- a Write that is not (after the left-padding of short writes) a sequence of canonical blocks is refused and returns the hasher
it was given -/
theorem C14mimcgen_write_refused (hM : M = refMethods X n (stateMsg n)) (hok : OK P bo X) (hn : (P.size : Int) = n)
    (d : Mimc_bn254.digest Nat BO) (hbo : d.byteOrder = bo) (hlt : d.h < P.q) (p : Bytes)
    (h : ¬ ∃ xs : List Nat, (∀ x ∈ xs, x < P.q) ∧ pad P p = (xs.map (encBlock P)).flatten) :
    gstep M d (.write p) = (d, .err) := by
  obtain ⟨_, s2, _, _⟩ := C14mimcgen_step P bo X n M hM hok hn d hbo hlt (.write p)
  have he : (gstep M d (.write p)).2 = .err := by rw [s2, C14_mimc_write_refused P (abs d) p h]
  exact Prod.ext (C14mimcgen_error_leaves_state P bo X n M hM hok hn d hbo _ he) he

/-- `Write p` of a concatenation of encodings of canonical elements appends exactly these elements and returns `(len, nil)` -/
theorem C14mimcgen_write_ok (hM : M = refMethods X n (stateMsg n)) (hok : OK P bo X) (hq : P.q ≤ 256 ^ P.size)
    (d : Mimc_bn254.digest Nat BO) (hbo : d.byteOrder = bo) (p : Bytes) (xs : List Nat)
    (hx : ∀ x ∈ xs, x < P.q) (hp : pad P p = (xs.map (encBlock P)).flatten) :
    gstep M d (.write p) = ({ d with data := d.data ++ xs }, .wrote (pad P p).length) := by
  subst hM
  have hd : decodeBlocks P (pad P p) = some xs := by rw [hp]; exact decodeBlocks_encode P xs hok.size_pos hq hx
  have := (write_eq (frHash := X.frHash) (frBE := X.frBE) hok d hbo p).1 xs hd
  simp [gstep, refMethods, this, outW]

example : (∀ x ∈ [7, 100], x < 101) ∧
    pad { q := 101, d := 5, size := 1, consts := [3] } [7, 100] =
      (([7, 100] : List Nat).map (encBlock { q := 101, d := 5, size := 1, consts := [3] })).flatten := by
  refine ⟨by decide, by decide⟩

/-- **short writes are left-padded**: `Write p` with `0 < len p < BlockSize` behaves exactly as `Write` of `p` left-padded with
zero bytes to one block -/
theorem C14mimcgen_short_write_padded (hM : M = refMethods X n (stateMsg n)) (hok : OK P bo X)
    (d : Mimc_bn254.digest Nat BO) (hbo : d.byteOrder = bo) (p : Bytes) (h0 : 0 < p.length) (h1 : p.length < P.size) :
    gstep M d (.write p) = gstep M d (.write (List.replicate (P.size - p.length) 0 ++ p)) := by
  subst hM
  have e1 : pad P p = List.replicate (P.size - p.length) 0 ++ p := by simp [pad, h0, h1]
  have e2 : pad P (List.replicate (P.size - p.length) 0 ++ p) = List.replicate (P.size - p.length) 0 ++ p := by
    have : ¬ (0 < (List.replicate (P.size - p.length) (0 : UInt8) ++ p).length ∧
        (List.replicate (P.size - p.length) (0 : UInt8) ++ p).length < P.size) := by simp; omega
    simp only [pad, this, if_false]
  obtain ⟨a1, a2⟩ := write_eq (frHash := X.frHash) (frBE := X.frBE) hok d hbo p
  obtain ⟨b1, b2⟩ := write_eq (frHash := X.frHash) (frBE := X.frBE) hok d hbo (List.replicate (P.size - p.length) 0 ++ p)
  rw [e1] at a1 a2; rw [e2] at b1 b2
  cases hd : decodeBlocks P (List.replicate (P.size - p.length) 0 ++ p) with
  | some xs => simp [gstep, refMethods, a1 xs hd, b1 xs hd, outW]
  | none =>
    obtain ⟨e, he, hw⟩ := a2 hd
    obtain ⟨e', he', hw'⟩ := b2 hd
    simp [gstep, refMethods, hw, hw', outW, he, he']

/-- `State` ∘ `SetState` is the identity up to `abs`: restoring a saved state into ANY generated hasher `d2` with the same byte order
reproduces the saved hasher -/
theorem C14mimcgen_state_setState (hM : M = refMethods X n (stateMsg n)) (hok : OK P bo X) (hn : (P.size : Int) = n)
    (hq : P.q ≤ 256 ^ P.size) (d d2 : Mimc_bn254.digest Nat BO) (hbo : d.byteOrder = bo) (hbo2 : d2.byteOrder = bo)
    (hlt : d.h < P.q) (hlt2 : d2.h < P.q) :
    ∃ st, (gstep M d .state).2 = .bytes st ∧ (gstep M d2 (.setState st)).2 = .unit ∧
      abs (gstep M d2 (.setState st)).1 = abs (gstep M d .state).1 := by
  obtain ⟨st, m1, m2⟩ := C14_mimc_state_setState P (abs d) (abs d2) hlt hq
  obtain ⟨s1, s2, _, _⟩ := C14mimcgen_step P bo X n M hM hok hn d hbo hlt .state
  obtain ⟨t1, t2, _, _⟩ := C14mimcgen_step P bo X n M hM hok hn d2 hbo2 hlt2 (.setState st)
  refine ⟨st, by rw [s2, m1], by rw [t2, m2], by rw [t1, s1, m2]⟩

/-- **splitting a write at a block boundary is unobservable** on the generated hasher -/
theorem C14mimcgen_split_write (hM : M = refMethods X n (stateMsg n)) (hok : OK P bo X) (hn : (P.size : Int) = n)
    (d : Mimc_bn254.digest Nat BO) (hbo : d.byteOrder = bo) (hlt : d.h < P.q) (a b : Bytes)
    (ha : P.size ∣ a.length) (hb : P.size ∣ b.length) (hne : (gstep M d (.write (a ++ b))).2 ≠ .err) :
    abs (gstep M (gstep M d (.write a)).1 (.write b)).1 = abs (gstep M d (.write (a ++ b))).1 ∧
    (gstep M d (.write a)).2 ≠ .err ∧ (gstep M (gstep M d (.write a)).1 (.write b)).2 ≠ .err := by
  obtain ⟨s1, s2, _, _⟩ := C14mimcgen_step P bo X n M hM hok hn d hbo hlt (.write (a ++ b))
  obtain ⟨a1, a2, a3, a4⟩ := C14mimcgen_step P bo X n M hM hok hn d hbo hlt (.write a)
  obtain ⟨b1, b2, _, _⟩ := C14mimcgen_step P bo X n M hM hok hn _ a3 a4 (.write b)
  rw [s2] at hne
  obtain ⟨m1, m2, m3⟩ := (C14_mimc_split_write P (abs d) a b ha hb).2 hne
  rw [b1, b2, a1, a2, s1]
  exact ⟨m1, m2, m3⟩

/-! ### package-level `Sum` and `WriteString` -/

/-- `mimc.Sum(msg)`: the Miyaguchi–Preneel digest (mathematical definition, from chaining value 0) of the blocks of `msg`
(left-padded when short), or `(nil, err)` when `msg` is not a sequence of canonical blocks; the hypothesis is on `fr.BigEndian` -/
theorem C14mimcgen_pkgSum (hM : M = refMethods X n (stateMsg n)) (hok : OK P X.frBE X) (msg : Bytes) :
    (∀ xs, decodeBlocks P (pad P msg) = some xs → M.pkgSum msg = (encBE P.size (mpSpec P 0 xs), Err.nil)) ∧
    (decodeBlocks P (pad P msg) = none → (M.pkgSum msg).1 = [] ∧ (M.pkgSum msg).2 ≠ Err.nil) := by
  subst hM
  obtain ⟨h1, h2⟩ := pkgSum_eq (frHash := X.frHash) hok msg
  exact ⟨fun xs hx => by rw [← mp_eq_spec]; exact h1 xs hx, h2⟩

/-- `mimc.Sum(msg)` = `Write(msg)` then `Sum(nil)` on a fresh big-endian hasher -/
theorem C14mimcgen_pkgSum_is_write_sum (hM : M = refMethods X n (stateMsg n)) (hok : OK P X.frBE X) (hn : (P.size : Int) = n)
    (d : Mimc_bn254.digest Nat BO) (hd : Fresh X.frBE d) (msg : Bytes) (hne : (gstep M d (.write msg)).2 ≠ .err) :
    (gstep M (gstep M d (.write msg)).1 (.sum [])).2 = .bytes (M.pkgSum msg).1 := by
  have hlt : d.h < P.q := by rw [hd.1]; exact hok.q_pos
  obtain ⟨a1, a2, a3, a4⟩ := C14mimcgen_step P X.frBE X n M hM hok hn d hd.2.2 hlt (.write msg)
  obtain ⟨_, b2, _, _⟩ := C14mimcgen_step P X.frBE X n M hM hok hn _ a3 a4 (.sum [])
  rw [a2] at hne
  rw [b2, a1, fresh_abs hd]
  cases hx : decodeBlocks P (pad P msg) with
  | none => simp [step, hx] at hne
  | some xs =>
    rw [((C14mimcgen_pkgSum P X n M hM hok msg).1 xs hx), ← mp_eq_spec]
    simp [step, hx, flush, init]

/-- the domain separation tag `[]byte("string:")` of `WriteString` -/
def dstString : Bytes := [115, 116, 114, 105, 110, 103, 58]
example : dstString.map (fun b => Char.ofNat b.toNat) = "string:".toList := by decide

/-- `WriteString(raw)` appends the first element of `fr.Hash(raw, "string:", 1)` to the buffered blocks; when the hash fails it
returns that error and the hasher it was given -/
theorem C14mimcgen_writeString (hM : M = refMethods X n (stateMsg n)) (d : Mimc_bn254.digest Nat BO) (raw : Bytes) :
    ((X.frHash raw dstString 1).2 = Err.nil →
      M.writeString d raw = ({ d with data := d.data ++ [index (X.frHash raw dstString 1).1 0] }, Err.nil)) ∧
    ((X.frHash raw dstString 1).2 ≠ Err.nil →
      M.writeString d raw = (d, (X.frHash raw dstString 1).2)) := by
  subst hM
  unfold dstString
  exact writeString_eq (fZero := X.fZero) (fAdd := X.fAdd) (encrypt := X.encrypt) (boElement := X.boElement) (fBytes := X.fBytes)
    (fSet := X.fSet) (frBE := X.frBE) (BS := X.BS) d raw

/-- hence `WriteString(raw)` acts on the state as `Write` of the canonical encoding of that element -/
theorem C14mimcgen_writeString_as_write (hM : M = refMethods X n (stateMsg n)) (hok : OK P bo X) (hq : P.q ≤ 256 ^ P.size)
    (d : Mimc_bn254.digest Nat BO) (hbo : d.byteOrder = bo) (raw : Bytes) (x : Nat) (hx : x < P.q)
    (hh : X.frHash raw dstString 1 = ([x], Err.nil)) :
    (M.writeString d raw).1 = (gstep M d (.write (encBlock P x))).1 := by
  have hw := (C14mimcgen_writeString X n M hM d raw).1 (by rw [hh])
  have hp : pad P (encBlock P x) = (([x] : List Nat).map (encBlock P)).flatten := by
    simp [pad, encBlock_length]
  rw [hw, C14mimcgen_write_ok P bo X n M hM hok hq d hbo (encBlock P x) [x] (by simpa using hx) hp, hh]
  simp [index]

end

/-- **all 8 packages, every history**: for each package's translated methods (with its own length literal = its block size) the
outputs and the abstracted final state along any op list are the model's -/
theorem C14mimcgen_all_run {BO : Type} (P : Params) (bo : BO) (X : Prims Nat BO) (hok : OK P bo X)
    (d : Mimc_bn254.digest Nat BO) (hbo : d.byteOrder = bo) (hlt : d.h < P.q) (ops : List Op) :
    ∀ e ∈ allMethods X, (P.size : Int) = e.2.1 →
      abs (grun e.2.2 d ops).1 = (run P (abs d) ops).1 ∧ (grun e.2.2 d ops).2 = (run P (abs d) ops).2 := by
  intro e he hn
  obtain ⟨h1, h2, _⟩ := C14mimcgen_run P bo X e.2.1 e.2.2 (C14mimcgen_all X e he) hok hn d hbo hlt ops
  exact ⟨h1, h2⟩

-- non-vacuity of `hq : P.q ≤ 256 ^ P.size` (used by _write_ok, _state_setState, _writeString_as_write) together with `OK`
example : OK { q := 101, d := 5, size := 32, consts := [3] } () (canonical { q := 101, d := 5, size := 32, consts := [3] }) ∧
    (101 ≤ 256 ^ 32) := ⟨canonical_ok _ (by decide) (by decide), by decide⟩

/-! ### abstract element type

The same refinement for the generated code over ANY element type F, read through `val : F → ℕ` (hypothesis `ParamsOKF`:
`val` of every element is reduced, `Add` / `encrypt` / the codecs commute with `val`). -/

section
variable {F BO : Type} [Inhabited F] (P : Params) (val : F → Nat) (bo : BO) (X : Prims F BO) (n : Int) (M : Methods F BO)

/-- abstraction function for the generated hasher over F -/
def absF (d : Mimc_bn254.digest F BO) : Digest := abs (dmap val d)

/-- **one call**, abstract element type -/
theorem C14mimcgen_stepF (hM : M = refMethods X n (stateMsg n)) (hok : ParamsOKF P val bo X) (hn : (P.size : Int) = n)
    (d : Mimc_bn254.digest F BO) (hbo : d.byteOrder = bo) (op : Op) :
    absF val (gstep M d op).1 = (step P (absF val d) op).1 ∧ (gstep M d op).2 = (step P (absF val d) op).2 ∧
    (gstep M d op).1.byteOrder = bo := by
  subst hM
  have hsim := sim_gstep (natPrims_sim hok) n (stateMsg n) d op
  obtain ⟨h1, h2, h3, _⟩ := gstep_refines P bo (natPrims P val X) n (stateMsg n) (natPrims_ok hok) hn (dmap val d) hbo
    (hok.val_lt d.h) op
  rw [hsim] at h1 h2 h3
  exact ⟨h1, h2, h3⟩

/-- **every history**, abstract element type -/
theorem C14mimcgen_runF (hM : M = refMethods X n (stateMsg n)) (hok : ParamsOKF P val bo X) (hn : (P.size : Int) = n)
    (d : Mimc_bn254.digest F BO) (hbo : d.byteOrder = bo) (ops : List Op) :
    absF val (grun M d ops).1 = (run P (absF val d) ops).1 ∧ (grun M d ops).2 = (run P (absF val d) ops).2 ∧
    (grun M d ops).1.byteOrder = bo := by
  subst hM
  have hsim := sim_grun (natPrims_sim hok) n (stateMsg n) ops d
  obtain ⟨h1, h2, h3, _⟩ := grun_refines P bo (natPrims P val X) n (stateMsg n) (natPrims_ok hok) hn ops (dmap val d) hbo
    (hok.val_lt d.h)
  rw [hsim] at h1 h2 h3
  exact ⟨h1, h2, h3⟩

/-- **digest after any history**, abstract element type: Miyaguchi–Preneel (mathematical definition) over the concatenation of the
blocks successfully written since the last Reset / SetState, appended to `b` -/
theorem C14mimcgen_sum_after_historyF (hM : M = refMethods X n (stateMsg n)) (hok : ParamsOKF P val bo X) (hn : (P.size : Int) = n)
    (d : Mimc_bn254.digest F BO) (hd : d.h = X.fZero ∧ d.data = [] ∧ d.byteOrder = bo) (ops : List Op) (b : Bytes) :
    (gstep M (grun M d ops).1 (.sum b)).2 =
      .bytes (b ++ encBE P.size (mpSpec P (ghostRun P {} ops).h0 (ghostRun P {} ops).blocks)) := by
  obtain ⟨r1, _, r3⟩ := C14mimcgen_runF P val bo X n M hM hok hn d hd.2.2 ops
  obtain ⟨_, s2, _⟩ := C14mimcgen_stepF P val bo X n M hM hok hn _ r3 (.sum b)
  have h0 : absF val d = init := by
    obtain ⟨h1, h2, _⟩ := hd
    simp [absF, abs, dmap, init, h1, h2, hok.zero]
  rw [s2, r1, h0]
  exact C14_mimc_sum_after_history P hok.q_pos ops b

/-- package-level `Sum`, abstract element type -/
theorem C14mimcgen_pkgSumF (hM : M = refMethods X n (stateMsg n)) (hok : ParamsOKF P val X.frBE X) (msg : Bytes) :
    (∀ xs, decodeBlocks P (pad P msg) = some xs → M.pkgSum msg = (encBE P.size (mpSpec P 0 xs), Err.nil)) ∧
    (decodeBlocks P (pad P msg) = none → (M.pkgSum msg).1 = [] ∧ (M.pkgSum msg).2 ≠ Err.nil) := by
  subst hM
  have hsim := sim_pkgSum (natPrims_sim hok) msg
  have := C14mimcgen_pkgSum P (natPrims P val X) n (refMethods (natPrims P val X) n (stateMsg n)) rfl (natPrims_ok hok) msg
  simp only [refMethods] at this ⊢
  rw [hsim] at this
  exact this

-- non-vacuity of `ParamsOKF`: the model's parameters over F = `Fin 101` (toy instance q = 101, BlockSize 32), `val` = `Fin.val`
/-- parameters over `Fin 101` read off the model -/
def finPrims : Prims (Fin 101) Unit where
  fZero := 0
  fAdd a b := a + b
  encrypt k m := ⟨MiMC.encrypt { q := 101, d := 5, size := 32, consts := [3] } k.val m.val % 101, Nat.mod_lt _ (by decide)⟩
  boElement _ blk := if h : decBlock { q := 101, d := 5, size := 32, consts := [3] } blk < 101 then (⟨_, h⟩, Err.nil)
    else (0, Err.sentinel "invalid fr.Element encoding")
  fBytes x := encBE 32 x.val
  fSet z buf := if h : buf.length = 32 ∧ beToNat buf < 101 then (⟨beToNat buf, h.2⟩, Err.nil)
    else (z, Err.sentinel "invalid fr.Element encoding")
  frHash _ _ _ := ([0], Err.nil)
  frBE := ()
  BS := 32

example : ParamsOKF { q := 101, d := 5, size := 32, consts := [3] } (fun x : Fin 101 => x.val) () finPrims where
  size_pos := by decide
  q_pos := by decide
  blockSize := rfl
  dflt := rfl
  val_lt x := x.isLt
  zero := rfl
  add a b := by simp [finPrims, Fin.val_add]
  enc k m := by
    simp only [finPrims]
    exact Nat.mod_eq_of_lt (Nat.mod_lt _ (by decide))
  dec_ok blk _ hv := by simp [finPrims, hv]
  dec_err blk _ hv := by simp [finPrims, hv]
  bytes _ := rfl
  set_ok z buf hl hv := by
    have : buf.length = 32 ∧ beToNat buf < 101 := ⟨hl, hv⟩
    simp [finPrims, this]
  set_err z buf hc := by
    have : ¬ (buf.length = 32 ∧ beToNat buf < 101) := hc
    simp [finPrims, this]

end

end GV.MiMC.DigestGen
