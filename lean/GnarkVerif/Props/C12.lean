import GnarkVerif.Model.Sig
import GnarkVerif.Model.SigParams
import GnarkVerif.Proofs.SigAlg
import GnarkVerif.Proofs.Sig
import GnarkVerif.Proofs.SigCodec
import GnarkVerif.Proofs.SigHonest
import Mathlib.Data.ZMod.Basic
/-
C12 — EdDSA and ECDSA: every honest signature verifies, nothing else does.

Part A  group-level completeness over an arbitrary `AddCommGroup` (all scalars, all nonces, all hash values).
Part A′ the same on the executable model, given that the model's addition is a group law (hypothesis, C02/C03).
Part B  decision theorems on the executable model `Model/Sig.lean` (the one the driver runs against the Go code):
        `verify = true ↔ range checks ∧ parse ∧ on-curve ∧ textbook equation`; rejection corollaries.
Part C  byte encodings: round trips and consumed lengths; point reconstruction of the public-key recovery.
Part D  the 18 parameter sets: base point on the curve and of the stated order, sizes consistent (`decide +kernel`).
Part E  the signer (`sign`, ops EDSGN / ECSGN): the scalar components are written in exactly sizeFr big-endian bytes and read
        back, for every value incl. those with leading zero bytes; whatever `Sign` returns is accepted by `Verify` (byte level);
        buffers longer than the object: only the first `size of the object` bytes count, uncompressed key forms are refused.
-/
namespace GV.C12
open GV GV.Sig GV.SigAlg

/-! ## Part A — completeness algebra -/

section Algebra
variable {G : Type*} [AddCommGroup G]

/-- EdDSA completeness: with `A = [a]B`, `R = [r]B`, `s ≡ r + H·a (mod ℓ)` and `[ℓ]B = 0`, the cofactored equation
    `[c·s]B = [c]([H]A + R)` holds – for ALL integers `a r H`, every cofactor `c`. -/
theorem C12_eddsa_complete (B : G) (ℓ : ℕ) (hℓ : (ℓ : ℤ) • B = 0) (c : ℕ) (a r H s : ℤ)
    (hs : s ≡ r + H * a [ZMOD ℓ]) :
    ((c : ℤ) * s) • B = (c : ℤ) • (H • (a • B) + r • B) := by
  rw [mul_smul, zsmul_congr B ℓ hℓ hs, add_smul, mul_smul, add_comm]

/-- the same with the representative the Go code computes: `s = (H·a + r) mod ℓ` -/
theorem C12_eddsa_complete_mod (B : G) (ℓ : ℕ) (hℓ : (ℓ : ℤ) • B = 0) (c : ℕ) (a r H : ℤ) :
    ((c : ℤ) * ((H * a + r) % (ℓ : ℤ))) • B = (c : ℤ) • (H • (a • B) + r • B) := by
  apply C12_eddsa_complete B ℓ hℓ
  have : (H * a + r) % (ℓ : ℤ) ≡ H * a + r [ZMOD ℓ] := Int.mod_modEq _ _
  rw [add_comm r]; exact this

example : ((8 : ℤ) * ((5 * 3 + 4) % (7 : ℤ))) • (1 : ZMod 7) = (8 : ℤ) • ((5 : ℤ) • ((3 : ℤ) • (1 : ZMod 7)) + (4 : ℤ) • 1) :=
  C12_eddsa_complete_mod (1 : ZMod 7) 7 (by decide) 8 3 4 5

/-- ECDSA completeness: `Q = [d]G`, `s ≡ k⁻¹(e + r·d) (mod n)`, `[n]G = 0`, `s` invertible  ⟹
    `[e·s⁻¹]G + [r·s⁻¹]Q = [k]G` (whose abscissa mod n is `r` by the signer's choice of `r`) – every key `d`, nonce `k`,
    digest `e`. -/
theorem C12_ecdsa_complete (Gen : G) (n : ℕ) (hn : (n : ℤ) • Gen = 0) (d k e r s kinv sinv : ℤ)
    (hk : kinv * k ≡ 1 [ZMOD n]) (hs : s ≡ kinv * (e + r * d) [ZMOD n]) (hsi : sinv * s ≡ 1 [ZMOD n]) :
    (e * sinv) • Gen + (r * sinv) • (d • Gen) = k • Gen := by
  rw [← mul_smul, ← add_smul]
  exact zsmul_congr Gen n hn (ecdsa_scalar n d k e r s kinv sinv hk hs hsi)

/-- with `n` prime the inverses exist as soon as `k` and `s` are non-zero modulo `n` (the signer loops until `s ≠ 0`) -/
theorem C12_ecdsa_complete_prime (Gen : G) (n : ℕ) (hp : n.Prime) (hn : (n : ℤ) • Gen = 0) (d k e r s : ℤ)
    (hk0 : ¬ (n : ℤ) ∣ k) (hs0 : ¬ (n : ℤ) ∣ s)
    (hs : ∀ kinv : ℤ, kinv * k ≡ 1 [ZMOD n] → s ≡ kinv * (e + r * d) [ZMOD n]) :
    ∃ sinv : ℤ, sinv * s ≡ 1 [ZMOD n] ∧ (e * sinv) • Gen + (r * sinv) • (d • Gen) = k • Gen := by
  obtain ⟨kinv, hk⟩ := exists_inv_of_prime n hp k hk0
  obtain ⟨sinv, hsi⟩ := exists_inv_of_prime n hp s hs0
  exact ⟨sinv, hsi, C12_ecdsa_complete Gen n hn d k e r s kinv sinv hk (hs kinv hk) hsi⟩

example : ((3 : ℤ) * 3) • (1 : ZMod 7) + ((2 : ℤ) * 3) • ((4 : ℤ) • (1 : ZMod 7)) = (5 : ℤ) • (1 : ZMod 7) :=
  -- n = 7, d = 4, k = 5 (k⁻¹ = 3), e = 3, r = 2: s = 3·(3 + 8) mod 7 = 5, s⁻¹ = 3
  C12_ecdsa_complete (1 : ZMod 7) 7 (by decide) 4 5 3 2 5 3 3 (by decide) (by decide) (by decide)

/-- public-key recovery: from `R = [k]G` and an honest `(r, s)`, `[-e·r⁻¹]G + [s·r⁻¹]R = [d]G` -/
theorem C12_ecdsa_recover (Gen : G) (n : ℕ) (hn : (n : ℤ) • Gen = 0) (d k e r s kinv rinv : ℤ)
    (hk : kinv * k ≡ 1 [ZMOD n]) (hs : s ≡ kinv * (e + r * d) [ZMOD n]) (hri : rinv * r ≡ 1 [ZMOD n]) :
    (-(e * rinv)) • Gen + (s * rinv) • (k • Gen) = d • Gen := by
  rw [← mul_smul, ← add_smul]
  apply zsmul_congr Gen n hn
  have h1 : k * s ≡ e + r * d [ZMOD n] := by
    have := hs.mul_left k
    have h2 : k * (kinv * (e + r * d)) = (kinv * k) * (e + r * d) := by ring
    rw [h2] at this
    have h3 := hk.mul_right (e + r * d)
    rw [one_mul] at h3
    exact this.trans h3
  have h2 : -(e * rinv) + s * rinv * k = rinv * (k * s - e) := by ring
  rw [h2]
  have h3 : k * s - e ≡ r * d [ZMOD n] := by
    have := h1.sub_right e
    simpa using this
  have h4 := h3.mul_left rinv
  have h5 : rinv * (r * d) = (rinv * r) * d := by ring
  rw [h5] at h4
  have h6 := hri.mul_right d
  rw [one_mul] at h6
  exact h4.trans h6

/-- malleability is what the equation dictates: replacing `s⁻¹` by `-s⁻¹` (i.e. `s` by `n − s`) negates the
    verification point, whose abscissa is unchanged -/
theorem C12_ecdsa_malleable (Gen Q : G) (e r sinv : ℤ) :
    (e * (-sinv)) • Gen + (r * (-sinv)) • Q = -((e * sinv) • Gen + (r * sinv) • Q) := by
  simp only [mul_neg, neg_smul, neg_add]

end Algebra

/-! ## Part A′ — honest signatures pass the executable model (given the group law)

The model's point addition is assumed to be (the image under an injective `φ` of) a commutative group law on a set `S` of
points closed under it – the statement C02/C03 establish for the curve formulas. Double-and-add is then proved to be scalar
multiplication for every scalar (`teSmulNat_hom`, `smul_ofNat_hom`), and the two completeness theorems of Part A transfer
to the model's verification procedures. -/

section Honest
variable {G : Type*} [AddCommGroup G]

/-- EdDSA: for every secret scalar `a`, nonce `r` and hash value `h`, the triple `A = [a]B`, `R = [r]B`,
    `S = (r + h·a) mod ℓ` satisfies the model's equation -/
theorem C12_eddsa_honest_verifies (P : EdParams) (φ : Nat × Nat → G) (S : Nat × Nat → Prop)
    (hS : ∀ X Y, S X → S Y → S (P.add X Y)) (hadd : ∀ X Y, S X → S Y → φ (P.add X Y) = φ X + φ Y)
    (h0S : S (0, (fpE P.q).one)) (h0 : φ (0, (fpE P.q).one) = 0)
    (hinj : ∀ X Y, S X → S Y → φ X = φ Y → X = Y) (hB : S P.B) (hℓ : P.order • φ P.B = 0) (a r h : Nat) :
    P.equation P.smul (P.smul a P.B) (P.smul r P.B) ((r + h * a) % P.order) h = true :=
  eddsa_honest_equation P φ S hS hadd h0S h0 hinj hB hℓ a r h

/-- ECDSA: for every key `d`, nonce `k ≢ 0`, digest `e`: `r = x([k]G) mod n`, `s = k⁻¹(e + r·d) mod n` (both non-zero, the
    signer retries otherwise) pass the model's integer-level verifier under the key `[d]G` -/
theorem C12_ecdsa_honest_verifies (P : ECParams) (φ : Alg.Pt Nat → G) (S : Alg.Pt Nat → Prop)
    (hS : ∀ X Y, S X → S Y → S (P.E.add X Y)) (hadd : ∀ X Y, S X → S Y → φ (P.E.add X Y) = φ X + φ Y)
    (h0S : S none) (h0 : φ none = 0)
    (hinj : ∀ X Y, S X → S Y → φ X = φ Y → X = Y) (hG : S P.G) (hn : P.n • φ P.G = 0) (hp : P.n.Prime)
    (d k e : Nat) (hk : k % P.n ≠ 0)
    (hr : 0 < P.xModN (P.smul (Int.ofNat k) P.G))
    (hs : 0 < invE P.n k * (e + P.xModN (P.smul (Int.ofNat k) P.G) * d) % P.n) :
    P.verifyCore P.smul (P.smul (Int.ofNat d) P.G) e (P.xModN (P.smul (Int.ofNat k) P.G))
      (invE P.n k * (e + P.xModN (P.smul (Int.ofNat k) P.G) * d) % P.n) = true :=
  ecdsa_honest_core P φ S hS hadd h0S h0 hinj hG hn hp d k e hk hr hs

/-- non-vacuity: the order-4 subgroup {(0,1), (1,0), (0,12), (12,0)} of the toy curve x² + y² = 1 + 2x²y² over 𝔽₁₃,
    mapped onto ℤ/4 -/
def toyEd : EdParams := { name := "toy", q := 13, a := 1, d := 2, bx := 1, by_ := 0, order := 4, cofactor := 1, size := 1 }
def toyPts : List (Nat × Nat) := [(0, 1), (1, 0), (0, 12), (12, 0)]
def toyPhi (X : Nat × Nat) : ZMod 4 := if X = (1, 0) then 1 else if X = (0, 12) then 2 else if X = (12, 0) then 3 else 0

example : toyEd.equation toyEd.smul (toyEd.smul 3 toyEd.B) (toyEd.smul 2 toyEd.B) ((2 + 5 * 3) % 4) 5 = true :=
  C12_eddsa_honest_verifies toyEd toyPhi (· ∈ toyPts)
    (fun X Y hX hY => (by decide : ∀ X ∈ toyPts, ∀ Y ∈ toyPts, toyEd.add X Y ∈ toyPts) X hX Y hY)
    (fun X Y hX hY => (by decide : ∀ X ∈ toyPts, ∀ Y ∈ toyPts, toyPhi (toyEd.add X Y) = toyPhi X + toyPhi Y) X hX Y hY)
    (by decide) (by decide)
    (fun X Y hX hY => (by decide : ∀ X ∈ toyPts, ∀ Y ∈ toyPts, toyPhi X = toyPhi Y → X = Y) X hX Y hY)
    (by decide) (by decide) 3 2 5

/-- non-vacuity: the curve y² = x³ + 7 over 𝔽₁₃ has 7 points, all multiples of G = (7, 5); `φ` is the discrete logarithm -/
def toyEc : ECParams :=
  { name := "toy", p := 13, a := 0, b := 7, gx := 7, gy := 5, n := 7, frBytes := 1, frBits := 3, fpBytes := 1,
    maskKind := 0, infZeroCheck := true, mimcQ := 13, mimcSize := 1 }
def toyEcPts : List (Alg.Pt Nat) := (List.range 7).map (fun k => toyEc.smul (Int.ofNat k) toyEc.G)
def toyEcPhi (X : Alg.Pt Nat) : ZMod 7 :=
  (((List.range 7).find? (fun k => toyEc.smul (Int.ofNat k) toyEc.G == X)).getD 0 : Nat)

example : toyEc.verifyCore toyEc.smul (toyEc.smul (Int.ofNat 3) toyEc.G) 5
    (toyEc.xModN (toyEc.smul (Int.ofNat 2) toyEc.G))
    (invE toyEc.n 2 * (5 + toyEc.xModN (toyEc.smul (Int.ofNat 2) toyEc.G) * 3) % toyEc.n) = true :=
  C12_ecdsa_honest_verifies toyEc toyEcPhi (· ∈ toyEcPts)
    (fun X Y hX hY => (by decide : ∀ X ∈ toyEcPts, ∀ Y ∈ toyEcPts, toyEc.E.add X Y ∈ toyEcPts) X hX Y hY)
    (fun X Y hX hY => (by decide : ∀ X ∈ toyEcPts, ∀ Y ∈ toyEcPts,
        toyEcPhi (toyEc.E.add X Y) = toyEcPhi X + toyEcPhi Y) X hX Y hY)
    (by decide) (by decide)
    (fun X Y hX hY => (by decide : ∀ X ∈ toyEcPts, ∀ Y ∈ toyEcPts, toyEcPhi X = toyEcPhi Y → X = Y) X hX Y hY)
    (by decide) (by decide) (by norm_num [toyEc]) 3 2 5 (by decide) (by decide) (by decide)

end Honest

/-! ## Part B — decision theorems on the executable model

`sm` is the scalar multiplication handed to the model (the theorems hold for every `sm`; read them with the textbook
affine `P.smul`, the driver runs them with `P.smulFast`). -/

section ECDSA
variable (P : ECParams) (sm : Int → Alg.Pt Nat → Alg.Pt Nat)

/-- the integer-level verifier is exactly: both components in `[1, n−1]` and the textbook equation
    `x([e·s⁻¹]G + [r·s⁻¹]Q) mod n = r` -/
theorem C12_ecdsa_core_iff (Q : Alg.Pt Nat) (e r s : Nat) :
    P.verifyCore sm Q e r s = true ↔
      0 < r ∧ r < P.n ∧ 0 < s ∧ s < P.n ∧ P.xModN (P.verifyPoint sm Q e r s) = r := by
  simp [ECParams.verifyCore, ECParams.inRange, ECParams.equation, and_assoc]

/-- the point of the equation, spelled out with the textbook affine group law -/
theorem C12_ecdsa_verifyPoint_textbook (Q : Alg.Pt Nat) (e r s : Nat) :
    P.verifyPoint P.smul Q e r s =
      P.E.add (P.E.smul (Int.ofNat (e * invE P.n s % P.n)) P.G) (P.E.smul (Int.ofNat (r * invE P.n s % P.n)) Q) := rfl

/-- `Signature.SetBytes` succeeds exactly on `2·frBytes` bytes whose halves are in `[1, n−1]`; it consumes all of them -/
theorem C12_ecdsa_sigParse_iff (buf : Bytes) (k r s : Nat) :
    P.sigParse buf = .ok (k, r, s) ↔
      buf.length = 2 * P.frBytes ∧ k = 2 * P.frBytes ∧ r = beToNat (buf.take P.frBytes) ∧
      s = beToNat (buf.drop P.frBytes) ∧ 0 < r ∧ r < P.n ∧ 0 < s ∧ s < P.n := by
  unfold ECParams.sigParse
  simp only []
  split_ifs with h1 h2 h3 h4 h5
  all_goals simp_all
  all_goals omega

/-- `Verify` returns `true` exactly when the signature parses, the message maps to an integer `e` and the integer-level
    verifier accepts -/
theorem C12_ecdsa_verify_iff (H : Option HashFn) (Q : Alg.Pt Nat) (sig msg : Bytes) :
    P.verify sm H Q sig msg = .ok true ↔
      ∃ r s e, P.sigParse sig = .ok (2 * P.frBytes, r, s) ∧ P.msgInt H msg = .ok e ∧ P.verifyCore sm Q e r s = true := by
  unfold ECParams.verify
  cases hsp : P.sigParse sig with
  | error err => simp
  | ok v =>
    obtain ⟨k, r, s⟩ := v
    have hk : k = 2 * P.frBytes := ((C12_ecdsa_sigParse_iff P sig k r s).1 hsp).2.1
    subst hk
    cases hm : P.msgInt H msg with
    | error err => simp
    | ok e => simp

/-- decision theorem, fully unfolded: accepted ⇔ length, ranges and the textbook equation on the parsed integers -/
theorem C12_ecdsa_verify_decides (H : Option HashFn) (Q : Alg.Pt Nat) (sig msg : Bytes) :
    P.verify sm H Q sig msg = .ok true ↔
      sig.length = 2 * P.frBytes ∧ 0 < beToNat (sig.take P.frBytes) ∧ beToNat (sig.take P.frBytes) < P.n ∧
      0 < beToNat (sig.drop P.frBytes) ∧ beToNat (sig.drop P.frBytes) < P.n ∧
      ∃ e, P.msgInt H msg = .ok e ∧
        P.xModN (P.verifyPoint sm Q e (beToNat (sig.take P.frBytes)) (beToNat (sig.drop P.frBytes)))
          = beToNat (sig.take P.frBytes) := by
  rw [C12_ecdsa_verify_iff]
  constructor
  · rintro ⟨r, s, e, hp, hm, hc⟩
    obtain ⟨hl, -, hr, hs, h1, h2, h3, h4⟩ := (C12_ecdsa_sigParse_iff P sig _ r s).1 hp
    subst hr; subst hs
    exact ⟨hl, h1, h2, h3, h4, e, hm, ((C12_ecdsa_core_iff P sm Q e _ _).1 hc).2.2.2.2⟩
  · rintro ⟨hl, h1, h2, h3, h4, e, hm, he⟩
    exact ⟨_, _, e, (C12_ecdsa_sigParse_iff P sig _ _ _).2 ⟨hl, rfl, rfl, rfl, h1, h2, h3, h4⟩, hm,
      (C12_ecdsa_core_iff P sm Q e _ _).2 ⟨h1, h2, h3, h4, he⟩⟩

/-- rejection corollaries: zero or out-of-range components never verify -/
theorem C12_ecdsa_reject_r_zero (Q : Alg.Pt Nat) (e s : Nat) : P.verifyCore sm Q e 0 s = false := by
  simp [ECParams.verifyCore, ECParams.inRange]
theorem C12_ecdsa_reject_s_zero (Q : Alg.Pt Nat) (e r : Nat) : P.verifyCore sm Q e r 0 = false := by
  simp [ECParams.verifyCore, ECParams.inRange]
theorem C12_ecdsa_reject_r_ge (Q : Alg.Pt Nat) (e r s : Nat) (h : P.n ≤ r) : P.verifyCore sm Q e r s = false := by
  have : ¬ r < P.n := by omega
  simp [ECParams.verifyCore, ECParams.inRange, this]
theorem C12_ecdsa_reject_s_ge (Q : Alg.Pt Nat) (e r s : Nat) (h : P.n ≤ s) : P.verifyCore sm Q e r s = false := by
  have : ¬ s < P.n := by omega
  simp [ECParams.verifyCore, ECParams.inRange, this]

/-- the byte-level errors: wrong length, zero component, component ≥ n (in this order) -/
theorem C12_ecdsa_sig_errors (buf : Bytes) :
    (buf.length ≠ 2 * P.frBytes → P.sigParse buf = .error .wrongSize) ∧
    (buf.length = 2 * P.frBytes → beToNat (buf.take P.frBytes) = 0 → P.sigParse buf = .error .zero) ∧
    (buf.length = 2 * P.frBytes → P.n ≤ beToNat (buf.take P.frBytes) → 0 < P.n → P.sigParse buf = .error .rBig) ∧
    (buf.length = 2 * P.frBytes → 0 < beToNat (buf.take P.frBytes) → beToNat (buf.take P.frBytes) < P.n →
        beToNat (buf.drop P.frBytes) = 0 → P.sigParse buf = .error .zero) ∧
    (buf.length = 2 * P.frBytes → 0 < beToNat (buf.take P.frBytes) → beToNat (buf.take P.frBytes) < P.n →
        P.n ≤ beToNat (buf.drop P.frBytes) → P.sigParse buf = .error .sBig) := by
  unfold ECParams.sigParse
  refine ⟨?_, ?_, ?_, ?_, ?_⟩
  all_goals intros
  all_goals simp only []
  all_goals split_ifs
  all_goals first | rfl | omega

/-- a verification error or `false` for everything that is not a parsed, in-range, equation-satisfying triple: `Verify`
    never answers `true` by accident (totality of the decision) -/
theorem C12_ecdsa_verify_total (H : Option HashFn) (Q : Alg.Pt Nat) (sig msg : Bytes) :
    (∃ b, P.verify sm H Q sig msg = .ok b) ∨ (∃ e, P.verify sm H Q sig msg = .error e) := by
  cases h : P.verify sm H Q sig msg with
  | ok b => exact Or.inl ⟨b, rfl⟩
  | error e => exact Or.inr ⟨e, rfl⟩

/-- key validation of `Verify` (`ECParams.verifyPK`): it answers `true` exactly when the key is a finite point ON THE CURVE and the
    signature verifies under it — the exported field `A` may hold any pair of coordinates -/
theorem C12_ecdsa_verifyPK_iff (H : Option HashFn) (Q : Alg.Pt Nat) (sig msg : Bytes) :
    P.verifyPK sm H Q sig msg = .ok true ↔ Q.isNone = false ∧ P.E.onCurve Q = true ∧ P.verify sm H Q sig msg = .ok true := by
  unfold ECParams.verifyPK
  by_cases h1 : Q.isNone = true
  · simp [h1]
  · by_cases h2 : P.E.onCurve Q = true
    · simp [h1, h2]
    · simp [h1, h2]

/-- an off-curve key is refused whatever the signature and the message are (no arithmetic happens on another curve) -/
theorem C12_ecdsa_offcurve_key_rejected (H : Option HashFn) (x y : Nat) (sig msg : Bytes) (h : P.E.onCurve (some (x, y)) = false) :
    P.verifyPK sm H (some (x, y)) sig msg = .error .notOnCurve := by
  simp [ECParams.verifyPK, h]

/-- the point at infinity is refused as a key -/
theorem C12_ecdsa_infinity_key_rejected (H : Option HashFn) (sig msg : Bytes) :
    P.verifyPK sm H none sig msg = .error .pkInfinity := rfl

end ECDSA

section EdDSA
variable (P : EdParams) (sm : Nat → Nat × Nat → Nat × Nat) (sq : Nat → Option Nat)

theorem liftH_ok_iff (r : Except HErr Bytes) (b : Bytes) : liftH r = .ok b ↔ r = .ok b := by
  cases r with
  | ok v => simp [liftH]
  | error e => cases e <;> simp [liftH]

/-- `Signature.SetBytes` succeeds exactly when: 64 (2·size) bytes, `0 < R.y < q` as encoded (canonical ordinate), `0 < S < ℓ`,
    and the decompressed `R` is on the curve; it consumes all the bytes -/
theorem C12_eddsa_sigParse_iff (buf : Bytes) (k : Nat) (R : Nat × Nat) (s : Nat) :
    P.sigParse sq buf = .ok (k, R, s) ↔
      buf.length = 2 * P.size ∧ k = 2 * P.size ∧ 0 < P.yRaw buf ∧ P.yRaw buf < P.q ∧
      s = beToNat ((buf.drop P.size).take P.size) ∧ 0 < s ∧ s < P.order ∧
      R = P.decompress sq buf ∧ P.onCurve R = true ∧ P.hasX sq buf = true := by
  constructor
  · intro h
    unfold EdParams.sigParse at h
    simp only [] at h
    split_ifs at h with h1 h2 h3 h4 h5 h7 h6
    simp only [Except.ok.injEq, Prod.mk.injEq] at h
    obtain ⟨rfl, rfl, rfl⟩ := h
    refine ⟨by omega, rfl, by omega, by omega, rfl, by omega, by omega, rfl, by simpa using h6, by simpa using h7⟩
  · rintro ⟨hl, rfl, hy0, hyq, rfl, hs0, hsl, rfl, hon, hx⟩
    unfold EdParams.sigParse
    simp only []
    rw [if_neg (by omega), if_neg (by omega), if_neg (by omega), if_neg (by omega), if_neg (by omega),
      if_neg (by simpa using hx), if_neg (by simpa using hon)]

/-- `hFunc == nil` is refused -/
theorem C12_eddsa_nil_hash (A : Nat × Nat) (sig msg : Bytes) :
    P.verify sm sq none A sig msg = .error .hashNeeded := rfl

/-- decision theorem: `Verify` answers `true` exactly when `A` is on the curve, the signature parses to `(R, S)` (which
    includes `0 < R.y < q`, `0 < S < ℓ`, `R` on the curve), the hash of `R.x‖R.y‖A.x‖A.y‖M` is `hb`, and the cofactored
    equation `[c]([S]B) = [c]([H]A + R)` holds (both sides being on the curve) -/
theorem C12_eddsa_verify_iff (h : HashFn) (A : Nat × Nat) (sig msg : Bytes) :
    P.verify sm sq (some h) A sig msg = .ok true ↔
      P.onCurve A = true ∧ ∃ R s hb, P.sigParse sq sig = .ok (2 * P.size, R, s) ∧
        h (P.challengeWrites R A msg) = .ok hb ∧
        P.onCurve (P.lhs sm s) = true ∧ P.onCurve (P.rhs sm A R (beToNat hb)) = true ∧
        P.lhs sm s = P.rhs sm A R (beToNat hb) := by
  unfold EdParams.verify
  by_cases hA : P.onCurve A = true
  · simp only [hA, not_true_eq_false, if_false, true_and]
    cases hsp : P.sigParse sq sig with
    | error err => simp
    | ok v =>
      obtain ⟨k, R, s⟩ := v
      have hk : k = 2 * P.size := ((C12_eddsa_sigParse_iff P sq sig k R s).1 hsp).2.1
      subst hk
      dsimp only
      cases hh : h (P.challengeWrites R A msg) with
      | error e => cases e <;> simp [liftH, hh]
      | ok hb =>
        by_cases h1 : P.onCurve (P.lhs sm s) = true
        · by_cases h2 : P.onCurve (P.rhs sm A R (beToNat hb)) = true
          · simp [liftH, hh, h1, h2, EdParams.equation]
          · simp [liftH, hh, h1, h2]
        · simp [liftH, h1]
  · simp [hA]

/-- rejection corollaries at the byte level -/
theorem C12_eddsa_sig_errors (buf : Bytes) :
    (buf.length ≠ 2 * P.size → P.sigParse sq buf = .error .wrongSize) ∧
    (buf.length = 2 * P.size → P.yRaw buf = 0 → P.sigParse sq buf = .error .zero) ∧
    (buf.length = 2 * P.size → P.q ≤ P.yRaw buf → 0 < P.q → P.sigParse sq buf = .error .rBig) ∧
    (buf.length = 2 * P.size → 0 < P.yRaw buf → P.yRaw buf < P.q →
        beToNat ((buf.drop P.size).take P.size) = 0 → P.sigParse sq buf = .error .zero) ∧
    (buf.length = 2 * P.size → 0 < P.yRaw buf → P.yRaw buf < P.q →
        P.order ≤ beToNat ((buf.drop P.size).take P.size) → 0 < P.order → P.sigParse sq buf = .error .sBig) ∧
    (buf.length = 2 * P.size → 0 < P.yRaw buf → P.yRaw buf < P.q →
        0 < beToNat ((buf.drop P.size).take P.size) → beToNat ((buf.drop P.size).take P.size) < P.order →
        P.hasX sq buf = true → P.onCurve (P.decompress sq buf) = false → P.sigParse sq buf = .error .notOnCurve) := by
  unfold EdParams.sigParse
  refine ⟨?_, ?_, ?_, ?_, ?_, ?_⟩
  all_goals intros
  all_goals simp only []
  all_goals split_ifs
  all_goals first | rfl | omega | simp_all

/-- an off-curve public key is refused before anything else is looked at -/
theorem C12_eddsa_reject_offcurve_key (h : HashFn) (A : Nat × Nat) (sig msg : Bytes) (hA : P.onCurve A = false) :
    P.verify sm sq (some h) A sig msg = .error .notOnCurve := by
  simp [EdParams.verify, hA]

/-- any signature error is the verification's answer -/
theorem C12_eddsa_reject_bad_sig (h : HashFn) (A : Nat × Nat) (sig msg : Bytes) (e : Err) (hA : P.onCurve A = true)
    (hs : P.sigParse sq sig = .error e) : P.verify sm sq (some h) A sig msg = .error e := by
  simp [EdParams.verify, hA, hs]

end EdDSA

/-! ## Part C — byte encodings: round trips and consumed lengths -/

section Bytes

/-- ECDSA: `SetBytes (Bytes (r, s)) = (r, s)` and reports `2·frBytes` consumed bytes, for all in-range components -/
theorem C12_ecdsa_sig_roundtrip (P : ECParams) (r s : Nat) (hr0 : 0 < r) (hr : r < P.n) (hs0 : 0 < s) (hs : s < P.n)
    (hn : P.n ≤ 256 ^ P.frBytes) : P.sigParse (P.sigBytes r s) = .ok (2 * P.frBytes, r, s) := by
  rw [C12_ecdsa_sigParse_iff]
  have hl : (natToBE P.frBytes r).length = P.frBytes := natToBE_length _ _
  have ht : (P.sigBytes r s).take P.frBytes = natToBE P.frBytes r := by
    unfold ECParams.sigBytes; rw [List.take_left' hl]
  have hd : (P.sigBytes r s).drop P.frBytes = natToBE P.frBytes s := by
    unfold ECParams.sigBytes; rw [List.drop_left' hl]
  refine ⟨?_, rfl, ?_, ?_, hr0, hr, hs0, hs⟩
  · simp [ECParams.sigBytes, natToBE_length]; omega
  · rw [ht, beToNat_natToBE_of_lt _ _ (by omega)]
  · rw [hd, beToNat_natToBE_of_lt _ _ (by omega)]

/-- ECDSA: whatever `SetBytes` accepts re-encodes to the very same bytes, and the consumed length is the buffer length -/
theorem C12_ecdsa_sig_roundtrip' (P : ECParams) (buf : Bytes) (k r s : Nat) (h : P.sigParse buf = .ok (k, r, s)) :
    P.sigBytes r s = buf ∧ k = buf.length := by
  obtain ⟨hl, rfl, rfl, rfl, -⟩ := (C12_ecdsa_sigParse_iff P buf k r s).1 h
  refine ⟨?_, hl.symm⟩
  unfold ECParams.sigBytes
  rw [natToBE_beToNat_of_length _ _ (by simp; omega), natToBE_beToNat_of_length _ _ (by simp; omega),
    List.take_append_drop]

example : (SigParams.ec_secp256k1).sigParse ((SigParams.ec_secp256k1).sigBytes 5 7) = .ok (64, 5, 7) :=
  C12_ecdsa_sig_roundtrip _ 5 7 (by decide) (by decide +kernel) (by decide) (by decide +kernel) (by decide +kernel)

/-- the abscissa `computeX` returns is reduced -/
theorem computeX_lt (P : EdParams) (sq : Nat → Option Nat) (hq : 0 < P.q) (hsq : ∀ u r, sq u = some r → r < P.q) (y : Nat) :
    P.computeX sq y < P.q := by
  unfold EdParams.computeX
  split
  · next r hr => exact hsq _ _ hr
  · next => exact Nat.mod_lt _ hq

/-- negation flips "lexicographically largest" on non-zero reduced elements of an odd field -/
theorem lex_neg (q x : Nat) (hq : q % 2 = 1) (hx : x < q) (hx0 : x ≠ 0) :
    lexLargest q ((fpE q).neg x) = !lexLargest q x := by
  have h1 : (fpE q).neg x = (q - x % q) % q := rfl
  rw [h1, Nat.mod_eq_of_lt hx, Nat.mod_eq_of_lt (by omega)]
  unfold lexLargest
  by_cases h : x > (q - 1) / 2
  · simp [h]; omega
  · simp [h]; omega

/-- `PointAffine.Bytes ∘ PointAffine.SetBytes` is the identity on canonical encodings (ordinate below `q`; when
    `x = 0` the sign bit must be clear) -/
theorem compress_decompress (P : EdParams) (sq : Nat → Option Nat) (buf : Bytes) (hq : P.q % 2 = 1) (hsz : 0 < P.size)
    (hsq : ∀ u r, sq u = some r → r < P.q) (hlen : P.size ≤ buf.length) (hy : P.yRaw buf < P.q)
    (hcanon : ¬ (P.signBit buf = true ∧ (P.decompress sq buf).1 = 0)) :
    P.compress (P.decompress sq buf) = buf.take P.size := by
  have hq0 : 0 < P.q := by omega
  have hx0lt := computeX_lt P sq hq0 hsq (P.yRaw buf % P.q)
  -- the sign bit of the re-encoding is the sign bit of the input
  have hsign : lexLargest P.q (P.decompress sq buf).1 = P.signBit buf := by
    unfold EdParams.decompress at hcanon ⊢
    simp only [] at hcanon ⊢
    set x0 := P.computeX sq (P.yRaw buf % P.q) with hx0
    by_cases hb : P.signBit buf = lexLargest P.q x0
    · simp [hb]
    · have hne : (P.signBit buf != lexLargest P.q x0) = true := by simpa using hb
      rw [if_pos hne] at hcanon ⊢
      by_cases hz : x0 = 0
      · exfalso
        have hl0 : lexLargest P.q x0 = false := by simp [lexLargest, hz]
        have hs1 : P.signBit buf = true := by
          cases hsb : P.signBit buf with
          | true => rfl
          | false => exact absurd (hsb.trans hl0.symm) hb
        apply hcanon
        refine ⟨hs1, ?_⟩
        have : (fpE P.q).neg x0 = (P.q - x0 % P.q) % P.q := rfl
        rw [this, hz]; simp
      · rw [lex_neg P.q x0 hq hx0lt hz]
        cases hsb : P.signBit buf <;> cases hl : lexLargest P.q x0 <;> simp_all
  unfold EdParams.compress
  rw [hsign]
  have hy2 : (P.decompress sq buf).2 = P.yRaw buf := by
    unfold EdParams.decompress; simp only []; exact Nat.mod_eq_of_lt hy
  rw [hy2]
  unfold EdParams.yRaw EdParams.signBit
  set w := (buf.take P.size).reverse with hw
  have hwl : w.length = P.size := by simp [hw]; omega
  have hv : beToNat w < 2 * 2 ^ (8 * P.size - 1) := by
    have := beToNat_lt w
    rw [hwl, pow256_eq _ hsz] at this; exact this
  rw [split_top _ _ (by positivity) hv, natToBE_beToNat_of_length w _ hwl, hw, List.reverse_reverse]

/-- EdDSA: whatever `Signature.SetBytes` accepts re-encodes to the very same bytes and the consumed length is the buffer
    length – except for the one non-canonical form the Go code lets through (`R.x = 0` with the sign bit set) -/
theorem C12_eddsa_sig_roundtrip' (P : EdParams) (sq : Nat → Option Nat) (buf : Bytes) (k : Nat) (R : Nat × Nat) (s : Nat)
    (hq : P.q % 2 = 1) (hsz : 0 < P.size) (hsq : ∀ u r, sq u = some r → r < P.q)
    (h : P.sigParse sq buf = .ok (k, R, s)) (hcanon : ¬ (P.signBit buf = true ∧ R.1 = 0)) :
    P.sigBytes R s = buf ∧ k = buf.length := by
  obtain ⟨hl, rfl, -, hyq, rfl, -, -, rfl, -, -⟩ := (C12_eddsa_sigParse_iff P sq buf k R s).1 h
  refine ⟨?_, hl.symm⟩
  unfold EdParams.sigBytes
  rw [compress_decompress P sq buf hq hsz hsq (by omega) hyq hcanon,
    natToBE_beToNat_of_length _ _ (by simp; omega)]
  have : (buf.drop P.size).take P.size = buf.drop P.size := List.take_of_length_le (by simp; omega)
  rw [this, List.take_append_drop]

/-- EdDSA public keys: same statement for `PublicKey.SetBytes` / `Bytes` on canonical encodings; consumed = `size` -/
theorem C12_eddsa_pk_roundtrip' (P : EdParams) (sq : Nat → Option Nat) (buf : Bytes) (k : Nat) (A : Nat × Nat)
    (hq : P.q % 2 = 1) (hsz : 0 < P.size) (hsq : ∀ u r, sq u = some r → r < P.q)
    (h : P.pkParse sq buf = .ok (k, A)) (hy : P.yRaw buf < P.q) (hcanon : ¬ (P.signBit buf = true ∧ A.1 = 0)) :
    P.compress A = buf.take P.size ∧ k = P.size := by
  unfold EdParams.pkParse at h
  simp only [] at h
  split_ifs at h with h1 h3 h2
  simp only [Except.ok.injEq, Prod.mk.injEq] at h
  obtain ⟨rfl, rfl⟩ := h
  exact ⟨compress_decompress P sq buf hq hsz hsq (by omega) hy hcanon, rfl⟩

/-- EdDSA points: `SetBytes (Bytes X) = X` for every reduced point of the curve, any trailing bytes -/
theorem C12_eddsa_point_roundtrip (P : EdParams) (sq : Nat → Option Nat) (X : Nat × Nat) (rest : Bytes)
    (hp : P.q.Prime) (hodd : P.q % 2 = 1) (hsz : 0 < P.size) (hfit : P.q ≤ 2 ^ (8 * P.size - 1))
    (hs : SqrtSpec sq P.q) (had : (P.a : ZMod P.q) ≠ (P.d : ZMod P.q))
    (hx : X.1 < P.q) (hy : X.2 < P.q) (hon : P.onCurve X = true) :
    P.decompress sq (P.compress X ++ rest) = X :=
  (decompress_compress P sq X rest hp hodd hsz hfit hs had hx hy hon).1

/-- the library's own encodings pass the "an abscissa exists" test of `PointAffine.SetBytes` -/
theorem hasX_compress (P : EdParams) (sq : Nat → Option Nat) (X : Nat × Nat) (rest : Bytes)
    (hp : P.q.Prime) (hodd : P.q % 2 = 1) (hsz : 0 < P.size) (hfit : P.q ≤ 2 ^ (8 * P.size - 1))
    (hs : SqrtSpec sq P.q) (had : (P.a : ZMod P.q) ≠ (P.d : ZMod P.q))
    (hx : X.1 < P.q) (hy : X.2 < P.q) (hon : P.onCurve X = true) :
    P.hasX sq (P.compress X ++ rest) = true := by
  obtain ⟨-, hyr, -⟩ := decompress_compress P sq X rest hp hodd hsz hfit hs had hx hy hon
  obtain ⟨x, y⟩ := X
  simp only at hx hy hyr
  have hr := ratio_eq_sq P hp x y hon had
  obtain ⟨r, hsr⟩ := hs.complete (P.ratio y) x hr.symm
  unfold EdParams.hasX
  rw [hyr, Nat.mod_eq_of_lt hy, hsr]; rfl

theorem compress_length (P : EdParams) (X : Nat × Nat) : (P.compress X).length = P.size := by
  unfold EdParams.compress; simp [natToBE_length]

/-- EdDSA signatures: `SetBytes (Bytes (R, S)) = (R, S)` with `2·size` consumed bytes, for every `R` on the curve with a
    non-zero ordinate and every `0 < S < ℓ` -/
theorem C12_eddsa_sig_roundtrip (P : EdParams) (sq : Nat → Option Nat) (R : Nat × Nat) (s : Nat)
    (hp : P.q.Prime) (hodd : P.q % 2 = 1) (hsz : 0 < P.size) (hfit : P.q ≤ 2 ^ (8 * P.size - 1))
    (hs : SqrtSpec sq P.q) (had : (P.a : ZMod P.q) ≠ (P.d : ZMod P.q))
    (hx : R.1 < P.q) (hy0 : 0 < R.2) (hy : R.2 < P.q) (hon : P.onCurve R = true)
    (hs0 : 0 < s) (hsl : s < P.order) (hord : P.order ≤ 256 ^ P.size) :
    P.sigParse sq (P.sigBytes R s) = .ok (2 * P.size, R, s) := by
  obtain ⟨hdec, hyr, -⟩ := decompress_compress P sq R (natToBE P.size s) hp hodd hsz hfit hs had hx hy hon
  have hcl := compress_length P R
  have e : P.sigBytes R s = P.compress R ++ natToBE P.size s := rfl
  rw [C12_eddsa_sigParse_iff, e]
  refine ⟨by rw [List.length_append, hcl, natToBE_length]; omega, rfl, by rw [hyr]; exact hy0, by rw [hyr]; exact hy,
    ?_, hs0, hsl, hdec.symm, hon, hasX_compress P sq R (natToBE P.size s) hp hodd hsz hfit hs had hx hy hon⟩
  rw [List.drop_left' hcl, List.take_of_length_le (by rw [natToBE_length]),
    beToNat_natToBE_of_lt _ _ (by omega)]

/-- EdDSA public keys: `SetBytes (Bytes A ‖ rest) = A`, `size` bytes consumed -/
theorem C12_eddsa_pk_roundtrip (P : EdParams) (sq : Nat → Option Nat) (A : Nat × Nat) (rest : Bytes)
    (hp : P.q.Prime) (hodd : P.q % 2 = 1) (hsz : 0 < P.size) (hfit : P.q ≤ 2 ^ (8 * P.size - 1))
    (hs : SqrtSpec sq P.q) (had : (P.a : ZMod P.q) ≠ (P.d : ZMod P.q))
    (hx : A.1 < P.q) (hy : A.2 < P.q) (hon : P.onCurve A = true) :
    P.pkParse sq (P.compress A ++ rest) = .ok (P.size, A) := by
  obtain ⟨hdec, -, -⟩ := decompress_compress P sq A rest hp hodd hsz hfit hs had hx hy hon
  have hcl := compress_length P A
  unfold EdParams.pkParse
  simp only []
  rw [if_neg (by rw [List.length_append, hcl]; omega),
    if_neg (by simp [hasX_compress P sq A rest hp hodd hsz hfit hs had hx hy hon]), hdec, if_neg (by simp [hon])]

/-- EdDSA private keys: public key ‖ scalar ‖ 32 bytes of nonce seed; `2·size + 32` bytes consumed (the Go code reports
    `3·size`, a finding on bw6-633 / bw6-761) -/
theorem C12_eddsa_sk_roundtrip (P : EdParams) (sq : Nat → Option Nat) (A : Nat × Nat) (sc : Nat) (seed rest : Bytes)
    (hp : P.q.Prime) (hodd : P.q % 2 = 1) (hsz : 0 < P.size) (hfit : P.q ≤ 2 ^ (8 * P.size - 1))
    (hs : SqrtSpec sq P.q) (had : (P.a : ZMod P.q) ≠ (P.d : ZMod P.q))
    (hx : A.1 < P.q) (hy : A.2 < P.q) (hon : P.onCurve A = true)
    (hsc : sc < 256 ^ P.size) (hseed : seed.length = 32) :
    P.skParse sq (P.compress A ++ natToBE P.size sc ++ seed ++ rest) = .ok (2 * P.size + 32, A, sc, seed) := by
  have hcl := compress_length P A
  have hdec := (decompress_compress P sq A (natToBE P.size sc ++ (seed ++ rest)) hp hodd hsz hfit hs had hx hy hon).1
  have e : P.compress A ++ natToBE P.size sc ++ seed ++ rest
      = P.compress A ++ (natToBE P.size sc ++ (seed ++ rest)) := by simp [List.append_assoc]
  rw [e]
  unfold EdParams.skParse EdParams.skSize
  simp only []
  rw [if_neg (by simp only [List.length_append, hcl, natToBE_length, hseed]; omega),
    if_neg (by simp [hasX_compress P sq A (natToBE P.size sc ++ (seed ++ rest)) hp hodd hsz hfit hs had hx hy hon]), hdec,
    if_neg (by simp [hon])]
  have h1 : (P.compress A ++ (natToBE P.size sc ++ (seed ++ rest))).drop P.size = natToBE P.size sc ++ (seed ++ rest) :=
    List.drop_left' hcl
  have h2 : (P.compress A ++ (natToBE P.size sc ++ (seed ++ rest))).drop (2 * P.size) = seed ++ rest := by
    rw [two_mul, ← List.drop_drop, h1, List.drop_left' (natToBE_length _ _)]
  rw [h1, h2, List.take_left' (natToBE_length _ _), List.take_left' hseed, beToNat_natToBE_of_lt _ _ hsc]

/-- non-vacuity on a toy curve  x² + y² = 1 + 2x²y²  over 𝔽₁₃ (one byte per element), with the real square-root routine -/
theorem toy_sqrt : SqrtSpec (sqrtF 13) 13 := sqrtF_spec Field.p13 Field.ok13 (by decide)

example : toyEd.decompress (sqrtF 13) (toyEd.compress (1, 0) ++ [7]) = (1, 0) :=
  C12_eddsa_point_roundtrip toyEd (sqrtF 13) (1, 0) [7] (by norm_num [toyEd]) (by decide) (by decide) (by decide)
    toy_sqrt (by decide) (by decide) (by decide) (by decide)

example : toyEd.sigParse (sqrtF 13) (toyEd.sigBytes (0, 12) 3) = .ok (2, (0, 12), 3) :=
  C12_eddsa_sig_roundtrip toyEd (sqrtF 13) (0, 12) 3 (by norm_num [toyEd]) (by decide) (by decide) (by decide)
    toy_sqrt (by decide) (by decide) (by decide) (by decide) (by decide) (by decide) (by decide) (by decide)

/-- ECDSA public keys, raw encoding `X ‖ Y` (secp256k1): round trip with `2·fpBytes` consumed bytes -/
theorem C12_ecdsa_pk_roundtrip_raw (P : ECParams) (sm : Int → Alg.Pt Nat → Alg.Pt Nat) (x y : Nat) (rest : Bytes)
    (hk : P.maskKind = 0) (hx : x < P.p) (hy : y < P.p) (hp : P.p ≤ 256 ^ P.fpBytes)
    (hsub : P.inSubgroup sm (ECParams.ofAffine x y) = true) (hne : ECParams.ofAffine x y ≠ none) :
    P.pubParse sm (natToBE P.fpBytes x ++ natToBE P.fpBytes y ++ rest) = .ok (ECParams.ofAffine x y) ∧
      P.pkConsumed sm (natToBE P.fpBytes x ++ natToBE P.fpBytes y ++ rest) = .ok (2 * P.fpBytes) := by
  have hl : (natToBE P.fpBytes x ++ natToBE P.fpBytes y).length = 2 * P.fpBytes := by
    simp [natToBE_length]; omega
  have hps : P.pkSize = 2 * P.fpBytes := by simp [ECParams.pkSize, hk]
  have hmain : P.pkParse sm (natToBE P.fpBytes x ++ natToBE P.fpBytes y ++ rest) = .ok (ECParams.ofAffine x y) := by
    unfold ECParams.pkParse
    simp only []
    rw [if_neg (by rw [List.length_append, hl, hps]; omega), if_pos hk, hps, List.take_left' hl,
      List.take_left' (natToBE_length _ _), List.drop_left' (natToBE_length _ _),
      beToNat_natToBE_of_lt _ _ (by omega), beToNat_natToBE_of_lt _ _ (by omega),
      if_neg (by omega), if_neg (by omega), if_pos hsub]
  have hpub : P.pubParse sm (natToBE P.fpBytes x ++ natToBE P.fpBytes y ++ rest) = .ok (ECParams.ofAffine x y) := by
    unfold ECParams.pubParse; rw [hmain]
    cases h : ECParams.ofAffine x y with
    | none => exact absurd h hne
    | some q => rfl
  exact ⟨hpub, by unfold ECParams.pkConsumed; rw [hpub, hps]; rfl⟩

/-- `PublicKey.SetBytes` never returns the point at infinity: whatever the point decoder makes of the bytes, a decoded
    infinity is refused (key validation; with Q = O every (r, s) with r = x([m/s]G) would verify) -/
theorem C12_ecdsa_pk_never_infinity (P : ECParams) (sm : Int → Alg.Pt Nat → Alg.Pt Nat) (buf : Bytes) :
    P.pubParse sm buf ≠ .ok none ∧ (P.pkParse sm buf = .ok none → P.pubParse sm buf = .error .pkInfinity) := by
  unfold ECParams.pubParse
  constructor
  · cases h : P.pkParse sm buf with
    | error e => simp
    | ok Q => cases Q <;> simp
  · intro h; rw [h]

/-- what `recoverP` returns: abscissa `r + (v>>1 & 1)·n` reduced mod p (the overflow bit), ordinate the square root of the
    curve equation with the parity of `v & 1` -/
theorem C12_ecdsa_recoverP_iff (P : ECParams) (v : Nat) (r : Int) (Q : Alg.Pt Nat) :
    P.recoverP v r = .ok Q ↔
      0 < r ∧ r < (P.n : Int) ∧
      ∃ y0, sqrtF P.p ((fpE P.p).add ((fpE P.p).add (powMod (r.toNat + ((v / 2) % 2) * P.n) 3 P.p)
                ((fpE P.p).mul P.a (r.toNat + ((v / 2) % 2) * P.n))) P.b) = some y0 ∧
        Q = ECParams.ofAffine ((r.toNat + ((v / 2) % 2) * P.n) % P.p) (if y0 % 2 = v % 2 then y0 else (P.p - y0) % P.p) := by
  unfold ECParams.recoverP
  simp only [Int.ofNat_eq_natCast]
  split_ifs with h1 h2
  · simp; omega
  · simp; omega
  · split
    · next h => simp [h]
    · next y0 h =>
      simp only [h, Option.some.injEq, Except.ok.injEq]
      constructor
      · intro hq; exact ⟨by omega, by omega, y0, rfl, hq.symm⟩
      · rintro ⟨-, -, y1, rfl, hq⟩; exact hq.symm

/-- recovery reconstructs the nonce point from `(r, v)`: for every point `R = (x, y)` of the curve with `x < 2n`,
    `recoverP` applied to `r = x mod n` and `v = (x div n)·2 + (y mod 2)` – exactly what `SignForRecover` reports: the overflow
    bit `x ≥ n` and the parity of `y` – returns `R`. Together with `C12_ecdsa_recover` this is `RecoverFrom ∘ SignForRecover = pk`. -/
theorem C12_ecdsa_recoverP_honest (P : ECParams) (hp : P.p.Prime) (hodd : P.p % 2 = 1)
    (hs : SqrtSpec (sqrtF P.p) P.p) (hn0 : 0 < P.n)
    (x y : Nat) (hx : x < P.p) (hy : y < P.p) (hon : P.E.onCurve (some (x, y)) = true) (hne : ¬ (x = 0 ∧ y = 0))
    (hxn : x < 2 * P.n) (hr0 : x % P.n ≠ 0) :
    P.recoverP (2 * (x / P.n) + y % 2) (Int.ofNat (x % P.n)) = .ok (some (x, y)) := by
  rw [C12_ecdsa_recoverP_iff]
  have hp1 : 1 < P.p := hp.one_lt
  have hdiv : x / P.n < 2 := Nat.div_lt_of_lt_mul (by omega)
  have hv2 : (2 * (x / P.n) + y % 2) / 2 = x / P.n := by omega
  have hvm : (2 * (x / P.n) + y % 2) % 2 = y % 2 := by omega
  have htn : (Int.ofNat (x % P.n)).toNat = x % P.n := rfl
  have hxx : (Int.ofNat (x % P.n)).toNat + ((2 * (x / P.n) + y % 2) / 2 % 2) * P.n = x := by
    rw [hv2, Nat.mod_eq_of_lt hdiv, htn]; exact Nat.mod_add_div' x P.n
  refine ⟨by simp only [Int.ofNat_eq_natCast]; exact_mod_cast Nat.pos_of_ne_zero hr0,
    by simp only [Int.ofNat_eq_natCast]; exact_mod_cast Nat.mod_lt x hn0, ?_⟩
  simp only [hxx, hvm, Nat.mod_eq_of_lt hx]
  -- the curve equation, as the model evaluates it
  have h3 : powMod x 3 P.p = x * (x * x % P.p) % P.p := by
    rw [Field.powMod_eq x 3 P.p hp1]
    have : x ^ 3 = x * (x * x) := by ring
    rw [this, Nat.mul_mod, Nat.mod_eq_of_lt hx]
  have hcurve : y * y % P.p
      = (fpE P.p).add ((fpE P.p).add (powMod x 3 P.p) ((fpE P.p).mul P.a x)) P.b % P.p := by
    have h := hon
    unfold Alg.Curve.onCurve at h
    simp only [] at h
    change ((y * y % P.p) % P.p == (((x * (x * x % P.p) % P.p + P.a * x % P.p) % P.p + P.b) % P.p) % P.p) = true at h
    rw [beq_iff_eq, Nat.mod_mod] at h
    rw [h, h3]
    rfl
  obtain ⟨y0, hy0⟩ := hs.complete _ y hcurve
  have hy0lt := hs.lt _ _ hy0
  have hy0s := hs.sound _ _ hy0
  refine ⟨y0, hy0, ?_⟩
  rcases sq_mod_prime P.p y0 y hp hy0lt hy (hy0s.trans hcurve.symm) with h1 | ⟨hy00, h1⟩
  · subst h1
    simp [ECParams.ofAffine, hne]
  · have hpar : ¬ (y0 % 2 = y % 2) := by omega
    rw [if_neg hpar]
    have : (P.p - y0) % P.p = y := by rw [Nat.mod_eq_of_lt (by omega)]; omega
    rw [this]
    simp [ECParams.ofAffine, hne]

end Bytes

/-! ## Part D — the 18 parameter sets -/

section Params

/-- base point on the curve and of order `ℓ` (projective evaluation of `[ℓ]B`), sizes consistent, `a ≢ d` -/
def edOK (P : EdParams) : Bool :=
  P.onCurve P.B && P.q % 2 == 1 && decide (0 < P.size) && decide (P.q ≤ 2 ^ (8 * P.size - 1)) &&
  decide (P.order ≤ 256 ^ P.size) && (P.a % P.q != P.d % P.q) && decide (P.bx < P.q) && decide (P.by_ < P.q) &&
  (match tePSmulNat (fpE P.q) P.a P.d P.order (P.bx, P.by_, 1) with
   | (x, y, z) => x == 0 && y == z && z != 0)

theorem C12_ed_params_ok : ∀ P ∈ SigParams.edCurves, edOK P = true := by decide +kernel

/-- generator on the curve and of order `n` (Jacobian evaluation of `[n]G`), sizes consistent -/
def ecOK (P : ECParams) : Bool :=
  P.E.onCurve P.G && decide (P.n ≤ 256 ^ P.frBytes) && decide (P.p ≤ 256 ^ P.fpBytes) && decide (P.gx < P.p) &&
  decide (P.gy < P.p) && decide (P.n < 2 ^ P.frBits) && decide (2 ^ (P.frBits - 1) ≤ P.n) &&
  (match ECParams.jSmulNat (fpE P.p) P.a P.n (P.gx, P.gy, 1) with
   | (_, _, z) => z == 0)

theorem C12_ec_params_ok : ∀ P ∈ SigParams.ecCurves, ecOK P = true := by decide +kernel

end Params

/-! ## Part E — the signer: what `Sign` writes, and that it verifies (byte level)

`EdParams.sign` / `ECParams.sign` are the model of `PrivateKey.Sign` with the nonce as a parameter (ops `EDSGN` / `ECSGN`
compare their output with the bytes the Go code produces). -/

section Signer

/-- the scalar encoder of both schemes: exactly `len` bytes for every value below `256^len`, whatever the number of
    leading zero bytes, and decoding gives the value back -/
theorem C12_scalar_bytes (len s : Nat) (h : s < 256 ^ len) :
    (natToBE len s).length = len ∧ beToNat (natToBE len s) = s :=
  ⟨natToBE_length _ _, beToNat_natToBE_of_lt _ _ h⟩

/-- EdDSA `Sign` writes `compress R ‖ S` with `R = [r]B`, `S = (H(R,A,M)·a + r) mod ℓ` in exactly `size` big-endian
    bytes – `2·size` bytes in all, for every `S < ℓ` (leading zero bytes included) – and the `S` read back from the bytes
    is that value -/
theorem C12_eddsa_sign_bytes (P : EdParams) (sm : Nat → Nat × Nat → Nat × Nat) (h : HashFn) (A : Nat × Nat) (a r : Nat)
    (msg sig : Bytes) (hord : P.order ≤ 256 ^ P.size) (hpos : 0 < P.order)
    (hs : P.sign sm (some h) A a r msg = .ok sig) :
    ∃ hb, h (P.challengeWrites (sm r P.B) A msg) = .ok hb ∧ P.onCurve (sm r P.B) = true ∧
      sig = P.sigBytes (sm r P.B) ((beToNat hb * a + r) % P.order) ∧
      sig.length = 2 * P.size ∧
      sig.drop P.size = natToBE P.size ((beToNat hb * a + r) % P.order) ∧
      beToNat ((sig.drop P.size).take P.size) = (beToNat hb * a + r) % P.order := by
  unfold EdParams.sign at hs
  simp only [] at hs
  split_ifs at hs with hon
  cases hh : h (P.challengeWrites (sm r P.B) A msg) with
  | error e => rw [hh] at hs; cases e <;> simp [liftH] at hs
  | ok hb =>
    rw [hh] at hs
    simp only [liftH, Except.ok.injEq] at hs
    have hlt : (beToNat hb * a + r) % P.order < 256 ^ P.size := lt_of_lt_of_le (Nat.mod_lt _ hpos) hord
    have hcl := compress_length P (sm r P.B)
    have hd : (P.sigBytes (sm r P.B) ((beToNat hb * a + r) % P.order)).drop P.size
        = natToBE P.size ((beToNat hb * a + r) % P.order) := by
      unfold EdParams.sigBytes; rw [List.drop_left' hcl]
    refine ⟨hb, rfl, by simpa using hon, hs.symm, ?_, ?_, ?_⟩
    · rw [← hs]; unfold EdParams.sigBytes; rw [List.length_append, hcl, natToBE_length]; omega
    · rw [← hs, hd]
    · rw [← hs, hd, List.take_of_length_le (by rw [natToBE_length]), beToNat_natToBE_of_lt _ _ hlt]

/-- ECDSA `Sign` writes `r ‖ s`, each in exactly `frBytes` big-endian bytes (leading zero bytes included), with
    `r = x([k]G) mod n ≠ 0`, `s = k⁻¹(e + r·d) mod n ≠ 0`; both are read back from the bytes -/
theorem C12_ecdsa_sign_bytes (P : ECParams) (sm : Int → Alg.Pt Nat → Alg.Pt Nat) (H : Option HashFn) (d k : Nat)
    (msg sig : Bytes) (hn : P.n ≤ 256 ^ P.frBytes) (hn0 : 0 < P.n)
    (hs : P.sign sm H d k msg = .ok sig) :
    ∃ e, P.msgInt H msg = .ok e ∧
      0 < P.xModN (sm (Int.ofNat k) P.G) ∧ P.xModN (sm (Int.ofNat k) P.G) < P.n ∧
      0 < invE P.n k * (e + P.xModN (sm (Int.ofNat k) P.G) * d) % P.n ∧
      sig = P.sigBytes (P.xModN (sm (Int.ofNat k) P.G)) (invE P.n k * (e + P.xModN (sm (Int.ofNat k) P.G) * d) % P.n) ∧
      sig.length = 2 * P.frBytes ∧
      beToNat (sig.take P.frBytes) = P.xModN (sm (Int.ofNat k) P.G) ∧
      beToNat (sig.drop P.frBytes) = invE P.n k * (e + P.xModN (sm (Int.ofNat k) P.G) * d) % P.n := by
  unfold ECParams.sign at hs
  cases hm : P.msgInt H msg with
  | error err => rw [hm] at hs; simp at hs
  | ok e =>
    rw [hm] at hs
    simp only [] at hs
    split_ifs at hs with hz
    simp only [Except.ok.injEq] at hs
    have hrlt : P.xModN (sm (Int.ofNat k) P.G) < P.n := by
      unfold ECParams.xModN
      split
      · exact hn0
      · exact Nat.mod_lt _ hn0
    have hslt : invE P.n k * (e + P.xModN (sm (Int.ofNat k) P.G) * d) % P.n < P.n := Nat.mod_lt _ hn0
    have hl : (natToBE P.frBytes (P.xModN (sm (Int.ofNat k) P.G))).length = P.frBytes := natToBE_length _ _
    refine ⟨e, rfl, by omega, hrlt, by omega, hs.symm, ?_, ?_, ?_⟩
    · rw [← hs]; unfold ECParams.sigBytes; rw [List.length_append, natToBE_length, natToBE_length]; omega
    · rw [← hs]; unfold ECParams.sigBytes; rw [List.take_left' hl, beToNat_natToBE_of_lt _ _ (by omega)]
    · rw [← hs]; unfold ECParams.sigBytes; rw [List.drop_left' hl, beToNat_natToBE_of_lt _ _ (by omega)]

variable {G : Type*} [AddCommGroup G]

/-- ECDSA, byte level: whatever `Sign` returns – for every key `d`, nonce `k ≢ 0`, message and hash – is accepted by
    `Verify` under the key `[d]G` (given that the model's addition is a group law on a set containing `G`, C02/C03) -/
theorem C12_ecdsa_sign_verifies (P : ECParams) (φ : Alg.Pt Nat → G) (S : Alg.Pt Nat → Prop)
    (hS : ∀ X Y, S X → S Y → S (P.E.add X Y)) (hadd : ∀ X Y, S X → S Y → φ (P.E.add X Y) = φ X + φ Y)
    (h0S : S none) (h0 : φ none = 0)
    (hinj : ∀ X Y, S X → S Y → φ X = φ Y → X = Y) (hG : S P.G) (hn : P.n • φ P.G = 0) (hp : P.n.Prime)
    (hnb : P.n ≤ 256 ^ P.frBytes)
    (H : Option HashFn) (d k : Nat) (msg sig : Bytes) (hk : k % P.n ≠ 0)
    (hs : P.sign P.smul H d k msg = .ok sig) :
    P.verify P.smul H (P.smul (Int.ofNat d) P.G) sig msg = .ok true := by
  obtain ⟨e, hm, hr0, hrn, hs0, hsig, -, -, -⟩ := C12_ecdsa_sign_bytes P P.smul H d k msg sig hnb hp.pos hs
  rw [C12_ecdsa_verify_iff]
  refine ⟨_, _, e, ?_, hm, C12_ecdsa_honest_verifies P φ S hS hadd h0S h0 hinj hG hn hp d k e hk hr0 hs0⟩
  rw [hsig]
  exact C12_ecdsa_sig_roundtrip P _ _ hr0 hrn hs0 (Nat.mod_lt _ hp.pos) hnb

/-- EdDSA, byte level: whatever `Sign` returns – for every secret scalar `a`, nonce `r`, message and hash – is accepted by
    `Verify` under the key `[a]B`, unless the signature has `S = 0` or `R.y = 0` (which `Signature.SetBytes` refuses; `S = 0`
    has probability 1/ℓ, `R.y = 0` is a point of order 4). Hypotheses: the model's addition is a group law on a set `S ∋ B` of
    reduced points of the curve (C02/C03), `q` an odd prime, the square-root routine correct. -/
theorem C12_eddsa_sign_verifies (P : EdParams) (sq : Nat → Option Nat) (φ : Nat × Nat → G) (S : Nat × Nat → Prop)
    (hS : ∀ X Y, S X → S Y → S (P.add X Y)) (hadd : ∀ X Y, S X → S Y → φ (P.add X Y) = φ X + φ Y)
    (h0S : S (0, (fpE P.q).one)) (h0 : φ (0, (fpE P.q).one) = 0)
    (hinj : ∀ X Y, S X → S Y → φ X = φ Y → X = Y) (hB : S P.B) (hℓ : P.order • φ P.B = 0)
    (hSon : ∀ X, S X → P.onCurve X = true ∧ X.1 < P.q ∧ X.2 < P.q)
    (hp : P.q.Prime) (hodd : P.q % 2 = 1) (hsz : 0 < P.size) (hfit : P.q ≤ 2 ^ (8 * P.size - 1))
    (hsq : SqrtSpec sq P.q) (had : (P.a : ZMod P.q) ≠ (P.d : ZMod P.q))
    (hord : P.order ≤ 256 ^ P.size) (hpos : 0 < P.order)
    (h : HashFn) (a r : Nat) (msg sig : Bytes)
    (hs : P.sign P.smul (some h) (P.smul a P.B) a r msg = .ok sig)
    (hS0 : 0 < beToNat ((sig.drop P.size).take P.size)) (hy0 : 0 < (P.smul r P.B).2) :
    P.verify P.smul sq (some h) (P.smul a P.B) sig msg = .ok true := by
  obtain ⟨hb, hh, -, hsig, -, -, hdec⟩ := C12_eddsa_sign_bytes P P.smul h _ a r msg sig hord hpos hs
  have hom : ∀ k X, S X → S (P.smul k X) :=
    fun k X hX => (teSmulNat_hom (fpE P.q) P.a P.d φ S hS hadd h0S h0 k X hX).2
  have hR := hom r P.B hB
  have hA := hom a P.B hB
  rw [hdec] at hS0
  rw [C12_eddsa_verify_iff]
  refine ⟨(hSon _ hA).1, P.smul r P.B, (beToNat hb * a + r) % P.order, hb, ?_, hh, ?_, ?_, ?_⟩
  · rw [hsig]
    exact C12_eddsa_sig_roundtrip P sq _ _ hp hodd hsz hfit hsq had (hSon _ hR).2.1 hy0 (hSon _ hR).2.2 (hSon _ hR).1
      hS0 (Nat.mod_lt _ hpos) hord
  · exact (hSon _ (hom _ _ (hom _ _ hB))).1
  · exact (hSon _ (hom _ _ (hS _ _ (hom _ _ hA) hR))).1
  · have := C12_eddsa_honest_verifies P φ S hS hadd h0S h0 hinj hB hℓ a r (beToNat hb)
    rw [Nat.add_comm] at this
    simpa [EdParams.equation] using this

/-! non-vacuity, with leading zero bytes: the toy curves of Part A′ with two bytes per scalar -/

def toyEc2 : ECParams := { toyEc with frBytes := 2 }
def toyEd2 : EdParams := { toyEd with size := 2 }

/-- d = 3, k = 2, digest 5: r = x([2]G) mod 7, s = 2⁻¹(5 + 3r) mod 7, each written as `00 xx` -/
example : toyEc2.sign toyEc2.smul none 3 2 [0, 5] = .ok [0, 1, 0, 4] := by decide

example : toyEc2.verify toyEc2.smul none (toyEc2.smul (Int.ofNat 3) toyEc2.G) [0, 1, 0, 4] [0, 5] = .ok true :=
  C12_ecdsa_sign_verifies toyEc2 toyEcPhi (· ∈ toyEcPts)
    (fun X Y hX hY => (by decide : ∀ X ∈ toyEcPts, ∀ Y ∈ toyEcPts, toyEc2.E.add X Y ∈ toyEcPts) X hX Y hY)
    (fun X Y hX hY => (by decide : ∀ X ∈ toyEcPts, ∀ Y ∈ toyEcPts,
        toyEcPhi (toyEc2.E.add X Y) = toyEcPhi X + toyEcPhi Y) X hX Y hY)
    (by decide) (by decide)
    (fun X Y hX hY => (by decide : ∀ X ∈ toyEcPts, ∀ Y ∈ toyEcPts, toyEcPhi X = toyEcPhi Y → X = Y) X hX Y hY)
    (by decide) (by decide) (by norm_num [toyEc2, toyEc]) (by decide) none 3 2 [0, 5] [0, 1, 0, 4] (by decide) (by decide)

/-- a = 3, r = 2, constant hash 5: R = [2]B = (0, 12), S = (5·3 + 2) mod 4 = 1, written `00 01` -/
example : toyEd2.sign toyEd2.smul (some (fun _ => .ok [5])) (toyEd2.smul 3 toyEd2.B) 3 2 [9] = .ok [12, 0, 0, 1] := by decide

example : toyEd2.verify toyEd2.smul (sqrtF 13) (some (fun _ => .ok [5])) (toyEd2.smul 3 toyEd2.B) [12, 0, 0, 1] [9] = .ok true :=
  C12_eddsa_sign_verifies toyEd2 (sqrtF 13) toyPhi (· ∈ toyPts)
    (fun X Y hX hY => (by decide : ∀ X ∈ toyPts, ∀ Y ∈ toyPts, toyEd2.add X Y ∈ toyPts) X hX Y hY)
    (fun X Y hX hY => (by decide : ∀ X ∈ toyPts, ∀ Y ∈ toyPts, toyPhi (toyEd2.add X Y) = toyPhi X + toyPhi Y) X hX Y hY)
    (by decide) (by decide)
    (fun X Y hX hY => (by decide : ∀ X ∈ toyPts, ∀ Y ∈ toyPts, toyPhi X = toyPhi Y → X = Y) X hX Y hY)
    (by decide) (by decide)
    (fun X hX => (by decide : ∀ X ∈ toyPts, toyEd2.onCurve X = true ∧ X.1 < toyEd2.q ∧ X.2 < toyEd2.q) X hX)
    (by norm_num [toyEd2, toyEd]) (by decide) (by decide) (by decide) toy_sqrt (by decide) (by decide) (by decide)
    (fun _ => .ok [5]) 3 2 [9] [12, 0, 0, 1] (by decide) (by decide) (by decide)

end Signer

/-! ### buffers longer than the object -/

section Longer

/-- ECDSA keys: only the first `pkSize` bytes of the buffer are looked at – the point decoder never sees what follows -/
theorem C12_ecdsa_pk_prefix (P : ECParams) (sm : Int → Alg.Pt Nat → Alg.Pt Nat) (buf rest : Bytes) (h : buf.length = P.pkSize) :
    P.pkParse sm (buf ++ rest) = P.pkParse sm buf ∧ P.pubParse sm (buf ++ rest) = P.pubParse sm buf ∧
      P.pkConsumed sm (buf ++ rest) = P.pkConsumed sm buf := by
  have hpk : P.pkParse sm (buf ++ rest) = P.pkParse sm buf := by
    unfold ECParams.pkParse
    have h1 : ¬ (buf ++ rest).length < P.pkSize := by rw [List.length_append]; omega
    have h2 : ¬ buf.length < P.pkSize := by omega
    rw [if_neg h1, if_neg h2]
    simp only [List.take_left' h, List.take_of_length_le (le_of_eq h)]
  have hpub : P.pubParse sm (buf ++ rest) = P.pubParse sm buf := by unfold ECParams.pubParse; rw [hpk]
  exact ⟨hpk, hpub, by unfold ECParams.pkConsumed; rw [hpub]⟩

/-- … so the uncompressed forms (flag bits 000 / 010), which need `2·fpBytes` bytes, are refused however long the buffer is -/
theorem C12_ecdsa_pk_uncompressed_refused (P : ECParams) (sm : Int → Alg.Pt Nat → Alg.Pt Nat) (buf : Bytes)
    (hk : P.maskKind ≠ 0) (hfp : 0 < P.fpBytes) (hl : P.pkSize ≤ buf.length)
    (hf : P.flagOf (buf.headD 0).toNat = .uncompressed ∨ P.flagOf (buf.headD 0).toNat = .uncompressedInf) :
    P.pkParse sm buf = .error .short ∧ P.pubParse sm buf = .error .short := by
  have hsz : 0 < P.pkSize := by unfold ECParams.pkSize; rw [if_neg hk]; exact hfp
  have hhd : (buf.take P.pkSize).headD 0 = buf.headD 0 := by
    cases buf with
    | nil => simp at hl; omega
    | cons b t =>
      obtain ⟨m, hm⟩ := Nat.exists_eq_succ_of_ne_zero (by omega : P.pkSize ≠ 0)
      rw [hm]; rfl
  have hpk : P.pkParse sm buf = .error .short := by
    unfold ECParams.pkParse
    rw [if_neg (by omega), if_neg hk]
    simp only [hhd]
    rcases hf with hf | hf <;> rw [hf]
  exact ⟨hpk, by unfold ECParams.pubParse; rw [hpk]⟩

/-- ECDSA private keys: `pkSize + frBytes` bytes are consumed, trailing data is ignored -/
theorem C12_ecdsa_sk_prefix (P : ECParams) (sm : Int → Alg.Pt Nat → Alg.Pt Nat) (buf rest : Bytes)
    (h : buf.length = P.pkSize + P.frBytes) : P.skParse sm (buf ++ rest) = P.skParse sm buf := by
  unfold ECParams.skParse
  have h1 : ¬ (buf ++ rest).length < P.pkSize + P.frBytes := by rw [List.length_append]; omega
  have h2 : ¬ buf.length < P.pkSize + P.frBytes := by omega
  rw [if_neg h1, if_neg h2]
  have e1 : (buf ++ rest).take P.pkSize = buf.take P.pkSize := by
    rw [List.take_append_of_le_length (by omega)]
  have e2 : ((buf ++ rest).drop P.pkSize).take P.frBytes = (buf.drop P.pkSize).take P.frBytes := by
    rw [List.drop_append_of_le_length (by omega), List.take_append_of_le_length (by simp; omega)]
  rw [e1, e2]

/-- signatures of both schemes have one length only -/
theorem C12_sig_exact_length (P : ECParams) (Q : EdParams) (sq : Nat → Option Nat) (buf : Bytes) :
    (buf.length ≠ 2 * P.frBytes → P.sigParse buf = .error .wrongSize) ∧
    (buf.length ≠ 2 * Q.size → Q.sigParse sq buf = .error .wrongSize) :=
  ⟨(C12_ecdsa_sig_errors P buf).1, (C12_eddsa_sig_errors Q sq buf).1⟩

/-- EdDSA keys: only the first `size` (public) / `2·size + 32` (private) bytes of the buffer count -/
theorem C12_eddsa_key_prefix (P : EdParams) (sq : Nat → Option Nat) (buf rest : Bytes) :
    (buf.length = P.size → P.pkParse sq (buf ++ rest) = P.pkParse sq buf) ∧
    (buf.length = P.skSize → P.skParse sq (buf ++ rest) = P.skParse sq buf) := by
  have hdec : ∀ b : Bytes, P.size ≤ b.length → P.decompress sq (b ++ rest) = P.decompress sq b := by
    intro b hb
    unfold EdParams.decompress EdParams.yRaw EdParams.signBit
    rw [List.take_append_of_le_length hb]
  have hhx : ∀ b : Bytes, P.size ≤ b.length → P.hasX sq (b ++ rest) = P.hasX sq b := by
    intro b hb
    unfold EdParams.hasX EdParams.yRaw
    rw [List.take_append_of_le_length hb]
  constructor
  · intro h
    unfold EdParams.pkParse
    have h1 : ¬ (buf ++ rest).length < P.size := by rw [List.length_append]; omega
    have h2 : ¬ buf.length < P.size := by omega
    rw [if_neg h1, if_neg h2, hdec buf (by omega), hhx buf (by omega)]
  · intro h
    unfold EdParams.skSize at h
    unfold EdParams.skParse EdParams.skSize
    have h1 : ¬ (buf ++ rest).length < 2 * P.size + 32 := by rw [List.length_append]; omega
    have h2 : ¬ buf.length < 2 * P.size + 32 := by omega
    have e1 : ((buf ++ rest).drop P.size).take P.size = (buf.drop P.size).take P.size := by
      rw [List.drop_append_of_le_length (by omega), List.take_append_of_le_length (by simp; omega)]
    have e2 : ((buf ++ rest).drop (2 * P.size)).take 32 = (buf.drop (2 * P.size)).take 32 := by
      rw [List.drop_append_of_le_length (by omega), List.take_append_of_le_length (by simp; omega)]
    rw [if_neg h1, if_neg h2, hdec buf (by omega), hhx buf (by omega), e1, e2]

/-- non-vacuity: 96 bytes starting with the flag bits 000 (what `G1Affine.SetBytes` would read as an uncompressed point)
    are not a bls12-381 public key, whatever scalar multiplication is used -/
example (sm : Int → Alg.Pt Nat → Alg.Pt Nat) :
    (SigParams.ec_bls12_381).pubParse sm (List.replicate 96 (0x17 : UInt8)) = .error .short :=
  (C12_ecdsa_pk_uncompressed_refused _ sm _ (by decide) (by decide) (by decide) (Or.inl (by decide))).2

end Longer

end GV.C12
