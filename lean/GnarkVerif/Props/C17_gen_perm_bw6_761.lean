/- (G := Ex q) (G2 := Unit) (S := Ex q) (L := ℕ × ℕ)ANTIATED by bin/mkc17permgen.py (one proof template for the 7 packages). DO NOT EDIT: edit the script and re-run it. -/
import GnarkVerif.Proofs.PermGen
import GnarkVerif.Gen.Verifier.Permutation_bw6_761
import GnarkVerif.Props.C11_gen_bw6_761
import GnarkVerif.Props.C17c
/-
C17 (permutation argument), tie T for ecc/bw6-761/fr/permutation/permutation.go: `Verify(vk, proof)` as REGENERATED from the Go text on every run
(Gen/Verifier/Permutation_bw6_761.lean; tools/goslp/slpgperm.go): the three Fiat–Shamir challenges (`deriveRandomness` executed in place), the quotient
identity at η, the calls of kzg.BatchVerifySinglePoint (4 digests) and kzg.Verify (re-translated from kzg.go on this run, prefix `kzg_`, proved
identical to the defs of Gen/Verifier/Kzg_bw6_761.lean), the size test and the generator test in the order of the Go text.
PARAMETERS (not translated): the transcript `fsChallenge name bound-data earlier-challenges` (Bind / ComputeChallenge errors nil: the names are the
literals given to NewTranscript; C15), `rawBytesG` = G1Affine.RawBytes, `frOfBytes` = fr.Element.SetBytes, `expS` = fr.Element.Exp (C01), fr ring
operations / Inverse / Equal, Div x y = x·y⁻¹, `toInt` = BigInt, `deriveGamma` (+ error flag) of kzg, `pairingCheckFixedQ` (C05), G1 operations (C03/C04);
`proof.size` is an exact Int with Go's int64 operations of Model/VerifierInt.lean.
ASSUMED in the exponent-model theorem (hypotheses): q prime > 2, 0 ≤ size < 2^63 (size is the model's natural number), Exp(x, k) = x^k for k ≥ 0 (the
instance `expEx`); the two KZG flags of the model are the verdicts of the two generated kzg verifications (their own exactness is C11_gen).
-/
set_option linter.unusedVariables false
set_option linter.unusedSectionVars false
open GV GV.Alg GV.KZG GV.Gen.Verifier GV.VerifierGen GV.ArgPairing GV.C11gen
namespace GV.C17gen

/-- the kzg defs emitted into Permutation_bw6_761.lean are the defs of Kzg_bw6_761.lean -/
theorem C17gen_bw6_761_perm_kzg_same {G G2 S L : Type} [AddCommGroup G] [Field S] [BEq S] [BEq G2] (toInt : S → Int)
    (dg : S → List G → List S → S) (dgErr : Bool) (pcf : List G → L → Bool) (d0 d1 d2 d3 H g1 : G) (v0 v1 v2 v3 v z : S) (q0 q1 : G2) (lines : L) :
    permutation_bw6_761.kzg_Verify toInt pcf d0 H v z q0 q1 g1 lines = kzg_bw6_761.Verify toInt pcf d0 H v z q0 q1 g1 lines ∧
    permutation_bw6_761.kzg_BatchVerifySinglePoint_k4 toInt dg dgErr pcf d0 d1 d2 d3 H v0 v1 v2 v3 z q0 q1 g1 lines
      = kzg_bw6_761.BatchVerifySinglePoint_k4 toInt dg dgErr pcf d0 d1 d2 d3 H v0 v1 v2 v3 z q0 q1 g1 lines := ⟨rfl, rfl⟩

/-- THE TIE: the generated `Verify` IS the reference program `permRef` of Proofs/PermGen.lean (statement by statement, `rfl`), with the two kzg calls
`BatchVerifySinglePoint([t1,t2,z,q], batchedProof, η)` and `Verify(z, shiftedProof, η·g)` of Kzg_bw6_761.lean -/
theorem C17gen_bw6_761_perm_ref {G G2 S L : Type} [AddCommGroup G] [Field S] [BEq S] [BEq G2] (toInt : S → Int) (rawG : G → List UInt8)
    (fsC : String → List (List UInt8) → List (List UInt8) → List UInt8) (frB : List UInt8 → S) (expS : S → Int → S)
    (dg : S → List G → List S → S) (dgErr : Bool) (pcf : List G → L → Bool) (q0 q1 : G2) (g1 : G) (lines : L) (size : Int) (g : S)
    (t1 t2 z qd bH : G) (c0 c1 c2 c3 : S) (sH : G) (sv : S) :
    permutation_bw6_761.Verify toInt rawG fsC frB expS dg dgErr pcf q0 q1 g1 lines size g t1 t2 z qd bH c0 c1 c2 c3 sH sv
      = permRef rawG fsC frB expS size g t1 t2 z qd c0 c1 c2 c3 sv
          (fun η => kzg_bw6_761.BatchVerifySinglePoint_k4 toInt dg dgErr pcf t1 t2 z qd bH c0 c1 c2 c3 η q0 q1 g1 lines)
          (fun x => kzg_bw6_761.Verify toInt pcf z sH sv x q0 q1 g1 lines) := rfl

/-- ABSTRACT FORM over ANY commutative group and field: `Verify` returns nil iff the field identity holds at η, the pairing check holds of
`[Σ vᵢγⁱ]G₁ + [−η]H − Σ[γⁱ]Cᵢ` and `H` (batched opening of t1, t2, z, q at η; γ = deriveGamma), the pairing check holds of `[z(gη)]G₁ + [−ηg]H' − Z` and `H'`
(shifted opening), `size & (size−1) = 0`, `g^(size/2) ≠ 1` and `(g^(size/2))² = 1` -/
theorem C17gen_bw6_761_perm_abstract {G G2 S L : Type} [AddCommGroup G] [Field S] [BEq S] [BEq G2] (toInt : S → Int) (rawG : G → List UInt8)
    (fsC : String → List (List UInt8) → List (List UInt8) → List UInt8) (frB : List UInt8 → S) (expS : S → Int → S)
    (dg : S → List G → List S → S) (pcf : List G → L → Bool) (q0 q1 : G2) (g1 : G) (lines : L) (size : Int) (g : S)
    (t1 t2 z qd bH : G) (c0 c1 c2 c3 : S) (sH : G) (sv : S) :
    permutation_bw6_761.Verify toInt rawG fsC frB expS dg false pcf q0 q1 g1 lines size g t1 t2 z qd bH c0 c1 c2 c3 sH sv = Res.ok ↔
      (let ε := frB (permChallenges rawG fsC t1 t2 z qd).1
       let ω := frB (permChallenges rawG fsC t1 t2 z qd).2.1
       let η := frB (permChallenges rawG fsC t1 t2 z qd).2.2
       let γ := dg η [t1, t2, z, qd] [c0, c1, c2, c3]
       ((c2 - 1) * ((expS η size - 1) * (η - 1)⁻¹) * ω + ((ε - c1) * sv - (ε - c0) * c2) == (expS η size - 1) * c3) = true ∧
       pcf [toInt (c0 * 1 + c1 * γ + c2 * (γ * γ) + c3 * ((γ * γ) * γ)) • g1 + toInt (-η) • bH
              - (toInt 1 • t1 + toInt γ • t2 + toInt (γ * γ) • z + toInt ((γ * γ) * γ) • qd), bH] lines = true ∧
       pcf [toInt sv • g1 + toInt (-(η * g)) • sH - z, sH] lines = true ∧
       i64and size (i64sub size 1) = 0 ∧
       (expS g (i64quo size 2) == 1) = false ∧ (expS g (i64quo size 2) * expS g (i64quo size 2) == 1) = true) := by
  rw [C17gen_bw6_761_perm_ref, permRef_ok_iff]
  simp only [C11gen_bw6_761_batchSingle_k4_abstract, C11gen_bw6_761_verify_abstract]

/-- BINDING: `Verify` depends on the transcript only through `fsChallenge "epsilon" [t1, t2] []`, `fsChallenge "omega" [z] [ε]`,
`fsChallenge "eta" [q] [ε, ω]` (RawBytes of the commitments, in this order): a text that derives a challenge from less (weak Fiat–Shamir) is not
equal to `permRef` and fails `C17gen_bw6_761_perm_ref` -/
theorem C17gen_bw6_761_perm_binding {G G2 S L : Type} [AddCommGroup G] [Field S] [BEq S] [BEq G2] (toInt : S → Int) (rawG : G → List UInt8)
    (fsC fsC' : String → List (List UInt8) → List (List UInt8) → List UInt8) (frB : List UInt8 → S) (expS : S → Int → S)
    (dg : S → List G → List S → S) (dgErr : Bool) (pcf : List G → L → Bool) (q0 q1 : G2) (g1 : G) (lines : L) (size : Int) (g : S)
    (t1 t2 z qd bH : G) (c0 c1 c2 c3 : S) (sH : G) (sv : S)
    (h : permChallenges rawG fsC' t1 t2 z qd = permChallenges rawG fsC t1 t2 z qd) :
    permutation_bw6_761.Verify toInt rawG fsC' frB expS dg dgErr pcf q0 q1 g1 lines size g t1 t2 z qd bH c0 c1 c2 c3 sH sv
      = permutation_bw6_761.Verify toInt rawG fsC frB expS dg dgErr pcf q0 q1 g1 lines size g t1 t2 z qd bH c0 c1 c2 c3 sH sv := by
  rw [C17gen_bw6_761_perm_ref, C17gen_bw6_761_perm_ref]
  exact permRef_binding rawG fsC fsC' frB expS size g t1 t2 z qd c0 c1 c2 c3 sv _ _ h

example : permChallenges (G := ℕ) (fun _ => []) (fun _ _ _ => []) 0 0 0 0 = permChallenges (fun _ => []) (fun _ _ _ => []) 0 0 0 0 := rfl

/-- ORDER of the checks: ErrSize is returned only after the batched opening passed (or is that call's own error), with both openings passing a size with
`size & (size−1) ≠ 0` gives ErrSize (never ErrGenerator, never nil), and a failing batched opening is what is returned once the identity holds -/
theorem C17gen_bw6_761_perm_order {G G2 S L : Type} [AddCommGroup G] [Field S] [BEq S] [BEq G2] (toInt : S → Int) (rawG : G → List UInt8)
    (fsC : String → List (List UInt8) → List (List UInt8) → List UInt8) (frB : List UInt8 → S) (expS : S → Int → S)
    (dg : S → List G → List S → S) (dgErr : Bool) (pcf : List G → L → Bool) (q0 q1 : G2) (g1 : G) (lines : L) (size : Int) (g : S)
    (t1 t2 z qd bH : G) (c0 c1 c2 c3 : S) (sH : G) (sv : S) (r : Res)
    (hr : permutation_bw6_761.Verify toInt rawG fsC frB expS dg dgErr pcf q0 q1 g1 lines size g t1 t2 z qd bH c0 c1 c2 c3 sH sv = r) :
    let η := frB (permChallenges rawG fsC t1 t2 z qd).2.2
    let batch := kzg_bw6_761.BatchVerifySinglePoint_k4 toInt dg dgErr pcf t1 t2 z qd bH c0 c1 c2 c3 η q0 q1 g1 lines
    let shift := kzg_bw6_761.Verify toInt pcf z sH sv (η * g) q0 q1 g1 lines
    (r = Res.err "ErrSize" → batch = Res.ok ∨ batch = Res.err "ErrSize") ∧
    (batch = Res.ok → shift = Res.ok → i64and size (i64sub size 1) ≠ 0 → r = Res.err "ErrSize" ∨ r = Res.err "ErrPermutationProof") ∧
    (batch ≠ Res.ok → r = batch ∨ r = Res.err "ErrPermutationProof") := by
  rw [C17gen_bw6_761_perm_ref] at hr
  exact permRef_order rawG fsC frB expS size g t1 t2 z qd c0 c1 c2 c3 sv _ _ r hr

example : permutation_bw6_761.Verify (G := Int) (G2 := Unit) (S := ℚ) (L := Unit) (fun _ => 0) (fun _ => []) (fun _ _ _ => []) (fun _ => 0) (fun _ _ => 0)
    (fun _ _ _ => 0) false (fun _ _ => true) () () 0 () 0 0 0 0 0 0 0 0 0 0 1 0 0 = Res.err "ErrPermutationProof" := by
  rw [C17gen_bw6_761_perm_ref]; norm_num [permRef]

variable (q : ℕ) [Fact q.Prime]

/-- EXPONENT MODEL (dictionary `fp q`): the generated `Verify` accepts iff `Model.ArgPairing.permVerify` accepts, for every input with 0 ≤ size < 2^63:
ε, ω, η = the challenges the transcript derives from (t1, t2), z, q; kzgBatch / kzgShift = the verdicts of the generated kzg verifications at η / η·g -/
theorem C17gen_bw6_761_perm_ex (h2 : 2 < q) (rawG : Ex q → List UInt8) (fsC : String → List (List UInt8) → List (List UInt8) → List UInt8)
    (frB : List UInt8 → Ex q) (dg : Ex q → List (Ex q) → List (Ex q) → Ex q) (dgErr : Bool) (n : ℕ) (hn : n < 2 ^ 63)
    (g t1 t2 z qd bH c0 c1 c2 c3 sH sv g1 : Ex q) (l : ℕ × ℕ) (q0 q1 : Unit) :
    permutation_bw6_761.Verify (G := Ex q) (G2 := Unit) (S := Ex q) (L := ℕ × ℕ) Ex.toInt rawG fsC frB (expEx q) dg dgErr (pcFixed q) q0 q1 g1 l (n : Int) g t1 t2 z qd bH c0 c1 c2 c3 sH sv = Res.ok ↔
      permVerify (fp q) n g.v [c0.v, c1.v, c2.v, c3.v] sv.v
        (frB (permChallenges rawG fsC t1 t2 z qd).1).v (frB (permChallenges rawG fsC t1 t2 z qd).2.1).v
        (frB (permChallenges rawG fsC t1 t2 z qd).2.2).v
        (decide (kzg_bw6_761.BatchVerifySinglePoint_k4 (G := Ex q) (G2 := Unit) (S := Ex q) (L := ℕ × ℕ) Ex.toInt dg dgErr (pcFixed q) t1 t2 z qd bH c0 c1 c2 c3
                  (frB (permChallenges rawG fsC t1 t2 z qd).2.2) q0 q1 g1 l = Res.ok))
        (decide (kzg_bw6_761.Verify (G := Ex q) (G2 := Unit) (S := Ex q) (L := ℕ × ℕ) Ex.toInt (pcFixed q) z sH sv (frB (permChallenges rawG fsC t1 t2 z qd).2.2 * g) q0 q1 g1 l = Res.ok)) = true := by
  have hq : NeZero q := ⟨(Fact.out : q.Prime).ne_zero⟩
  have e : permutation_bw6_761.Verify (G := Ex q) (G2 := Unit) (S := Ex q) (L := ℕ × ℕ) Ex.toInt rawG fsC frB (expEx q) dg dgErr (pcFixed q) q0 q1 g1 l (n : Int) g t1 t2 z qd bH c0 c1 c2 c3 sH sv
      = permRef rawG fsC frB (expEx q) (n : Int) g t1 t2 z qd c0 c1 c2 c3 sv
          (fun η => kzg_bw6_761.BatchVerifySinglePoint_k4 (G := Ex q) (G2 := Unit) (S := Ex q) (L := ℕ × ℕ) Ex.toInt dg dgErr (pcFixed q) t1 t2 z qd bH c0 c1 c2 c3 η q0 q1 g1 l)
          (fun x => kzg_bw6_761.Verify (G := Ex q) (G2 := Unit) (S := Ex q) (L := ℕ × ℕ) Ex.toInt (pcFixed q) z sH sv x q0 q1 g1 l) := rfl
  rw [e]
  exact permRef_ex q h2 rawG fsC frB n hn g t1 t2 z qd c0 c1 c2 c3 sv _ _

example : (2 : ℕ) < 13 ∧ (4 : ℕ) < 2 ^ 63 := by decide

/-- transfer of C17c_perm_consist_iff to the Go text: when the identity and both generated KZG verifications pass, `Verify` with size = 2^(k+1) < 2^63
accepts exactly when the prover-supplied g is a PRIMITIVE size-th root of unity in ZMod q -/
theorem C17gen_bw6_761_perm_ex_sound (h2 : 2 < q) (rawG : Ex q → List UInt8) (fsC : String → List (List UInt8) → List (List UInt8) → List UInt8)
    (frB : List UInt8 → Ex q) (dg : Ex q → List (Ex q) → List (Ex q) → Ex q) (dgErr : Bool) (k : ℕ) (hn : 2 ^ (k + 1) < 2 ^ 63)
    (g t1 t2 z qd bH c0 c1 c2 c3 sH sv g1 : Ex q) (l : ℕ × ℕ) (q0 q1 : Unit)
    (hid : permIdentity (fp q) (2 ^ (k + 1)) [c0.v, c1.v, c2.v, c3.v] sv.v (frB (permChallenges rawG fsC t1 t2 z qd).1).v
        (frB (permChallenges rawG fsC t1 t2 z qd).2.1).v (frB (permChallenges rawG fsC t1 t2 z qd).2.2).v = true)
    (hb : kzg_bw6_761.BatchVerifySinglePoint_k4 (G := Ex q) (G2 := Unit) (S := Ex q) (L := ℕ × ℕ) Ex.toInt dg dgErr (pcFixed q) t1 t2 z qd bH c0 c1 c2 c3
                  (frB (permChallenges rawG fsC t1 t2 z qd).2.2) q0 q1 g1 l = Res.ok)
    (hs : kzg_bw6_761.Verify (G := Ex q) (G2 := Unit) (S := Ex q) (L := ℕ × ℕ) Ex.toInt (pcFixed q) z sH sv (frB (permChallenges rawG fsC t1 t2 z qd).2.2 * g) q0 q1 g1 l = Res.ok) :
    permutation_bw6_761.Verify (G := Ex q) (G2 := Unit) (S := Ex q) (L := ℕ × ℕ) Ex.toInt rawG fsC frB (expEx q) dg dgErr (pcFixed q) q0 q1 g1 l ((2 ^ (k + 1) : ℕ) : Int) g t1 t2 z qd bH c0 c1 c2 c3 sH sv = Res.ok ↔
      orderOf ((g.v : ℕ) : ZMod q) = 2 ^ (k + 1) := by
  rw [C17gen_bw6_761_perm_ex q h2 rawG fsC frB dg dgErr _ hn, hb, hs]
  simp only [decide_true]
  exact C17c_perm_consist_iff (lawful_fp q h2) k g.v _ _ _ _ _ hid

end GV.C17gen
