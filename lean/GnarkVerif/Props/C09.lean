import GnarkVerif.Model.VecGlue
import GnarkVerif.Props.C01
/-
C09 — results do not depend on the CPU-specific code path.

What a Lean theorem can carry here (DESIGN §3 C09): there is no x86-64/AVX-512 semantics on this image, so
assembly bodies are never the subject of a theorem. Proved instead:
 * the Go glue of the vector routines (blocks to the kernel, tail to the portable code, size guards) returns the
   element-wise specification for EVERY length, tail size and value of the feature flag, provided the kernel meets
   its block contract;
 * every operation has ONE specification (the C01 theorems: the model is the same function whatever the path), so
   path-independence is "every path equals the model", which the correspondence run checks for each configuration
   {default asm, ADX disabled, purego} against the SAME Lean model outputs (not merely against each other).
-/
namespace GV.VecGlue

/-- `Vector.Add/Sub/Mul`: flag- and length-independent, given the kernel's block contract -/
theorem C09_zipGlue {α : Type} (f : α → α → α) (blockSize : Nat) (useKernel : Bool)
    (kernel generic : List α → List α → List α)
    (hk : ∀ a b : List α, a.length = b.length → a.length % blockSize = 0 → kernel a b = List.zipWith f a b)
    (hg : ∀ a b : List α, generic a b = List.zipWith f a b)
    (a b : List α) (hab : a.length = b.length) :
    zipGlue useKernel blockSize kernel generic a b = List.zipWith f a b := by
  unfold zipGlue
  by_cases h0 : a.length = 0
  · have : a = [] := List.eq_nil_of_length_eq_zero h0
    simp [this]
  · simp only [h0, if_false]
    cases useKernel with
    | false => simp [hg]
    | true =>
      simp only [Bool.not_true, Bool.false_eq_true, if_false]
      rw [hk, hg]
      · rw [← List.zipWith_append]
        · simp
        · simp [hab]
      · simp [hab]
      · simp only [List.length_take]
        have : a.length / blockSize * blockSize ≤ a.length := Nat.div_mul_le_self _ _
        rw [Nat.min_eq_left this]
        exact Nat.mul_mod_left _ _

/-- `Vector.ScalarMul` -/
theorem C09_mapGlue {α : Type} (f : α → α) (blockSize : Nat) (useKernel : Bool)
    (kernel generic : List α → List α)
    (hk : ∀ a : List α, a.length % blockSize = 0 → kernel a = a.map f)
    (hg : ∀ a : List α, generic a = a.map f) (a : List α) :
    mapGlue useKernel blockSize kernel generic a = a.map f := by
  unfold mapGlue
  by_cases h0 : a.length = 0
  · have : a = [] := List.eq_nil_of_length_eq_zero h0
    simp [this]
  · simp only [h0, if_false]
    cases useKernel with
    | false => simp [hg]
    | true =>
      simp only [Bool.not_true, Bool.false_eq_true, if_false]
      rw [hk, hg, ← List.map_append, List.take_append_drop]
      simp only [List.length_take]
      have : a.length / blockSize * blockSize ≤ a.length := Nat.div_mul_le_self _ _
      rw [Nat.min_eq_left this]
      exact Nat.mul_mod_left _ _

/-- `Vector.Sum` / `InnerProduct`: the minimum-size switch is unobservable -/
theorem C09_foldGlue {α β : Type} (spec : List α → β) (zero : β) (minN : Nat) (useKernel : Bool)
    (kernel generic : List α → β)
    (hz : spec [] = zero) (hk : ∀ a, kernel a = spec a) (hg : ∀ a, generic a = spec a) (a : List α) :
    foldGlue useKernel minN zero kernel generic a = spec a := by
  unfold foldGlue
  by_cases h0 : a.length = 0
  · have : a = [] := List.eq_nil_of_length_eq_zero h0
    simp [this, hz]
  · simp only [h0, if_false]
    split <;> simp [hk, hg]

/-- the feature flag is not observable: both settings give the same result -/
theorem C09_flag_irrelevant {α : Type} (f : α → α → α) (blockSize : Nat)
    (kernel generic : List α → List α → List α)
    (hk : ∀ a b : List α, a.length = b.length → a.length % blockSize = 0 → kernel a b = List.zipWith f a b)
    (hg : ∀ a b : List α, generic a b = List.zipWith f a b)
    (a b : List α) (hab : a.length = b.length) :
    zipGlue true blockSize kernel generic a b = zipGlue false blockSize kernel generic a b := by
  rw [C09_zipGlue f blockSize true kernel generic hk hg a b hab,
      C09_zipGlue f blockSize false kernel generic hk hg a b hab]

/-! non-vacuity: a kernel that really only works on multiples of the block size -/
example : zipGlue true 4 (fun a b => if a.length % 4 = 0 then List.zipWith (· + ·) a b else [])
    (List.zipWith (· + ·)) [1,2,3,4,5,6] [10,20,30,40,50,60] = [11,22,33,44,55,66] := by decide

end GV.VecGlue
