import GnarkVerif.Model.CurveCheck
import GnarkVerif.Gen.CurveConsts
import GnarkVerif.Gen.Fields
/-
C03 (tie T) — twisted Edwards companion curves and bandersnatch.  Written by bin/mkc03gen.py; DO NOT EDIT by hand.

Kernel-checked facts about the constants that `tools/goslp/curveconsts.go` re-extracts from the CURRENT Go text on every
run (`GV.Gen.CurveConsts.<curve>.*`: init() of ecc/<curve>/<curve>.go, package comment) and the regenerated moduli
(`GV.Gen.<curve>_fp.q`, `_fr.q`).  Changing one digit of a generator, of thirdRootOneG1, lambdaGLV, xGen, a LoopCounter
entry, the twist … in the Go source breaks the corresponding proof below before any input is run.
The towers F_p² / F_p⁴ (non-residues) are those of `Model/Pairing` (C05/C06); scalar multiplications are the
inversion-free ladders of `Model/CurveCheck` (cross-checked against `Alg.Curve.smulNat` by the `ladder_agrees` theorems).
-/
namespace GV.C03gen
open GV GV.Alg GV.Gen GV.CurveCheck

namespace te_bn254
/-! ### ecc/bn254/twistededwards (over the scalar field of bn254) -/
def q : Nat := bn254_fr.q
def E : TECurve := { q := q, a := red q CurveConsts.te_bn254.A, d := red q CurveConsts.te_bn254.D }
def B : Nat × Nat := (red q CurveConsts.te_bn254.BaseX, red q CurveConsts.te_bn254.BaseY)
def n : Nat := CurveConsts.te_bn254.Order.toNat
def h : Nat := CurveConsts.te_bn254.Cofactor.toNat

/-- literals: `D`, `Base`, `Order`, `Cofactor` canonical / positive; a, d non-zero, a ≠ d -/
theorem params_ok :
    (canon q [CurveConsts.te_bn254.D, CurveConsts.te_bn254.BaseX, CurveConsts.te_bn254.BaseY]
      && decide (0 < CurveConsts.te_bn254.Order) && decide (0 < CurveConsts.te_bn254.Cofactor)
      && E.a != 0 && E.d != 0 && E.a != E.d) = true := by decide +kernel

/-- `Base` satisfies a·x² + y² = 1 + d·x²y², is not the identity and `[Order]Base = (0,1)` -/
theorem base_on_curve_and_order : teGenOk E n B = true := by decide +kernel

/-- the projective ladder used above agrees with the textbook affine law on `[0]B … [5]B` -/
theorem ladder_agrees : teLadderAgrees E 6 B = true := by decide +kernel

/-- `Cofactor·Order` lies in the Hasse interval of F_q, and `Order² > 16 q`: a group of order divisible by the
(prime) `Order` has exactly this order -/
theorem cofactor_order_hasse :
    (((h * n : Nat) : Int) - (q + 1)) ^ 2 ≤ 4 * q ∧ 16 * q < n * n ∧ h % 4 = 0 := by decide +kernel

end te_bn254

namespace te_bls12_377
/-! ### ecc/bls12-377/twistededwards (over the scalar field of bls12_377) -/
def q : Nat := bls12_377_fr.q
def E : TECurve := { q := q, a := red q CurveConsts.te_bls12_377.A, d := red q CurveConsts.te_bls12_377.D }
def B : Nat × Nat := (red q CurveConsts.te_bls12_377.BaseX, red q CurveConsts.te_bls12_377.BaseY)
def n : Nat := CurveConsts.te_bls12_377.Order.toNat
def h : Nat := CurveConsts.te_bls12_377.Cofactor.toNat

/-- literals: `D`, `Base`, `Order`, `Cofactor` canonical / positive; a, d non-zero, a ≠ d -/
theorem params_ok :
    (canon q [CurveConsts.te_bls12_377.D, CurveConsts.te_bls12_377.BaseX, CurveConsts.te_bls12_377.BaseY]
      && decide (0 < CurveConsts.te_bls12_377.Order) && decide (0 < CurveConsts.te_bls12_377.Cofactor)
      && E.a != 0 && E.d != 0 && E.a != E.d) = true := by decide +kernel

/-- `Base` satisfies a·x² + y² = 1 + d·x²y², is not the identity and `[Order]Base = (0,1)` -/
theorem base_on_curve_and_order : teGenOk E n B = true := by decide +kernel

/-- the projective ladder used above agrees with the textbook affine law on `[0]B … [5]B` -/
theorem ladder_agrees : teLadderAgrees E 6 B = true := by decide +kernel

/-- `Cofactor·Order` lies in the Hasse interval of F_q, and `Order² > 16 q`: a group of order divisible by the
(prime) `Order` has exactly this order -/
theorem cofactor_order_hasse :
    (((h * n : Nat) : Int) - (q + 1)) ^ 2 ≤ 4 * q ∧ 16 * q < n * n ∧ h % 4 = 0 := by decide +kernel

end te_bls12_377

namespace te_bls12_381
/-! ### ecc/bls12-381/twistededwards (over the scalar field of bls12_381) -/
def q : Nat := bls12_381_fr.q
def E : TECurve := { q := q, a := red q CurveConsts.te_bls12_381.A, d := red q CurveConsts.te_bls12_381.D }
def B : Nat × Nat := (red q CurveConsts.te_bls12_381.BaseX, red q CurveConsts.te_bls12_381.BaseY)
def n : Nat := CurveConsts.te_bls12_381.Order.toNat
def h : Nat := CurveConsts.te_bls12_381.Cofactor.toNat

/-- literals: `D`, `Base`, `Order`, `Cofactor` canonical / positive; a, d non-zero, a ≠ d -/
theorem params_ok :
    (canon q [CurveConsts.te_bls12_381.D, CurveConsts.te_bls12_381.BaseX, CurveConsts.te_bls12_381.BaseY]
      && decide (0 < CurveConsts.te_bls12_381.Order) && decide (0 < CurveConsts.te_bls12_381.Cofactor)
      && E.a != 0 && E.d != 0 && E.a != E.d) = true := by decide +kernel

/-- `Base` satisfies a·x² + y² = 1 + d·x²y², is not the identity and `[Order]Base = (0,1)` -/
theorem base_on_curve_and_order : teGenOk E n B = true := by decide +kernel

/-- the projective ladder used above agrees with the textbook affine law on `[0]B … [5]B` -/
theorem ladder_agrees : teLadderAgrees E 6 B = true := by decide +kernel

/-- `Cofactor·Order` lies in the Hasse interval of F_q, and `Order² > 16 q`: a group of order divisible by the
(prime) `Order` has exactly this order -/
theorem cofactor_order_hasse :
    (((h * n : Nat) : Int) - (q + 1)) ^ 2 ≤ 4 * q ∧ 16 * q < n * n ∧ h % 4 = 0 := by decide +kernel

end te_bls12_381

namespace te_bandersnatch
/-! ### ecc/bls12-381/bandersnatch (over the scalar field of bls12_381) -/
def q : Nat := bls12_381_fr.q
def E : TECurve := { q := q, a := red q CurveConsts.te_bandersnatch.A, d := red q CurveConsts.te_bandersnatch.D }
def B : Nat × Nat := (red q CurveConsts.te_bandersnatch.BaseX, red q CurveConsts.te_bandersnatch.BaseY)
def n : Nat := CurveConsts.te_bandersnatch.Order.toNat
def h : Nat := CurveConsts.te_bandersnatch.Cofactor.toNat

/-- literals: `D`, `Base`, `Order`, `Cofactor` canonical / positive; a, d non-zero, a ≠ d -/
theorem params_ok :
    (canon q [CurveConsts.te_bandersnatch.D, CurveConsts.te_bandersnatch.BaseX, CurveConsts.te_bandersnatch.BaseY]
      && decide (0 < CurveConsts.te_bandersnatch.Order) && decide (0 < CurveConsts.te_bandersnatch.Cofactor)
      && E.a != 0 && E.d != 0 && E.a != E.d) = true := by decide +kernel

/-- `Base` satisfies a·x² + y² = 1 + d·x²y², is not the identity and `[Order]Base = (0,1)` -/
theorem base_on_curve_and_order : teGenOk E n B = true := by decide +kernel

/-- the projective ladder used above agrees with the textbook affine law on `[0]B … [5]B` -/
theorem ladder_agrees : teLadderAgrees E 6 B = true := by decide +kernel

/-- `Cofactor·Order` lies in the Hasse interval of F_q, and `Order² > 16 q`: a group of order divisible by the
(prime) `Order` has exactly this order -/
theorem cofactor_order_hasse :
    (((h * n : Nat) : Int) - (q + 1)) ^ 2 ≤ 4 * q ∧ 16 * q < n * n ∧ h % 4 = 0 := by decide +kernel

def lam : Nat := CurveConsts.te_bandersnatch.lambda.toNat

/-- `endo[0]`, `endo[1]`, `lambda` canonical; λ² ≡ −2 (mod Order) as documented in endomorpism.go -/
theorem lambda_ok :
    (canon q [CurveConsts.te_bandersnatch.endo0, CurveConsts.te_bandersnatch.endo1]
      && canon n [CurveConsts.te_bandersnatch.lambda] && (lam * lam + 2) % n == 0
      && CurveConsts.te_bandersnatch.glvBasisFromLambda) = true := by decide +kernel

/-- eigenvalue relation on the base point: `phi(Base)` (formulas of endomorpism.go with Z = 1) = [λ]Base -/
theorem phi_is_lambda :
    teEq E (bandersnatchPhi E (red q CurveConsts.te_bandersnatch.endo0) (red q CurveConsts.te_bandersnatch.endo1) B) (teSmul E lam B) = true := by
  decide +kernel

end te_bandersnatch

namespace te_bls24_315
/-! ### ecc/bls24-315/twistededwards (over the scalar field of bls24_315) -/
def q : Nat := bls24_315_fr.q
def E : TECurve := { q := q, a := red q CurveConsts.te_bls24_315.A, d := red q CurveConsts.te_bls24_315.D }
def B : Nat × Nat := (red q CurveConsts.te_bls24_315.BaseX, red q CurveConsts.te_bls24_315.BaseY)
def n : Nat := CurveConsts.te_bls24_315.Order.toNat
def h : Nat := CurveConsts.te_bls24_315.Cofactor.toNat

/-- literals: `D`, `Base`, `Order`, `Cofactor` canonical / positive; a, d non-zero, a ≠ d -/
theorem params_ok :
    (canon q [CurveConsts.te_bls24_315.D, CurveConsts.te_bls24_315.BaseX, CurveConsts.te_bls24_315.BaseY]
      && decide (0 < CurveConsts.te_bls24_315.Order) && decide (0 < CurveConsts.te_bls24_315.Cofactor)
      && E.a != 0 && E.d != 0 && E.a != E.d) = true := by decide +kernel

/-- `Base` satisfies a·x² + y² = 1 + d·x²y², is not the identity and `[Order]Base = (0,1)` -/
theorem base_on_curve_and_order : teGenOk E n B = true := by decide +kernel

/-- the projective ladder used above agrees with the textbook affine law on `[0]B … [5]B` -/
theorem ladder_agrees : teLadderAgrees E 6 B = true := by decide +kernel

/-- `Cofactor·Order` lies in the Hasse interval of F_q, and `Order² > 16 q`: a group of order divisible by the
(prime) `Order` has exactly this order -/
theorem cofactor_order_hasse :
    (((h * n : Nat) : Int) - (q + 1)) ^ 2 ≤ 4 * q ∧ 16 * q < n * n ∧ h % 4 = 0 := by decide +kernel

end te_bls24_315

namespace te_bls24_317
/-! ### ecc/bls24-317/twistededwards (over the scalar field of bls24_317) -/
def q : Nat := bls24_317_fr.q
def E : TECurve := { q := q, a := red q CurveConsts.te_bls24_317.A, d := red q CurveConsts.te_bls24_317.D }
def B : Nat × Nat := (red q CurveConsts.te_bls24_317.BaseX, red q CurveConsts.te_bls24_317.BaseY)
def n : Nat := CurveConsts.te_bls24_317.Order.toNat
def h : Nat := CurveConsts.te_bls24_317.Cofactor.toNat

/-- literals: `D`, `Base`, `Order`, `Cofactor` canonical / positive; a, d non-zero, a ≠ d -/
theorem params_ok :
    (canon q [CurveConsts.te_bls24_317.D, CurveConsts.te_bls24_317.BaseX, CurveConsts.te_bls24_317.BaseY]
      && decide (0 < CurveConsts.te_bls24_317.Order) && decide (0 < CurveConsts.te_bls24_317.Cofactor)
      && E.a != 0 && E.d != 0 && E.a != E.d) = true := by decide +kernel

/-- `Base` satisfies a·x² + y² = 1 + d·x²y², is not the identity and `[Order]Base = (0,1)` -/
theorem base_on_curve_and_order : teGenOk E n B = true := by decide +kernel

/-- the projective ladder used above agrees with the textbook affine law on `[0]B … [5]B` -/
theorem ladder_agrees : teLadderAgrees E 6 B = true := by decide +kernel

/-- `Cofactor·Order` lies in the Hasse interval of F_q, and `Order² > 16 q`: a group of order divisible by the
(prime) `Order` has exactly this order -/
theorem cofactor_order_hasse :
    (((h * n : Nat) : Int) - (q + 1)) ^ 2 ≤ 4 * q ∧ 16 * q < n * n ∧ h % 4 = 0 := by decide +kernel

end te_bls24_317

namespace te_bw6_633
/-! ### ecc/bw6-633/twistededwards (over the scalar field of bw6_633) -/
def q : Nat := bw6_633_fr.q
def E : TECurve := { q := q, a := red q CurveConsts.te_bw6_633.A, d := red q CurveConsts.te_bw6_633.D }
def B : Nat × Nat := (red q CurveConsts.te_bw6_633.BaseX, red q CurveConsts.te_bw6_633.BaseY)
def n : Nat := CurveConsts.te_bw6_633.Order.toNat
def h : Nat := CurveConsts.te_bw6_633.Cofactor.toNat

/-- literals: `D`, `Base`, `Order`, `Cofactor` canonical / positive; a, d non-zero, a ≠ d -/
theorem params_ok :
    (canon q [CurveConsts.te_bw6_633.D, CurveConsts.te_bw6_633.BaseX, CurveConsts.te_bw6_633.BaseY]
      && decide (0 < CurveConsts.te_bw6_633.Order) && decide (0 < CurveConsts.te_bw6_633.Cofactor)
      && E.a != 0 && E.d != 0 && E.a != E.d) = true := by decide +kernel

/-- `Base` satisfies a·x² + y² = 1 + d·x²y², is not the identity and `[Order]Base = (0,1)` -/
theorem base_on_curve_and_order : teGenOk E n B = true := by decide +kernel

/-- the projective ladder used above agrees with the textbook affine law on `[0]B … [5]B` -/
theorem ladder_agrees : teLadderAgrees E 6 B = true := by decide +kernel

/-- `Cofactor·Order` lies in the Hasse interval of F_q, and `Order² > 16 q`: a group of order divisible by the
(prime) `Order` has exactly this order -/
theorem cofactor_order_hasse :
    (((h * n : Nat) : Int) - (q + 1)) ^ 2 ≤ 4 * q ∧ 16 * q < n * n ∧ h % 4 = 0 := by decide +kernel

end te_bw6_633

namespace te_bw6_761
/-! ### ecc/bw6-761/twistededwards (over the scalar field of bw6_761) -/
def q : Nat := bw6_761_fr.q
def E : TECurve := { q := q, a := red q CurveConsts.te_bw6_761.A, d := red q CurveConsts.te_bw6_761.D }
def B : Nat × Nat := (red q CurveConsts.te_bw6_761.BaseX, red q CurveConsts.te_bw6_761.BaseY)
def n : Nat := CurveConsts.te_bw6_761.Order.toNat
def h : Nat := CurveConsts.te_bw6_761.Cofactor.toNat

/-- literals: `D`, `Base`, `Order`, `Cofactor` canonical / positive; a, d non-zero, a ≠ d -/
theorem params_ok :
    (canon q [CurveConsts.te_bw6_761.D, CurveConsts.te_bw6_761.BaseX, CurveConsts.te_bw6_761.BaseY]
      && decide (0 < CurveConsts.te_bw6_761.Order) && decide (0 < CurveConsts.te_bw6_761.Cofactor)
      && E.a != 0 && E.d != 0 && E.a != E.d) = true := by decide +kernel

/-- `Base` satisfies a·x² + y² = 1 + d·x²y², is not the identity and `[Order]Base = (0,1)` -/
theorem base_on_curve_and_order : teGenOk E n B = true := by decide +kernel

/-- the projective ladder used above agrees with the textbook affine law on `[0]B … [5]B` -/
theorem ladder_agrees : teLadderAgrees E 6 B = true := by decide +kernel

/-- `Cofactor·Order` lies in the Hasse interval of F_q, and `Order² > 16 q`: a group of order divisible by the
(prime) `Order` has exactly this order -/
theorem cofactor_order_hasse :
    (((h * n : Nat) : Int) - (q + 1)) ^ 2 ≤ 4 * q ∧ 16 * q < n * n ∧ h % 4 = 0 := by decide +kernel

end te_bw6_761

end GV.C03gen
