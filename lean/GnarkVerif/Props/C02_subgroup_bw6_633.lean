/- WRITTEN by bin/mkc02sub.py (templates in the script). DO NOT EDIT: edit the script and re-run it. -/
import GnarkVerif.Proofs.Subgroup
import GnarkVerif.Props.C02_gen_bw6_633
import GnarkVerif.Props.C02_gen_bw6_633_g2
import GnarkVerif.Gen.CurveConsts
import GnarkVerif.Gen.Fields
import Mathlib.Tactic.NormNum.Pow
import Mathlib.Tactic.Module
/-
C02 (tie T) — bw6_633: the FAST SUBGROUP TESTS `IsInSubGroup` (and `ClearCofactor` where it is straight-line) of
/repo/ecc/bw6-633/g1.go, g2.go as tools/goslp regenerates them from the Go text on every run (Gen/Curve/Bw6_633.lean), against
Mathlib's group `(sw 0 b).Point` with the representation relation of Props/C02_gen. See Props/C02_subgroup_bls12_381.lean
for the reading of the theorem names (`_mulBySeed`, `_phi`, `_IsInSubGroup_spec` = SPEC, `_complete` / `_on_generated` =
FORWARD direction, `FastTestSound` = the published converse as a named hypothesis used by `_sound` only).
G1 (curve y² = x³ + 4) carries the KNOWN FINDING: `C02sub_G1Jac_order3_point_passes`.
-/
set_option linter.unusedSectionVars false
set_option linter.unusedVariables false
namespace GV.Gen.Curve.bw6_633
open GV.Curve GV.C02 GV.CurveGen GV.Subgroup WeierstrassCurve

/-- the regenerated seed literal, the GLV eigenvalue and the group order of the package -/
abbrev seed : ℤ := GV.Gen.CurveConsts.bw6_633.xGen
abbrev lam : ℤ := GV.Gen.CurveConsts.bw6_633.lambdaGLV
abbrev rOrd : ℤ := (GV.Gen.bw6_633_fr.q : ℤ)

/-! ## G1 -/
section g1
variable {F : Type} [Field F] [DecidableEq F] {b : F} {P Q : (sw 0 b).Point}

theorem G1Jac.rep_add (hc : (2 : F) ≠ 0) {p q : G1Jac F} {m n : ℤ} (hp : p.Rep b (m • Q)) (hq : q.Rep b (n • Q)) :
    (G1Jac.AddAssign p q).1.Rep b ((m + n) • Q) := by
  rw [add_smul]; exact C02gen_G1Jac_AddAssign hc hp hq
theorem G1Jac.rep_sub (hc : (2 : F) ≠ 0) {p q : G1Jac F} {m n : ℤ} (hp : p.Rep b (m • Q)) (hq : q.Rep b (n • Q)) :
    (G1Jac.SubAssign p q).1.Rep b ((m - n) • Q) := by
  rw [sub_smul]; exact C02gen_G1Jac_SubAssign hc hp hq
theorem G1Jac.rep_dbl (hc : (2 : F) ≠ 0) {q : G1Jac F} {m : ℤ} (hq : q.Rep b (m • Q)) :
    (G1Jac.Double q).1.Rep b ((2 * m) • Q) := by
  rw [two_mul, add_smul]; exact C02gen_G1Jac_Double hc hq
theorem G1Jac.rep_dbl' (hc : (2 : F) ≠ 0) {q : G1Jac F} {m : ℤ} (hq : q.Rep b (m • Q)) :
    (G1Jac.Double_p_eq_q q).Rep b ((2 * m) • Q) := by
  rw [G1Jac.Double_p_eq_q_alias]; exact G1Jac.rep_dbl hc hq
theorem G1Jac.rep_neg {q : G1Jac F} {m : ℤ} (hq : q.Rep b (m • Q)) : (G1Jac.Neg q).1.Rep b ((-m) • Q) := by
  rw [neg_smul]; exact C02gen_G1Jac_Neg hq
theorem G1Jac.rep_set {q : G1Jac F} {m : ℤ} (hq : q.Rep b (m • Q)) : (G1Jac.Set q).1.Rep b (m • Q) := hq
theorem G1Jac.rep_repeat {f : G1Jac F → G1Jac F}
    (hf : ∀ (st : G1Jac F) (m : ℤ), st.Rep b (m • Q) → (f st).Rep b ((2 * m) • Q))
    (n : ℕ) {q : G1Jac F} {m : ℤ} (hq : q.Rep b (m • Q)) : (Nat.repeat f n q).Rep b ((2 ^ n * m) • Q) := by
  induction n with
  | zero => simpa [Nat.repeat] using hq
  | succ k ih =>
    have := hf _ _ ih
    rw [show (2 : ℤ) ^ (k + 1) * m = 2 * (2 ^ k * m) by ring]
    exact this
theorem G1Jac.rep_cast {q : G1Jac F} {m n : ℤ} (hq : q.Rep b (m • Q)) (h : m = n) : q.Rep b (n • Q) := h ▸ hq

/-- one Go statement of a `mulBySeed` chain -/
macro "gv_seed_step_g1" hc:term : tactic => `(tactic| first
  | exact G1Jac.rep_add $hc (by assumption) (by assumption)
  | exact G1Jac.rep_sub $hc (by assumption) (by assumption)
  | exact G1Jac.rep_dbl $hc (by assumption)
  | exact G1Jac.rep_dbl' $hc (by assumption)
  | exact G1Jac.rep_neg (by assumption)
  | exact G1Jac.rep_set (by assumption)
  | exact G1Jac.rep_repeat (fun _ _ h => G1Jac.rep_dbl' $hc h) _ (by assumption))

/-- SPECIFICATION of the primitive `mulWindowed(q, &xGen)` (this package implements `mulBySeed` as `p.mulWindowed(q, &xGen)`;
the window loop over a big.Int is a hand model tied by K, C03 `mulWindowed`): the result represents `xGen • Q`.
A HYPOTHESIS of every theorem of this section (`hW`). -/
def G1Jac.SeedSpec (b : F) (W : G1Jac F → G1Jac F) : Prop :=
  ∀ (q : G1Jac F) (Q : (sw 0 b).Point), q.Rep b Q → (W q).Rep b (seed • Q)

theorem C02sub_G1Jac_mulBySeed {W : G1Jac F → G1Jac F} (hW : G1Jac.SeedSpec b W) (hc : (2 : F) ≠ 0) {q : G1Jac F} (hq : q.Rep b Q) :
    (G1Jac.mulBySeed q W).1.Rep b (seed • Q) := hW q Q hq

theorem C02sub_G1Jac_mulBySeed_inplace {W : G1Jac F → G1Jac F} (hW : G1Jac.SeedSpec b W) (hc : (2 : F) ≠ 0) {q : G1Jac F}
    (hq : q.Rep b Q) : (G1Jac.mulBySeed_p_eq_q q W).Rep b (seed • Q) := by
  rw [G1Jac.mulBySeed_p_eq_q_alias]; exact C02sub_G1Jac_mulBySeed hW hc hq

/-- the translated `phi`: X ← X·thirdRootOneG1 represents φ(P), φ(x, y) = (x·ω, y) (`Subgroup.phiPt`, additive: `Subgroup.phiPt_add`) -/
theorem C02sub_G1Jac_phi {ω : F} (hω : ω ^ 3 = 1) {q : G1Jac F} (hq : q.Rep b Q) :
    (G1Jac.phi q ω).1.Rep b (phiPt b ω hω Q) := JacPt.phi hω hq

theorem C02sub_G1Jac_Neg_inplace {q : G1Jac F} (hq : q.Rep b Q) : (G1Jac.Neg_p_eq_q q).Rep b (-Q) := by
  rw [G1Jac.Neg_p_eq_q_alias]; exact C02gen_G1Jac_Neg hq

/-! ### the subgroup test -/

/-- the group-level criterion the Go text computes: φ(P − [x]P) − [x]P + [x⁴]P + [x⁵]P = O (exit `r.Z.IsZero()`) -/
def G1Criterion (b ω : F) (hω : ω ^ 3 = 1) (P : (sw 0 b).Point) : Prop :=
  phiPt b ω hω (P - seed • P) - seed • P + seed • seed • seed • seed • P + seed • seed • seed • seed • seed • P = 0

/-- SPEC of `(*G1Jac).IsInSubGroup`: on every representative of a curve point (any Z-scaling, infinity included), exactly
`IsOnCurve ∧ criterion` -/
theorem C02sub_G1Jac_IsInSubGroup_spec (hc : (2 : F) ≠ 0) {ω : F} (hω : ω ^ 3 = 1) {W : G1Jac F → G1Jac F} (hW : G1Jac.SeedSpec b W) {p : G1Jac F} (hp : p.Rep b P) :
    G1Jac.IsInSubGroup p W ω = true ↔ (G1Jac.IsOnCurve p = true ∧ G1Criterion b ω hω P) := by
  have huP := C02sub_G1Jac_mulBySeed hW hc hp
  have hu4 := C02sub_G1Jac_mulBySeed_inplace hW hc (C02sub_G1Jac_mulBySeed_inplace hW hc (C02sub_G1Jac_mulBySeed hW hc huP))
  have hu5 := C02sub_G1Jac_mulBySeed hW hc hu4
  have hq := C02gen_G1Jac_SubAssign hc (C02gen_G1Jac_Set hp) huP
  have hr := C02gen_G1Jac_AddAssign hc (C02gen_G1Jac_AddAssign hc (C02gen_G1Jac_SubAssign hc (C02sub_G1Jac_phi hω hq) huP) hu4) hu5
  have h5 := decide_eq_true_iff.trans (JacPt.Z_eq_zero_iff hr)
  unfold G1Jac.IsInSubGroup G1Criterion
  cases hon : G1Jac.IsOnCurve p
  · simp
  · simpa using h5

/-- `(*G1Affine).IsInSubGroup` = `FromAffine`, then the Jacobian test -/
theorem C02sub_G1Affine_IsInSubGroup_spec (hc : (2 : F) ≠ 0) {ω : F} (hω : ω ^ 3 = 1) {W : G1Jac F → G1Jac F} (hW : G1Jac.SeedSpec b W) {a : G1Affine F} (ha : a.Rep b P) :
    G1Affine.IsInSubGroup a W ω = true ↔ (G1Jac.IsOnCurve (G1Jac.FromAffine a).1 = true ∧ G1Criterion b ω hω P) := by
  unfold G1Affine.IsInSubGroup
  exact C02sub_G1Jac_IsInSubGroup_spec hc hω hW (C02gen_G1Jac_FromAffine ha)

/-- on a point of order dividing r' on which φ acts as [lam'], the criterion holds as soon as r' ∣ N(xGen, lam')
(N = the integer the Go text evaluates; φ is additive) -/
theorem g1Criterion_of_eigen (hc : (2 : F) ≠ 0) {ω : F} (hω : ω ^ 3 = 1) {r' lam' : ℤ}
    (hdiv : r' ∣ lam' - seed * lam' - seed + seed * seed * seed * seed + seed * seed * seed * seed * seed) (hr : r' • P = 0) (hφ : phiPt b ω hω P = lam' • P) : G1Criterion b ω hω P := by
  have h0 : (lam' - seed * lam' - seed + seed * seed * seed * seed + seed * seed * seed * seed * seed) • P = 0 := zsmul_eq_zero_of_dvd hr hdiv
  unfold G1Criterion
  have e1 : phiPt b ω hω (P - seed • P) = lam' • P - seed • lam' • P := by
    have := map_sub (phiHom b ω hc hω) P (seed • P)
    rw [map_zsmul] at this
    simpa [hφ] using this
  rw [e1]
  have key : lam' • P - seed • lam' • P - seed • P + seed • seed • seed • seed • P + seed • seed • seed • seed • seed • P = (lam' - seed * lam' - seed + seed * seed * seed * seed + seed * seed * seed * seed * seed) • P := by module
  rw [key]; exact h0

/-- the constant fact behind the forward direction: r ∣ N(xGen, lambdaGLV) (regenerated `xGen`, `lambdaGLV`, `fr.q`) -/
theorem C02sub_g1_seed_lambda_r : (lam - seed * lam - seed + seed * seed * seed * seed + seed * seed * seed * seed * seed) % rOrd = 0 := by decide +kernel

/-- FORWARD (completeness of the test): an r-torsion point on which φ acts as [λ] passes -/
theorem C02sub_G1Jac_IsInSubGroup_complete (hc : (2 : F) ≠ 0) {ω : F} (hω : ω ^ 3 = 1) {W : G1Jac F → G1Jac F} (hW : G1Jac.SeedSpec b W) {p : G1Jac F} (hp : p.Rep b P)
    (hon : G1Jac.IsOnCurve p = true) (hr : rOrd • P = 0) (hφ : phiPt b ω hω P = lam • P) :
    G1Jac.IsInSubGroup p W ω = true :=
  (C02sub_G1Jac_IsInSubGroup_spec hc hω hW hp).mpr
    ⟨hon, g1Criterion_of_eigen hc hω (Int.dvd_of_emod_eq_zero C02sub_g1_seed_lambda_r) hr hφ⟩

/-- … hence every element of the cyclic group generated by a G with r • G = 0 and φ G = λ • G passes (φ additive; for the
package generator the two premises are the `decide +kernel` facts `C03gen.bw6_633.g1_on_curve_and_order_r`, `glv_g1` of the
executable curve model) -/
theorem C02sub_G1Jac_IsInSubGroup_on_generated (hc : (2 : F) ≠ 0) {ω : F} (hω : ω ^ 3 = 1) {W : G1Jac F → G1Jac F} (hW : G1Jac.SeedSpec b W) {G : (sw 0 b).Point}
    (hrG : rOrd • G = 0) (hφG : phiPt b ω hω G = lam • G) (k : ℤ) {p : G1Jac F} (hp : p.Rep b (k • G))
    (hon : G1Jac.IsOnCurve p = true) : G1Jac.IsInSubGroup p W ω = true :=
  C02sub_G1Jac_IsInSubGroup_complete hc hω hW hp hon (torsion_on_cyclic hrG k)
    (eigen_on_cyclic (phiHom b ω hc hω) hφG k)

/-- CONVERSE (soundness of the criterion) — the PUBLISHED result, NOT proved here (El Housni–Guillevic 2022 §3.3 (BW6 subgroup membership)): the points satisfying the
criterion are r-torsion. A hypothesis with a name; nothing but `C02sub_G1Jac_IsInSubGroup_sound` uses it. It is FALSE on this curve when b is a square: `C02sub_G1Jac_order3_point_passes`. -/
def G1FastTestSound (b ω : F) (hω : ω ^ 3 = 1) : Prop := ∀ P : (sw 0 b).Point, G1Criterion b ω hω P → rOrd • P = 0

theorem C02sub_G1Jac_IsInSubGroup_sound (hc : (2 : F) ≠ 0) {ω : F} (hω : ω ^ 3 = 1) {W : G1Jac F → G1Jac F} (hW : G1Jac.SeedSpec b W) (hs : G1FastTestSound b ω hω)
    {p : G1Jac F} (hp : p.Rep b P) (h : G1Jac.IsInSubGroup p W ω = true) : rOrd • P = 0 :=
  hs P ((C02sub_G1Jac_IsInSubGroup_spec hc hω hW hp).mp h).2

/-! ### the known finding, kernel-checked: the order-3 points (0, ±√b) pass the test -/

/-- 3 ∣ N(xGen, 1): on a point fixed by φ the test only sees the order modulo 3 -/
theorem C02sub_g1_seed_mod3 : (1 - seed * 1 - seed + seed * seed * seed * seed + seed * seed * seed * seed * seed) % 3 = 0 := by decide +kernel

/-- KNOWN FINDING (ecc/bw6-633 G1, see known_findings.json / C07): for every y with y² = b the point P = (0, y) has order 3, is
NOT in the r-torsion, and every on-curve representative of it PASSES the translated `IsInSubGroup` (φ fixes P, so the test
evaluates [N(x, 1)]P with 3 ∣ N(x, 1)). In particular `G1FastTestSound` is FALSE on this curve whenever b is a square. -/
theorem C02sub_G1Jac_order3_point_passes (hc : (2 : F) ≠ 0) {ω : F} (hω : ω ^ 3 = 1) {W : G1Jac F → G1Jac F} (hW : G1Jac.SeedSpec b W) {y : F} (hy : y ^ 2 = b) (hb : b ≠ 0) :
    ∃ h : (sw 0 b).Nonsingular 0 y,
      (3 : ℤ) • (Affine.Point.some 0 y h) = 0 ∧ ¬ rOrd • (Affine.Point.some 0 y h) = 0 ∧
      G1Criterion b ω hω (Affine.Point.some 0 y h) ∧
      ∀ p : G1Jac F, p.Rep b (Affine.Point.some 0 y h) → G1Jac.IsOnCurve p = true → G1Jac.IsInSubGroup p W ω = true := by
  have hy0 : y ≠ 0 := by rintro rfl; exact hb (by rw [← hy]; ring)
  have h : (sw 0 b).Nonsingular 0 y := by
    rw [Affine.nonsingular_iff]
    refine ⟨?_, Or.inr ?_⟩
    · rw [sw_equation_iff]; simp only [OnCurve]; rw [hy]; ring
    · simp only [sw]
      intro h2
      have : 2 * y = 0 := by linear_combination h2
      exact hy0 ((mul_eq_zero.mp this).resolve_left hc)
  refine ⟨h, ?_⟩
  set P := Affine.Point.some 0 y h with hP
  have hφ : phiPt b ω hω P = (1 : ℤ) • P := by
    rw [one_smul, hP, phiPt_some]; exact some_congr _ _ (zero_mul ω) rfl
  have h2 : P + P = -P := by
    obtain ⟨h3, e3⟩ := C02_tangent_is_group_double hc h hy0
    obtain ⟨h', e'⟩ := neg_some_sw h
    rw [hP, e3, e']
    exact some_congr _ _ (by simp [tangent]) (by simp [tangent])
  have h3 : (3 : ℤ) • P = 0 := by
    have e : (3 : ℤ) • P = (P + P) + P := by module
    rw [e, h2, neg_add_cancel]
  have hcrit : G1Criterion b ω hω P :=
    g1Criterion_of_eigen hc hω (Int.dvd_of_emod_eq_zero C02sub_g1_seed_mod3) h3 hφ
  refine ⟨h3, ?_, hcrit, fun p hp hon => (C02sub_G1Jac_IsInSubGroup_spec hc hω hW hp).mpr ⟨hon, hcrit⟩⟩
  intro hr
  obtain ⟨k, hk⟩ : ∃ k : ℤ, rOrd = 3 * k + 1 := ⟨rOrd / 3, by decide +kernel⟩
  rw [hk, add_smul, mul_comm, mul_smul, h3, smul_zero, zero_add, one_smul] at hr
  exact absurd hr (by rw [hP]; intro h0; cases h0)

end g1

/-! ## G2 -/
section g2
variable {F : Type} [Field F] [DecidableEq F] {b : F} {P Q : (sw 0 b).Point}

theorem G2Jac.rep_add (hc : (2 : F) ≠ 0) {p q : G2Jac F} {m n : ℤ} (hp : p.Rep b (m • Q)) (hq : q.Rep b (n • Q)) :
    (G2Jac.AddAssign p q).1.Rep b ((m + n) • Q) := by
  rw [add_smul]; exact C02gen_G2Jac_AddAssign hc hp hq
theorem G2Jac.rep_sub (hc : (2 : F) ≠ 0) {p q : G2Jac F} {m n : ℤ} (hp : p.Rep b (m • Q)) (hq : q.Rep b (n • Q)) :
    (G2Jac.SubAssign p q).1.Rep b ((m - n) • Q) := by
  rw [sub_smul]; exact C02gen_G2Jac_SubAssign hc hp hq
theorem G2Jac.rep_dbl (hc : (2 : F) ≠ 0) {q : G2Jac F} {m : ℤ} (hq : q.Rep b (m • Q)) :
    (G2Jac.Double q).1.Rep b ((2 * m) • Q) := by
  rw [two_mul, add_smul]; exact C02gen_G2Jac_Double hc hq
theorem G2Jac.rep_dbl' (hc : (2 : F) ≠ 0) {q : G2Jac F} {m : ℤ} (hq : q.Rep b (m • Q)) :
    (G2Jac.Double_p_eq_q q).Rep b ((2 * m) • Q) := by
  rw [G2Jac.Double_p_eq_q_alias]; exact G2Jac.rep_dbl hc hq
theorem G2Jac.rep_neg {q : G2Jac F} {m : ℤ} (hq : q.Rep b (m • Q)) : (G2Jac.Neg q).1.Rep b ((-m) • Q) := by
  rw [neg_smul]; exact C02gen_G2Jac_Neg hq
theorem G2Jac.rep_set {q : G2Jac F} {m : ℤ} (hq : q.Rep b (m • Q)) : (G2Jac.Set q).1.Rep b (m • Q) := hq
theorem G2Jac.rep_repeat {f : G2Jac F → G2Jac F}
    (hf : ∀ (st : G2Jac F) (m : ℤ), st.Rep b (m • Q) → (f st).Rep b ((2 * m) • Q))
    (n : ℕ) {q : G2Jac F} {m : ℤ} (hq : q.Rep b (m • Q)) : (Nat.repeat f n q).Rep b ((2 ^ n * m) • Q) := by
  induction n with
  | zero => simpa [Nat.repeat] using hq
  | succ k ih =>
    have := hf _ _ ih
    rw [show (2 : ℤ) ^ (k + 1) * m = 2 * (2 ^ k * m) by ring]
    exact this
theorem G2Jac.rep_cast {q : G2Jac F} {m n : ℤ} (hq : q.Rep b (m • Q)) (h : m = n) : q.Rep b (n • Q) := h ▸ hq

/-- one Go statement of a `mulBySeed` chain -/
macro "gv_seed_step_g2" hc:term : tactic => `(tactic| first
  | exact G2Jac.rep_add $hc (by assumption) (by assumption)
  | exact G2Jac.rep_sub $hc (by assumption) (by assumption)
  | exact G2Jac.rep_dbl $hc (by assumption)
  | exact G2Jac.rep_dbl' $hc (by assumption)
  | exact G2Jac.rep_neg (by assumption)
  | exact G2Jac.rep_set (by assumption)
  | exact G2Jac.rep_repeat (fun _ _ h => G2Jac.rep_dbl' $hc h) _ (by assumption))

/-- SPECIFICATION of the primitive `mulWindowed(q, &xGen)` (this package implements `mulBySeed` as `p.mulWindowed(q, &xGen)`;
the window loop over a big.Int is a hand model tied by K, C03 `mulWindowed`): the result represents `xGen • Q`.
A HYPOTHESIS of every theorem of this section (`hW`). -/
def G2Jac.SeedSpec (b : F) (W : G2Jac F → G2Jac F) : Prop :=
  ∀ (q : G2Jac F) (Q : (sw 0 b).Point), q.Rep b Q → (W q).Rep b (seed • Q)

theorem C02sub_G2Jac_mulBySeed {W : G2Jac F → G2Jac F} (hW : G2Jac.SeedSpec b W) (hc : (2 : F) ≠ 0) {q : G2Jac F} (hq : q.Rep b Q) :
    (G2Jac.mulBySeed q W).1.Rep b (seed • Q) := hW q Q hq

theorem C02sub_G2Jac_mulBySeed_inplace {W : G2Jac F → G2Jac F} (hW : G2Jac.SeedSpec b W) (hc : (2 : F) ≠ 0) {q : G2Jac F}
    (hq : q.Rep b Q) : (G2Jac.mulBySeed_p_eq_q q W).Rep b (seed • Q) := by
  rw [G2Jac.mulBySeed_p_eq_q_alias]; exact C02sub_G2Jac_mulBySeed hW hc hq

/-- the translated `phi`: X ← X·thirdRootOneG2 represents φ(P), φ(x, y) = (x·ω, y) (`Subgroup.phiPt`, additive: `Subgroup.phiPt_add`) -/
theorem C02sub_G2Jac_phi {ω : F} (hω : ω ^ 3 = 1) {q : G2Jac F} (hq : q.Rep b Q) :
    (G2Jac.phi q ω).1.Rep b (phiPt b ω hω Q) := JacPt.phi hω hq

theorem C02sub_G2Jac_Neg_inplace {q : G2Jac F} (hq : q.Rep b Q) : (G2Jac.Neg_p_eq_q q).Rep b (-Q) := by
  rw [G2Jac.Neg_p_eq_q_alias]; exact C02gen_G2Jac_Neg hq

/-! ### the subgroup test -/

/-- the group-level criterion the Go text computes: φ(P − [x]P) − [x]P + [x⁴]P + [x⁵]P = O (exit `r.Z.IsZero()`) -/
def G2Criterion (b ω : F) (hω : ω ^ 3 = 1) (P : (sw 0 b).Point) : Prop :=
  phiPt b ω hω (P - seed • P) - seed • P + seed • seed • seed • seed • P + seed • seed • seed • seed • seed • P = 0

/-- SPEC of `(*G2Jac).IsInSubGroup`: on every representative of a curve point (any Z-scaling, infinity included), exactly
`IsOnCurve ∧ criterion` -/
theorem C02sub_G2Jac_IsInSubGroup_spec (hc : (2 : F) ≠ 0) {ω : F} (hω : ω ^ 3 = 1) {W : G2Jac F → G2Jac F} (hW : G2Jac.SeedSpec b W) {p : G2Jac F} (hp : p.Rep b P) :
    G2Jac.IsInSubGroup p W ω = true ↔ (G2Jac.IsOnCurve p = true ∧ G2Criterion b ω hω P) := by
  have huP := C02sub_G2Jac_mulBySeed hW hc hp
  have hu4 := C02sub_G2Jac_mulBySeed_inplace hW hc (C02sub_G2Jac_mulBySeed_inplace hW hc (C02sub_G2Jac_mulBySeed hW hc huP))
  have hu5 := C02sub_G2Jac_mulBySeed hW hc hu4
  have hq := C02gen_G2Jac_SubAssign hc (C02gen_G2Jac_Set hp) huP
  have hr := C02gen_G2Jac_AddAssign hc (C02gen_G2Jac_AddAssign hc (C02gen_G2Jac_SubAssign hc (C02sub_G2Jac_phi hω hq) huP) hu4) hu5
  have h5 := decide_eq_true_iff.trans (JacPt.Z_eq_zero_iff hr)
  unfold G2Jac.IsInSubGroup G2Criterion
  cases hon : G2Jac.IsOnCurve p
  · simp
  · simpa using h5

/-- `(*G2Affine).IsInSubGroup` = `FromAffine`, then the Jacobian test -/
theorem C02sub_G2Affine_IsInSubGroup_spec (hc : (2 : F) ≠ 0) {ω : F} (hω : ω ^ 3 = 1) {W : G2Jac F → G2Jac F} (hW : G2Jac.SeedSpec b W) {a : G2Affine F} (ha : a.Rep b P) :
    G2Affine.IsInSubGroup a W ω = true ↔ (G2Jac.IsOnCurve (G2Jac.FromAffine a).1 = true ∧ G2Criterion b ω hω P) := by
  unfold G2Affine.IsInSubGroup
  exact C02sub_G2Jac_IsInSubGroup_spec hc hω hW (C02gen_G2Jac_FromAffine ha)

/-- on a point of order dividing r' on which φ acts as [lam'], the criterion holds as soon as r' ∣ N(xGen, lam')
(N = the integer the Go text evaluates; φ is additive) -/
theorem g2Criterion_of_eigen (hc : (2 : F) ≠ 0) {ω : F} (hω : ω ^ 3 = 1) {r' lam' : ℤ}
    (hdiv : r' ∣ lam' - seed * lam' - seed + seed * seed * seed * seed + seed * seed * seed * seed * seed) (hr : r' • P = 0) (hφ : phiPt b ω hω P = lam' • P) : G2Criterion b ω hω P := by
  have h0 : (lam' - seed * lam' - seed + seed * seed * seed * seed + seed * seed * seed * seed * seed) • P = 0 := zsmul_eq_zero_of_dvd hr hdiv
  unfold G2Criterion
  have e1 : phiPt b ω hω (P - seed • P) = lam' • P - seed • lam' • P := by
    have := map_sub (phiHom b ω hc hω) P (seed • P)
    rw [map_zsmul] at this
    simpa [hφ] using this
  rw [e1]
  have key : lam' • P - seed • lam' • P - seed • P + seed • seed • seed • seed • P + seed • seed • seed • seed • seed • P = (lam' - seed * lam' - seed + seed * seed * seed * seed + seed * seed * seed * seed * seed) • P := by module
  rw [key]; exact h0

/-- the constant fact behind the forward direction: r ∣ N(xGen, lambdaGLV) (regenerated `xGen`, `lambdaGLV`, `fr.q`) -/
theorem C02sub_g2_seed_lambda_r : (lam - seed * lam - seed + seed * seed * seed * seed + seed * seed * seed * seed * seed) % rOrd = 0 := by decide +kernel

/-- FORWARD (completeness of the test): an r-torsion point on which φ acts as [λ] passes -/
theorem C02sub_G2Jac_IsInSubGroup_complete (hc : (2 : F) ≠ 0) {ω : F} (hω : ω ^ 3 = 1) {W : G2Jac F → G2Jac F} (hW : G2Jac.SeedSpec b W) {p : G2Jac F} (hp : p.Rep b P)
    (hon : G2Jac.IsOnCurve p = true) (hr : rOrd • P = 0) (hφ : phiPt b ω hω P = lam • P) :
    G2Jac.IsInSubGroup p W ω = true :=
  (C02sub_G2Jac_IsInSubGroup_spec hc hω hW hp).mpr
    ⟨hon, g2Criterion_of_eigen hc hω (Int.dvd_of_emod_eq_zero C02sub_g2_seed_lambda_r) hr hφ⟩

/-- … hence every element of the cyclic group generated by a G with r • G = 0 and φ G = λ • G passes (φ additive; for the
package generator the two premises are the `decide +kernel` facts `C03gen.bw6_633.g2_on_curve_and_order_r`, `glv_g2` of the
executable curve model) -/
theorem C02sub_G2Jac_IsInSubGroup_on_generated (hc : (2 : F) ≠ 0) {ω : F} (hω : ω ^ 3 = 1) {W : G2Jac F → G2Jac F} (hW : G2Jac.SeedSpec b W) {G : (sw 0 b).Point}
    (hrG : rOrd • G = 0) (hφG : phiPt b ω hω G = lam • G) (k : ℤ) {p : G2Jac F} (hp : p.Rep b (k • G))
    (hon : G2Jac.IsOnCurve p = true) : G2Jac.IsInSubGroup p W ω = true :=
  C02sub_G2Jac_IsInSubGroup_complete hc hω hW hp hon (torsion_on_cyclic hrG k)
    (eigen_on_cyclic (phiHom b ω hc hω) hφG k)

/-- CONVERSE (soundness of the criterion) — the PUBLISHED result, NOT proved here (El Housni–Guillevic 2022 §3.3 (BW6 subgroup membership)): the points satisfying the
criterion are r-torsion. A hypothesis with a name; nothing but `C02sub_G2Jac_IsInSubGroup_sound` uses it. -/
def G2FastTestSound (b ω : F) (hω : ω ^ 3 = 1) : Prop := ∀ P : (sw 0 b).Point, G2Criterion b ω hω P → rOrd • P = 0

theorem C02sub_G2Jac_IsInSubGroup_sound (hc : (2 : F) ≠ 0) {ω : F} (hω : ω ^ 3 = 1) {W : G2Jac F → G2Jac F} (hW : G2Jac.SeedSpec b W) (hs : G2FastTestSound b ω hω)
    {p : G2Jac F} (hp : p.Rep b P) (h : G2Jac.IsInSubGroup p W ω = true) : rOrd • P = 0 :=
  hs P ((C02sub_G2Jac_IsInSubGroup_spec hc hω hW hp).mp h).2

end g2

end GV.Gen.Curve.bw6_633
