import GnarkVerif.Props.C08_gen_bn254_fr
import GnarkVerif.Props.C08_gen_bn254_fp
import GnarkVerif.Props.C08_gen_bls12_377_fr
import GnarkVerif.Props.C08_gen_bls12_381_fr
import GnarkVerif.Props.C08_gen_bls24_315_fr
import GnarkVerif.Props.C08_gen_bls24_317_fr
import GnarkVerif.Props.C08_gen_grumpkin_fp
import GnarkVerif.Props.C08_gen_grumpkin_fr
import GnarkVerif.Props.C08_gen_secp256k1_fp
import GnarkVerif.Props.C08_gen_secp256k1_fr
import GnarkVerif.Props.C08_gen_stark_curve_fp
import GnarkVerif.Props.C08_gen_stark_curve_fr
import GnarkVerif.Props.C08_gen_bls24_315_fp
import GnarkVerif.Props.C08_gen_bls24_317_fp
import GnarkVerif.Props.C08_gen_bw6_633_fr
import GnarkVerif.Props.C08_gen_bls12_377_fp
import GnarkVerif.Props.C08_gen_bls12_381_fp
import GnarkVerif.Props.C08_gen_bw6_761_fr
import GnarkVerif.Props.C08_gen_goldilocks
import GnarkVerif.Props.C08_gen_koalabear
import GnarkVerif.Props.C08_gen_babybear
import GnarkVerif.Props.C08_gen_bw6_633_fp
import GnarkVerif.Props.C08_gen_bw6_761_fp
/-
C08_gen — tie T for the byte <-> limb conversions of the field packages: every theorem below is about definitions REGENERATED from
/repo on every run (Gen/Bytes/<Field>.lean by tools/goslp/bytes.go, calling Gen/Limb/<Field>.lean by tools/goslp/limb.go).
Per field (namespace GV.C08gen.<field>), for ALL byte arrays / slices and ALL canonical elements:
* `bigEndian_PutElement_spec`, `littleEndian_PutElement_spec`: the bytes written are `Conv.toBytesBE/LE Bytes (fromMont (val z))`;
* `bigEndian_Element_reject / _accept / _err_iff / _model` (and littleEndian): error IFF value >= q, otherwise the canonical Montgomery
  element of the value; the hand model `Conv.elementBE/LE` is the generated decoder followed by `fromMont`;
* `bigEndian_roundtrip`, `bigEndian_roundtrip_inv` (and littleEndian): Element (PutElement z) = (z, nil); PutElement (Element b) = b when accepted;
* `Bytes_spec`, `SetBytesCanonical_eq / _spec / _model`, `SetBytes_spec` (fast path on canonical Bytes-long input, the PARAMETER
  `setBigIntBE e` on every other input), `SetBytes_lenient` (with the parameter specified as be(e) mod q: = `Conv.setBytes`);
* `Bits_spec`, `Uint64_spec`, `FitsOnOneWord_spec`, `IsUint64_spec`, `SetUint64_spec`.
21 fields unconditionally (18 fields of 4/5/6 words through C01_limb's Mul_spec / fromMontGeneric_spec; goldilocks; koalabear and babybear, whose
toMont is a shift and a remainder). bw6_633_fp (10 words) and bw6_761_fp (12 words): every theorem takes the hypothesis `MontSpec` (toMont = Mul by
rSquare and _fromMontGeneric meet GV.Field.toMont / fromMont): C01_limb has per-round theorems only for these two fields, the composed functions are
not proved there; wiring, strictness, dispatch and round trips are proved from that one hypothesis. goldilocks `SetUint64_spec` needs v < q (Mul_spec
of C01_limb wants a reduced operand). NOT covered: SetBigInt / SetString / Text / JSON / vectors (math/big, io: hand model + K).
-/
