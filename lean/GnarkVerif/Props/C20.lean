import GnarkVerif.Proofs.Poly
import GnarkVerif.Proofs.PolyDerived
import Mathlib.Algebra.Field.ZMod
import Mathlib.Tactic.IntervalCases
/-
C20 — polynomial values are invariant under every change of representation.

Theorems about the executable model `GnarkVerif/Model/Poly.lean` of the generated `iop` and `polynomial` packages
(7 scalar fields; tie to the Go code = correspondence K, tools/harness/c20.go + c20_curves.go), over an ARBITRARY
commutative ring / field, for EVERY size `2^m`, every kernel set, every integer shift, every point.

  `Denotes d p a` : the object `p` denotes the polynomial with coefficient list `a` (`|a| = 2^m`): its stored vector
                    is `a` (Canonical), the values of `a` on `ωⁱ` (Lagrange) or on `g·ωⁱ` (LagrangeCoset), in natural
                    or bit-reversed order; a LagrangeCoset object knows its coset shift.
  `Good d`        : `ω^(2^(m-1)) = -1`, `ω·ω⁻¹ = 1`, `g·g⁻¹ = 1`, `n·n⁻¹ = 1` (the C10 hypotheses).
  `evalAt a x`    : `Σ aⱼ xʲ` (C10).

The model follows the property where the Go code does not; the literal Go behaviour is kept in `evaluateGo` /
`evalLagrangeGo` and characterised by C20_go_evaluate_canonical / C20_go_lagrange_domain_point (findings).
-/
namespace GV.Poly
open GV.FFT GV.ForkJoin Finset
set_option linter.unusedSectionVars false

/-! ### non-vacuity material: `ZMod 5`, `n = 4`, `ω = 2`, `g = 2` (the C10 example domain) -/

theorem exGood : Good (exD true) :=
  ⟨by show (2 : ZMod 5)^(2^1) = -1; decide, by decide, by decide, by decide⟩

def exP : Poly (ZMod 5) := ⟨[1, 2, 3, 4], .canonical, false, 0, 4, 0⟩
def exEnv : Env (ZMod 5) := ⟨fun x => x⁻¹, List.map (fun x => x⁻¹), fun _ => 2, fun _ => 3⟩
/-- the same environment with a kernel-computable inverse (`x⁻¹ = x³` in `ZMod 5`), for the `decide` examples -/
def exEnvC : Env (ZMod 5) := ⟨fun x => x^3, List.map (fun x => x^3), fun _ => 2, fun _ => 3⟩
instance : Fact (Nat.Prime 5) := ⟨by decide⟩
theorem exInv : (3 : ZMod 5) = 2⁻¹ := eq_inv_of_mul_eq_one_left (show (3 : ZMod 5) * 2 = 1 by decide)

theorem exDen : Denotes (exD true) exP [1, 2, 3, 4] := by unfold Denotes; decide

section Ring
variable {R : Type} [CommRing R]

/-- **dispatch table**: for each of the 6×3 (form, target) cases that do something, the listed
    `FFT`/`FFTInverse` calls (decimation, coset option) and the new layout map the stored vector of `a` to the stored
    vector of the SAME `a` in the target form -/
theorem C20_dispatch_sound (kers : List Nat) (d : Domain R) (hd : Good d) (a : List R) (ha : a.length = 2^d.m)
    (t b : Basis) (br : Bool) (calls : List Call) (lay' : Bool) (h : dispatch t b br = some (calls, lay')) :
    calls.foldl (applyCall kers d) (lay d.m br (vecOf d b a)) = lay d.m lay' (vecOf d t a) :=
  dispatch_sound kers d hd a ha t b br calls lay' h

example : dispatch .lagrange .lagrangeCoset true = some ([⟨true, false, true⟩, ⟨false, true, false⟩], true) := rfl

/-- **ToLagrange** preserves the denotation (all 6 source forms) -/
theorem C20_toLagrange (kers : List Nat) (d : Domain R) (hd : Good d) (p : Poly R) (a : List R)
    (h : Denotes d p a) : Denotes d (toLagrange kers d p) a ∧ (toLagrange kers d p).basis = .lagrange := by
  refine ⟨convert_denotes kers _ d hd p a h, ?_⟩
  unfold toLagrange convert
  cases hdis : dispatch .lagrange p.basis p.bitrev with
  | none => exact (dispatch_none _ _ _ hdis).symm
  | some cl => rfl

/-- **ToCanonical** preserves the denotation -/
theorem C20_toCanonical (kers : List Nat) (d : Domain R) (hd : Good d) (p : Poly R) (a : List R)
    (h : Denotes d p a) : Denotes d (toCanonical kers d p) a ∧ (toCanonical kers d p).basis = .canonical := by
  refine ⟨convert_denotes kers _ d hd p a h, ?_⟩
  unfold toCanonical convert
  cases hdis : dispatch .canonical p.basis p.bitrev with
  | none => exact (dispatch_none _ _ _ hdis).symm
  | some cl => rfl

/-- **ToLagrangeCoset** preserves the denotation (and records the coset shift) -/
theorem C20_toLagrangeCoset (kers : List Nat) (d : Domain R) (hd : Good d) (p : Poly R) (a : List R)
    (h : Denotes d p a) :
    Denotes d (toLagrangeCoset kers d p) a ∧ (toLagrangeCoset kers d p).basis = .lagrangeCoset := by
  refine ⟨convert_denotes kers _ d hd p a h, ?_⟩
  unfold toLagrangeCoset convert
  cases hdis : dispatch .lagrangeCoset p.basis p.bitrev with
  | none => exact (dispatch_none _ _ _ hdis).symm
  | some cl => rfl

/-- **ToRegular / ToBitReverse** preserve the denotation and set the layout -/
theorem C20_toRegular (d : Domain R) (p : Poly R) (a : List R) (h : Denotes d p a) :
    Denotes d (toRegular p) a ∧ (toRegular p).bitrev = false := by
  refine ⟨toRegular_denotes d p a h, ?_⟩
  unfold toRegular; split <;> simp_all

theorem C20_toBitReverse (d : Domain R) (p : Poly R) (a : List R) (h : Denotes d p a) :
    Denotes d (toBitReverse p) a ∧ (toBitReverse p).bitrev = true := by
  refine ⟨toBitReverse_denotes d p a h, ?_⟩
  unfold toBitReverse; split <;> simp_all

example : Denotes (exD true) (toBitReverse (toLagrangeCoset [5, 8] (exD true) (toLagrange [] (exD true) exP)))
    [1, 2, 3, 4] :=
  (C20_toBitReverse _ _ _ (C20_toLagrangeCoset _ _ exGood _ _ (C20_toLagrange _ _ exGood _ _ exDen).1).1).1
example : (toLagrange [] (exD true) exP).coeffs = [0, 3, 4, 2] ∧ (toLagrange [] (exD true) exP).bitrev = true := by
  decide

/-- **every finite sequence of conversions / clones preserves the denotation**, the shift and the size
    (induction on the sequence) -/
theorem C20_conversion_sequence (kers : List Nat) (d : Domain R) (hd : Good d) (ops : List Op) (p : Poly R)
    (a : List R) (h : Denotes d p a) :
    Denotes d (applyOps kers d ops p) a ∧ (applyOps kers d ops p).shift = p.shift ∧
      (applyOps kers d ops p).size = p.size :=
  applyOps_denotes kers d hd ops p a h

example : Denotes (exD true)
    (applyOps [5, 8] (exD true) [.toLagrangeCoset, .toRegular, .clone, .toCanonical, .toBitReverse, .toLagrange] exP)
    [1, 2, 3, 4] := (C20_conversion_sequence _ _ exGood _ _ _ exDen).1

/-- **grow**: a Canonical/Regular object shorter than the domain is zero-padded by every conversion; padding does not
    change any value (`len ≤ Cardinality`; for the other forms `len = Cardinality` is a precondition) -/
theorem C20_grow (kers : List Nat) (t : Basis) (d : Domain R) (hd : Good d) (p : Poly R)
    (hb : p.basis = .canonical) (hr : p.bitrev = false) (hl : p.coeffs.length ≤ 2^d.m) :
    Denotes d (convert kers t d p) (grow (2^d.m) p.coeffs) ∧
      ∀ x, evalAt (grow (2^d.m) p.coeffs) x = evalAt p.coeffs x := by
  have hgl : (grow (2^d.m) p.coeffs).length = 2^d.m := by simp [grow]; omega
  have h0 : Denotes d { p with coeffs := grow (2^d.m) p.coeffs } (grow (2^d.m) p.coeffs) :=
    ⟨hgl, by simp [hb, hr, lay, vecOf], by simp [hb]⟩
  have h1 := convert_denotes kers t d hd _ _ h0
  have e : convert kers t d { p with coeffs := grow (2^d.m) p.coeffs } = convert kers t d p := by
    unfold convert
    simp only [grow_eq _ _ hgl]
  rw [e] at h1
  exact ⟨h1, fun x => evalAt_append_zeros _ _ x⟩

/-! ### the conversions the driver runs (`convertP`): padding in the layout of the object, coset shift kept by a no-op -/

/-- `growP` does nothing to an object that already has the length of the domain -/
theorem growP_full (p : Poly R) (m : Nat) (hl : p.coeffs.length = 2^m) : growP (2^m) p = p.coeffs := by
  unfold growP
  split
  · have h1 : (flip p).length = 2^m := by rw [flip_eq p m hl]; simp [hl]
    rw [grow_eq _ _ h1, flip_eq p m hl, Nat.log2_two_pow]
    exact bitReverse_bitReverse m p.coeffs hl
  · exact grow_eq _ _ hl

/-- **`convertP` = the literal dispatch `convert` on every object that satisfies the precondition** (`Denotes`: stored
    length = cardinality, a LagrangeCoset object lives on the coset of the domain it is converted with): all theorems
    about `convert` (C20_toLagrange … C20_evaluate_invariant, and the tie to the Go dispatch in Props/C20_gen) are
    theorems about what the driver runs -/
theorem C20_convertP_agrees [DecidableEq R] (kers : List Nat) (t : Basis) (d : Domain R) (p : Poly R) (a : List R)
    (h : Denotes d p a) : convertP kers t d p = convert kers t d p := by
  have hl := h.length
  have e : ({ p with coeffs := growP (2^d.m) p } : Poly R) = p := by rw [growP_full p d.m hl]
  unfold convertP
  rw [e]
  cases hdis : dispatch t p.basis p.bitrev with
  | some cl => rfl
  | none =>
    have ht := dispatch_none _ _ _ hdis
    simp only
    unfold convert
    simp only [hdis]
    by_cases hk : t = .lagrangeCoset
    · have hc : p.coset = d.g := h.2.2 (ht ▸ hk)
      simp [hk, hc]
    · simp [hk]

/-- **grow in BitReverse layout**: a Canonical/BitReverse object of length `2^k ≤` cardinality is padded in natural
    order: after every conversion it denotes its own coefficient list followed by zeroes, and no value changes.
    (The literal `grow` appends the zeroes to the bit-reversed vector, which denotes another polynomial: run on the real
    code by the `obj` lines.) -/
theorem C20_grow_bitreverse [DecidableEq R] (kers : List Nat) (t : Basis) (d : Domain R) (hd : Good d) (p : Poly R)
    (hb : p.basis = .canonical) (hr : p.bitrev = true) :
    Denotes d (convertP kers t d p) (grow (2^d.m) (regular p)) ∨ 2^d.m < p.coeffs.length := by
  by_cases hl : p.coeffs.length ≤ 2^d.m
  · left
    have hfl : (flip p).length = p.coeffs.length := by simp [flip]
    have hgl : (grow (2^d.m) (flip p)).length = 2^d.m := by simp [grow, hfl]; omega
    have h0 : Denotes d { p with coeffs := growP (2^d.m) p } (grow (2^d.m) (flip p)) :=
      ⟨hgl, by simp [growP, hb, hr, lay, vecOf, Nat.log2_two_pow], by simp [hb]⟩
    have h1 := convert_denotes kers t d hd _ _ h0
    have e : convertP kers t d p = convert kers t d { p with coeffs := growP (2^d.m) p } := by
      unfold convertP
      cases hdis : dispatch t p.basis p.bitrev with
      | some cl => rfl
      | none =>
        have ht := dispatch_none _ _ _ hdis
        simp only
        unfold convert
        simp only [hdis]
        have hk : t ≠ .lagrangeCoset := by rw [ht, hb]; decide
        simp [hk]
    rw [e]
    simpa [regular, hr] using h1
  · right; omega

/-- padding in natural order does not change any value -/
theorem C20_grow_bitreverse_value (n : Nat) (p : Poly R) (x : R) :
    evalAt (grow n (regular p)) x = evalAt (regular p) x := evalAt_append_zeros _ _ x

/-- **a conversion that converts nothing changes nothing**: `ToLagrangeCoset` with ANY domain of the right size (any
    coset shift) on an object that already is in LagrangeCoset form and knows its coset shift, `ToLagrange` on a Lagrange
    object, `ToCanonical` on a Canonical object -/
theorem C20_noop_conversion [DecidableEq R] (kers : List Nat) (t : Basis) (d : Domain R) (p : Poly R)
    (hb : p.basis = t) (hl : p.coeffs.length = 2^d.m) (hc : t = .lagrangeCoset → p.coset ≠ 0) :
    convertP kers t d p = p := by
  have e : ({ p with coeffs := growP (2^d.m) p } : Poly R) = p := by rw [growP_full p d.m hl]
  have hdis : dispatch t p.basis p.bitrev = none := by
    rw [hb]; cases t <;> cases p.bitrev <;> rfl
  unfold convertP
  rw [e]
  simp only [hdis]
  unfold convert
  simp only [hdis, grow_eq _ _ hl]
  by_cases hk : t = .lagrangeCoset
  · simp [hk, hc hk]
  · simp [hk]

example : (convertP [] .lagrangeCoset (exD true) (⟨[1, 2, 3, 4], .lagrangeCoset, false, 0, 4, 3⟩ : Poly (ZMod 5))).coset = 3
    ∧ (convertP [] .lagrangeCoset (exD true) (⟨[1, 2, 3, 4], .lagrangeCoset, false, 0, 4, 0⟩ : Poly (ZMod 5))).coset = 2 := by
  decide
example : (convertP [] .canonical (⟨3, 2, 3, 2, 3, 2, true⟩ : Domain (ZMod 5)) (⟨[1, 2], .canonical, true, 0, 2, 0⟩ : Poly (ZMod 5))).coeffs
    = [1, 0, 0, 0, 2, 0, 0, 0] := by decide

/-- **Horner** (both layouts read the natural-order vector): `r ← r·x + c[i]` computes `Σ cⱼ xʲ` -/
theorem C20_horner (c : List R) (x : R) : horner c x = ∑ j ∈ range c.length, c.getD j 0 * x ^ j := by
  rw [horner_eq, evalAt_eq]

example : horner [1, 2, 3] (2 : ZMod 5) = 2 := by decide

/-- **GetCoeff index arithmetic**: `GetCoeff(i)` is entry `(i + ρ·shift) mod n` (`ρ = n/size`, mathematical `mod`,
    every integer shift) of the natural-order vector, in both layouts -/
theorem C20_getCoeff_index (d : Domain R) (p : Poly R) (a : List R) (h : Denotes d p a) (i : Nat) :
    getCoeff p i = (vecOf d p.basis a).getD
      ((((i : Int) + ((2^d.m / p.size : Nat) : Int) * p.shift) % ((2^d.m : Nat) : Int)).toNat) 0 :=
  getCoeff_eq d p a h i

example : getCoeff (setShift (toBitReverse exP) (-1)) 0 = 4 := by decide

/-- **Clone / ShallowClone / SetSize / Shift** do not touch the stored vector, the form or the coset -/
theorem C20_clone_setSize (d : Domain R) (p : Poly R) (a : List R) (h : Denotes d p a) (s : Nat) (k : Int) :
    Denotes d (clone p) a ∧ Denotes d (shallowClone p) a ∧ Denotes d (setSize p s) a ∧ Denotes d (setShift p k) a :=
  ⟨h, h, h, h⟩

/-- **iop.Evaluate (expressions)**: natural-order entry `i` of the result is `f(i, x₀.GetCoeff(i), x₁.GetCoeff(i), …)`
    whatever the (mixed) forms of the operands and the requested layout; size of `x₀`, shift 0 -/
theorem C20_expression (f : Nat → List R → R) (b : Basis) (br : Bool) (x0 : Poly R) (xs : List (Poly R)) (m : Nat)
    (hl : ∀ x ∈ x0 :: xs, x.coeffs.length = 2^m) :
    ∃ r, exprEval f b br (x0 :: xs) = some r ∧ r.basis = b ∧ r.bitrev = br ∧ r.shift = 0 ∧ r.size = x0.size ∧
      regular r = (List.range (2^m)).map (fun i => f i ((x0 :: xs).map (fun x => getCoeff x i))) :=
  exprEval_spec f b br x0 xs m hl

example : (exprEval (fun _ x => x.getD 0 0 * x.getD 1 0) .lagrange true [exP, toBitReverse exP]).map (·.coeffs)
    = some [1, 4, 4, 1] := by decide

/-- **DivideByXMinusOne** (interpolation part): the result is Canonical/Regular and its values on the big coset are
    `a.GetCoeff(i) · tab[i mod ρ]` -/
theorem C20_divide_interpolates (kers : List Nat) (inv : R → R) (d0 d1 : Domain R) (hd : Good d1) (a : Poly R)
    (hb : a.basis = .lagrangeCoset) (hl : a.coeffs.length = 2^d1.m) :
    ∃ r, divideByXMinusOne kers inv d0 d1 a = some r ∧ r.basis = .canonical ∧ r.bitrev = false ∧
      r.shift = 0 ∧ r.size = a.size ∧
      evals d1 true r.coeffs = (List.range (2^d1.m)).map (fun i =>
        getCoeff a i * (xnMinusOneInv inv d0 d1).getD (i % (2^d1.m / a.size)) 0) :=
  divide_spec kers inv d0 d1 hd a hb hl

/-- **multilinear fold**: evaluating after folding by `r` = evaluating at `r :: rs` (the first coordinate is the
    most significant index bit; definitional in the model, as in the Go loop) -/
theorem C20_fold_evaluate (m : List R) (r : R) (rs : List R) :
    mlEvaluate (mlFold m r) rs = mlEvaluate m (r :: rs) := rfl

/-- **MultiLin.Evaluate is the multilinear extension** of the table:
    `mle m (r :: rs) = (1-r)·mle (lower half) rs + r·mle (upper half) rs`, `mle [v] [] = v` -/
theorem C20_multilinear_evaluate (m : List R) (cs : List R) (h : m.length = 2 ^ cs.length) :
    mlEvaluate m cs = some (mle m cs) := mlEvaluate_eq cs m h

example : mlEvaluate [1, 2, 3, 4] [(1 : ZMod 5), 0] = some 3 := by decide
example : mle [1, 2, 3, 4] [(1 : ZMod 5), 0] = 3 := by decide

/-- at a Boolean first coordinate the extension selects the half of the table -/
theorem C20_mle_boolean (m : List R) (rs : List R) :
    mle m (0 :: rs) = mle (m.take (m.length/2)) rs ∧ mle m (1 :: rs) = mle (m.drop (m.length/2)) rs := by
  simp [mle]

/-- **Eq table**: `Eq(q)` started from `m[0] = c`, read as a multilinear polynomial in `h`, is
    `c · ∏ᵢ (qᵢhᵢ + (1-qᵢ)(1-hᵢ))`; `EvalEq(q, h)` is that product -/
theorem C20_eq_table (q : List R) (c : R) (h : List R) (hh : h.length = q.length) :
    mlEvaluate (eqTable q c) h = some (c * evalEq q h) ∧
    evalEq q h = (List.zipWith (fun a b => a * b + (1 - a) * (1 - b)) q h).prod :=
  ⟨mlEvaluate_eqTable q c h hh, evalEq_eq_prod q h hh⟩

example : eqTable [(2 : ZMod 5), 3] 1 = [2, 2, 1, 1] := by decide
example : evalEq [(2 : ZMod 5), 3] [1, 0] = 1 := by decide

/-- **polynomial.Polynomial**: `Eval` is `Σ cⱼxʲ`; `Add` (every aliasing case returns this value), `Sub`, `Scale`
    act point-wise on values -/
theorem C20_polynomial_ops (a b : List R) (c x : R) :
    (a ≠ [] → pEval a x = some (∑ j ∈ range a.length, a.getD j 0 * x ^ j)) ∧
    evalAt (padd a b) x = evalAt a x + evalAt b x ∧
    evalAt (pscale c a) x = c * evalAt a x ∧
    (∀ r, psub a.length a b = some r → evalAt r x = evalAt a x - evalAt b x) := by
  refine ⟨?_, evalAt_padd a b x, evalAt_pscale c a x, ?_⟩
  · intro ha
    unfold pEval
    rw [if_neg (by simpa using ha), C20_horner]
  · intro r hr
    unfold psub at hr
    split at hr
    · cases hr
    · rename_i hne
      injection hr with hr
      rw [← hr]
      exact evalAt_zipWith_sub a b x (by omega)

example : padd [(1 : ZMod 5), 2] [3] = [4, 2] := by decide

/-- the literal Go Lagrange formula returns 0 at every `n`-th root of unity — in particular at every point of the
    domain, where the value should be the stored entry (FINDING; the model `evalLagrange` special-cases them) -/
theorem C20_go_lagrange_domain_point (inv : R → R) (binv : List R → List R) (w : R) (vals : List R) (y : R)
    (hy : y ^ vals.length = 1) : evalLagrangeGo inv binv w vals y = 0 :=
  evalLagrangeGo_root inv binv w vals y hy

example : evalLagrangeGo (fun x => x^3) (List.map (fun x => x^3)) (2 : ZMod 5) [1, 2, 3, 4] 4 = 0 := by decide
example : evalLagrange (fun x => x^3) (List.map (fun x => x^3)) (2 : ZMod 5) [1, 2, 3, 4] 4 = 3 := by decide
example : evalLagrange (fun x => x^3) (List.map (fun x => x^3)) (2 : ZMod 5) [0, 4, 3, 2] 0 = 1 := by decide


/-! ### the derived constructions split their loops with `parallel.Execute`: every partition gives the same result -/

/-- **a chunked element-wise loop is the loop**: for EVERY list of ranges that tiles `[0, n)` — in particular the ranges
    `parallel.Execute` hands out for every task count (C18_execute_tiles) — running `out[i] = f i` range by range
    produces `[f 0, …, f (n-1)]`. This is the shape of the loops of `iop.Evaluate`, `DivideByXMinusOne`, the factor loop
    of `BuildRatioCopyConstraint` and the cosets of `getSupportIdentityPermutation`. -/
theorem C20_chunked_map {α : Type} (f : Nat → α) (ranges : List (Nat × Nat)) (n : Nat) (hT : Tiles ranges n) :
    ranges.flatMap (fun r => (rangeIdx r).map f) = (List.range n).map f :=
  chunked_map f ranges n hT

/-- **the chunked batch inversion equals the element-wise division, for every partition**: whatever list of ranges
    tiles the index range, `tInv := BatchInvert(t[start:end]); coeffs[i] *= tInv[i-start]` chunk by chunk gives
    `coeffs[i] · t[i]⁻¹` at EVERY index (`BatchInvert = map inv`, C01_batchInv) -/
theorem C20_chunked_division (inv : R → R) (ranges : List (Nat × Nat)) (cs ts : List R)
    (hT : Tiles ranges cs.length) (hlen : ts.length = cs.length) :
    chunkedDiv (List.map inv) ranges cs ts = List.zipWith (fun c t => c * inv t) cs ts :=
  chunkedDiv_eq inv ranges cs ts hT hlen

/-- **the grand product of `BuildRatioCopyConstraint`** (running products, entry 0 left alone, entries `1 … n-1`
    divided chunk by chunk) is the grand product of the definition, for every partition of `[0, n-1)` into chunks -/
theorem C20_grandProduct_chunked (inv : R → R) (h1 : inv 1 = 1) (ranges : List (Nat × Nat)) (ns ds : List R)
    (hT : Tiles ranges ns.length) (hlen : ds.length = ns.length) :
    grandProductChunked (List.map inv) ranges ns ds = grandProduct inv ns ds :=
  grandProductChunked_eq inv h1 ranges ns ds hT hlen

/-- … in particular for the ranges of `parallel.Execute(n-1, work, min(NumCPU, n/58))` on a machine with ANY number
    of CPUs, for every size `n = |ns| + 1` -/
theorem C20_ratioCopy_all_task_counts (inv : R → R) (h1 : inv 1 = 1) (ncpu : Nat) (ns ds : List R)
    (hlen : ds.length = ns.length) :
    grandProductChunked (List.map inv) (executeRanges ns.length (min ncpu ((ns.length + 1) / 58))) ns ds
      = grandProduct inv ns ds :=
  grandProductChunked_eq inv h1 _ ns ds (executeRangesClamped_tiles _ _ (clampTasks_pos _).1) hlen

example : executeRanges 127 (min 16 (128 / 58)) = [(0, 64), (64, 127)] := by decide
example : grandProductChunked (List.map (fun x => x^3)) [(0, 1), (1, 2)] [(2 : ZMod 5), 3] [4, 1] = [1, 3, 4] := by
  decide
/-- a list of ranges that does NOT tile the index range (every chunk but the first loses its first index) is not
    covered by the theorem, and indeed gives another vector -/
example : grandProductChunked (List.map (fun x => x^3)) [(0, 1), (2, 2)] [(2 : ZMod 5), 3] [4, 1] ≠ [1, 3, 4] := by
  decide

end Ring

section Fld
variable {F : Type} [Field F] [DecidableEq F]

/-- **Evaluate**: in every basis (Horner; barycentric Lagrange formula incl. domain points; coset division), both
    layouts, for EVERY integer shift and every point, `Evaluate x` is the value of the denoted polynomial at
    `ω_size^shift · x`. Hypotheses on the environment: `inv` is the field inverse, `BatchInvert` is the element-wise
    inverse (C01_batchInv), `Generator(n) = d.gen`, `genInvOf` is the inverse of `Generator(size)`. -/
theorem C20_evaluate (d : Domain F) (hd : Good d) (env : Env F) (p : Poly F) (a : List F) (h : Denotes d p a)
    (hinv : env.inv = fun x => x⁻¹) (hbinv : env.binv = List.map (fun x => x⁻¹))
    (hgen : env.genOf (2^d.m) = d.gen) (hsz : env.genInvOf p.size = (env.genOf p.size)⁻¹) (x : F) :
    evaluate env p x = ∑ j ∈ range a.length, a.getD j 0 * (x * (env.genOf p.size) ^ p.shift) ^ j := by
  rw [evaluate_eq d hd env p a h hinv hbinv hgen hsz x, evalAt_eq]

/-- **Evaluate is invariant under every sequence of conversions**: after any sequence, at any point, for any shift,
    the same value as before -/
theorem C20_evaluate_invariant (kers : List Nat) (d : Domain F) (hd : Good d) (env : Env F) (p : Poly F)
    (a : List F) (h : Denotes d p a) (hinv : env.inv = fun x => x⁻¹) (hbinv : env.binv = List.map (fun x => x⁻¹))
    (hgen : env.genOf (2^d.m) = d.gen) (hsz : env.genInvOf p.size = (env.genOf p.size)⁻¹)
    (ops : List Op) (x : F) :
    evaluate env (applyOps kers d ops p) x = evaluate env p x := by
  obtain ⟨h1, h2, h3⟩ := applyOps_denotes kers d hd ops p a h
  rw [evaluate_eq d hd env _ a h1 hinv hbinv hgen (by rw [h3]; exact hsz) x,
    evaluate_eq d hd env p a h hinv hbinv hgen hsz x, h2, h3]

example (x : ZMod 5) (s : Int) :
    evaluate exEnv (setShift (applyOps [5, 8] (exD true) [.toLagrangeCoset, .toRegular] exP) s) x
      = ∑ j ∈ range 4, ([1, 2, 3, 4] : List (ZMod 5)).getD j 0 * (x * (2 : ZMod 5) ^ s) ^ j := by
  have h0 := (C20_conversion_sequence [5, 8] (exD true) exGood [.toLagrangeCoset, .toRegular] exP _ exDen).1
  have hden := (C20_clone_setSize _ _ _ h0 0 s).2.2.2
  exact C20_evaluate (exD true) exGood exEnv _ [1, 2, 3, 4] hden rfl rfl rfl exInv x
example : evaluate exEnvC (setShift (applyOps [5, 8] (exD true) [.toLagrangeCoset, .toRegular] exP) (-3)) 3
    = evalAt [1, 2, 3, 4] (3 * (3 : ZMod 5)^3) := by decide
example : evaluate exEnvC (setShift (toLagrange [] (exD true) exP) 7) 4 = evalAt [1, 2, 3, 4] (4 * (2 : ZMod 5)^7) := by
  decide

/-- the literal Go `Evaluate` in canonical basis: right for `shift ∈ 0..5`; for `shift > 5` (`g.Exp(g, shift)` on the
    zero-initialised `g`) and for `shift < 0` (`smallExp` returns 0) it evaluates at 0, i.e. returns `a₀` (FINDING) -/
theorem C20_go_evaluate_canonical (d : Domain F) (env : Env F) (p : Poly F) (a : List F) (h : Denotes d p a)
    (hb : p.basis = .canonical) (x : F) :
    evaluateGo env p x = evalAt a
      (if p.shift = 0 then x else if 0 ≤ p.shift ∧ p.shift ≤ 5 then x * (env.genOf p.size) ^ p.shift else 0) :=
  evaluateGo_canonical d env p a h hb x

example : evaluateGo exEnvC (setShift exP 6) 3 = 1 ∧ evaluate exEnvC (setShift exP 6) 3 = evalAt [1, 2, 3, 4] (3 * 2^6) := by
  decide

/-- **GetCoeff in Lagrange basis** = value of the shifted polynomial at `ωⁱ`, for every integer shift -/
theorem C20_getCoeff_lagrange (d : Domain F) (hd : Good d) (p : Poly F) (a : List F) (h : Denotes d p a)
    (hb : p.basis = .lagrange) (hω : d.gen ^ (2^d.m) = 1) (i : Nat) :
    getCoeff p i = evalAt a (d.gen ^ i * (d.gen ^ (2^d.m / p.size)) ^ p.shift) :=
  getCoeff_lagrange d hd p a h hb hω i

/-- **DivideByXMinusOne**: `f = (X^{n₀} − 1)·h` on the big coset — wherever `x_i^{n₀} ≠ 1`, `x_i = g·ω₁ⁱ`,
    `h(x_i)·(x_i^{n₀} − 1) = a.GetCoeff(i)` (the `i`-th coset value of the possibly shifted dividend) -/
theorem C20_divideByXMinusOne (kers : List Nat) (d0 d1 : Domain F) (hd : Good d1) (hm : d0.m ≤ d1.m)
    (hω : d1.gen ^ (2^d1.m) = 1) (a : Poly F) (hb : a.basis = .lagrangeCoset) (hl : a.coeffs.length = 2^d1.m)
    (hs : a.size = 2^d0.m) :
    ∃ r, divideByXMinusOne kers (fun x => x⁻¹) d0 d1 a = some r ∧ r.basis = .canonical ∧ r.bitrev = false ∧
      ∀ i, i < 2^d1.m → (d1.g * d1.gen ^ i) ^ (2^d0.m) ≠ 1 →
        evalAt r.coeffs (d1.g * d1.gen ^ i) * ((d1.g * d1.gen ^ i) ^ (2^d0.m) - 1) = getCoeff a i := by
  obtain ⟨r, hr, h1, h2, _, _, h5⟩ := divide_spec kers (fun x => x⁻¹) d0 d1 hd a hb hl
  refine ⟨r, hr, h1, h2, ?_⟩
  intro i hi hne
  have hlen : r.coeffs.length = 2^d1.m := by
    have := congrArg List.length h5
    simpa using this
  have hv : (evals d1 true r.coeffs).getD i 0 = _ := congrArg (fun l => l.getD i 0) h5
  rw [evals, getD_map_range _ _ _ (by rw [hlen]; exact hi), getD_map_range _ _ _ hi, hs,
    xnMinusOneInv_getD d0 d1 hm hω i] at hv
  try simp only [if_true] at hv
  rw [hv, mul_assoc, inv_mul_cancel₀ (sub_ne_zero.mpr hne), mul_one]


/-- **the table of `X^{n₀} − 1` on the coset of the big domain, for EVERY ratio `ρ = n₁/n₀ ≥ 1`** (`ρ = 1` included:
    one entry, `(g^{n₀} − 1)⁻¹`): `ρ` entries, and entry `i mod ρ` is the inverse of `x_i^{n₀} − 1`, `x_i = g·ω₁ⁱ` -/
theorem C20_xnMinusOne_table (d0 d1 : Domain F) (hm : d0.m ≤ d1.m) (hω : d1.gen ^ (2^d1.m) = 1) :
    (xnMinusOneInv (fun x => x⁻¹) d0 d1).length = 2^(d1.m - d0.m) ∧
    ∀ i, (xnMinusOneInv (fun x => x⁻¹) d0 d1).getD (i % 2^(d1.m - d0.m)) 0
      = ((d1.g * d1.gen ^ i) ^ (2^d0.m) - 1)⁻¹ := by
  refine ⟨xn_table_length _ d0 d1 hm, fun i => ?_⟩
  have := xnMinusOneInv_getD d0 d1 hm hω i
  rwa [Nat.pow_div hm (by decide)] at this

/-- **when the division is defined**: `X^{n₀} − 1` has no zero on the coset `g·⟨ω₁⟩` of the big domain exactly when
    `g^{n₁} ≠ 1` (what `divisionDefined` tests); otherwise it vanishes at one of the first `ρ` coset points. The default
    shift generates the whole multiplicative group, so its order `q − 1` exceeds `n₁`: always defined. -/
theorem C20_division_defined (d0 d1 : Domain F) (hd : Good d1) (hm : d0.m ≤ d1.m) (hω : d1.gen ^ (2^d1.m) = 1) :
    (divisionDefined d1 = true ↔ ∀ i, (d1.g * d1.gen ^ i) ^ (2^d0.m) ≠ 1) ∧
    (divisionDefined d1 = false → ∃ i, i < 2^(d1.m - d0.m) ∧ (d1.g * d1.gen ^ i) ^ (2^d0.m) = 1) := by
  have hdef : divisionDefined d1 = true ↔ d1.g ^ (2^d1.m) ≠ 1 := by
    unfold divisionDefined; rw [pw_eq]; exact decide_eq_true_iff
  refine ⟨⟨fun h i => division_defined d0 d1 hm hω (hdef.1 h) i, fun h => hdef.2 (fun hg => ?_)⟩, fun h => ?_⟩
  · obtain ⟨i, _, hi⟩ := division_undefined d0 d1 hd hm hg
    exact h i hi
  · apply division_undefined d0 d1 hd hm
    by_contra hne
    rw [hdef.2 hne] at h
    exact Bool.noConfusion h

/-- **ratio 1** (both domains the same): the quotient satisfies `q(x_i)·(gⁿ − 1) = a.GetCoeff(i)` at EVERY point of
    the coset — the value of `xⁿ − 1` there is the constant `gⁿ − 1`, not `gⁿ` -/
theorem C20_divide_ratio_one (kers : List Nat) (d : Domain F) (hd : Good d) (hω : d.gen ^ (2^d.m) = 1) (a : Poly F)
    (hb : a.basis = .lagrangeCoset) (hl : a.coeffs.length = 2^d.m) (hs : a.size = 2^d.m)
    (hg : d.g ^ (2^d.m) ≠ 1) :
    ∃ r, divideByXMinusOne kers (fun x => x⁻¹) d d a = some r ∧
      ∀ i, i < 2^d.m → evalAt r.coeffs (d.g * d.gen ^ i) * (d.g ^ (2^d.m) - 1) = getCoeff a i := by
  obtain ⟨r, hr, _, _, h⟩ := C20_divideByXMinusOne kers d d hd (le_refl _) hω a hb hl hs
  refine ⟨r, hr, fun i hi => ?_⟩
  have e : (d.g * d.gen ^ i) ^ (2^d.m) = d.g ^ (2^d.m) := by
    rw [mul_pow, ← pow_mul, mul_comm i, pow_mul, hω, one_pow, mul_one]
  have := h i hi (by rw [e]; exact hg)
  rwa [e] at this

/-- the domain of size 2 of `ZMod 5` (`ω = -1`, shift 2): `g² = 4 ≠ 1`, the division is defined; on the C10 example
    domain (size 4, where every unit is a 4th root of unity) it is not -/
def exD2 : Domain (ZMod 5) := ⟨1, 3, 4, 4, 2, 3, true⟩
example : divisionDefined exD2 = true ∧ divisionDefined (exD true) = false := by decide
example : xnMinusOneInv (fun x => x^3) exD2 exD2 = [2] ∧ ((2 : ZMod 5)^2 - 1) * 2 = 1 := by decide
example : xnMinusOneInv (fun x => x^3) (⟨0, 1, 1, 1, 2, 3, true⟩ : Domain (ZMod 5)) exD2 = [1, 3] := by decide

/-- **grand product** of `BuildRatioShuffledVectors` / `BuildRatioCopyConstraint`:
    `Z[0] = 1`, `Z[i+1]·dᵢ = Z[i]·nᵢ` when no denominator factor vanishes -/
theorem C20_grandProduct (ns ds : List F) (hlen : ns.length = ds.length) (hds : ∀ b ∈ ds, b ≠ 0) :
    (grandProduct (fun x => x⁻¹) ns ds).length = ns.length + 1 ∧
    (grandProduct (fun x => x⁻¹) ns ds).getD 0 0 = 1 ∧
    ∀ i, i < ns.length →
      (grandProduct (fun x => x⁻¹) ns ds).getD (i+1) 0 * ds.getD i 0
        = (grandProduct (fun x => x⁻¹) ns ds).getD i 0 * ns.getD i 0 :=
  grandProduct_spec ns ds hlen hds

example := C20_grandProduct [(2 : ZMod 5), 3] [4, 1] rfl (by decide)
example : grandProduct (fun x => x^3) [(2 : ZMod 5), 3] [4, 1] = [1, 3, 4] := by decide

/-- **putInExpectedFormFromLagrangeRegular** stores the vector of the requested form of the polynomial whose values
    on the domain are the grand product (the coset shift is NOT recorded: see findings) -/
theorem C20_putInExpectedForm (kers : List Nat) (d : Domain F) (hd : Good d) (a : List F) (ha : a.length = 2^d.m)
    (b : Basis) (br : Bool) (size : Nat) :
    let r := putInExpectedForm kers d (evals d false a) b br size
    r.coeffs = lay d.m br (vecOf d b a) ∧ r.basis = b ∧ r.bitrev = br ∧ r.shift = 0 :=
  putInExpectedForm_coeffs kers d hd a ha b br size

/-- **InterpolateOnRange interpolates**: `P(k) = v[k]` for every `k < n`, provided `0, …, n-1` are distinct in the
    field (`n ≤ 255 <` characteristic for all 7 scalar fields) -/
theorem C20_interpolateOnRange (v : List F) (hn : 0 < v.length) (hn' : v.length ≤ 255)
    (hdist : ∀ i j, i < v.length → j < v.length → i ≠ j → (i : F) ≠ (j : F)) :
    ∃ r, interpolateOnRange (fun x => x⁻¹) v = some r ∧ ∀ k, k < v.length → evalAt r (k : F) = v.getD k 0 :=
  interpolate_spec v hn hn' hdist

example := C20_interpolateOnRange [(1 : ZMod 5), 3, 4] (by decide) (by decide) (by
  intro i j hi hj hij
  have hi' : i < 3 := hi
  have hj' : j < 3 := hj
  interval_cases i <;> interval_cases j <;> first | exact absurd rfl hij | decide)
example : interpolateOnRange (fun x => x^3) [(1 : ZMod 5), 3, 4] = some [1, 0, 2] := by decide

end Fld

/-- **WriteTo / ReadFrom round trip**, byte level: decoding `WriteTo(p)` followed by anything returns exactly `p`
    (coefficients, basis, layout, signed 32-bit shift, size, coset) and the rest of the stream -/
theorem C20_serialisation_roundtrip (nb q : Nat) (hq : q ≤ 256^nb) (p : Rec) (rest : List UInt8)
    (hcs : ∀ c ∈ p.coeffs, c < q) (hlen : p.coeffs.length < 2^32) (hb : p.basis < 2^32) (hl : p.layout < 2^32)
    (hs1 : -2147483648 ≤ p.shift) (hs2 : p.shift < 2147483648) (hsz : p.size < 2^32) (hco : p.coset < q) :
    decode nb q (encode nb p ++ rest) = .ok (p, rest) :=
  decode_encode nb q hq p rest hcs hlen hb hl hs1 hs2 hsz hco

example := C20_serialisation_roundtrip 1 251 (by decide) ⟨[3, 250], 4, 16, -6, 2, 7⟩ [9] (by decide) (by decide)
  (by decide) (by decide) (by decide) (by decide) (by decide) (by decide)


/-- **the instance executed by the driver**: what the driver computes on `ZM q` (naturals, explicit `% q`) for the
    conversions, layout flips and `GetCoeff` is, entry by entry, a representative of what the model computes in the
    ring `ZMod q` the theorems above apply to -/
theorem C20_driver_instance (q : Nat) [NeZero q] (kers : List Nat) (t : Basis) (d : Domain (ZM q)) (p : Poly (ZM q))
    (i : Nat) :
    (convert kers t d p).mapP zmCast = convert kers t (d.mapD zmCast) (p.mapP zmCast) ∧
    (toRegular p).mapP zmCast = toRegular (p.mapP zmCast) ∧
    (toBitReverse p).mapP zmCast = toBitReverse (p.mapP zmCast) ∧
    zmCast (getCoeff p i) = getCoeff (p.mapP zmCast) i :=
  ⟨(hom_convert (zmCast_hom q) kers t d p).symm, (hom_toRegular (zmCast_hom q) p).symm,
    (hom_toBitReverse (zmCast_hom q) p).symm, (hom_getCoeff (zmCast_hom q) p i).symm⟩

end GV.Poly
