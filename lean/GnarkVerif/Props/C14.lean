import GnarkVerif.Proofs.MiMC
import GnarkVerif.Proofs.Poseidon2
import GnarkVerif.Proofs.Poseidon2Hom
import GnarkVerif.Model.SIS
/-
C14 — algebraic hashes match their specifications and honour streaming semantics.

Part 1: MiMC (`GV.MiMC`, executable model of ecc/<curve>/fr/mimc/mimc.go; tie = correspondence K).
All theorems hold for every parameter set `P` (modulus, exponent, block size, round constants, byte order), every
state, every byte string and every finite history of Write / Sum / Reset / State / SetState calls.
The model is by-value and has no capacity notion: "never reads beyond len(p)", "no panic" and "no aliasing" are the
model's definition; that the Go code has these properties is what the correspondence run checks (and refutes for
`Write`, see the findings of C14).
-/
set_option linter.unusedSimpArgs false
namespace GV.MiMC

/-! ### (i) the code-shaped functions equal the mathematical definition -/

/-- the Square/Mul chains of `encrypt` compute `t ↦ t^d` -/
theorem C14_mimc_sbox (P : Params) (t : Nat) : sbox P t = t ^ P.d % P.q := sbox_eq_spec P t

example : sbox { q := 101, d := 5, size := 1, consts := [] } 7 = 7 ^ 5 % 101 := by decide
example : sbox { q := 101, d := 7, size := 1, consts := [] } 7 = 7 ^ 7 % 101 := by decide
example : sbox { q := 101, d := 17, size := 1, consts := [] } 7 = 7 ^ 17 % 101 := by decide

/-- `encrypt` is `E_k(m)`: rounds `m ← (m + k + cᵢ)^d` over the constants, then `+ k` -/
theorem C14_mimc_encrypt (P : Params) (k m : Nat) :
    encrypt P k m = (P.consts.foldl (fun m c => ((m + k + c) % P.q) ^ P.d % P.q) m + k) % P.q :=
  encrypt_eq_spec P k m

/-- the chaining step is Miyaguchi–Preneel `h' = E_h(m) + h + m`, and `mp` folds it over the blocks -/
theorem C14_mimc_compress (P : Params) (h m : Nat) : compress P h m = (encryptSpec P h m + h + m) % P.q :=
  compress_eq_spec P h m

theorem C14_mimc_mp (P : Params) (h : Nat) (ms : List Nat) : mp P h ms = mpSpec P h ms := mp_eq_spec P h ms

example : mp { q := 101, d := 5, size := 1, consts := [3, 4] } 0 [1, 2] =
    mpSpec { q := 101, d := 5, size := 1, consts := [3, 4] } 0 [1, 2] := by decide

/-! ### (ii) streaming: the digest is a function of the concatenated input -/

/-- the abstract content of a hasher: chaining value at the last Reset/SetState and the blocks successfully
written since -/
structure Ghost where
  h0 : Nat := 0
  blocks : List Nat := []
deriving Repr, DecidableEq

def ghostStep (P : Params) (g : Ghost) : Op → Ghost
  | .write p =>
    match decodeBlocks P (pad P p) with
    | some xs => { g with blocks := g.blocks ++ xs }
    | none => g
  | .sum _ => g
  | .state => g
  | .reset => {}
  | .setState st => if st.length = P.size ∧ beToNat st < P.q then { h0 := beToNat st, blocks := [] } else g

def ghostRun (P : Params) (g : Ghost) (ops : List Op) : Ghost := ops.foldl (ghostStep P) g

/-- concrete state `s` represents abstract content `g` -/
def Rep (P : Params) (s : Digest) (g : Ghost) : Prop := mp P s.h s.data = mp P g.h0 g.blocks ∧ s.h < P.q

theorem C14_mimc_rep_init (P : Params) (hq : 0 < P.q) : Rep P init {} := by
  simp [Rep, init, mp, hq]

theorem C14_mimc_rep_step (P : Params) (s : Digest) (g : Ghost) (op : Op) (h : Rep P s g) :
    Rep P (step P s op).1 (ghostStep P g op) := by
  obtain ⟨h1, h2⟩ := h
  cases op with
  | write p =>
    simp only [step, ghostStep]
    cases decodeBlocks P (pad P p) with
    | none => exact ⟨h1, h2⟩
    | some xs => exact ⟨by simp only [mp_append, h1], h2⟩
  | sum b => exact ⟨by simpa [step, ghostStep, flush, mp] using h1, by simpa [step, flush] using mp_lt P _ _ h2⟩
  | state => exact ⟨by simpa [step, ghostStep, flush, mp] using h1, by simpa [step, flush] using mp_lt P _ _ h2⟩
  | reset => exact ⟨by simp [step, ghostStep], by simpa [step] using Nat.lt_of_le_of_lt (Nat.zero_le _) h2⟩
  | setState st =>
    simp only [step, ghostStep]
    split
    · rename_i hc; exact ⟨rfl, hc.2⟩
    · exact ⟨h1, h2⟩

theorem run_fst (P : Params) (s : Digest) (ops : List Op) :
    (run P s ops).1 = ops.foldl (fun s op => (step P s op).1) s := by
  induction ops generalizing s with
  | nil => rfl
  | cons op ops ih => simp only [run, List.foldl_cons]; exact ih _

/-- **every history**: after any sequence of calls the hasher represents
(chaining value of the last Reset/SetState, blocks successfully written since) -/
theorem C14_mimc_history (P : Params) (hq : 0 < P.q) (ops : List Op) :
    Rep P (run P init ops).1 (ghostRun P {} ops) := by
  suffices h : ∀ s g, Rep P s g → Rep P (run P s ops).1 (ghostRun P g ops) from h _ _ (C14_mimc_rep_init P hq)
  induction ops with
  | nil => intro s g h; simpa [run, ghostRun] using h
  | cons op ops ih =>
    intro s g h
    simp only [run, ghostRun, List.foldl_cons]
    exact ih _ _ (C14_mimc_rep_step P s g op h)

/-- **digest after any history** = Miyaguchi–Preneel (mathematical definition) from the chaining value of the last
Reset/SetState over the concatenation of the blocks successfully written since, appended to `b` -/
theorem C14_mimc_sum_after_history (P : Params) (hq : 0 < P.q) (ops : List Op) (b : Bytes) :
    (step P (run P init ops).1 (.sum b)).2 =
      .bytes (b ++ encBE P.size (mpSpec P (ghostRun P {} ops).h0 (ghostRun P {} ops).blocks)) := by
  have h := (C14_mimc_history P hq ops).1
  simp only [step, flush]
  rw [h, mp_eq_spec]

example : (step { q := 101, d := 5, size := 1, consts := [3, 4] }
    (run { q := 101, d := 5, size := 1, consts := [3, 4] } init [.write [1, 2], .sum [], .write [200], .write [7]]).1
    (.sum [9])).2 = .bytes [9, 46] := by simp [step, run, flush, mp, compress, encrypt, round, sbox, decodeBlocks, pad, decBlock, beToNat, encBE, init]

/-- `State()` returns the same chaining value as `Sum(nil)` -/
theorem C14_mimc_state_eq_sum (P : Params) (s : Digest) : step P s .state = step P s (.sum []) := by
  simp [step]

/-- `Sum` is idempotent: a second `Sum` returns the same digest and leaves the same state -/
theorem C14_mimc_sum_idempotent (P : Params) (s : Digest) (b b' : Bytes) :
    step P (step P s (.sum b)).1 (.sum b') =
      ((step P s (.sum b)).1, .bytes (b' ++ encBE P.size (step P s (.sum b)).1.h)) := by
  simp [step, flush, mp]

/-- `Sum` does not change what the hasher represents: writing after a `Sum` continues the same message -/
theorem C14_mimc_sum_transparent (P : Params) (s : Digest) (b : Bytes) (xs : List Nat) :
    mp P (step P s (.sum b)).1.h ((step P s (.sum b)).1.data ++ xs) = mp P s.h (s.data ++ xs) := by
  simp [step, flush, mp_append, mp]

/-- `State` ∘ `SetState` is the identity: restoring a saved state into ANY hasher `s2` of the same instance
reproduces exactly the saved hasher (hypotheses: the invariant `s.h < q`, which holds for every reachable state by
`C14_mimc_history`, and `q ≤ 256^BlockSize`) -/
theorem C14_mimc_state_setState (P : Params) (s s2 : Digest) (hs : s.h < P.q) (hq : P.q ≤ 256 ^ P.size) :
    ∃ st, (step P s .state).2 = .bytes st ∧ step P s2 (.setState st) = ((step P s .state).1, .unit) := by
  refine ⟨encBE P.size (mp P s.h s.data), by simp [step, flush], ?_⟩
  have hlt : mp P s.h s.data < P.q := mp_lt P _ _ hs
  have hrt : beToNat (encBE P.size (mp P s.h s.data)) = mp P s.h s.data := beToNat_encBE_of_lt _ _ (by omega)
  simp [step, flush, encBE_length, hrt, hlt]

example : ∃ st, (step { q := 101, d := 5, size := 1, consts := [3] } { h := 5, data := [1] } .state).2 = .bytes st ∧
    step { q := 101, d := 5, size := 1, consts := [3] } { h := 77, data := [4, 4] } (.setState st) =
      ((step { q := 101, d := 5, size := 1, consts := [3] } { h := 5, data := [1] } .state).1, .unit) :=
  C14_mimc_state_setState _ _ _ (by decide) (by decide)

/-! ### (iii) input validation -/

/-- a refused call (Write or SetState returning an error) leaves the hasher unchanged -/
theorem C14_mimc_error_leaves_state (P : Params) (s : Digest) (op : Op) (h : (step P s op).2 = .err) :
    (step P s op).1 = s := by
  cases op with
  | write p =>
    simp only [step] at h ⊢
    cases hd : decodeBlocks P (pad P p) with
    | none => rfl
    | some xs => rw [hd] at h; simp at h
  | setState st =>
    simp only [step] at h ⊢
    by_cases hc : st.length = P.size ∧ beToNat st < P.q
    · rw [if_pos hc] at h; simp at h
    · rw [if_neg hc]
  | sum b => simp [step] at h
  | state => simp [step] at h
  | reset => simp [step] at h

example : (step { q := 101, d := 5, size := 1, consts := [3] } { h := 5, data := [1] } (.write [1, 200, 3])) =
    ({ h := 5, data := [1] }, .err) := by simp [step, run, flush, mp, compress, encrypt, round, sbox, decodeBlocks, pad, decBlock, beToNat, encBE, init]

/-- `Write p` succeeds exactly when `p` (after the left-padding of short writes) is a concatenation of encodings of
canonical field elements, and then it appends exactly these elements -/
theorem C14_mimc_write_ok_iff (P : Params) (s : Digest) (p : Bytes) (hs : 0 < P.size) (hq : P.q ≤ 256 ^ P.size)
    (xs : List Nat) :
    step P s (.write p) = ({ s with data := s.data ++ xs }, .wrote (pad P p).length) ↔
      ((∀ x ∈ xs, x < P.q) ∧ pad P p = (xs.map (encBlock P)).flatten) := by
  constructor
  · intro h
    simp only [step] at h
    cases hd : decodeBlocks P (pad P p) with
    | none => rw [hd] at h; simp at h
    | some ys =>
      rw [hd] at h
      have : ys = xs := by
        have := congrArg (fun r => r.1.data) h
        simpa using this
      subst this
      exact ⟨(decodeBlocks_length P _ _ hd).2, decodeBlocks_canonical P _ _ hd⟩
  · rintro ⟨hx, hp⟩
    simp only [step]
    rw [hp, decodeBlocks_encode P xs hs hq hx]

-- non-vacuity: the hypotheses hold for a toy instance, and the right-hand side is inhabited
example : (0 < (1 : ℕ)) ∧ (101 ≤ 256 ^ 1) ∧
    step { q := 101, d := 5, size := 1, consts := [3] } {} (.write [7, 100]) =
      ({ h := 0, data := [7, 100] }, .wrote 2) := by
  refine ⟨by decide, by decide, ?_⟩
  exact (C14_mimc_write_ok_iff { q := 101, d := 5, size := 1, consts := [3] } {} [7, 100] (by decide) (by decide)
    [7, 100]).mpr ⟨by decide, by decide⟩

/-- a Write that is not a sequence of canonical blocks is refused -/
theorem C14_mimc_write_refused (P : Params) (s : Digest) (p : Bytes)
    (h : ¬ ∃ xs : List Nat, (∀ x ∈ xs, x < P.q) ∧ pad P p = (xs.map (encBlock P)).flatten) :
    step P s (.write p) = (s, .err) := by
  simp only [step]
  cases hd : decodeBlocks P (pad P p) with
  | none => rfl
  | some ys => exact absurd ⟨ys, (decodeBlocks_length P _ _ hd).2, decodeBlocks_canonical P _ _ hd⟩ h

/-- **splitting a write at a block boundary is unobservable**: for block-aligned `a`, `b`,
`Write(a ++ b)` succeeds iff `Write a; Write b` both succeed, and the resulting hashers are equal -/
theorem C14_mimc_split_write (P : Params) (s : Digest) (a b : Bytes)
    (ha : P.size ∣ a.length) (hb : P.size ∣ b.length) :
    (∀ zs, decodeBlocks P (a ++ b) = some zs ↔
        ∃ xs ys, decodeBlocks P a = some xs ∧ decodeBlocks P b = some ys ∧ zs = xs ++ ys) ∧
    ((step P s (.write (a ++ b))).2 ≠ .err →
      (step P (step P s (.write a)).1 (.write b)).1 = (step P s (.write (a ++ b))).1 ∧
      (step P s (.write a)).2 ≠ .err ∧ (step P (step P s (.write a)).1 (.write b)).2 ≠ .err) := by
  have hab : P.size ∣ (a ++ b).length := by rw [List.length_append]; exact Nat.dvd_add ha hb
  have happ := decodeBlocks_append P a b ha
  constructor
  · intro zs
    rw [happ]
    cases decodeBlocks P a with
    | none => simp
    | some xs =>
      cases decodeBlocks P b with
      | none => simp
      | some ys => simp [eq_comm]
  · intro h
    simp only [step, pad_of_dvd P _ ha, pad_of_dvd P _ hb, pad_of_dvd P _ hab] at h ⊢
    rw [happ] at h ⊢
    cases hda : decodeBlocks P a with
    | none => rw [hda] at h; simp at h
    | some xs =>
      cases hdb : decodeBlocks P b with
      | none => rw [hda, hdb] at h; simp at h
      | some ys => simp [List.append_assoc]

example : (step { q := 101, d := 5, size := 2, consts := [3] } {} (.write [0, 1, 0, 2, 0, 3])).1 =
    (step { q := 101, d := 5, size := 2, consts := [3] }
      (step { q := 101, d := 5, size := 2, consts := [3] } {} (.write [0, 1])).1 (.write [0, 2, 0, 3])).1 := by simp [step, run, flush, mp, compress, encrypt, round, sbox, decodeBlocks, pad, decBlock, beToNat, encBE, init]

/-- digest size (`C14 mimc regsize`): `Sum(b)` appends exactly `P.size` bytes = one field element, in every state; this is
the number that `hash.Hash.Size()` of the registry id and `Size()` of the hasher have to report -/
theorem C14_mimc_digest_size (P : Params) (s : Digest) (b : Bytes) :
    ∃ v, (step P s (.sum b)).2 = .bytes v ∧ v.length = b.length + P.size :=
  ⟨_, rfl, by simp [encBE_length]⟩

end GV.MiMC

/-! ## Part 2: Poseidon2 and the Merkle–Damgård wrapper -/
namespace GV.Poseidon2
open MiMC (Op Out)
open Finset

section layers
variable {R : Type} [CommRing R]

/-- S-box chains compute `x ↦ x^d` (d = 3, 5, 7 (two chains), 17) over any commutative ring -/
theorem C14_p2_sbox (k : SBox) (x : R) : sbox (ringOps R) k x = x ^ k.deg := sbox_ring k x

/-- `matMulM4InPlace` on one chunk is multiplication by the 4×4 matrix M4 (both variants) -/
theorem C14_p2_m4 (k : M4Kind) (a b c d : R) :
    m4 (ringOps R) k a b c d =
      match k with
      | .plonky => (2*a + 3*b + c + d, a + 2*b + 3*c + d, a + b + 2*c + 3*d, 3*a + b + c + 2*d)
      | .paper => (5*a + 7*b + c + 3*d, 4*a + 6*b + c + d, a + 3*b + 5*c + 7*d, a + b + 4*c + 6*d) := by
  rw [m4_ring]; cases k <;> rfl

/-- **external layer, every width 4k**: `matMulExternalInPlace` is the block-circulant matrix
circ(2·M4, M4, …, M4): block row `i` of the result is `Σⱼ (if i = j then 2 else 1) • M4·xⱼ` -/
theorem C14_p2_external_4k (k : M4Kind) (cs : List (Chunk R)) :
    ext4 (ringOps R) k (flat cs) =
      flat ((List.range cs.length).map fun i =>
        ∑ j ∈ range cs.length, (if i = j then 2 else 1 : ℕ) • M4mul k (cs.getD j 0)) :=
  ext4_flat k cs

example : ext4 (ringOps ℤ) .plonky [1, 0, 0, 0, 0, 0, 0, 0] = [4, 2, 2, 6, 2, 1, 1, 3] := by decide

/-- external layer, widths 2 and 3: circ(2,1) and circ(2,1,1) -/
theorem C14_p2_external_2 (x0 x1 : R) : ext23 (ringOps R) [x0, x1] = [2*x0 + x1, x0 + 2*x1] := by
  simp [ext23, sum1]; constructor <;> ring

theorem C14_p2_external_3 (x0 x1 x2 : R) :
    ext23 (ringOps R) [x0, x1, x2] = [2*x0 + x1 + x2, x0 + 2*x1 + x2, x0 + x1 + 2*x2] := by
  simp [ext23, sum1]; refine ⟨?_, ?_, ?_⟩ <;> ring

/-- internal layer, widths 2 and 3: `[[2,1],[1,3]]` and `[[2,1,1],[1,2,1],[1,1,3]]` -/
theorem C14_p2_internal_2 (x0 x1 : R) : int23 (ringOps R) [x0, x1] = [2*x0 + x1, x0 + 3*x1] := by
  simp [int23]; constructor <;> ring

theorem C14_p2_internal_3 (x0 x1 x2 : R) :
    int23 (ringOps R) [x0, x1, x2] = [2*x0 + x1 + x2, x0 + 2*x1 + x2, x0 + x1 + 3*x2] := by
  simp [int23]; refine ⟨?_, ?_, ?_⟩ <;> ring

/-- **internal layer, every width**: `xᵢ ← sum + μᵢ·xᵢ` is the matrix `J + diag(μ)` (all ones plus the diagonal) -/
theorem C14_p2_internal_diag (μ xs : List R) (h : μ.length = xs.length) :
    intDiag (ringOps R) μ xs =
      (List.range xs.length).map fun i =>
        ∑ j ∈ range xs.length, (1 + if i = j then μ.getD i 0 else 0) * xs.getD j 0 :=
  intDiag_matrix μ xs h

example : intDiag (ringOps ℤ) [-2, 1, 2] [1, 10, 100] = [109, 121, 311] := by decide

end layers

/-- the Double/Halve/Mul2ExpNegN chains of koalabear and babybear `matMulInternalInPlace` multiply by exactly the
diagonals `diag16` / `diag24` published in the respective hash.go (Plonky3 constants) -/
theorem C14_p2_diag_tables :
    kbDiag16.map (Coef.val 2130706433) = [2130706431, 1, 2, 1065353217, 3, 4, 1065353216, 2130706430, 2130706429,
      2122383361, 1864368129, 2130706306, 8323072, 266338304, 133169152, 127] ∧
    kbDiag24.map (Coef.val 2130706433) = [2130706431, 1, 2, 1065353217, 3, 4, 1065353216, 2130706430, 2130706429,
      2122383361, 1598029825, 1864368129, 1997537281, 2064121857, 2097414145, 2130706306, 8323072, 266338304,
      133169152, 66584576, 33292288, 16646144, 4161536, 127] ∧
    bbDiag16.map (Coef.val 2013265921) = [2013265919, 1, 2, 1006632961, 3, 4, 1006632960, 2013265918, 2013265917,
      2005401601, 1509949441, 1761607681, 2013265906, 7864320, 125829120, 15] ∧
    bbDiag24.map (Coef.val 2013265921) = [2013265919, 1, 2, 1006632961, 3, 4, 1006632960, 2013265918, 2013265917,
      2005401601, 1509949441, 1761607681, 1887436801, 1997537281, 2009333761, 2013265906, 7864320, 503316480,
      251658240, 125829120, 62914560, 31457280, 15728640, 15] := by
  refine ⟨?_, ?_, ?_, ?_⟩ <;> decide +kernel

/-- **the executable model is the algebraic permutation**: reducing the output of the `Nat`-mod-q model into the ring
`ZMod q` gives the permutation computed in `ZMod q` on the reduced inputs, keys and diagonal; the layer theorems above
(stated for every commutative ring) therefore describe the executable model -/
theorem C14_p2_permute_field (q : ℕ) (I : Inst ℕ) (x : List ℕ) :
    (permute (natOps q) I x).map (Nat.cast : ℕ → ZMod q) =
      permute (ringOps (ZMod q)) (I.map Nat.cast) (x.map Nat.cast) :=
  hom_permute (natCast_isHom q) I x

example : permute (natOps 7) { t := 2, sb := .d5, m4k := .paper, diag := [], rf := 2, rp := 1, keys := [[1, 2], [3], [4, 5]] }
    [1, 2] = [4, 5] := by decide

/-! ### Merkle–Damgård wrapper, any compression function -/

def mdRun (M : MD) (s : Bytes) (ops : List Op) : Bytes := ops.foldl (fun s op => (mdStep M s op).1) s

/-- abstract content: chaining value at the last Reset/SetState and the blocks absorbed since -/
structure MDGhost where
  start : Bytes
  blocks : List Bytes

def mdGhostStep (M : MD) (s : Bytes) (g : MDGhost) : Op → MDGhost
  | .write p => if (absorb M s (chunks M.bs p)).isSome then { g with blocks := g.blocks ++ chunks M.bs p } else g
  | .sum _ => g
  | .state => g
  | .reset => { start := M.iv, blocks := [] }
  | .setState st => if M.valid st then { start := st, blocks := [] } else g

/-- the hasher state is the fold of `Compress` over the recorded blocks -/
def MDRep (M : MD) (s : Bytes) (g : MDGhost) : Prop := absorb M g.start g.blocks = some s

theorem C14_md_rep_step (M : MD) (s : Bytes) (g : MDGhost) (op : Op) (h : MDRep M s g) :
    MDRep M (mdStep M s op).1 (mdGhostStep M s g op) := by
  cases op with
  | write p =>
    simp only [mdStep, mdGhostStep]
    cases hd : absorb M s (chunks M.bs p) with
    | none => simpa using h
    | some s' =>
      simp only [Option.isSome_some, if_true, MDRep]
      rw [absorb_append, h]; simpa using hd
  | sum b => exact h
  | state => exact h
  | reset => simp [mdStep, mdGhostStep, MDRep, absorb]
  | setState st =>
    simp only [mdStep, mdGhostStep]
    split
    · simp [MDRep, absorb]
    · exact h

/-- **every history**: after any sequence of Write/Sum/Reset/State/SetState calls the state is the Merkle–Damgård fold
of the compression function over exactly the blocks accepted since the last Reset/SetState -/
theorem C14_md_history (M : MD) (ops : List Op) :
    ∃ g : MDGhost, MDRep M (mdRun M M.iv ops) g := by
  suffices h : ∀ s g, MDRep M s g → ∃ g', MDRep M (mdRun M s ops) g' from h _ ⟨M.iv, []⟩ (by simp [MDRep, absorb])
  induction ops with
  | nil => intro s g h; exact ⟨g, h⟩
  | cons op ops ih => intro s g h; exact ih _ _ (C14_md_rep_step M s g op h)

/-- `Sum(b)` returns `b ‖ state`, leaves the state unchanged (hence is idempotent and does not absorb `b`) -/
theorem C14_md_sum (M : MD) (s b : Bytes) : mdStep M s (.sum b) = (s, .bytes (b ++ s)) := rfl

/-- refused calls leave the hasher unchanged -/
theorem C14_md_error_leaves_state (M : MD) (s : Bytes) (op : Op) (h : (mdStep M s op).2 = .err) :
    (mdStep M s op).1 = s := by
  cases op with
  | write p =>
    simp only [mdStep] at h ⊢
    cases hd : absorb M s (chunks M.bs p) with
    | none => rfl
    | some s' => rw [hd] at h; simp at h
  | setState st =>
    simp only [mdStep] at h ⊢
    split
    · rename_i hc; rw [if_pos hc] at h; simp at h
    · rfl
  | sum b => rfl
  | state => rfl
  | reset => simp [mdStep] at h

/-- `State` ∘ `SetState` is the identity on valid states: the saved state restored into any hasher gives back the
saved hasher -/
theorem C14_md_state_setState (M : MD) (s s2 : Bytes) (hv : M.valid s = true) :
    (mdStep M s .state) = (s, .bytes s) ∧ mdStep M s2 (.setState s) = (s, .unit) := by
  simp [mdStep, hv]

/-- validity is an invariant of every history when the compression function produces valid blocks -/
theorem C14_md_valid_invariant (M : MD) (hiv : M.valid M.iv = true)
    (hf : ∀ s b s', M.f s b = some s' → M.valid s' = true) (ops : List Op) :
    M.valid (mdRun M M.iv ops) = true := by
  suffices h : ∀ s, M.valid s = true → M.valid (mdRun M s ops) = true from h _ hiv
  induction ops with
  | nil => intro s h; exact h
  | cons op ops ih =>
    intro s h
    apply ih
    cases op with
    | write p =>
      simp only [mdStep]
      cases hd : absorb M s (chunks M.bs p) with
      | none => exact h
      | some s' =>
        simp only
        clear ih
        generalize chunks M.bs p = bl at hd
        induction bl generalizing s with
        | nil => simp [absorb] at hd; subst hd; exact h
        | cons b bl ihb =>
          simp only [absorb] at hd
          cases hb : M.f s b with
          | none => rw [hb] at hd; simp at hd
          | some s1 => rw [hb] at hd; exact ihb s1 (hf _ _ _ hb) hd
    | sum b => exact h
    | state => exact h
    | reset => exact hiv
    | setState st =>
      simp only [mdStep]
      split
      · rename_i hc; exact hc
      · exact h

/-- **splitting a write at a block boundary is unobservable** -/
theorem C14_md_split_write (M : MD) (s : Bytes) (a b : Bytes) (hbs : 0 < M.bs) (ha : M.bs ∣ a.length) :
    (mdStep M s (.write (a ++ b))).2 ≠ .err →
      (mdStep M (mdStep M s (.write a)).1 (.write b)).1 = (mdStep M s (.write (a ++ b))).1 ∧
      (mdStep M s (.write a)).2 ≠ .err ∧ (mdStep M (mdStep M s (.write a)).1 (.write b)).2 ≠ .err := by
  intro h
  simp only [mdStep, chunks_append M.bs a b hbs ha, absorb_append] at h ⊢
  cases hda : absorb M s (chunks M.bs a) with
  | none => rw [hda] at h; simp at h
  | some s1 =>
    rw [hda] at h
    simp only [Option.bind_some] at h ⊢
    cases hdb : absorb M s1 (chunks M.bs b) with
    | none => rw [hdb] at h; simp at h
    | some s2 => simp

-- non-vacuity of the hypotheses of C14_md_valid_invariant / C14_md_split_write for a toy compression function
example : let M : MD := { bs := 2, f := fun s b => some (List.zipWith (· + ·) s b), valid := fun _ => true, iv := [0, 0] }
    M.valid M.iv = true ∧ (∀ s b s', M.f s b = some s' → M.valid s' = true) ∧ 0 < M.bs ∧ M.bs ∣ [1, 2, 3, 4].length := by
  refine ⟨rfl, fun _ _ _ _ => rfl, by decide, by decide⟩

example : (mdStep { bs := 2, f := fun s b => some (List.zipWith (· + ·) s b), valid := fun _ => true, iv := [0, 0] }
    [0, 0] (.write [1, 2, 3, 4, 5])).1 = [4, 11] := by
  simp [mdStep, chunks, absorb]

/-- digest size (`C14 md regsize`): the digest of the empty message of a registered Merkle–Damgård hasher is its iv,
`(t/2)·eb` bytes -/
theorem C14_md_digest_size (C : CInst) :
    (mdStep C.md C.md.iv (.sum [])).2 = .bytes C.md.iv ∧ C.md.iv.length = (C.inst.t / 2) * C.eb := by
  constructor
  · simp [mdStep]
  · simp [CInst.md]

/-! ### koalabear/vortex sponge `HashPoseidon2`: the documented function is a function of the ZERO-PADDED input -/

/-- the padded input is a whole number of rate blocks -/
theorem C14_vx_pad_length (x : List Nat) : (vxPad x).length % 16 = 0 := by
  simp only [vxPad, List.length_append, List.length_replicate]; omega

/-- padding a padded input adds nothing -/
theorem C14_vx_pad_idem (x : List Nat) : vxPad (vxPad x) = vxPad x := by
  have h : (16 - (vxPad x).length % 16) % 16 = 0 := by rw [C14_vx_pad_length]
  have e : vxPad (vxPad x) = vxPad x ++ List.replicate ((16 - (vxPad x).length % 16) % 16) 0 := rfl
  rw [e, h]; simp

/-- "The input is zero-padded": an input and its zero-padding to the next multiple of the rate have the same digest -/
theorem C14_vx_hash_zero_padded (C : CInst) (x : List Nat) : vxHash C (vxPad x) = vxHash C x := by
  unfold vxHash; rw [C14_vx_pad_idem]

/-- the same, spelled out for a final partial block: `k = 16 - len(x) % 16` explicit zeros change nothing -/
theorem C14_vx_hash_append_zeros (C : CInst) (x : List Nat) (h : x.length % 16 ≠ 0) :
    vxHash C (x ++ List.replicate (16 - x.length % 16) 0) = vxHash C x := by
  have hk : (16 - x.length % 16) % 16 = 16 - x.length % 16 := by omega
  have : x ++ List.replicate (16 - x.length % 16) 0 = vxPad x := by simp only [vxPad, hk]
  rw [this, C14_vx_hash_zero_padded]

/-- a whole number of blocks is not padded -/
theorem C14_vx_pad_full (x : List Nat) (h : x.length % 16 = 0) : vxPad x = x := by
  simp [vxPad, h]

example : vxPad [1, 2, 3] = [1, 2, 3, 0, 0, 0, 0, 0, 0, 0, 0, 0, 0, 0, 0, 0] := by decide

end GV.Poseidon2

/-! ## Part 3: ring-SIS — limb decomposition -/
namespace GV.SIS
open Finset

theorem digits_sum (B e n : ℕ) : ∑ j ∈ range n, (e / B ^ j % B) * B ^ j = e % B ^ n := by
  induction n with
  | zero => simp [Nat.mod_one]
  | succ n ih => rw [Finset.sum_range_succ, ih, Nat.mod_pow_succ]; ring

/-- the limb iterator yields the little-endian base-2^b digits of the regular form: there are `Bytes/(b/8)` limbs,
each `< 2^b`, and `Σⱼ limbⱼ · 2^(b·j) = e` for every canonical element `e` -/
theorem C14_sis_limbs (eb lb e : ℕ) (hd : lb ∣ eb) (he : e < 256 ^ eb) :
    (limbsOf eb lb e).length = eb / lb ∧ (∀ l ∈ limbsOf eb lb e, l < 256 ^ lb) ∧
    ∑ j ∈ range (eb / lb), (limbsOf eb lb e).getD j 0 * (256 ^ lb) ^ j = e := by
  refine ⟨by simp [limbsOf], ?_, ?_⟩
  · intro l hl
    simp only [limbsOf, List.mem_map] at hl
    obtain ⟨j, _, rfl⟩ := hl
    exact Nat.mod_lt _ (pow_pos (by norm_num) _)
  · have hg : ∀ j ∈ range (eb / lb), (limbsOf eb lb e).getD j 0 * (256 ^ lb) ^ j =
        (e / (256 ^ lb) ^ j % 256 ^ lb) * (256 ^ lb) ^ j := by
      intro j hj
      have hj' : j < eb / lb := Finset.mem_range.mp hj
      simp [limbsOf, List.getD_eq_getElem?_getD, hj', pow_mul]
    rw [Finset.sum_congr rfl hg, digits_sum, ← pow_mul, Nat.mul_div_cancel' hd, Nat.mod_eq_of_lt he]

example : limbsOf 4 2 0x01020304 = [0x0304, 0x0102] := by decide

/-- multiplication by X is the negacyclic shift (X^d = −1): the coefficient leaving at the top re-enters negated -/
theorem C14_sis_mulX (q : ℕ) (b : List ℕ) (l : ℕ) : mulX q (b ++ [l]) = ((q - l % q) % q) :: b := by
  simp [mulX]

/-! ### the all-zero-chunk shortcut and the output vector

`RSis.InnerHash` returns early when the `d` limbs of a chunk are all zero ("FFT(0) = 0"). In the specification this is
`C14_sis_zero_chunk`: the product of the zero polynomial with a key polynomial is zero, and adding it leaves the
(reduced) accumulator unchanged – for EVERY accumulator, so the shortcut is only sound if the accumulator has been
initialised before (the Go code zeroes `res` up front; the `sisd` op hands over an output vector holding garbage). -/

theorem mulX_length (q : ℕ) (b : List ℕ) : (mulX q b).length = b.length := by
  rcases List.eq_nil_or_concat b with rfl | ⟨l, x, rfl⟩
  · simp [mulX]
  · simp [mulX]

theorem axpy_zero (q : ℕ) (s : List ℕ) :
    axpy q 0 (List.replicate s.length 0) s = List.replicate s.length 0 := by
  induction s with
  | nil => simp [axpy]
  | cons x xs ih => simpa [axpy, List.replicate_succ] using ih

theorem negacyclic_zero_aux (q n : ℕ) : ∀ s : List ℕ,
    ((List.replicate n 0).foldl (fun (st : List ℕ × List ℕ) ai => (axpy q ai st.1 st.2, mulX q st.2))
      (List.replicate s.length 0, s)).1 = List.replicate s.length 0 := by
  induction n with
  | zero => intro s; simp
  | succ n ih =>
    intro s
    rw [List.replicate_succ, List.foldl_cons]
    simp only [axpy_zero]
    have := ih (mulX q s)
    rw [mulX_length] at this
    exact this

/-- the zero polynomial times any key polynomial is the zero polynomial (whatever the number `n` of zero limbs read) -/
theorem C14_sis_zero_chunk (q n : ℕ) (key : List ℕ) :
    negacyclic q (List.replicate n 0) key = List.replicate key.length 0 :=
  negacyclic_zero_aux q n key

theorem polyAdd_zero (q : ℕ) (acc : List ℕ) (hacc : ∀ x ∈ acc, x < q) :
    polyAdd q acc (List.replicate acc.length 0) = acc := by
  induction acc with
  | nil => simp [polyAdd]
  | cons x xs ih =>
    have hx : x % q = x := Nat.mod_eq_of_lt (hacc x (by simp))
    have := ih (fun y hy => hacc y (by simp [hy]))
    simp_all [polyAdd, List.replicate_succ]

/-- skipping an all-zero chunk is sound: it contributes nothing to a reduced accumulator of the right length -/
theorem C14_sis_skip_zero_chunk (q n : ℕ) (acc key : List ℕ) (hlen : key.length = acc.length)
    (hacc : ∀ x ∈ acc, x < q) :
    polyAdd q acc (negacyclic q (List.replicate n 0) key) = acc := by
  rw [C14_sis_zero_chunk, hlen, polyAdd_zero q acc hacc]

/-- consequently the empty message and every all-zero message hash to the zero vector: the output does not keep
anything of what the output vector held before the call -/
theorem C14_sis_hash_zero_message (P : Params) (n : ℕ) (hn : n ≤ P.maxNb) (hA : ∀ a ∈ P.A, a.length = P.d)
    (hq : 0 < P.q) :
    hash P (List.replicate n 0) = some (List.replicate P.d 0) := by
  have hm : (List.replicate n 0).flatMap (limbsOf P.eb P.lb) = List.replicate (n * (P.eb / P.lb)) 0 := by
    induction n with
    | zero => simp
    | succ k ih =>
      have ih' := ih (by omega)
      rw [List.replicate_succ, List.flatMap_cons, ih']
      have : limbsOf P.eb P.lb 0 = List.replicate (P.eb / P.lb) 0 := by
        simp [limbsOf, List.eq_replicate_iff]
      rw [this, ← List.replicate_add]; congr 1; ring
  have hcs : ∀ (k m : ℕ), chunksOf P.d k (List.replicate m 0) = List.replicate k (List.replicate P.d 0) := by
    intro k
    induction k with
    | zero => intro m; simp [chunksOf]
    | succ k ih =>
      intro m
      simp only [chunksOf, List.take_replicate, List.drop_replicate, List.length_replicate, ih,
        List.replicate_succ, ← List.replicate_add]
      congr 2; omega
  unfold hash
  rw [if_neg (by simp; omega)]
  simp only [hm, hcs]
  congr 1
  generalize P.A.length = k
  have hzw : ∀ (A : List (List ℕ)) (k : ℕ), (∀ a ∈ A, a.length = P.d) →
      List.zipWith (fun a c => negacyclic P.q c a) A (List.replicate k (List.replicate P.d 0)) =
        List.replicate (min A.length k) (List.replicate P.d 0) := by
    intro A
    induction A with
    | nil => intro k _; simp
    | cons a A ih =>
      intro k h
      cases k with
      | zero => simp
      | succ k =>
        rw [List.replicate_succ, List.zipWith_cons_cons, C14_sis_zero_chunk, h a (by simp),
          ih k (fun b hb => h b (by simp [hb]))]
        simp [List.replicate_succ, Nat.succ_min_succ]
  rw [hzw P.A k hA]
  generalize min P.A.length k = j
  induction j with
  | zero => simp
  | succ j ih =>
    rw [List.replicate_succ, List.foldl_cons]
    have : polyAdd P.q (List.replicate P.d 0) (List.replicate P.d 0) = List.replicate P.d 0 := by
      have := polyAdd_zero P.q (List.replicate P.d 0) (by intro x hx; simp at hx; omega)
      simpa using this
    rw [this, ih]

end GV.SIS
