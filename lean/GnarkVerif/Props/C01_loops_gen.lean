import GnarkVerif.Proofs.FieldLoopsGen
import GnarkVerif.Gen.Imp.InverseTail
import GnarkVerif.Props.C01
import GnarkVerif.Props.C01_chains
import Mathlib.Algebra.Field.Basic
/-
C01_loops_gen — tie T for the data-dependent loops of the field packages: `BatchInvert`, and the wrapper `Legendre`.

Gen/Imp/FieldLoops.lean is REGENERATED on every run (tools/goslp/imp_fieldloops.go, sub-pass imp:FieldLoops) from
`func BatchInvert(a []Element) []Element` of element.go of ALL 23 field packages, statement by statement; the translator is fatal unless the
23 packages give the same text, so the theorems below speak about every package.

TRANSLATED: the two index loops (`for i := 0; i < len(a); i++` with `continue` on zero entries, `for i := len(a)-1; i >= 0; i--`), the
writes `res[i] = accumulator`, `res[i].Mul(&res[i], &accumulator)`, the early return on the empty slice, `make`; `[]Element` is a list by value
(the translator CHECKS that the argument slice is only read and that `res` is the fresh `make` local).
PARAMETERS of the generated defs (not translated), with their ASSUMED behaviour as hypotheses of the theorems:
  * `mul`, `inv`, `one`, `isZero`, `zero` — `Element.Mul`, `Element.Inverse`, `One()`, `Element.IsZero`, the zero value of `Element`.
    The theorems instantiate them with the operations of Model/Field.lean (whose meaning is C01_mul_exact / C01_inv / …, limb level: C01_limb*),
    or with the operations of an arbitrary field (`C01gen_batchInvert_field`);
  * `bsNew`, `bsSet`, `bsTest` — `bitset.New / Set / Test` of github.com/bits-and-blooms/bitset (outside /repo): ASSUMED
    `Test (New n) j = false` and `Test (Set b i) j = (i = j ∨ Test b j)` for indices ≥ 0 (`FieldLoopsGen.BitsOK`).
`Legendre` (same file, same 23 packages): PARAMETERS `isOne` (`Element.IsOne`), `legendreExp` = the exponentiation to (q-1)/2 that the packages
write `l.expByLegendreExp(*z)` (addition chain, exponent pinned per package by Props/C01_chains `legendre_expo`; `C01gen_legendre_chain`) or
`l.Exp(*z, _bLegendreExponentElement)` (stark-curve/fr; the value of that package variable is ASSUMED to be (q-1)/2).
Post-check of `Inverse` (Gen/Imp/InverseTail.lean, the 18 packages with Pornin's inversion = those declaring `inverseExp`; secp256k1 fp/fr,
goldilocks, koalabear, babybear have another Inverse and are NOT covered): only the statements after the last loop are translated (each pinned
literally by the translator); the loops are an uninterpreted input `v`; `inverseExp` is a PARAMETER read as `x^(q-2)`.
Not modelled: integer overflow of `int`, `uint(i)` is the identity for the checked non-negative arguments, out-of-range panics.

Abstraction function and invariants: Proofs/FieldLoopsGen.lean (`res` = finished prefix ++ untouched tail; `ZInv`).
-/
namespace GV.FieldLoopsGen
open GV.Field GV.GoImp GV.Gen.Imp.FieldLoops

/-- a concrete bit set satisfying `BitsOK`: functions `Int → Bool` -/
def fnNew (_ : Int) : Int → Bool := fun _ => false
def fnSet (b : Int → Bool) (i : Int) : Int → Bool := fun j => decide (i = j) || b j
def fnTest (b : Int → Bool) (j : Int) : Bool := b j
theorem fnBitsOK : BitsOK fnNew fnSet fnTest := ⟨fun _ _ _ => rfl, fun _ _ _ _ _ => rfl⟩

section model
variable (p : Params)

theorem batchFwd_eq_fwdG (xs : List Nat) : ∀ acc,
    batchFwd p xs acc = fwdG 0 (mul p) (fun x => decide (x = 0)) xs acc := by
  induction xs with
  | nil => intro acc; rfl
  | cons a as ih =>
    intro acc
    by_cases h : a = 0
    · simp [batchFwd, fwdG, h, ih]
    · simp [batchFwd, fwdG, h, ih]

theorem batchBwd_eq_bwdG (xs : List Nat) : ∀ (rs : List Nat) acc,
    batchBwd p xs rs acc = bwdG 0 (mul p) (fun x => decide (x = 0)) xs rs acc := by
  induction xs with
  | nil => intro rs acc; simp [batchBwd, bwdG]
  | cons a as ih =>
    intro rs acc
    cases rs with
    | nil => simp [batchBwd, bwdG]
    | cons r rs =>
      by_cases h : a = 0
      · simp [batchBwd, bwdG, h, ih]
      · simp [batchBwd, bwdG, h, ih]

theorem batchInv_eq_batchG (xs : List Nat) :
    batchInv p xs = batchG 0 (one p) (mul p) (inv p) (fun x => decide (x = 0)) xs := by
  simp only [batchInv, batchG, batchFwd_eq_fwdG, batchBwd_eq_bwdG]

variable {B : Type} (bsNew : Int → B) (bsSet : B → Int → B) (bsTest : B → Int → Bool)

/-- REFINEMENT: the regenerated `BatchInvert`, run on the model's field operations, IS the model's `batchInv` — for every list
(no canonicity, no primality needed), for every bit set that behaves as assumed -/
theorem C01gen_batchInvert_eq_model (hb : BitsOK bsNew bsSet bsTest) (xs : List Nat) :
    BatchInvert 0 (one p) (mul p) (inv p) (fun x => decide (x = 0)) bsNew bsSet bsTest xs = batchInv p xs := by
  rw [batchInvert_eq_batchG _ _ _ _ _ _ _ _ hb, batchInv_eq_batchG]
example : BatchInvert 0 (one p251) (mul p251) (inv p251) (fun x => decide (x = 0)) fnNew fnSet fnTest [3, 0, 250, 0, 1]
    = batchInv p251 [3, 0, 250, 0, 1] := C01gen_batchInvert_eq_model p251 _ _ _ fnBitsOK _

/-- C01_batchInv transferred to the generated code: element-wise inverse with `0 ↦ 0`, for every list of canonical elements -/
theorem C01gen_batchInvert [Fact p.q.Prime] (h : p.OK) (hb : BitsOK bsNew bsSet bsTest) (xs : List Nat) (hxs : ∀ x ∈ xs, x < p.q) :
    BatchInvert 0 (one p) (mul p) (inv p) (fun x => decide (x = 0)) bsNew bsSet bsTest xs = xs.map (inv p) := by
  rw [C01gen_batchInvert_eq_model p _ _ _ hb, C01_batchInv p h xs hxs]
example : BatchInvert 0 (one p251) (mul p251) (inv p251) (fun x => decide (x = 0)) fnNew fnSet fnTest [3, 0, 250, 0, 1]
    = [3, 0, 250, 0, 1].map (inv p251) := C01gen_batchInvert p251 fnNew fnSet fnTest ok251 fnBitsOK [3, 0, 250, 0, 1] (by decide)

/-- … and its abstract reading: entry `i` of the result denotes `(abs a[i])⁻¹` in `ZMod q` (with `0⁻¹ = 0`), the length is kept -/
theorem C01gen_batchInvert_abs [Fact p.q.Prime] (h : p.OK) (hb : BitsOK bsNew bsSet bsTest) (xs : List Nat) (hxs : ∀ x ∈ xs, x < p.q) :
    (BatchInvert 0 (one p) (mul p) (inv p) (fun x => decide (x = 0)) bsNew bsSet bsTest xs).map (abs p)
      = xs.map (fun x => (abs p x)⁻¹) := by
  rw [C01gen_batchInvert p bsNew bsSet bsTest h hb xs hxs, List.map_map]
  apply List.map_congr_left
  intro x hx
  exact (C01_inv p h x (hxs x hx)).2
example : (BatchInvert 0 (one p251) (mul p251) (inv p251) (fun x => decide (x = 0)) fnNew fnSet fnTest [3, 0, 250]).map (abs p251)
    = [3, 0, 250].map (fun x => (abs p251 x)⁻¹) := C01gen_batchInvert_abs p251 fnNew fnSet fnTest ok251 fnBitsOK [3, 0, 250] (by decide)

/-! ### Legendre -/

/-- REFINEMENT: the regenerated `Legendre`, with `legendreExp` read as the model's exponentiation to `(q-1)/2`, IS the model's `legendre`
(the Go text tests the POWER for zero, the model tests the argument: the same for canonical arguments, `q` an odd prime) -/
theorem C01gen_legendre_eq_model [Fact p.q.Prime] (h : p.OK) (x : Nat) (hx : x < p.q) :
    Legendre 0 (fun y => decide (y = 0)) (fun y => decide (y = one p)) (fun y => expNat p y ((p.q - 1) / 2)) x = legendre p x := by
  have hn : (p.q - 1) / 2 ≠ 0 := by have := h.q_gt; have := h.q_odd; omega
  obtain ⟨h1, h2⟩ := C01_expNat p h x ((p.q - 1) / 2) hx
  have hz : expNat p x ((p.q - 1) / 2) = 0 ↔ x = 0 := by
    rw [← abs_eq_zero_iff p h _ h1, h2, pow_eq_zero_iff hn, abs_eq_zero_iff p h x hx]
  unfold Legendre legendre
  by_cases e : x = 0
  · subst e; simp [hz.2 rfl]
  · have hne : expNat p x ((p.q - 1) / 2) ≠ 0 := fun e' => e (hz.1 e')
    simp [e, hne]
example : Legendre 0 (fun y => decide (y = 0)) (fun y => decide (y = one p13)) (fun y => expNat p13 y ((p13.q - 1) / 2)) 5 = legendre p13 5 :=
  C01gen_legendre_eq_model p13 ok13 5 (by decide)

/-- the same with `legendreExp` read as ANY translated addition chain whose exponent is `(q-1)/2` (per package: `legendre_expo` of
Props/C01_chains) -/
theorem C01gen_legendre_chain [Fact p.q.Prime] (h : p.OK) (c : GV.Chain.Chain) (hc : GV.Chain.expoNat c = some ((p.q - 1) / 2))
    (x : Nat) (hx : x < p.q) :
    Legendre 0 (fun y => decide (y = 0)) (fun y => decide (y = one p)) (GV.Chain.eval (GV.Chain.montOps p) c) x = legendre p x := by
  rw [← C01gen_legendre_eq_model p h x hx]
  unfold Legendre
  rw [(GV.Chain.C01_chain_mont p h c _ hc x hx).2.2]

/-- C01_legendre transferred to the generated code: 0 exactly on 0, 1 exactly on the nonzero squares, -1 exactly on the non-squares -/
theorem C01gen_legendre [Fact p.q.Prime] (h : p.OK) (x : Nat) (hx : x < p.q) :
    let L := Legendre 0 (fun y => decide (y = 0)) (fun y => decide (y = one p)) (fun y => expNat p y ((p.q - 1) / 2)) x
    (L = 0 ↔ x = 0) ∧ (L = 1 ↔ IsSquare (abs p x) ∧ abs p x ≠ 0) ∧ (L = -1 ↔ ¬ IsSquare (abs p x)) := by
  intro L
  have e : L = legendre p x := C01gen_legendre_eq_model p h x hx
  rw [e]; exact C01_legendre p h x hx
example : Legendre 0 (fun y => decide (y = 0)) (fun y => decide (y = one p13)) (fun y => expNat p13 y ((p13.q - 1) / 2)) 0 = 0 :=
  ((C01gen_legendre p13 ok13 0 (by decide)).1).2 rfl

/-! ### the post-check of Inverse -/

open GV.Gen.Imp.InverseTail in
/-- CERTIFIED RESULT: whatever canonical value `v` the (untranslated) Pornin loops left and whatever the correction factor is, the statements
after the last loop of `Inverse` return the model's inverse of every canonical NONZERO `x`: either the product test `x·z = 1` passes, and
then `z` is the inverse, or the code falls back to `inverseExp` (PARAMETER, read as the model's `x^(q-2)`). For `x = 0` the tail returns
`v·corr` (the test `!u.IsZero()` disables the fallback): `Inverse(0) = 0` relies on the loops leaving `v = 0`, which is NOT covered here. -/
theorem C01gen_inverse_tail [Fact p.q.Prime] (h : p.OK) (x v corr : Nat) (hx : x < p.q) (hx0 : x ≠ 0) (hv : v < p.q) (hc : corr < p.R) :
    Inverse.tail (mul p) (fun y => decide (y = 0)) (fun y => decide (y = one p)) corr (fun u => expNat p u (p.q - 2)) x v = inv p x := by
  have hz : mul p v corr < p.q := mul_lt p h v corr hv hc
  have hinv : inv p x = expNat p x (p.q - 2) := by simp [inv, hx0]
  unfold Inverse.tail
  by_cases e : mul p x (mul p v corr) = one p
  · simp only [e, decide_true, Bool.not_true, Bool.false_and, Bool.false_eq_true, if_false]
    apply C01_abs_injective p h _ _ hz (C01_inv p h x hx).1
    have h1 : abs p x * abs p (mul p v corr) = 1 := by
      rw [← abs_mul p h x _ hx (q_lt_R' p h hz), e, abs_one p h]
    rw [(C01_inv p h x hx).2]
    exact eq_inv_of_mul_eq_one_right h1
  · simp [e, hx0, hinv]
example : GV.Gen.Imp.InverseTail.Inverse.tail (mul p13) (fun y => decide (y = 0)) (fun y => decide (y = one p13)) 5
    (fun u => expNat p13 u (p13.q - 2)) 7 11 = inv p13 7 :=
  C01gen_inverse_tail p13 ok13 7 11 5 (by decide) (by decide) (by decide) (by decide)

/-- the tail on `x = 0` returns `v·corr`, whatever it is (so the zero case of `Inverse` is the loops' business) -/
theorem C01gen_inverse_tail_zero (v corr : Nat) (ih : Nat → Nat) :
    GV.Gen.Imp.InverseTail.Inverse.tail (mul p) (fun y => decide (y = 0)) (fun y => decide (y = one p)) corr ih 0 v = mul p v corr := by
  simp [GV.Gen.Imp.InverseTail.Inverse.tail]

end model

section field
variable {K : Type} [Field K] [DecidableEq K]

/-- accumulator of the backward pass after a segment -/
def bwdAccK (as : List K) (c : K) : K := as.foldl (fun acc a => if a = 0 then acc else acc * a) c

theorem bwdG_append (l1 l2 r2 : List K) : ∀ (r1 : List K) (c : K), l1.length = r1.length →
    bwdG 0 (· * ·) (fun x => decide (x = 0)) (l1 ++ l2) (r1 ++ r2) c
      = bwdG 0 (· * ·) (fun x => decide (x = 0)) l1 r1 c ++ bwdG 0 (· * ·) (fun x => decide (x = 0)) l2 r2 (bwdAccK l1 c) := by
  induction l1 with
  | nil =>
    intro r1 c hl
    cases r1 with
    | nil => simp [bwdG, bwdAccK]
    | cons _ _ => simp at hl
  | cons a l1 ih =>
    intro r1 c hl
    cases r1 with
    | nil => simp at hl
    | cons r r1 =>
      simp only [List.length_cons, Nat.add_right_cancel_iff] at hl
      by_cases ha : a = 0
      · simp [bwdG, bwdAccK, ha, ih r1 c hl]
      · simp [bwdG, bwdAccK, ha, ih r1 _ hl]

theorem batchK_main (xs : List K) : ∀ (acc c : K), acc ≠ 0 →
    c = ((fwdG 0 (· * ·) (fun x => decide (x = 0)) xs acc).2)⁻¹ →
    bwdG 0 (· * ·) (fun x => decide (x = 0)) xs.reverse (fwdG 0 (· * ·) (fun x => decide (x = 0)) xs acc).1.reverse c
        = (xs.map (·⁻¹)).reverse ∧
    bwdAccK xs.reverse c = acc⁻¹ := by
  induction xs with
  | nil => intro acc c _ hc; simp [fwdG, bwdG, bwdAccK, hc]
  | cons a as ih =>
    intro acc c hne hc
    have hlen := fun acc' => fwdG_length (0 : K) (· * ·) (fun x => decide (x = 0)) as acc'
    by_cases h0 : a = 0
    · subst h0
      simp only [fwdG, decide_true, if_true] at hc ⊢
      obtain ⟨i1, i2⟩ := ih acc c hne hc
      refine ⟨?_, ?_⟩
      · simp only [List.reverse_cons, List.map_cons]
        rw [bwdG_append _ _ _ _ _ (by simp [hlen]), i1]
        simp [bwdG]
      · simpa [bwdAccK, List.foldl_append] using i2
    · have hd : decide (a = 0) = false := by simp [h0]
      simp only [fwdG, hd, Bool.false_eq_true, if_false] at hc ⊢
      obtain ⟨i1, i2⟩ := ih (acc * a) c (mul_ne_zero hne h0) hc
      have i2' : bwdAccK as.reverse c = (acc * a)⁻¹ := i2
      refine ⟨?_, ?_⟩
      · simp only [List.reverse_cons, List.map_cons]
        rw [bwdG_append _ _ _ _ _ (by simp [hlen]), i1, i2']
        simp only [bwdG, hd, Bool.false_eq_true, if_false]
        congr 2
        field_simp
      · have : bwdAccK (as.reverse ++ [a]) c = bwdAccK as.reverse c * a := by
          simp [bwdAccK, List.foldl_append, h0]
        rw [List.reverse_cons, this, i2']
        field_simp

variable {B : Type} (bsNew : Int → B) (bsSet : B → Int → B) (bsTest : B → Int → Bool)

/-- FIELD level: over ANY field, with `Mul` / `Inverse` / `One` / `IsZero` read as the field operations, the regenerated `BatchInvert`
returns the element-wise inverse (`0 ↦ 0`) of EVERY list -/
theorem C01gen_batchInvert_field (hb : BitsOK bsNew bsSet bsTest) (a : List K) :
    BatchInvert (0 : K) 1 (· * ·) (·⁻¹) (fun x => decide (x = 0)) bsNew bsSet bsTest a = a.map (·⁻¹) := by
  rw [batchInvert_eq_batchG _ _ _ _ _ _ _ _ hb, batchG]
  rw [(batchK_main a 1 _ one_ne_zero rfl).1, List.reverse_reverse]
example : BatchInvert (0 : ℚ) 1 (· * ·) (·⁻¹) (fun x => decide (x = 0)) fnNew fnSet fnTest [2, 0, 1 / 3]
    = [2, 0, 1 / 3].map (·⁻¹) := C01gen_batchInvert_field _ _ _ fnBitsOK _

end field

end GV.FieldLoopsGen
